(* C06 — lemmas about entrywise kernel matrices under indexing, multi-output layout, the
   kernel parameter/buffer table and active_dims. *)
From Coq Require Import ZArith List Bool String Arith Lia.
From GPV Require Import Base.PySlice Models.C11_mtmvn Proofs.C11_mtmvn Models.C06_index
     Models.C06_lazyslice Gen.LazySlice_gen Proofs.C06_lazyslice.
Import ListNotations.

(* ------------------------------------------------------------------ (i) entrywise kernels *)
Section Entrywise.
Context {X V : Type}.
Variable k : X -> X -> V.

Lemma index_commutes (x1 x2 : nat -> X) (r c : nat -> nat) i j :
  gatherF r c (Kmat k x1 x2) i j = Kmat k (fun a => x1 (r a)) (fun b => x2 (c b)) i j.
Proof. reflexivity. Qed.

Lemma diag_is_diagonal (x1 x2 : nat -> X) i : Kdiag k x1 x2 i = Kmat k x1 x2 i i.
Proof. reflexivity. Qed.

Lemma diag_of_indexed (x1 x2 : nat -> X) (r : nat -> nat) i :
  Kdiag k (fun a => x1 (r a)) (fun a => x2 (r a)) i = gatherF r r (Kmat k x1 x2) i i.
Proof. reflexivity. Qed.

Lemma transpose_swaps_inputs (x1 x2 : nat -> X) : (forall a b, k a b = k b a) ->
  forall i j, Kmat k x2 x1 i j = transposeF (Kmat k x1 x2) i j.
Proof. intros Hs i j. unfold Kmat, transposeF. apply Hs. Qed.

(* and the symmetry hypothesis is needed: a non-symmetric "kernel" refutes it *)
Lemma stacked_blocks n m (x1 x1' x2 x2' : nat -> X) i j :
  Kmat k (stackF n x1 x1') (stackF m x2 x2') i j =
  blockF n m (Kmat k x1 x2) (Kmat k x1 x2') (Kmat k x1' x2) (Kmat k x1' x2') i j.
Proof. unfold Kmat, stackF, blockF. destruct (i <? n); destruct (j <? m); reflexivity. Qed.

(* batched: indexing the batch (by any list, with repetition / broadcasting projections pb, p1, p2),
   rows and columns jointly ("absorbed" tensor indices) or separately *)
Lemma batch_index_commutes {B B' : Type} (kb : B -> X -> X -> V) (x1 x2 : B -> nat -> X)
      (bs : B' -> B) (r c : nat -> nat) b i j :
  Kbatch kb x1 x2 (bs b) (r i) (c j) =
  Kbatch (fun b' => kb (bs b')) (fun b' a => x1 (bs b') (r a)) (fun b' a => x2 (bs b') (c a)) b i j.
Proof. reflexivity. Qed.

(* ---- list level, Python index expressions *)
Lemma nth_Kdense_row (X1 X2 : list X) p d : (p < List.length X1)%nat ->
  nth p (Kdense k X1 X2) [] = map (fun b => k (nth p X1 d) b) X2.
Proof.
  intros Hp. unfold Kdense.
  rewrite (nth_indep _ [] ((fun a => map (fun b => k a b) X2) d)) by (rewrite map_length; exact Hp).
  apply (map_nth (fun a => map (fun b => k a b) X2)).
Qed.

Lemma sel_map_in_range {A Bt} (f : A -> Bt) (l : list A) (pos : list nat) d d' :
  Forall (fun p => (p < List.length l)%nat) pos -> sel d' pos (map f l) = map f (sel d pos l).
Proof.
  intros H. unfold sel. rewrite map_map. apply map_ext_in. intros p Hp.
  rewrite Forall_forall in H. specialize (H p Hp).
  rewrite (nth_indep _ d' (f d)) by (rewrite map_length; exact H). apply map_nth.
Qed.

Lemma Kdense_gather (X1 X2 : list X) (rows cols : list nat) d dv :
  Forall (fun p => (p < List.length X1)%nat) rows -> Forall (fun p => (p < List.length X2)%nat) cols ->
  Kdense k (sel d rows X1) (sel d cols X2) = map (sel dv cols) (sel [] rows (Kdense k X1 X2)).
Proof.
  intros Hr Hc.
  transitivity (map (fun p => map (fun b => k (nth p X1 d) b) (sel d cols X2)) rows).
  { unfold Kdense, sel. rewrite map_map. reflexivity. }
  transitivity (map (fun p => sel dv cols (nth p (Kdense k X1 X2) [])) rows).
  2:{ change (sel [] rows (Kdense k X1 X2)) with (map (fun p => nth p (Kdense k X1 X2) []) rows).
      rewrite map_map. reflexivity. }
  apply map_ext_in. intros p Hp. rewrite Forall_forall in Hr. specialize (Hr p Hp).
  rewrite (nth_Kdense_row X1 X2 p d Hr).
  symmetry. apply sel_map_in_range. exact Hc.
Qed.

Lemma to_nat_in_range len l : (0 <= len)%Z -> Forall (fun q => (0 <= q < len)%Z) l ->
  Forall (fun p => (p < Z.to_nat len)%nat) (map Z.to_nat l).
Proof.
  intros Hl H. rewrite Forall_forall in *. intros p Hp. apply in_map_iff in Hp. destruct Hp as [q [<- Hq]].
  specialize (H q Hq). lia.
Qed.

(* K(x1[ri], x2[ci]) = K(x1, x2)[ri, ci] for every pair of Python index expressions (int, slice with
   any bounds / step, 1-D index tensor with negative or repeated entries) that torch accepts *)
Lemma index_commutes_py (X1 X2 : list X) (ri ci : pyidx) rows cols d dv :
  idx_positions (Z.of_nat (List.length X1)) ri = Some rows ->
  idx_positions (Z.of_nat (List.length X2)) ci = Some cols ->
  Kdense k (sel d (map Z.to_nat rows) X1) (sel d (map Z.to_nat cols) X2)
  = map (sel dv (map Z.to_nat cols)) (sel [] (map Z.to_nat rows) (Kdense k X1 X2)).
Proof.
  intros Hr Hc. apply Kdense_gather.
  - pose proof (idx_positions_range _ _ _ (Nat2Z.is_nonneg _) Hr) as F.
    apply to_nat_in_range in F; [|lia]. rewrite Nat2Z.id in F. exact F.
  - pose proof (idx_positions_range _ _ _ (Nat2Z.is_nonneg _) Hc) as F.
    apply to_nat_in_range in F; [|lia]. rewrite Nat2Z.id in F. exact F.
Qed.
End Entrywise.

(* ------------------------------------------------------------------ multi-output layout *)
Local Open Scope Z_scope.

Lemma zrange_length p : 0 <= p -> List.length (zrange p) = Z.to_nat p.
Proof. intros. unfold zrange. rewrite map_length, seq_length. reflexivity. Qed.

Lemma nth_zrange_block r p i : 0 <= i < p ->
  nth (Z.to_nat i) (map (fun a => r * p + a) (zrange p)) 0 = r * p + i.
Proof.
  intros Hi. unfold zrange. rewrite map_map.
  rewrite (nth_indep _ 0 ((fun a => r * p + Z.of_nat a) 0%nat)) by (rewrite map_length, seq_length; lia).
  rewrite (map_nth (fun a => r * p + Z.of_nat a)). rewrite seq_nth by lia. lia.
Qed.

Lemma nth_expand p rows i : 0 < p -> 0 <= i < p * Z.of_nat (List.length rows) ->
  nth (Z.to_nat i) (expand p rows) 0 = nth (Z.to_nat (i / p)) rows 0 * p + i mod p.
Proof.
  intros Hp. revert i. induction rows as [|r l IH]; intros i Hi.
  - cbn [List.length] in Hi. lia.
  - rewrite expand_cons. destruct (Z_lt_ge_dec i p) as [Hlt|Hge].
    + rewrite app_nth1 by (rewrite map_length, zrange_length; lia).
      rewrite nth_zrange_block by lia. rewrite Z.div_small, Z.mod_small by lia. reflexivity.
    + rewrite app_nth2 by (rewrite map_length, zrange_length; lia).
      rewrite map_length, zrange_length by lia.
      replace (Z.to_nat i - Z.to_nat p)%nat with (Z.to_nat (i - p)) by lia.
      cbn [List.length] in Hi. rewrite IH by lia.
      replace i with ((i - p) + 1 * p) at 3 4 by lia.
      rewrite Z.div_add, Z.mod_add by lia.
      replace (Z.to_nat ((i - p) / p + 1)) with (S (Z.to_nat ((i - p) / p))).
      2:{ assert (0 <= (i - p) / p) by (apply Z.div_pos; lia). lia. }
      reflexivity.
Qed.

Lemma expand_length p rows : 0 <= p -> Z.of_nat (List.length (expand p rows)) = p * Z.of_nat (List.length rows).
Proof.
  intros Hp. induction rows as [|r l IH]; [cbn; lia|].
  rewrite expand_cons, app_length, map_length, zrange_length by lia. cbn [List.length]. lia.
Qed.

Section MultiOutput.
Context {X V : Type}.
Variable k : X -> X -> Z -> Z -> V.

(* output row (a*p + s) of the matrix on x1 is output row s of the matrix on x1 shifted by a *)
Lemma multi_output_shift p q (x1 x2 : Z -> X) a s c : 0 < p -> 0 <= s ->
  MOmat p q k x1 x2 (a * p + s) c = MOmat p q k (fun t => x1 (a + t)) x2 s c.
Proof.
  intros Hp Hs. unfold MOmat.
  replace ((a * p + s) / p) with (a + s / p) by (rewrite (Z.add_comm (a * p)), Z.div_add by lia; lia).
  replace ((a * p + s) mod p) with (s mod p) by (rewrite (Z.add_comm (a * p)), Z.mod_add by lia; reflexivity).
  reflexivity.
Qed.

(* the output rows `expand p rows` / columns `expand q cols` of K(x1, x2) are K(x1[rows], x2[cols]) *)
Lemma multi_output_gather p q (x1 x2 : Z -> X) rows cols i j : 0 < p -> 0 < q ->
  0 <= i < p * Z.of_nat (List.length rows) -> 0 <= j < q * Z.of_nat (List.length cols) ->
  MOmat p q k x1 x2 (nth (Z.to_nat i) (expand p rows) 0) (nth (Z.to_nat j) (expand q cols) 0)
  = MOmat p q k (fun t => x1 (nth (Z.to_nat t) rows 0)) (fun t => x2 (nth (Z.to_nat t) cols 0)) i j.
Proof.
  intros Hp Hq Hi Hj. rewrite !nth_expand by lia. unfold MOmat.
  pose proof (Z.mod_pos_bound i p Hp). pose proof (Z.mod_pos_bound j q Hq).
  rewrite (Z.add_comm (_ * p)), (Z.add_comm (_ * q)).
  rewrite !Z.div_add, !Z.mod_add by lia.
  rewrite !(Z.div_small (_ mod _)), !Z.mod_mod by lia. rewrite !Z.add_0_l. reflexivity.
Qed.

(* interleaved layout and transposition: swapping inputs transposes the matrix when the output
   cross-covariances are swapped consistently *)
Lemma multi_output_transpose p q (x1 x2 : Z -> X) :
  (forall a b s t, k a b s t = k b a t s) ->
  forall r c, MOmat q p k x2 x1 c r = MOmat p q k x1 x2 r c.
Proof. intros Hs r c. unfold MOmat. apply Hs. Qed.

(* end to end over the REGENERATED arithmetic: when the code takes the fast path, the lazily sliced
   tensor (kernel on the sliced inputs) has exactly the requested entries *)
Lemma multi_output_fast_path_values_partial pr pc n m ri ci r c (x1 x2 : Z -> X) :
  0 < pr -> 0 < pc -> 0 <= n -> 0 <= m -> (pr <> 1 \/ pc <> 1) ->
  s_stop ri <> Some 0 -> s_stop ci <> Some 0 ->
  gen_mo_getitem pr pc (n * pr) (m * pc) (MSlice ri) (MSlice ci) = Divided r c ->
  exists r' c' rows cols reqr reqc,
    r = MSlice r' /\ c = MSlice c' /\
    slice_positions n r' = Some rows /\ slice_positions m c' = Some cols /\
    slice_positions (n * pr) ri = Some reqr /\ slice_positions (m * pc) ci = Some reqc /\
    List.length reqr = List.length (expand pr rows) /\ List.length reqc = List.length (expand pc cols) /\
    forall i j, 0 <= i < Z.of_nat (List.length reqr) -> 0 <= j < Z.of_nat (List.length reqc) ->
      MOmat pr pc k (fun t => x1 (nth (Z.to_nat t) rows 0)) (fun t => x2 (nth (Z.to_nat t) cols 0)) i j
      = MOmat pr pc k x1 x2 (nth (Z.to_nat i) reqr 0) (nth (Z.to_nat j) reqc 0).
Proof.
  intros Hpr Hpc Hn Hm Hne Hz1 Hz2 H.
  destruct (multi_output_slice_ok_partial pr pc n m ri ci r c Hpr Hpc Hn Hm Hne Hz1 Hz2 H)
    as [r' [c' [rows [cols [-> [-> [R1 [C1 [R2 C2]]]]]]]]].
  exists r', c', rows, cols, (expand pr rows), (expand pc cols).
  repeat split; auto.
  intros i j Hi Hj. rewrite expand_length in Hi, Hj by lia.
  symmetry. apply multi_output_gather; lia.
Qed.
End MultiOutput.
Local Close Scope Z_scope.

(* ------------------------------------------------------------------ (iii) the kernel's table *)
Local Open Scope string_scope.

Lemma lookup_map_other (f : string * tensor1 -> string * tensor1) nm t :
  (forall e, fst (f e) = fst e) ->
  lookup nm (map f t) = match find (fun e => String.eqb (fst e) nm) t with
                        | Some e => Some (snd (f e)) | None => None end.
Proof.
  intros Hf. unfold lookup. induction t as [|e t IH]; [reflexivity|].
  cbn [map find]. rewrite Hf. destruct (String.eqb (fst e) nm); [reflexivity|exact IH].
Qed.

Lemma getitem_preserves_active_dims pos t : lookup ad_name (kernel_getitem pos t) = lookup ad_name t.
Proof.
  unfold kernel_getitem. rewrite lookup_map_other.
  - unfold lookup. destruct (find _ t) as [e|] eqn:E; [|reflexivity].
    apply find_some in E. destruct E as [_ E]. rewrite E. reflexivity.
  - intros e. destruct (String.eqb (fst e) ad_name); reflexivity.
Qed.

Lemma expand_preserves_active_dims n t : lookup ad_name (kernel_expand n t) = lookup ad_name t.
Proof.
  unfold kernel_expand. rewrite lookup_map_other.
  - unfold lookup. destruct (find _ t) as [e|] eqn:E; [|reflexivity].
    apply find_some in E. destruct E as [_ E]. rewrite E. reflexivity.
  - intros e. destruct (String.eqb (fst e) ad_name); reflexivity.
Qed.

Lemma getitem_indexes_batch_entries pos t nm : nm <> ad_name ->
  lookup nm (kernel_getitem pos t) = option_map (index_first pos) (lookup nm t).
Proof.
  intros Hn. unfold kernel_getitem. rewrite lookup_map_other.
  - unfold lookup. destruct (find _ t) as [e|] eqn:E; [|reflexivity].
    apply find_some in E. destruct E as [_ E]. apply String.eqb_eq in E.
    destruct (String.eqb (fst e) ad_name) eqn:E2; [apply String.eqb_eq in E2; congruence|reflexivity].
  - intros e. destruct (String.eqb (fst e) ad_name); reflexivity.
Qed.

Lemma expand_expands_batch_entries n t nm : nm <> ad_name ->
  lookup nm (kernel_expand n t) = option_map (expand_first n) (lookup nm t).
Proof.
  intros Hn. unfold kernel_expand. rewrite lookup_map_other.
  - unfold lookup. destruct (find _ t) as [e|] eqn:E; [|reflexivity].
    apply find_some in E. destruct E as [_ E]. apply String.eqb_eq in E.
    destruct (String.eqb (fst e) ad_name) eqn:E2; [apply String.eqb_eq in E2; congruence|reflexivity].
  - intros e. destruct (String.eqb (fst e) ad_name); reflexivity.
Qed.

(* (iv) kernel[pos] and expand_batch read exactly the same input columns as the kernel itself *)
Lemma getitem_active_cols pos t : active_cols (kernel_getitem pos t) = active_cols t.
Proof. unfold active_cols. rewrite getitem_preserves_active_dims. reflexivity. Qed.
Lemma expand_active_cols n t : active_cols (kernel_expand n t) = active_cols t.
Proof. unfold active_cols. rewrite expand_preserves_active_dims. reflexivity. Qed.

Lemma getitem_eval_same_columns {S V : Type} (d : S) (kfun : table -> nat -> list S -> list S -> V)
      pos t b x1 x2 i j :
  eval_kernel d kfun (kernel_getitem pos t) b x1 x2 i j
  = kfun (kernel_getitem pos t) b (restrict d (active_cols t) (x1 i)) (restrict d (active_cols t) (x2 j)).
Proof. unfold eval_kernel, Kmat. rewrite getitem_active_cols. reflexivity. Qed.

Lemma expand_eval_same_columns {S V : Type} (d : S) (kfun : table -> nat -> list S -> list S -> V)
      n t b x1 x2 i j :
  eval_kernel d kfun (kernel_expand n t) b x1 x2 i j
  = kfun (kernel_expand n t) b (restrict d (active_cols t) (x1 i)) (restrict d (active_cols t) (x2 j)).
Proof. unfold eval_kernel, Kmat. rewrite expand_active_cols. reflexivity. Qed.

(* active_dims really is a column gather: column c of the restricted input is column cols[c] *)
Lemma restrict_nth {S : Type} (d : S) cols x c : (c < List.length cols)%nat ->
  nth c (restrict d (Some cols) x) d = nth (nth c cols 0%nat) x d.
Proof.
  intros Hc. unfold restrict, sel.
  rewrite (nth_indep _ d ((fun p => nth p x d) 0%nat)) by (rewrite map_length; exact Hc).
  apply (map_nth (fun p => nth p x d)).
Qed.

(* snapshot 66db6d9 (before fix 5a95c3e): a batch index applied to active_dims = [0, 2] leaves [2] *)
Lemma pinned_getitem_refuted :
  exists pos t, active_cols (kernel_getitem_pinned pos t) <> active_cols t
                /\ active_cols (kernel_getitem pos t) = active_cols t.
Proof.
  exists [1%nat], [(ad_name, [[0%Z]; [2%Z]]); ("raw_lengthscale", [[5%Z]; [7%Z]])].
  split; [vm_compute; discriminate|reflexivity].
Qed.
