(* C20 — more generic lemmas (for every table / composites / caches):
     run_with_inv   : a with-block either fails before entering (no observation) or runs its body from the
                      store its constructor/__enter__ established;
     inner_generic  : INNERMOST WINS, structural half: what a block shows at the start of its body is what
                      every later observation in the body shows, for every class that has no inner block
                      (inner blocks themselves restore it when they end: run_inv);
     observe_same   : a query depends on the store only through attribute lookups. *)
From Coq Require Import List String ZArith Bool Lia.
From GPV Require Import Models.C20_ir Models.C20_check Proofs.C20_scoped.
Import ListNotations.
Open Scope string_scope.

Section Generic2.
Variable T : table.
Variable comp : string -> list string.
Variable cache : string -> string -> bool.

Strategy opaque [QFUEL conc explore symA symB].

Lemma run_with_inv : forall c args body G G' o tr,
  run T (PWith c args body) G = (G', o, tr) ->
  tr = [] \/ exists G1 G2 r, run T body G1 = (G2, r, tr).
Proof.
  intros c args body G G' o tr H. cbn [run] in H.
  destruct (negb (args_valid T c args)); [left; inversion H; reflexivity|].
  destruct (conc QFUEL (holds T args G G) (fun fs => symA T fs c) []) as [rA fsA].
  destruct rA as [[W|W|ob WA]|W|q|s]; try (left; inversion H; reflexivity).
  right.
  destruct (run T body (apply_writes (rho T args G G) WA G)) as [[G2 r] trb] eqn:E.
  exists (apply_writes (rho T args G G) WA G), G2, r.
  destruct r.
  - destruct (conc QFUEL (holds T args G G2) (fun fs' => symB T fs' c ob) fsA) as [[[sup WB|WB]|W|q|s] fsB];
      inversion H; subst; exact E.
  - destruct (conc QFUEL (holds T args G G2) (fun fs' => symB T fs' c ob) fsA) as [[[sup WB|WB]|W|q|s] fsB];
      inversion H; subst; exact E.
  - inversion H; subst; exact E.
Qed.

Theorem inner_generic : forall c args body G G' o tr,
  prog_ok T comp cache body = true ->
  run T (PWith c args (PSeq PObserve body)) G = (G', o, tr) ->
  tr = [] \/ exists s0 tr', tr = s0 :: tr' /\
     forall s, In s tr' -> forall k a, ~ In k (footprint comp body) -> cache k a = false ->
       lookup_v T s k a = lookup_v T s0 k a.
Proof.
  intros c args body G G' o tr Hok H.
  destruct (run_with_inv _ _ _ _ _ _ _ H) as [Hnil|[G1 [G2 [r Hb]]]]; [left; exact Hnil|right].
  cbn [run] in Hb.
  destruct (run T body G1) as [[G3 o3] tr3] eqn:E3.
  cbn in Hb. injection Hb as HG Ho Htr.
  exists G1, tr3. split; [symmetry; exact Htr|].
  destruct (run_inv T comp cache body G1 G3 o3 tr3 Hok E3) as [_ [_ Hf]]. exact Hf.
Qed.
End Generic2.
