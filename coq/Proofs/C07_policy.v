(* C07 lemmas, part 6: covariances handed out under observation_nan_policy.
   'fill' decouples the missing observations (rows/columns zeroed, diagonal kept; their test-train
   columns zeroed); 'mask' selects the observed rows.  Both are Schur complements of a matrix obtained
   from the joint covariance of (y, f_star) by a PSD-preserving operation, hence PSD, and below the prior.
   Generic over any ordered field, all n, t, every pattern of missing observations. *)
From Coq Require Import Arith Lia Ring Field Setoid Morphisms List Bool.
From GPV Require Import Base.LinAlg Base.Exec Models.C01_posterior Proofs.C01_posterior
  Models.C04_fantasy Proofs.C04_fantasy Models.C07_psd Proofs.C07_psd Proofs.C07_more.
Import ListNotations.

Section Policy.
Context {K : Fld} {O : OrdFld K}.
Add Field Ff_c07p : (@FT K).
Local Open Scope fld_scope.
Notation "a <= b" := (fle a b).

Definition ind (obs : nat -> bool) : nat -> car := fun i => if obs i then 1 else 0.
Definition gap (obs : nat -> bool) (J : M) : nat -> car := fun i => if obs i then 0 else J i i.

(* D J D with D = diag(ind obs) *)
Lemma diag_congr_entry n obs J i j : (i < n)%nat -> (j < n)%nat ->
  mmul n (mmul n (mdiag (ind obs)) J) (mT (mdiag (ind obs))) i j = ind obs i * J i j * ind obs j.
Proof.
  intros Hi Hj. unfold mmul at 1.
  rewrite (sum_single n j); [|exact Hj|].
  - unfold mmul. rewrite (sum_single n i); [|exact Hi|].
    + unfold mT, mdiag. rewrite !Nat.eqb_refl. ring.
    + intros l _ Hl. unfold mdiag. destruct (Nat.eqb_spec i l); [congruence|ring].
  - intros k _ Hk. unfold mT, mdiag. destruct (Nat.eqb_spec j k); [congruence|ring].
Qed.

Lemma decouple_split n obs J :
  meq n n (decouple obs J)
          (madd (mmul n (mmul n (mdiag (ind obs)) J) (mT (mdiag (ind obs)))) (mdiag (gap obs J))).
Proof.
  intros i j Hi Hj. unfold madd. rewrite (diag_congr_entry n obs J i j Hi Hj).
  unfold decouple, mdiag, ind, gap.
  destruct (Nat.eqb_spec i j) as [->|Hne].
  - destruct (obs j); ring.
  - destruct (obs i), (obs j); cbn [andb]; ring.
Qed.

Lemma decouple_psd n obs J : PSD n J -> PSD n (decouple obs J).
Proof.
  intros HJ. apply (PSD_meq n _ _ (meq_sym _ _ _ _ (decouple_split n obs J))).
  apply PSD_madd; [apply PSD_congr; exact HJ|].
  apply PSD_mdiag. intros k Hk. unfold gap. destruct (obs k); [apply fle_refl|].
  apply (PSD_diag_nn n J k HJ Hk).
Qed.

Lemma decouple_symmetric n obs J : symmetric n J -> symmetric n (decouple obs J).
Proof.
  intros HS i j Hi Hj. unfold mT, decouple.
  rewrite (Nat.eqb_sym j i). rewrite (andb_comm (obs j) (obs i)).
  destruct (Nat.eqb_spec i j) as [->|Hne]; [reflexivity|].
  destruct (obs i && obs j); [apply HS; assumption|reflexivity].
Qed.

(* the pattern on the joint (y, f_star): test values are never missing *)
Definition obs_joint (n : nat) (obs : nat -> bool) : nat -> bool :=
  fun i => if Nat.ltb i n then obs i else true.

Lemma decouple_joint_00 n obs J :
  meq n n (sub 0 0 (decouple (obs_joint n obs) J)) (decouple obs (sub 0 0 J)).
Proof.
  intros i j Hi Hj. unfold sub, decouple, obs_joint. cbn [Nat.add].
  destruct (Nat.ltb_spec i n); [|lia]. destruct (Nat.ltb_spec j n); [|lia]. reflexivity.
Qed.

Lemma decouple_joint_10 n t obs J :
  meq t n (sub n 0 (decouple (obs_joint n obs) J)) (fill_cross obs (sub n 0 J)).
Proof.
  intros i j Hi Hj. unfold sub, decouple, obs_joint, fill_cross. cbn [Nat.add].
  destruct (Nat.eqb_spec (n + i) j); [lia|].
  destruct (Nat.ltb_spec (n + i) n); [lia|]. destruct (Nat.ltb_spec j n); [|lia].
  cbn [andb]. reflexivity.
Qed.

Lemma decouple_joint_11 n t obs J :
  meq t t (sub n n (decouple (obs_joint n obs) J)) (sub n n J).
Proof.
  intros i j Hi Hj. unfold sub, decouple, obs_joint.
  destruct (Nat.eqb_spec (n + i) (n + j)); [reflexivity|].
  destruct (Nat.ltb_spec (n + i) n); [lia|]. destruct (Nat.ltb_spec (n + j) n); [lia|].
  reflexivity.
Qed.

(* 'fill': J = joint covariance of (y, f_star) (prior + noise on the train block) *)
Lemma fill_posterior_psd n t obs J Ainv :
  symmetric (n + t) J -> PSD (n + t) J ->
  is_inverse n (decouple obs (sub 0 0 J)) Ainv ->
  PSD t (fill_post_cov n obs (sub n n J) (sub n 0 J) (sub 0 0 J) Ainv).
Proof.
  intros HS HP HI. set (J' := decouple (obs_joint n obs) J).
  assert (HS' : symmetric (n + t) J') by (apply decouple_symmetric; exact HS).
  assert (HP' : PSD (n + t) J') by (apply decouple_psd; exact HP).
  assert (HI' : is_inverse n (sub 0 0 J') Ainv).
  { apply (is_inverse_compat n (decouple obs (sub 0 0 J)) _ Ainv Ainv);
      [symmetry; apply decouple_joint_00|reflexivity|exact HI]. }
  apply (PSD_meq t (msub (sub n n J') (mmul n (sub n 0 J') (mmul n Ainv (mT (sub n 0 J')))))).
  - unfold fill_post_cov, post_cov_g, explained. apply msub_compat; [apply decouple_joint_11|].
    apply mmul_compat; [apply decouple_joint_10|]. apply mmul_compat_r. apply mT_compat.
    apply decouple_joint_10.
  - apply schur_psd; assumption.
Qed.

(* prior minus 'fill' posterior is PSD; needs only the train block *)
Lemma fill_never_adds_uncertainty n t obs Kss X A Ainv :
  symmetric n A -> PSD n A -> is_inverse n (decouple obs A) Ainv ->
  PSD t (msub Kss (fill_post_cov n obs Kss X A Ainv)).
Proof.
  intros HS HP HI.
  apply (PSD_meq t (explained n (fill_cross obs X) Ainv)).
  - intros i j Hi Hj. unfold fill_post_cov, post_cov_g, msub. ring.
  - apply explained_psd. apply (inv_psd n (decouple obs A) Ainv).
    + apply decouple_symmetric; exact HS.
    + apply decouple_psd; exact HP.
    + exact HI.
Qed.

Lemma fill_variance_le_prior n t obs Kss X A Ainv i :
  symmetric n A -> PSD n A -> is_inverse n (decouple obs A) Ainv -> (i < t)%nat ->
  fill_post_cov n obs Kss X A Ainv i i <= Kss i i.
Proof.
  intros HS HP HI Hi. apply le_of_sub_nn.
  exact (PSD_diag_nn t _ i (fill_never_adds_uncertainty n t obs Kss X A Ainv HS HP HI) Hi).
Qed.

(* 'mask': the k observed rows idx 0 .. idx (k-1) are selected *)
Definition idx_joint (n k : nat) (idx : nat -> nat) : nat -> nat :=
  fun a => if Nat.ltb a k then idx a else (n + (a - k))%nat.

Lemma gather_symmetric n N idx B : (forall i, (i < n)%nat -> (idx i < N)%nat) ->
  symmetric N B -> symmetric n (gather idx idx B).
Proof. intros Hidx HS i j Hi Hj. unfold mT, gather. apply HS; apply Hidx; assumption. Qed.

Lemma mask_posterior_psd n t k idx J Ainv :
  (forall a, (a < k)%nat -> (idx a < n)%nat) ->
  symmetric (n + t) J -> PSD (n + t) J ->
  is_inverse k (gather idx idx (sub 0 0 J)) Ainv ->
  PSD t (mask_post_cov k idx (sub n n J) (sub n 0 J) Ainv).
Proof.
  intros Hidx HS HP HI. set (ix := idx_joint n k idx). set (J' := gather ix ix J).
  assert (Hix : forall a, (a < k + t)%nat -> (ix a < n + t)%nat).
  { intros a Ha. unfold ix, idx_joint. destruct (Nat.ltb_spec a k); [specialize (Hidx a H); lia|lia]. }
  assert (HS' : symmetric (k + t) J') by (apply (gather_symmetric (k + t) (n + t)); assumption).
  assert (HP' : PSD (k + t) J') by (apply (PSD_gather (k + t) (n + t)); assumption).
  assert (E00 : meq k k (sub 0 0 J') (gather idx idx (sub 0 0 J))).
  { intros i j Hi Hj. unfold J', sub, gather, ix, idx_joint. cbn [Nat.add].
    destruct (Nat.ltb_spec i k); [|lia]. destruct (Nat.ltb_spec j k); [|lia]. reflexivity. }
  assert (E10 : meq t k (sub k 0 J') (fun i a => sub n 0 J i (idx a))).
  { intros i j Hi Hj. unfold J', sub, gather, ix, idx_joint. cbn [Nat.add].
    destruct (Nat.ltb_spec (k + i) k); [lia|]. destruct (Nat.ltb_spec j k); [|lia].
    replace (k + i - k)%nat with i by lia. reflexivity. }
  assert (E11 : meq t t (sub k k J') (sub n n J)).
  { intros i j Hi Hj. unfold J', sub, gather, ix, idx_joint.
    destruct (Nat.ltb_spec (k + i) k); [lia|]. destruct (Nat.ltb_spec (k + j) k); [lia|].
    replace (k + i - k)%nat with i by lia. replace (k + j - k)%nat with j by lia. reflexivity. }
  assert (HI' : is_inverse k (sub 0 0 J') Ainv).
  { apply (is_inverse_compat k (gather idx idx (sub 0 0 J)) _ Ainv Ainv);
      [symmetry; exact E00|reflexivity|exact HI]. }
  apply (PSD_meq t (msub (sub k k J') (mmul k (sub k 0 J') (mmul k Ainv (mT (sub k 0 J')))))).
  - unfold mask_post_cov, post_cov_g, explained. apply msub_compat; [exact E11|].
    apply mmul_compat; [exact E10|]. apply mmul_compat_r. apply mT_compat. exact E10.
  - apply schur_psd; assumption.
Qed.

End Policy.

(* the hypotheses are satisfiable: n = 2 (second observation missing), t = 1, over R *)
From Coq Require Import Reals Lra.
From GPV Require Import Base.Expr.
Definition exJ3 : @M RF := fun i j =>
  match i, j with
  | 0%nat, 0%nat => 2%R | 1%nat, 1%nat => 2%R | 2%nat, 2%nat => 1%R
  | 0%nat, 1%nat | 1%nat, 0%nat => 1%R
  | 0%nat, 2%nat | 2%nat, 0%nat => 1%R
  | 1%nat, 2%nat | 2%nat, 1%nat => 1%R
  | _, _ => 0%R end.
Definition exObs : nat -> bool := fun i => Nat.eqb i 0.
Definition exAinv3 : @M RF := fun i j =>
  match i, j with 0%nat, 0%nat => (/ 2)%R | 1%nat, 1%nat => (/ 2)%R | _, _ => 0%R end.

Lemma ex_fill_policy_hyps_holds :
  symmetric 3 exJ3 /\ @PSD RF ROrd 3 exJ3 /\
  is_inverse 2 (decouple exObs (sub 0 0 exJ3)) exAinv3 /\
  fill_post_cov 2 exObs (sub 2 2 exJ3) (sub 2 0 exJ3) (sub 0 0 exJ3) exAinv3 0%nat 0%nat = (/ 2)%R.
Proof.
  split; [|split; [|split]].
  - intros i j Hi Hj. unfold mT. destruct i as [|[|[|i]]]; try lia; destruct j as [|[|[|j]]]; try lia; reflexivity.
  - intros x. unfold qform, bform. cbn [sum exJ3]. cbn.
    replace (0 + x 0%nat * (0 + 2 * x 0%nat + 1 * x 1%nat + 1 * x 2%nat)
               + x 1%nat * (0 + 1 * x 0%nat + 2 * x 1%nat + 1 * x 2%nat)
               + x 2%nat * (0 + 1 * x 0%nat + 1 * x 1%nat + 1 * x 2%nat))%R
      with ((x 0%nat + x 1%nat + x 2%nat) * (x 0%nat + x 1%nat + x 2%nat) + x 0%nat * x 0%nat + x 1%nat * x 1%nat)%R by ring.
    pose proof (Rle_0_sqr (x 0%nat + x 1%nat + x 2%nat)) as H1. pose proof (Rle_0_sqr (x 0%nat)) as H2.
    pose proof (Rle_0_sqr (x 1%nat)) as H3. unfold Rsqr in *. lra.
  - split; intros i j Hi Hj; destruct i as [|[|i]]; try lia; destruct j as [|[|j]]; try lia;
      unfold mmul, mI, decouple, exObs, sub, exAinv3, exJ3; cbn; field.
  - unfold fill_post_cov, post_cov_g, explained, msub, mmul, mT, fill_cross, exObs, sub, exAinv3, exJ3. cbn. field.
Qed.
