(* C10: broadcasting reads every operand in bounds, is symmetric, and is the identity on equal shapes. *)
From Coq Require Import Arith List Bool Lia.
Import ListNotations.
From GPV Require Import Models.C10_broadcast.

Lemma bshape_rev_nil_r s : bshape_rev s [] = Some s.
Proof. destruct s; reflexivity. Qed.

Lemma bindex_rev_self_valid : forall u b, valid_idx u b -> valid_idx u (bindex_rev u b).
Proof.
  induction u as [|x u IHu]; intros [|i b] H; cbn in *; try tauto.
  destruct H as [Hi H]. split; [destruct (Nat.eqb x 1); lia | apply IHu; exact H].
Qed.

(* every position of the broadcast result reads an existing element of BOTH operands *)
Lemma bindex_rev_valid : forall s t f b,
  bshape_rev s t = Some f -> valid_idx f b ->
  valid_idx s (bindex_rev s b) /\ valid_idx t (bindex_rev t b).
Proof.
  induction s as [|a s IH]; intros t f b Hf Hb.
  - cbn in Hf. injection Hf as <-. split; [exact I | apply bindex_rev_self_valid; exact Hb].
  - destruct t as [|c t].
    + cbn in Hf. injection Hf as <-. split; [apply bindex_rev_self_valid; exact Hb | destruct b; exact I].
    + cbn [bshape_rev] in Hf. destruct (bshape_rev s t) as [r|] eqn:Er; [|discriminate].
      assert (Hcase : exists x, f = x :: r /\ (a = x \/ a = 1) /\ (c = x \/ c = 1)).
      { destruct (Nat.eqb a c) eqn:E1.
        - apply Nat.eqb_eq in E1. subst c. injection Hf as <-. exists a. auto.
        - destruct (Nat.eqb a 1) eqn:E2.
          + apply Nat.eqb_eq in E2. injection Hf as <-. exists c. auto.
          + destruct (Nat.eqb c 1) eqn:E3; [|discriminate].
            apply Nat.eqb_eq in E3. injection Hf as <-. exists a. auto. }
      destruct Hcase as (x & -> & Ha & Hc).
      destruct b as [|i b]; [cbn in Hb; tauto|]. cbn in Hb. destruct Hb as [Hi Hb].
      destruct (IH t r b Er Hb) as [IH1 IH2].
      cbn [bindex_rev valid_idx]. split; split; try assumption.
      * destruct (Nat.eqb a 1) eqn:E; [apply Nat.eqb_eq in E; lia|].
        apply Nat.eqb_neq in E. destruct Ha; [subst; exact Hi | contradiction].
      * destruct (Nat.eqb c 1) eqn:E; [apply Nat.eqb_eq in E; lia|].
        apply Nat.eqb_neq in E. destruct Hc; [subst; exact Hi | contradiction].
Qed.

Lemma bshape_rev_comm : forall s t, bshape_rev s t = bshape_rev t s.
Proof.
  induction s as [|a s IH]; intros [|c t]; cbn; try reflexivity.
  rewrite (IH t). destruct (bshape_rev t s); [|reflexivity].
  destruct (Nat.eqb a c) eqn:E1.
  - apply Nat.eqb_eq in E1. subst. rewrite Nat.eqb_refl. reflexivity.
  - rewrite Nat.eqb_sym in E1. rewrite E1.
    destruct (Nat.eqb a 1) eqn:E2, (Nat.eqb c 1) eqn:E3; try reflexivity.
    apply Nat.eqb_eq in E2, E3. subst. rewrite Nat.eqb_refl in E1. discriminate.
Qed.

(* equal shapes: nothing is expanded, every element is read at its own position *)
Lemma bshape_rev_same : forall s, bshape_rev s s = Some s.
Proof. induction s as [|a s IH]; cbn; [reflexivity|]. rewrite IH, Nat.eqb_refl. reflexivity. Qed.

Lemma bindex_rev_same : forall s b, valid_idx s b -> bindex_rev s b = b.
Proof.
  induction s as [|a s IH]; intros [|i b] H; cbn in *; try tauto.
  destruct H as [Hi H]. rewrite (IH b H). destruct (Nat.eqb a 1) eqn:E; [|reflexivity].
  apply Nat.eqb_eq in E. f_equal. lia.
Qed.

Lemma bcast_same s b : bshape_rev s s = Some s /\ (valid_idx s b -> bindex_rev s b = b).
Proof. split; [apply bshape_rev_same | apply bindex_rev_same]. Qed.

(* the broadcast shape dominates both operands: each aligned dimension is the operand's or the operand's is 1 *)
Lemma bshape_rev_length : forall s t f, bshape_rev s t = Some f -> length f = Nat.max (length s) (length t).
Proof.
  induction s as [|a s IH]; intros t f H.
  - cbn in H. injection H as <-. reflexivity.
  - destruct t as [|c t]; [cbn in H; injection H as <-; cbn; lia|].
    cbn [bshape_rev] in H. destruct (bshape_rev s t) as [r|] eqn:Er; [|discriminate].
    specialize (IH t r Er).
    destruct (Nat.eqb a c); [injection H as <-; cbn; lia|].
    destruct (Nat.eqb a 1); [injection H as <-; cbn; lia|].
    destruct (Nat.eqb c 1); [injection H as <-; cbn; lia|discriminate].
Qed.

Example ex_broadcast_31_2 :
  bshape [3; 1] [2] = Some [3; 2] /\ bindex [3; 1] [2; 1] = [2; 0] /\ bindex [2] [2; 1] = [1].
Proof. repeat split. Qed.
