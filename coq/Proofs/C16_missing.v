From Coq Require Import Arith Lia Ring Field Bool List Setoid Morphisms ZArith QArith Qcanon.
From GPV Require Import Base.LinAlg Base.Exec Models.C01_posterior Models.C16_missing.
Import ListNotations.

Section Proofs.
Context {K : Fld}.
Add Field Ff_c16 : (@FT K).
Local Open Scope fld_scope.

(* ------------------------------------------------------------------ index lists *)

Lemma lsum_nth (l : list nat) (f : nat -> car) :
  lsum l f = sum (length l) (fun a => f (nth a l O)).
Proof.
  induction l as [|x l IH]; [reflexivity|].
  cbn [lsum length]. rewrite sum_S_first. cbn [nth]. rewrite IH. reflexivity.
Qed.

Lemma sum_filter_seq (ob : nat -> bool) (f : nat -> car) s n :
  sum n (fun j => if ob (s + j)%nat then f (s + j)%nat else 0) = lsum (filter ob (seq s n)) f.
Proof.
  revert s. induction n as [|n IH]; intros s; [reflexivity|].
  rewrite sum_S_first. cbn [seq filter]. rewrite Nat.add_0_r.
  assert (E : sum n (fun i => if ob (s + S i)%nat then f (s + S i)%nat else 0)
              = lsum (filter ob (seq (S s) n)) f).
  { rewrite <- IH. apply sum_ext. intros i _. replace (s + S i)%nat with (S s + i)%nat by lia.
    reflexivity. }
  rewrite E. destruct (ob s); cbn [lsum]; ring.
Qed.

(* a sum restricted by a mask is the sum over the gathered indices *)
Lemma sum_obs n (ob : nat -> bool) (f : nat -> car) :
  sum n (fun j => if ob j then f j else 0)
  = sum (nobs n ob) (fun a => f (sel (obs_list n ob) a)).
Proof.
  unfold nobs, sel, obs_list. rewrite <- lsum_nth. rewrite <- sum_filter_seq.
  apply sum_ext. intros; reflexivity.
Qed.

Lemma sel_obs n ob a : (a < nobs n ob)%nat ->
  (sel (obs_list n ob) a < n)%nat /\ ob (sel (obs_list n ob) a) = true.
Proof.
  intros Ha. unfold nobs in Ha. unfold sel.
  assert (Hin : In (nth a (obs_list n ob) O) (obs_list n ob)) by (apply nth_In; exact Ha).
  unfold obs_list in Hin at 2. apply filter_In in Hin. destruct Hin as [H1 H2].
  apply in_seq in H1. split; [lia|exact H2].
Qed.

Lemma obs_list_ext n ob ob' : (forall i, ob i = ob' i) -> obs_list n ob = obs_list n ob'.
Proof. intros H. unfold obs_list. apply filter_ext. exact H. Qed.

Lemma nobs_ext n ob ob' : (forall i, ob i = ob' i) -> nobs n ob = nobs n ob'.
Proof. intros H. unfold nobs. rewrite (obs_list_ext n ob ob' H). reflexivity. Qed.
Lemma mask_rows_ext n ob ob' A : (forall i, ob i = ob' i) -> mask_rows n ob A = mask_rows n ob' A.
Proof. intros H. unfold mask_rows. rewrite (obs_list_ext n ob ob' H). reflexivity. Qed.
Lemma mask_cols_ext n ob ob' A : (forall i, ob i = ob' i) -> mask_cols n ob A = mask_cols n ob' A.
Proof. intros H. unfold mask_cols. rewrite (obs_list_ext n ob ob' H). reflexivity. Qed.
Lemma rank_ext ob ob' i : (forall i, ob i = ob' i) -> rank ob i = rank ob' i.
Proof. intros H. unfold rank. rewrite (filter_ext _ _ H). reflexivity. Qed.

Lemma obs_list_split n ob i : (i < n)%nat -> ob i = true ->
  obs_list n ob = filter ob (seq 0 i) ++ i :: filter ob (seq (S i) (n - S i)).
Proof.
  intros Hi Ho. unfold obs_list.
  replace n with (i + S (n - S i))%nat at 1 by lia.
  rewrite seq_app, filter_app. cbn [Nat.add seq filter]. rewrite Ho. reflexivity.
Qed.

Lemma rank_lt n ob i : (i < n)%nat -> ob i = true ->
  (rank ob i < nobs n ob)%nat /\ sel (obs_list n ob) (rank ob i) = i.
Proof.
  intros Hi Ho. unfold nobs, sel, rank. rewrite (obs_list_split n ob i Hi Ho).
  rewrite app_length. cbn [length]. split; [lia|].
  rewrite app_nth2 by lia. rewrite Nat.sub_diag. reflexivity.
Qed.

Lemma obs_list_NoDup n ob : NoDup (obs_list n ob).
Proof. unfold obs_list. apply NoDup_filter. apply seq_NoDup. Qed.

(* scatter then gather is the identity *)
Lemma rank_sel n ob a : (a < nobs n ob)%nat -> rank ob (sel (obs_list n ob) a) = a.
Proof.
  intros Ha. destruct (sel_obs n ob a Ha) as [H1 H2].
  destruct (rank_lt n ob _ H1 H2) as [H3 H4].
  apply (proj1 (NoDup_nth (obs_list n ob) O) (obs_list_NoDup n ob)); try assumption.
Qed.

(* ------------------------------------------------------------------ NaN bookkeeping *)

Lemma is_obs_offset muJ y i : is_obs (offset muJ y) i = is_obs y i.
Proof. unfold is_obs, offset. destruct (y i); reflexivity. Qed.

Lemma is_obs_mean_cache_mask n Aoinv r i : is_obs (mean_cache_mask n Aoinv r) i = is_obs r i.
Proof. unfold mean_cache_mask. unfold is_obs at 1. destruct (is_obs r i); reflexivity. Qed.

Lemma is_obs_mean_cache_fill n Afinv r fv i : is_obs (mean_cache_fill n Afinv r fv) i = is_obs r i.
Proof. unfold mean_cache_fill. unfold is_obs at 1. destruct (is_obs r i); reflexivity. Qed.

Lemma vals_obs d d' (v : nvec) i : is_obs v i = true -> vals d v i O = vals d' v i O.
Proof. unfold is_obs, vals. destruct (v i); [reflexivity|discriminate]. Qed.

Lemma vals_offset d muJ y i : is_obs y i = true ->
  vals d (offset muJ y) i O = vals d y i O - muJ i O.
Proof. unfold is_obs, vals, offset. destruct (y i); [reflexivity|discriminate]. Qed.

(* ------------------------------------------------------------------ the deleted problem *)

Lemma selJ_train n l a : (a < length l)%nat -> selJ n l a = nth a l O.
Proof. intros Ha. unfold selJ. destruct (Nat.ltb_spec a (length l)); [reflexivity|lia]. Qed.
Lemma selJ_test n l i : selJ n l (length l + i) = (n + i)%nat.
Proof.
  unfold selJ. destruct (Nat.ltb_spec (length l + i) (length l)); [lia|]. f_equal. lia.
Qed.

(* the train covariance of the deleted data set is the masked train covariance *)
Lemma del_train_covar n ob KJ S :
  meq (nobs n ob) (nobs n ob) (train_covar (KJ_del n ob KJ) (S_del n ob S))
      (masked n n ob ob (train_covar KJ S)).
Proof.
  intros i j Hi Hj. unfold train_covar, madd, Kxx, sub, KJ_del, S_del, masked, gather.
  cbn [Nat.add]. unfold nobs in *. rewrite !selJ_train by assumption. reflexivity.
Qed.

Lemma is_inverse_compat n A A' Ai : meq n n A A' -> is_inverse n A Ai -> is_inverse n A' Ai.
Proof.
  intros HA [H1 H2]. split.
  - transitivity (mmul n A Ai); [apply mmul_compat_l; symmetry; exact HA|exact H1].
  - transitivity (mmul n Ai A); [apply mmul_compat_r; symmetry; exact HA|exact H2].
Qed.

Lemma del_Ksx n t ob KJ :
  meq t (nobs n ob) (Ksx (nobs n ob) (KJ_del n ob KJ)) (mask_cols n ob (Ksx n KJ)).
Proof.
  intros i j Hi Hj. unfold Ksx, sub, KJ_del, mask_cols, gather, idx, sel. cbn [Nat.add].
  unfold nobs in *. rewrite selJ_test. rewrite selJ_train by assumption. reflexivity.
Qed.

Lemma del_Kss n t ob KJ : meq t t (Kss (nobs n ob) (KJ_del n ob KJ)) (Kss n KJ).
Proof.
  intros i j Hi Hj. unfold Kss, sub, KJ_del, gather. unfold nobs. rewrite !selJ_test. reflexivity.
Qed.

(* ------------------------------------------------------------------ 'mask' is deletion *)

(* the a-th observed entry of the 'mask' cache is the a-th entry of the masked solve *)
Lemma mean_cache_mask_entry n Aoinv (r : nvec) ob a :
  (forall i, is_obs r i = ob i) -> (a < nobs n ob)%nat ->
  vals 0 (mean_cache_mask n Aoinv r) (sel (obs_list n ob) a) O
  = mmul (nobs n ob) Aoinv (mask_rows n ob (vals 0 r)) a O.
Proof.
  intros Hr Ha. destruct (sel_obs n ob a Ha) as [H1 H2].
  unfold vals at 1. unfold mean_cache_mask. cbv zeta. rewrite Hr, H2.
  rewrite (nobs_ext n _ ob Hr), (mask_rows_ext n _ ob _ Hr), (rank_ext _ ob _ Hr).
  rewrite (rank_sel n ob a Ha). reflexivity.
Qed.

(* offsets of the observed rows = offsets of the deleted data set *)
Lemma del_offset n muJ (y : nvec) d :
  meq (nobs n (is_obs y)) 1 (mask_rows n (is_obs y) (vals d (offset muJ y)))
      (msub (y_del n y) (sub 0 0 (mu_del n (is_obs y) muJ))).
Proof.
  intros a c Ha Hc. assert (c = O) by lia. subst c.
  unfold msub, y_del, mask_rows, gather, sub, mu_del, gather, idx. cbn [Nat.add].
  destruct (sel_obs n _ a Ha) as [H1 H2]. unfold nobs in Ha.
  rewrite selJ_train by exact Ha. rewrite (vals_offset d muJ y _ H2).
  rewrite (vals_obs d 0 y _ H2). reflexivity.
Qed.

Lemma mask_mean_is_deletion n t KJ muJ Aoinv (y : nvec) :
  meq t 1 (pred_mean_mask n (Ksx n KJ) (sub n 0 muJ) (mean_cache_mask n Aoinv (offset muJ y)))
          (del_mean n KJ muJ Aoinv y).
Proof.
  set (r := offset muJ y). set (ob := is_obs y).
  assert (Hr : forall i, is_obs r i = ob i) by (intros i; apply is_obs_offset).
  assert (Hob : forall i, is_obs (mean_cache_mask n Aoinv r) i = ob i).
  { intros i. rewrite is_obs_mean_cache_mask. apply Hr. }
  unfold pred_mean_mask, del_mean, post_mean, mean_cache. cbv zeta. fold ob.
  rewrite (nobs_ext n _ ob Hob), (mask_cols_ext n _ ob _ Hob), (mask_rows_ext n _ ob _ Hob).
  apply madd_compat.
  - apply mmul_compat.
    + symmetry. apply del_Ksx.
    + intros a c Ha Hc. assert (c = O) by lia. subst c.
      unfold mask_rows at 1. unfold gather, idx.
      rewrite (mean_cache_mask_entry n Aoinv r ob a Hr Ha).
      apply (mmul_compat_r (nobs n ob) (nobs n ob) 1); try lia.
      rewrite (mask_rows_ext n ob (is_obs y) _ (fun i => eq_refl)).
      apply del_offset.
  - intros i c Hi Hc. unfold sub, mu_del, gather, idx. cbn [Nat.add]. unfold nobs.
    rewrite selJ_test. reflexivity.
Qed.

Lemma mask_cov_is_deletion n t ob KJ Aoinv :
  meq t t (cov_masked n ob KJ Aoinv) (del_cov n ob KJ Aoinv).
Proof.
  unfold cov_masked, del_cov, post_cov. apply msub_compat.
  - symmetry. apply del_Kss.
  - assert (HG := del_Ksx n t ob KJ). apply mmul_compat; [symmetry; exact HG|].
    apply mmul_compat_r. apply mT_compat. symmetry. exact HG.
Qed.

(* ------------------------------------------------------------------ 'fill' is deletion *)

(* zeroed columns multiply the missing rows of the other factor by zero *)
Lemma zero_cols_mmul n t p ob T V :
  meq t p (mmul n (zero_cols ob T) V)
          (mmul (nobs n ob) (mask_cols n ob T) (mask_rows n ob V)).
Proof.
  intros i c Hi Hc. unfold mmul at 1.
  transitivity (sum n (fun j => if ob j then T i j * V j c else 0)).
  - apply sum_ext. intros j _. unfold zero_cols. destruct (ob j); ring.
  - rewrite sum_obs. reflexivity.
Qed.

(* an observed row of the filled kernel only meets observed columns *)
Lemma fill_kernel_mmul_obs n p ob A X :
  meq (nobs n ob) p (mask_rows n ob (mmul n (fill_kernel ob A) X))
                    (mmul (nobs n ob) (masked n n ob ob A) (mask_rows n ob X)).
Proof.
  intros a c Ha Hc. destruct (sel_obs n ob a Ha) as [H1 H2].
  unfold mask_rows at 1. unfold gather, idx. unfold mmul at 1.
  set (i := sel (obs_list n ob) a) in *.
  transitivity (sum n (fun j => if ob j then A i j * X j c else 0)).
  - apply sum_ext. intros j _. unfold fill_kernel. rewrite H2. cbn [andb].
    destruct (Nat.eqb_spec i j) as [->|Hne]; [rewrite H2; reflexivity|].
    destruct (ob j); ring.
  - rewrite sum_obs. reflexivity.
Qed.

(* THE key fact: the observed part of the solve with the filled kernel is the solve of the
   deleted system, whatever stands in the missing rows of the right-hand side *)
Lemma fill_solve_observed n p ob A Afinv Aoinv B :
  is_inverse n (fill_kernel ob A) Afinv ->
  is_inverse (nobs n ob) (masked n n ob ob A) Aoinv ->
  meq (nobs n ob) p (mask_rows n ob (mmul n Afinv B)) (mmul (nobs n ob) Aoinv (mask_rows n ob B)).
Proof.
  intros Hf Ho.
  apply (solve_unique (nobs n ob) p (masked n n ob ob A) Aoinv _ _ Ho).
  transitivity (mask_rows n ob (mmul n (fill_kernel ob A) (mmul n Afinv B))).
  { symmetry. apply fill_kernel_mmul_obs. }
  assert (E : meq n p (mmul n (fill_kernel ob A) (mmul n Afinv B)) B).
  { apply (solve_unique n p (fill_kernel ob A) Afinv _ _ Hf). reflexivity. }
  intros a c Ha Hc. unfold mask_rows, gather, idx. apply E; [|exact Hc].
  apply (sel_obs n ob a Ha).
Qed.

(* the fill value only ever enters the missing rows *)
Lemma mask_rows_vals n d d' (v : nvec) :
  meq (nobs n (is_obs v)) 1 (mask_rows n (is_obs v) (vals d v)) (mask_rows n (is_obs v) (vals d' v)).
Proof.
  intros a c Ha Hc. unfold mask_rows, gather, idx. assert (c = O) by lia. subst c.
  apply vals_obs. apply (sel_obs n _ a Ha).
Qed.

Lemma mean_cache_fill_entry n Afinv (r : nvec) fv d ob a :
  (forall i, is_obs r i = ob i) -> (a < nobs n ob)%nat ->
  vals d (mean_cache_fill n Afinv r fv) (sel (obs_list n ob) a) O
  = mask_rows n ob (mmul n Afinv (vals fv r)) a O.
Proof.
  intros Hr Ha. destruct (sel_obs n ob a Ha) as [H1 H2].
  unfold vals at 1. unfold mean_cache_fill. cbv zeta. rewrite Hr, H2. reflexivity.
Qed.

Lemma fill_mean_is_mask_mean n t KJ muJ S Afinv Aoinv (y : nvec) fv fv' :
  let A := train_covar KJ S in let ob := is_obs y in
  is_inverse n (fill_kernel ob A) Afinv ->
  is_inverse (nobs n ob) (masked n n ob ob A) Aoinv ->
  meq t 1 (pred_mean_fill n (Ksx n KJ) (sub n 0 muJ) (mean_cache_fill n Afinv (offset muJ y) fv) fv')
          (pred_mean_mask n (Ksx n KJ) (sub n 0 muJ) (mean_cache_mask n Aoinv (offset muJ y))).
Proof.
  intros A ob Hf Ho. set (r := offset muJ y).
  assert (Hr : forall i, is_obs r i = ob i) by (intros i; apply is_obs_offset).
  assert (Hobf : forall i, is_obs (mean_cache_fill n Afinv r fv) i = ob i).
  { intros i. rewrite is_obs_mean_cache_fill. apply Hr. }
  assert (Hobm : forall i, is_obs (mean_cache_mask n Aoinv r) i = ob i).
  { intros i. rewrite is_obs_mean_cache_mask. apply Hr. }
  unfold pred_mean_fill, pred_mean_mask. cbv zeta. apply madd_compat; [|reflexivity].
  rewrite (nobs_ext n _ ob Hobm), (mask_cols_ext n _ ob _ Hobm), (mask_rows_ext n _ ob _ Hobm).
  transitivity (mmul n (zero_cols ob (Ksx n KJ)) (vals fv' (mean_cache_fill n Afinv r fv))).
  { apply mmul_compat_l. intros i j _ _. unfold zero_cols. rewrite Hobf. reflexivity. }
  rewrite zero_cols_mmul. apply mmul_compat_r.
  intros a c Ha Hc. assert (c = O) by lia. subst c.
  unfold mask_rows at 1 2. unfold gather, idx.
  rewrite (mean_cache_mask_entry n Aoinv r ob a Hr Ha).
  rewrite (mean_cache_fill_entry n Afinv r fv fv' ob a Hr Ha).
  rewrite (fill_solve_observed n 1 ob A Afinv Aoinv (vals fv r) Hf Ho a O Ha) by lia.
  apply (mmul_compat_r (nobs n ob) (nobs n ob) 1); [|exact Ha|lia].
  rewrite (nobs_ext n ob (is_obs r) (fun i => eq_sym (Hr i))).
  rewrite !(mask_rows_ext n ob (is_obs r) _ (fun i => eq_sym (Hr i))).
  apply mask_rows_vals.
Qed.

Lemma fill_mean_is_deletion n t KJ muJ S Afinv Aoinv (y : nvec) fv fv' :
  let A := train_covar KJ S in let ob := is_obs y in
  is_inverse n (fill_kernel ob A) Afinv ->
  is_inverse (nobs n ob) (masked n n ob ob A) Aoinv ->
  meq t 1 (pred_mean_fill n (Ksx n KJ) (sub n 0 muJ) (mean_cache_fill n Afinv (offset muJ y) fv) fv')
          (del_mean n KJ muJ Aoinv y).
Proof.
  intros A ob Hf Ho.
  transitivity (pred_mean_mask n (Ksx n KJ) (sub n 0 muJ) (mean_cache_mask n Aoinv (offset muJ y))).
  - apply (fill_mean_is_mask_mean n t KJ muJ S Afinv Aoinv y fv fv' Hf Ho).
  - apply mask_mean_is_deletion.
Qed.

Lemma fill_cov_is_deletion n t ob KJ S Afinv Aoinv :
  let A := train_covar KJ S in
  is_inverse n (fill_kernel ob A) Afinv ->
  is_inverse (nobs n ob) (masked n n ob ob A) Aoinv ->
  meq t t (cov_filled n ob KJ Afinv) (del_cov n ob KJ Aoinv).
Proof.
  intros A Hf Ho.
  transitivity (cov_masked n ob KJ Aoinv); [|apply mask_cov_is_deletion].
  unfold cov_filled, cov_masked. apply msub_compat; [reflexivity|].
  set (T := Ksx n KJ). rewrite zero_cols_mmul. apply mmul_compat_r.
  rewrite (fill_solve_observed n t ob A Afinv Aoinv _ Hf Ho). apply mmul_compat_r.
  intros a c Ha Hc. unfold mask_rows, mask_cols, gather, idx, mT, zero_cols.
  destruct (sel_obs n ob a Ha) as [_ H2]. rewrite H2. reflexivity.
Qed.

(* ------------------------------------------------------------------ batch mode under 'mask' *)

Lemma is_obs_mean_cache_mask_ob n ob Aoinv r i : is_obs (mean_cache_mask_ob n ob Aoinv r) i = ob i.
Proof. unfold mean_cache_mask_ob. unfold is_obs. destruct (ob i); reflexivity. Qed.

Lemma mean_cache_mask_ob_entry n ob Aoinv (r : nvec) a :
  (a < nobs n ob)%nat ->
  vals 0 (mean_cache_mask_ob n ob Aoinv r) (sel (obs_list n ob) a) O
  = mmul (nobs n ob) Aoinv (mask_rows n ob (vals 0 r)) a O.
Proof.
  intros Ha. destruct (sel_obs n ob a Ha) as [H1 H2].
  unfold vals at 1. unfold mean_cache_mask_ob. cbv zeta. rewrite H2.
  rewrite (rank_sel n ob a Ha). reflexivity.
Qed.

(* the prediction read back through the cache's own NaN pattern is the posterior mean of the data
   set with the masked indices deleted - for ANY mask that covers the NaNs of this element *)
Lemma mask_ob_mean_is_deletion n t ob KJ muJ Aoinv (y : nvec) :
  (forall i, (i < n)%nat -> ob i = true -> is_obs y i = true) ->
  meq t 1 (pred_mean_mask n (Ksx n KJ) (sub n 0 muJ) (mean_cache_mask_ob n ob Aoinv (offset muJ y)))
          (del_mean_ob n ob KJ muJ Aoinv y).
Proof.
  intros Hcov. set (r := offset muJ y).
  assert (Hob : forall i, is_obs (mean_cache_mask_ob n ob Aoinv r) i = ob i)
    by (intros i; apply is_obs_mean_cache_mask_ob).
  unfold pred_mean_mask, del_mean_ob, post_mean, mean_cache. cbv zeta.
  rewrite (nobs_ext n _ ob Hob), (mask_cols_ext n _ ob _ Hob), (mask_rows_ext n _ ob _ Hob).
  apply madd_compat.
  - apply mmul_compat.
    + symmetry. apply del_Ksx.
    + intros a c Ha Hc. assert (c = O) by lia. subst c.
      unfold mask_rows at 1. unfold gather, idx.
      rewrite (mean_cache_mask_ob_entry n ob Aoinv r a Ha).
      apply (mmul_compat_r (nobs n ob) (nobs n ob) 1); try lia.
      intros a' c' Ha' Hc'. assert (c' = O) by lia. subst c'.
      unfold msub, mask_rows, gather, sub, mu_del, gather, idx. cbn [Nat.add].
      destruct (sel_obs n ob a' Ha') as [H1 H2]. unfold nobs in Ha'.
      rewrite selJ_train by exact Ha'.
      unfold r. apply (vals_offset 0 muJ y). apply Hcov; assumption.
  - intros i c Hi Hc. unfold sub, mu_del, gather, idx. cbn [Nat.add]. unfold nobs.
    rewrite selJ_test. reflexivity.
Qed.

Lemma batch_observed_covers B ys b i : (b < B)%nat -> batch_observed B ys i = true -> is_obs (ys b) i = true.
Proof.
  intros Hb H. unfold batch_observed in H. rewrite forallb_forall in H. apply H. apply in_seq. lia.
Qed.

(* batch reading of 'mask': every batch element predicts as if the UNION of the missing indices
   had been deleted from it *)
Lemma batch_mask_mean_is_deletion B n t (ys : nat -> nvec) b KJ muJ Aoinv :
  (b < B)%nat ->
  let ob := batch_observed B ys in
  meq t 1 (pred_mean_mask n (Ksx n KJ) (sub n 0 muJ) (mean_cache_mask_ob n ob Aoinv (offset muJ (ys b))))
          (del_mean_ob n ob KJ muJ Aoinv (ys b)).
Proof.
  intros Hb ob. apply mask_ob_mean_is_deletion.
  intros i _ Hi. apply (batch_observed_covers B ys b i Hb Hi).
Qed.

(* with the element's own NaN pattern as mask this is the single-output definition *)
Lemma mean_cache_mask_ob_own n Aoinv (r : nvec) i :
  mean_cache_mask_ob n (is_obs r) Aoinv r i = mean_cache_mask n Aoinv r i.
Proof. reflexivity. Qed.


(* ------------------------------------------------------------------ exact_predictive_covar as coded *)

(* no NaN among the first n targets: the mask selects everything *)
Lemma has_missing_false n (y : nvec) :
  has_missing n y = false -> forall i, (i < n)%nat -> is_obs y i = true.
Proof.
  unfold has_missing. intros H i Hi. apply negb_false_iff in H.
  rewrite forallb_forall in H. apply H. apply in_seq. lia.
Qed.

Lemma filter_all_true (ob : nat -> bool) s n :
  (forall i, (s <= i < s + n)%nat -> ob i = true) -> filter ob (seq s n) = seq s n.
Proof.
  revert s. induction n as [|n IH]; intros s H; [reflexivity|].
  cbn [seq filter]. rewrite (H s) by lia. f_equal. apply IH. intros i Hi. apply H. lia.
Qed.

Lemma obs_list_all n ob : (forall i, (i < n)%nat -> ob i = true) -> obs_list n ob = seq 0 n.
Proof. intros H. unfold obs_list. apply filter_all_true. intros i Hi. apply H. lia. Qed.

Lemma nobs_all n ob : (forall i, (i < n)%nat -> ob i = true) -> nobs n ob = n.
Proof. intros H. unfold nobs. rewrite (obs_list_all n ob H). apply seq_length. Qed.

Lemma sel_all n ob a : (forall i, (i < n)%nat -> ob i = true) -> (a < n)%nat ->
  sel (obs_list n ob) a = a.
Proof. intros H Ha. unfold sel. rewrite (obs_list_all n ob H). rewrite seq_nth by exact Ha. reflexivity. Qed.

(* without NaNs the "deleted" data set is the data set *)
Lemma masked_all n ob A : (forall i, (i < n)%nat -> ob i = true) ->
  meq n n (masked n n ob ob A) A.
Proof.
  intros H i j Hi Hj. unfold masked, gather. rewrite !(sel_all n ob _ H) by assumption. reflexivity.
Qed.

Lemma del_cov_all n t ob KJ Ainv : (forall i, (i < n)%nat -> ob i = true) ->
  meq t t (del_cov n ob KJ Ainv) (post_cov n KJ Ainv).
Proof.
  intros H. transitivity (cov_masked n ob KJ Ainv); [symmetry; apply mask_cov_is_deletion|].
  unfold cov_masked, post_cov. cbv zeta. rewrite (nobs_all n ob H).
  apply msub_compat; [reflexivity|].
  assert (HG : meq t n (mask_cols n ob (Ksx n KJ)) (Ksx n KJ)).
  { intros i j Hi Hj. unfold mask_cols, gather, idx. rewrite (sel_all n ob j H Hj). reflexivity. }
  apply mmul_compat; [exact HG|]. apply mmul_compat_r. apply mT_compat. exact HG.
Qed.

(* mask_is_deletion / fill_is_deletion for the covariance the CURRENT code returns: every n, t,
   NaN pattern (none included), either policy *)
Lemma pred_cov_is_deletion n t p KJ S Ainv Aoinv Afinv (y : nvec) :
  let A := train_covar KJ S in let ob := is_obs y in
  is_inverse n A Ainv ->
  is_inverse n (fill_kernel ob A) Afinv ->
  is_inverse (nobs n ob) (masked n n ob ob A) Aoinv ->
  meq t t (pred_cov n p KJ Ainv Aoinv Afinv y) (del_cov n ob KJ Aoinv).
Proof.
  intros A ob Ha Hf Ho. unfold pred_cov. destruct (has_missing n y) eqn:Hm.
  - destruct p.
    + apply mask_cov_is_deletion.
    + apply (fill_cov_is_deletion n t ob KJ S Afinv Aoinv Hf Ho).
  - assert (Hall := has_missing_false n y Hm). fold ob in Hall.
    rewrite (del_cov_all n t ob KJ Aoinv Hall).
    assert (Hn := nobs_all n ob Hall). rewrite Hn in Ho.
    assert (Ho' : is_inverse n A Aoinv).
    { apply (is_inverse_compat n (masked n n ob ob A) A Aoinv); [apply masked_all; exact Hall|exact Ho]. }
    assert (E := inverse_unique n A Ainv Aoinv Ha Ho').
    unfold post_cov. apply msub_compat; [reflexivity|]. apply mmul_compat_r. apply mmul_compat_l. exact E.
Qed.

(* the policy does not matter: both return the same covariance *)
Lemma pred_cov_policy_irrelevant n t KJ S Ainv Aoinv Afinv (y : nvec) :
  let A := train_covar KJ S in let ob := is_obs y in
  is_inverse n A Ainv ->
  is_inverse n (fill_kernel ob A) Afinv ->
  is_inverse (nobs n ob) (masked n n ob ob A) Aoinv ->
  meq t t (pred_cov n PMask KJ Ainv Aoinv Afinv y) (pred_cov n PFill KJ Ainv Aoinv Afinv y).
Proof.
  intros A ob Ha Hf Ho.
  transitivity (del_cov n ob KJ Aoinv).
  - apply (pred_cov_is_deletion n t PMask KJ S Ainv Aoinv Afinv y Ha Hf Ho).
  - symmetry. apply (pred_cov_is_deletion n t PFill KJ S Ainv Aoinv Afinv y Ha Hf Ho).
Qed.

(* ------------------------------------------------------------------ policy histories *)

Definition memo_ok n Aoinv Afinv (r : nvec) fv (m : memo) : Prop :=
  forall q mc, m q = Some mc -> mc = compute_cache n Aoinv Afinv r fv q.

Lemma memo_ok_step n Aoinv Afinv TT tm r fv m p :
  memo_ok n Aoinv Afinv r fv m ->
  memo_ok n Aoinv Afinv r fv (fst (predict_step n Aoinv Afinv TT tm r fv m p))
  /\ snd (predict_step n Aoinv Afinv TT tm r fv m p)
     = read_cache n TT tm fv p (compute_cache n Aoinv Afinv r fv p).
Proof.
  intros Hm. unfold predict_step. destruct (m p) as [mc|] eqn:E.
  - cbn [fst snd]. split; [exact Hm|]. rewrite (Hm p mc E). reflexivity.
  - cbn [fst snd]. split; [|reflexivity].
    intros q mc. unfold memo_set. destruct p, q; intros H;
      try (injection H as <-; reflexivity); apply (Hm _ _ H).
Qed.

Lemma memo_ok_history n Aoinv Afinv TT tm r fv h m :
  memo_ok n Aoinv Afinv r fv m ->
  memo_ok n Aoinv Afinv r fv
    (fold_left (fun m p => fst (predict_step n Aoinv Afinv TT tm r fv m p)) h m).
Proof.
  revert m. induction h as [|p h IH]; intros m Hm; [exact Hm|].
  cbn [fold_left]. apply IH. apply (memo_ok_step n Aoinv Afinv TT tm r fv m p Hm).
Qed.

(* whatever was predicted before, under whichever policies, the next prediction is the
   deletion mean *)
Lemma policy_order_irrelevant n t KJ muJ S Afinv Aoinv (y : nvec) fv (h : list policy) (p : policy) :
  let A := train_covar KJ S in let ob := is_obs y in
  is_inverse n (fill_kernel ob A) Afinv ->
  is_inverse (nobs n ob) (masked n n ob ob A) Aoinv ->
  meq t 1 (snd (predict_step n Aoinv Afinv (Ksx n KJ) (sub n 0 muJ) (offset muJ y) fv
                  (predict_history n Aoinv Afinv (Ksx n KJ) (sub n 0 muJ) (offset muJ y) fv h) p))
          (del_mean n KJ muJ Aoinv y).
Proof.
  intros A ob Hf Ho.
  assert (H0 : memo_ok n Aoinv Afinv (offset muJ y) fv memo_empty) by (intros q mc H; discriminate H).
  assert (Hh := memo_ok_history n Aoinv Afinv (Ksx n KJ) (sub n 0 muJ) (offset muJ y) fv h _ H0).
  destruct (memo_ok_step n Aoinv Afinv (Ksx n KJ) (sub n 0 muJ) (offset muJ y) fv _ p Hh) as [_ E].
  unfold predict_history. rewrite E. destruct p; cbn [read_cache compute_cache].
  - apply mask_mean_is_deletion.
  - apply (fill_mean_is_deletion n t KJ muJ S Afinv Aoinv y fv fv Hf Ho).
Qed.

(* ------------------------------------------------------------------ log densities *)

Lemma to_list_ext n m A B : meq n m A B -> to_list n m A = to_list n m B.
Proof.
  intros H. unfold to_list. apply map_ext_in. intros i Hi. apply map_ext_in. intros j Hj.
  apply in_seq in Hi. apply in_seq in Hj. apply H; lia.
Qed.
Lemma det_ext n A B : meq n n A B -> det n A = det n B.
Proof. intros H. unfold det. rewrite (to_list_ext n n A B H). reflexivity. Qed.

(* the masked marginal IS the marginal of the deleted data set: same quadratic form, same
   determinant, same dimension *)
Lemma mll_mask_is_deletion n KJ muJ S Aoinv (y : nvec) :
  let ob := is_obs y in
  mll_quad_mask n muJ Aoinv y = mll_quad_del n muJ Aoinv y
  /\ det (nobs n ob) (masked n n ob ob (train_covar KJ S))
     = det (nobs n ob) (train_covar (KJ_del n ob KJ) (S_del n ob S)).
Proof.
  intros ob. split.
  - unfold mll_quad_mask, mll_quad_del. fold ob.
    assert (Hr : forall i, is_obs (offset muJ y) i = ob i) by (intros i; apply is_obs_offset).
    unfold nobs, mask_rows. rewrite (obs_list_ext n _ ob Hr). fold (nobs n ob).
    assert (E : meq (nobs n ob) 1 (gather (sel (obs_list n ob)) idx (vals 0 (offset muJ y)))
                    (msub (y_del n y) (sub 0 0 (mu_del n ob muJ)))).
    { intros a c Ha Hc. assert (c = O) by lia. subst c.
      unfold gather, msub, y_del, mask_rows, gather, sub, mu_del, gather, idx. cbn [Nat.add].
      fold ob. unfold nobs in Ha. rewrite selJ_train by exact Ha.
      apply vals_offset. apply (sel_obs n ob a Ha). }
    unfold quad. apply (mmul_compat 1 (nobs n ob) 1); try lia.
    + apply mT_compat. exact E.
    + apply mmul_compat_r. exact E.
  - apply det_ext. symmetry. apply del_train_covar.
Qed.

(* the normalisation: value = (log_prob + priors) / count; the two counts differ *)
Lemma mll_rescaled (u cn ck : car) : cn <> 0 -> ck <> 0 -> (u / cn) * cn = (u / ck) * ck.
Proof. intros Hn Hk. field. split; assumption. Qed.

Lemma elp_mask_is_deletion n half (y : nvec) m v s lg a :
  elp_mask n half y m v s lg a = elp_del n half y m v s lg a.
Proof. reflexivity. Qed.

Lemma elp_fill_sum_is_deletion n half fv (y : nvec) m v s lg :
  sum n (elp_fill half fv y m v s lg) = sum (nobs n (is_obs y)) (elp_del n half y m v s lg).
Proof.
  set (ob := is_obs y).
  transitivity (sum n (fun i => if ob i
                  then elp_point half (vals 0 y i O) (m i) (v i) (s i) (lg i) else 0)).
  - apply sum_ext. intros i _. unfold elp_fill. fold ob. destruct (ob i) eqn:E; [|ring].
    rewrite (vals_obs fv 0 y i E). ring.
  - rewrite sum_obs. reflexivity.
Qed.

(* each observed entry of the 'fill' result is the deleted data set's entry, missing ones are 0 *)
Lemma elp_fill_pointwise n half fv (y : nvec) m v s lg :
  (forall a, (a < nobs n (is_obs y))%nat ->
     elp_fill half fv y m v s lg (sel (obs_list n (is_obs y)) a) = elp_del n half y m v s lg a)
  /\ (forall i, is_obs y i = false -> elp_fill half fv y m v s lg i = 0).
Proof.
  split.
  - intros a Ha. destruct (sel_obs n _ a Ha) as [_ H2]. unfold elp_fill. rewrite H2.
    rewrite (vals_obs fv 0 y _ H2). unfold elp_del, y_del, mask_rows, gather, idx. ring.
  - intros i Hi. unfold elp_fill. rewrite Hi. ring.
Qed.

(* the general form: any pointwise term, any fill value *)
Lemma pointwise_fill_sum_is_deletion n fv (y : nvec) (g : car -> nat -> car) :
  sum n (pointwise_fill fv y g) = sum (nobs n (is_obs y)) (pointwise_del n y g).
Proof.
  set (ob := is_obs y).
  transitivity (sum n (fun i => if ob i then g (vals 0 y i O) i else 0)).
  - apply sum_ext. intros i _. unfold pointwise_fill. fold ob. destruct (ob i) eqn:E; [|ring].
    rewrite (vals_obs fv 0 y i E). ring.
  - rewrite sum_obs. reflexivity.
Qed.

Lemma pointwise_fill_entries n fv (y : nvec) (g : car -> nat -> car) :
  (forall a, (a < nobs n (is_obs y))%nat ->
     pointwise_fill fv y g (sel (obs_list n (is_obs y)) a) = pointwise_del n y g a)
  /\ (forall i, is_obs y i = false -> pointwise_fill fv y g i = 0).
Proof.
  split.
  - intros a Ha. destruct (sel_obs n _ a Ha) as [_ H2]. unfold pointwise_fill. rewrite H2.
    rewrite (vals_obs fv 0 y _ H2). unfold pointwise_del, y_del, mask_rows, gather, idx. ring.
  - intros i Hi. unfold pointwise_fill. rewrite Hi. ring.
Qed.

Lemma pointwise_fill_is_deletion n fv (y : nvec) (g : car -> nat -> car) :
    (forall a, (a < nobs n (is_obs y))%nat ->
       pointwise_fill fv y g (sel (obs_list n (is_obs y)) a) = pointwise_del n y g a)
    /\ (forall i, is_obs y i = false -> pointwise_fill fv y g i = 0)
    /\ sum n (pointwise_fill fv y g) = sum (nobs n (is_obs y)) (pointwise_del n y g).
Proof.
  destruct (pointwise_fill_entries n fv y g) as [H1 H2].
  split; [exact H1|]. split; [exact H2|]. apply pointwise_fill_sum_is_deletion.
Qed.

(* an OBSERVED target is an ordinary datum whatever its value - in particular when it equals the
   fill value: the 'fill' term at an observed index is the pointwise term of that value *)
Lemma pointwise_fill_observed fv (y : nvec) (g : car -> nat -> car) i x :
  y i = Some x -> pointwise_fill fv y g i = g x i.
Proof. intros H. unfold pointwise_fill, vals, is_obs. rewrite H. ring. Qed.

(* the result of the 'fill' path does not depend on the fill value at all (entrywise) *)
Lemma pointwise_fill_value_irrelevant fv fv' (y : nvec) (g : car -> nat -> car) i :
  pointwise_fill fv y g i = pointwise_fill fv' y g i.
Proof. unfold pointwise_fill, vals, is_obs. destruct (y i); ring. Qed.

(* the value-comparison reading coincides with the code exactly when no observed target collides
   with the fill value *)
Lemma pointwise_fill_by_value_no_collision eqb fv (y : nvec) (g : car -> nat -> car) :
  eqb fv fv = true -> (forall i x, y i = Some x -> eqb x fv = false) ->
  forall i, pointwise_fill_by_value eqb fv y g i = pointwise_fill fv y g i.
Proof.
  intros Hr Hn i. unfold pointwise_fill_by_value, pointwise_fill, vals, is_obs.
  destruct (y i) as [x|] eqn:E; [rewrite (Hn i x E)|rewrite Hr]; reflexivity.
Qed.

End Proofs.

(* the value-comparison reading is NOT deletion: one observed target equal to the fill value
   (-999), term g = 1: the deleted (= whole) data set sums to 1, the by-value reading to 0 *)
Definition wit_fv : Qc := Q2Qc (-999 # 1).
Definition wit_y_collide : @nvec QcF := fun i => if Nat.eqb i 0 then Some wit_fv else None.
Lemma pointwise_fill_by_value_differs :
  exists (n : nat) (fv : Qc) (y : @nvec QcF) (g : Qc -> nat -> Qc),
    is_obs y O = true /\ y O = Some fv /\
    @sum QcF n (@pointwise_fill_by_value QcF Qc_eq_bool fv y g)
    <> @sum QcF (nobs n (is_obs y)) (@pointwise_del QcF n y g) /\
    @sum QcF n (@pointwise_fill QcF fv y g) = @sum QcF (nobs n (is_obs y)) (@pointwise_del QcF n y g).
Proof.
  exists 1%nat, wit_fv, wit_y_collide, (fun _ _ => 1%Qc).
  split; [reflexivity|]. split; [reflexivity|]. split.
  - intros H. apply (f_equal this) in H. vm_compute in H. discriminate H.
  - apply pointwise_fill_sum_is_deletion.
Qed.

(* ------------------------------------------------------------------ the masking is necessary (model of the OLD code) *)

(* exact_predictive_covar WITHOUT the mask (the code before fix 0d5c998): n = 2 train points of
   which the second is NaN, one test point, K = [[1,1/2,1/2],[1/2,1,1/2],[1/2,1/2,1]], S = I.
   The old code returned 4/5, deletion is 7/8; the current code ([pred_cov]) returns 7/8. *)
Definition wit_KJ : @M QcF :=
  fun i j => if Nat.eqb i j then 1%Qc else Q2Qc (1 # 2).
Definition wit_S : @M QcF := mI.
Definition wit_y : @nvec QcF := fun i => if Nat.eqb i 0 then Some 0%Qc else None.
Definition wit_Ainv : @M QcF :=
  fun i j => if Nat.eqb i j then Q2Qc (8 # 15) else Q2Qc (-2 # 15).
Definition wit_Aoinv : @M QcF := fun _ _ => Q2Qc (1 # 2).

Lemma cov_unmasked_old_differs :
  exists (n t : nat) (KJ S Ainv Aoinv : @M QcF) (y : @nvec QcF),
    symmetric (n + t) KJ /\
    is_inverse n (train_covar KJ S) Ainv /\
    is_inverse (nobs n (is_obs y)) (masked n n (is_obs y) (is_obs y) (train_covar KJ S)) Aoinv /\
    ~ meq t t (cov_unmasked_old n KJ Ainv) (del_cov n (is_obs y) KJ Aoinv).
Proof.
  exists 2%nat, 1%nat, wit_KJ, wit_S, wit_Ainv, wit_Aoinv, wit_y.
  split; [|split; [|split]].
  - intros i j _ _. unfold mT, wit_KJ. rewrite Nat.eqb_sym. reflexivity.
  - split; apply meqb_sound; vm_compute; reflexivity.
  - split; apply meqb_sound; vm_compute; reflexivity.
  - intros H. specialize (H O O (Nat.lt_0_succ _) (Nat.lt_0_succ _)).
    apply (f_equal this) in H. vm_compute in H. discriminate H.
Qed.

(* the same instance satisfies the hypotheses of the positive theorems *)
Lemma ex_fill_hypotheses :
  exists Afinv : @M QcF,
    is_inverse 2 (fill_kernel (is_obs wit_y) (train_covar wit_KJ wit_S)) Afinv /\
    is_inverse (nobs 2 (is_obs wit_y))
      (masked 2 2 (is_obs wit_y) (is_obs wit_y) (train_covar wit_KJ wit_S)) wit_Aoinv.
Proof.
  exists (fun i j => if Nat.eqb i j then Q2Qc (1 # 2) else 0%Qc).
  split; split; apply meqb_sound; vm_compute; reflexivity.
Qed.

(* the witness data meets every hypothesis of pred_cov_is_deletion, has a missing target, and
   the covariance the current code returns on it is the deletion value 7/8 under both policies *)
Definition q7_8 : Qc := Q2Qc (7 # 8).
Definition q4_5 : Qc := Q2Qc (4 # 5).
Definition wit_Afinv : @M QcF := fun i j => if Nat.eqb i j then Q2Qc (1 # 2) else 0%Qc.
Lemma ex_pred_cov_witness :
  is_inverse 2 (train_covar wit_KJ wit_S) wit_Ainv /\
  is_inverse 2 (fill_kernel (is_obs wit_y) (train_covar wit_KJ wit_S)) wit_Afinv /\
  is_inverse (nobs 2 (is_obs wit_y))
    (masked 2 2 (is_obs wit_y) (is_obs wit_y) (train_covar wit_KJ wit_S)) wit_Aoinv /\
  has_missing 2 wit_y = true /\
  pred_cov 2 PMask wit_KJ wit_Ainv wit_Aoinv wit_Afinv wit_y O O = q7_8 /\
  pred_cov 2 PFill wit_KJ wit_Ainv wit_Aoinv wit_Afinv wit_y O O = q7_8 /\
  cov_unmasked_old 2 wit_KJ wit_Ainv O O = q4_5.
Proof.
  split; [split; apply meqb_sound; vm_compute; reflexivity|].
  split; [split; apply meqb_sound; vm_compute; reflexivity|].
  split; [split; apply meqb_sound; vm_compute; reflexivity|].
  split; [reflexivity|].
  split; [apply Qc_is_canon; vm_compute; reflexivity|].
  split; apply Qc_is_canon; vm_compute; reflexivity.
Qed.
