From Coq Require Import Arith Lia Ring Field Bool List Setoid Morphisms ZArith QArith Qcanon.
From GPV Require Import Base.LinAlg Base.Exec Models.C01_posterior Models.C16_missing.
Import ListNotations.

Section Proofs.
Context {K : Fld}.
Add Field Ff_c16 : (@FT K).
Local Open Scope fld_scope.

(* ------------------------------------------------------------------ index lists *)

Lemma lsum_nth (l : list nat) (f : nat -> car) :
  lsum l f = sum (length l) (fun a => f (nth a l O)).
Proof.
  induction l as [|x l IH]; [reflexivity|].
  cbn [lsum length]. rewrite sum_S_first. cbn [nth]. rewrite IH. reflexivity.
Qed.

Lemma sum_filter_seq (ob : nat -> bool) (f : nat -> car) s n :
  sum n (fun j => if ob (s + j)%nat then f (s + j)%nat else 0) = lsum (filter ob (seq s n)) f.
Proof.
  revert s. induction n as [|n IH]; intros s; [reflexivity|].
  rewrite sum_S_first. cbn [seq filter]. rewrite Nat.add_0_r.
  assert (E : sum n (fun i => if ob (s + S i)%nat then f (s + S i)%nat else 0)
              = lsum (filter ob (seq (S s) n)) f).
  { rewrite <- IH. apply sum_ext. intros i _. replace (s + S i)%nat with (S s + i)%nat by lia.
    reflexivity. }
  rewrite E. destruct (ob s); cbn [lsum]; ring.
Qed.

(* a sum restricted by a mask is the sum over the gathered indices *)
Lemma sum_obs n (ob : nat -> bool) (f : nat -> car) :
  sum n (fun j => if ob j then f j else 0)
  = sum (nobs n ob) (fun a => f (sel (obs_list n ob) a)).
Proof.
  unfold nobs, sel, obs_list. rewrite <- lsum_nth. rewrite <- sum_filter_seq.
  apply sum_ext. intros; reflexivity.
Qed.

Lemma sel_obs n ob a : (a < nobs n ob)%nat ->
  (sel (obs_list n ob) a < n)%nat /\ ob (sel (obs_list n ob) a) = true.
Proof.
  intros Ha. unfold nobs in Ha. unfold sel.
  assert (Hin : In (nth a (obs_list n ob) O) (obs_list n ob)) by (apply nth_In; exact Ha).
  unfold obs_list in Hin at 2. apply filter_In in Hin. destruct Hin as [H1 H2].
  apply in_seq in H1. split; [lia|exact H2].
Qed.

Lemma obs_list_ext n ob ob' : (forall i, ob i = ob' i) -> obs_list n ob = obs_list n ob'.
Proof. intros H. unfold obs_list. apply filter_ext. exact H. Qed.

Lemma nobs_ext n ob ob' : (forall i, ob i = ob' i) -> nobs n ob = nobs n ob'.
Proof. intros H. unfold nobs. rewrite (obs_list_ext n ob ob' H). reflexivity. Qed.
Lemma mask_rows_ext n ob ob' A : (forall i, ob i = ob' i) -> mask_rows n ob A = mask_rows n ob' A.
Proof. intros H. unfold mask_rows. rewrite (obs_list_ext n ob ob' H). reflexivity. Qed.
Lemma mask_cols_ext n ob ob' A : (forall i, ob i = ob' i) -> mask_cols n ob A = mask_cols n ob' A.
Proof. intros H. unfold mask_cols. rewrite (obs_list_ext n ob ob' H). reflexivity. Qed.
Lemma rank_ext ob ob' i : (forall i, ob i = ob' i) -> rank ob i = rank ob' i.
Proof. intros H. unfold rank. rewrite (filter_ext _ _ H). reflexivity. Qed.

Lemma obs_list_split n ob i : (i < n)%nat -> ob i = true ->
  obs_list n ob = filter ob (seq 0 i) ++ i :: filter ob (seq (S i) (n - S i)).
Proof.
  intros Hi Ho. unfold obs_list.
  replace n with (i + S (n - S i))%nat at 1 by lia.
  rewrite seq_app, filter_app. cbn [Nat.add seq filter]. rewrite Ho. reflexivity.
Qed.

Lemma rank_lt n ob i : (i < n)%nat -> ob i = true ->
  (rank ob i < nobs n ob)%nat /\ sel (obs_list n ob) (rank ob i) = i.
Proof.
  intros Hi Ho. unfold nobs, sel, rank. rewrite (obs_list_split n ob i Hi Ho).
  rewrite app_length. cbn [length]. split; [lia|].
  rewrite app_nth2 by lia. rewrite Nat.sub_diag. reflexivity.
Qed.

Lemma obs_list_NoDup n ob : NoDup (obs_list n ob).
Proof. unfold obs_list. apply NoDup_filter. apply seq_NoDup. Qed.

(* scatter then gather is the identity *)
Lemma rank_sel n ob a : (a < nobs n ob)%nat -> rank ob (sel (obs_list n ob) a) = a.
Proof.
  intros Ha. destruct (sel_obs n ob a Ha) as [H1 H2].
  destruct (rank_lt n ob _ H1 H2) as [H3 H4].
  apply (proj1 (NoDup_nth (obs_list n ob) O) (obs_list_NoDup n ob)); try assumption.
Qed.

(* ------------------------------------------------------------------ NaN bookkeeping *)

Lemma is_obs_offset muJ y i : is_obs (offset muJ y) i = is_obs y i.
Proof. unfold is_obs, offset. destruct (y i); reflexivity. Qed.

Lemma is_obs_mean_cache_mask n Aoinv r i : is_obs (mean_cache_mask n Aoinv r) i = is_obs r i.
Proof. unfold mean_cache_mask. unfold is_obs at 1. destruct (is_obs r i); reflexivity. Qed.

Lemma is_obs_mean_cache_fill n Afinv r fv i : is_obs (mean_cache_fill n Afinv r fv) i = is_obs r i.
Proof. unfold mean_cache_fill. unfold is_obs at 1. destruct (is_obs r i); reflexivity. Qed.

Lemma vals_obs d d' (v : nvec) i : is_obs v i = true -> vals d v i O = vals d' v i O.
Proof. unfold is_obs, vals. destruct (v i); [reflexivity|discriminate]. Qed.

Lemma vals_offset d muJ y i : is_obs y i = true ->
  vals d (offset muJ y) i O = vals d y i O - muJ i O.
Proof. unfold is_obs, vals, offset. destruct (y i); [reflexivity|discriminate]. Qed.

(* ------------------------------------------------------------------ the deleted problem *)

Lemma selJ_train n l a : (a < length l)%nat -> selJ n l a = nth a l O.
Proof. intros Ha. unfold selJ. destruct (Nat.ltb_spec a (length l)); [reflexivity|lia]. Qed.
Lemma selJ_test n l i : selJ n l (length l + i) = (n + i)%nat.
Proof.
  unfold selJ. destruct (Nat.ltb_spec (length l + i) (length l)); [lia|]. f_equal. lia.
Qed.

(* the train covariance of the deleted data set is the masked train covariance *)
Lemma del_train_covar n ob KJ S :
  meq (nobs n ob) (nobs n ob) (train_covar (KJ_del n ob KJ) (S_del n ob S))
      (masked n n ob ob (train_covar KJ S)).
Proof.
  intros i j Hi Hj. unfold train_covar, madd, Kxx, sub, KJ_del, S_del, masked, gather.
  cbn [Nat.add]. unfold nobs in *. rewrite !selJ_train by assumption. reflexivity.
Qed.

Lemma is_inverse_compat n A A' Ai : meq n n A A' -> is_inverse n A Ai -> is_inverse n A' Ai.
Proof.
  intros HA [H1 H2]. split.
  - transitivity (mmul n A Ai); [apply mmul_compat_l; symmetry; exact HA|exact H1].
  - transitivity (mmul n Ai A); [apply mmul_compat_r; symmetry; exact HA|exact H2].
Qed.

Lemma del_Ksx n t ob KJ :
  meq t (nobs n ob) (Ksx (nobs n ob) (KJ_del n ob KJ)) (mask_cols n ob (Ksx n KJ)).
Proof.
  intros i j Hi Hj. unfold Ksx, sub, KJ_del, mask_cols, gather, idx, sel. cbn [Nat.add].
  unfold nobs in *. rewrite selJ_test. rewrite selJ_train by assumption. reflexivity.
Qed.

Lemma del_Kss n t ob KJ : meq t t (Kss (nobs n ob) (KJ_del n ob KJ)) (Kss n KJ).
Proof.
  intros i j Hi Hj. unfold Kss, sub, KJ_del, gather. unfold nobs. rewrite !selJ_test. reflexivity.
Qed.

(* ------------------------------------------------------------------ 'mask' is deletion *)

(* the a-th observed entry of the 'mask' cache is the a-th entry of the masked solve *)
Lemma mean_cache_mask_entry n Aoinv (r : nvec) ob a :
  (forall i, is_obs r i = ob i) -> (a < nobs n ob)%nat ->
  vals 0 (mean_cache_mask n Aoinv r) (sel (obs_list n ob) a) O
  = mmul (nobs n ob) Aoinv (mask_rows n ob (vals 0 r)) a O.
Proof.
  intros Hr Ha. destruct (sel_obs n ob a Ha) as [H1 H2].
  unfold vals at 1. unfold mean_cache_mask. cbv zeta. rewrite Hr, H2.
  rewrite (nobs_ext n _ ob Hr), (mask_rows_ext n _ ob _ Hr), (rank_ext _ ob _ Hr).
  rewrite (rank_sel n ob a Ha). reflexivity.
Qed.

(* offsets of the observed rows = offsets of the deleted data set *)
Lemma del_offset n muJ (y : nvec) d :
  meq (nobs n (is_obs y)) 1 (mask_rows n (is_obs y) (vals d (offset muJ y)))
      (msub (y_del n y) (sub 0 0 (mu_del n (is_obs y) muJ))).
Proof.
  intros a c Ha Hc. assert (c = O) by lia. subst c.
  unfold msub, y_del, mask_rows, gather, sub, mu_del, gather, idx. cbn [Nat.add].
  destruct (sel_obs n _ a Ha) as [H1 H2]. unfold nobs in Ha.
  rewrite selJ_train by exact Ha. rewrite (vals_offset d muJ y _ H2).
  rewrite (vals_obs d 0 y _ H2). reflexivity.
Qed.

Lemma mask_mean_is_deletion n t KJ muJ Aoinv (y : nvec) :
  meq t 1 (pred_mean_mask n (Ksx n KJ) (sub n 0 muJ) (mean_cache_mask n Aoinv (offset muJ y)))
          (del_mean n KJ muJ Aoinv y).
Proof.
  set (r := offset muJ y). set (ob := is_obs y).
  assert (Hr : forall i, is_obs r i = ob i) by (intros i; apply is_obs_offset).
  assert (Hob : forall i, is_obs (mean_cache_mask n Aoinv r) i = ob i).
  { intros i. rewrite is_obs_mean_cache_mask. apply Hr. }
  unfold pred_mean_mask, del_mean, post_mean, mean_cache. cbv zeta. fold ob.
  rewrite (nobs_ext n _ ob Hob), (mask_cols_ext n _ ob _ Hob), (mask_rows_ext n _ ob _ Hob).
  apply madd_compat.
  - apply mmul_compat.
    + symmetry. apply del_Ksx.
    + intros a c Ha Hc. assert (c = O) by lia. subst c.
      unfold mask_rows at 1. unfold gather, idx.
      rewrite (mean_cache_mask_entry n Aoinv r ob a Hr Ha).
      apply (mmul_compat_r (nobs n ob) (nobs n ob) 1); try lia.
      rewrite (mask_rows_ext n ob (is_obs y) _ (fun i => eq_refl)).
      apply del_offset.
  - intros i c Hi Hc. unfold sub, mu_del, gather, idx. cbn [Nat.add]. unfold nobs.
    rewrite selJ_test. reflexivity.
Qed.

Lemma mask_cov_is_deletion n t ob KJ Aoinv :
  meq t t (cov_masked n ob KJ Aoinv) (del_cov n ob KJ Aoinv).
Proof.
  unfold cov_masked, del_cov, post_cov. apply msub_compat.
  - symmetry. apply del_Kss.
  - assert (HG := del_Ksx n t ob KJ). apply mmul_compat; [symmetry; exact HG|].
    apply mmul_compat_r. apply mT_compat. symmetry. exact HG.
Qed.

(* ------------------------------------------------------------------ 'fill' is deletion *)

(* zeroed columns multiply the missing rows of the other factor by zero *)
Lemma zero_cols_mmul n t p ob T V :
  meq t p (mmul n (zero_cols ob T) V)
          (mmul (nobs n ob) (mask_cols n ob T) (mask_rows n ob V)).
Proof.
  intros i c Hi Hc. unfold mmul at 1.
  transitivity (sum n (fun j => if ob j then T i j * V j c else 0)).
  - apply sum_ext. intros j _. unfold zero_cols. destruct (ob j); ring.
  - rewrite sum_obs. reflexivity.
Qed.

(* an observed row of the filled kernel only meets observed columns *)
Lemma fill_kernel_mmul_obs n p ob A X :
  meq (nobs n ob) p (mask_rows n ob (mmul n (fill_kernel ob A) X))
                    (mmul (nobs n ob) (masked n n ob ob A) (mask_rows n ob X)).
Proof.
  intros a c Ha Hc. destruct (sel_obs n ob a Ha) as [H1 H2].
  unfold mask_rows at 1. unfold gather, idx. unfold mmul at 1.
  set (i := sel (obs_list n ob) a) in *.
  transitivity (sum n (fun j => if ob j then A i j * X j c else 0)).
  - apply sum_ext. intros j _. unfold fill_kernel. rewrite H2. cbn [andb].
    destruct (Nat.eqb_spec i j) as [->|Hne]; [rewrite H2; reflexivity|].
    destruct (ob j); ring.
  - rewrite sum_obs. reflexivity.
Qed.

(* THE key fact: the observed part of the solve with the filled kernel is the solve of the
   deleted system, whatever stands in the missing rows of the right-hand side *)
Lemma fill_solve_observed n p ob A Afinv Aoinv B :
  is_inverse n (fill_kernel ob A) Afinv ->
  is_inverse (nobs n ob) (masked n n ob ob A) Aoinv ->
  meq (nobs n ob) p (mask_rows n ob (mmul n Afinv B)) (mmul (nobs n ob) Aoinv (mask_rows n ob B)).
Proof.
  intros Hf Ho.
  apply (solve_unique (nobs n ob) p (masked n n ob ob A) Aoinv _ _ Ho).
  transitivity (mask_rows n ob (mmul n (fill_kernel ob A) (mmul n Afinv B))).
  { symmetry. apply fill_kernel_mmul_obs. }
  assert (E : meq n p (mmul n (fill_kernel ob A) (mmul n Afinv B)) B).
  { apply (solve_unique n p (fill_kernel ob A) Afinv _ _ Hf). reflexivity. }
  intros a c Ha Hc. unfold mask_rows, gather, idx. apply E; [|exact Hc].
  apply (sel_obs n ob a Ha).
Qed.

(* the fill value only ever enters the missing rows *)
Lemma mask_rows_vals n d d' (v : nvec) :
  meq (nobs n (is_obs v)) 1 (mask_rows n (is_obs v) (vals d v)) (mask_rows n (is_obs v) (vals d' v)).
Proof.
  intros a c Ha Hc. unfold mask_rows, gather, idx. assert (c = O) by lia. subst c.
  apply vals_obs. apply (sel_obs n _ a Ha).
Qed.

Lemma mean_cache_fill_entry n Afinv (r : nvec) fv d ob a :
  (forall i, is_obs r i = ob i) -> (a < nobs n ob)%nat ->
  vals d (mean_cache_fill n Afinv r fv) (sel (obs_list n ob) a) O
  = mask_rows n ob (mmul n Afinv (vals fv r)) a O.
Proof.
  intros Hr Ha. destruct (sel_obs n ob a Ha) as [H1 H2].
  unfold vals at 1. unfold mean_cache_fill. cbv zeta. rewrite Hr, H2. reflexivity.
Qed.

Lemma fill_mean_is_mask_mean n t KJ muJ S Afinv Aoinv (y : nvec) fv fv' :
  let A := train_covar KJ S in let ob := is_obs y in
  is_inverse n (fill_kernel ob A) Afinv ->
  is_inverse (nobs n ob) (masked n n ob ob A) Aoinv ->
  meq t 1 (pred_mean_fill n (Ksx n KJ) (sub n 0 muJ) (mean_cache_fill n Afinv (offset muJ y) fv) fv')
          (pred_mean_mask n (Ksx n KJ) (sub n 0 muJ) (mean_cache_mask n Aoinv (offset muJ y))).
Proof.
  intros A ob Hf Ho. set (r := offset muJ y).
  assert (Hr : forall i, is_obs r i = ob i) by (intros i; apply is_obs_offset).
  assert (Hobf : forall i, is_obs (mean_cache_fill n Afinv r fv) i = ob i).
  { intros i. rewrite is_obs_mean_cache_fill. apply Hr. }
  assert (Hobm : forall i, is_obs (mean_cache_mask n Aoinv r) i = ob i).
  { intros i. rewrite is_obs_mean_cache_mask. apply Hr. }
  unfold pred_mean_fill, pred_mean_mask. cbv zeta. apply madd_compat; [|reflexivity].
  rewrite (nobs_ext n _ ob Hobm), (mask_cols_ext n _ ob _ Hobm), (mask_rows_ext n _ ob _ Hobm).
  transitivity (mmul n (zero_cols ob (Ksx n KJ)) (vals fv' (mean_cache_fill n Afinv r fv))).
  { apply mmul_compat_l. intros i j _ _. unfold zero_cols. rewrite Hobf. reflexivity. }
  rewrite zero_cols_mmul. apply mmul_compat_r.
  intros a c Ha Hc. assert (c = O) by lia. subst c.
  unfold mask_rows at 1 2. unfold gather, idx.
  rewrite (mean_cache_mask_entry n Aoinv r ob a Hr Ha).
  rewrite (mean_cache_fill_entry n Afinv r fv fv' ob a Hr Ha).
  rewrite (fill_solve_observed n 1 ob A Afinv Aoinv (vals fv r) Hf Ho a O Ha) by lia.
  apply (mmul_compat_r (nobs n ob) (nobs n ob) 1); [|exact Ha|lia].
  rewrite (nobs_ext n ob (is_obs r) (fun i => eq_sym (Hr i))).
  rewrite !(mask_rows_ext n ob (is_obs r) _ (fun i => eq_sym (Hr i))).
  apply mask_rows_vals.
Qed.

Lemma fill_mean_is_deletion n t KJ muJ S Afinv Aoinv (y : nvec) fv fv' :
  let A := train_covar KJ S in let ob := is_obs y in
  is_inverse n (fill_kernel ob A) Afinv ->
  is_inverse (nobs n ob) (masked n n ob ob A) Aoinv ->
  meq t 1 (pred_mean_fill n (Ksx n KJ) (sub n 0 muJ) (mean_cache_fill n Afinv (offset muJ y) fv) fv')
          (del_mean n KJ muJ Aoinv y).
Proof.
  intros A ob Hf Ho.
  transitivity (pred_mean_mask n (Ksx n KJ) (sub n 0 muJ) (mean_cache_mask n Aoinv (offset muJ y))).
  - apply (fill_mean_is_mask_mean n t KJ muJ S Afinv Aoinv y fv fv' Hf Ho).
  - apply mask_mean_is_deletion.
Qed.

Lemma fill_cov_is_deletion n t ob KJ S Afinv Aoinv :
  let A := train_covar KJ S in
  is_inverse n (fill_kernel ob A) Afinv ->
  is_inverse (nobs n ob) (masked n n ob ob A) Aoinv ->
  meq t t (cov_filled n ob KJ Afinv) (del_cov n ob KJ Aoinv).
Proof.
  intros A Hf Ho.
  transitivity (cov_masked n ob KJ Aoinv); [|apply mask_cov_is_deletion].
  unfold cov_filled, cov_masked. apply msub_compat; [reflexivity|].
  set (T := Ksx n KJ). rewrite zero_cols_mmul. apply mmul_compat_r.
  rewrite (fill_solve_observed n t ob A Afinv Aoinv _ Hf Ho). apply mmul_compat_r.
  intros a c Ha Hc. unfold mask_rows, mask_cols, gather, idx, mT, zero_cols.
  destruct (sel_obs n ob a Ha) as [_ H2]. rewrite H2. reflexivity.
Qed.

(* ------------------------------------------------------------------ policy histories *)

Definition memo_ok n Aoinv Afinv (r : nvec) fv (m : memo) : Prop :=
  forall q mc, m q = Some mc -> mc = compute_cache n Aoinv Afinv r fv q.

Lemma memo_ok_step n Aoinv Afinv TT tm r fv m p :
  memo_ok n Aoinv Afinv r fv m ->
  memo_ok n Aoinv Afinv r fv (fst (predict_step n Aoinv Afinv TT tm r fv m p))
  /\ snd (predict_step n Aoinv Afinv TT tm r fv m p)
     = read_cache n TT tm fv p (compute_cache n Aoinv Afinv r fv p).
Proof.
  intros Hm. unfold predict_step. destruct (m p) as [mc|] eqn:E.
  - cbn [fst snd]. split; [exact Hm|]. rewrite (Hm p mc E). reflexivity.
  - cbn [fst snd]. split; [|reflexivity].
    intros q mc. unfold memo_set. destruct p, q; intros H;
      try (injection H as <-; reflexivity); apply (Hm _ _ H).
Qed.

Lemma memo_ok_history n Aoinv Afinv TT tm r fv h m :
  memo_ok n Aoinv Afinv r fv m ->
  memo_ok n Aoinv Afinv r fv
    (fold_left (fun m p => fst (predict_step n Aoinv Afinv TT tm r fv m p)) h m).
Proof.
  revert m. induction h as [|p h IH]; intros m Hm; [exact Hm|].
  cbn [fold_left]. apply IH. apply (memo_ok_step n Aoinv Afinv TT tm r fv m p Hm).
Qed.

(* whatever was predicted before, under whichever policies, the next prediction is the
   deletion mean *)
Lemma policy_order_irrelevant n t KJ muJ S Afinv Aoinv (y : nvec) fv (h : list policy) (p : policy) :
  let A := train_covar KJ S in let ob := is_obs y in
  is_inverse n (fill_kernel ob A) Afinv ->
  is_inverse (nobs n ob) (masked n n ob ob A) Aoinv ->
  meq t 1 (snd (predict_step n Aoinv Afinv (Ksx n KJ) (sub n 0 muJ) (offset muJ y) fv
                  (predict_history n Aoinv Afinv (Ksx n KJ) (sub n 0 muJ) (offset muJ y) fv h) p))
          (del_mean n KJ muJ Aoinv y).
Proof.
  intros A ob Hf Ho.
  assert (H0 : memo_ok n Aoinv Afinv (offset muJ y) fv memo_empty) by (intros q mc H; discriminate H).
  assert (Hh := memo_ok_history n Aoinv Afinv (Ksx n KJ) (sub n 0 muJ) (offset muJ y) fv h _ H0).
  destruct (memo_ok_step n Aoinv Afinv (Ksx n KJ) (sub n 0 muJ) (offset muJ y) fv _ p Hh) as [_ E].
  unfold predict_history. rewrite E. destruct p; cbn [read_cache compute_cache].
  - apply mask_mean_is_deletion.
  - apply (fill_mean_is_deletion n t KJ muJ S Afinv Aoinv y fv fv Hf Ho).
Qed.

(* ------------------------------------------------------------------ log densities *)

Lemma to_list_ext n m A B : meq n m A B -> to_list n m A = to_list n m B.
Proof.
  intros H. unfold to_list. apply map_ext_in. intros i Hi. apply map_ext_in. intros j Hj.
  apply in_seq in Hi. apply in_seq in Hj. apply H; lia.
Qed.
Lemma det_ext n A B : meq n n A B -> det n A = det n B.
Proof. intros H. unfold det. rewrite (to_list_ext n n A B H). reflexivity. Qed.

(* the masked marginal IS the marginal of the deleted data set: same quadratic form, same
   determinant, same dimension *)
Lemma mll_mask_is_deletion n KJ muJ S Aoinv (y : nvec) :
  let ob := is_obs y in
  mll_quad_mask n muJ Aoinv y = mll_quad_del n muJ Aoinv y
  /\ det (nobs n ob) (masked n n ob ob (train_covar KJ S))
     = det (nobs n ob) (train_covar (KJ_del n ob KJ) (S_del n ob S)).
Proof.
  intros ob. split.
  - unfold mll_quad_mask, mll_quad_del. fold ob.
    assert (Hr : forall i, is_obs (offset muJ y) i = ob i) by (intros i; apply is_obs_offset).
    unfold nobs, mask_rows. rewrite (obs_list_ext n _ ob Hr). fold (nobs n ob).
    assert (E : meq (nobs n ob) 1 (gather (sel (obs_list n ob)) idx (vals 0 (offset muJ y)))
                    (msub (y_del n y) (sub 0 0 (mu_del n ob muJ)))).
    { intros a c Ha Hc. assert (c = O) by lia. subst c.
      unfold gather, msub, y_del, mask_rows, gather, sub, mu_del, gather, idx. cbn [Nat.add].
      fold ob. unfold nobs in Ha. rewrite selJ_train by exact Ha.
      apply vals_offset. apply (sel_obs n ob a Ha). }
    unfold quad. apply (mmul_compat 1 (nobs n ob) 1); try lia.
    + apply mT_compat. exact E.
    + apply mmul_compat_r. exact E.
  - apply det_ext. symmetry. apply del_train_covar.
Qed.

(* the normalisation: value = (log_prob + priors) / count; the two counts differ *)
Lemma mll_rescaled (u cn ck : car) : cn <> 0 -> ck <> 0 -> (u / cn) * cn = (u / ck) * ck.
Proof. intros Hn Hk. field. split; assumption. Qed.

Lemma elp_mask_is_deletion n half (y : nvec) m v s lg a :
  elp_mask n half y m v s lg a = elp_del n half y m v s lg a.
Proof. reflexivity. Qed.

Lemma elp_fill_sum_is_deletion n half fv (y : nvec) m v s lg :
  sum n (elp_fill half fv y m v s lg) = sum (nobs n (is_obs y)) (elp_del n half y m v s lg).
Proof.
  set (ob := is_obs y).
  transitivity (sum n (fun i => if ob i
                  then elp_point half (vals 0 y i O) (m i) (v i) (s i) (lg i) else 0)).
  - apply sum_ext. intros i _. unfold elp_fill. fold ob. destruct (ob i) eqn:E; [|ring].
    rewrite (vals_obs fv 0 y i E). ring.
  - rewrite sum_obs. reflexivity.
Qed.

(* each observed entry of the 'fill' result is the deleted data set's entry, missing ones are 0 *)
Lemma elp_fill_pointwise n half fv (y : nvec) m v s lg :
  (forall a, (a < nobs n (is_obs y))%nat ->
     elp_fill half fv y m v s lg (sel (obs_list n (is_obs y)) a) = elp_del n half y m v s lg a)
  /\ (forall i, is_obs y i = false -> elp_fill half fv y m v s lg i = 0).
Proof.
  split.
  - intros a Ha. destruct (sel_obs n _ a Ha) as [_ H2]. unfold elp_fill. rewrite H2.
    rewrite (vals_obs fv 0 y _ H2). unfold elp_del, y_del, mask_rows, gather, idx. ring.
  - intros i Hi. unfold elp_fill. rewrite Hi. ring.
Qed.

End Proofs.

(* ------------------------------------------------------------------ the code as it stands *)

(* exact_predictive_covar has no mask: n = 2 train points of which the second is NaN, one test
   point, K = [[1,1/2,1/2],[1/2,1,1/2],[1/2,1/2,1]], S = I.  The code returns 4/5, deletion 7/8. *)
Definition wit_KJ : @M QcF :=
  fun i j => if Nat.eqb i j then 1%Qc else Q2Qc (1 # 2).
Definition wit_S : @M QcF := mI.
Definition wit_y : @nvec QcF := fun i => if Nat.eqb i 0 then Some 0%Qc else None.
Definition wit_Ainv : @M QcF :=
  fun i j => if Nat.eqb i j then Q2Qc (8 # 15) else Q2Qc (-2 # 15).
Definition wit_Aoinv : @M QcF := fun _ _ => Q2Qc (1 # 2).

Lemma cov_as_coded_refuted :
  exists (n t : nat) (KJ S Ainv Aoinv : @M QcF) (y : @nvec QcF),
    symmetric (n + t) KJ /\
    is_inverse n (train_covar KJ S) Ainv /\
    is_inverse (nobs n (is_obs y)) (masked n n (is_obs y) (is_obs y) (train_covar KJ S)) Aoinv /\
    ~ meq t t (cov_as_coded n KJ Ainv) (del_cov n (is_obs y) KJ Aoinv).
Proof.
  exists 2%nat, 1%nat, wit_KJ, wit_S, wit_Ainv, wit_Aoinv, wit_y.
  split; [|split; [|split]].
  - intros i j _ _. unfold mT, wit_KJ. rewrite Nat.eqb_sym. reflexivity.
  - split; apply meqb_sound; vm_compute; reflexivity.
  - split; apply meqb_sound; vm_compute; reflexivity.
  - intros H. specialize (H O O (Nat.lt_0_succ _) (Nat.lt_0_succ _)).
    apply (f_equal this) in H. vm_compute in H. discriminate H.
Qed.

(* the same instance satisfies the hypotheses of the positive theorems *)
Lemma ex_fill_hypotheses :
  exists Afinv : @M QcF,
    is_inverse 2 (fill_kernel (is_obs wit_y) (train_covar wit_KJ wit_S)) Afinv /\
    is_inverse (nobs 2 (is_obs wit_y))
      (masked 2 2 (is_obs wit_y) (is_obs wit_y) (train_covar wit_KJ wit_S)) wit_Aoinv.
Proof.
  exists (fun i j => if Nat.eqb i j then Q2Qc (1 # 2) else 0%Qc).
  split; split; apply meqb_sound; vm_compute; reflexivity.
Qed.
