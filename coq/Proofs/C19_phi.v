(* C19 proofs, second part: LogNormalCDF.backward (main branch) is the derivative of log Phi,
   unconditionally: Phi > 0 on the whole line (Base/Gaussian.v, sharp Gaussian-integral bound). *)
From Coq Require Import Reals Lra.
From Coquelicot Require Import Coquelicot.
From GPV Require Import Base.LinAlg Base.Exec Base.Expr Base.Gaussian Models.C05_kernels Models.C19_derivs
  Proofs.C19_derivs.
Local Open Scope R_scope.

(* with the forward value log Phi(z) saved, the returned expression is phi(z) / Phi(z): every z *)
Lemma lncdf_backward_value (z : R) :
  lncdf_bwd_R z (ln (std_normal_cdf z)) = std_normal_pdf z / std_normal_cdf z.
Proof. apply lncdf_backward_identity. apply std_normal_cdf_pos. Qed.

(* ... which is the derivative of the forward function log Phi at z: every z *)
Lemma lncdf_backward_is_derivative (z : R) :
  is_derive (fun x => ln (std_normal_cdf x)) z (lncdf_bwd_R z (ln (std_normal_cdf z))).
Proof. rewrite lncdf_backward_value. apply ln_std_normal_cdf_derive. Qed.

(* vector-Jacobian product: for every upstream gradient g (either sign) the returned value is the
   derivative of g * log Phi *)
Lemma lncdf_vjp_is_derivative (g z : R) :
  is_derive (fun x => g * ln (std_normal_cdf x)) z (lncdf_vjp_R g z (ln (std_normal_cdf z))).
Proof.
  unfold lncdf_vjp_R. apply (is_derive_scal (fun x => ln (std_normal_cdf x)) z g).
  apply lncdf_backward_is_derivative.
Qed.

(* the two expr terms the harness evaluates (value and gradient) are a function and its derivative *)
Lemma lncdf_exprs_are_value_and_derivative (z : expr) :
  den (lncdf_value_expr z) = ln (std_normal_cdf (den z)) /\
  is_derive (fun t => ln (std_normal_cdf t)) (den z) (den (lncdf_grad_expr z)).
Proof.
  split; [reflexivity|]. rewrite den_lncdf_grad. apply ln_std_normal_cdf_derive.
Qed.

Lemma ex_lncdf_point : 0 < std_normal_cdf (-3) < 1.
Proof. split; [apply std_normal_cdf_pos|apply std_normal_cdf_lt_1]. Qed.
