(* C09, additional lemmas: the textbook SGPR predictive equations (Titsias 2009) ARE the dense
   Gaussian conditional for the Nystrom train covariance Q + D, and the WISKI fantasy mean cache
   is the KISS-GP mean cache of the concatenated data (push-through identities). *)
From Coq Require Import Arith Lia Ring Field Setoid Morphisms List ZArith QArith Qcanon.
From GPV Require Import Base.LinAlg Base.Exec Models.C01_posterior Models.C09_structured
  Proofs.C09_structured.
Import ListNotations.

Section Textbook.
Context {K : Fld}.
Add Field Ff_c09t : (@FT K).
Local Open Scope fld_scope.

(* push-through: B X = U A  ==>  B^-1 U = X A^-1 *)
Lemma push_through m n (A Ainv B Binv U X : M) :
  is_inverse n A Ainv -> is_inverse m B Binv ->
  meq m n (mmul m B X) (mmul n U A) -> meq m n (mmul m Binv U) (mmul n X Ainv).
Proof.
  intros HA HB H.
  apply (proj1 (solve_unique_r n m A Ainv (mmul m Binv U) X HA)).
  transitivity (mmul m Binv (mmul n U A)); [apply mmul_assoc|].
  symmetry. apply (proj1 (solve_unique m n B Binv X (mmul n U A) HB)). exact H.
Qed.

Section SGPR.
Variables (n m t : nat) (Kzz Kzzi Kxz Ksz Kss D Di Sigma Ainv : M).
Hypothesis HKs : symmetric m Kzz.
Hypothesis HK : is_inverse m Kzz Kzzi.
Hypothesis HD : is_inverse n D Di.
Hypothesis HS : is_inverse m (sgpr_sigma_arg n m Kzz Kxz Di) Sigma.
Hypothesis HA : is_inverse n (madd (nystrom m Kxz Kzzi Kxz) D) Ainv.

Let Kzx := mT Kxz.
Let Q := nystrom m Kxz Kzzi Kxz.
Let A := madd Q D.
Let B := sgpr_sigma_arg n m Kzz Kxz Di.
Let X := mmul m Kzzi Kzx.       (* m x n *)
Let U := mmul n Kzx Di.         (* m x n *)

(* B (Kzz^-1 Kzx) = (Kzx D^-1) (Q + D) *)
Lemma sgpr_key : meq m n (mmul m B X) (mmul n U A).
Proof.
  unfold B, sgpr_sigma_arg, X, U, A, Q, nystrom. fold Kzx.
  destruct HK as [HK1 HK2]. destruct HD as [HD1 HD2].
  (* left: Kzz (Kzzi Kzx) + (Kzx (Di Kxz)) (Kzzi Kzx) *)
  transitivity (madd (mmul m Kzz (mmul m Kzzi Kzx))
                     (mmul m (mmul n Kzx (mmul n Di Kxz)) (mmul m Kzzi Kzx)));
    [apply mmul_add_distr_r|].
  (* right: (Kzx Di) (Kxz (Kzzi Kzx)) + (Kzx Di) D *)
  symmetry.
  transitivity (madd (mmul n (mmul n Kzx Di) (mmul m Kxz (mmul m Kzzi Kzx)))
                     (mmul n (mmul n Kzx Di) D)); [apply mmul_add_distr_l|].
  transitivity (madd (mmul m (mmul n Kzx (mmul n Di Kxz)) (mmul m Kzzi Kzx)) Kzx).
  - apply madd_compat.
    + transitivity (mmul n Kzx (mmul n Di (mmul m Kxz (mmul m Kzzi Kzx)))); [apply mmul_assoc|].
      symmetry.
      transitivity (mmul n Kzx (mmul m (mmul n Di Kxz) (mmul m Kzzi Kzx))); [apply mmul_assoc|].
      apply mmul_compat_r. apply mmul_assoc.
    + transitivity (mmul n Kzx (mmul n Di D)); [apply mmul_assoc|].
      transitivity (mmul n Kzx mI); [apply mmul_compat_r; exact HD2|apply mmul_I_r].
  - transitivity (madd Kzx (mmul m (mmul n Kzx (mmul n Di Kxz)) (mmul m Kzzi Kzx)));
      [apply madd_comm|].
    apply madd_compat; [|reflexivity].
    symmetry.
    transitivity (mmul m (mmul m Kzz Kzzi) Kzx); [symmetry; apply mmul_assoc|].
    transitivity (mmul m mI Kzx); [apply mmul_compat_l; exact HK1|apply mmul_I_l].
Qed.

(* Sigma Kzx D^-1 = Kzz^-1 Kzx (Q + D)^-1 *)
Lemma sgpr_push : meq m n (mmul m Sigma U) (mmul n X Ainv).
Proof. apply (push_through m n A Ainv B Sigma U X HA HS). exact sgpr_key. Qed.

Lemma sgpr_textbook_mean_dense r ms :
  meq t 1 (sgpr_textbook_mean n m Ksz Sigma Kxz Di r ms)
          (dense_mean n ms (nystrom m Ksz Kzzi Kxz) Ainv r).
Proof.
  unfold sgpr_textbook_mean, dense_mean, nystrom. fold Kzx.
  apply madd_compat; [|reflexivity].
  (* Ksz (Sigma (Kzx (Di r))) = (Ksz (Kzzi Kzx)) (Ainv r) *)
  transitivity (mmul m Ksz (mmul n (mmul m Sigma U) r)).
  { apply mmul_compat_r. unfold U.
    transitivity (mmul m Sigma (mmul n (mmul n Kzx Di) r)).
    - apply mmul_compat_r. symmetry. apply mmul_assoc.
    - symmetry. apply mmul_assoc. }
  transitivity (mmul m Ksz (mmul n (mmul n X Ainv) r)).
  { apply mmul_compat_r. apply mmul_compat_l. exact sgpr_push. }
  transitivity (mmul m Ksz (mmul n X (mmul n Ainv r))).
  { apply mmul_compat_r. apply mmul_assoc. }
  symmetry. unfold X. apply mmul_assoc.
Qed.

(* Sigma = Kzz^-1 - Kzz^-1 Kzx (Q + D)^-1 Kxz Kzz^-1 *)
Lemma sgpr_sigma_closed :
  meq m m Sigma (msub Kzzi (mmul n (mmul n X Ainv) (mmul m Kxz Kzzi))).
Proof.
  destruct HS as [HS1 HS2]. destruct HK as [HK1 HK2].
  (* Sigma Kzz = I - (Sigma U) Kxz *)
  assert (E1 : meq m m (mmul m Sigma Kzz) (msub mI (mmul n (mmul m Sigma U) Kxz))).
  { assert (E0 : meq m m (madd (mmul m Sigma Kzz) (mmul n (mmul m Sigma U) Kxz)) mI).
    { transitivity (mmul m Sigma B); [|exact HS2].
      unfold B, sgpr_sigma_arg. fold Kzx. symmetry.
      transitivity (madd (mmul m Sigma Kzz) (mmul m Sigma (mmul n Kzx (mmul n Di Kxz))));
        [apply mmul_add_distr_l|].
      apply madd_compat; [reflexivity|].
      transitivity (mmul m Sigma (mmul n (mmul n Kzx Di) Kxz)).
      - apply mmul_compat_r. symmetry. apply mmul_assoc.
      - symmetry. apply mmul_assoc. }
    intros i j Hi Hj. specialize (E0 i j Hi Hj). unfold madd, msub in *.
    rewrite <- E0. ring. }
  (* multiply by Kzzi on the right *)
  transitivity (mmul m (mmul m Sigma Kzz) Kzzi).
  { transitivity (mmul m Sigma (mmul m Kzz Kzzi)); [|symmetry; apply mmul_assoc].
    transitivity (mmul m Sigma mI); [symmetry; apply mmul_I_r|].
    apply mmul_compat_r. symmetry. exact HK1. }
  transitivity (mmul m (msub mI (mmul n (mmul m Sigma U) Kxz)) Kzzi).
  { apply mmul_compat_l. exact E1. }
  transitivity (msub (mmul m mI Kzzi) (mmul m (mmul n (mmul m Sigma U) Kxz) Kzzi));
    [apply mmul_sub_distr_r|].
  apply msub_compat; [apply mmul_I_l|].
  transitivity (mmul n (mmul m Sigma U) (mmul m Kxz Kzzi)); [apply mmul_assoc|].
  apply mmul_compat_l. exact sgpr_push.
Qed.

Lemma sgpr_textbook_cov_dense :
  meq t t (sgpr_textbook_cov m Kss Ksz Kzzi Sigma)
          (dense_cov n Kss (nystrom m Ksz Kzzi Kxz) Ainv).
Proof.
  unfold sgpr_textbook_cov, dense_cov, nystrom. fold Kzx. fold X.
  assert (HKis : symmetric m Kzzi) by (apply (inverse_symmetric m Kzz); assumption).
  set (Kzs := mT Ksz).
  set (P := mmul n (mmul n X Ainv) (mmul m Kxz Kzzi)).
  (* Ksz Sigma Kzs = Ksz Kzzi Kzs - Ksz P Kzs *)
  assert (E1 : meq t t (mmul m Ksz (mmul m Sigma Kzs))
                       (msub (mmul m Ksz (mmul m Kzzi Kzs)) (mmul m Ksz (mmul m P Kzs)))).
  { transitivity (mmul m Ksz (msub (mmul m Kzzi Kzs) (mmul m P Kzs))); [|apply mmul_sub_distr_l].
    apply mmul_compat_r.
    transitivity (mmul m (msub Kzzi P) Kzs); [|apply mmul_sub_distr_r].
    apply mmul_compat_l. exact sgpr_sigma_closed. }
  (* (Ksz X) (Ainv (Ksz X)^T) = Ksz (P Kzs) *)
  assert (E2 : meq t t (mmul n (mmul m Ksz X) (mmul n Ainv (mT (mmul m Ksz X))))
                       (mmul m Ksz (mmul m P Kzs))).
  { assert (ET : meq n t (mT (mmul m Ksz X)) (mmul m (mmul m Kxz Kzzi) Kzs)).
    { transitivity (mmul m (mT X) (mT Ksz)); [apply mT_mmul|]. fold Kzs.
      apply mmul_compat_l. unfold X.
      transitivity (mmul m (mT Kzx) (mT Kzzi)); [apply mT_mmul|].
      apply mmul_compat.
      - unfold Kzx. apply mT_mT.
      - symmetry. exact HKis. }
    transitivity (mmul n (mmul m Ksz X) (mmul n Ainv (mmul m (mmul m Kxz Kzzi) Kzs))).
    { apply mmul_compat_r. apply mmul_compat_r. exact ET. }
    transitivity (mmul m Ksz (mmul n X (mmul n Ainv (mmul m (mmul m Kxz Kzzi) Kzs))));
      [apply mmul_assoc|].
    apply mmul_compat_r. unfold P.
    symmetry.
    transitivity (mmul n (mmul n X Ainv) (mmul m (mmul m Kxz Kzzi) Kzs)); [apply mmul_assoc|].
    apply mmul_assoc. }
  intros i j Hi Hj. specialize (E1 i j Hi Hj). specialize (E2 i j Hi Hj).
  unfold madd, msub in *. rewrite E1, E2. ring.
Qed.

End SGPR.

(* ------------------------------------------------------------------ WISKI fantasy mean cache *)
(* fantasy_mean_cache (exact_prediction_strategies.py): with P = W^T D^-1 W (the updated
   interp_inner_prod, g x g), any root L (g x q) of P, c = W^T D^-1 r (the updated
   interp_response_cache) and Qi = (I + L^T Kuu L)^-1:
       cache = Kuu c - (Kuu L) Qi (L^T (Kuu c))
   equals the KISS-GP mean cache Kuu W^T (W Kuu W^T + D)^-1 r of ALL the data. *)
Section Wiski.
Variables (n g q : nat) (Kuu Wt Di D L Qi Ainv : M).
(* Wt = W^T is g x n *)
Hypothesis HD : is_inverse n D Di.
Hypothesis HL : meq g g (mmul q L (mT L)) (wiski_inner n Wt Di).
Hypothesis HQ : is_inverse q (madd mI (mmul g (mT L) (mmul g Kuu L))) Qi.
Hypothesis HA : is_inverse n (madd (ski g (mT Wt) Kuu (mT Wt)) D) Ainv.

Definition wiski_fantasy_mean_cache (c : M) : M :=
  let Kc := mmul g Kuu c in
  msub Kc (mmul q (mmul g Kuu L) (mmul q Qi (mmul g (mT L) Kc))).

Let W := mT Wt.                 (* n x g *)
Let P := wiski_inner n Wt Di.   (* g x g *)

(* (I + Kuu P) (Kuu W^T) = (Kuu W^T D^-1) (W Kuu W^T + D) *)
Lemma wiski_key :
  meq g n (mmul g (madd mI (mmul g Kuu P)) (mmul g Kuu Wt))
          (mmul n (mmul g Kuu (mmul n Wt Di)) (madd (ski g W Kuu W) D)).
Proof.
  destruct HD as [HD1 HD2]. unfold P, wiski_inner, ski, W.
  transitivity (madd (mmul g mI (mmul g Kuu Wt))
                     (mmul g (mmul g Kuu (mmul n Wt (mmul n Di (mT Wt)))) (mmul g Kuu Wt)));
    [apply mmul_add_distr_r|].
  symmetry.
  transitivity (madd (mmul n (mmul g Kuu (mmul n Wt Di))
                             (mmul g (mT Wt) (mmul g Kuu (mT (mT Wt)))))
                     (mmul n (mmul g Kuu (mmul n Wt Di)) D)); [apply mmul_add_distr_l|].
  transitivity (madd (mmul g (mmul g Kuu (mmul n Wt (mmul n Di (mT Wt)))) (mmul g Kuu Wt))
                     (mmul g Kuu Wt)).
  - apply madd_compat.
    + (* Kuu (Wt Di) (W (Kuu Wt)) *)
      transitivity (mmul g Kuu (mmul n (mmul n Wt Di) (mmul g (mT Wt) (mmul g Kuu (mT (mT Wt))))));
        [apply mmul_assoc|].
      symmetry.
      transitivity (mmul g Kuu (mmul g (mmul n Wt (mmul n Di (mT Wt))) (mmul g Kuu Wt)));
        [apply mmul_assoc|].
      apply mmul_compat_r.
      transitivity (mmul n Wt (mmul g (mmul n Di (mT Wt)) (mmul g Kuu Wt))); [apply mmul_assoc|].
      symmetry.
      transitivity (mmul n Wt (mmul n Di (mmul g (mT Wt) (mmul g Kuu (mT (mT Wt))))));
        [apply mmul_assoc|].
      apply mmul_compat_r.
      transitivity (mmul n Di (mmul g (mT Wt) (mmul g Kuu Wt))).
      * apply mmul_compat_r. apply mmul_compat_r. apply mmul_compat_r. apply mT_mT.
      * symmetry. apply mmul_assoc.
    + transitivity (mmul g Kuu (mmul n (mmul n Wt Di) D)); [apply mmul_assoc|].
      apply mmul_compat_r.
      transitivity (mmul n Wt (mmul n Di D)); [apply mmul_assoc|].
      transitivity (mmul n Wt mI); [apply mmul_compat_r; exact HD2|apply mmul_I_r].
  - transitivity (madd (mmul g Kuu Wt)
                       (mmul g (mmul g Kuu (mmul n Wt (mmul n Di (mT Wt)))) (mmul g Kuu Wt)));
      [apply madd_comm|].
    apply madd_compat; [symmetry; apply mmul_I_l|reflexivity].
Qed.

(* the code's expression is (I + Kuu P)^-1 applied to Kuu c:  (I + Kuu P) cache = Kuu c *)
Lemma wiski_cache_solves c :
  meq g 1 (mmul g (madd mI (mmul g Kuu P)) (wiski_fantasy_mean_cache c)) (mmul g Kuu c).
Proof.
  destruct HQ as [HQ1 HQ2]. unfold wiski_fantasy_mean_cache.
  set (Kc := mmul g Kuu c). set (KL := mmul g Kuu L). set (Lt := mT L).
  set (G := madd mI (mmul g Lt KL)) in *.
  set (v := mmul q Qi (mmul g Lt Kc)).
  (* (I + Kuu P) KL = KL G *)
  assert (F1 : meq g q (mmul g (madd mI (mmul g Kuu P)) KL) (mmul q KL G)).
  { transitivity (madd (mmul g mI KL) (mmul g (mmul g Kuu P) KL)); [apply mmul_add_distr_r|].
    symmetry. unfold G.
    transitivity (madd (mmul q KL mI) (mmul q KL (mmul g Lt KL))); [apply mmul_add_distr_l|].
    apply madd_compat.
    - transitivity KL; [apply mmul_I_r|symmetry; apply mmul_I_l].
    - unfold KL at 1.
      transitivity (mmul g Kuu (mmul q L (mmul g Lt KL))); [apply mmul_assoc|].
      symmetry.
      transitivity (mmul g Kuu (mmul g P KL)); [apply mmul_assoc|].
      apply mmul_compat_r.
      transitivity (mmul g (mmul q L Lt) KL); [apply mmul_compat_l; symmetry; exact HL|].
      apply mmul_assoc. }
  (* (I + Kuu P) Kc = Kc + KL (Lt Kc) *)
  assert (F2 : meq g 1 (mmul g (madd mI (mmul g Kuu P)) Kc) (madd Kc (mmul q KL (mmul g Lt Kc)))).
  { transitivity (madd (mmul g mI Kc) (mmul g (mmul g Kuu P) Kc)); [apply mmul_add_distr_r|].
    apply madd_compat; [apply mmul_I_l|].
    transitivity (mmul g Kuu (mmul g P Kc)); [apply mmul_assoc|].
    unfold KL.
    symmetry.
    transitivity (mmul g Kuu (mmul q L (mmul g Lt Kc))); [apply mmul_assoc|].
    apply mmul_compat_r.
    transitivity (mmul g (mmul q L Lt) Kc); [symmetry; apply mmul_assoc|].
    apply mmul_compat_l. exact HL. }
  (* (I + Kuu P) (KL v) = KL (G v) = KL (Lt Kc) *)
  assert (F3 : meq g 1 (mmul g (madd mI (mmul g Kuu P)) (mmul q KL v)) (mmul q KL (mmul g Lt Kc))).
  { transitivity (mmul q (mmul g (madd mI (mmul g Kuu P)) KL) v); [symmetry; apply mmul_assoc|].
    transitivity (mmul q (mmul q KL G) v); [apply mmul_compat_l; exact F1|].
    transitivity (mmul q KL (mmul q G v)); [apply mmul_assoc|].
    apply mmul_compat_r. unfold v.
    transitivity (mmul q (mmul q G Qi) (mmul g Lt Kc)); [symmetry; apply mmul_assoc|].
    transitivity (mmul q mI (mmul g Lt Kc)); [apply mmul_compat_l; exact HQ1|apply mmul_I_l]. }
  transitivity (msub (mmul g (madd mI (mmul g Kuu P)) Kc)
                     (mmul g (madd mI (mmul g Kuu P)) (mmul q KL v))); [apply mmul_sub_distr_l|].
  intros i j Hi Hj. specialize (F2 i j Hi Hj). specialize (F3 i j Hi Hj).
  unfold msub, madd in *. rewrite F2, F3. ring.
Qed.

(* the fantasy mean cache is the KISS-GP mean cache of the concatenated data, PROVIDED
   I + Kuu P is invertible (it is: its inverse is I - KL Qi L^T, see wiski_cache_solves) *)
Lemma wiski_fantasy_mean_cache_correct Bi r :
  is_inverse g (madd mI (mmul g Kuu P)) Bi ->
  meq g 1 (wiski_fantasy_mean_cache (wiski_response n Wt Di r))
          (interp_mean_cache n g Kuu W Ainv r).
Proof.
  intros HB. unfold interp_mean_cache, wiski_response.
  set (c := mmul n Wt (mmul n Di r)).
  (* cache = Bi (Kuu c) *)
  assert (E1 : meq g 1 (wiski_fantasy_mean_cache c) (mmul g Bi (mmul g Kuu c))).
  { apply (proj1 (solve_unique g 1 _ Bi _ _ HB)). apply wiski_cache_solves. }
  (* Bi (Kuu Wt Di) = (Kuu Wt) Ainv *)
  assert (E2 : meq g n (mmul g Bi (mmul g Kuu (mmul n Wt Di))) (mmul n (mmul g Kuu Wt) Ainv)).
  { apply (push_through g n _ Ainv _ Bi _ _ HA HB). exact wiski_key. }
  transitivity (mmul g Bi (mmul g Kuu c)); [exact E1|].
  transitivity (mmul g Bi (mmul n (mmul g Kuu (mmul n Wt Di)) r)).
  { apply mmul_compat_r. unfold c.
    transitivity (mmul g Kuu (mmul n (mmul n Wt Di) r)).
    - apply mmul_compat_r. symmetry. apply mmul_assoc.
    - symmetry. apply mmul_assoc. }
  transitivity (mmul n (mmul g Bi (mmul g Kuu (mmul n Wt Di))) r); [symmetry; apply mmul_assoc|].
  transitivity (mmul n (mmul n (mmul g Kuu Wt) Ainv) r); [apply mmul_compat_l; exact E2|].
  transitivity (mmul n (mmul g Kuu Wt) (mmul n Ainv r)); [apply mmul_assoc|].
  transitivity (mmul g Kuu (mmul n Wt (mmul n Ainv r))); [apply mmul_assoc|].
  apply mmul_compat_r. apply mmul_compat_l. unfold W. symmetry. apply mT_mT.
Qed.

(* ---- fantasy covariance cache: inner_cache = (Kuu L) Qi (Kuu L)^T (fantasy_covar_cache, the
   branch without fast_pred_var; the code then takes a root of it) is Kuu W^T A^-1 W Kuu *)
Hypothesis HKs : symmetric g Kuu.

Definition wiski_inner_cache : M :=
  mmul q (mmul g Kuu L) (mmul q Qi (mT (mmul g Kuu L))).
Definition wiski_pred_cov (t : nat) (Tss Ws : M) : M :=
  msub Tss (mmul g Ws (mmul g wiski_inner_cache (mT Ws))).

Lemma wiski_F1 :
  meq g q (mmul g (madd mI (mmul g Kuu P)) (mmul g Kuu L))
          (mmul q (mmul g Kuu L) (madd mI (mmul g (mT L) (mmul g Kuu L)))).
Proof.
  set (KL := mmul g Kuu L). set (Lt := mT L).
  transitivity (madd (mmul g mI KL) (mmul g (mmul g Kuu P) KL)); [apply mmul_add_distr_r|].
  symmetry.
  transitivity (madd (mmul q KL mI) (mmul q KL (mmul g Lt KL))); [apply mmul_add_distr_l|].
  apply madd_compat.
  - transitivity KL; [apply mmul_I_r|symmetry; apply mmul_I_l].
  - unfold KL at 1.
    transitivity (mmul g Kuu (mmul q L (mmul g Lt KL))); [apply mmul_assoc|].
    symmetry.
    transitivity (mmul g Kuu (mmul g P KL)); [apply mmul_assoc|].
    apply mmul_compat_r.
    transitivity (mmul g (mmul q L Lt) KL); [apply mmul_compat_l; symmetry; exact HL|].
    apply mmul_assoc.
Qed.

Section WithInverse.
Variable Bi : M.
Hypothesis HB : is_inverse g (madd mI (mmul g Kuu P)) Bi.

Lemma wiski_push :
  meq g n (mmul g Bi (mmul g Kuu (mmul n Wt Di))) (mmul n (mmul g Kuu Wt) Ainv).
Proof. apply (push_through g n _ Ainv _ Bi _ _ HA HB). exact wiski_key. Qed.

(* Bi (Kuu L) = (Kuu L) Qi *)
Lemma wiski_push_L : meq g q (mmul g Bi (mmul g Kuu L)) (mmul q (mmul g Kuu L) Qi).
Proof.
  apply (push_through g q _ Qi _ Bi (mmul g Kuu L) (mmul g Kuu L) HQ HB). exact wiski_F1.
Qed.

Lemma wiski_inner_cache_correct :
  meq g g wiski_inner_cache (mmul n (mmul g Kuu Wt) (mmul n Ainv (mmul g W Kuu))).
Proof.
  unfold wiski_inner_cache. set (KL := mmul g Kuu L).
  set (Mid := mmul g Kuu (mmul g P Kuu)).
  (* left = Bi Mid *)
  transitivity (mmul g Bi Mid).
  - transitivity (mmul q (mmul q KL Qi) (mT KL)); [symmetry; apply mmul_assoc|].
    transitivity (mmul q (mmul g Bi KL) (mT KL)).
    { apply mmul_compat_l. symmetry. exact wiski_push_L. }
    transitivity (mmul g Bi (mmul q KL (mT KL))); [apply mmul_assoc|].
    apply mmul_compat_r. unfold KL, Mid.
    transitivity (mmul q (mmul g Kuu L) (mmul g (mT L) (mT Kuu))).
    { apply mmul_compat_r. apply mT_mmul. }
    transitivity (mmul g Kuu (mmul q L (mmul g (mT L) (mT Kuu)))); [apply mmul_assoc|].
    apply mmul_compat_r.
    transitivity (mmul g (mmul q L (mT L)) (mT Kuu)); [symmetry; apply mmul_assoc|].
    apply mmul_compat; [exact HL|]. symmetry. exact HKs.
  - symmetry.
    transitivity (mmul n (mmul n (mmul g Kuu Wt) Ainv) (mmul g W Kuu)); [symmetry; apply mmul_assoc|].
    transitivity (mmul n (mmul g Bi (mmul g Kuu (mmul n Wt Di))) (mmul g W Kuu)).
    { apply mmul_compat_l. symmetry. exact wiski_push. }
    transitivity (mmul g Bi (mmul n (mmul g Kuu (mmul n Wt Di)) (mmul g W Kuu))); [apply mmul_assoc|].
    apply mmul_compat_r. unfold Mid.
    transitivity (mmul g Kuu (mmul n (mmul n Wt Di) (mmul g W Kuu))); [apply mmul_assoc|].
    apply mmul_compat_r. unfold P, wiski_inner, W.
    transitivity (mmul n Wt (mmul n Di (mmul g (mT Wt) Kuu))); [apply mmul_assoc|].
    symmetry.
    transitivity (mmul n Wt (mmul g (mmul n Di (mT Wt)) Kuu)); [apply mmul_assoc|].
    apply mmul_compat_r. apply mmul_assoc.
Qed.

(* predictive covariance of the fantasy model = dense conditional of W Kuu W^T + D, for test
   interpolation rows Ws (t x g) and prior test covariance Tss *)
Lemma wiski_pred_cov_dense t Tss Ws :
  meq t t (wiski_pred_cov t Tss Ws) (dense_cov n Tss (ski g Ws Kuu W) Ainv).
Proof.
  unfold wiski_pred_cov, dense_cov, ski. apply msub_compat; [reflexivity|].
  set (KWt := mmul g Kuu (mT W)).
  assert (EW : meq g n KWt (mmul g Kuu Wt)).
  { unfold KWt, W. apply mmul_compat_r. apply mT_mT. }
  assert (ET : meq n t (mT (mmul g Ws KWt)) (mmul g (mmul g W Kuu) (mT Ws))).
  { transitivity (mmul g (mT KWt) (mT Ws)); [apply mT_mmul|].
    apply mmul_compat_l. unfold KWt.
    transitivity (mmul g (mT (mT W)) (mT Kuu)); [apply mT_mmul|].
    apply mmul_compat; [apply mT_mT|]. symmetry. exact HKs. }
  transitivity (mmul g Ws (mmul g (mmul n (mmul g Kuu Wt) (mmul n Ainv (mmul g W Kuu))) (mT Ws))).
  { apply mmul_compat_r. apply mmul_compat_l. exact wiski_inner_cache_correct. }
  symmetry.
  transitivity (mmul n (mmul g Ws KWt) (mmul n Ainv (mmul g (mmul g W Kuu) (mT Ws)))).
  { apply mmul_compat_r. apply mmul_compat_r. exact ET. }
  transitivity (mmul g Ws (mmul n KWt (mmul n Ainv (mmul g (mmul g W Kuu) (mT Ws)))));
    [apply mmul_assoc|].
  apply mmul_compat_r.
  transitivity (mmul n (mmul g Kuu Wt) (mmul n Ainv (mmul g (mmul g W Kuu) (mT Ws)))).
  { apply mmul_compat_l. exact EW. }
  symmetry.
  transitivity (mmul n (mmul g Kuu Wt) (mmul g (mmul n Ainv (mmul g W Kuu)) (mT Ws)));
    [apply mmul_assoc|].
  apply mmul_compat_r. apply mmul_assoc.
Qed.

End WithInverse.

End Wiski.

(* ------------------------------------------------------------------ KISS-GP, fast_pred_samples *)
(* covar_cache with fast_pred_samples (exact_prediction_strategies.py, covar_cache): the cached
   factor is a root Rin of  Kuu - C C^T  with C = Kuu W^T S (S S^T = A^-1); the predictive
   covariance returned is Root(Ws Rin), with NO separate test-test term *)
Definition interp_pred_cov_samples (g p : nat) (Ws Rin : M) : M :=
  let Rt := mmul g Ws Rin in mmul p Rt (mT Rt).

Lemma interp_pred_cov_samples_dense n g q p t Kuu W Ws S Rin Ainv :
  meq n n (mmul q S (mT S)) Ainv ->
  meq g g (mmul p Rin (mT Rin))
          (msub Kuu (mmul q (interp_covar_cache n g Kuu W S) (mT (interp_covar_cache n g Kuu W S)))) ->
  meq t t (interp_pred_cov_samples g p Ws Rin)
          (dense_cov n (ski g Ws Kuu Ws) (ski g Ws Kuu W) Ainv).
Proof.
  intros HS HR.
  transitivity (interp_pred_cov_root n g q (ski g Ws Kuu Ws) Kuu W Ws S);
    [|apply interp_pred_cov_root_dense; exact HS].
  unfold interp_pred_cov_samples, interp_pred_cov_root.
  set (C := interp_covar_cache n g Kuu W S) in *.
  transitivity (mmul g Ws (mmul g (msub Kuu (mmul q C (mT C))) (mT Ws))).
  { apply (root_sandwich t t g p Ws Ws Rin). exact HR. }
  transitivity (mmul g Ws (msub (mmul g Kuu (mT Ws)) (mmul g (mmul q C (mT C)) (mT Ws)))).
  { apply mmul_compat_r. apply mmul_sub_distr_r. }
  transitivity (msub (mmul g Ws (mmul g Kuu (mT Ws))) (mmul g Ws (mmul g (mmul q C (mT C)) (mT Ws))));
    [apply mmul_sub_distr_l|].
  unfold ski. apply msub_compat; [reflexivity|].
  symmetry. apply (root_sandwich t t g q Ws Ws C (mmul q C (mT C))). reflexivity.
Qed.

End Textbook.

(* ------------------------------------------------------------------ non-vacuity (over Qc) *)
Definition tbKzz : @M QcF := of_list [[1%Qc]].
Definition tbKxz : @M QcF := of_list [[1%Qc]; [qc 1 2]].
Definition tbD : @M QcF := @mdiag QcF (fun _ => qc 1 4).
Definition tbDi : @M QcF := @mdiag QcF (fun _ => qc 4 1).
Definition tbSigma : @M QcF := of_list [[qc 1 6]].
Definition tbAinv : @M QcF := of_list [[qc 4 3; qc (-4) 3]; [qc (-4) 3; qc 10 3]].
Lemma ex_textbook_hyps :
  symmetric 1 tbKzz /\ is_inverse 1 tbKzz tbKzz /\ is_inverse 2 tbD tbDi
  /\ is_inverse 1 (sgpr_sigma_arg 2 1 tbKzz tbKxz tbDi) tbSigma
  /\ is_inverse 2 (madd (nystrom 1 tbKxz tbKzz tbKxz) tbD) tbAinv.
Proof. repeat split; apply meqb_sound; vm_compute; reflexivity. Qed.

Definition wkKuu : @M QcF := of_list [[1%Qc; qc 1 2]; [qc 1 2; 1%Qc]].
Definition wkWt : @M QcF := of_list [[1%Qc; 0%Qc]; [0%Qc; 1%Qc]].
Definition wkL : @M QcF := of_list [[qc 2 1; 0%Qc]; [0%Qc; qc 2 1]].
Definition wkQi : @M QcF := of_list [[qc 5 21; qc (-2) 21]; [qc (-2) 21; qc 5 21]].
Definition wkAinv : @M QcF := of_list [[qc 20 21; qc (-8) 21]; [qc (-8) 21; qc 20 21]].
Lemma ex_wiski_hyps :
  is_inverse 2 tbD tbDi
  /\ meq 2 2 (mmul 2 wkL (mT wkL)) (wiski_inner 2 wkWt tbDi)
  /\ is_inverse 2 (madd mI (mmul 2 (mT wkL) (mmul 2 wkKuu wkL))) wkQi
  /\ is_inverse 2 (madd (ski 2 (mT wkWt) wkKuu (mT wkWt)) tbD) wkAinv
  /\ is_inverse 2 (madd mI (mmul 2 wkKuu (wiski_inner 2 wkWt tbDi))) wkQi
  /\ symmetric 2 wkKuu.
Proof. repeat split; apply meqb_sound; vm_compute; reflexivity. Qed.

Definition fsKuu : @M QcF := of_list [[1%Qc]].
Definition fsS : @M QcF := of_list [[qc 3 5]].
Definition fsRin : @M QcF := of_list [[qc 4 5]].
Lemma ex_samples_hyps :
  meq 1 1 (mmul 1 fsS (mT fsS)) (of_list [[qc 9 25]] : @M QcF) /\
  meq 1 1 (mmul 1 fsRin (mT fsRin))
          (msub fsKuu (mmul 1 (interp_covar_cache 1 1 fsKuu fsKuu fsS)
                              (mT (interp_covar_cache 1 1 fsKuu fsKuu fsS)))).
Proof. split; apply meqb_sound; vm_compute; reflexivity. Qed.

(* ------------------------------------------------------------------ index order, reversed dimensions *)

Lemma prodn_app a b : prodn (a ++ b) = (prodn a * prodn b)%nat.
Proof.
  unfold prodn. induction a as [|x a IH]; cbn [app fold_right]; [lia|]. rewrite IH. lia.
Qed.

Lemma lex_index_snoc gs ks g k : length gs = length ks ->
  lex_index (gs ++ [g]) (ks ++ [k]) = (lex_index gs ks * g + k)%nat.
Proof.
  revert ks. induction gs as [|g0 gr IH]; intros [|k0 kr] HL; try discriminate.
  - cbn. lia.
  - cbn [app lex_index]. rewrite IH by (cbn in HL; lia). rewrite prodn_app.
    replace (prodn [g]) with g by (unfold prodn; cbn [fold_right]; lia). lia.
Qed.

Lemma valid_multi_length gs ks : valid_multi gs ks -> length gs = length ks.
Proof.
  revert ks. induction gs as [|g gr IH]; intros [|k kr] H; cbn in *; try contradiction; try reflexivity.
  destruct H as [_ H]. f_equal. apply IH. exact H.
Qed.

(* handing the dimensions to Interpolation.interpolate in reverse order turns its lexicographic
   flat index into the column-major index of the node *)
Lemma reversed_lex_is_colmajor gs ks : valid_multi gs ks ->
  lex_index (rev gs) (rev ks) = colmajor_index gs ks.
Proof.
  revert ks. induction gs as [|g gr IH]; intros [|k kr] H; cbn in H; try contradiction; [reflexivity|].
  destruct H as [_ H]. cbn [rev colmajor_index].
  rewrite lex_index_snoc by (rewrite !rev_length; apply valid_multi_length; exact H).
  rewrite IH by exact H. lia.
Qed.
