(* C18 proofs: round trips preserve every prediction that only reads carried state. *)
From Coq Require Import Arith List Bool Lia.
From GPV Require Import Models.C18_persist Models.C03_cache Proofs.C03_cache.
Import ListNotations.

Lemma find_attr_In a o f : find_attr a o = Some f -> In f o /\ f_attr f = a.
Proof.
  induction o as [|x r IH]; cbn [find_attr]; [discriminate|].
  destruct (f_attr x =? a) eqn:E.
  - intros H. injection H as <-. apply Nat.eqb_eq in E. split; [left; reflexivity | exact E].
  - intros H. destruct (IH H). split; [right|]; assumption.
Qed.

(* with unique attribute names, the state_dict holds the value of every carried field *)
Lemma sd_get_state_dict o : NoDup (map f_attr o) ->
  forall f, In f o -> carried f = true -> sd_get (f_attr f) (state_dict o) = Some (f_val f).
Proof.
  induction o as [|x r IH]; intros Hnd f Hin Hc; [destruct Hin|].
  cbn [map] in Hnd. inversion Hnd as [|? ? Hx Hr]; subst.
  unfold state_dict. cbn [filter].
  destruct Hin as [<-|Hin].
  - rewrite Hc. cbn [map sd_get]. rewrite Nat.eqb_refl. reflexivity.
  - destruct (carried x) eqn:Hcx.
    + cbn [map sd_get]. destruct (f_attr x =? f_attr f) eqn:E.
      * exfalso. apply Nat.eqb_eq in E. apply Hx. rewrite E. apply in_map. exact Hin.
      * apply IH; assumption.
    + apply IH; assumption.
Qed.

Lemma find_attr_map_load sd a t :
  find_attr a (map (load_field sd) t) =
  match find_attr a t with Some f => Some (load_field sd f) | None => None end.
Proof.
  induction t as [|x r IH]; [reflexivity|]. cbn [map find_attr].
  assert (Ha : f_attr (load_field sd x) = f_attr x).
  { unfold load_field. destruct (carried x); [|reflexivity]. destruct (sd_get (f_attr x) sd); reflexivity. }
  rewrite Ha. destruct (f_attr x =? a); [reflexivity | exact IH].
Qed.

Lemma find_attr_filter_nocache a t f :
  find_attr a t = Some f -> is_cache f = false ->
  NoDup (map f_attr t) ->
  find_attr a (filter (fun f => negb (is_cache f)) t) = Some f.
Proof.
  induction t as [|x r IH]; cbn [find_attr]; [discriminate|]. intros H Hc Hnd.
  cbn [map] in Hnd. inversion Hnd as [|? ? Hx Hr]; subst. cbn [filter].
  destruct (f_attr x =? a) eqn:E.
  - injection H as <-. rewrite Hc. cbn [negb find_attr]. rewrite E. reflexivity.
  - destruct (negb (is_cache x)); [cbn [find_attr]; rewrite E|]; apply IH; assumption.
Qed.

Lemma find_attr_filter_none (p : field -> bool) a t :
  find_attr a t = None -> find_attr a (filter p t) = None.
Proof.
  induction t as [|x r IH]; [reflexivity|]. cbn [find_attr filter].
  destruct (f_attr x =? a) eqn:E; [discriminate|]. intros H.
  destruct (p x); [cbn [find_attr]; rewrite E|]; apply IH; exact H.
Qed.

Lemma get_load_premise o fresh a :
  NoDup (map f_attr o) -> NoDup (map f_attr fresh) -> premise o fresh a = true ->
  get a (load fresh (state_dict o)) = get a o.
Proof.
  intros Ho Hf Hp. unfold premise in Hp. unfold get, load. rewrite find_attr_map_load.
  destruct (find_attr a o) as [fo|] eqn:Eo; destruct (find_attr a fresh) as [ff|] eqn:Ef; try discriminate.
  - destruct (find_attr_In _ _ _ Eo) as [Hino Hao]. destruct (find_attr_In _ _ _ Ef) as [Hinf Haf].
    apply orb_prop in Hp. destruct Hp as [Hp|Hp].
    + apply andb_prop in Hp. destruct Hp as [Hco Hcf].
      assert (Hnc : is_cache ff = false) by (unfold carried in Hcf; unfold is_cache; destruct (f_cls ff); try discriminate; reflexivity).
      rewrite (find_attr_filter_nocache a fresh ff Ef Hnc Hf).
      unfold load_field. rewrite Hcf. rewrite Haf, <- Hao.
      rewrite (sd_get_state_dict o Ho fo Hino Hco). reflexivity.
    + apply andb_prop in Hp. destruct Hp as [Hp Hv]. apply andb_prop in Hp. destruct Hp as [Hpo Hpf].
      assert (Hnc : is_cache ff = false) by (unfold is_plain in Hpf; unfold is_cache; destruct (f_cls ff); try discriminate; reflexivity).
      rewrite (find_attr_filter_nocache a fresh ff Ef Hnc Hf).
      unfold load_field.
      assert (Hc : carried ff = false) by (unfold is_plain in Hpf; unfold carried; destruct (f_cls ff); try discriminate; reflexivity).
      rewrite Hc. apply Nat.eqb_eq in Hv. rewrite Hv. reflexivity.
  - rewrite (find_attr_filter_none _ a fresh Ef). reflexivity.
Qed.

Lemma roundtrip_sd o fresh rel :
  NoDup (map f_attr o) -> NoDup (map f_attr fresh) -> forallb (premise o fresh) rel = true ->
  predict rel (load fresh (state_dict o)) = predict rel o.
Proof.
  intros Ho Hf Hp. unfold predict. apply map_ext_in. intros a Ha.
  rewrite forallb_forall in Hp. apply get_load_premise; auto.
Qed.

Lemma find_attr_copy dropped a o :
  memb a dropped = false -> find_attr a (copy dropped o) = find_attr a o.
Proof.
  intros Hd. unfold copy. induction o as [|x r IH]; [reflexivity|]. cbn [filter find_attr].
  destruct (f_attr x =? a) eqn:E.
  - assert (Hm : memb (f_attr x) dropped = false) by (apply Nat.eqb_eq in E; rewrite E; exact Hd).
    rewrite Hm. cbn [negb find_attr]. rewrite E. reflexivity.
  - destruct (negb (memb (f_attr x) dropped)); [cbn [find_attr]; rewrite E|]; exact IH.
Qed.

Lemma roundtrip_copy o dropped rel :
  forallb (fun a => negb (memb a dropped)) rel = true ->
  predict rel (copy dropped o) = predict rel o.
Proof.
  intros H. unfold predict. apply map_ext_in. intros a Ha. rewrite forallb_forall in H.
  specialize (H a Ha). apply negb_true_iff in H. unfold get. rewrite (find_attr_copy dropped a o H). reflexivity.
Qed.

Lemma load_no_cache target sd : Forall (fun f => is_cache f = false) (load target sd).
Proof.
  unfold load. rewrite Forall_forall. intros f Hf. apply in_map_iff in Hf. destruct Hf as [x [Hx Hin]].
  apply filter_In in Hin. destruct Hin as [_ Hnc]. apply negb_true_iff in Hnc. subst f.
  unfold load_field. destruct (carried x); [|exact Hnc].
  destruct (sd_get (f_attr x) sd); [|exact Hnc]. unfold is_cache in *. cbn [f_cls]. exact Hnc.
Qed.

(* strict loading: every carried attribute of the result holds the SAVED value *)
Lemma load_strict_sound target sd o' :
  load_strict target sd = Some o' ->
  o' = load target sd /\
  forall f, In f o' -> carried f = true -> sd_get (f_attr f) sd = Some (f_val f).
Proof.
  unfold load_strict. destruct (missing_keys target sd) eqn:Hm; [|discriminate].
  destruct (unexpected_keys target sd); [|discriminate]. intros H. injection H as <-.
  split; [reflexivity|]. intros f Hf Hc. unfold load in Hf. apply in_map_iff in Hf.
  destruct Hf as [x [Hx Hin]]. apply filter_In in Hin. destruct Hin as [Hin _]. subst f.
  unfold load_field in *. destruct (carried x) eqn:Hcx.
  - destruct (sd_get (f_attr x) sd) as [v|] eqn:Hg; [cbn [f_attr f_val]; exact Hg|].
    exfalso. unfold missing_keys in Hm.
    assert (Hi : In x (filter (fun f => carried f && match sd_get (f_attr f) sd with None => true | _ => false end) target)).
    { apply filter_In. split; [exact Hin|]. rewrite Hcx, Hg. reflexivity. }
    apply (in_map f_attr) in Hi. rewrite Hm in Hi. destruct Hi.
  - rewrite Hc in Hcx. discriminate.
Qed.

(* a buffer that is registered lazily (on the first forward) is absent from a freshly
   constructed object: strict loading fails, non-strict loading loses it *)
Lemma lazy_buffer_refuted :
  exists o fresh rel,
    NoDup (map f_attr o) /\ NoDup (map f_attr fresh) /\
    load_strict fresh (state_dict o) = None /\
    predict rel (load fresh (state_dict o)) <> predict rel o.
Proof.
  exists [mkF 0 CParam 5; mkF 1 CBuffer 7], [mkF 0 CParam 1], [0; 1].
  repeat split.
  - repeat constructor; cbn; intuition discriminate.
  - repeat constructor; cbn; intuition.
  - cbv. intros H. discriminate H.
Qed.

(* composition with the C03 machine: load_state_dict at ANY point of a history empties every cache *)
Lemma run_app pts fam h1 : forall s h2, run pts fam s (h1 ++ h2) = run pts fam (run pts fam s h1) h2.
Proof. induction h1 as [|o r IH]; intros s h2; [reflexivity|]. cbn [app run]. apply IH. Qed.

Lemma load_resets_machine fam h :
  wf_family fam = true -> admissible all_on fam init h = true -> keyed_history fam h = true ->
  cch (run all_on fam init (h ++ [OLoad])) = [] /\
  pv (run all_on fam init (h ++ [OLoad])) = S (pv (run all_on fam init h)).
Proof.
  intros Hwf Ha Hk. rewrite run_app. cbn [run step fst p_load all_on].
  destruct (Inv_run fam Hwf h init (Inv_init fam) Ha Hk) as [Hs _].
  unfold clear_modules. fold (all_slots fam). rewrite (drop_all_nil fam _ Hs). split; reflexivity.
Qed.

Definition ex_o : obj := [mkF 0 CParam 11; mkF 1 CBuffer 12; mkF 2 CPlain 13; mkF 3 CCache 14].
Definition ex_fresh : obj := [mkF 0 CParam 1; mkF 1 CBuffer 2; mkF 2 CPlain 13].
Lemma ex_roundtrip :
  NoDup (map f_attr ex_o) /\ NoDup (map f_attr ex_fresh) /\ forallb (premise ex_o ex_fresh) [0; 1; 2] = true /\
  predict [0; 1; 2] (load ex_fresh (state_dict ex_o)) = [Some 11; Some 12; Some 13] /\
  load_strict ex_fresh (state_dict ex_o) = Some (load ex_fresh (state_dict ex_o)).
Proof.
  repeat split; try reflexivity; repeat constructor; cbn; intuition discriminate.
Qed.
