(* C18 proofs: round trips preserve every prediction that only reads carried state. *)
From Coq Require Import Arith List Bool Lia.
From GPV Require Import Models.C18_persist Models.C03_cache Proofs.C03_cache.
Import ListNotations.

Lemma find_attr_In a o f : find_attr a o = Some f -> In f o /\ f_attr f = a.
Proof.
  induction o as [|x r IH]; cbn [find_attr]; [discriminate|].
  destruct (f_attr x =? a) eqn:E.
  - intros H. injection H as <-. apply Nat.eqb_eq in E. split; [left; reflexivity | exact E].
  - intros H. destruct (IH H). split; [right|]; assumption.
Qed.

(* with unique attribute names, the state_dict holds the value of every carried field *)
Lemma sd_get_state_dict o : NoDup (map f_attr o) ->
  forall f, In f o -> carried f = true -> sd_get (f_attr f) (state_dict o) = Some (f_val f).
Proof.
  induction o as [|x r IH]; intros Hnd f Hin Hc; [destruct Hin|].
  cbn [map] in Hnd. inversion Hnd as [|? ? Hx Hr]; subst.
  unfold state_dict. cbn [filter].
  destruct Hin as [<-|Hin].
  - rewrite Hc. cbn [map sd_get]. rewrite Nat.eqb_refl. reflexivity.
  - destruct (carried x) eqn:Hcx.
    + cbn [map sd_get]. destruct (f_attr x =? f_attr f) eqn:E.
      * exfalso. apply Nat.eqb_eq in E. apply Hx. rewrite E. apply in_map. exact Hin.
      * apply IH; assumption.
    + apply IH; assumption.
Qed.

Lemma find_attr_map_load sd a t :
  find_attr a (map (load_field sd) t) =
  match find_attr a t with Some f => Some (load_field sd f) | None => None end.
Proof.
  induction t as [|x r IH]; [reflexivity|]. cbn [map find_attr].
  assert (Ha : f_attr (load_field sd x) = f_attr x).
  { unfold load_field. destruct (carried x); [|reflexivity]. destruct (sd_get (f_attr x) sd); reflexivity. }
  rewrite Ha. destruct (f_attr x =? a); [reflexivity | exact IH].
Qed.

Lemma find_attr_filter_nocache a t f :
  find_attr a t = Some f -> is_cache f = false ->
  NoDup (map f_attr t) ->
  find_attr a (filter (fun f => negb (is_cache f)) t) = Some f.
Proof.
  induction t as [|x r IH]; cbn [find_attr]; [discriminate|]. intros H Hc Hnd.
  cbn [map] in Hnd. inversion Hnd as [|? ? Hx Hr]; subst. cbn [filter].
  destruct (f_attr x =? a) eqn:E.
  - injection H as <-. rewrite Hc. cbn [negb find_attr]. rewrite E. reflexivity.
  - destruct (negb (is_cache x)); [cbn [find_attr]; rewrite E|]; apply IH; assumption.
Qed.

Lemma find_attr_filter_none (p : field -> bool) a t :
  find_attr a t = None -> find_attr a (filter p t) = None.
Proof.
  induction t as [|x r IH]; [reflexivity|]. cbn [find_attr filter].
  destruct (f_attr x =? a) eqn:E; [discriminate|]. intros H.
  destruct (p x); [cbn [find_attr]; rewrite E|]; apply IH; exact H.
Qed.

Lemma get_load_premise o fresh a :
  NoDup (map f_attr o) -> NoDup (map f_attr fresh) -> premise o fresh a = true ->
  get a (load fresh (state_dict o)) = get a o.
Proof.
  intros Ho Hf Hp. unfold premise in Hp. unfold get, load. rewrite find_attr_map_load.
  destruct (find_attr a o) as [fo|] eqn:Eo; destruct (find_attr a fresh) as [ff|] eqn:Ef; try discriminate.
  - destruct (find_attr_In _ _ _ Eo) as [Hino Hao]. destruct (find_attr_In _ _ _ Ef) as [Hinf Haf].
    apply orb_prop in Hp. destruct Hp as [Hp|Hp].
    + apply andb_prop in Hp. destruct Hp as [Hco Hcf].
      assert (Hnc : is_cache ff = false) by (unfold carried in Hcf; unfold is_cache; destruct (f_cls ff); try discriminate; reflexivity).
      rewrite (find_attr_filter_nocache a fresh ff Ef Hnc Hf).
      unfold load_field. rewrite Hcf. rewrite Haf, <- Hao.
      rewrite (sd_get_state_dict o Ho fo Hino Hco). reflexivity.
    + apply andb_prop in Hp. destruct Hp as [Hp Hv]. apply andb_prop in Hp. destruct Hp as [Hpo Hpf].
      assert (Hnc : is_cache ff = false) by (unfold is_plain in Hpf; unfold is_cache; destruct (f_cls ff); try discriminate; reflexivity).
      rewrite (find_attr_filter_nocache a fresh ff Ef Hnc Hf).
      unfold load_field.
      assert (Hc : carried ff = false) by (unfold is_plain in Hpf; unfold carried; destruct (f_cls ff); try discriminate; reflexivity).
      rewrite Hc. apply Nat.eqb_eq in Hv. rewrite Hv. reflexivity.
  - rewrite (find_attr_filter_none _ a fresh Ef). reflexivity.
Qed.

Lemma roundtrip_sd o fresh rel :
  NoDup (map f_attr o) -> NoDup (map f_attr fresh) -> forallb (premise o fresh) rel = true ->
  predict rel (load fresh (state_dict o)) = predict rel o.
Proof.
  intros Ho Hf Hp. unfold predict. apply map_ext_in. intros a Ha.
  rewrite forallb_forall in Hp. apply get_load_premise; auto.
Qed.

Lemma find_attr_copy dropped a o :
  memb a dropped = false -> find_attr a (copy dropped o) = find_attr a o.
Proof.
  intros Hd. unfold copy. induction o as [|x r IH]; [reflexivity|]. cbn [filter find_attr].
  destruct (f_attr x =? a) eqn:E.
  - assert (Hm : memb (f_attr x) dropped = false) by (apply Nat.eqb_eq in E; rewrite E; exact Hd).
    rewrite Hm. cbn [negb find_attr]. rewrite E. reflexivity.
  - destruct (negb (memb (f_attr x) dropped)); [cbn [find_attr]; rewrite E|]; exact IH.
Qed.

Lemma roundtrip_copy o dropped rel :
  forallb (fun a => negb (memb a dropped)) rel = true ->
  predict rel (copy dropped o) = predict rel o.
Proof.
  intros H. unfold predict. apply map_ext_in. intros a Ha. rewrite forallb_forall in H.
  specialize (H a Ha). apply negb_true_iff in H. unfold get. rewrite (find_attr_copy dropped a o H). reflexivity.
Qed.

Lemma load_no_cache target sd : Forall (fun f => is_cache f = false) (load target sd).
Proof.
  unfold load. rewrite Forall_forall. intros f Hf. apply in_map_iff in Hf. destruct Hf as [x [Hx Hin]].
  apply filter_In in Hin. destruct Hin as [_ Hnc]. apply negb_true_iff in Hnc. subst f.
  unfold load_field. destruct (carried x); [|exact Hnc].
  destruct (sd_get (f_attr x) sd); [|exact Hnc]. unfold is_cache in *. cbn [f_cls]. exact Hnc.
Qed.

(* strict loading: every carried attribute of the result holds the SAVED value *)
Lemma load_strict_sound target sd o' :
  load_strict target sd = Some o' ->
  o' = load target sd /\
  forall f, In f o' -> carried f = true -> sd_get (f_attr f) sd = Some (f_val f).
Proof.
  unfold load_strict. destruct (missing_keys target sd) eqn:Hm; [|discriminate].
  destruct (unexpected_keys target sd); [|discriminate]. intros H. injection H as <-.
  split; [reflexivity|]. intros f Hf Hc. unfold load in Hf. apply in_map_iff in Hf.
  destruct Hf as [x [Hx Hin]]. apply filter_In in Hin. destruct Hin as [Hin _]. subst f.
  unfold load_field in *. destruct (carried x) eqn:Hcx.
  - destruct (sd_get (f_attr x) sd) as [v|] eqn:Hg; [cbn [f_attr f_val]; exact Hg|].
    exfalso. unfold missing_keys in Hm.
    assert (Hi : In x (filter (fun f => carried f && match sd_get (f_attr f) sd with None => true | _ => false end) target)).
    { apply filter_In. split; [exact Hin|]. rewrite Hcx, Hg. reflexivity. }
    apply (in_map f_attr) in Hi. rewrite Hm in Hi. destruct Hi.
  - rewrite Hc in Hcx. discriminate.
Qed.

(* a buffer that is registered lazily (on the first forward) is absent from a freshly
   constructed object: strict loading fails, non-strict loading loses it *)
Lemma lazy_buffer_refuted :
  exists o fresh rel,
    NoDup (map f_attr o) /\ NoDup (map f_attr fresh) /\
    load_strict fresh (state_dict o) = None /\
    predict rel (load fresh (state_dict o)) <> predict rel o.
Proof.
  exists [mkF 0 CParam 5; mkF 1 CBuffer 7], [mkF 0 CParam 1], [0; 1].
  repeat split.
  - repeat constructor; cbn; intuition discriminate.
  - repeat constructor; cbn; intuition.
  - cbv. intros H. discriminate H.
Qed.

(* composition with the C03 machine: load_state_dict at ANY point of a history empties every cache *)
Lemma run_app pts fam h1 : forall s h2, run pts fam s (h1 ++ h2) = run pts fam (run pts fam s h1) h2.
Proof. induction h1 as [|o r IH]; intros s h2; [reflexivity|]. cbn [app run]. apply IH. Qed.

Lemma load_resets_machine fam h :
  wf_family fam = true -> admissible all_on fam init h = true ->
  cch (run all_on fam init (h ++ [OLoad])) = [] /\
  pv (run all_on fam init (h ++ [OLoad])) = S (pv (run all_on fam init h)).
Proof.
  intros Hwf Ha. rewrite run_app. cbn [run step fst p_load all_on].
  destruct (Inv_run fam Hwf h init (Inv_init fam) Ha) as [_ [Hs _]].
  unfold clear_modules. fold (all_slots fam). cbn [cch pv]. rewrite (drop_all_nil fam _ Hs). split; reflexivity.
Qed.

Definition ex_o : obj := [mkF 0 CParam 11; mkF 1 CBuffer 12; mkF 2 CPlain 13; mkF 3 CCache 14].
Definition ex_fresh : obj := [mkF 0 CParam 1; mkF 1 CBuffer 2; mkF 2 CPlain 13].
Lemma ex_roundtrip :
  NoDup (map f_attr ex_o) /\ NoDup (map f_attr ex_fresh) /\ forallb (premise ex_o ex_fresh) [0; 1; 2] = true /\
  predict [0; 1; 2] (load ex_fresh (state_dict ex_o)) = [Some 11; Some 12; Some 13] /\
  load_strict ex_fresh (state_dict ex_o) = Some (load ex_fresh (state_dict ex_o)).
Proof.
  repeat split; try reflexivity; repeat constructor; cbn; intuition discriminate.
Qed.

(* ======================================================================================
   Persistence at ANY point of a history (composition with the C03 machine)
   ====================================================================================== *)

Lemma p_st_prun tf nv h : forall p, p_st (prun tf nv p h) = run all_on (t_c03 tf) (p_st p) h.
Proof. induction h as [|o r IH]; intros p; [reflexivity|]. cbn [prun run]. rewrite IH. reflexivity. Qed.

(* the relation every table of a history bears to the constructor's table *)
Definition Rc (tf : tfam) (fo fc : field) : Prop :=
  f_attr fo = f_attr fc /\ f_cls fo = f_cls fc /\ (is_plain fc = true -> is_data tf fc = false -> f_val fo = f_val fc).
(* ... and to the freshly constructed target *)
Definition Rf (fo ff : field) : Prop :=
  f_attr fo = f_attr ff /\ f_cls fo = f_cls ff /\ (is_plain ff = true -> f_val fo = f_val ff).

Lemma Rc_refl tf : forall t, Forall2 (Rc tf) t t.
Proof. induction t; constructor; [repeat split; auto | assumption]. Qed.

Lemma Forall2_map_l {A B} (R : A -> B -> Prop) (g : A -> A) l l' :
  (forall a b, R a b -> R (g a) b) -> Forall2 R l l' -> Forall2 R (map g l) l'.
Proof. intros Hg H. induction H; cbn [map]; constructor; auto. Qed.

Lemma is_data_cls tf f f' : f_attr f = f_attr f' -> f_cls f = f_cls f' -> is_data tf f = is_data tf f'.
Proof. intros Ha Hc. unfold is_data, is_plain. rewrite Ha, Hc. reflexivity. Qed.

Lemma tstep_Rc tf nv s o t :
  t_lazy tf = [] -> Forall2 (Rc tf) t (t_ctor tf) -> Forall2 (Rc tf) (tstep tf nv s o t) (t_ctor tf).
Proof.
  intros Hl H.
  assert (Ht : touch tf t = t) by (unfold touch; rewrite Hl; cbn [filter]; apply app_nil_r).
  destruct o; cbn [tstep]; rewrite ?Ht; try exact H.
  - (* OStep *)
    destruct (training s); [|exact H]. apply Forall2_map_l; [|exact H].
    intros a b [Ha [Hc Hv]]. destruct (is_param a) eqn:Ep; [|repeat split; assumption].
    repeat split; cbn [set_val f_attr f_cls f_val]; try assumption.
    intros Hp. exfalso. unfold is_param in Ep. unfold is_plain in Hp. rewrite <- Hc in Hp.
    destruct (f_cls a); discriminate.
  - (* OSetData *)
    destruct (f_has_data (t_c03 tf)); [|exact H]. apply Forall2_map_l; [|exact H].
    intros a b [Ha [Hc Hv]]. destruct (is_data tf a) eqn:Ed; [|repeat split; assumption].
    repeat split; cbn [set_val f_attr f_cls f_val]; try assumption.
    intros Hp Hnd. rewrite (is_data_cls tf a b Ha Hc) in Ed. rewrite Ed in Hnd. discriminate.
  - (* OLoad *)
    apply Forall2_map_l; [|exact H].
    intros a b [Ha [Hc Hv]]. destruct (carried a) eqn:Ec; [|repeat split; assumption].
    repeat split; cbn [set_val f_attr f_cls f_val]; try assumption.
    intros Hp. exfalso. unfold carried in Ec. unfold is_plain in Hp. rewrite <- Hc in Hp.
    destruct (f_cls a); discriminate.
  - (* OPrior *) destruct (training s); rewrite ?Ht; exact H.
Qed.

Lemma prun_Rc tf nv h : t_lazy tf = [] -> forall p,
  Forall2 (Rc tf) (p_tbl p) (t_ctor tf) -> Forall2 (Rc tf) (p_tbl (prun tf nv p h)) (t_ctor tf).
Proof.
  intros Hl. induction h as [|o r IH]; intros p H; [exact H|]. cbn [prun]. apply IH.
  cbn [pstep p_tbl]. apply tstep_Rc; assumption.
Qed.

Lemma Forall2_attrs tf t c : Forall2 (Rc tf) t c -> map f_attr t = map f_attr c.
Proof. intros H. induction H as [|a b l l' [Ha _] _ IH]; [reflexivity|]. cbn [map]. rewrite Ha, IH. reflexivity. Qed.

Lemma nodupb_NoDup l : nodupb l = true -> NoDup l.
Proof.
  induction l as [|x r IH]; intros H; [constructor|]. cbn [nodupb] in H. apply andb_prop in H.
  destruct H as [Hx Hr]. constructor; [|apply IH; exact Hr].
  intros Hin. apply negb_true_iff in Hx. unfold memb in Hx.
  assert (E : existsb (Nat.eqb x) r = true) by (apply existsb_exists; exists x; split; [exact Hin | apply Nat.eqb_refl]).
  rewrite E in Hx. discriminate.
Qed.

Lemma find_attr_self o f : NoDup (map f_attr o) -> In f o -> find_attr (f_attr f) o = Some f.
Proof.
  induction o as [|x r IH]; intros Hnd Hin; [destruct Hin|].
  cbn [map] in Hnd. inversion Hnd as [|? ? Hx Hr]; subst. cbn [find_attr].
  destruct Hin as [<-|Hin]; [rewrite Nat.eqb_refl; reflexivity|].
  destruct (f_attr x =? f_attr f) eqn:E; [|apply IH; assumption].
  exfalso. apply Nat.eqb_eq in E. apply Hx. rewrite E. apply in_map. exact Hin.
Qed.

(* the freshly constructed target, built from the current constructor arguments of the source *)
Lemma construct_Rf tf t :
  NoDup (map f_attr t) -> Forall2 (Rc tf) t (t_ctor tf) -> Forall2 Rf t (construct tf t).
Proof.
  intros Hnd H. unfold construct.
  assert (G : forall l c, Forall2 (Rc tf) l c -> (forall f, In f l -> In f t) ->
              Forall2 Rf l (map (fun f => if is_data tf f
                                          then match get (f_attr f) t with Some v => set_val f v | None => f end
                                          else f) c)).
  { intros l c HF. induction HF as [|a b l' c' [Ha [Hc Hv]] HF' IH]; intros Hsub; cbn [map]; constructor.
    - destruct (is_data tf b) eqn:Ed.
      + unfold get. rewrite <- Ha. rewrite (find_attr_self t a Hnd (Hsub a (or_introl eq_refl))).
        repeat split; cbn [set_val f_attr f_cls f_val]; auto.
      + repeat split; auto.
    - apply IH. intros f Hf. apply Hsub. right. exact Hf. }
  apply G; [exact H | auto].
Qed.

Lemma Rf_find o fr : Forall2 Rf o fr -> forall a,
  match find_attr a o, find_attr a fr with
  | Some fo, Some ff => Rf fo ff
  | None, None => True
  | _, _ => False
  end.
Proof.
  intros H. induction H as [|x y l l' Hxy _ IH]; intros a; cbn [find_attr]; [exact I|].
  destruct Hxy as [Ha [Hc Hv]]. rewrite <- Ha. destruct (f_attr x =? a); [repeat split; assumption | apply IH].
Qed.

Lemma Rf_premise o fr : Forall2 Rf o fr -> Forall (fun f => is_cache f = false) o ->
  forall a, premise o fr a = true.
Proof.
  intros H Hnc a. unfold premise. pose proof (Rf_find o fr H a) as Hf.
  destruct (find_attr a o) as [fo|] eqn:Eo; destruct (find_attr a fr) as [ff|] eqn:Ef; try contradiction; [|reflexivity].
  destruct Hf as [_ [Hc Hv]].
  assert (Hin : In fo o) by (apply (find_attr_In a o fo Eo)).
  rewrite Forall_forall in Hnc. specialize (Hnc fo Hin).
  unfold carried, is_plain, is_cache in *. rewrite <- Hc in *.
  destruct (f_cls fo); try reflexivity; try discriminate.
  cbn. rewrite (Hv eq_refl). apply Nat.eqb_refl.
Qed.

Lemma Rc_nocache tf t : Forall2 (Rc tf) t (t_ctor tf) -> forallb (fun f => negb (is_cache f)) (t_ctor tf) = true ->
  Forall (fun f => is_cache f = false) t.
Proof.
  intros H Hc. rewrite forallb_forall in Hc. induction H as [|a b l l' [_ [Hcl _]] _ IH]; constructor.
  - specialize (Hc b (or_introl eq_refl)). apply negb_true_iff in Hc. unfold is_cache in *. rewrite Hcl. exact Hc.
  - apply IH. intros x Hx. apply Hc. right. exact Hx.
Qed.

Lemma Rf_attrs o fr : Forall2 Rf o fr -> map f_attr o = map f_attr fr.
Proof. intros H. induction H as [|a b l l' [Ha _] _ IH]; [reflexivity|]. cbn [map]. rewrite Ha, IH. reflexivity. Qed.

Lemma Rf_carried_keys o fr : Forall2 Rf o fr ->
  map f_attr (filter carried o) = map f_attr (filter carried fr).
Proof.
  intros H. induction H as [|a b l l' [Ha [Hc _]] _ IH]; [reflexivity|]. cbn [filter].
  assert (E : carried a = carried b) by (unfold carried; rewrite Hc; reflexivity).
  rewrite E. destruct (carried b); cbn [map]; rewrite ?Ha, IH; reflexivity.
Qed.

Lemma sd_keys o : map fst (state_dict o) = map f_attr (filter carried o).
Proof. unfold state_dict. rewrite map_map. reflexivity. Qed.

Lemma sd_get_in k sd : In k (map fst sd) -> sd_get k sd <> None.
Proof.
  induction sd as [|[k' v] r IH]; cbn [map fst sd_get]; [intros []|].
  intros [E|Hin]; destruct (k' =? k) eqn:Ek; try discriminate.
  - subst. rewrite Nat.eqb_refl in Ek. discriminate.
  - apply IH. exact Hin.
Qed.

Lemma filter_none {A} (p : A -> bool) l : (forall x, In x l -> p x = false) -> filter p l = [].
Proof.
  induction l as [|x r IH]; intros H; [reflexivity|]. cbn [filter].
  rewrite (H x (or_introl eq_refl)). apply IH. intros y Hy. apply H. right. exact Hy.
Qed.

Lemma memb_In x l : In x l -> memb x l = true.
Proof. intros H. unfold memb. apply existsb_exists. exists x. split; [exact H | apply Nat.eqb_refl]. Qed.

Lemma strict_ok o fr : Forall2 Rf o fr -> load_strict fr (state_dict o) = Some (load fr (state_dict o)).
Proof.
  intros H. unfold load_strict.
  assert (Hm : missing_keys fr (state_dict o) = []).
  { unfold missing_keys. rewrite filter_none; [reflexivity|]. intros f Hf.
    destruct (carried f) eqn:Ec; [|reflexivity]. cbn [andb].
    assert (Hin : In (f_attr f) (map fst (state_dict o))).
    { rewrite sd_keys, (Rf_carried_keys o fr H). apply in_map. apply filter_In. split; assumption. }
    pose proof (sd_get_in _ _ Hin) as Hn. destruct (sd_get (f_attr f) (state_dict o)); [reflexivity | contradiction]. }
  assert (Hu : unexpected_keys fr (state_dict o) = []).
  { unfold unexpected_keys. rewrite filter_none; [reflexivity|]. intros kv Hkv.
    apply negb_false_iff. apply memb_In. rewrite <- (Rf_carried_keys o fr H), <- sd_keys.
    apply in_map. exact Hkv. }
  rewrite Hm, Hu. reflexivity.
Qed.

(* the table half: at every point of every history, for ANY set of attributes *)
Lemma table_roundtrip_any_history tf nv h rel :
  wf_tfam tf = true -> t_lazy tf = [] ->
  let p := prun tf nv (pinit tf) h in
  predict rel (load (construct tf (p_tbl p)) (state_dict (p_tbl p))) = predict rel (p_tbl p) /\
  load_strict (construct tf (p_tbl p)) (state_dict (p_tbl p)) =
    Some (load (construct tf (p_tbl p)) (state_dict (p_tbl p))).
Proof.
  intros Hwf Hl p. unfold wf_tfam in Hwf. apply andb_prop in Hwf. destruct Hwf as [Hnd Hnc].
  apply nodupb_NoDup in Hnd.
  assert (HR : Forall2 (Rc tf) (p_tbl p) (t_ctor tf)).
  { apply prun_Rc; [exact Hl|]. cbn [pinit p_tbl]. apply Rc_refl. }
  assert (Hnd' : NoDup (map f_attr (p_tbl p))) by (rewrite (Forall2_attrs tf _ _ HR); exact Hnd).
  pose proof (construct_Rf tf (p_tbl p) Hnd' HR) as HF.
  assert (Hndf : NoDup (map f_attr (construct tf (p_tbl p)))) by (rewrite <- (Rf_attrs _ _ HF); exact Hnd').
  pose proof (Rc_nocache tf _ HR Hnc) as Hcache.
  split; [|apply strict_ok; exact HF].
  apply roundtrip_sd; [exact Hnd' | exact Hndf |].
  apply forallb_forall. intros a _. apply Rf_premise; assumption.
Qed.

(* the whole object: state_dict -> fresh, pickle, deepcopy at ANY point of ANY admissible history *)
Lemma persist_any_history tf nv h rel c :
  wf_tfam tf = true -> t_lazy tf = [] -> wf_family (t_c03 tf) = true ->
  admissible all_on (t_c03 tf) init h = true -> c < f_ncfg (t_c03 tf) ->
  let p := prun tf nv (pinit tf) h in
  training (p_st p) = false ->
  pobserve tf rel (restore_sd tf p) c = pobserve tf rel p c /\
  pobserve tf rel (restore_pickle p) c = pobserve tf rel p c /\
  pobserve tf rel (restore_deepcopy tf p) c = pobserve tf rel p c.
Proof.
  intros Hwf Hl Hf Ha Hc p Htr.
  assert (Hst : p_st p = run all_on (t_c03 tf) init h) by (unfold p; rewrite p_st_prun; reflexivity).
  assert (HI : Inv (t_c03 tf) (p_st p)) by (rewrite Hst; apply (Inv_run _ Hf h init (Inv_init _) Ha)).
  split; [|split; [reflexivity|]].
  - unfold pobserve, restore_sd. cbn [p_tbl p_st]. f_equal.
    + apply (table_roundtrip_any_history tf nv h rel Hwf Hl).
    + rewrite Htr.
      rewrite (predict_out_eval _ Hf _ c (Inv_fresh _ _ _ false) eq_refl Hc).
      rewrite (predict_out_eval _ Hf _ c HI Htr Hc). reflexivity.
  - unfold pobserve, restore_deepcopy. cbn [p_tbl p_st]. f_equal.
    assert (HI' : Inv (t_c03 tf) (set_cache (p_st p) (drop (f_strat_slots (t_c03 tf)) (cch (p_st p))))).
    { destruct HI as [H0 [H1 H2]]. split; [exact H0|]. split; cbn [set_cache cch training pv dv sck].
      - apply drop_Forall. exact H1.
      - intros Ht. apply drop_Forall. apply H2. exact Ht. }
    rewrite (predict_out_eval _ Hf _ c HI' Htr Hc).
    rewrite (predict_out_eval _ Hf _ c HI Htr Hc). reflexivity.
Qed.

(* the hypothesis [t_lazy = []] cannot be dropped: with a lazily registered buffer (RFFKernel) a
   state_dict saved BEFORE the first call loads, one saved after ANY call does not (strict), and a
   non-strict load loses the buffer *)
Lemma lazy_history_refuted :
  wf_tfam tf_rff = true /\
  (forall nv, load_strict (construct tf_rff (p_tbl (prun tf_rff nv (pinit tf_rff) [])))
                          (state_dict (p_tbl (prun tf_rff nv (pinit tf_rff) []))) <> None) /\
  (forall nv, let p := prun tf_rff nv (pinit tf_rff) [OPredict 0] in
     admissible all_on fam_exact init [OPredict 0] = true /\ training (p_st p) = false /\
     load_strict (construct tf_rff (p_tbl p)) (state_dict (p_tbl p)) = None /\
     predict [7] (load (construct tf_rff (p_tbl p)) (state_dict (p_tbl p))) <> predict [7] (p_tbl p)).
Proof.
  split; [reflexivity|]. split.
  - intros nv. cbv. discriminate.
  - intros nv. cbv. repeat split; discriminate.
Qed.

Lemma ex_persist_history :
  wf_tfam tf_exact = true /\ t_lazy tf_exact = [] /\ wf_family (t_c03 tf_exact) = true /\
  admissible all_on (t_c03 tf_exact) init ex_hist = true /\
  training (p_st (prun tf_exact (fun v a => 1000 * v + a) (pinit tf_exact) ex_hist)) = false /\
  predict [0; 1; 3] (p_tbl (prun tf_exact (fun v a => 1000 * v + a) (pinit tf_exact) ex_hist)) =
    [Some 2000; Some 2001; Some 1003].
Proof. repeat split; reflexivity. Qed.
