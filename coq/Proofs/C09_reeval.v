(* C09: with _clear_cache deleting BOTH cache slots every evaluation in every well-formed history returns the dense
   meaning at the current parameters; deleting only the first slot does not. *)
From Coq Require Import List Bool Arith Lia.
Import ListNotations.
From GPV Require Import Models.C09_reeval.

Section Reeval.
Variables P V1 V2 R : Type.
Variable f1 : P -> V1.
Variable f2 : V1 -> V2.
Variable g : P -> V2 -> R.

Local Notation st := (st P V1 V2).
Local Notation stepB := (step P V1 V2 R f1 f2 g true true).
Local Notation runB := (run P V1 V2 R f1 f2 g true true).

(* caches, when present, hold the values of the current parameters; none while training *)
Definition inv (s : st) : Prop :=
  (c1 _ _ _ s = None \/ c1 _ _ _ s = Some (f1 (par _ _ _ s))) /\
  (c2 _ _ _ s = None \/ c2 _ _ _ s = Some (f2 (f1 (par _ _ _ s)))) /\
  (training _ _ _ s = true -> c1 _ _ _ s = None /\ c2 _ _ _ s = None).

Lemma run_both_spec : forall h s,
  inv s -> wf P (training _ _ _ s) h = true ->
  runB s h = spec P V1 V2 R f1 f2 g (par _ _ _ s) h.
Proof.
  induction h as [|o h IH]; intros s Hinv Hwf; [reflexivity|].
  destruct s as [p tr a b]. destruct Hinv as (H1 & H2 & H3). cbn in H1, H2, H3.
  assert (FIN : forall s' r, inv s' -> wf P (training _ _ _ s') h = true ->
                  r :: runB s' h = r :: spec P V1 V2 R f1 f2 g (par _ _ _ s') h)
    by (intros s' r Hi Hw; f_equal; apply IH; assumption).
  destruct o as [| | |q|q]; cbn [run spec wf training par] in *.
  - (* OEval *)
    destruct tr.
    + destruct (H3 eq_refl) as [Ea Eb]. subst a b. cbn.
      apply (FIN (mk P V1 V2 p true None None)); [unfold inv; cbn; auto | exact Hwf].
    + destruct b as [vb|].
      * destruct H2 as [H2|H2]; [discriminate|]. inversion H2; subst vb. cbn.
        apply (FIN (mk P V1 V2 p false a (Some (f2 (f1 p))))); [|exact Hwf].
        unfold inv; cbn. repeat split; auto; intros; discriminate.
      * destruct a as [va|].
        -- destruct H1 as [H1|H1]; [discriminate|]. inversion H1; subst va. cbn.
           apply (FIN (mk P V1 V2 p false (Some (f1 p)) (Some (f2 (f1 p))))); [|exact Hwf].
           unfold inv; cbn. repeat split; auto; intros; discriminate.
        -- cbn.
           apply (FIN (mk P V1 V2 p false (Some (f1 p)) (Some (f2 (f1 p))))); [|exact Hwf].
           unfold inv; cbn. repeat split; auto; intros; discriminate.
  - (* OTrain *) cbn.
    apply (FIN (mk P V1 V2 p true None None)); [unfold inv; cbn; auto | exact Hwf].
  - (* OEvalMode *)
    destruct tr; cbn.
    + apply (FIN (mk P V1 V2 p false None None)); [|exact Hwf].
      unfold inv; cbn. repeat split; auto; intros; discriminate.
    + apply (FIN (mk P V1 V2 p false a b)); [|exact Hwf].
      unfold inv; cbn. repeat split; auto; intros; discriminate.
  - (* OSet: only while training, where both slots are empty *)
    apply andb_true_iff in Hwf. destruct Hwf as [Htr Hwf]. subst tr.
    destruct (H3 eq_refl) as [Ea Eb]. subst a b. cbn.
    apply (FIN (mk P V1 V2 q true None None)); [unfold inv; cbn; auto | exact Hwf].
  - (* OLoad *) cbn.
    apply (FIN (mk P V1 V2 q tr None None)); [|exact Hwf].
    unfold inv; cbn. auto.
Qed.

Lemma run_both_spec_init p tr h :
  wf P tr h = true -> runB (init P V1 V2 p tr) h = spec P V1 V2 R f1 f2 g p h.
Proof.
  intros H. apply (run_both_spec h (init P V1 V2 p tr)); [|exact H].
  repeat split; cbn; auto.
Qed.

End Reeval.

(* _clear_cache deleting only the cached matrix: evaluate, train(), new parameters, eval(), evaluate again uses the
   factor of the OLD parameters with the cross terms of the new ones.  Instance: P = nat, f1 = f2 = id, g = pair *)
Lemma run_first_slot_only_stale :
  let h := [OEval nat; OTrain nat; OSet nat 1; OEvalMode nat; OEval nat] in
  wf nat false h = true /\
  run nat nat nat (nat * nat) (fun p => p) (fun v => v) pair true false (init nat nat nat 0 false) h
    = [Some (0, 0); None; None; None; Some (1, 0)] /\
  spec nat nat nat (nat * nat) (fun p => p) (fun v => v) pair 0 h
    = [Some (0, 0); None; None; None; Some (1, 1)].
Proof. repeat split. Qed.
