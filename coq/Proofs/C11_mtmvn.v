(* C11 proofs: layouts are bijections related by the perfect shuffle; view/transpose pairs are
   mutually inverse; every branch of __getitem__ selects exactly the flat positions of the
   requested (point, task) pairs, for all n, t, all ints, all slices. *)
From Coq Require Import ZArith List Lia Bool.
From GPV Require Import Base.PySlice Models.C11_mtmvn.
Import ListNotations.
Local Open Scope Z_scope.

(* ------------------------------------------------------------------ arithmetic helpers *)

Lemma divmod_lin q c r : 0 <= r < c -> (q * c + r) / c = q /\ (q * c + r) mod c = r.
Proof.
  intros Hr. split.
  - symmetry. apply (Z.div_unique (q * c + r) c q r); [left; lia|ring].
  - symmetry. apply (Z.mod_unique (q * c + r) c q r); [left; lia|ring].
Qed.

Lemma div_range k c m : 0 < c -> 0 <= k < m * c -> 0 <= k / c < m.
Proof.
  intros Hc Hk. split; [apply Z.div_pos; lia|]. apply Z.div_lt_upper_bound; lia.
Qed.

(* ------------------------------------------------------------------ layouts *)

Lemma flat_range il n t i a : 0 <= i < n -> 0 <= a < t -> 0 <= flat il n t i a < n * t.
Proof. intros Hi Ha. unfold flat, flat_il, flat_nil. destruct il; nia. Qed.

Lemma unflat_flat il n t i a : 0 <= i < n -> 0 <= a < t -> unflat il n t (flat il n t i a) = (i, a).
Proof.
  intros Hi Ha. unfold unflat, flat, flat_il, flat_nil. destruct il.
  - destruct (divmod_lin i t a Ha) as [-> ->]. reflexivity.
  - destruct (divmod_lin a n i Hi) as [-> ->]. reflexivity.
Qed.

Lemma flat_unflat il n t k : 0 < n -> 0 < t -> 0 <= k < n * t ->
  let '(i, a) := unflat il n t k in flat il n t i a = k /\ 0 <= i < n /\ 0 <= a < t.
Proof.
  intros Hn Ht Hk. unfold unflat, flat, flat_il, flat_nil. destruct il.
  - pose proof (Z.div_mod k t ltac:(lia)) as E. pose proof (Z.mod_pos_bound k t Ht) as B.
    pose proof (div_range k t n Ht Hk). repeat split; lia.
  - pose proof (Z.div_mod k n ltac:(lia)) as E. pose proof (Z.mod_pos_bound k n Hn) as B.
    assert (Hk' : 0 <= k < t * n) by lia. pose proof (div_range k n t Hn Hk').
    repeat split; lia.
Qed.

Lemma flat_injective il n t i a j b :
  0 <= i < n -> 0 <= a < t -> 0 <= j < n -> 0 <= b < t ->
  flat il n t i a = flat il n t j b -> i = j /\ a = b.
Proof.
  intros Hi Ha Hj Hb E.
  pose proof (unflat_flat il n t i a Hi Ha) as E1. pose proof (unflat_flat il n t j b Hj Hb) as E2.
  rewrite E in E1. rewrite E1 in E2. injection E2 as -> ->. split; reflexivity.
Qed.

Lemma flat_surjective il n t k : 0 < n -> 0 < t -> 0 <= k < n * t ->
  exists i a, 0 <= i < n /\ 0 <= a < t /\ flat il n t i a = k.
Proof.
  intros Hn Ht Hk. pose proof (flat_unflat il n t k Hn Ht Hk) as H.
  destruct (unflat il n t k) as [i a]. exists i, a. tauto.
Qed.

Lemma shuffle_range n t k : 0 < n -> 0 < t -> 0 <= k < n * t -> 0 <= shuffle n t k < n * t.
Proof.
  intros Hn Ht Hk. unfold shuffle.
  pose proof (flat_unflat true n t k Hn Ht Hk) as H. cbn [unflat] in H.
  apply (flat_range false); tauto.
Qed.

Lemma unshuffle_range n t k : 0 < n -> 0 < t -> 0 <= k < n * t -> 0 <= unshuffle n t k < n * t.
Proof.
  intros Hn Ht Hk. unfold unshuffle.
  pose proof (flat_unflat false n t k Hn Ht Hk) as H. cbn [unflat] in H.
  apply (flat_range true); tauto.
Qed.

Lemma unshuffle_shuffle n t k : 0 < n -> 0 < t -> 0 <= k < n * t -> unshuffle n t (shuffle n t k) = k.
Proof.
  intros Hn Ht Hk. unfold unshuffle, shuffle.
  pose proof (flat_unflat true n t k Hn Ht Hk) as H. cbn [unflat flat] in H.
  destruct H as [E [Hi Ha]].
  pose proof (unflat_flat false n t (k / t) (k mod t) Hi Ha) as U. cbn [unflat flat] in U.
  injection U as -> ->. exact E.
Qed.

Lemma shuffle_unshuffle n t k : 0 < n -> 0 < t -> 0 <= k < n * t -> shuffle n t (unshuffle n t k) = k.
Proof.
  intros Hn Ht Hk. unfold unshuffle, shuffle.
  pose proof (flat_unflat false n t k Hn Ht Hk) as H. cbn [unflat flat] in H.
  destruct H as [E [Hi Ha]].
  pose proof (unflat_flat true n t (k mod n) (k / n) Hi Ha) as U. cbn [unflat flat] in U.
  injection U as -> ->. exact E.
Qed.

(* the shuffle sends the position of a pair in one layout to its position in the other *)
Lemma shuffle_flat n t i a : 0 <= i < n -> 0 <= a < t ->
  shuffle n t (flat true n t i a) = flat false n t i a.
Proof.
  intros Hi Ha. unfold shuffle.
  pose proof (unflat_flat true n t i a Hi Ha) as U. unfold unflat in U. cbn [flat] in *. injection U as U1 U2.
  rewrite U1, U2. reflexivity.
Qed.

(* both layouts store the same joint law J(i,a,j,b): gathering the non-interleaved matrix along
   the shuffle gives the interleaved one *)
Section SameLaw.
Context {X : Type} (J : Z -> Z -> Z -> Z -> X).
Definition cov_of_joint (il : bool) (n t : Z) (k l : Z) : X :=
  let '(i, a) := unflat il n t k in let '(j, b) := unflat il n t l in J i a j b.

Lemma layouts_same_law n t k l : 0 < n -> 0 < t -> 0 <= k < n * t -> 0 <= l < n * t ->
  cov_of_joint false n t (shuffle n t k) (shuffle n t l) = cov_of_joint true n t k l.
Proof.
  intros Hn Ht Hk Hl. unfold cov_of_joint, shuffle.
  pose proof (flat_unflat true n t k Hn Ht Hk) as H1. cbn [unflat] in H1.
  pose proof (flat_unflat true n t l Hn Ht Hl) as H2. cbn [unflat] in H2.
  pose proof (unflat_flat false n t (k / t) (k mod t) ltac:(tauto) ltac:(tauto)) as U1.
  pose proof (unflat_flat false n t (l / t) (l mod t) ltac:(tauto) ltac:(tauto)) as U2.
  cbn [flat] in U1, U2. rewrite U1, U2. reflexivity.
Qed.

Lemma cov_of_joint_flat il n t i a j b :
  0 <= i < n -> 0 <= a < t -> 0 <= j < n -> 0 <= b < t ->
  cov_of_joint il n t (flat il n t i a) (flat il n t j b) = J i a j b.
Proof.
  intros Hi Ha Hj Hb. unfold cov_of_joint.
  rewrite (unflat_flat il n t i a Hi Ha), (unflat_flat il n t j b Hj Hb). reflexivity.
Qed.
End SameLaw.

(* ---- view / transpose pairs *)
Section ViewLemmas.
Context {X : Type}.

Lemma mean_of_loc_of_mean il n t (m : Z -> Z -> X) i a : 0 <= i < n -> 0 <= a < t ->
  mean_of_loc il n t (loc_of_mean il n t m) i a = m i a.
Proof.
  intros Hi Ha. unfold mean_of_loc, loc_of_mean, unflatten2, flatten2, transpose2. destruct il.
  - destruct (divmod_lin i t a Ha) as [-> ->]. reflexivity.
  - destruct (divmod_lin a n i Hi) as [-> ->]. reflexivity.
Qed.

Lemma loc_of_mean_of_loc il n t (v : Z -> X) k : 0 < n -> 0 < t -> 0 <= k < n * t ->
  loc_of_mean il n t (mean_of_loc il n t v) k = v k.
Proof.
  intros Hn Ht Hk. unfold mean_of_loc, loc_of_mean, unflatten2, flatten2, transpose2.
  destruct il; f_equal.
  - pose proof (Z.div_mod k t ltac:(lia)). lia.
  - pose proof (Z.div_mod k n ltac:(lia)). lia.
Qed.

(* loc and mean are read at matching positions: mean i a = loc (flat i a) *)
Lemma mean_of_loc_flat il n t (v : Z -> X) i a : mean_of_loc il n t v i a = v (flat il n t i a).
Proof. unfold mean_of_loc, unflatten2, transpose2, flat, flat_il, flat_nil. destruct il; reflexivity. Qed.

(* log_prob (repaired source) flattens the value exactly as the constructor flattened the mean,
   so value - loc pairs corresponding entries in both layouts *)
Lemma logprob_flatten_matches il n t (v : Z -> Z -> X) k :
  logprob_flatten il n t v k = loc_of_mean il n t v k.
Proof. reflexivity. Qed.

(* the pinned source is right only for square shapes *)
Lemma logprob_flatten_pinned_square il n (v : Z -> Z -> X) k : 0 < n -> 0 <= k < n * n ->
  logprob_flatten_pinned il n n v k = loc_of_mean il n n v k.
Proof.
  intros Hn Hk. unfold logprob_flatten_pinned, loc_of_mean. destruct il; [reflexivity|].
  unfold flatten2, transpose2, view2, unflatten2. unfold flatten2.
  pose proof (Z.mod_pos_bound k n Hn) as B. pose proof (div_range k n n Hn Hk) as D.
  destruct (divmod_lin (k mod n) n (k / n) D) as [-> ->]. reflexivity.
Qed.
End ViewLemmas.

Lemma logprob_flatten_pinned_wrong :
  exists (n t : Z) (v : Z -> Z -> Z) (k : Z), 0 < n /\ 0 < t /\ 0 <= k < n * t /\
    logprob_flatten_pinned false n t v k <> loc_of_mean false n t v k.
Proof.
  exists 2, 3, (fun i a => i * 3 + a), 1. repeat split; try lia. vm_compute. discriminate.
Qed.

(* to_data_independent_dist reads the t x t block of point i at the flat positions of (i, a) *)
Lemma tdid_index_flat il n t i a : tdid_index il n t i a = flat il n t i a.
Proof. unfold tdid_index, flat, flat_il, flat_nil. destruct il; ring. Qed.

(* constructors: block placement = joint law of independent tasks *)
Lemma block_cov_is_indep {X} (zero : X) il n t blocks i a j b :
  0 <= i < n -> 0 <= a < t -> 0 <= j < n -> 0 <= b < t ->
  block_cov zero il n t blocks (flat il n t i a) (flat il n t j b) = indep_joint zero blocks i a j b.
Proof.
  intros Hi Ha Hj Hb. unfold block_cov, indep_joint.
  rewrite (unflat_flat il n t i a Hi Ha), (unflat_flat il n t j b Hj Hb). reflexivity.
Qed.

Lemma task_dim_norm_ok nbatch td k : 0 < nbatch -> task_dim_norm nbatch td = Some k ->
  0 <= k <= nbatch /\ (k = td \/ k = nbatch + td).
Proof.
  unfold task_dim_norm. intros Hb.
  destruct (0 <=? td) eqn:E; cbn zeta.
  - destruct ((td <? 0) || (nbatch <? td)) eqn:G; [discriminate|]. intros H. injection H as <-.
    apply orb_false_iff in G. destruct G as [G1 G2]. apply Z.ltb_ge in G1, G2. lia.
  - destruct ((nbatch + td <? 0) || (nbatch <? nbatch + td)) eqn:G; [discriminate|].
    intros H. injection H as <-.
    apply orb_false_iff in G. destruct G as [G1 G2]. apply Z.ltb_ge in G1, G2. lia.
Qed.

(* ------------------------------------------------------------------ index normalisation *)

Lemma norm_index_spec len i k : norm_index len i = Some k -> k = normalize_index i len /\ 0 <= k < len.
Proof.
  unfold norm_index, normalize_index.
  destruct ((0 <=? i) && (i <? len)) eqn:E1.
  - intros H. injection H as <-. apply andb_true_iff in E1. destruct E1 as [A B].
    apply Z.leb_le in A. apply Z.ltb_lt in B. destruct (i <? 0) eqn:N; [apply Z.ltb_lt in N; lia|].
    split; [reflexivity|lia].
  - destruct ((i <? 0) && (0 <=? i + len)) eqn:E2; [|discriminate].
    intros H. injection H as <-. apply andb_true_iff in E2. destruct E2 as [A B].
    rewrite A. apply Z.ltb_lt in A. apply Z.leb_le in B. split; lia.
Qed.

Lemma mapM_norm_spec len l l' : mapM (norm_index len) l = Some l' ->
  l' = map (fun i => normalize_index i len) l /\ Forall (fun k => 0 <= k < len) l'.
Proof.
  revert l'. induction l as [|x r IH]; intros l' H; cbn [mapM] in H.
  - injection H as <-. split; [reflexivity|constructor].
  - destruct (norm_index len x) as [y|] eqn:Ex; [|discriminate].
    destruct (mapM (norm_index len) r) as [ys|] eqn:Er; [|discriminate].
    injection H as <-. destruct (IH ys eq_refl) as [-> F].
    destruct (norm_index_spec len x y Ex) as [-> B]. split; [reflexivity|constructor; assumption].
Qed.

Lemma idx_positions_range len x l : 0 <= len -> idx_positions len x = Some l ->
  Forall (fun k => 0 <= k < len) l.
Proof.
  intros Hlen. destruct x as [i|s|tl]; cbn [idx_positions].
  - destruct (norm_index len i) as [k|] eqn:E; [|discriminate]. intros H. injection H as <-.
    constructor; [apply (norm_index_spec len i k E)|constructor].
  - intros H. apply Forall_forall. intros x Hx.
    assert (Hs : slice_positions len s = Some l).
    { destruct (s_step s) as [k|]; [destruct (k <=? 0); [discriminate|]|]; exact H. }
    apply (slice_positions_valid len s l x Hlen Hs Hx).
  - intros H. apply (mapM_norm_spec len tl l H).
Qed.

Lemma idx_vector_of_positions num x l : idx_positions num x = Some l -> idx_vector num x = Some l.
Proof.
  destruct x as [i|s|tl]; cbn [idx_positions idx_vector].
  - destruct (norm_index num i) as [k|] eqn:E; [|discriminate]. intros H. injection H as <-.
    destruct (norm_index_spec num i k E) as [-> _]. reflexivity.
  - destruct (s_step s) as [k|]; [destruct (k <=? 0); [discriminate|]|]; trivial.
  - intros H. destruct (mapM_norm_spec num tl l H) as [-> _]. reflexivity.
Qed.

(* a slice that torch accepts has a positive step and clamped bounds *)
Definition step_of (s : pyslice) : Z := match s_step s with Some k => k | None => 1 end.

Lemma slice_indices_pos len s : 0 < step_of s -> 0 <= len ->
  exists a b, slice_indices len s = Some (a, b, step_of s) /\ 0 <= a <= len /\ 0 <= b <= len.
Proof.
  intros Hs Hlen. unfold slice_indices. change (match s_step s with Some k => k | None => 1 end) with (step_of s).
  destruct (step_of s =? 0) eqn:E0; [apply Z.eqb_eq in E0; lia|].
  destruct (step_of s <? 0) eqn:En; [apply Z.ltb_lt in En; lia|]. cbn zeta.
  eexists _, _. split; [reflexivity|]. cbv beta iota zeta. split.
  - destruct (s_start s) as [v|]; [|lia]. unfold clamp_bound. destruct (Z.ltb_spec v 0); lia.
  - destruct (s_stop s) as [v|]; [|lia]. unfold clamp_bound. destruct (Z.ltb_spec v 0); lia.
Qed.

Lemma slice_accepted len s l : 0 <= len -> idx_positions len (ISlice s) = Some l ->
  exists a b k, slice_indices len s = Some (a, b, k) /\ 0 < k /\ 0 <= a <= len /\ 0 <= b <= len
                /\ l = range_list a b k.
Proof.
  intros Hlen H. cbn [idx_positions] in H.
  assert (Hpos : 0 < step_of s).
  { unfold step_of. destruct (s_step s) as [k|]; [|lia]. destruct (k <=? 0) eqn:E; [discriminate|].
    apply Z.leb_gt in E. exact E. }
  assert (Hs : slice_positions len s = Some l).
  { destruct (s_step s) as [k|]; [destruct (k <=? 0); [discriminate|]|]; exact H. }
  destruct (slice_indices_pos len s Hpos Hlen) as (a & b & E & Ha & Hb).
  unfold slice_positions in Hs. rewrite E in Hs. injection Hs as <-.
  exists a, b, (step_of s). repeat split; try assumption; lia.
Qed.

(* an explicit non-negative slice with positive step on a sequence of length N *)
Lemma slice_positions_sl N A B K : 0 <= A -> 0 <= B -> 0 < K ->
  slice_positions N (sl A B K) = Some (range_list (Z.min A N) (Z.min B N) K).
Proof.
  intros HA HB HK. unfold slice_positions, slice_indices, sl, mk. cbn [s_start s_stop s_step].
  destruct (K =? 0) eqn:E0; [apply Z.eqb_eq in E0; lia|].
  destruct (K <? 0) eqn:En; [apply Z.ltb_lt in En; lia|]. cbn zeta.
  unfold clamp_bound.
  destruct (A <? 0) eqn:EA; [apply Z.ltb_lt in EA; lia|].
  destruct (B <? 0) eqn:EB; [apply Z.ltb_lt in EB; lia|]. reflexivity.
Qed.

Lemma range_list_affine A B K a b k (f : Z -> Z) :
  range_len A B K = range_len a b k ->
  (forall j, 0 <= j < range_len a b k -> A + j * K = f (a + j * k)) ->
  range_list A B K = map f (range_list a b k).
Proof.
  intros Hlen Hf. unfold range_list. rewrite Hlen, map_map. apply map_ext_in.
  intros j Hj. apply in_seq in Hj. apply Hf. lia.
Qed.

Lemma range_len_pos_lt a b k : 0 < k -> 0 < range_len a b k -> a < b.
Proof.
  intros Hk. unfold range_len. destruct (0 <? k) eqn:E; [|apply Z.ltb_ge in E; lia].
  destruct (Z.ltb_spec a b); lia.
Qed.

Lemma range_len_shift a b k off : range_len (a + off) (b + off) k = range_len a b k.
Proof.
  unfold range_len.
  replace (b + off - (a + off) - 1) with (b - a - 1) by ring.
  replace (a + off - (b + off) - 1) with (a - b - 1) by ring.
  replace (a + off <? b + off) with (a <? b) by (destruct (Z.ltb_spec a b); destruct (Z.ltb_spec (a + off) (b + off)); lia).
  replace (b + off <? a + off) with (b <? a) by (destruct (Z.ltb_spec b a); destruct (Z.ltb_spec (b + off) (a + off)); lia).
  reflexivity.
Qed.

Lemma div_scaled m' e k c : 0 < k -> 0 < c -> 0 <= m' -> 0 <= e < c -> (m' * c + e) / (k * c) = m' / k.
Proof.
  intros Hk Hc Hm He.
  pose proof (Z.div_mod m' k ltac:(lia)) as E. pose proof (Z.mod_pos_bound m' k Hk) as B.
  symmetry. apply (Z.div_unique (m' * c + e) (k * c) (m' / k) ((m' mod k) * c + e)); [left; nia|].
  transitivity ((k * (m' / k) + m' mod k) * c + e); [rewrite <- E; reflexivity|ring].
Qed.

(* strided slice through the flattened dimension: rows a, a+k, ... < b at column c *)
Lemma range_len_strided a b k c NR NC : 0 < k -> 0 < NC -> 0 <= a <= NR -> 0 <= b <= NR -> 0 <= c < NC ->
  range_len (Z.min (a * NC + c) (NR * NC)) (Z.min (b * NC + c) (NR * NC)) (k * NC) = range_len a b k.
Proof.
  intros Hk HNC Ha Hb Hc. unfold range_len.
  destruct (0 <? k * NC) eqn:E1; [|apply Z.ltb_ge in E1; nia].
  destruct (0 <? k) eqn:E2; [|apply Z.ltb_ge in E2; lia].
  destruct (a <? b) eqn:Hab.
  - apply Z.ltb_lt in Hab.
    assert (HA : Z.min (a * NC + c) (NR * NC) = a * NC + c) by (apply Z.min_l; nia).
    rewrite HA.
    destruct (Z.le_gt_cases (b * NC + c) (NR * NC)) as [Hle|Hgt].
    + rewrite (Z.min_l _ _ Hle).
      destruct (a * NC + c <? b * NC + c) eqn:L; [|apply Z.ltb_ge in L; nia].
      f_equal.
      replace (b * NC + c - (a * NC + c) - 1) with ((b - a - 1) * NC + (NC - 1)) by ring.
      apply div_scaled; lia.
    + rewrite (Z.min_r (b * NC + c) (NR * NC)) by lia.
      assert (b = NR) by nia. subst b.
      destruct (a * NC + c <? NR * NC) eqn:L; [|apply Z.ltb_ge in L; nia].
      f_equal.
      replace (NR * NC - (a * NC + c) - 1) with ((NR - a - 1) * NC + (NC - c - 1)) by ring.
      apply div_scaled; lia.
  - apply Z.ltb_ge in Hab.
    destruct (Z.min (a * NC + c) (NR * NC) <? Z.min (b * NC + c) (NR * NC)) eqn:L; [|reflexivity].
    apply Z.ltb_lt in L. nia.
Qed.

(* ------------------------------------------------------------------ list helpers *)

Lemma flat_map_single {A B} (f : A -> B) l : flat_map (fun x => [f x]) l = map f l.
Proof. induction l as [|x r IH]; [reflexivity|]. cbn [flat_map map app]. rewrite IH. reflexivity. Qed.

Lemma bcast2_swap {A} (l1 l2 : list A) :
  bcast2 l2 l1 = match bcast2 l1 l2 with Some ps => Some (map (fun p => (snd p, fst p)) ps) | None => None end.
Proof.
  unfold bcast2. rewrite Nat.eqb_sym.
  destruct (Nat.eqb (length l1) (length l2)) eqn:E.
  - f_equal. apply Nat.eqb_eq in E. revert l2 E. induction l1 as [|x r IH]; intros [|y s] E; try discriminate; [reflexivity|].
    cbn [combine map fst snd]. f_equal. apply IH. cbn in E. lia.
  - destruct l1 as [|x [|x' r]]; destruct l2 as [|y [|y' s]]; cbn [length] in E; try discriminate;
      try reflexivity; cbn [map fst snd]; rewrite ?map_map; cbn [fst snd]; try reflexivity.
Qed.

Lemma bcast2_in {A} (l1 l2 : list A) ps x y : bcast2 l1 l2 = Some ps -> In (x, y) ps ->
  In x l1 /\ In y l2.
Proof.
  unfold bcast2. destruct (Nat.eqb (length l1) (length l2)).
  - intros H Hin. injection H as <-. split; [eapply in_combine_l|eapply in_combine_r]; exact Hin.
  - destruct l1 as [|x1 [|x2 r1]].
    + destruct l2 as [|y1 [|y2 r2]]; try discriminate. intros H Hin. injection H as <-. destruct Hin.
    + intros H Hin. injection H as <-. apply in_map_iff in Hin. destruct Hin as [z [E Hz]].
      injection E as <- <-. split; [left; reflexivity|exact Hz].
    + destruct l2 as [|y1 [|y2 r2]]; try discriminate. intros H Hin. injection H as <-.
      assert (Hin' : In (x, y) (map (fun x => (x, y1)) (x1 :: x2 :: r1))) by exact Hin.
      apply in_map_iff in Hin'. destruct Hin' as [z [E Hz]]. injection E as <- <-.
      split; [exact Hz|left; reflexivity].
Qed.

(* row-major enumeration of an NR x NC grid is 0 .. NR*NC-1 *)
Lemma range01 n : 0 <= n -> range_list 0 n 1 = map Z.of_nat (seq 0 (Z.to_nat n)).
Proof.
  intros Hn. unfold range_list.
  assert (E : range_len 0 n 1 = n).
  { unfold range_len. cbn [Z.ltb Z.compare]. destruct (0 <? n) eqn:L.
    - rewrite Z.div_1_r. lia.
    - apply Z.ltb_ge in L. lia. }
  rewrite E. apply map_ext. intros k. lia.
Qed.

Lemma outer_full NR NC : 0 <= NR -> 0 <= NC ->
  outer NC (range_list 0 NR 1) (range_list 0 NC 1) = range_list 0 (NR * NC) 1.
Proof.
  intros HR HC. rewrite !range01 by nia.
  replace NR with (Z.of_nat (Z.to_nat NR)) at 2 by lia.
  generalize (Z.to_nat NR) as r. clear HR NR. intros r.
  induction r as [|r IH].
  - reflexivity.
  - unfold outer in *. rewrite seq_S, map_app, flat_map_app. cbn [map flat_map Nat.add]. rewrite app_nil_r.
    rewrite IH.
    replace (Z.to_nat (Z.of_nat (S r) * NC)) with (Z.to_nat (Z.of_nat r * NC) + Z.to_nat NC)%nat by nia.
    rewrite seq_app, map_app. f_equal. cbn [Nat.add].
    rewrite map_map.
    assert (G : forall m s, map Z.of_nat (seq s m) = map (fun x => Z.of_nat s + Z.of_nat x) (seq 0 m)).
    { induction m as [|m IHm]; intros s; [reflexivity|]. cbn [seq map]. f_equal; [lia|].
      rewrite (IHm (S s)). rewrite <- seq_shift, map_map. apply map_ext. intros; lia. }
    rewrite (G (Z.to_nat NC) (Z.to_nat (Z.of_nat r * NC))). apply map_ext. intros x. nia.
Qed.

(* ------------------------------------------------------------------ the branches *)

(* int x slice (block of one row): for 0 <= r < NR *)
Lemma branch_int_slice NR NC r s cols : 0 < NR -> 0 < NC -> 0 <= r < NR ->
  idx_positions NC (ISlice s) = Some cols ->
  match normalize_slice s NC with
  | Some (a, b, k) => slice_positions (NR * NC) (sl (a + r * NC) (b + r * NC) k)
  | None => None
  end = Some (map (fun c => r * NC + c) cols).
Proof.
  intros HR HC Hr Hs.
  destruct (slice_accepted NC s cols ltac:(lia) Hs) as (a & b & k & E & Hk & Ha & Hb & ->).
  unfold normalize_slice. rewrite E.
  rewrite slice_positions_sl by nia.
  rewrite !Z.min_l by nia. f_equal.
  apply range_list_affine; [apply range_len_shift|]. intros j _. ring.
Qed.

(* slice x int (strided): for 0 <= c < NC *)
Lemma branch_slice_int NR NC s c rows : 0 < NR -> 0 < NC -> 0 <= c < NC ->
  idx_positions NR (ISlice s) = Some rows ->
  match normalize_slice s NR with
  | Some (a, b, k) => slice_positions (NR * NC) (sl (a * NC + c) (b * NC + c) (k * NC))
  | None => None
  end = Some (map (fun r => r * NC + c) rows).
Proof.
  intros HR HC Hc Hs.
  destruct (slice_accepted NR s rows ltac:(lia) Hs) as (a & b & k & E & Hk & Ha & Hb & ->).
  unfold normalize_slice. rewrite E.
  rewrite slice_positions_sl by nia. f_equal.
  apply range_list_affine; [apply range_len_strided; lia|].
  intros j Hj. assert (a < b) by (apply (range_len_pos_lt a b k Hk); lia).
  rewrite Z.min_l by nia. ring.
Qed.

Lemma full_slice_positions len x : 0 <= len -> is_full_slice x = true ->
  idx_positions len x = Some (range_list 0 len 1).
Proof.
  intros Hlen. destruct x as [i|s|l]; cbn [is_full_slice]; try discriminate.
  destruct s as [a b k]. cbn [s_start s_stop s_step]. destruct a, b, k; try discriminate.
  intros _. reflexivity.
Qed.

(* the code's flat positions in terms of the positions selected on each axis.
   R, Cc are the major / minor components after the layout swap. *)
Lemma code_indices_spec R Cc NR NC rows cols : 0 < NR -> 0 < NC ->
  idx_positions NR R = Some rows -> idx_positions NC Cc = Some cols ->
  code_indices R Cc NR NC =
    if is_slice R || is_slice Cc then Some (outer NC rows cols)
    else match bcast2 rows cols with
         | Some ps => Some (map (fun p => fst p * NC + snd p) ps)
         | None => None
         end.
Proof.
  intros HR HC HRp HCp.
  pose proof (idx_vector_of_positions NR R rows HRp) as VR.
  pose proof (idx_vector_of_positions NC Cc cols HCp) as VC.
  assert (Generic :
    (if is_full_slice R && is_full_slice Cc then Some (range_list 0 (NR * NC) 1)
     else match idx_vector NR R, idx_vector NC Cc with
          | Some rows, Some cols =>
              if is_slice R || is_slice Cc then Some (outer NC rows cols)
              else match bcast2 rows cols with
                   | Some ps => Some (map (fun p => fst p * NC + snd p) ps)
                   | None => None
                   end
          | _, _ => None
          end) =
    if is_slice R || is_slice Cc then Some (outer NC rows cols)
    else match bcast2 rows cols with
         | Some ps => Some (map (fun p => fst p * NC + snd p) ps)
         | None => None
         end).
  { destruct (is_full_slice R && is_full_slice Cc) eqn:F.
    - apply andb_true_iff in F. destruct F as [F1 F2].
      rewrite (full_slice_positions NR R ltac:(lia) F1) in HRp.
      rewrite (full_slice_positions NC Cc ltac:(lia) F2) in HCp.
      injection HRp as <-. injection HCp as <-.
      assert (S1 : is_slice R = true) by (destruct R; try discriminate; reflexivity).
      rewrite S1. cbn [orb]. rewrite outer_full by lia. reflexivity.
    - rewrite VR, VC. reflexivity. }
  destruct R as [r|sr|lr]; destruct Cc as [c|sc|lc]; try exact Generic.
  - (* int x slice *)
    cbn [code_indices is_slice orb].
    cbn [idx_positions] in HRp.
    destruct (norm_index NR r) as [r'|] eqn:Er; [|discriminate]. injection HRp as <-.
    destruct (norm_index_spec NR r r' Er) as [<- Hr'].
    rewrite (branch_int_slice NR NC r' sc cols HR HC Hr' HCp).
    unfold outer. cbn [flat_map]. rewrite app_nil_r. reflexivity.
  - (* slice x int *)
    cbn [code_indices is_slice orb].
    cbn [idx_positions] in HCp.
    destruct (norm_index NC c) as [c'|] eqn:Ec; [|discriminate]. injection HCp as <-.
    destruct (norm_index_spec NC c c' Ec) as [<- Hc'].
    rewrite (branch_slice_int NR NC sr c' rows HR HC Hc' HRp).
    unfold outer. cbn [map]. rewrite flat_map_single. reflexivity.
Qed.

Theorem getitem_event_correct il n t ri ci : 0 < n -> 0 < t ->
  getitem_event il n t ri ci = spec_indices il n t ri ci.
Proof.
  intros Hn Ht. unfold getitem_event, spec_indices.
  destruct (idx_positions n ri) as [rows|] eqn:ER; [|reflexivity].
  destruct (idx_positions t ci) as [cols|] eqn:EC; [|reflexivity].
  destruct il.
  - rewrite (code_indices_spec ri ci n t rows cols Hn Ht ER EC).
    unfold outer, flat, flat_il. reflexivity.
  - rewrite (code_indices_spec ci ri t n cols rows Ht Hn EC ER).
    rewrite (orb_comm (is_slice ci)).
    destruct (is_slice ri || is_slice ci); [reflexivity|].
    rewrite (bcast2_swap rows cols). destruct (bcast2 rows cols) as [ps|]; [|reflexivity].
    rewrite map_map. reflexivity.
Qed.

(* every flat position handed to the covariance is inside the stored matrix *)
Lemma getitem_event_in_range il n t ri ci l k : 0 < n -> 0 < t ->
  getitem_event il n t ri ci = Some l -> In k l -> 0 <= k < n * t.
Proof.
  intros Hn Ht H Hin. rewrite getitem_event_correct in H by assumption. unfold spec_indices in H.
  destruct (idx_positions n ri) as [rows|] eqn:ER; [|discriminate].
  destruct (idx_positions t ci) as [cols|] eqn:EC; [|discriminate].
  pose proof (idx_positions_range n ri rows ltac:(lia) ER) as FR.
  pose proof (idx_positions_range t ci cols ltac:(lia) EC) as FC.
  rewrite Forall_forall in FR, FC.
  destruct (is_slice ri || is_slice ci).
  - injection H as <-. destruct il; apply in_flat_map in Hin; destruct Hin as [x [Hx Hin]];
      apply in_map_iff in Hin; destruct Hin as [y [<- Hy]]; apply flat_range; auto.
  - destruct (bcast2 rows cols) as [ps|] eqn:EB; [|discriminate]. injection H as <-.
    apply in_map_iff in Hin. destruct Hin as [[i a] [<- Hp]]. cbn [fst snd].
    destruct (bcast2_in rows cols ps i a EB Hp) as [Hi Ha].
    apply flat_range; [apply FR; exact Hi|apply FC; exact Ha].
Qed.

(* ------------------------------------------------------------------ the pinned formulas fail *)

(* d[1:3, 2] on n=4, t=3 interleaved: pinned slice x int selects [3;6;9] instead of [5;8] *)
Lemma slice_int_pinned_wrong :
  exists NR NC s c, 0 < NR /\ 0 < NC /\
    code_slice_int_pinned s c NR NC <> spec_indices true NR NC (ISlice s) (IInt c).
Proof. exists 4, 3, (mk (Some 1) (Some 3) None), 2. repeat split; try lia. vm_compute. discriminate. Qed.

(* d[1, 0:100] on n=4, t=3: stop not clamped, 9 entries instead of 3 *)
Lemma int_slice_pinned_wrong :
  exists NR NC r s, 0 < NR /\ 0 < NC /\
    code_int_slice_pinned r s NR NC <> spec_indices true NR NC (IInt r) (ISlice s).
Proof. exists 4, 3, 1, (mk (Some 0) (Some 100) None). repeat split; try lia. vm_compute. discriminate. Qed.

(* d[tensor([0]), -1] on n=2, t=3: the un-normalised pair formula yields position 5 (= (1,2))
   instead of 2 (= (0,2)) *)
Lemma pair_pinned_wrong :
  exists NR NC r c, 0 <= r < NR /\ - NC <= c < 0 /\
    code_pair_pinned r c NR NC <> Some (flat true NR NC r (normalize_index c NC)).
Proof. exists 2, 3, 0, (-1). repeat split; try lia. vm_compute. discriminate. Qed.

(* ------------------------------------------------------------------ index tuples *)

(* an explicit full index (batch components, then ri, ci) is split as written *)
Lemma normalize_tuple_explicit dim (b : list pyidx) ri ci :
  Z.of_nat (length b) + 2 = dim ->
  normalize_tuple dim (map EI b ++ [EI ri; EI ci]) = Some (b, Some (ri, ci)).
Proof.
  intros Hd. unfold normalize_tuple.
  assert (S1 : forall l, split_ell (map EI l) = (map EI l, None)).
  { induction l as [|x r IH]; [reflexivity|]. cbn [map split_ell]. rewrite IH. reflexivity. }
  assert (St : forall l, strip (map EI l) = l).
  { induction l as [|x r IH]; [reflexivity|]. unfold strip in *. cbn [map flat_map app]. rewrite IH. reflexivity. }
  change (map EI b ++ [EI ri; EI ci]) with (map EI b ++ map EI [ri; ci]).
  rewrite <- map_app, S1, map_length, app_length. cbn [length].
  destruct (Z.of_nat (length b + 2) =? dim - 1) eqn:E; [apply Z.eqb_eq in E; lia|].
  rewrite St, app_length. cbn [length].
  destruct (Z.of_nat (length b + 2) <=? dim - 2) eqn:E2; [apply Z.leb_le in E2; lia|].
  destruct (dim <? Z.of_nat (length b + 2)) eqn:E3; [apply Z.ltb_lt in E3; lia|].
  replace (length b + 2 - 2)%nat with (length b) by lia.
  rewrite skipn_app, skipn_all, Nat.sub_diag. cbn [skipn app].
  rewrite firstn_app, firstn_all, Nat.sub_diag. cbn [firstn]. rewrite app_nil_r. reflexivity.
Qed.

(* omitting the task index selects all tasks; `...` stands for full slices *)
Lemma normalize_tuple_no_task dim (b : list pyidx) ri :
  Z.of_nat (length b) + 2 = dim ->
  normalize_tuple dim (map EI b ++ [EI ri]) = normalize_tuple dim (map EI b ++ [EI ri; EI (ISlice full_slice)]).
Proof.
  intros Hd. rewrite normalize_tuple_explicit by assumption. unfold normalize_tuple.
  assert (S1 : forall l, split_ell (map EI l) = (map EI l, None)).
  { induction l as [|x r IH]; [reflexivity|]. cbn [map split_ell]. rewrite IH. reflexivity. }
  assert (St : forall l, strip (map EI l) = l).
  { induction l as [|x r IH]; [reflexivity|]. unfold strip in *. cbn [map flat_map app]. rewrite IH. reflexivity. }
  change (map EI b ++ [EI ri]) with (map EI b ++ map EI [ri]).
  rewrite <- map_app, S1, map_length, app_length. cbn [length].
  destruct (Z.of_nat (length b + 1) =? dim - 1) eqn:E; [|apply Z.eqb_neq in E; lia].
  rewrite St, !app_length. cbn [length].
  destruct (Z.of_nat (length b + 1 + 1) <=? dim - 2) eqn:E2; [apply Z.leb_le in E2; lia|].
  destruct (dim <? Z.of_nat (length b + 1 + 1)) eqn:E3; [apply Z.ltb_lt in E3; lia|].
  replace (length b + 1 + 1 - 2)%nat with (length b) by lia.
  rewrite <- app_assoc. cbn [app].
  rewrite skipn_app, skipn_all, Nat.sub_diag. cbn [skipn app].
  rewrite firstn_app, firstn_all, Nat.sub_diag. cbn [firstn]. rewrite app_nil_r. reflexivity.
Qed.

Lemma normalize_tuple_ellipsis dim (pre suf : list pyidx) :
  Z.of_nat (length pre) + Z.of_nat (length suf) <= dim ->
  normalize_tuple dim (map EI pre ++ EE :: map EI suf)
  = normalize_tuple dim
      (map EI (pre ++ repeat (ISlice full_slice) (Z.to_nat (dim - Z.of_nat (length pre) - Z.of_nat (length suf))) ++ suf)
       ++ (if Z.of_nat (length pre) + Z.of_nat (length suf) <=? dim then [] else [EE])).
Proof.
  intros Hd. destruct (Z.leb_spec (Z.of_nat (length pre) + Z.of_nat (length suf)) dim); [|lia].
  rewrite app_nil_r. unfold normalize_tuple.
  assert (S1 : forall l, split_ell (map EI l) = (map EI l, None)).
  { induction l as [|x r IH]; [reflexivity|]. cbn [map split_ell]. rewrite IH. reflexivity. }
  assert (S2 : forall l r, split_ell (map EI l ++ EE :: r) = (map EI l, Some r)).
  { induction l as [|x r IH]; intros r'; [reflexivity|]. cbn [map split_ell app]. rewrite IH. reflexivity. }
  assert (St : forall l, strip (map EI l) = l).
  { induction l as [|x r IH]; [reflexivity|]. unfold strip in *. cbn [map flat_map app]. rewrite IH. reflexivity. }
  assert (Ne : forall l, existsb is_ell (map EI l) = false).
  { induction l as [|x r IH]; [reflexivity|]. cbn [map existsb is_ell orb]. exact IH. }
  rewrite S2, S1, Ne, !map_length, !St.
  set (infix := dim - Z.of_nat (length pre) - Z.of_nat (length suf)).
  destruct (infix <? 0) eqn:E; [apply Z.ltb_lt in E; lia|].
  set (l := pre ++ repeat (ISlice full_slice) (Z.to_nat infix) ++ suf).
  assert (Hl : Z.of_nat (length l) = dim).
  { subst l. rewrite !app_length, repeat_length. lia. }
  destruct (Z.of_nat (length l) =? dim - 1) eqn:E1; [apply Z.eqb_eq in E1; lia|]. reflexivity.
Qed.
