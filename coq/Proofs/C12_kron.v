(* Small Kronecker development for C12: entries of I (x) D and D (x) I, the perfect shuffle
   between the interleaved and non-interleaved layouts, and the layout theorem.
   Generic field, no axioms.  (General lemmas; could move to Base later.) *)
From Coq Require Import Arith Lia Ring Field Setoid Morphisms.
From GPV Require Import Base.LinAlg Base.Exec Models.C12_noise.

Lemma divmod_flat q a i : (i < q)%nat -> ((a * q + i) / q = a /\ (a * q + i) mod q = i)%nat.
Proof.
  intros Hi. split.
  - symmetry. apply (Nat.div_unique (a * q + i) q a i); lia.
  - symmetry. apply (Nat.mod_unique (a * q + i) q a i); lia.
Qed.

Lemma div_lt_of_lt_mul k n t : (k < n * t)%nat -> (k / t < n)%nat.
Proof.
  intros H. destruct t as [|t]; [lia|].
  apply Nat.div_lt_upper_bound; lia.
Qed.

Lemma flat_decomp k t : (0 < t)%nat -> (k = (k / t) * t + k mod t)%nat.
Proof. intros Ht. pose proof (Nat.div_mod k t). lia. Qed.

(* the shuffle maps [0, n t) into itself and its inverse is the shuffle with n, t swapped *)
Lemma shuf_lt n t k : (k < n * t)%nat -> (shuf n t k < n * t)%nat.
Proof.
  intros Hk. unfold shuf.
  assert (Ht : (0 < t)%nat) by (destruct t; lia).
  pose proof (div_lt_of_lt_mul k n t Hk) as Hd.
  pose proof (Nat.mod_upper_bound k t) as Hm. nia.
Qed.

Lemma shuf_inv n t k : (k < n * t)%nat -> shuf t n (shuf n t k) = k.
Proof.
  intros Hk. unfold shuf.
  assert (Ht : (0 < t)%nat) by (destruct t; lia).
  pose proof (div_lt_of_lt_mul k n t Hk) as Hd.
  destruct (divmod_flat n (k mod t) (k / t) Hd) as [E1 E2].
  rewrite E1, E2. symmetry. apply flat_decomp. exact Ht.
Qed.

Lemma shuf_flat n t i a : (i < n)%nat -> (a < t)%nat -> shuf n t (i * t + a) = (a * n + i)%nat.
Proof.
  intros Hi Ha. unfold shuf. destruct (divmod_flat t i a Ha) as [E1 E2].
  rewrite E1, E2. reflexivity.
Qed.

Section Kron.
Context {K : Fld}.
Add Field Ff_c12k : (@FT K).
Local Open Scope fld_scope.

(* entries: block (i, j) of I_n (x) D is delta_ij D *)
Lemma kron_I_D_entry t D i j a b : (a < t)%nat -> (b < t)%nat ->
  kron t mI D (i * t + a)%nat (j * t + b)%nat = if Nat.eqb i j then D a b else 0.
Proof.
  intros Ha Hb. unfold kron, mI.
  destruct (divmod_flat t i a Ha) as [E1 E2]. destruct (divmod_flat t j b Hb) as [E3 E4].
  rewrite E1, E2, E3, E4. destruct (Nat.eqb i j); ring.
Qed.

(* entries: block (a, b) of D (x) I_n is D_ab I_n *)
Lemma kron_D_I_entry n D i j a b : (i < n)%nat -> (j < n)%nat ->
  kron n D mI (a * n + i)%nat (b * n + j)%nat = if Nat.eqb i j then D a b else 0.
Proof.
  intros Hi Hj. unfold kron, mI.
  destruct (divmod_flat n a i Hi) as [E1 E2]. destruct (divmod_flat n b j Hj) as [E3 E4].
  rewrite E1, E2, E3, E4. destruct (Nat.eqb i j); ring.
Qed.

(* layout theorem: the noise added to an interleaved input is the perfect-shuffle conjugate
   of the noise added to a non-interleaved one, for all n, t and any task covariance D *)
Lemma kron_layout n t D :
  meq (n * t) (n * t) (R_mt_il t D) (gather (shuf n t) (shuf n t) (R_mt_nil n D)).
Proof.
  intros k l Hk Hl. unfold R_mt_il, R_mt_nil, gather.
  assert (Ht : (0 < t)%nat) by (destruct t; lia).
  pose proof (div_lt_of_lt_mul k n t Hk) as Hdk.
  pose proof (div_lt_of_lt_mul l n t Hl) as Hdl.
  pose proof (Nat.mod_upper_bound k t ltac:(lia)) as Hmk.
  pose proof (Nat.mod_upper_bound l t ltac:(lia)) as Hml.
  rewrite (flat_decomp k t Ht) at 1. rewrite (flat_decomp l t Ht) at 1.
  rewrite kron_I_D_entry by assumption.
  unfold shuf. rewrite kron_D_I_entry by assumption. reflexivity.
Qed.

(* the other direction, with the inverse shuffle *)
Lemma kron_layout_inv n t D :
  meq (n * t) (n * t) (R_mt_nil n D) (gather (shuf t n) (shuf t n) (R_mt_il t D)).
Proof.
  intros k l Hk Hl.
  assert (Hk' : (k < t * n)%nat) by lia. assert (Hl' : (l < t * n)%nat) by lia.
  pose proof (shuf_lt t n k Hk') as Sk. pose proof (shuf_lt t n l Hl') as Sl.
  unfold gather.
  rewrite (kron_layout n t D (shuf t n k) (shuf t n l)) by lia.
  unfold gather. rewrite !shuf_inv by lia. reflexivity.
Qed.

(* I (x) (D + s I) = I (x) D + s I : the global noise may be moved inside the task factor *)
Lemma eqb_flat t k l : (0 < t)%nat ->
  Nat.eqb k l = (Nat.eqb (k / t) (l / t) && Nat.eqb (k mod t) (l mod t))%bool.
Proof.
  intros Ht. destruct (Nat.eqb_spec k l) as [->|Hne].
  - rewrite !Nat.eqb_refl. reflexivity.
  - destruct (Nat.eqb_spec (k / t) (l / t)) as [E1|]; [|reflexivity].
    destruct (Nat.eqb_spec (k mod t) (l mod t)) as [E2|]; [|reflexivity].
    exfalso. apply Hne. rewrite (flat_decomp k t Ht), (flat_decomp l t Ht). congruence.
Qed.

Lemma kron_I_global t D s k l : (0 < t)%nat ->
  kron t mI (madd D (R_homo s)) k l = madd (kron t mI D) (R_homo s) k l.
Proof.
  intros Ht. unfold kron, madd, R_homo, mscale, mI. rewrite (eqb_flat t k l Ht).
  destruct (Nat.eqb (k / t) (l / t)); destruct (Nat.eqb (k mod t) (l mod t)); cbn [andb]; ring.
Qed.

Lemma kron_global_I n D s k l : (0 < n)%nat ->
  kron n (madd D (R_homo s)) mI k l = madd (kron n D mI) (R_homo s) k l.
Proof.
  intros Hn. unfold kron, madd, R_homo, mscale, mI. rewrite (eqb_flat n k l Hn).
  destruct (Nat.eqb (k / n) (l / n)); destruct (Nat.eqb (k mod n) (l mod n)); cbn [andb]; ring.
Qed.

End Kron.
