(* C14: the trace_mode branch of VariationalStrategy.forward is the closed form; its sign matters. *)
From Coq Require Import Arith Lia Ring Field Setoid Morphisms List ZArith QArith Qcanon.
From GPV Require Import Base.LinAlg Base.Exec Models.C14_variational Models.C14_branches.

Section Branches.
Context {K : Fld}.
Add Field Ff_c14b : (@FT K).
Local Open Scope fld_scope.

Lemma wh_cov_trace_mode_eq m n A Kxx Sw :
  meq n n (wh_cov_trace_mode m A Kxx Sw) (wh_cov m A Kxx Sw).
Proof.
  unfold wh_cov_trace_mode, wh_cov.
  apply madd_compat; [apply meq_refl|].
  apply mmul_assoc.
Qed.

(* subtracting instead of adding is right exactly when the correction vanishes (char <> 2) *)
Lemma wh_cov_trace_mode_minus_iff m n A Kxx Sw :
  (1 + 1 <> (0 : car)) ->
  (meq n n (wh_cov_trace_mode_minus m A Kxx Sw) (wh_cov m A Kxx Sw) <->
   meq n n (mmul m (mT A) (mmul m (msub Sw mI) A)) mzero).
Proof.
  intros H2. unfold wh_cov_trace_mode_minus, wh_cov. set (D := msub Sw mI). split.
  - intros H i j Hi Hj. specialize (H i j Hi Hj). unfold msub, madd in H.
    rewrite (mmul_assoc_pt) in H. unfold mzero.
    set (x := mmul m (mT A) (mmul m D A) i j) in *.
    assert (E : (1 + 1) * x = 0) by (transitivity ((Kxx i j + x) - (Kxx i j - x)); [ring | rewrite H; ring]).
    transitivity (((1 + 1) * x) / (1 + 1)); [field; exact H2 | rewrite E; field; exact H2].
  - intros H i j Hi Hj. unfold msub, madd. rewrite mmul_assoc_pt. rewrite (H i j Hi Hj). unfold mzero. ring.
Qed.

End Branches.

(* a 1 x 1 instance over the rationals where the subtracted version is wrong: A = 1, Kxx = 1, S = 2 *)
Lemma wh_cov_trace_mode_minus_differs :
  exists (A Kxx Sw : nat -> nat -> Qc),
    @wh_cov_trace_mode_minus QcF 1 A Kxx Sw O O <> @wh_cov QcF 1 A Kxx Sw O O.
Proof.
  exists (fun _ _ => 1%Qc), (fun _ _ => 1%Qc), (fun _ _ => Q2Qc 2). vm_compute. discriminate.
Qed.
