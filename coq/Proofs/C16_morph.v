(* C16: the executed 'mask' / 'fill' posterior (QcF) is the real-number one (RF) on the mapped
   inputs; generic over a field morphism, instance Q2R' (Base/Morph.v).  NaN patterns are
   untouched by the morphism ([nvmap] maps the values under [Some]). *)
From Coq Require Import Arith List Bool ZArith QArith Qcanon Reals.
From GPV Require Import Base.LinAlg Base.Exec Base.Expr Base.Det Base.Morph
  Models.C01_posterior Proofs.C01_posterior Proofs.C01_morph Models.C16_missing Proofs.C16_missing.
Import ListNotations.

Definition nvmap {K1 K2 : Fld} (phi : @car K1 -> @car K2) (v : @nvec K1) : @nvec K2 :=
  fun i => option_map phi (v i).

Section C16Morph.
Context {K1 K2 : Fld} (phi : @car K1 -> @car K2) {HM : FldMorph K1 K2 phi}.
Local Notation mp := (mmap phi).
Local Notation nv := (nvmap phi).

Lemma is_obs_nvmap v i : is_obs (nv v) i = is_obs v i.
Proof. unfold is_obs, nvmap. destruct (v i); reflexivity. Qed.
Lemma obs_list_nvmap n v : obs_list n (is_obs (nv v)) = obs_list n (is_obs v).
Proof. apply obs_list_ext. apply is_obs_nvmap. Qed.
Lemma nobs_nvmap n v : nobs n (is_obs (nv v)) = nobs n (is_obs v).
Proof. apply nobs_ext. apply is_obs_nvmap. Qed.
Lemma rank_nvmap v i : rank (is_obs (nv v)) i = rank (is_obs v) i.
Proof. apply rank_ext. apply is_obs_nvmap. Qed.
Lemma has_missing_nvmap n v : has_missing n (nv v) = has_missing n v.
Proof.
  unfold has_missing. f_equal. induction (seq 0 n) as [|x l IH]; [reflexivity|].
  cbn [forallb]. rewrite IH, is_obs_nvmap. reflexivity.
Qed.

Lemma vals_morph d v i j : phi (vals d v i j) = vals (phi d) (nv v) i j.
Proof. unfold vals, nvmap. destruct (v i); reflexivity. Qed.
Lemma vals_morph0 v i j : phi (vals f0 v i j) = vals f0 (nv v) i j.
Proof. rewrite vals_morph, (phi_0 (phi := phi)). reflexivity. Qed.

Lemma offset_morph muJ y i : nv (offset muJ y) i = offset (mp muJ) (nv y) i.
Proof.
  unfold nvmap, offset, mmap. destruct (y i); cbn [option_map]; [|reflexivity].
  rewrite (phi_sub (phi := phi)). reflexivity.
Qed.

Ltac c16_hook :=
  lazymatch goal with
  | |- _ (vals f0 ?v ?a ?b) = _ => apply vals_morph0
  | |- _ (vals ?d ?v ?a ?b) = _ => apply vals_morph
  | |- _ (if is_obs ?v ?i then _ else _) = _ =>
      rewrite ?(is_obs_nvmap v i); destruct (is_obs v i); morph_rec
  | |- _ (if (is_obs ?v ?i && is_obs ?v ?j)%bool then _ else _) = _ =>
      rewrite ?(is_obs_nvmap v i), ?(is_obs_nvmap v j); destruct (is_obs v i), (is_obs v j); cbn [andb]; morph_rec
  end.
Ltac morph_hook ::= c16_hook.

Ltac c16_unfold :=
  unfold del_mean, del_cov, del_mean_ob, mll_quad_mask, mll_quad_del in *;
  unfold KJ_del, mu_del, S_del, y_del, cov_masked, cov_filled, pred_mean_mask, pred_mean_fill, quad in *;
  unfold masked, mask_rows, mask_cols, zero_cols, fill_kernel in *;
  unfold post_mean, post_cov, mean_cache, train_covar, Kxx, Kxs, Ksx, Kss, mmap in *; cbv zeta;
  rewrite ?obs_list_nvmap, ?nobs_nvmap, ?rank_nvmap.

(* ---- policy 'mask' *)
Lemma mean_cache_mask_morph n Aoinv r i :
  nv (mean_cache_mask n Aoinv r) i = mean_cache_mask n (mp Aoinv) (nv r) i.
Proof.
  unfold mean_cache_mask. c16_unfold. unfold nvmap at 1. rewrite is_obs_nvmap.
  destruct (is_obs r i); cbn [option_map]; [|reflexivity]. f_equal. morph_pt.
Qed.

Lemma mean_cache_mask_ob_morph n ob Aoinv r i :
  nv (mean_cache_mask_ob n ob Aoinv r) i = mean_cache_mask_ob n ob (mp Aoinv) (nv r) i.
Proof.
  unfold mean_cache_mask_ob. c16_unfold. unfold nvmap at 1.
  destruct (ob i); cbn [option_map]; [|reflexivity]. f_equal. morph_pt.
Qed.

Lemma pred_mean_mask_morph n TT tm mc i j :
  phi (pred_mean_mask n TT tm mc i j) = pred_mean_mask n (mp TT) (mp tm) (nv mc) i j.
Proof. c16_unfold. morph_pt. Qed.

Lemma cov_masked_morph n ob KJ Aoinv i j :
  phi (cov_masked n ob KJ Aoinv i j) = cov_masked n ob (mp KJ) (mp Aoinv) i j.
Proof. c16_unfold. morph_pt. Qed.

(* ---- policy 'fill' *)
Lemma fill_kernel_morph ob A i j : phi (fill_kernel ob A i j) = fill_kernel ob (mp A) i j.
Proof.
  unfold fill_kernel, mmap. destruct (Nat.eqb i j); [reflexivity|].
  destruct (ob i && ob j)%bool; [reflexivity|apply phi_0].
Qed.

Lemma mean_cache_fill_morph n Afinv r fv i :
  nv (mean_cache_fill n Afinv r fv) i = mean_cache_fill n (mp Afinv) (nv r) (phi fv) i.
Proof.
  unfold mean_cache_fill. c16_unfold. unfold nvmap at 1. rewrite is_obs_nvmap.
  destruct (is_obs r i); cbn [option_map]; [|reflexivity]. f_equal. morph_pt.
Qed.

Lemma pred_mean_fill_morph n TT tm mc fv i j :
  phi (pred_mean_fill n TT tm mc fv i j) = pred_mean_fill n (mp TT) (mp tm) (nv mc) (phi fv) i j.
Proof. c16_unfold. morph_pt. Qed.

Lemma cov_filled_morph n ob KJ Afinv i j :
  phi (cov_filled n ob KJ Afinv i j) = cov_filled n ob (mp KJ) (mp Afinv) i j.
Proof. c16_unfold. morph_pt; destruct (ob _); morph_rec. Qed.

Lemma pred_cov_morph n p KJ Ainv Aoinv Afinv y i j :
  phi (pred_cov n p KJ Ainv Aoinv Afinv y i j)
  = pred_cov n p (mp KJ) (mp Ainv) (mp Aoinv) (mp Afinv) (nv y) i j.
Proof.
  unfold pred_cov. rewrite has_missing_nvmap. destruct (has_missing n y).
  - destruct p.
    + rewrite cov_masked_morph. unfold cov_masked. rewrite nobs_nvmap. unfold mask_cols.
      rewrite obs_list_nvmap. reflexivity.
    + rewrite cov_filled_morph. unfold cov_filled, zero_cols, msub, mmul, mT.
      f_equal. apply sum_ext. intros l _. rewrite is_obs_nvmap. f_equal.
      apply sum_ext. intros l' _. rewrite is_obs_nvmap. reflexivity.
  - apply (post_cov_morph phi).
Qed.

(* ---- deletion (the specification) *)
Lemma del_mean_morph n KJ muJ Aoinv y i j :
  phi (del_mean n KJ muJ Aoinv y i j) = del_mean n (mp KJ) (mp muJ) (mp Aoinv) (nv y) i j.
Proof. c16_unfold. morph_pt. Qed.

Lemma del_cov_morph n ob KJ Aoinv i j :
  phi (del_cov n ob KJ Aoinv i j) = del_cov n ob (mp KJ) (mp Aoinv) i j.
Proof. c16_unfold. morph_pt. Qed.

Lemma masked_train_covar_morph n ob KJ S i j :
  phi (masked n n ob ob (train_covar KJ S) i j) = masked n n ob ob (train_covar (mp KJ) (mp S)) i j.
Proof. c16_unfold. morph_pt. Qed.

Lemma del_train_covar_morph n ob KJ S i j :
  phi (train_covar (KJ_del n ob KJ) (S_del n ob S) i j)
  = train_covar (KJ_del n ob (mp KJ)) (S_del n ob (mp S)) i j.
Proof. c16_unfold. morph_pt. Qed.

(* ---- the rational part of the marginal log likelihood *)
Lemma mll_quad_mask_morph n muJ Aoinv y :
  phi (mll_quad_mask n muJ Aoinv y) = mll_quad_mask n (mp muJ) (mp Aoinv) (nv y).
Proof.
  unfold mll_quad_mask. cbv zeta.
  rewrite (nobs_ext n (is_obs (offset (mp muJ) (nv y))) (is_obs (offset muJ y)))
    by (intros i; rewrite !is_obs_offset; apply is_obs_nvmap).
  rewrite (mask_rows_ext n (is_obs (offset (mp muJ) (nv y))) (is_obs (offset muJ y)))
    by (intros i; rewrite !is_obs_offset; apply is_obs_nvmap).
  unfold quad, mask_rows. morph_pt.
  all: rewrite vals_morph0; unfold vals; rewrite <- offset_morph; reflexivity.
Qed.

Lemma mll_quad_del_morph n muJ Aoinv y :
  phi (mll_quad_del n muJ Aoinv y) = mll_quad_del n (mp muJ) (mp Aoinv) (nv y).
Proof. c16_unfold. morph_pt. Qed.

(* ---- Gaussian per-point terms *)
Lemma elp_point_morph half y m v s lg :
  phi (elp_point half y m v s lg) = elp_point (phi half) (phi y) (phi m) (phi v) (phi s) (phi lg).
Proof. unfold elp_point. morph_pt. Qed.

End C16Morph.
Ltac morph_hook ::= fail.

Lemma missing_model_commutes_with_field_morphisms (K1 K2 : Fld) (phi : @car K1 -> @car K2) :
  FldMorph K1 K2 phi ->
  forall n (KJ muJ TT tm Aoinv Afinv : @M K1) (y r mc : @nvec K1) ob fv i j,
    nvmap phi (@mean_cache_mask K1 n Aoinv r) i = @mean_cache_mask K2 n (mmap phi Aoinv) (nvmap phi r) i /\
    phi (@pred_mean_mask K1 n TT tm mc i j) = @pred_mean_mask K2 n (mmap phi TT) (mmap phi tm) (nvmap phi mc) i j /\
    nvmap phi (@mean_cache_fill K1 n Afinv r fv) i
      = @mean_cache_fill K2 n (mmap phi Afinv) (nvmap phi r) (phi fv) i /\
    phi (@pred_mean_fill K1 n TT tm mc fv i j)
      = @pred_mean_fill K2 n (mmap phi TT) (mmap phi tm) (nvmap phi mc) (phi fv) i j /\
    phi (@cov_masked K1 n ob KJ Aoinv i j) = @cov_masked K2 n ob (mmap phi KJ) (mmap phi Aoinv) i j /\
    phi (@cov_filled K1 n ob KJ Afinv i j) = @cov_filled K2 n ob (mmap phi KJ) (mmap phi Afinv) i j /\
    phi (@del_mean K1 n KJ muJ Aoinv y i j)
      = @del_mean K2 n (mmap phi KJ) (mmap phi muJ) (mmap phi Aoinv) (nvmap phi y) i j /\
    phi (@del_cov K1 n ob KJ Aoinv i j) = @del_cov K2 n ob (mmap phi KJ) (mmap phi Aoinv) i j.
Proof.
  intros H n KJ muJ TT tm Aoinv Afinv y r mc ob fv i j.
  split; [apply (mean_cache_mask_morph phi)|]. split; [apply (pred_mean_mask_morph phi)|].
  split; [apply (mean_cache_fill_morph phi)|]. split; [apply (pred_mean_fill_morph phi)|].
  split; [apply (cov_masked_morph phi)|]. split; [apply (cov_filled_morph phi)|].
  split; [apply (del_mean_morph phi)|apply (del_cov_morph phi)].
Qed.

(* ---- the instance QcF -> RF on what [run_missing] / [run_fill] execute ---------------------- *)
Definition nvR (v : @nvec QcF) : @nvec RF := @nvmap QcF RF Q2R' v.

(* Whenever the wrapper gets past the certificate check of the masked train covariance, the inverse
   it used maps to a real inverse of the real masked train covariance, and what it prints under
   'mask' - the mean read back through the NaN pattern of the cache, the masked covariance - is,
   read as reals, the real-number posterior of the real-number data set with the NaN rows DELETED,
   computed with ANY real inverse AoR; the rational part of the masked log marginal is the real one. *)
Lemma executed_mask_is_real_deletion n t (KJ muJ S : @M QcF) (y : @nvec QcF) Aoinv :
  let ob := is_obs y in let k := nobs n ob in
  inv_checked k (mat k k (masked n n ob ob (train_covar KJ S))) = Some Aoinv ->
  is_inverse k (masked n n ob ob (@train_covar RF (mapR KJ) (mapR S))) (mapR Aoinv) /\
  Q2R' (det k (mat k k (masked n n ob ob (train_covar KJ S))))
    = det k (masked n n ob ob (@train_covar RF (mapR KJ) (mapR S))) /\
  Q2R' (mll_quad_mask n muJ Aoinv y) = @mll_quad_del RF n (mapR muJ) (mapR Aoinv) (nvR y) /\
  forall AoR : @M RF, is_inverse k (masked n n ob ob (@train_covar RF (mapR KJ) (mapR S))) AoR ->
    meq t 1 (mapR (pred_mean_mask n (Ksx n KJ) (sub n 0 muJ) (mean_cache_mask n Aoinv (offset muJ y))))
            (@del_mean RF n (mapR KJ) (mapR muJ) AoR (nvR y)) /\
    meq t t (mapR (cov_masked n ob KJ Aoinv)) (@del_cov RF n ob (mapR KJ) AoR) /\
    meq t 1 (mapR (del_mean n KJ muJ Aoinv y)) (@del_mean RF n (mapR KJ) (mapR muJ) AoR (nvR y)) /\
    meq t t (mapR (del_cov n ob KJ Aoinv)) (@del_cov RF n ob (mapR KJ) AoR).
Proof.
  intros ob k Hc. apply inv_checked_sound in Hc.
  assert (HA : is_inverse k (masked n n ob ob (train_covar KJ S)) Aoinv).
  { eapply is_inverse_compat; [apply mat_meq|exact Hc]. }
  assert (HR : is_inverse k (masked n n ob ob (@train_covar RF (mapR KJ) (mapR S))) (mapR Aoinv)).
  { apply (@morph_inverse_of QcF RF Q2R' _ k _ _ _ HA). intros i j _ _.
    apply (@masked_train_covar_morph QcF RF Q2R' _). }
  split; [exact HR|]. split; [|split].
  - rewrite (@phi_det QcF RF Q2R' _). apply (@Det.det_ext RF). intros i j Hi Hj. unfold mmap.
    rewrite (mat_meq k k _ i j Hi Hj). apply (@masked_train_covar_morph QcF RF Q2R' _).
  - rewrite (proj1 (mll_mask_is_deletion n KJ muJ S Aoinv y)).
    apply (@mll_quad_del_morph QcF RF Q2R' _).
  - intros AoR HoR.
    assert (HE : meq k k (mapR Aoinv) AoR) by (apply (inverse_unique k _ _ _ HR HoR)).
    assert (Hk : nobs n (is_obs (nvR y)) = k) by (apply (@nobs_nvmap QcF RF Q2R')).
    assert (Hdm : meq t 1 (mapR (del_mean n KJ muJ Aoinv y)) (@del_mean RF n (mapR KJ) (mapR muJ) AoR (nvR y))).
    { transitivity (@del_mean RF n (mapR KJ) (mapR muJ) (mapR Aoinv) (nvR y)).
      - intros i j _ _. apply (@del_mean_morph QcF RF Q2R' _).
      - unfold del_mean. cbv zeta. apply post_mean_inv_irrelevant. rewrite Hk. exact HE. }
    assert (Hdc : meq t t (mapR (del_cov n ob KJ Aoinv)) (@del_cov RF n ob (mapR KJ) AoR)).
    { transitivity (@del_cov RF n ob (mapR KJ) (mapR Aoinv)).
      - intros i j _ _. apply (@del_cov_morph QcF RF Q2R' _).
      - unfold del_cov. apply post_cov_inv_irrelevant. exact HE. }
    split; [|split; [|split; [exact Hdm|exact Hdc]]].
    + transitivity (mapR (del_mean n KJ muJ Aoinv y)); [|exact Hdm].
      apply (@mmap_meq QcF RF Q2R'). apply mask_mean_is_deletion.
    + transitivity (mapR (del_cov n ob KJ Aoinv)); [|exact Hdc].
      apply (@mmap_meq QcF RF Q2R'). apply mask_cov_is_deletion.
Qed.

(* the same for 'fill' (any fill values): mean and covariance as coded are the real deletion posterior *)
Lemma executed_fill_is_real_deletion n t (KJ muJ S : @M QcF) (y : @nvec QcF) Aoinv Afinv fv fv' :
  let ob := is_obs y in let k := nobs n ob in
  inv_checked k (mat k k (masked n n ob ob (train_covar KJ S))) = Some Aoinv ->
  inv_checked n (mat n n (fill_kernel ob (train_covar KJ S))) = Some Afinv ->
  is_inverse n (fill_kernel ob (@train_covar RF (mapR KJ) (mapR S))) (mapR Afinv) /\
  forall AoR : @M RF, is_inverse k (masked n n ob ob (@train_covar RF (mapR KJ) (mapR S))) AoR ->
    meq t 1 (mapR (pred_mean_fill n (Ksx n KJ) (sub n 0 muJ) (mean_cache_fill n Afinv (offset muJ y) fv) fv'))
            (@del_mean RF n (mapR KJ) (mapR muJ) AoR (nvR y)) /\
    meq t t (mapR (cov_filled n ob KJ Afinv)) (@del_cov RF n ob (mapR KJ) AoR).
Proof.
  intros ob k Hc Hf.
  destruct (executed_mask_is_real_deletion n t KJ muJ S y Aoinv Hc) as [HR [_ [_ Hall]]].
  apply inv_checked_sound in Hc. apply inv_checked_sound in Hf.
  assert (HA : is_inverse k (masked n n ob ob (train_covar KJ S)) Aoinv).
  { eapply is_inverse_compat; [apply mat_meq|exact Hc]. }
  assert (HF : is_inverse n (fill_kernel ob (train_covar KJ S)) Afinv).
  { eapply is_inverse_compat; [apply mat_meq|exact Hf]. }
  split.
  - apply (@morph_inverse_of QcF RF Q2R' _ n _ _ _ HF). intros i j _ _.
    unfold mmap. rewrite (@fill_kernel_morph QcF RF Q2R' _). unfold fill_kernel, mmap.
    rewrite !(@train_covar_morph QcF RF Q2R' _). reflexivity.
  - intros AoR HoR. destruct (Hall AoR HoR) as [_ [_ [Hdm Hdc]]]. split.
    + transitivity (mapR (del_mean n KJ muJ Aoinv y)); [|exact Hdm].
      apply (@mmap_meq QcF RF Q2R'). apply (fill_mean_is_deletion n t KJ muJ S); assumption.
    + transitivity (mapR (del_cov n ob KJ Aoinv)); [|exact Hdc].
      apply (@mmap_meq QcF RF Q2R'). apply (fill_cov_is_deletion n t ob KJ S); assumption.
Qed.

(* non-vacuity: the witness data of Proofs/C16_missing.v (one NaN among two targets) passes both checks *)
Lemma ex_executed_missing_hyp :
  (exists Aoinv, inv_checked (nobs 2 (is_obs wit_y))
     (mat (nobs 2 (is_obs wit_y)) (nobs 2 (is_obs wit_y))
        (masked 2 2 (is_obs wit_y) (is_obs wit_y) (train_covar wit_KJ wit_S))) = Some Aoinv) /\
  (exists Afinv, inv_checked 2 (mat 2 2 (fill_kernel (is_obs wit_y) (train_covar wit_KJ wit_S))) = Some Afinv).
Proof.
  split.
  - destruct (inv_checked _ _) as [a|] eqn:E; [exists a; reflexivity|]. vm_compute in E. discriminate.
  - destruct (inv_checked _ _) as [a|] eqn:E; [exists a; reflexivity|]. vm_compute in E. discriminate.
Qed.
