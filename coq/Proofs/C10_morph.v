(* C10: the executed KL / log-density terms (exact rationals + ELog nodes of determinants) denote the
   real-number KL / log density of the mapped inputs, so the theorems over RF (c10_kl_nonnegative, ...)
   are statements about the EXECUTED quantity.  Generic part over a field morphism; instance Q2R'. *)
From Coq Require Import Arith List Bool ZArith QArith Qcanon Reals Lra Lia.
From GPV Require Import Base.LinAlg Base.Exec Base.Expr Base.Det Base.Morph Base.Psd Base.Cholesky
  Models.C10_mvn Proofs.C10_mvn Proofs.C10_kl Proofs.C10_det Proofs.C10_kl_pd.
Import ListNotations.

Section C10Morph.
Context {K1 K2 : Fld} (phi : @car K1 -> @car K2) {HM : FldMorph K1 K2 phi}.
Local Notation mp := (mmap phi).

Ltac c10_unfold :=
  unfold kl_rational, affine_mean, affine_cov, mul_mean, mul_cov, div_mean, div_cov, sum_mean, sum_cov,
    jitter_cov, rsample_base, add_scalar_mean, getitem_mean, getitem_cov, selmat in *;
  unfold trace, nat_f, quad, mmap in *.

Lemma nat_f_morph n : phi (nat_f n) = nat_f n.
Proof. c10_unfold. morph_pt. Qed.
Lemma trace_morph n A : phi (trace n A) = trace n (mp A).
Proof. c10_unfold. morph_pt. Qed.
Lemma quad_morph n Ai r : phi (quad n Ai r) = quad n (mp Ai) (mp r).
Proof. c10_unfold. morph_pt. Qed.
Lemma kl_rational_morph n m P q Qi :
  phi (kl_rational n m P q Qi) = kl_rational n (mp m) (mp P) (mp q) (mp Qi).
Proof. c10_unfold. morph_pt. Qed.
Lemma affine_mean_morph n A b m i j :
  phi (affine_mean n A b m i j) = affine_mean n (mp A) (mp b) (mp m) i j.
Proof. c10_unfold. morph_pt. Qed.
Lemma affine_cov_morph n A C i j : phi (affine_cov n A C i j) = affine_cov n (mp A) (mp C) i j.
Proof. c10_unfold. morph_pt. Qed.
Lemma selmat_morph p i j : phi (selmat p i j) = selmat p i j.
Proof. c10_unfold. morph_pt. Qed.
Lemma getitem_cov_morph p C i j : phi (getitem_cov p C i j) = getitem_cov p (mp C) i j.
Proof. reflexivity. Qed.
Lemma getitem_mean_morph p m i j : phi (getitem_mean p m i j) = getitem_mean p (mp m) i j.
Proof. reflexivity. Qed.
Lemma mul_cov_morph c C i j : phi (mul_cov c C i j) = mul_cov (phi c) (mp C) i j.
Proof. c10_unfold. morph_pt. Qed.
Lemma div_mean_morph c m i j : phi (div_mean c m i j) = div_mean (phi c) (mp m) i j.
Proof. c10_unfold. morph_pt. Qed.
Lemma div_cov_morph c C i j : phi (div_cov c C i j) = div_cov (phi c) (mp C) i j.
Proof. c10_unfold. morph_pt. Qed.
Lemma jitter_cov_morph e C i j : phi (jitter_cov e C i j) = jitter_cov (phi e) (mp C) i j.
Proof. c10_unfold. morph_pt. Qed.
Lemma rsample_base_morph r m L e i j :
  phi (rsample_base r m L e i j) = rsample_base r (mp m) (mp L) (mp e) i j.
Proof. c10_unfold. morph_pt. Qed.

End C10Morph.

(* ---- the instance QcF -> RF ---------------------------------------------------------------- *)
Local Open Scope R_scope.

(* the term [run_kl] prints (named; [run_kl_unfold] below shows it is literally that term) *)
Definition kl_expr_Qc (n : nat) (mp P mq Q Qi : @M QcF) : expr :=
  EMul (EConst (qc 1 2))
    (EAdd (ESub (ELog (EConst (det n Q))) (ELog (EConst (det n P))))
          (EConst (kl_rational n mp P mq Qi))).

(* KL(N(mp,P) || N(mq,Q)) over the reals, in the model's own form *)
Definition kl_R (n : nat) (mp P mq Q Qi : @M RF) : R :=
  / 2 * (@kl_rational RF n mp P mq Qi + ln (@det RF n Q) - ln (@det RF n P)).

Lemma run_kl_unfold n mp cp mq cq :
  run_kl (n, mp, cp, mq, cq) =
  match inv_checked n (mat n n (@of_list QcF cq)) with
  | None => [0%Z]
  | Some Qi => 1%Z :: ser_expr (kl_expr_Qc n (@vec_of_list QcF mp) (@of_list QcF cp)
                                  (@vec_of_list QcF mq) (@of_list QcF cq) Qi)
  end.
Proof. reflexivity. Qed.

Theorem den_kl_expr_Qc n (mp P mq Q Qi : @M QcF) :
  den (kl_expr_Qc n mp P mq Q Qi) = kl_R n (mapR mp) (mapR P) (mapR mq) (mapR Q) (mapR Qi).
Proof.
  unfold kl_expr_Qc, kl_R. cbn [den]. rewrite Q2R'_qc_lit.
  rewrite !(@phi_det QcF RF Q2R' _), (@kl_rational_morph QcF RF Q2R' _).
  fold (mapR mp) (mapR P) (mapR mq) (mapR Q) (mapR Qi). lra.
Qed.

(* the log density [run_logprob] prints *)
Definition logprob_expr_Qc (n : nat) (C Ci r : @M QcF) : expr :=
  EMul (EConst (qc (-1) 2))
    (EAdd (EAdd (EConst (quad n Ci r)) (ELog (EConst (det n C))))
          (EMul (EConst (qc (Z.of_nat n) 1)) (ELog two_pi))).
Lemma run_logprob_unfold n m cv v :
  run_logprob (n, m, cv, v) =
  match inv_checked n (mat n n (@of_list QcF cv)) with
  | None => [0%Z]
  | Some Ci => 1%Z :: ser_expr (logprob_expr_Qc n (@of_list QcF cv) Ci
                                  (msub (@vec_of_list QcF v) (@vec_of_list QcF m)))
  end.
Proof. reflexivity. Qed.
Theorem den_logprob_expr_Qc n (C Ci r : @M QcF) :
  den (logprob_expr_Qc n C Ci r)
  = - / 2 * (@quad RF n (mapR Ci) (mapR r) + ln (@det RF n (mapR C)) + INR n * ln (2 * PI)).
Proof.
  unfold logprob_expr_Qc, two_pi. cbn [den]. rewrite !Q2R'_qc_lit.
  rewrite (@phi_det QcF RF Q2R' _), (@quad_morph QcF RF Q2R' _).
  fold (mapR Ci) (mapR r) (mapR C). rewrite INR_IZR_INZ. replace (2 / 1 * PI) with (2 * PI) by lra. field.
Qed.

(* Whenever [run_kl] passes its certificate check, the inverse maps to a real inverse of the real Q and
   the printed term denotes the real KL of the real images.  Hence:
   (a) if the real images of P and Q are symmetric positive definite, both printed determinants are
       positive (the ELog nodes are well defined) and the executed KL is >= 0;
   (b) the same under the hypotheses of c10_kl_nonnegative (Cholesky factors over R). *)
Lemma executed_kl_is_real_kl n (mp P mq Q Qi : @M QcF) :
  inv_checked n (mat n n Q) = Some Qi ->
  is_inverse n (mapR Q) (mapR Qi) /\
  den (kl_expr_Qc n mp P mq Q Qi) = kl_R n (mapR mp) (mapR P) (mapR mq) (mapR Q) (mapR Qi) /\
  (forall QiR : @M RF, is_inverse n (mapR Q) QiR ->
     den (kl_expr_Qc n mp P mq Q Qi) = kl_R n (mapR mp) (mapR P) (mapR mq) (mapR Q) QiR).
Proof.
  intros Hc. apply inv_checked_sound in Hc.
  assert (HI : is_inverse n (mapR Q) (mapR Qi)).
  { apply (@morph_inverse_of QcF RF Q2R' _ n (mat n n Q) Qi (mapR Q) Hc).
    apply (@mmap_meq QcF RF Q2R'). apply mat_meq. }
  split; [exact HI|]. split; [apply den_kl_expr_Qc|].
  intros QiR HR. rewrite den_kl_expr_Qc. unfold kl_R, kl_rational. do 5 f_equal.
  - unfold trace. apply sum_ext. intros i Hi.
    apply (@mmul_compat_l RF n n n (mapR Qi) QiR (mapR P)); try assumption.
    apply (inverse_unique n _ _ _ HI HR).
  - apply (quad_inverse_irrelevant n (mapR Q)); assumption.
Qed.

Lemma executed_kl_nonneg_pd n (mp P mq Q Qi : @M QcF) :
  inv_checked n (mat n n Q) = Some Qi ->
  @symmetric RF n (mapR P) -> @PD RF ROrd n (mapR P) ->
  @symmetric RF n (mapR Q) -> @PD RF ROrd n (mapR Q) ->
  0 < Q2R' (det n P) /\ 0 < Q2R' (det n Q) /\ 0 <= den (kl_expr_Qc n mp P mq Q Qi).
Proof.
  intros Hc HSP HPP HSQ HPQ. destruct (executed_kl_is_real_kl n mp P mq Q Qi Hc) as [HI [Hd _]].
  destruct (kl_nonneg_pd n (mapR mp) (mapR mq) (mapR P) (mapR Q) (mapR Qi) HSP HPP HSQ HPQ HI)
    as (H1 & H2 & H3).
  rewrite !(@phi_det QcF RF Q2R' _). split; [exact H1|]. split; [exact H2|].
  rewrite Hd. unfold kl_R. lra.
Qed.

Lemma executed_kl_nonneg_cholesky n (mp P mq Q Qi : @M QcF) (Lp Lq Li : @M RF) :
  inv_checked n (mat n n Q) = Some Qi ->
  tri_lower n Lp -> tri_lower n Lq ->
  (forall i, (i < n)%nat -> 0 < Lp i i) -> (forall i, (i < n)%nat -> 0 < Lq i i) ->
  is_inverse n Lq Li ->
  meq n n (mmul n Lp (mT Lp)) (mapR P) -> meq n n (mmul n Lq (mT Lq)) (mapR Q) ->
  0 < Q2R' (det n P) /\ 0 < Q2R' (det n Q) /\ 0 <= den (kl_expr_Qc n mp P mq Q Qi).
Proof.
  intros Hc H1 H2 H3 H4 H5 H6 H7. destruct (executed_kl_is_real_kl n mp P mq Q Qi Hc) as [HI [Hd _]].
  destruct (kl_nonneg_det n (mapR mp) (mapR mq) (mapR P) (mapR Q) (mapR Qi) Lp Lq Li H1 H2 H3 H4 H5 H6 H7 HI)
    as (G1 & G2 & G3).
  rewrite !(@phi_det QcF RF Q2R' _). split; [exact G1|]. split; [exact G2|].
  rewrite Hd. unfold kl_R. lra.
Qed.

(* non-vacuity: P = Q = [[2,1],[1,2]] on rationals (real image: Base/Cholesky.v's exPD) *)
Definition exq_P : @M QcF := @of_list QcF [[qc 2 1; qc 1 1]; [qc 1 1; qc 2 1]].
Lemma ex_executed_kl_hyps :
  (exists Qi, inv_checked 2 (mat 2 2 exq_P) = Some Qi) /\
  @symmetric RF 2 (mapR exq_P) /\ @PD RF ROrd 2 (mapR exq_P).
Proof.
  split.
  { destruct (inv_checked 2 (mat 2 2 exq_P)) as [a|] eqn:E; [exists a; reflexivity|].
    vm_compute in E. discriminate. }
  assert (E : @meq RF 2 2 exPD (mapR exq_P)).
  { intros i j Hi Hj. unfold mapR, mmap, exPD.
    destruct i as [|[|i]]; destruct j as [|[|j]]; try lia;
      unfold exq_P, of_list; cbn [nth Nat.eqb]; rewrite Q2R'_qc_lit; lra. }
  destruct ex_pd_hyps_hold as [H1 H2]. split.
  - intros i j Hi Hj. unfold mT. rewrite <- !E by assumption. apply H1; assumption.
  - apply (@PD_meq RF ROrd 2 exPD _ E H2).
Qed.
