(* C15 proofs: completing the square in the variational mean - the m-dependent part of the full-batch
   ELBO is maximised exactly at the posterior mean of u (gap = sum of two quadratic forms). *)
From Coq Require Import Arith Lia Ring Field Setoid Morphisms List.
From GPV Require Import Base.LinAlg Base.Exec Models.C14_variational Models.C02_mll Proofs.C02_mll Models.C15_elbo Proofs.C15_elbo.
Import ListNotations.

Section Gap.
Context {K : Fld}.
Add Field Ff_c15gap : (@FT K).
Local Open Scope fld_scope.

(* a^T X b for column vectors a (n), b (m) *)
Definition bil (n m : nat) (X a b : M) : car := sum n (fun i => a i O * mmul m X b i O).

Lemma quadf_bil n X a : quadf n X a = bil n n X a a.
Proof. reflexivity. Qed.

Lemma bil_ext n m X a a' b b' : meq n 1 a a' -> meq m 1 b b' -> bil n m X a b = bil n m X a' b'.
Proof.
  intros Ha Hb. unfold bil. apply sum_ext. intros i Hi. rewrite (Ha i O Hi ltac:(lia)). f_equal.
  unfold mmul. apply sum_ext. intros j Hj. rewrite (Hb j O Hj ltac:(lia)). reflexivity.
Qed.

Lemma bil_sub_l n m X a b c : bil n m X (msub a b) c = bil n m X a c - bil n m X b c.
Proof. unfold bil. rewrite <- sum_sub. apply sum_ext. intros i _. unfold msub. ring. Qed.
Lemma bil_add_l n m X a b c : bil n m X (madd a b) c = bil n m X a c + bil n m X b c.
Proof. unfold bil. rewrite <- sum_add. apply sum_ext. intros i _. unfold madd. ring. Qed.
Lemma bil_sub_r n m X a b c : bil n m X a (msub b c) = bil n m X a b - bil n m X a c.
Proof.
  unfold bil. rewrite <- sum_sub. apply sum_ext. intros i Hi.
  rewrite (mmul_sub_distr_l n 1 m X b c i O Hi ltac:(lia)). unfold msub. ring.
Qed.
Lemma bil_add_r n m X a b c : bil n m X a (madd b c) = bil n m X a b + bil n m X a c.
Proof.
  unfold bil. rewrite <- sum_add. apply sum_ext. intros i Hi.
  rewrite (mmul_add_distr_l n 1 m X b c i O Hi ltac:(lia)). unfold madd. ring.
Qed.

Lemma bil_sym n X a b : symmetric n X -> bil n n X a b = bil n n X b a.
Proof.
  intros HS. unfold bil, mmul. rewrite sum_swap_mul. apply sum_ext. intros j Hj.
  rewrite <- sum_scale_l. apply sum_ext. intros i Hi. rewrite (HS i j Hi Hj). unfold mT. ring.
Qed.

(* a^T X (C h) = a^T (X C) h *)
Lemma bil_Cr n m X C a h : bil n n X a (mmul m C h) = bil n m (mmul n X C) a h.
Proof. unfold bil. apply sum_ext. intros i _. f_equal. symmetry. apply mmul_assoc_pt. Qed.

(* (C h)^T y = h^T (C^T y)  as sums *)
Lemma dot_Cl n m C h y : sum n (fun i => mmul m C h i O * y i O) = sum m (fun l => h l O * mmul n (mT C) y l O).
Proof.
  unfold mmul, mT.
  rewrite (sum_ext n _ (fun i => sum m (fun l => C i l * h l O * y i O))) by (intros; symmetry; apply sum_scale_r).
  rewrite sum_swap. apply sum_ext. intros l _. rewrite <- sum_scale_l. apply sum_ext. intros i _. ring.
Qed.

Section Main.
Variables (m n : nat) (Kinv Kzx Di mz r : M).
Hypothesis HKs : symmetric m Kinv.
Hypothesis HDs : symmetric n Di.
Hypothesis H2 : (1 + 1 : car) <> 0.

Let C := mmul m (mT Kzx) Kinv.                  (* n x m:  Kxz Kzz^-1 *)
Let E (d : M) : M := msub r (mmul m C d).

Lemma mean_part_bil mq :
  elbo_mean_part m n Kinv Kzx Di mz r mq
  = - (bil n n Di (E (msub mq mz)) (E (msub mq mz)) + bil m m Kinv (msub mq mz) (msub mq mz)) / (1 + 1).
Proof.
  unfold elbo_mean_part. rewrite !quadf_bil.
  rewrite (bil_ext n n Di _ (E (msub mq mz)) _ (E (msub mq mz))); [reflexivity| |].
  - intros i j Hi Hj. unfold E, msub. f_equal. symmetry. apply mmul_assoc_pt.
  - intros i j Hi Hj. unfold E, msub. f_equal. symmetry. apply mmul_assoc_pt.
Qed.

(* stationarity at ds, as an identity of linear forms *)
Definition stationary (ds : M) : Prop := meq m 1 (mmul n (mT C) (mmul n Di (E ds))) (mmul m Kinv ds).

Lemma stationary_linear ds h : stationary ds ->
  bil n n Di (E ds) (mmul m C h) = bil m m Kinv ds h.
Proof.
  intros Hst.
  rewrite (bil_sym n Di _ _ HDs). rewrite (bil_sym m Kinv _ _ HKs).
  unfold bil at 1. rewrite (dot_Cl n m C h (mmul n Di (E ds))).
  unfold bil. apply sum_ext. intros l Hl. f_equal. apply (Hst l O Hl). lia.
Qed.

(* P ds = theta  (the natural-parameter equation of the exact posterior)  implies stationarity *)
Lemma stationary_of_natural ds :
  meq m 1 (mmul m (post_precision m n Kinv Kzx Di) ds) (opt_theta m n Kinv Kzx Di r) -> stationary ds.
Proof.
  intros HP. unfold stationary.
  set (Kxz := mT Kzx).
  set (v := mmul m Kinv ds).
  set (T := mmul m Kinv (mmul n Kzx (mmul n Di (mmul m Kxz v)))).
  (* P ds = Kinv ds + T *)
  assert (E1 : meq m 1 (mmul m (post_precision m n Kinv Kzx Di) ds) (madd v T)).
  { unfold post_precision. fold Kxz. set (W := mmul n Kzx (mmul n Di Kxz)).
    etransitivity; [apply mmul_add_distr_r|]. apply madd_compat; [reflexivity|].
    transitivity (mmul m Kinv (mmul m (mmul m W Kinv) ds)); [apply mmul_assoc|].
    unfold T. apply mmul_compat_r.
    transitivity (mmul m W v); [apply mmul_assoc|].
    unfold W. transitivity (mmul n Kzx (mmul m (mmul n Di Kxz) v)); [apply mmul_assoc|].
    apply mmul_compat_r. apply mmul_assoc. }
  (* C^T = Kinv Kzx *)
  assert (E2 : meq m n (mT C) (mmul m Kinv Kzx)).
  { unfold C. transitivity (mmul m (mT Kinv) (mT (mT Kzx))); [apply mT_mmul|].
    apply mmul_compat; [symmetry; exact HKs|apply mT_mT]. }
  (* C ds = Kxz v *)
  assert (E3 : meq n 1 (mmul m C ds) (mmul m Kxz v)).
  { unfold C, v. fold Kxz. apply mmul_assoc. }
  (* C^T Di (r - C ds) = theta - T *)
  assert (E4 : meq m 1 (mmul n (mT C) (mmul n Di (E ds))) (msub (opt_theta m n Kinv Kzx Di r) T)).
  { unfold E.
    transitivity (mmul n (mmul m Kinv Kzx) (msub (mmul n Di r) (mmul n Di (mmul m Kxz v)))).
    { apply mmul_compat; [exact E2|].
      etransitivity; [apply mmul_sub_distr_l|]. apply msub_compat; [reflexivity|].
      apply mmul_compat_r. exact E3. }
    etransitivity; [apply mmul_sub_distr_l|]. apply msub_compat.
    - unfold opt_theta. apply mmul_assoc.
    - unfold T. apply mmul_assoc. }
  intros i j Hi Hj. rewrite (E4 i j Hi Hj). unfold msub.
  rewrite <- (HP i j Hi Hj), (E1 i j Hi Hj). unfold madd. fold v. ring.
Qed.

(* completing the square: the gap to a stationary point is a sum of two quadratic forms *)
Lemma elbo_mean_gap ms mq : stationary (msub ms mz) ->
  elbo_mean_part m n Kinv Kzx Di mz r ms - elbo_mean_part m n Kinv Kzx Di mz r mq
  = (quadf n Di (mmul m C (msub mq ms)) + quadf m Kinv (msub mq ms)) / (1 + 1).
Proof.
  intros Hst. rewrite !mean_part_bil, !quadf_bil.
  set (ds := msub ms mz) in *. set (d := msub mq mz). set (h := msub mq ms).
  assert (Hd : meq m 1 d (madd ds h)) by (intros i j _ _; unfold d, ds, h, madd, msub; ring).
  assert (HE : meq n 1 (E d) (msub (E ds) (mmul m C h))).
  { intros i j Hi Hj. unfold E, msub.
    rewrite (mmul_compat_r n m 1 C d _ Hd i j Hi Hj).
    rewrite (mmul_add_distr_l n 1 m C ds h i j Hi Hj). unfold madd. ring. }
  rewrite (bil_ext n n Di (E d) _ (E d) _ HE HE).
  rewrite (bil_ext m m Kinv d _ d _ Hd Hd).
  rewrite bil_sub_l, !bil_sub_r, bil_add_l, !bil_add_r.
  rewrite (bil_sym n Di (mmul m C h) (E ds) HDs).
  rewrite (bil_sym m Kinv h ds HKs).
  rewrite (stationary_linear ds h Hst).
  field. exact H2.
Qed.

End Main.

(* the optimal mean m* = mz + Kzz Sigma^-1 Kzx D^-1 (y - mx) maximises the mean part: for every mq the
   gap is 1/2 [ (C h)^T D^-1 (C h) + h^T Kzz^-1 h ],  h = mq - m*,  C = Kxz Kzz^-1 *)
Lemma elbo_mean_gap_opt m n Kzz Kinv Kzx Di Si mz r mq :
  symmetric m Kzz -> symmetric n Di -> (1 + 1 : car) <> 0 ->
  is_inverse m Kzz Kinv -> is_inverse m (opt_Sigma n Kzz Kzx Di) Si ->
  let ms := opt_mean m n Kzz Kzx Di Si mz r in
  elbo_mean_part m n Kinv Kzx Di mz r ms - elbo_mean_part m n Kinv Kzx Di mz r mq
  = (quadf n Di (mmul m (mmul m (mT Kzx) Kinv) (msub mq ms)) + quadf m Kinv (msub mq ms)) / (1 + 1).
Proof.
  intros HKz HDs H2 HK HS ms.
  assert (HKs : symmetric m Kinv) by (apply (inverse_symmetric m Kzz); assumption).
  apply (elbo_mean_gap m n Kinv Kzx Di mz r HKs HDs H2 ms mq).
  apply (stationary_of_natural m n Kinv Kzx Di r HKs).
  apply (opt_mean_natural m n Kzz Kinv Kzx Di Si HK HS).
Qed.

End Gap.

(* over R: with D^-1 and Kzz^-1 positive semi-definite the mean part of the ELBO is maximal at m* *)
From Coq Require Import Reals Lra.
From GPV Require Import Base.Expr.
Local Open Scope R_scope.

Lemma elbo_mean_maximal m n (Kzz Kinv Kzx Di Si mz r mq : @M RF) :
  @symmetric RF m Kzz -> @symmetric RF n Di ->
  @is_inverse RF m Kzz Kinv -> @is_inverse RF m (@opt_Sigma RF n Kzz Kzx Di) Si ->
  (forall x : @M RF, 0 <= @quadf RF n Di x) -> (forall x : @M RF, 0 <= @quadf RF m Kinv x) ->
  @elbo_mean_part RF m n Kinv Kzx Di mz r mq
  <= @elbo_mean_part RF m n Kinv Kzx Di mz r (@opt_mean RF m n Kzz Kzx Di Si mz r).
Proof.
  intros HKz HDs HK HS PD PK.
  assert (H2 : (@fadd RF (@f1 RF) (@f1 RF)) <> (@f0 RF)) by (cbn; lra).
  pose proof (@elbo_mean_gap_opt RF m n Kzz Kinv Kzx Di Si mz r mq HKz HDs H2 HK HS) as G.
  cbv zeta in G. cbn [fadd fsub fdiv f1 RF] in G.
  set (ms := @opt_mean RF m n Kzz Kzx Di Si mz r) in *.
  pose proof (PD (@mmul RF m (@mmul RF m (@mT RF Kzx) Kinv) (@msub RF mq ms))) as P1.
  pose proof (PK (@msub RF mq ms)) as P2.
  lra.
Qed.

