(* C13 / C12 / C15 speak about the same Gaussian expectation of a polynomial:
     C13  normal_expect m v p       (standard-normal moment functional on p(sqrt v z + m))
     C13  normal_expect_var m v p   (recurrence M_0 = 1, M_1 = m, M_(k+2) = m M_(k+1) + (k+1) v M_k)
     C15  expect_poly m v p         (the same recurrence written with C02's of_nat)
     C12  E2 m v (c0, c1, c2)       (c0 + c1 m + c2 (m^2 + v), degree <= 2 only)
   and, as a corollary, every Gauss-Hermite node set that meets the premise of the C13 exactness
   theorem for some D >= 3 reproduces the closed form of GaussianLikelihood.expected_log_prob
   (C12 elp_expr / C15 ell_rat) exactly. *)
From Coq Require Import Arith Lia List Ring Field Reals Lra QArith Qcanon.
From GPV Require Import Base.LinAlg Base.Exec Base.Expr.
From GPV Require Import Models.C13_quadrature Proofs.C13_quadrature Proofs.C13_moments.
From GPV Require Import Models.C12_noise Proofs.C12_noise.
From GPV Require Import Models.C02_mll Proofs.C02_mll Models.C15_elbo Proofs.C15_elbo Proofs.C15_real.
Import ListNotations.

(* ---------------------------------------------------------------- C15 <-> C13, every field *)
Section Generic.
Context {K : Fld}.
Add Field Ff_c13t : (@FT K).
Local Open Scope fld_scope.

Lemma of_nat_nat2f n : C02_mll.of_nat n = nat2f n.
Proof.
  unfold C02_mll.of_nat. induction n as [|n IH]; cbn [sum nat2f]; [reflexivity|].
  rewrite IH. reflexivity.
Qed.

Lemma gmoments_nmom_pair m v k : gmoments m v k = nmom_pair m v k.
Proof.
  induction k as [|k IH]; cbn [gmoments nmom_pair]; [reflexivity|].
  rewrite IH. destruct (nmom_pair m v k) as [a b]. rewrite of_nat_nat2f. reflexivity.
Qed.

Lemma expect_poly_from_nexp m v p : forall k, expect_poly_from m v k p = nexp_from m v k p.
Proof.
  induction p as [|c p IH]; intros k; cbn [expect_poly_from nexp_from]; [reflexivity|].
  rewrite IH. unfold gmoment, nmom. rewrite gmoments_nmom_pair. reflexivity.
Qed.

(* C15's expectation of a polynomial is C13's (recurrence form), every degree *)
Theorem expect_poly_is_normal_expect_var m v p : expect_poly m v p = normal_expect_var m v p.
Proof. apply expect_poly_from_nexp. Qed.

(* ... and C13's binomial form with v = sd^2 *)
Theorem expect_poly_is_normal_expect_sd m sd p :
  expect_poly m (sd * sd) p = normal_expect_sd m sd p.
Proof. rewrite expect_poly_is_normal_expect_var. symmetry. apply normal_expect_sd_is_var. Qed.

End Generic.

(* ---------------------------------------------------------------- over R *)
Local Open Scope R_scope.

(* C12's functional on degree-<= 2 polynomials is C13's expectation *)
Theorem E2_is_normal_expect (m v c0 c1 c2 : R) : 0 <= v ->
  E2 m v (c0, c1, c2) = normal_expect m v [c0; c1; c2].
Proof.
  intros Hv. rewrite normal_expect_is_var by exact Hv.
  rewrite (@normal_expect_var_deg2 RF). reflexivity.
Qed.

(* the same for coefficient lists of any length <= 3 (missing coefficients are 0) *)
Theorem normal_expect_deg_le2 (m v : R) (p : list R) : 0 <= v -> (length p <= 3)%nat ->
  normal_expect m v p = E2 m v (nth 0 p 0, nth 1 p 0, nth 2 p 0).
Proof.
  intros Hv Hl. rewrite normal_expect_is_var by exact Hv.
  destruct p as [|c0 [|c1 [|c2 [|c3 p]]]]; cbn [length] in Hl; try lia; cbn [nth]; unfold E2.
  - rewrite (@normal_expect_var_nil RF). cbn [f0 RF]. ring.
  - rewrite (@normal_expect_var_deg0 RF). ring.
  - rewrite (@normal_expect_var_deg1 RF). cbn [fadd fmul RF]. ring.
  - rewrite (@normal_expect_var_deg2 RF). cbn [fadd fmul RF]. ring.
Qed.

(* C15's functional on the same polynomials *)
Theorem E2_is_expect_poly (m v c0 c1 c2 : R) :
  E2 m v (c0, c1, c2) = @expect_poly RF m v [c0; c1; c2].
Proof.
  rewrite (@expect_poly_is_normal_expect_var RF), (@normal_expect_var_deg2 RF). reflexivity.
Qed.

(* the Gaussian log density as a polynomial in f: C12's triple and C15's list coincide *)
Definition poly2_list (p : poly2) : list R := let '(c0, c1, c2) := p in [c0; c1; c2].

Lemma peval2_peval p f : peval2 p f = @peval RF (poly2_list p) f.
Proof. destruct p as [[c0 c1] c2]. unfold peval2, poly2_list. cbn [peval fadd fmul f0 RF]. ring. Qed.

Lemma loglik_poly_is_gauss_loglik_poly (y r : R) : r <> 0 ->
  poly2_list (loglik_poly y r)
  = @gauss_loglik_poly RF (- / 2 * ln r - / 2 * ln (2 * PI)) y r.
Proof.
  intros Hr. unfold loglik_poly, poly2_list, gauss_loglik_poly.
  cbn [fadd fsub fmul fdiv fopp f1 RF].
  apply f_equal2; [field; exact Hr|]. apply f_equal2; [reflexivity|].
  apply f_equal2; [field; exact Hr|reflexivity].
Qed.

(* the three expectations of the Gaussian log density agree *)
Theorem gaussian_ell_three_forms (y r m v : R) : 0 < r -> 0 <= v ->
  E2 m v (loglik_poly y r) = normal_expect m v (poly2_list (loglik_poly y r)) /\
  E2 m v (loglik_poly y r)
  = @expect_poly RF m v (@gauss_loglik_poly RF (- / 2 * ln r - / 2 * ln (2 * PI)) y r) /\
  E2 m v (loglik_poly y r) = - / 2 * (@ell_rat RF y m v r + ln r + ln (2 * PI)).
Proof.
  intros Hr Hv.
  assert (E1 : E2 m v (loglik_poly y r) = normal_expect m v (poly2_list (loglik_poly y r))).
  { unfold loglik_poly at 2. unfold poly2_list. apply E2_is_normal_expect. exact Hv. }
  assert (E2' : E2 m v (loglik_poly y r)
    = @expect_poly RF m v (@gauss_loglik_poly RF (- / 2 * ln r - / 2 * ln (2 * PI)) y r)).
  { rewrite <- loglik_poly_is_gauss_loglik_poly by lra.
    unfold loglik_poly, poly2_list. apply E2_is_expect_poly. }
  repeat split; [exact E1|exact E2'|].
  rewrite E2'. apply gaussian_ell_is_expectation. lra.
Qed.

(* ---------------------------------------------------------------- the quadrature corollary *)
Lemma gh_rule_ext ts ws m v (f g : R -> R) : (forall x, f x = g x) ->
  gh_rule ts ws m v f = gh_rule ts ws m v g.
Proof.
  intros H. unfold gh_rule, gh_core. f_equal. apply (@wsum_ext RF). intros t. apply H.
Qed.

(* a node set that is exact on z^k, k < D, with D >= 3, applied (as the generic
   Likelihood.expected_log_prob does) to f |-> ln N(y | f, r) under q(f) = N(m, v), returns
   exactly the closed form that GaussianLikelihood.expected_log_prob computes *)
Theorem gh_reproduces_gaussian_elp (D : nat) (ts ws : list R) (y r m v : R) :
  (forall k, (k < D)%nat -> gh_rule ts ws 0 1 (fun x => x ^ k) = @gmom RF k) ->
  (3 <= D)%nat -> 0 < r -> 0 <= v ->
  gh_rule ts ws m v (fun f => ln (normal_pdf y f r)) = E2 m v (loglik_poly y r) /\
  gh_rule ts ws m v (fun f => ln (normal_pdf y f r))
  = - / 2 * (((y - m) * (y - m) + v) / r + ln r + ln (2 * PI)).
Proof.
  intros Hprem HD Hr Hv.
  assert (E : gh_rule ts ws m v (fun f => ln (normal_pdf y f r)) = E2 m v (loglik_poly y r)).
  { rewrite (gh_rule_ext ts ws m v _ (@peval RF (poly2_list (loglik_poly y r)))).
    - rewrite (gh_affine_exact_R D ts ws _ m v Hprem); [|cbn [poly2_list loglik_poly length]; lia|exact Hv].
      symmetry. apply (proj1 (gaussian_ell_three_forms y r m v Hr Hv)).
    - intros f. rewrite <- peval2_peval. symmetry. apply loglik_poly_is_log_density. exact Hr. }
  split; [exact E|].
  rewrite E. unfold E2, loglik_poly. field. lra.
Qed.

(* the same in the vocabulary of the C12 model: the printed expected_log_prob term *)
Theorem gh_reproduces_elp_expr (D : nat) (ts ws : list R) (y m v r : expr) :
  (forall k, (k < D)%nat -> gh_rule ts ws 0 1 (fun x => x ^ k) = @gmom RF k) ->
  (3 <= D)%nat -> 0 < den r -> 0 <= den v ->
  gh_rule ts ws (den m) (den v) (fun f => ln (normal_pdf (den y) f (den r)))
  = den (elp_expr y m v r).
Proof.
  intros Hprem HD Hr Hv.
  rewrite (proj2 (gh_reproduces_gaussian_elp D ts ws (den y) (den r) (den m) (den v) Hprem HD Hr Hv)).
  symmetry. apply elp_expr_code_formula.
Qed.

(* non-vacuity: the two-point rule (D = 4) *)
Lemma ex_two_point_reproduces_gaussian_elp (y r m v : R) : 0 < r -> 0 <= v ->
  gh_rule ts2 ws2 m v (fun f => ln (normal_pdf y f r))
  = - / 2 * (((y - m) * (y - m) + v) / r + ln r + ln (2 * PI)).
Proof.
  intros Hr Hv.
  exact (proj2 (gh_reproduces_gaussian_elp 4 ts2 ws2 y r m v two_point_premise ltac:(lia) Hr Hv)).
Qed.
