From Coq Require Import Arith Lia List Bool ZArith Ring Field.
From GPV Require Import Base.LinAlg Models.C08_shape.
Import ListNotations.

(* ------------------------------------------------------------------ validity and rev *)

Lemma valid_length s i : valid s i -> length s = length i.
Proof.
  revert i. induction s as [|d s IH]; intros [|x i]; cbn [valid length]; try tauto.
  intros [_ H]. f_equal. apply IH. exact H.
Qed.

Lemma valid_app s1 i1 s2 i2 : valid s1 i1 -> valid s2 i2 -> valid (s1 ++ s2) (i1 ++ i2).
Proof.
  revert i1. induction s1 as [|d s IH]; intros [|x i]; cbn [valid app]; try tauto.
  intros [Hx H] H2. split; [exact Hx|]. apply IH; assumption.
Qed.

Lemma valid_rev s i : valid s i -> valid (rev s) (rev i).
Proof.
  revert i. induction s as [|d s IH]; intros [|x i]; cbn [valid rev]; try tauto.
  intros [Hx H]. apply valid_app; [apply IH; exact H|]. cbn [valid]. tauto.
Qed.

Lemma valid_rev_inv s i : valid (rev s) (rev i) -> valid s i.
Proof. intros H. apply valid_rev in H. rewrite !rev_involutive in H. exact H. Qed.

Lemma numel_app s1 s2 : numel (s1 ++ s2) = numel s1 * numel s2.
Proof.
  unfold numel. induction s1 as [|d s IH]; cbn [app fold_right]; [lia|].
  rewrite IH. lia.
Qed.
Lemma numel_rev s : numel (rev s) = numel s.
Proof.
  induction s as [|d s IH]; [reflexivity|]. cbn [rev]. rewrite numel_app, IH.
  unfold numel. cbn [fold_right]. lia.
Qed.

(* ------------------------------------------------------------------ ravel / unravel *)

Lemma ravel_unravel_rev s k : k < numel s -> ravel_rev s (unravel_rev s k) = k.
Proof.
  revert k. induction s as [|d s IH]; intros k Hk.
  - cbn [numel fold_right] in Hk. cbn [ravel_rev unravel_rev]. lia.
  - cbn [numel fold_right] in Hk. fold (numel s) in Hk.
    assert (Hd : d <> 0) by (intros ->; lia).
    cbn [unravel_rev ravel_rev]. rewrite IH.
    + rewrite (Nat.div_mod k d Hd) at 3. lia.
    + apply Nat.div_lt_upper_bound; [exact Hd|exact Hk].
Qed.

Lemma unravel_ravel_rev s i : valid s i -> unravel_rev s (ravel_rev s i) = i.
Proof.
  revert i. induction s as [|d s IH]; intros [|x i]; cbn [valid]; try tauto.
  intros [Hx H]. cbn [ravel_rev unravel_rev].
  assert (Hd : d <> 0) by lia.
  replace (x + d * ravel_rev s i) with (x + ravel_rev s i * d) by lia.
  rewrite Nat.mod_add by exact Hd. rewrite Nat.mod_small by exact Hx.
  rewrite Nat.div_add by exact Hd. rewrite Nat.div_small by exact Hx.
  cbn [Nat.add]. rewrite IH by exact H. reflexivity.
Qed.

Lemma unravel_rev_valid s k : k < numel s -> valid s (unravel_rev s k).
Proof.
  revert k. induction s as [|d s IH]; intros k Hk; cbn [unravel_rev valid]; [exact I|].
  cbn [numel fold_right] in Hk. fold (numel s) in Hk.
  assert (Hd : d <> 0) by (intros ->; lia).
  split; [apply Nat.mod_upper_bound; exact Hd|].
  apply IH. apply Nat.div_lt_upper_bound; [exact Hd|exact Hk].
Qed.

Lemma ravel_rev_lt s i : valid s i -> ravel_rev s i < numel s.
Proof.
  revert i. induction s as [|d s IH]; intros [|x i]; cbn [valid]; try tauto.
  - intros _. cbn. lia.
  - intros [Hx H]. cbn [ravel_rev numel fold_right]. fold (numel s).
    specialize (IH i H). nia.
Qed.

Lemma ravel_unravel s k : k < numel s -> ravel s (unravel s k) = k.
Proof.
  intros Hk. unfold ravel, unravel. rewrite rev_involutive.
  apply ravel_unravel_rev. rewrite numel_rev. exact Hk.
Qed.

Lemma unravel_ravel s i : valid s i -> unravel s (ravel s i) = i.
Proof.
  intros H. unfold ravel, unravel. rewrite unravel_ravel_rev by (apply valid_rev; exact H).
  apply rev_involutive.
Qed.

Lemma unravel_valid s k : k < numel s -> valid s (unravel s k).
Proof.
  intros Hk. unfold unravel. apply valid_rev_inv. rewrite rev_involutive.
  apply unravel_rev_valid. rewrite numel_rev. exact Hk.
Qed.

Lemma ravel_lt s i : valid s i -> ravel s i < numel s.
Proof.
  intros H. unfold ravel. rewrite <- (numel_rev s). apply ravel_rev_lt. apply valid_rev. exact H.
Qed.

(* ------------------------------------------------------------------ broadcasting and bproj *)

Lemma bc_dim_spec x y d : bc_dim x y = Some d ->
  (x = d \/ x = 1) /\ (y = d \/ y = 1).
Proof.
  unfold bc_dim. destruct (Nat.eqb_spec x y) as [->|Hxy].
  - intros H; injection H as <-. tauto.
  - destruct (Nat.eqb_spec x 1) as [->|Hx1].
    + intros H; injection H as <-. tauto.
    + destruct (Nat.eqb_spec y 1) as [->|Hy1]; [|discriminate].
      intros H; injection H as <-. tauto.
Qed.

Lemma bproj_rev_self s b : valid s b -> valid s (bproj_rev s b).
Proof.
  revert b. induction s as [|d s IH]; intros [|x b]; cbn [valid bproj_rev]; try tauto.
  intros [Hx H]. split; [|apply IH; exact H].
  destruct (Nat.eqb_spec d 1); lia.
Qed.

Lemma bproj_rev_valid a b r x : bc_rev a b = Some r -> valid r x ->
  valid a (bproj_rev a x) /\ valid b (bproj_rev b x).
Proof.
  revert b r x. induction a as [|p a IH]; intros b r x Hbc Hv.
  - cbn [bc_rev] in Hbc. injection Hbc as <-. split; [exact I|apply bproj_rev_self; exact Hv].
  - destruct b as [|q b].
    + cbn [bc_rev] in Hbc. injection Hbc as <-. split; [apply bproj_rev_self; exact Hv|].
      destruct x; exact I.
    + cbn [bc_rev] in Hbc. destruct (bc_dim p q) as [d|] eqn:Ed; [|discriminate].
      destruct (bc_rev a b) as [r'|] eqn:Er; [|discriminate]. injection Hbc as <-.
      destruct x as [|i x]; cbn [valid] in Hv; [tauto|]. destruct Hv as [Hi Hv].
      destruct (IH b r' x Er Hv) as [H1 H2].
      destruct (bc_dim_spec p q d Ed) as [Hp Hq].
      cbn [bproj_rev valid]. repeat split; try assumption.
      * destruct (Nat.eqb_spec p 1); lia.
      * destruct (Nat.eqb_spec q 1); lia.
Qed.

(* the slice indices the model hands out are valid indices of the operands *)
Lemma bproj_valid sp sd t b : broadcast_shapes sp sd = Some t -> valid t b ->
  valid sp (bproj sp b) /\ valid sd (bproj sd b).
Proof.
  unfold broadcast_shapes. destruct (bc_rev (rev sp) (rev sd)) as [r|] eqn:E; [|discriminate].
  cbn [option_map]. intros H Hv. injection H as <-.
  apply valid_rev in Hv. rewrite rev_involutive in Hv.
  destruct (bproj_rev_valid _ _ _ _ E Hv) as [H1 H2].
  unfold bproj. split; apply valid_rev_inv; rewrite rev_involutive; assumption.
Qed.

(* broadcasting is symmetric, and a shape broadcasts with itself to itself *)
Lemma bc_dim_comm x y : bc_dim x y = bc_dim y x.
Proof.
  unfold bc_dim. destruct (Nat.eqb_spec x y) as [->|Hxy].
  - rewrite Nat.eqb_refl. reflexivity.
  - destruct (Nat.eqb_spec y x); [lia|].
    destruct (Nat.eqb_spec x 1) as [->|]; destruct (Nat.eqb_spec y 1) as [->|]; try reflexivity; lia.
Qed.
Lemma bc_rev_comm a b : bc_rev a b = bc_rev b a.
Proof.
  revert b. induction a as [|x a IH]; intros [|y b]; try reflexivity.
  cbn [bc_rev]. rewrite bc_dim_comm, IH. reflexivity.
Qed.
Lemma broadcast_shapes_comm a b : broadcast_shapes a b = broadcast_shapes b a.
Proof. unfold broadcast_shapes. rewrite bc_rev_comm. reflexivity. Qed.

(* on an operand that already has the full shape bproj only touches size-1 dimensions, where a
   valid index is 0 anyway: it is the identity *)
Lemma bproj_rev_id s b : valid s b -> bproj_rev s b = b.
Proof.
  revert b. induction s as [|d s IH]; intros [|x b]; cbn [valid bproj_rev]; try tauto.
  intros [Hx H]. rewrite IH by exact H. destruct (Nat.eqb_spec d 1); [|reflexivity].
  f_equal. lia.
Qed.
Lemma bproj_id s b : valid s b -> bproj s b = b.
Proof.
  intros H. unfold bproj. rewrite bproj_rev_id by (apply valid_rev; exact H).
  apply rev_involutive.
Qed.

(* ------------------------------------------------------------------ expand = stride-0 view *)

Lemma expand_offset_rev s b acc :
  offset_rev (strides_rev s acc) b = acc * ravel_rev s (bproj_rev s b).
Proof.
  revert b acc. induction s as [|d s IH]; intros [|x b] acc;
    cbn [strides_rev offset_rev bproj_rev ravel_rev]; try lia.
  rewrite IH. destruct (Nat.eqb_spec d 1); lia.
Qed.

(* reading element b of operand.expand(t) reads storage position ravel (bproj s b) *)
Lemma bproj_is_expand s b : ravel s (bproj s b) = expand_offset s b.
Proof.
  unfold ravel, bproj, expand_offset. rewrite rev_involutive.
  rewrite expand_offset_rev. lia.
Qed.

(* ------------------------------------------------------------------ non-interference *)

Section NI.
Context {P D O : Type}.

Lemma nth_error_all_indices t k : k < numel t -> nth_error (all_indices t) k = Some (unravel t k).
Proof.
  intros Hk. unfold all_indices. rewrite nth_error_map.
  rewrite (nth_error_nth' (seq 0 (numel t)) 0) by (rewrite seq_length; exact Hk).
  rewrite seq_nth by exact Hk. reflexivity.
Qed.

(* entry [ravel t b] of the output tensor is op(parameter slice bproj sp b, data slice bproj sd b) *)
Lemma batched_tab_entry sp sd t (op : P -> D -> O) param data out b :
  broadcast_shapes sp sd = Some t -> valid t b ->
  batched_tab sp sd op param data = Some out ->
  nth_error out (ravel t b) = Some (op (param (bproj sp b)) (data (bproj sd b))).
Proof.
  intros Hbc Hv. unfold batched_tab. rewrite Hbc. intros H. injection H as <-.
  rewrite nth_error_map. rewrite nth_error_all_indices by (apply ravel_lt; exact Hv).
  cbn [option_map]. rewrite unravel_ravel by exact Hv. reflexivity.
Qed.

(* no cross-talk: two runs whose operands agree on the two slices that b reads agree at b,
   whatever else differs *)
Lemma no_cross_talk sp sd t (op : P -> D -> O) param param' data data' out out' b :
  broadcast_shapes sp sd = Some t -> valid t b ->
  batched_tab sp sd op param data = Some out ->
  batched_tab sp sd op param' data' = Some out' ->
  param (bproj sp b) = param' (bproj sp b) ->
  data (bproj sd b) = data' (bproj sd b) ->
  nth_error out (ravel t b) = nth_error out' (ravel t b).
Proof.
  intros Hbc Hv H1 H2 Hp Hd.
  rewrite (batched_tab_entry sp sd t op param data out b Hbc Hv H1).
  rewrite (batched_tab_entry sp sd t op param' data' out' b Hbc Hv H2).
  rewrite Hp, Hd. reflexivity.
Qed.

(* in particular: overwriting any OTHER parameter slice / data slice leaves element b alone *)
Lemma no_cross_talk_update sp sd t (op : P -> D -> O) param data out out' b j v i w :
  broadcast_shapes sp sd = Some t -> valid t b ->
  j <> bproj sp b -> i <> bproj sd b ->
  batched_tab sp sd op param data = Some out ->
  batched_tab sp sd op (upd param j v) (upd data i w) = Some out' ->
  nth_error out (ravel t b) = nth_error out' (ravel t b).
Proof.
  intros Hbc Hv Hj Hi H1 H2.
  apply (no_cross_talk sp sd t op param (upd param j v) data (upd data i w) out out' b Hbc Hv H1 H2).
  - unfold upd. destruct (list_eq_dec Nat.eq_dec (bproj sp b) j); [congruence|reflexivity].
  - unfold upd. destruct (list_eq_dec Nat.eq_dec (bproj sd b) i); [congruence|reflexivity].
Qed.

(* the output has exactly numel t entries *)
Lemma batched_tab_length sp sd t (op : P -> D -> O) param data out :
  broadcast_shapes sp sd = Some t -> batched_tab sp sd op param data = Some out ->
  length out = numel t.
Proof.
  intros Hbc. unfold batched_tab. rewrite Hbc. intros H. injection H as <-.
  unfold all_indices. rewrite !map_length, seq_length. reflexivity.
Qed.
End NI.

(* ------------------------------------------------------------------ model lists *)

Lemma model_list_nth {A B} (ms : list (A -> B)) (xs : list A) i :
  nth_error (model_list ms xs) i =
  match nth_error ms i, nth_error xs i with
  | Some m, Some x => Some (m x)
  | _, _ => None
  end.
Proof.
  revert xs i. induction ms as [|m ms IH]; intros [|x xs] [|i]; cbn [model_list nth_error]; try reflexivity.
  - destruct (nth_error ms i); reflexivity.
  - apply IH.
Qed.

Lemma model_list_length {A B} (ms : list (A -> B)) (xs : list A) :
  length ms = length xs -> length (model_list ms xs) = length ms.
Proof.
  revert xs. induction ms as [|m ms IH]; intros [|x xs]; cbn [model_list length]; try lia.
  intros H. f_equal. apply IH. lia.
Qed.

Section SumMLL.
Context {K : Fld}.
Add Field Ff_c08 : (@FT K).
Local Open Scope fld_scope.

Definition total (l : list car) : car := fold_right fadd 0 l.
(* SumMarginalLogLikelihood.forward: sum of the members' values divided by their number
   ([cnt] = the field element len(self.mlls)) *)
Definition sum_mll {A} (mlls : list (A -> car)) (args : list A) (cnt : car) : car :=
  total (model_list mlls args) / cnt.

Lemma sum_mll_is_mean {A} (mlls : list (A -> car)) (args : list A) cnt :
  cnt <> 0 -> sum_mll mlls args cnt * cnt = total (model_list mlls args).
Proof. intros H. unfold sum_mll. field. exact H. Qed.
End SumMLL.
