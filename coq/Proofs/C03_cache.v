(* C03 proofs: the valid-caches invariant over ALL histories (induction on the op list) and
   history independence of eval-mode predictions, for every family descriptor that passes the
   decidable well-formedness check [wf_family]; counterexamples for each removed invalidation
   point. *)
From Coq Require Import Arith List Bool Lia.
From GPV Require Import Models.C03_cache.
Import ListNotations.

Definition all_slots (fam : family) : list nat := module_slots all_on fam.

(* the tag an entry of slot sl must carry when the object holds versions (v, w) and the
   staleness guard has recorded the unkeyed-settings value k *)
Definition cur_tag (fam : family) (v w k sl : nat) : tag :=
  mkTag v (if f_ddep fam sl then w else 0) (if mem sl (f_ck_slots fam) then k else 0).
Definition entry_cur (fam : family) (v w k : nat) (e : entry) : Prop :=
  e_tag e = cur_tag fam v w k (e_slot e).
Definition slot_ok (fam : family) (e : entry) : Prop := In (e_slot e) (all_slots fam).

(* the object holds its data; every cache entry lives in a slot some module's _clear_cache owns;
   while in eval mode every entry was computed from the current parameters and data, and every
   entry whose content depends on an unkeyed setting was computed under the value the staleness
   guard has recorded *)
Definition Inv (fam : family) (s : state) : Prop :=
  lost s = false /\
  Forall (slot_ok fam) (cch s) /\
  (training s = false -> Forall (entry_cur fam (pv s) (dv s) (sck s)) (cch s)).

(* ---- decidable side conditions on a family descriptor ---- *)
Definition use_wf (fam : family) (u : use) : bool :=
  mem (u_slot u) (all_slots fam) &&
  match f_parent fam (u_slot u) with
  | Some ps => Bool.eqb (f_ddep fam ps) (f_ddep fam (u_slot u)) &&
               Bool.eqb (mem ps (f_ck_slots fam)) (mem (u_slot u) (f_ck_slots fam))
  | None => true
  end.
(* consultations made outside a guarded call (prior-mode calls, get_fantasy_model) must not touch
   a slot whose content depends on the unkeyed setting *)
Definition use_unguarded_ok (fam : family) (u : use) : bool := negb (mem (u_slot u) (f_ck_slots fam)).
Definition wf_family (fam : family) : bool :=
  forallb (fun c => forallb (use_wf fam) (f_uses fam c)) (seq 0 (f_ncfg fam)) &&
  forallb (use_wf fam) (f_uses fam 0 ++ f_train_uses fam) &&
  forallb (fun u => use_wf fam u && use_unguarded_ok fam u) (f_prior_uses fam ++ f_fant_uses fam) &&
  forallb (fun sl => implb (f_ddep fam sl) (mem sl (f_strat_slots fam))) (all_slots fam) &&
  forallb (fun sl => mem sl (f_ck_drop fam)) (f_ck_slots fam).

(* ---- list / cache lemmas ---- *)
Lemma mem_In x l : mem x l = true <-> In x l.
Proof.
  unfold mem. rewrite existsb_exists. split.
  - intros [y [Hy He]]. apply Nat.eqb_eq in He. subst. exact Hy.
  - intros H. exists x. split; [exact H | apply Nat.eqb_refl].
Qed.

Lemma drop_Forall (P : entry -> Prop) l c : Forall P c -> Forall P (drop l c).
Proof.
  unfold drop. intros H. rewrite Forall_forall in *. intros e He.
  apply filter_In in He. apply H. tauto.
Qed.

Lemma drop_all_nil fam c : Forall (slot_ok fam) c -> drop (all_slots fam) c = [].
Proof.
  induction c as [|e r IH]; intros H; [reflexivity|].
  inversion H as [|? ? He Hr]; subst. unfold drop in *. cbn [filter].
  assert (Hin : in_slots (all_slots fam) e = true).
  { unfold in_slots. apply mem_In. exact He. }
  rewrite Hin. cbn [negb]. apply IH. exact Hr.
Qed.

Lemma drop_not_in l c e : In e (drop l c) -> In e c /\ ~ In (e_slot e) l.
Proof.
  unfold drop. intros H. apply filter_In in H. destruct H as [H1 H2]. split; [exact H1|].
  intros Hin. apply mem_In in Hin. unfold in_slots in H2. unfold mem in Hin. rewrite Hin in H2. discriminate.
Qed.

Lemma lookup_In sl k c e : lookup sl k c = Some e -> In e c /\ e_slot e = sl /\ e_key e = k.
Proof.
  induction c as [|x r IH]; cbn [lookup]; [discriminate|].
  destruct ((e_slot x =? sl) && (e_key x =? k)) eqn:Hb.
  - intros H. injection H as <-. apply andb_prop in Hb. destruct Hb as [H1 H2].
    apply Nat.eqb_eq in H1. apply Nat.eqb_eq in H2. split; [left; reflexivity | split; assumption].
  - intros H. destruct (IH H) as [H1 H2]. split; [right; exact H1 | exact H2].
Qed.

Lemma lookup_slot_In sl c e : lookup_slot sl c = Some e -> In e c /\ e_slot e = sl.
Proof.
  induction c as [|x r IH]; cbn [lookup_slot]; [discriminate|].
  destruct (e_slot x =? sl) eqn:Hb.
  - intros H. injection H as <-. apply Nat.eqb_eq in Hb. split; [left; reflexivity | exact Hb].
  - intros H. destruct (IH H) as [H1 H2]. split; [right; exact H1 | exact H2].
Qed.

Lemma rekey_all_on sl : rekey all_on sl = true.
Proof. unfold rekey. destruct (sl =? CHOL); reflexivity. Qed.

(* ---- one consultation from a valid cache returns a current entry and keeps the cache valid *)
Section Consult.
Variable fam : family.
Variables v w k : nat.      (* versions held; settings value recorded by the guard *)
Variable tr : bool.

Let P (c : cache) : Prop := Forall (slot_ok fam) c /\ Forall (entry_cur fam v w k) c.

(* the consultation happens under settings value ck; either that IS the recorded value, or the
   slot's content does not depend on it *)
Definition ck_ok (ck : nat) (u : use) : Prop := ck = k \/ mem (u_slot u) (f_ck_slots fam) = false.

Lemma new_tag_cur ck c u cc k0 lo :
  P c -> use_wf fam u = true -> ck_ok ck u ->
  new_tag fam (mkSt v w tr cc k0 lo) ck c u = cur_tag fam v w k (u_slot u).
Proof.
  intros [_ Hc] Hwf Hk. unfold new_tag.
  unfold use_wf in Hwf. apply andb_prop in Hwf. destruct Hwf as [_ Hpar].
  assert (Hown : own_tag fam (mkSt v w tr cc k0 lo) ck (u_slot u) = cur_tag fam v w k (u_slot u)).
  { unfold own_tag, cur_tag. cbn [pv dv]. destruct Hk as [-> | Hm]; [reflexivity|]. rewrite Hm. reflexivity. }
  destruct (f_parent fam (u_slot u)) as [ps|]; [|exact Hown].
  destruct (lookup_slot ps c) as [pe|] eqn:Hl; [|exact Hown].
  destruct (lookup_slot_In _ _ _ Hl) as [Hin Hsl].
  rewrite Forall_forall in Hc. rewrite (Hc pe Hin). unfold cur_tag. rewrite Hsl.
  apply andb_prop in Hpar. destruct Hpar as [H1 H2].
  apply Bool.eqb_prop in H1. apply Bool.eqb_prop in H2. rewrite H1, H2. reflexivity.
Qed.

Lemma consult_cur ck g c u cc k0 lo c' e :
  P c -> use_wf fam u = true -> ck_ok ck u ->
  consult all_on fam (mkSt v w tr cc k0 lo) ck g c u = (c', e) ->
  P c' /\ obs e = (u_key u, cur_tag fam v w k (u_slot u)).
Proof.
  intros HP Hwf Hk. pose proof (new_tag_cur ck c u cc k0 lo HP Hwf Hk) as Hnt.
  destruct HP as [Hs Hc].
  assert (Hslot : In (u_slot u) (all_slots fam)).
  { unfold use_wf in Hwf. apply andb_prop in Hwf. apply mem_In. tauto. }
  set (fe := mkEntry (u_slot u) (u_key u) (new_tag fam (mkSt v w tr cc k0 lo) ck c u) g).
  assert (Hfe_s : slot_ok fam fe) by exact Hslot.
  assert (Hfe_c : entry_cur fam v w k fe) by (unfold entry_cur, fe; cbn [e_tag e_slot]; exact Hnt).
  assert (Hfe_o : obs fe = (u_key u, cur_tag fam v w k (u_slot u))).
  { unfold obs, fe. cbn [e_key e_tag]. rewrite Hnt. reflexivity. }
  unfold consult. fold fe. rewrite rekey_all_on.
  destruct (u_single u).
  - destruct (lookup_slot (u_slot u) c) as [x|] eqn:Hl.
    + destruct (lookup_slot_In _ _ _ Hl) as [Hin Hsl].
      destruct (e_key x =? u_key u) eqn:Hkey.
      * intros H. injection H as <- <-. split; [split; assumption|].
        apply Nat.eqb_eq in Hkey. unfold obs. rewrite Hkey.
        rewrite Forall_forall in Hc. rewrite (Hc x Hin). rewrite Hsl. reflexivity.
      * intros H. injection H as <- <-. split; [|exact Hfe_o].
        split; constructor; try assumption; apply drop_Forall; assumption.
    + intros H. injection H as <- <-. split; [|exact Hfe_o].
      split; constructor; assumption.
  - destruct (lookup (u_slot u) (u_key u) c) as [x|] eqn:Hl.
    + destruct (lookup_In _ _ _ _ Hl) as [Hin [Hsl Hkey]].
      intros H. injection H as <- <-. split; [split; assumption|].
      unfold obs. rewrite Hkey. rewrite Forall_forall in Hc. rewrite (Hc x Hin). rewrite Hsl. reflexivity.
    + intros H. injection H as <- <-. split; [|exact Hfe_o].
      split; constructor; assumption.
Qed.

Lemma consult_all_cur ck g us : forall c cc k0 lo c' es,
  P c -> forallb (use_wf fam) us = true -> (forall u, In u us -> ck_ok ck u) ->
  consult_all all_on fam (mkSt v w tr cc k0 lo) ck g c us = (c', es) ->
  P c' /\ map obs es = map (fun u => (u_key u, cur_tag fam v w k (u_slot u))) us.
Proof.
  induction us as [|u r IH]; intros c cc k0 lo c' es HP Hus Hck; cbn [consult_all].
  - intros H. injection H as <- <-. split; [exact HP | reflexivity].
  - cbn [forallb] in Hus. apply andb_prop in Hus. destruct Hus as [Hwf Hr].
    destruct (consult all_on fam (mkSt v w tr cc k0 lo) ck g c u) as [c1 e] eqn:H1.
    destruct (consult_all all_on fam (mkSt v w tr cc k0 lo) ck g c1 r) as [c2 es2] eqn:H2.
    intros H. injection H as <- <-.
    destruct (consult_cur ck g c u cc k0 lo c1 e HP Hwf (Hck u (or_introl eq_refl)) H1) as [HP1 Ho].
    destruct (IH c1 cc k0 lo c2 es2 HP1 Hr (fun x Hx => Hck x (or_intror Hx)) H2) as [HP2 Hm].
    split; [exact HP2|]. cbn [map]. rewrite Ho, Hm. reflexivity.
Qed.

End Consult.

(* only the slots part (used in training mode, where entries may be stale) *)
Lemma consult_slots fam pts s ck g c u c' e :
  Forall (slot_ok fam) c -> use_wf fam u = true ->
  consult pts fam s ck g c u = (c', e) -> Forall (slot_ok fam) c'.
Proof.
  intros Hs Hwf.
  assert (Hslot : In (u_slot u) (all_slots fam)).
  { unfold use_wf in Hwf. apply andb_prop in Hwf. apply mem_In. tauto. }
  unfold consult. destruct (u_single u).
  - destruct (lookup_slot (u_slot u) c) as [x|].
    + destruct (e_key x =? u_key u); [intros H; injection H as <- <-; exact Hs|].
      destruct (rekey pts (u_slot u)); intros H; injection H as <- <-; [|exact Hs].
      constructor; [exact Hslot | apply drop_Forall; exact Hs].
    + intros H. injection H as <- <-. constructor; [exact Hslot | exact Hs].
  - destruct (lookup (u_slot u) (u_key u) c) as [x|]; intros H; injection H as <- <-; [exact Hs|].
    constructor; [exact Hslot | exact Hs].
Qed.

Lemma consult_all_slots fam pts s ck g us : forall c c' es,
  Forall (slot_ok fam) c -> forallb (use_wf fam) us = true ->
  consult_all pts fam s ck g c us = (c', es) -> Forall (slot_ok fam) c'.
Proof.
  induction us as [|u r IH]; intros c c' es Hs Hus; cbn [consult_all].
  - intros H. injection H as <- <-. exact Hs.
  - cbn [forallb] in Hus. apply andb_prop in Hus. destruct Hus as [Hu Hr].
    destruct (consult pts fam s ck g c u) as [c1 e] eqn:H1.
    destruct (consult_all pts fam s ck g c1 r) as [c2 es2] eqn:H2.
    intros H. injection H as <- <-.
    apply (IH c1 c2 es2); [|exact Hr|exact H2].
    exact (consult_slots fam pts s ck g c u c1 e Hs Hu H1).
Qed.


(* ---- facts extracted from wf_family ---- *)
Lemma forallb_app {T} (f : T -> bool) a b : forallb f (a ++ b) = true -> forallb f a = true /\ forallb f b = true.
Proof. rewrite forallb_app. apply andb_prop. Qed.

Lemma forallb_weaken {T} (f g : T -> bool) l :
  (forall x, f x = true -> g x = true) -> forallb f l = true -> forallb g l = true.
Proof. intros H. rewrite !forallb_forall. intros Hf x Hx. apply H, Hf, Hx. Qed.

Section WF.
Variable fam : family.
Hypothesis Hwf : wf_family fam = true.

Lemma wf_parts :
  forallb (fun c => forallb (use_wf fam) (f_uses fam c)) (seq 0 (f_ncfg fam)) = true /\
  forallb (use_wf fam) (f_uses fam 0 ++ f_train_uses fam) = true /\
  forallb (fun u => use_wf fam u && use_unguarded_ok fam u) (f_prior_uses fam ++ f_fant_uses fam) = true /\
  forallb (fun sl => implb (f_ddep fam sl) (mem sl (f_strat_slots fam))) (all_slots fam) = true /\
  forallb (fun sl => mem sl (f_ck_drop fam)) (f_ck_slots fam) = true.
Proof.
  unfold wf_family in Hwf.
  apply andb_prop in Hwf. destruct Hwf as [H H5].
  apply andb_prop in H. destruct H as [H H4].
  apply andb_prop in H. destruct H as [H H3].
  apply andb_prop in H. destruct H as [H1 H2]. tauto.
Qed.

Lemma wf_cfg c : c < f_ncfg fam -> forallb (use_wf fam) (f_uses fam c) = true.
Proof.
  intros Hc. destruct wf_parts as [H _]. rewrite forallb_forall in H. apply H. apply in_seq. lia.
Qed.
Lemma wf_cfg0 : forallb (use_wf fam) (f_uses fam 0) = true.
Proof. destruct wf_parts as [_ [H _]]. apply forallb_app in H. tauto. Qed.
Lemma wf_train : forallb (use_wf fam) (f_train_uses fam) = true.
Proof. destruct wf_parts as [_ [H _]]. apply forallb_app in H. tauto. Qed.
Lemma wf_prior : forallb (fun u => use_wf fam u && use_unguarded_ok fam u) (f_prior_uses fam) = true.
Proof. destruct wf_parts as [_ [_ [H _]]]. apply forallb_app in H. tauto. Qed.
Lemma wf_fant : forallb (fun u => use_wf fam u && use_unguarded_ok fam u) (f_fant_uses fam) = true.
Proof. destruct wf_parts as [_ [_ [H _]]]. apply forallb_app in H. tauto. Qed.
Lemma wf_ddep sl : In sl (all_slots fam) -> f_ddep fam sl = true -> In sl (f_strat_slots fam).
Proof.
  intros Hin Hd. destruct wf_parts as [_ [_ [_ [H _]]]].
  rewrite forallb_forall in H. specialize (H sl Hin). rewrite Hd in H. cbn [implb] in H. apply mem_In. exact H.
Qed.
Lemma wf_ck_drop sl : mem sl (f_ck_slots fam) = true -> In sl (f_ck_drop fam).
Proof.
  intros Hm. destruct wf_parts as [_ [_ [_ [_ H]]]].
  rewrite forallb_forall in H. apply mem_In. apply H. apply mem_In. exact Hm.
Qed.
Lemma only_wf us : forallb (fun u => use_wf fam u && use_unguarded_ok fam u) us = true -> forallb (use_wf fam) us = true.
Proof. apply forallb_weaken. intros x H. apply andb_prop in H. tauto. Qed.
Lemma unguarded_ck_ok k ck us :
  forallb (fun u => use_wf fam u && use_unguarded_ok fam u) us = true -> forall u, In u us -> ck_ok fam k ck u.
Proof.
  intros H u Hu. rewrite forallb_forall in H. specialize (H u Hu). apply andb_prop in H. destruct H as [_ H].
  right. unfold use_unguarded_ok in H. apply negb_true_iff in H. exact H.
Qed.

(* an entry outside the guard's drop list does not depend on the unkeyed setting *)
Lemma cur_tag_not_ck v w k k' sl : ~ In sl (f_ck_drop fam) -> cur_tag fam v w k sl = cur_tag fam v w k' sl.
Proof.
  intros Hn. unfold cur_tag. destruct (mem sl (f_ck_slots fam)) eqn:Hm; [|reflexivity].
  exfalso. apply Hn. apply wf_ck_drop. exact Hm.
Qed.

(* the staleness guard re-establishes validity for the current settings value *)
Lemma guard_valid v w k ck c :
  Forall (slot_ok fam) c -> Forall (entry_cur fam v w k) c ->
  let c1 := if negb (k =? ck) then drop (f_ck_drop fam) c else c in
  Forall (slot_ok fam) c1 /\ Forall (entry_cur fam v w ck) c1.
Proof.
  intros Hs Hc. cbv zeta. destruct (k =? ck) eqn:E; cbn [negb].
  - apply Nat.eqb_eq in E. subst ck. split; assumption.
  - split; [apply drop_Forall; exact Hs|].
    rewrite Forall_forall in *. intros e He. destruct (drop_not_in _ _ _ He) as [Hin Hns].
    unfold entry_cur in *. rewrite (Hc e Hin). apply cur_tag_not_ck. exact Hns.
Qed.

(* ---- eval-mode call from a valid state ---- *)
Lemma call_eval s g c s1 es :
  Inv fam s -> training s = false -> forallb (use_wf fam) (f_uses fam c) = true ->
  call all_on fam s g c = (s1, es) ->
  pv s1 = pv s /\ dv s1 = dv s /\ training s1 = false /\ lost s1 = false /\ sck s1 = f_ck fam c /\
  Forall (slot_ok fam) (cch s1) /\ Forall (entry_cur fam (pv s) (dv s) (f_ck fam c)) (cch s1) /\
  map obs es = map (fun u => (u_key u, cur_tag fam (pv s) (dv s) (f_ck fam c) (u_slot u))) (f_uses fam c).
Proof.
  intros [Hl [Hs Hc]] Htr Hcn. unfold call. rewrite Htr, Hl. cbn [p_stale all_on andb].
  destruct s as [v w tr cc k lo]. cbn [pv dv training cch sck lost] in *. subst tr lo.
  destruct (guard_valid v w k (f_ck fam c) cc Hs (Hc eq_refl)) as [Hs1 Hc1].
  set (c1 := if negb (k =? f_ck fam c) then drop (f_ck_drop fam) cc else cc) in *.
  destruct (consult_all all_on fam (mkSt v w false cc k false) (f_ck fam c) g c1 (f_uses fam c)) as [c2 es2] eqn:H2.
  intros H. injection H as <- <-.
  destruct (consult_all_cur fam v w (f_ck fam c) false (f_ck fam c) g (f_uses fam c) c1 cc k false c2 es2
              (conj Hs1 Hc1) Hcn (fun u _ => or_introl eq_refl) H2) as [[Hs2 Hc2] Hm].
  cbn [set_cache_ck pv dv training cch sck lost]. tauto.
Qed.

Lemma call_train s g c s1 es :
  Inv fam s -> training s = true -> call all_on fam s g c = (s1, es) ->
  pv s1 = pv s /\ dv s1 = dv s /\ training s1 = true /\ lost s1 = false /\ Forall (slot_ok fam) (cch s1).
Proof.
  intros [Hl [Hs _]] Htr. unfold call. rewrite Htr. cbn [p_call p_vs all_on andb].
  destruct (consult_all all_on fam s (f_ck fam c) GNone (drop (f_vs_slots fam) (cch s)) (f_train_uses fam)) as [c2 es2] eqn:H2.
  intros H. injection H as <- <-. cbn [set_cache_ck pv dv training cch lost].
  repeat split; try assumption.
  apply (consult_all_slots fam all_on s (f_ck fam c) GNone (f_train_uses fam) (drop (f_vs_slots fam) (cch s)) c2 es2);
    [|exact wf_train|exact H2].
  apply drop_Forall. exact Hs.
Qed.

Lemma free_graphs_Forall (Q : entry -> Prop) es c :
  (forall e g, Q e -> Q (mkEntry (e_slot e) (e_key e) (e_tag e) g)) ->
  Forall Q c -> Forall Q (free_graphs es c).
Proof.
  intros HQ H. unfold free_graphs. rewrite Forall_forall in *. intros x Hx.
  apply in_map_iff in Hx. destruct Hx as [e [He Hin]]. subst x.
  destruct (is_live e && existsb (same_entry e) es); [apply HQ|]; apply H; exact Hin.
Qed.

(* an unguarded consultation (prior-mode call, get_fantasy_model) from a valid eval-mode state *)
Lemma unguarded_eval s us c2 es2 :
  Inv fam s -> training s = false ->
  forallb (fun u => use_wf fam u && use_unguarded_ok fam u) us = true ->
  consult_all all_on fam s (f_ck fam 0) GNone (cch s) us = (c2, es2) ->
  Inv fam (set_cache s c2).
Proof.
  intros [Hl [Hs Hc]] Htr Hus H2.
  destruct s as [v w tr cc k lo]. cbn [pv dv training cch sck lost] in *. subst tr lo.
  destruct (consult_all_cur fam v w k false (f_ck fam 0) GNone us cc cc k false c2 es2
              (conj Hs (Hc eq_refl)) (only_wf _ Hus) (unguarded_ck_ok k (f_ck fam 0) us Hus) H2) as [[Hs2 Hc2] _].
  split; [reflexivity|]. split; cbn [set_cache cch pv dv training sck]; [exact Hs2 | intros _; exact Hc2].
Qed.

(* ---- the invariant is preserved by every admissible operation ---- *)
Lemma Inv_step s o :
  Inv fam s -> op_ok fam s o = true ->
  Inv fam (fst (step all_on fam s o)).
Proof.
  intros HI Hok. pose proof HI as [Hl [Hs Hc]].
  destruct o; cbn [step].
  - (* Train *) cbn [p_to_train all_on]. split; [exact Hl|]. split; cbn [set_mode cch training fst]; [|discriminate].
    apply drop_Forall. exact Hs.
  - (* Eval *) cbn [p_to_eval all_on]. destruct (training s) eqn:Htr; cbn [andb fst].
    + unfold clear_modules. fold (all_slots fam). rewrite (drop_all_nil fam _ Hs).
      split; [exact Hl|]. split; cbn [set_mode cch]; intros; constructor.
    + split; [exact Hl|]. split; cbn [set_mode cch pv dv training sck]; [exact Hs | intros _; exact (Hc eq_refl)].
  - (* Step *) cbn [op_ok] in Hok. rewrite Hok.
    destruct (call all_on fam s GNone 0) as [s1 es] eqn:H1. cbn [fst].
    destruct (call_train s GNone 0 s1 es HI Hok H1) as [_ [_ [Ht [Hl1 Hs1]]]].
    split; [exact Hl1|]. split; cbn [bump_pv cch training]; [exact Hs1 | rewrite Ht; discriminate].
  - (* SetData *) destruct (f_has_data fam); cbn [fst]; [|exact HI].
    cbn [p_setdata all_on]. split; [exact Hl|]. split; cbn [cch pv dv training sck].
    + apply drop_Forall. exact Hs.
    + intros Htr. specialize (Hc Htr). rewrite Forall_forall in *. intros e He.
      destruct (drop_not_in _ _ _ He) as [Hin Hns].
      unfold entry_cur in *. rewrite (Hc e Hin). unfold cur_tag.
      destruct (f_ddep fam (e_slot e)) eqn:Hd; [|reflexivity].
      exfalso. apply Hns. apply wf_ddep; [apply Hs; exact Hin | exact Hd].
  - (* Load *) cbn [p_load all_on fst]. unfold clear_modules. fold (all_slots fam).
    rewrite (drop_all_nil fam _ Hs). split; [exact Hl|]. split; cbn [cch]; intros; constructor.
  - (* Fantasy *)
    destruct ((match f_fant_req fam with
               | Some sl => match lookup_slot sl (cch s) with Some _ => true | None => false end
               | None => true end) && f_fant_ok fam); cbn [fst]; [|exact HI].
    destruct (negb (existsb (fun e => in_slots (f_fant_copy fam) e &&
                                      match e_g e with GNone => false | _ => true end) (cch s)));
      [|cbn [p_restore all_on fst]; exact HI].
    destruct (consult_all all_on fam s (f_ck fam 0) GNone (cch s) (f_fant_uses fam)) as [c2 es2] eqn:H2.
    cbn [fst].
    destruct (training s) eqn:Htr.
    + split; [exact Hl|]. split; [|unfold set_cache; cbn [training]; rewrite Htr; discriminate].
      cbn [set_cache cch].
      exact (consult_all_slots fam all_on s (f_ck fam 0) GNone (f_fant_uses fam) (cch s) c2 es2 Hs (only_wf _ wf_fant) H2).
    + exact (unguarded_eval s (f_fant_uses fam) c2 es2 HI Htr wf_fant H2).
  - (* Prior *) destruct (training s) eqn:Htr; cbn [fst]; [exact HI|].
    destruct (consult_all all_on fam s (f_ck fam 0) GNone (cch s) (f_prior_uses fam)) as [c2 es2] eqn:H2.
    cbn [fst]. exact (unguarded_eval s (f_prior_uses fam) c2 es2 HI Htr wf_prior H2).
  - (* Backward *)
    destruct (call all_on fam s GLive 0) as [s1 es] eqn:H1.
    destruct (training s) eqn:Htr; cbn [fst].
    + destruct (call_train s GLive 0 s1 es HI Htr H1) as [_ [_ [Ht [Hl1 Hs1]]]].
      split; [exact Hl1|]. split; [exact Hs1 | rewrite Ht; discriminate].
    + destruct (call_eval s GLive 0 s1 es HI Htr wf_cfg0 H1) as [Hp [Hd [Ht [Hl1 [Hk [Hs1 [Hc1 _]]]]]]].
      destruct (existsb is_freed es); cbn [fst].
      * split; [exact Hl1|]. split; [exact Hs1 | intros _; rewrite Hp, Hd, Hk; exact Hc1].
      * cbn [p_hook all_on]. rewrite andb_true_r.
        assert (Hs2 : Forall (slot_ok fam) (free_graphs es (cch s1))).
        { apply free_graphs_Forall; [intros e g H; exact H | exact Hs1]. }
        assert (Hc2 : Forall (entry_cur fam (pv s) (dv s) (f_ck fam 0)) (free_graphs es (cch s1))).
        { apply free_graphs_Forall; [intros e g H; exact H | exact Hc1]. }
        destruct (existsb (fun e => is_live e && in_slots (f_hook_slots fam) e) es);
          (split; [exact Hl1|]); split; cbn [set_cache cch pv dv training sck]; rewrite ?Hp, ?Hd, ?Hk;
          try (apply drop_Forall); try assumption; intros _; try (apply drop_Forall); assumption.
  - (* Predict *) cbn [op_ok] in Hok. apply Nat.ltb_lt in Hok.
    destruct (call all_on fam s GNone c) as [s1 es] eqn:H1. cbn [fst].
    destruct (training s) eqn:Htr.
    + destruct (call_train s GNone c s1 es HI Htr H1) as [_ [_ [Ht [Hl1 Hs1]]]].
      split; [exact Hl1|]. split; [exact Hs1 | rewrite Ht; discriminate].
    + destruct (call_eval s GNone c s1 es HI Htr (wf_cfg c Hok) H1) as [Hp [Hd [Ht [Hl1 [Hk [Hs1 [Hc1 _]]]]]]].
      split; [exact Hl1|]. split; [exact Hs1 | intros _; rewrite Hp, Hd, Hk; exact Hc1].
Qed.

Lemma Inv_init : Inv fam init.
Proof. split; [reflexivity|]. split; cbn [init cch]; intros; constructor. Qed.

Lemma Inv_fresh v w tr : Inv fam (fresh v w tr).
Proof. split; [reflexivity|]. split; cbn [fresh cch]; intros; constructor. Qed.

Lemma Inv_run h : forall s,
  Inv fam s -> admissible all_on fam s h = true ->
  Inv fam (run all_on fam s h).
Proof.
  induction h as [|o r IH]; intros s HI Ha; cbn [run]; [exact HI|].
  cbn [admissible] in Ha. apply andb_prop in Ha. destruct Ha as [Hok Ha].
  apply IH; [apply Inv_step; assumption | exact Ha].
Qed.

(* ---- what an eval-mode prediction returns from ANY valid state: a function of the current
   versions and the configuration only ---- *)
Lemma predict_out_eval s c :
  Inv fam s -> training s = false -> c < f_ncfg fam ->
  predict_out all_on fam s c =
    (ST_OK, map (fun u => (u_key u, cur_tag fam (pv s) (dv s) (f_ck fam c) (u_slot u))) (f_uses fam c)).
Proof.
  intros HI Htr Hc. unfold predict_out. cbn [step].
  destruct (call all_on fam s GNone c) as [s1 es] eqn:H1. cbn [snd].
  destruct (call_eval s GNone c s1 es HI Htr (wf_cfg c Hc) H1) as [_ [_ [_ [_ [_ [_ [_ Hm]]]]]]].
  rewrite Hm. reflexivity.
Qed.

Lemma history_independence_gen h c :
  admissible all_on fam init h = true ->
  c < f_ncfg fam ->
  training (run all_on fam init h) = false ->
  predict_out all_on fam (run all_on fam init h) c =
  predict_out all_on fam (fresh (pv (run all_on fam init h)) (dv (run all_on fam init h)) false) c.
Proof.
  intros Ha Hc Htr.
  rewrite (predict_out_eval _ c (Inv_run h init Inv_init Ha) Htr Hc).
  rewrite (predict_out_eval _ c (Inv_fresh _ _ false) eq_refl Hc).
  reflexivity.
Qed.

(* the same from an arbitrary valid starting state (e.g. a fresh object in any mode) and with the
   whole trace: EVERY eval-mode prediction inside a history equals the fresh object's *)
Lemma history_independence_from s h c :
  Inv fam s -> admissible all_on fam s h = true -> c < f_ncfg fam ->
  training (run all_on fam s h) = false ->
  predict_out all_on fam (run all_on fam s h) c =
  predict_out all_on fam (fresh (pv (run all_on fam s h)) (dv (run all_on fam s h)) false) c.
Proof.
  intros HI Ha Hc Htr.
  rewrite (predict_out_eval _ c (Inv_run h s HI Ha) Htr Hc).
  rewrite (predict_out_eval _ c (Inv_fresh _ _ false) eq_refl Hc).
  reflexivity.
Qed.

(* under the real code the object never loses its data *)
Lemma never_lost h : admissible all_on fam init h = true -> lost (run all_on fam init h) = false.
Proof. intros Ha. exact (proj1 (Inv_run h init Inv_init Ha)). Qed.
End WF.

(* ---- the concrete families are well formed ---- *)
Lemma wf_exact : wf_family fam_exact = true. Proof. reflexivity. Qed.
Lemma wf_kiss : wf_family fam_kiss = true. Proof. reflexivity. Qed.
Lemma wf_sgpr : wf_family fam_sgpr = true. Proof. reflexivity. Qed.
Lemma wf_var b : wf_family (fam_var b) = true. Proof. destruct b; reflexivity. Qed.
Lemma wf_exact_nan : wf_family fam_exact_nan = true. Proof. reflexivity. Qed.
Lemma wf_kiss_dyn : wf_family fam_kiss_dyn = true. Proof. reflexivity. Qed.

(* ==== every observable operation, not only the final prediction ==== *)

(* training-mode calls recompute what they consult: every training-mode consultation is of a slot
   the variational __call__ has just cleared, and owns its tag *)
Definition train_use_ok (fam : family) (u : use) : bool :=
  mem (u_slot u) (f_vs_slots fam) && negb (u_single u) &&
  match f_parent fam (u_slot u) with None => true | Some _ => false end.
Lemma obs_eqb_refl l : obs_eqb l l = true.
Proof.
  induction l as [|[k t] r IH]; [reflexivity|]. cbn [obs_eqb]. rewrite Nat.eqb_refl, IH.
  unfold tag_eqb. rewrite !Nat.eqb_refl. reflexivity.
Qed.

Section Indep.
Variable fam : family.
Hypothesis Hwf : wf_family fam = true.

(* eval mode: every observable operation reports what the fresh object reports *)
Lemma indep_eval s o :
  Inv fam s -> training s = false -> op_ok fam s o = true -> indep all_on fam s o = true.
Proof.
  intros HI Htr Hok. destruct o; try reflexivity; unfold indep.
  - (* Prior *)
    cbn [step]. rewrite Htr. cbn [fresh training].
    destruct (consult_all all_on fam s (f_ck fam 0) GNone (cch s) (f_prior_uses fam)) as [c2 es2] eqn:H2.
    destruct (consult_all all_on fam (fresh (pv s) (dv s) false) (f_ck fam 0) GNone
                (cch (fresh (pv s) (dv s) false)) (f_prior_uses fam)) as [c3 es3] eqn:H3.
    cbn [snd].
    pose proof HI as [Hl [Hs Hc]].
    destruct s as [v w tr cc k lo]. cbn [pv dv training cch sck lost fresh] in *. subst tr lo.
    destruct (consult_all_cur fam v w k false (f_ck fam 0) GNone (f_prior_uses fam) cc cc k false c2 es2
                (conj Hs (Hc eq_refl)) (only_wf fam _ (wf_prior fam Hwf))
                (unguarded_ck_ok fam k (f_ck fam 0) _ (wf_prior fam Hwf)) H2) as [_ Hm2].
    destruct (consult_all_cur fam v w k false (f_ck fam 0) GNone (f_prior_uses fam) [] [] 0 false c3 es3
                (conj (Forall_nil _) (Forall_nil _)) (only_wf fam _ (wf_prior fam Hwf))
                (unguarded_ck_ok fam k (f_ck fam 0) _ (wf_prior fam Hwf)) H3) as [_ Hm3].
    rewrite Hm2, Hm3. apply obs_eqb_refl.
  - (* Backward *)
    cbn [step].
    destruct (call all_on fam s GLive 0) as [s1 es] eqn:H1.
    destruct (call all_on fam (fresh (pv s) (dv s) (training s)) GLive 0) as [s2 es2] eqn:H2.
    rewrite Htr in *. cbn [fresh training].
    destruct (call_eval fam Hwf s GLive 0 s1 es HI Htr (wf_cfg0 fam Hwf) H1) as [_ [_ [_ [_ [_ [_ [_ Hm1]]]]]]].
    destruct (call_eval fam Hwf _ GLive 0 s2 es2 (Inv_fresh fam _ _ false) eq_refl (wf_cfg0 fam Hwf) H2)
      as [_ [_ [_ [_ [_ [_ [_ Hm2]]]]]]].
    cbn [fresh pv dv] in Hm2.
    assert (E : forall (b : bool) (X Y : state * (nat * list (nat * tag))),
              snd (snd X) = map obs es -> snd (snd Y) = map obs es2 ->
              obs_eqb (snd (snd X)) (snd (snd Y)) = true).
    { intros _ X Y HX HY. rewrite HX, HY, Hm1, Hm2. apply obs_eqb_refl. }
    apply (E true).
    + destruct (existsb is_freed es); reflexivity.
    + destruct (existsb is_freed es2); reflexivity.
  - (* Predict *)
    cbn [op_ok] in Hok. apply Nat.ltb_lt in Hok.
    fold (predict_out all_on fam s c). fold (predict_out all_on fam (fresh (pv s) (dv s) (training s)) c).
    rewrite Htr.
    rewrite (predict_out_eval fam Hwf s c HI Htr Hok).
    rewrite (predict_out_eval fam Hwf _ c (Inv_fresh fam _ _ false) eq_refl Hok).
    apply obs_eqb_refl.
Qed.

(* ---- training mode ---- *)
Fixpoint uses_nodup (l : list use) : bool :=
  match l with
  | [] => true
  | u :: r => negb (existsb (fun x => (u_slot x =? u_slot u) && (u_key x =? u_key u)) r) && uses_nodup r
  end.

Lemma lookup_cons_other sl k e c :
  (e_slot e =? sl) && (e_key e =? k) = false -> lookup sl k (e :: c) = lookup sl k c.
Proof. intros H. cbn [lookup]. rewrite H. reflexivity. Qed.

Lemma lookup_drop_none l sl k c : mem sl l = true -> lookup sl k (drop l c) = None.
Proof.
  intros Hm. induction c as [|e r IH]; [reflexivity|].
  unfold drop in *. cbn [filter]. destruct (in_slots l e) eqn:Hi; cbn [negb]; [exact IH|].
  cbn [lookup]. destruct (e_slot e =? sl) eqn:Es; cbn [andb]; [|exact IH].
  apply Nat.eqb_eq in Es. unfold in_slots in Hi. rewrite Es in Hi. unfold mem in Hm. rewrite Hm in Hi. discriminate.
Qed.

Lemma consult_all_recomputed pts s ck g us : forall c c' es,
  forallb (train_use_ok fam) us = true -> uses_nodup us = true ->
  (forall u, In u us -> lookup (u_slot u) (u_key u) c = None) ->
  consult_all pts fam s ck g c us = (c', es) ->
  map obs es = map (fun u => (u_key u, own_tag fam s ck (u_slot u))) us.
Proof.
  induction us as [|u r IH]; intros c c' es Hok Hnd Hnone; cbn [consult_all].
  - intros H. injection H as <- <-. reflexivity.
  - cbn [forallb] in Hok. apply andb_prop in Hok. destruct Hok as [Hu Hr].
    cbn [uses_nodup] in Hnd. apply andb_prop in Hnd. destruct Hnd as [Hnu Hndr].
    unfold train_use_ok in Hu. apply andb_prop in Hu. destruct Hu as [Hu Hpar].
    apply andb_prop in Hu. destruct Hu as [_ Hsing]. apply negb_true_iff in Hsing.
    unfold consult at 1. rewrite Hsing. rewrite (Hnone u (or_introl eq_refl)).
    unfold new_tag. destruct (f_parent fam (u_slot u)); [discriminate|].
    set (fe := mkEntry (u_slot u) (u_key u) (own_tag fam s ck (u_slot u)) g).
    destruct (consult_all pts fam s ck g (fe :: c) r) as [c2 es2] eqn:H2.
    intros H. injection H as <- <-. cbn [map]. f_equal.
    apply (IH (fe :: c) c2 es2 Hr Hndr); [|exact H2].
    intros x Hx. rewrite lookup_cons_other; [apply Hnone; right; exact Hx|].
    cbn [fe e_slot e_key]. apply negb_true_iff in Hnu.
    destruct ((u_slot u =? u_slot x) && (u_key u =? u_key x)) eqn:E; [|reflexivity].
    exfalso. apply andb_prop in E. destruct E as [E1 E2]. apply Nat.eqb_eq in E1. apply Nat.eqb_eq in E2.
    assert (Hex : existsb (fun y => (u_slot y =? u_slot u) && (u_key y =? u_key u)) r = true).
    { apply existsb_exists. exists x. split; [exact Hx|]. rewrite E1, E2, !Nat.eqb_refl. reflexivity. }
    rewrite Hex in Hnu. discriminate.
Qed.

Hypothesis Htu : forallb (train_use_ok fam) (f_train_uses fam) = true.
Hypothesis Hnd : uses_nodup (f_train_uses fam) = true.

(* what a training-mode call reports: freshly computed entries, whatever the cache held *)
Lemma call_train_out s g c s1 es :
  training s = true -> call all_on fam s g c = (s1, es) ->
  map obs es = map (fun u => (u_key u, own_tag fam s (f_ck fam c) (u_slot u))) (f_train_uses fam).
Proof.
  intros Htr. unfold call. rewrite Htr. cbn [p_call p_vs all_on andb].
  destruct (consult_all all_on fam s (f_ck fam c) GNone (drop (f_vs_slots fam) (cch s)) (f_train_uses fam))
    as [c2 es2] eqn:H2.
  intros H. injection H as <- <-.
  apply (consult_all_recomputed all_on s (f_ck fam c) GNone (f_train_uses fam) (drop (f_vs_slots fam) (cch s)) c2 es2 Htu Hnd); [|exact H2].
  intros u Hu. apply lookup_drop_none.
  rewrite forallb_forall in Htu. specialize (Htu u Hu). unfold train_use_ok in Htu.
  apply andb_prop in Htu. destruct Htu as [Htu' _]. apply andb_prop in Htu'. tauto.
Qed.

Lemma indep_train s o : training s = true -> indep all_on fam s o = true.
Proof.
  intros Htr. destruct o; try reflexivity; unfold indep.
  - (* Prior *) cbn [step]. rewrite Htr. cbn [fresh training snd]. reflexivity.
  - (* Backward *)
    cbn [step].
    destruct (call all_on fam s GLive 0) as [s1 es] eqn:H1.
    destruct (call all_on fam (fresh (pv s) (dv s) (training s)) GLive 0) as [s2 es2] eqn:H2.
    assert (Htr2 : training (fresh (pv s) (dv s) (training s)) = true) by (cbn [fresh training]; exact Htr).
    rewrite (call_train_out s GLive 0 s1 es Htr H1).
    rewrite (call_train_out _ GLive 0 s2 es2 Htr2 H2).
    rewrite Htr. cbn [snd]. apply obs_eqb_refl.
  - (* Predict *)
    cbn [step].
    destruct (call all_on fam s GNone c) as [s1 es] eqn:H1.
    destruct (call all_on fam (fresh (pv s) (dv s) (training s)) GNone c) as [s2 es2] eqn:H2.
    assert (Htr2 : training (fresh (pv s) (dv s) (training s)) = true) by (cbn [fresh training]; exact Htr).
    cbn [snd].
    rewrite (call_train_out s GNone c s1 es Htr H1).
    rewrite (call_train_out _ GNone c s2 es2 Htr2 H2).
    apply obs_eqb_refl.
Qed.

(* every operation of every admissible history reports exactly what the freshly constructed
   object holding the same versions (in the same mode) reports: the flag the harness reads *)
Lemma indep_always s o :
  Inv fam s -> op_ok fam s o = true -> indep all_on fam s o = true.
Proof.
  intros HI Hok. destruct (training s) eqn:Htr; [apply indep_train; exact Htr|].
  apply indep_eval; assumption.
Qed.

Lemma trace_indep h : forall s,
  Inv fam s -> admissible all_on fam s h = true ->
  Forall (fun r => snd (fst r) = true) (trace all_on fam s h).
Proof.
  induction h as [|o r IH]; intros s HI Ha; cbn [trace]; [constructor|].
  cbn [admissible] in Ha. apply andb_prop in Ha. destruct Ha as [Hok Ha].
  pose proof (Inv_step fam Hwf s o HI Hok) as HI1.
  destruct (step all_on fam s o) as [s1 out] eqn:Hst. cbn [fst] in HI1, Ha.
  constructor; [cbn [fst snd]; apply indep_always; assumption|].
  apply IH; assumption.
Qed.
End Indep.

Lemma wf_train_exact : forallb (train_use_ok fam_exact) (f_train_uses fam_exact) = true /\ uses_nodup (f_train_uses fam_exact) = true.
Proof. split; reflexivity. Qed.
Lemma wf_train_var b : forallb (train_use_ok (fam_var b)) (f_train_uses (fam_var b)) = true /\ uses_nodup (f_train_uses (fam_var b)) = true.
Proof. destruct b; split; reflexivity. Qed.

Lemma wf_train_kiss : forallb (train_use_ok fam_kiss) (f_train_uses fam_kiss) = true /\ uses_nodup (f_train_uses fam_kiss) = true.
Proof. split; reflexivity. Qed.
Lemma wf_train_sgpr : forallb (train_use_ok fam_sgpr) (f_train_uses fam_sgpr) = true /\ uses_nodup (f_train_uses fam_sgpr) = true.
Proof. split; reflexivity. Qed.

(* ---- every invalidation point is needed: counterexamples by computation ---- *)
Definition differs (pts : points) (fam : family) (h : list op) (c : nat) : bool :=
  let s := run pts fam init h in
  admissible pts fam init h && (c <? f_ncfg fam) &&
  negb (obs_eqb (snd (predict_out pts fam s c))
                (snd (predict_out pts fam (fresh (pv s) (dv s) (training s)) c))).

Definition bwd_status (pts : points) (fam : family) (h : list op) : nat :=
  fst (snd (step pts fam (run pts fam init h) OBackward)).

Lemma dropped_refutes :
  differs (points_without 2) (fam_var true) [OTrain; OStep; OEval] 0 = true /\
  differs (points_without 3) fam_exact [OPredict 0; OLoad] 0 = true /\
  differs (points_without 4) fam_exact [OPredict 0; OSetData] 0 = true /\
  differs (points_without 6) (fam_var true) [OTrain; OStep] 0 = true /\
  differs (points_without 7) fam_sgpr [OPredict 0; OLoad] 0 = true /\
  differs (points_without 8) fam_exact [OPredict 0; OLoad] 0 = true /\
  differs (points_without 9) (fam_var true) [OPredict 0; OLoad] 0 = true /\
  differs (points_without 10) fam_kiss [OPredict 1] 2 = true /\
  differs (points_without 11) fam_exact [OPredict 0; OTrain; OStep; OEval] 0 = true /\
  differs (points_without 12) fam_sgpr [OPredict 0] 3 = true /\
  differs (points_without 12) fam_sgpr [OPredict 3] 0 = true /\
  differs (points_without 12) (fam_var true) [OPredict 0] 3 = true /\
  differs (points_without 12) (fam_var false) [OPredict 3; OPrior] 1 = true /\
  differs (points_without 13) fam_kiss_cached_copy [OBackward; OFantasy] 0 = true /\
  differs all_on fam_kiss_cached_copy [OBackward; OFantasy] 0 = false /\
  fst (snd (step all_on fam_kiss (run all_on fam_kiss init [OBackward]) OFantasy)) = ST_OK /\
  (bwd_status all_on fam_exact [OPredict 2; OBackward] = ST_OK /\
   bwd_status (points_without 5) fam_exact [OPredict 2; OBackward] = ST_ERR) /\
  (differs (points_without 14) (fam_var true) [OPredict 8] 0 = true /\
   differs (points_without 14) (fam_var false) [OPredict 9; OPrior] 5 = true /\
   differs (points_without 14) (fam_var true) [OPredict 0] 4 = true /\
   differs (points_without 14) fam_exact [OPredict 8] 0 = false /\
   differs (points_without 10) (fam_var true) [OPredict 8] 0 = false).
Proof. vm_compute. repeat split. Qed.

Lemma differs_sound pts fam h c : differs pts fam h c = true ->
  admissible pts fam init h = true /\ c < f_ncfg fam /\
  predict_out pts fam (run pts fam init h) c <>
  predict_out pts fam (fresh (pv (run pts fam init h)) (dv (run pts fam init h))
                             (training (run pts fam init h))) c.
Proof.
  unfold differs. intros H. apply andb_prop in H. destruct H as [H Hd].
  apply andb_prop in H. destruct H as [Ha Hc].
  apply Nat.ltb_lt in Hc.
  repeat split; try assumption. intros Heq. rewrite Heq in Hd.
  assert (Hrefl : forall l, obs_eqb l l = true).
  { induction l as [|[k t] r IH]; [reflexivity|]. cbn [obs_eqb]. rewrite Nat.eqb_refl, IH.
    unfold tag_eqb. rewrite !Nat.eqb_refl. reflexivity. }
  rewrite Hrefl in Hd. discriminate.
Qed.

(* ---- the families added for NaN targets / the data-following grid ---- *)
Lemma wf_train_exact_nan : forallb (train_use_ok fam_exact_nan) (f_train_uses fam_exact_nan) = true /\ uses_nodup (f_train_uses fam_exact_nan) = true.
Proof. split; reflexivity. Qed.
Lemma wf_train_kiss_dyn : forallb (train_use_ok fam_kiss_dyn) (f_train_uses fam_kiss_dyn) = true /\ uses_nodup (f_train_uses fam_kiss_dyn) = true.
Proof. split; reflexivity. Qed.

(* the grid replacement (clearing K_UU when the data-following grid is laid out anew) is necessary:
   without it a prediction inside the training range followed by one outside it (or the reverse, also
   with set_train_data in between) multiplies the interpolation weights of the new grid with the K_UU
   of the old one; the per-policy key of mean_cache keeps 'ignore' / 'mask' / 'fill' apart *)
Definition ex_hist_nan : list op := [OPredict 0; OPredict 1; OPredict 2; OSetData; OPredict 3; OPredict 0; OPredict 2].
Lemma grid_and_nan_examples :
  differs (points_without 12) fam_kiss_dyn [OPredict 0] 3 = true /\
  differs (points_without 12) fam_kiss_dyn [OPredict 3] 1 = true /\
  differs (points_without 12) fam_kiss_dyn [OPredict 3; OSetData] 0 = true /\
  differs all_on fam_kiss_dyn [OPredict 3; OSetData] 0 = false /\
  admissible all_on fam_exact_nan init ex_hist_nan = true /\
  map (fun e => (e_slot e, e_key e)) (cch (run all_on fam_exact_nan init ex_hist_nan)) = [(MEAN, 2); (MEAN, 0); (MEAN, 1); (STRAT, 0)] /\
  wf_family fam_exact_nan = true /\ wf_family fam_kiss_dyn = true.
Proof. vm_compute. repeat split; reflexivity. Qed.

Definition ex_hist : list op :=
  [OPredict 0; OBackward; OTrain; OStep; OEval; OSetData; OPredict 2; OLoad; OFantasy; OPredict 1; OFantasy; OPrior].
Lemma ex_hist_ok :
  admissible all_on fam_exact init ex_hist = true /\ training (run all_on fam_exact init ex_hist) = false /\
  pv (run all_on fam_exact init ex_hist) = 2 /\ dv (run all_on fam_exact init ex_hist) = 1 /\
  length (cch (run all_on fam_exact init ex_hist)) = 3.
Proof. vm_compute. repeat split. Qed.

(* a history through the settings-changing configurations of SGPR and of a variational GP *)
Definition ex_hist_sgpr : list op := [OPredict 0; OPredict 3; OPredict 2; OSetData; OPredict 3; OPredict 1].
Definition ex_hist_var : list op := [OPredict 3; OTrain; OPredict 3; OStep; OEval; OPredict 0; OFantasy; OPredict 3].
Lemma ex_hist_settings_ok :
  admissible all_on fam_sgpr init ex_hist_sgpr = true /\ training (run all_on fam_sgpr init ex_hist_sgpr) = false /\
  sck (run all_on fam_sgpr init ex_hist_sgpr) = 0 /\ length (cch (run all_on fam_sgpr init ex_hist_sgpr)) = 4 /\
  admissible all_on (fam_var true) init ex_hist_var = true /\
  training (run all_on (fam_var true) init ex_hist_var) = false /\
  sck (run all_on (fam_var true) init ex_hist_var) = 1 /\
  length (cch (run all_on (fam_var true) init ex_hist_var)) = 2.
Proof. vm_compute. repeat split. Qed.

(* a history through predictions at all three input batch shapes of a variational GP: the single Cholesky
   entry ends up keyed by the shape of the last call *)
Definition ex_hist_shapes : list op := [OPredict 8; OPredict 0; OPredict 5; OBackward; OPredict 11; OFantasy; OPredict 4].
Lemma ex_hist_shapes_ok :
  admissible all_on (fam_var true) init ex_hist_shapes = true /\
  training (run all_on (fam_var true) init ex_hist_shapes) = false /\
  map (fun e => (e_slot e, e_key e)) (cch (run all_on (fam_var true) init ex_hist_shapes)) = [(CHOL, 1); (VDIST, 0)] /\
  map (fun u => (u_slot u, u_key u)) (f_uses (fam_var true) 9) = [(VDIST, 0); (CHOL, 2)].
Proof. vm_compute. repeat split. Qed.

Lemma ex_train_uses_ok :
  forall fam, In fam [fam_exact; fam_kiss; fam_sgpr; fam_var true; fam_var false] ->
    forallb (train_use_ok fam) (f_train_uses fam) = true /\ uses_nodup (f_train_uses fam) = true.
Proof. intros fam [<-|[<-|[<-|[<-|[<-|[]]]]]]; split; reflexivity. Qed.
Lemma ex_wf_all : wf_family fam_exact = true /\ wf_family fam_kiss = true /\ wf_family fam_sgpr = true /\
                  wf_family (fam_var true) = true /\ wf_family (fam_var false) = true.
Proof. repeat split; reflexivity. Qed.

(* the three parts of the invariant theorem as one statement *)
Lemma valid_caches_invariant fam : wf_family fam = true ->
    Inv fam init /\
    (forall s o, Inv fam s -> op_ok fam s o = true -> Inv fam (fst (step all_on fam s o))) /\
    (forall h, admissible all_on fam init h = true -> Inv fam (run all_on fam init h)).
Proof.
  intros H. split; [exact (Inv_init fam)|]. split; [exact (Inv_step fam H)|].
  intros h. exact (Inv_run fam H h init (Inv_init fam)).
Qed.
