(* C03 proofs: the valid-caches invariant over ALL histories (induction on the op list) and
   history independence of eval-mode predictions, for every family descriptor that passes the
   decidable well-formedness check [wf_family]; counterexamples for each removed invalidation
   point. *)
From Coq Require Import Arith List Bool Lia.
From GPV Require Import Models.C03_cache.
Import ListNotations.

Definition all_slots (fam : family) : list nat := module_slots all_on fam.

(* the tag an entry of slot sl must carry when the object holds versions (v, w) *)
Definition cur_tag (fam : family) (v w sl : nat) : tag :=
  mkTag v (if f_ddep fam sl then w else 0) 0.
Definition entry_cur (fam : family) (v w : nat) (e : entry) : Prop :=
  e_tag e = cur_tag fam v w (e_slot e).
Definition slot_ok (fam : family) (e : entry) : Prop := In (e_slot e) (all_slots fam).

(* every cache entry lives in a slot some module's _clear_cache owns; while in eval mode every
   entry was computed from the current parameters and data under keyed settings *)
Definition Inv (fam : family) (s : state) : Prop :=
  Forall (slot_ok fam) (cch s) /\
  (training s = false -> Forall (entry_cur fam (pv s) (dv s)) (cch s)).

(* ---- decidable side conditions on a family descriptor ---- *)
Definition mem (x : nat) (l : list nat) : bool := existsb (Nat.eqb x) l.
Definition use_wf (fam : family) (u : use) : bool :=
  mem (u_slot u) (all_slots fam) &&
  match f_parent fam (u_slot u) with
  | Some ps => Bool.eqb (f_ddep fam ps) (f_ddep fam (u_slot u))
  | None => true
  end.
Definition use_keyed (u : use) : bool := u_ck u =? 0.
Definition cfg_keyed (fam : family) (c : nat) : bool := forallb use_keyed (f_uses fam c).
Definition wf_family (fam : family) : bool :=
  forallb (fun c => forallb (use_wf fam) (f_uses fam c)) (seq 0 (f_ncfg fam)) &&
  forallb (fun u => use_wf fam u && use_keyed u)
          (f_uses fam 0 ++ f_train_uses fam ++ f_prior_uses fam ++ f_fant_uses fam) &&
  forallb (fun sl => implb (f_ddep fam sl) (mem sl (f_strat_slots fam))) (all_slots fam).

(* settings that are not part of any cache key are held at their default in the history *)
Definition op_keyed (fam : family) (o : op) : bool :=
  match o with OPredict c => cfg_keyed fam c | _ => true end.
Definition keyed_history (fam : family) (h : list op) : bool := forallb (op_keyed fam) h.

(* ---- list / cache lemmas ---- *)
Lemma mem_In x l : mem x l = true <-> In x l.
Proof.
  unfold mem. rewrite existsb_exists. split.
  - intros [y [Hy He]]. apply Nat.eqb_eq in He. subst. exact Hy.
  - intros H. exists x. split; [exact H | apply Nat.eqb_refl].
Qed.

Lemma drop_Forall (P : entry -> Prop) l c : Forall P c -> Forall P (drop l c).
Proof.
  unfold drop. intros H. rewrite Forall_forall in *. intros e He.
  apply filter_In in He. apply H. tauto.
Qed.

Lemma drop_all_nil fam c : Forall (slot_ok fam) c -> drop (all_slots fam) c = [].
Proof.
  induction c as [|e r IH]; intros H; [reflexivity|].
  inversion H as [|? ? He Hr]; subst. unfold drop in *. cbn [filter].
  assert (Hin : in_slots (all_slots fam) e = true).
  { unfold in_slots. apply mem_In. exact He. }
  rewrite Hin. cbn [negb]. apply IH. exact Hr.
Qed.

Lemma drop_not_in l c e : In e (drop l c) -> In e c /\ ~ In (e_slot e) l.
Proof.
  unfold drop. intros H. apply filter_In in H. destruct H as [H1 H2]. split; [exact H1|].
  intros Hin. apply mem_In in Hin. unfold in_slots in H2. unfold mem in Hin. rewrite Hin in H2. discriminate.
Qed.

Lemma lookup_In sl k c e : lookup sl k c = Some e -> In e c /\ e_slot e = sl /\ e_key e = k.
Proof.
  induction c as [|x r IH]; cbn [lookup]; [discriminate|].
  destruct ((e_slot x =? sl) && (e_key x =? k)) eqn:Hb.
  - intros H. injection H as <-. apply andb_prop in Hb. destruct Hb as [H1 H2].
    apply Nat.eqb_eq in H1. apply Nat.eqb_eq in H2. split; [left; reflexivity | split; assumption].
  - intros H. destruct (IH H) as [H1 H2]. split; [right; exact H1 | exact H2].
Qed.

Lemma lookup_slot_In sl c e : lookup_slot sl c = Some e -> In e c /\ e_slot e = sl.
Proof.
  induction c as [|x r IH]; cbn [lookup_slot]; [discriminate|].
  destruct (e_slot x =? sl) eqn:Hb.
  - intros H. injection H as <-. apply Nat.eqb_eq in Hb. split; [left; reflexivity | exact Hb].
  - intros H. destruct (IH H) as [H1 H2]. split; [right; exact H1 | exact H2].
Qed.

(* ---- one consultation from a valid cache returns a current entry and keeps the cache valid *)
Section Consult.
Variable fam : family.
Variables v w : nat.
Variable tr : bool.

Let P (c : cache) : Prop := Forall (slot_ok fam) c /\ Forall (entry_cur fam v w) c.

Lemma new_tag_cur c u cc :
  P c -> use_wf fam u = true -> use_keyed u = true ->
  new_tag fam (mkSt v w tr cc) c u = cur_tag fam v w (u_slot u).
Proof.
  intros [_ Hc] Hwf Hk. unfold new_tag. cbn [pv dv].
  unfold use_keyed in Hk. apply Nat.eqb_eq in Hk.
  unfold use_wf in Hwf. apply andb_prop in Hwf. destruct Hwf as [_ Hpar].
  destruct (f_parent fam (u_slot u)) as [ps|].
  - destruct (lookup_slot ps c) as [pe|] eqn:Hl.
    + destruct (lookup_slot_In _ _ _ Hl) as [Hin Hsl].
      rewrite Forall_forall in Hc. rewrite (Hc pe Hin). unfold cur_tag.
      rewrite Hsl. apply Bool.eqb_prop in Hpar. rewrite Hpar. reflexivity.
    + unfold cur_tag. rewrite Hk. reflexivity.
  - unfold cur_tag. rewrite Hk. reflexivity.
Qed.

Lemma consult_cur g c u cc c' e :
  P c -> use_wf fam u = true -> use_keyed u = true ->
  consult all_on fam (mkSt v w tr cc) g c u = (c', e) ->
  P c' /\ obs e = (u_key u, cur_tag fam v w (u_slot u)).
Proof.
  intros HP Hwf Hk. pose proof (new_tag_cur c u cc HP Hwf Hk) as Hnt.
  destruct HP as [Hs Hc].
  assert (Hslot : In (u_slot u) (all_slots fam)).
  { unfold use_wf in Hwf. apply andb_prop in Hwf. apply mem_In. tauto. }
  set (fe := mkEntry (u_slot u) (u_key u) (new_tag fam (mkSt v w tr cc) c u) g).
  assert (Hfe_s : slot_ok fam fe) by exact Hslot.
  assert (Hfe_c : entry_cur fam v w fe) by (unfold entry_cur, fe; cbn [e_tag e_slot]; exact Hnt).
  assert (Hfe_o : obs fe = (u_key u, cur_tag fam v w (u_slot u))).
  { unfold obs, fe. cbn [e_key e_tag]. rewrite Hnt. reflexivity. }
  unfold consult. fold fe. cbn [p_pop all_on].
  destruct (u_single u).
  - destruct (lookup_slot (u_slot u) c) as [x|] eqn:Hl.
    + destruct (lookup_slot_In _ _ _ Hl) as [Hin Hsl].
      destruct (e_key x =? u_key u) eqn:Hkey.
      * intros H. injection H as <- <-. split; [split; assumption|].
        apply Nat.eqb_eq in Hkey. unfold obs. rewrite Hkey.
        rewrite Forall_forall in Hc. rewrite (Hc x Hin). rewrite Hsl. reflexivity.
      * intros H. injection H as <- <-. split; [|exact Hfe_o].
        split; constructor; try assumption; apply drop_Forall; assumption.
    + intros H. injection H as <- <-. split; [|exact Hfe_o].
      split; constructor; assumption.
  - destruct (lookup (u_slot u) (u_key u) c) as [x|] eqn:Hl.
    + destruct (lookup_In _ _ _ _ Hl) as [Hin [Hsl Hkey]].
      intros H. injection H as <- <-. split; [split; assumption|].
      unfold obs. rewrite Hkey. rewrite Forall_forall in Hc. rewrite (Hc x Hin). rewrite Hsl. reflexivity.
    + intros H. injection H as <- <-. split; [|exact Hfe_o].
      split; constructor; assumption.
Qed.

Lemma consult_all_cur g us : forall c cc c' es,
  P c -> forallb (fun u => use_wf fam u && use_keyed u) us = true ->
  consult_all all_on fam (mkSt v w tr cc) g c us = (c', es) ->
  P c' /\ map obs es = map (fun u => (u_key u, cur_tag fam v w (u_slot u))) us.
Proof.
  induction us as [|u r IH]; intros c cc c' es HP Hus; cbn [consult_all].
  - intros H. injection H as <- <-. split; [exact HP | reflexivity].
  - cbn [forallb] in Hus. apply andb_prop in Hus. destruct Hus as [Hu Hr].
    apply andb_prop in Hu. destruct Hu as [Hwf Hk].
    destruct (consult all_on fam (mkSt v w tr cc) g c u) as [c1 e] eqn:H1.
    destruct (consult_all all_on fam (mkSt v w tr cc) g c1 r) as [c2 es2] eqn:H2.
    intros H. injection H as <- <-.
    destruct (consult_cur g c u cc c1 e HP Hwf Hk H1) as [HP1 Ho].
    destruct (IH c1 cc c2 es2 HP1 Hr H2) as [HP2 Hm].
    split; [exact HP2|]. cbn [map]. rewrite Ho, Hm. reflexivity.
Qed.

End Consult.

(* only the slots part (used in training mode, where entries may be stale) *)
Lemma consult_slots fam pts s g c u c' e :
  Forall (slot_ok fam) c -> use_wf fam u = true ->
  consult pts fam s g c u = (c', e) -> Forall (slot_ok fam) c'.
Proof.
  intros Hs Hwf.
  assert (Hslot : In (u_slot u) (all_slots fam)).
  { unfold use_wf in Hwf. apply andb_prop in Hwf. apply mem_In. tauto. }
  unfold consult. destruct (u_single u).
  - destruct (lookup_slot (u_slot u) c) as [x|].
    + destruct (e_key x =? u_key u); [intros H; injection H as <- <-; exact Hs|].
      destruct (p_pop pts); intros H; injection H as <- <-; [|exact Hs].
      constructor; [exact Hslot | apply drop_Forall; exact Hs].
    + intros H. injection H as <- <-. constructor; [exact Hslot | exact Hs].
  - destruct (lookup (u_slot u) (u_key u) c) as [x|]; intros H; injection H as <- <-; [exact Hs|].
    constructor; [exact Hslot | exact Hs].
Qed.

Lemma consult_all_slots fam pts s g us : forall c c' es,
  Forall (slot_ok fam) c -> forallb (use_wf fam) us = true ->
  consult_all pts fam s g c us = (c', es) -> Forall (slot_ok fam) c'.
Proof.
  induction us as [|u r IH]; intros c c' es Hs Hus; cbn [consult_all].
  - intros H. injection H as <- <-. exact Hs.
  - cbn [forallb] in Hus. apply andb_prop in Hus. destruct Hus as [Hu Hr].
    destruct (consult pts fam s g c u) as [c1 e] eqn:H1.
    destruct (consult_all pts fam s g c1 r) as [c2 es2] eqn:H2.
    intros H. injection H as <- <-.
    apply (IH c1 c2 es2); [|exact Hr|exact H2].
    exact (consult_slots fam pts s g c u c1 e Hs Hu H1).
Qed.


(* ---- facts extracted from wf_family ---- *)
Lemma forallb_app {T} (f : T -> bool) a b : forallb f (a ++ b) = true -> forallb f a = true /\ forallb f b = true.
Proof. rewrite forallb_app. apply andb_prop. Qed.

Lemma forallb_weaken {T} (f g : T -> bool) l :
  (forall x, f x = true -> g x = true) -> forallb f l = true -> forallb g l = true.
Proof. intros H. rewrite !forallb_forall. intros Hf x Hx. apply H, Hf, Hx. Qed.

Section WF.
Variable fam : family.
Hypothesis Hwf : wf_family fam = true.

Lemma wf_cfg c : c < f_ncfg fam -> forallb (use_wf fam) (f_uses fam c) = true.
Proof.
  intros Hc. unfold wf_family in Hwf. apply andb_prop in Hwf. destruct Hwf as [H _].
  apply andb_prop in H. destruct H as [H _]. rewrite forallb_forall in H. apply H. apply in_seq. lia.
Qed.
Lemma wf_lists :
  forallb (fun u => use_wf fam u && use_keyed u) (f_uses fam 0) = true /\
  forallb (fun u => use_wf fam u && use_keyed u) (f_train_uses fam) = true /\
  forallb (fun u => use_wf fam u && use_keyed u) (f_prior_uses fam) = true /\
  forallb (fun u => use_wf fam u && use_keyed u) (f_fant_uses fam) = true.
Proof.
  unfold wf_family in Hwf. apply andb_prop in Hwf. destruct Hwf as [H _].
  apply andb_prop in H. destruct H as [_ H].
  apply forallb_app in H. destruct H as [H0 H]. apply forallb_app in H. destruct H as [H1 H].
  apply forallb_app in H. destruct H as [H2 H3]. tauto.
Qed.
Lemma wf_ddep sl : In sl (all_slots fam) -> f_ddep fam sl = true -> In sl (f_strat_slots fam).
Proof.
  intros Hin Hd. unfold wf_family in Hwf. apply andb_prop in Hwf. destruct Hwf as [_ H].
  rewrite forallb_forall in H. specialize (H sl Hin). rewrite Hd in H. cbn [implb] in H. apply mem_In. exact H.
Qed.
Lemma both_of c : forallb (use_wf fam) (f_uses fam c) = true -> cfg_keyed fam c = true ->
  forallb (fun u => use_wf fam u && use_keyed u) (f_uses fam c) = true.
Proof.
  unfold cfg_keyed. rewrite !forallb_forall. intros H1 H2 x Hx. rewrite (H1 x Hx), (H2 x Hx). reflexivity.
Qed.
Lemma only_wf us : forallb (fun u => use_wf fam u && use_keyed u) us = true -> forallb (use_wf fam) us = true.
Proof. apply forallb_weaken. intros x H. apply andb_prop in H. tauto. Qed.

(* ---- eval-mode call from a valid state ---- *)
Lemma call_eval s g c s1 es :
  Inv fam s -> training s = false -> c < f_ncfg fam -> cfg_keyed fam c = true ->
  call all_on fam s g c = (s1, es) ->
  pv s1 = pv s /\ dv s1 = dv s /\ training s1 = false /\
  Forall (slot_ok fam) (cch s1) /\ Forall (entry_cur fam (pv s) (dv s)) (cch s1) /\
  map obs es = map (fun u => (u_key u, cur_tag fam (pv s) (dv s) (u_slot u))) (f_uses fam c).
Proof.
  intros [Hs Hc] Htr Hcn Hck. unfold call. rewrite Htr.
  destruct s as [v w tr cc]. cbn [pv dv training cch] in *. subst tr.
  destruct (consult_all all_on fam (mkSt v w false cc) g cc (f_uses fam c)) as [c2 es2] eqn:H2.
  intros H. injection H as <- <-.
  destruct (consult_all_cur fam v w false g (f_uses fam c) cc cc c2 es2
              (conj Hs (Hc eq_refl)) (both_of c (wf_cfg c Hcn) Hck) H2) as [[Hs2 Hc2] Hm].
  cbn [set_cache pv dv training cch]. tauto.
Qed.

Lemma call_train s g c s1 es :
  Inv fam s -> training s = true -> call all_on fam s g c = (s1, es) ->
  pv s1 = pv s /\ dv s1 = dv s /\ training s1 = true /\ Forall (slot_ok fam) (cch s1).
Proof.
  intros [Hs _] Htr. unfold call. rewrite Htr. cbn [p_call p_vs all_on andb].
  destruct (consult_all all_on fam s GNone (drop (f_vs_slots fam) (cch s)) (f_train_uses fam)) as [c2 es2] eqn:H2.
  intros H. injection H as <- <-. cbn [set_cache pv dv training cch].
  repeat split; try assumption.
  destruct wf_lists as [_ [Ht _]].
  apply (consult_all_slots fam all_on s GNone (f_train_uses fam) (drop (f_vs_slots fam) (cch s)) c2 es2); [|apply only_wf; exact Ht|exact H2].
  apply drop_Forall. exact Hs.
Qed.

Lemma free_graphs_Forall (Q : entry -> Prop) es c :
  (forall e g, Q e -> Q (mkEntry (e_slot e) (e_key e) (e_tag e) g)) ->
  Forall Q c -> Forall Q (free_graphs es c).
Proof.
  intros HQ H. unfold free_graphs. rewrite Forall_forall in *. intros x Hx.
  apply in_map_iff in Hx. destruct Hx as [e [He Hin]]. subst x.
  destruct (is_live e && existsb (same_entry e) es); [apply HQ|]; apply H; exact Hin.
Qed.

(* ---- the invariant is preserved by every admissible operation ---- *)
Lemma Inv_step s o :
  Inv fam s -> op_ok fam s o = true -> op_keyed fam o = true ->
  Inv fam (fst (step all_on fam s o)).
Proof.
  intros HI Hok Hk. pose proof HI as [Hs Hc].
  destruct o; cbn [step].
  - (* Train *) cbn [p_to_train all_on]. split; cbn [cch training fst]; [|discriminate].
    apply drop_Forall. exact Hs.
  - (* Eval *) cbn [p_to_eval all_on]. destruct (training s) eqn:Htr; cbn [andb fst].
    + unfold clear_modules. fold (all_slots fam). rewrite (drop_all_nil fam _ Hs).
      split; cbn [cch]; intros; constructor.
    + split; cbn [cch pv dv training]; [exact Hs | intros _; exact (Hc eq_refl)].
  - (* Step *) cbn [op_ok] in Hok. rewrite Hok.
    destruct (call all_on fam s GNone 0) as [s1 es] eqn:H1. cbn [fst].
    destruct (call_train s GNone 0 s1 es HI Hok H1) as [_ [_ [Ht Hs1]]].
    split; cbn [bump_pv cch training]; [exact Hs1 | rewrite Ht; discriminate].
  - (* SetData *) destruct (f_has_data fam); cbn [fst]; [|exact HI].
    cbn [p_setdata all_on]. split; cbn [cch pv dv training].
    + apply drop_Forall. exact Hs.
    + intros Htr. specialize (Hc Htr). rewrite Forall_forall in *. intros e He.
      destruct (drop_not_in _ _ _ He) as [Hin Hns].
      unfold entry_cur in *. rewrite (Hc e Hin). unfold cur_tag.
      destruct (f_ddep fam (e_slot e)) eqn:Hd; [|reflexivity].
      exfalso. apply Hns. apply wf_ddep; [apply Hs; exact Hin | exact Hd].
  - (* Load *) cbn [p_load all_on fst]. unfold clear_modules. fold (all_slots fam).
    rewrite (drop_all_nil fam _ Hs). split; cbn [cch]; intros; constructor.
  - (* Fantasy *)
    destruct ((match f_fant_req fam with
               | Some sl => match lookup_slot sl (cch s) with Some _ => true | None => false end
               | None => true end) && f_fant_ok fam &&
              negb (existsb (fun e => in_slots (f_fant_copy fam) e &&
                                      match e_g e with GNone => false | _ => true end) (cch s)));
      cbn [fst]; [|exact HI].
    destruct wf_lists as [_ [_ [_ Hf]]].
    destruct (training s) eqn:Htr.
    + destruct (consult_all all_on fam s GNone (cch s) (f_fant_uses fam)) as [c2 es2] eqn:H2.
      cbn [fst set_cache]. split; [|unfold set_cache; cbn [training]; rewrite Htr; discriminate]. cbn [cch].
      exact (consult_all_slots fam all_on s GNone (f_fant_uses fam) (cch s) c2 es2 Hs (only_wf _ Hf) H2).
    + destruct s as [v w tr cc]. cbn [pv dv training cch] in *. subst tr.
      destruct (consult_all all_on fam (mkSt v w false cc) GNone cc (f_fant_uses fam)) as [c2 es2] eqn:H2.
      cbn [fst set_cache pv dv training cch].
      destruct (consult_all_cur fam v w false GNone (f_fant_uses fam) cc cc c2 es2 (conj Hs (Hc eq_refl)) Hf H2)
        as [[Hs2 Hc2] _].
      split; cbn [cch pv dv training]; [exact Hs2 | intros _; exact Hc2].
  - (* Prior *) destruct (training s) eqn:Htr; cbn [fst]; [exact HI|].
    destruct s as [v w tr cc]. cbn [pv dv training cch] in *. subst tr.
    destruct (consult_all all_on fam (mkSt v w false cc) GNone cc (f_prior_uses fam)) as [c2 es2] eqn:H2.
    cbn [fst set_cache pv dv training cch].
    destruct wf_lists as [_ [_ [Hp _]]].
    destruct (consult_all_cur fam v w false GNone (f_prior_uses fam) cc cc c2 es2 (conj Hs (Hc eq_refl)) Hp H2)
      as [[Hs2 Hc2] _].
    split; cbn [cch pv dv training]; [exact Hs2 | intros _; exact Hc2].
  - (* Backward *)
    destruct (call all_on fam s GLive 0) as [s1 es] eqn:H1.
    destruct (training s) eqn:Htr; cbn [fst].
    + destruct (call_train s GLive 0 s1 es HI Htr H1) as [_ [_ [Ht Hs1]]].
      split; [exact Hs1 | rewrite Ht; discriminate].
    + assert (Hk0 : cfg_keyed fam 0 = true).
      { destruct wf_lists as [H0 _]. unfold cfg_keyed. revert H0. apply forallb_weaken.
        intros x H. apply andb_prop in H. tauto. }
      assert (Hw0 : forallb (use_wf fam) (f_uses fam 0) = true).
      { destruct wf_lists as [H0 _]. apply only_wf. exact H0. }
      assert (Hcall : pv s1 = pv s /\ dv s1 = dv s /\ training s1 = false /\
                Forall (slot_ok fam) (cch s1) /\ Forall (entry_cur fam (pv s) (dv s)) (cch s1)).
      { revert H1. unfold call. rewrite Htr.
        destruct s as [v w tr cc]. cbn [pv dv training cch] in *. subst tr.
        destruct (consult_all all_on fam (mkSt v w false cc) GLive cc (f_uses fam 0)) as [c2 es2] eqn:H2.
        intros H. injection H as <- <-.
        destruct (consult_all_cur fam v w false GLive (f_uses fam 0) cc cc c2 es2
                    (conj Hs (Hc eq_refl)) (both_of 0 Hw0 Hk0) H2) as [[Hs2 Hc2] _].
        cbn [set_cache pv dv training cch]. tauto. }
      destruct Hcall as [Hp [Hd [Ht [Hs1 Hc1]]]].
      destruct (existsb is_freed es); cbn [fst].
      * split; [exact Hs1 | intros _; rewrite Hp, Hd; exact Hc1].
      * cbn [p_hook all_on]. rewrite andb_true_r.
        assert (Hs2 : Forall (slot_ok fam) (free_graphs es (cch s1))).
        { apply free_graphs_Forall; [intros e g H; exact H | exact Hs1]. }
        assert (Hc2 : Forall (entry_cur fam (pv s) (dv s)) (free_graphs es (cch s1))).
        { apply free_graphs_Forall; [intros e g H; exact H | exact Hc1]. }
        destruct (existsb (fun e => is_live e && in_slots (f_hook_slots fam) e) es);
          split; cbn [set_cache cch pv dv training]; rewrite ?Hp, ?Hd;
          try (apply drop_Forall); try assumption; intros _; try (apply drop_Forall); assumption.
  - (* Predict *) cbn [op_ok] in Hok. apply Nat.ltb_lt in Hok. cbn [op_keyed] in Hk.
    destruct (call all_on fam s GNone c) as [s1 es] eqn:H1. cbn [fst].
    destruct (training s) eqn:Htr.
    + destruct (call_train s GNone c s1 es HI Htr H1) as [_ [_ [Ht Hs1]]].
      split; [exact Hs1 | rewrite Ht; discriminate].
    + destruct (call_eval s GNone c s1 es HI Htr Hok Hk H1) as [Hp [Hd [Ht [Hs1 [Hc1 _]]]]].
      split; [exact Hs1 | intros _; rewrite Hp, Hd; exact Hc1].
Qed.

Lemma Inv_init : Inv fam init.
Proof. split; cbn [init cch]; intros; constructor. Qed.

Lemma Inv_fresh v w tr : Inv fam (fresh v w tr).
Proof. split; cbn [fresh cch]; intros; constructor. Qed.

Lemma Inv_run h : forall s,
  Inv fam s -> admissible all_on fam s h = true -> keyed_history fam h = true ->
  Inv fam (run all_on fam s h).
Proof.
  induction h as [|o r IH]; intros s HI Ha Hk; cbn [run]; [exact HI|].
  cbn [admissible] in Ha. apply andb_prop in Ha. destruct Ha as [Hok Ha].
  cbn [keyed_history forallb] in Hk. apply andb_prop in Hk. destruct Hk as [Hko Hk].
  apply IH; [apply Inv_step; assumption | exact Ha | exact Hk].
Qed.

(* ---- what an eval-mode prediction returns from ANY valid state ---- *)
Lemma predict_out_eval s c :
  Inv fam s -> training s = false -> c < f_ncfg fam -> cfg_keyed fam c = true ->
  predict_out all_on fam s c =
    (ST_OK, map (fun u => (u_key u, cur_tag fam (pv s) (dv s) (u_slot u))) (f_uses fam c)).
Proof.
  intros HI Htr Hc Hk. unfold predict_out. cbn [step].
  destruct (call all_on fam s GNone c) as [s1 es] eqn:H1. cbn [snd].
  destruct (call_eval s GNone c s1 es HI Htr Hc Hk H1) as [_ [_ [_ [_ [_ Hm]]]]].
  rewrite Hm. reflexivity.
Qed.

Lemma history_independence_gen h c :
  admissible all_on fam init h = true -> keyed_history fam h = true ->
  c < f_ncfg fam -> cfg_keyed fam c = true ->
  training (run all_on fam init h) = false ->
  predict_out all_on fam (run all_on fam init h) c =
  predict_out all_on fam (fresh (pv (run all_on fam init h)) (dv (run all_on fam init h)) false) c.
Proof.
  intros Ha Hk Hc Hck Htr.
  rewrite (predict_out_eval _ c (Inv_run h init Inv_init Ha Hk) Htr Hc Hck).
  rewrite (predict_out_eval _ c (Inv_fresh _ _ false) eq_refl Hc Hck).
  reflexivity.
Qed.
End WF.

(* ---- the four concrete families are well formed; exact and KISS-GP key every setting ---- *)
Lemma wf_exact : wf_family fam_exact = true. Proof. reflexivity. Qed.
Lemma wf_kiss : wf_family fam_kiss = true. Proof. reflexivity. Qed.
Lemma wf_sgpr : wf_family fam_sgpr = true. Proof. reflexivity. Qed.
Lemma wf_var b : wf_family (fam_var b) = true. Proof. destruct b; reflexivity. Qed.

Lemma all_keyed_exact c : cfg_keyed fam_exact c = true.
Proof. do 4 (destruct c as [|c]; [reflexivity|]). reflexivity. Qed.
Lemma all_keyed_kiss c : cfg_keyed fam_kiss c = true.
Proof. do 4 (destruct c as [|c]; [reflexivity|]). reflexivity. Qed.

Lemma keyed_history_all fam h : (forall c, cfg_keyed fam c = true) -> keyed_history fam h = true.
Proof.
  intros H. unfold keyed_history. apply forallb_forall. intros o _. destruct o; try reflexivity. apply H.
Qed.

(* ---- every invalidation point is needed: counterexamples by computation ---- *)
Definition differs (pts : points) (fam : family) (h : list op) (c : nat) : bool :=
  let s := run pts fam init h in
  admissible pts fam init h && keyed_history fam h && cfg_keyed fam c &&
  negb (obs_eqb (snd (predict_out pts fam s c))
                (snd (predict_out pts fam (fresh (pv s) (dv s) (training s)) c))).

Definition bwd_status (pts : points) (fam : family) (h : list op) : nat :=
  fst (snd (step pts fam (run pts fam init h) OBackward)).

Lemma dropped_refutes :
  differs (points_without 2) (fam_var true) [OTrain; OStep; OEval] 0 = true /\
  differs (points_without 3) fam_exact [OPredict 0; OLoad] 0 = true /\
  differs (points_without 4) fam_exact [OPredict 0; OSetData] 0 = true /\
  differs (points_without 6) (fam_var true) [OTrain; OStep] 0 = true /\
  differs (points_without 7) fam_sgpr [OPredict 0; OLoad] 0 = true /\
  differs (points_without 8) fam_exact [OPredict 0; OLoad] 0 = true /\
  differs (points_without 9) (fam_var true) [OPredict 0; OLoad] 0 = true /\
  differs (points_without 10) fam_kiss [OPredict 1] 2 = true /\
  differs (points_without 11) fam_exact [OPredict 0; OTrain; OStep; OEval] 0 = true /\
  (bwd_status all_on fam_exact [OPredict 2; OBackward] = ST_OK /\
   bwd_status (points_without 5) fam_exact [OPredict 2; OBackward] = ST_ERR).
Proof. vm_compute. repeat split. Qed.

Lemma differs_sound pts fam h c : differs pts fam h c = true ->
  admissible pts fam init h = true /\ keyed_history fam h = true /\ cfg_keyed fam c = true /\
  predict_out pts fam (run pts fam init h) c <>
  predict_out pts fam (fresh (pv (run pts fam init h)) (dv (run pts fam init h))
                             (training (run pts fam init h))) c.
Proof.
  unfold differs. intros H. apply andb_prop in H. destruct H as [H Hd].
  apply andb_prop in H. destruct H as [H Hc]. apply andb_prop in H. destruct H as [Ha Hk].
  repeat split; try assumption. intros Heq. rewrite Heq in Hd.
  assert (Hrefl : forall l, obs_eqb l l = true).
  { induction l as [|[k t] r IH]; [reflexivity|]. cbn [obs_eqb]. rewrite Nat.eqb_refl, IH.
    unfold tag_eqb. rewrite !Nat.eqb_refl. reflexivity. }
  rewrite Hrefl in Hd. discriminate.
Qed.

(* settings that no cache key records: the faithful model is history DEPENDENT when they vary *)
Lemma sgpr_unkeyed_refuted :
  exists h c, admissible all_on fam_sgpr init h = true /\ c < f_ncfg fam_sgpr /\
    training (run all_on fam_sgpr init h) = false /\
    predict_out all_on fam_sgpr (run all_on fam_sgpr init h) c <>
    predict_out all_on fam_sgpr (fresh (pv (run all_on fam_sgpr init h)) (dv (run all_on fam_sgpr init h)) false) c.
Proof.
  exists [OPredict 3], 0. vm_compute. repeat split; try lia. intros H. discriminate H.
Qed.

Lemma var_unkeyed_refuted :
  exists h c, admissible all_on (fam_var true) init h = true /\ c < f_ncfg (fam_var true) /\
    training (run all_on (fam_var true) init h) = false /\
    predict_out all_on (fam_var true) (run all_on (fam_var true) init h) c <>
    predict_out all_on (fam_var true)
      (fresh (pv (run all_on (fam_var true) init h)) (dv (run all_on (fam_var true) init h)) false) c.
Proof.
  exists [OPredict 3], 0. vm_compute. repeat split; try lia. intros H. discriminate H.
Qed.

Definition ex_hist : list op :=
  [OPredict 0; OBackward; OTrain; OStep; OEval; OSetData; OPredict 2; OLoad; OFantasy; OPredict 1; OFantasy; OPrior].
Lemma ex_hist_ok :
  admissible all_on fam_exact init ex_hist = true /\ training (run all_on fam_exact init ex_hist) = false /\
  pv (run all_on fam_exact init ex_hist) = 2 /\ dv (run all_on fam_exact init ex_hist) = 1 /\
  length (cch (run all_on fam_exact init ex_hist)) = 3.
Proof. vm_compute. repeat split. Qed.
