From Coq Require Import Arith List Bool Lia.
From GPV Require Import Models.C08_shape Models.C08_call Proofs.C08_shape.
Import ListNotations.

Lemma shape_eqb_true a b : shape_eqb a b = true <-> a = b.
Proof. unfold shape_eqb. destruct (list_eq_dec Nat.eq_dec a b); split; intros; congruence. Qed.
Lemma shape_eqb_refl a : shape_eqb a a = true.
Proof. apply shape_eqb_true. reflexivity. Qed.

Lemma bc_dim_not1 x y d : bc_dim x y = Some d -> x <> 1 -> d = x.
Proof.
  unfold bc_dim. intros H Hx.
  destruct (Nat.eqb x y) eqn:E1; [congruence|].
  destruct (Nat.eqb x 1) eqn:E2; [apply Nat.eqb_eq in E2; contradiction|].
  destruct (Nat.eqb y 1); congruence.
Qed.
Lemma bc_dim_not1_r x y d : bc_dim x y = Some d -> y <> 1 -> d = y.
Proof.
  unfold bc_dim. intros H Hy.
  destruct (Nat.eqb x y) eqn:E1; [apply Nat.eqb_eq in E1; congruence|].
  destruct (Nat.eqb x 1) eqn:E2; [congruence|].
  destruct (Nat.eqb y 1) eqn:E3; [apply Nat.eqb_eq in E3; contradiction|congruence].
Qed.

Lemma bproj_rev_idem : forall s b, bproj_rev s (bproj_rev s b) = bproj_rev s b.
Proof.
  induction s as [|d s IH]; intros [|x b]; try reflexivity.
  cbn [bproj_rev]. destruct (Nat.eqb d 1); f_equal; apply IH.
Qed.

(* projecting onto an operand through the broadcast shape of the operand with anything else is
   projecting onto the operand directly (reversed lists) *)
Lemma bproj_rev_compose_l : forall s s' t1 b,
  bc_rev s s' = Some t1 -> bproj_rev s (bproj_rev t1 b) = bproj_rev s b.
Proof.
  induction s as [|d s IH]; intros s' t1 b H; [reflexivity|].
  destruct s' as [|d' s'].
  - cbn in H. injection H as <-. apply bproj_rev_idem.
  - cbn [bc_rev] in H. destruct (bc_dim d d') as [e|] eqn:Ed; [|discriminate].
    destruct (bc_rev s s') as [r|] eqn:Er; [|discriminate]. injection H as <-.
    destruct b as [|x b]; [reflexivity|]. cbn [bproj_rev].
    destruct (Nat.eqb d 1) eqn:E.
    + f_equal. apply (IH s' r b Er).
    + assert (e = d) by (apply (bc_dim_not1 d d' e Ed); intros ->; discriminate E). subst e.
      rewrite E. f_equal. apply (IH s' r b Er).
Qed.

Lemma bproj_rev_compose_r : forall s' s t1 b,
  bc_rev s s' = Some t1 -> bproj_rev s' (bproj_rev t1 b) = bproj_rev s' b.
Proof.
  induction s' as [|d' s' IH]; intros s t1 b H; [reflexivity|].
  destruct s as [|d s].
  - cbn in H. injection H as <-. destruct b as [|x b]; [reflexivity|].
    apply (bproj_rev_compose_l (d' :: s') [] (d' :: s') (x :: b)). reflexivity.
  - cbn [bc_rev] in H. destruct (bc_dim d d') as [e|] eqn:Ed; [|discriminate].
    destruct (bc_rev s s') as [r|] eqn:Er; [|discriminate]. injection H as <-.
    destruct b as [|x b]; [reflexivity|]. cbn [bproj_rev].
    destruct (Nat.eqb d' 1) eqn:E.
    + f_equal. apply (IH s r b Er).
    + assert (e = d') by (apply (bc_dim_not1_r d d' e Ed); intros ->; discriminate E). subst e.
      rewrite E. f_equal. apply (IH s r b Er).
Qed.

Lemma broadcast_shapes_rev a b t : broadcast_shapes a b = Some t -> bc_rev (rev a) (rev b) = Some (rev t).
Proof.
  unfold broadcast_shapes. destruct (bc_rev (rev a) (rev b)) as [r|]; [|discriminate].
  cbn. intros H. injection H as <-. rewrite rev_involutive. reflexivity.
Qed.

Lemma bproj_compose_l s s' t1 b : broadcast_shapes s s' = Some t1 -> bproj s (bproj t1 b) = bproj s b.
Proof.
  intros H. unfold bproj. rewrite rev_involutive.
  rewrite (bproj_rev_compose_l (rev s) (rev s') (rev t1) (rev b) (broadcast_shapes_rev _ _ _ H)). reflexivity.
Qed.
Lemma bproj_compose_r s s' t1 b : broadcast_shapes s s' = Some t1 -> bproj s' (bproj t1 b) = bproj s' b.
Proof.
  intros H. unfold bproj. rewrite rev_involutive.
  rewrite (bproj_rev_compose_r (rev s') (rev s) (rev t1) (rev b) (broadcast_shapes_rev _ _ _ H)). reflexivity.
Qed.

(* the two-stage computation (data combined on their own broadcast shape, then with the
   hyperparameters) reads the same three slices as the direct three-operand reading *)
Lemma batched3_staged_eq {P D1 D2 O : Type} sp str ste t1 (op : P -> D1 -> D2 -> O) param train test b :
  broadcast_shapes str ste = Some t1 ->
  batched3_staged sp str ste t1 op param train test b = batched3 sp str ste op param train test b.
Proof.
  intros H. unfold batched3_staged, batched3, batched. cbn [fst snd].
  rewrite (bproj_compose_l str ste t1 b H), (bproj_compose_r str ste t1 b H). reflexivity.
Qed.

(* broadcast of a shape with itself *)
Lemma bc_dim_refl x : bc_dim x x = Some x.
Proof. unfold bc_dim. rewrite Nat.eqb_refl. reflexivity. Qed.
Lemma bc_rev_refl s : bc_rev s s = Some s.
Proof. induction s as [|d s IH]; [reflexivity|]. cbn [bc_rev]. rewrite bc_dim_refl, IH. reflexivity. Qed.
Lemma broadcast_shapes_refl s : broadcast_shapes s s = Some s.
Proof. unfold broadcast_shapes. rewrite bc_rev_refl. cbn. rewrite rev_involutive. reflexivity. Qed.

(* as coded, the concatenation succeeds on EVERY broadcastable pair, on the broadcast shape *)
Lemma cat_operands_ok str ste t :
  broadcast_shapes str ste = Some t ->
  cat_operands str ste = Some (t, t) /\ cat_ok (t, t) = true.
Proof.
  intros H. unfold cat_operands. destruct (shape_eqb str ste) eqn:E.
  - apply shape_eqb_true in E. subst ste. rewrite broadcast_shapes_refl in H. injection H as <-.
    split; [reflexivity|apply shape_eqb_refl].
  - rewrite H. split; [reflexivity|apply shape_eqb_refl].
Qed.
Lemma cat_operands_none str ste : broadcast_shapes str ste = None -> str <> ste /\ cat_operands str ste = None.
Proof.
  intros H. assert (str <> ste) by (intros ->; rewrite broadcast_shapes_refl in H; discriminate).
  split; [assumption|]. unfold cat_operands. destruct (shape_eqb str ste) eqn:E.
  - apply shape_eqb_true in E. contradiction.
  - rewrite H. reflexivity.
Qed.

(* the rank test fails on a broadcastable pair of equal rank: train [3], test [1] *)
Lemma cat_rank_test_refuted :
  exists str ste t ab, broadcast_shapes str ste = Some t /\ length str = length ste /\
    cat_operands_rank_test str ste = Some ab /\ cat_ok ab = false.
Proof. exists [3], [1], [3], ([3], [1]). repeat split. Qed.
(* ... it is right exactly when equal rank implies equal shape *)
Lemma cat_rank_test_ok_iff str ste t :
  broadcast_shapes str ste = Some t ->
  ((exists ab, cat_operands_rank_test str ste = Some ab /\ cat_ok ab = true)
   <-> (length str = length ste -> str = ste)).
Proof.
  intros H. unfold cat_operands_rank_test. destruct (Nat.eqb (length str) (length ste)) eqn:E.
  - apply Nat.eqb_eq in E. split.
    + intros (ab & Hab & Hok) _. injection Hab as <-. apply shape_eqb_true in Hok. exact Hok.
    + intros Himp. exists (str, ste). split; [reflexivity|]. apply shape_eqb_true. apply Himp. exact E.
  - apply Nat.eqb_neq in E. rewrite H. split.
    + intros _ Hl. contradiction.
    + intros _. exists (t, t). split; [reflexivity|apply shape_eqb_refl].
Qed.
