(* C07 lemmas, part 5: the UNWHITENED variational predictive covariance
     K_xx - K_xz K_zz^-1 (K_zz - S) K_zz^-1 K_zx        (Models/C14_variational.v: unwh_cov)
   is PSD whenever the joint prior [[K_zz, K_zx],[K_xz, K_xx]] is symmetric PSD, K_zz is
   invertible (any inverse Kinv) and the variational covariance S is PSD:
     = (K_xx - K_xz K_zz^-1 K_zx)  +  (K_zz^-1 K_zx)^T S (K_zz^-1 K_zx),
   a Schur complement plus a congruence.  All sizes, any ordered field. *)
From Coq Require Import Arith Lia Ring Field Setoid Morphisms List Bool Reals Lra.
From GPV Require Import Base.LinAlg Base.Exec Base.Expr Base.Psd Models.C14_variational.
Import ListNotations.

Section UnwhitenedPsd.
Context {K : Fld} {O : OrdFld K}.
Add Field Ff_c07v : (@FT K).
Local Open Scope fld_scope.

(* pure algebra: needs only Kzz Kinv = I and Kinv symmetric *)
Lemma unwh_cov_split m n Kzz Kzx Kxx Kinv Sq :
  meq m m (mmul m Kzz Kinv) mI -> symmetric m Kinv ->
  let W := mmul m Kinv Kzx in
  meq n n (unwh_cov m Kzz Kzx Kxx Kinv Sq)
          (madd (msub Kxx (mmul m (mT Kzx) W)) (mmul m (mmul m (mT W) Sq) (mT (mT W)))).
Proof.
  intros HI HKs W. unfold unwh_cov. fold W.
  (* (Kzz - S) W = Kzx - S W *)
  assert (E1 : meq m n (mmul m (msub Kzz Sq) W) (msub Kzx (mmul m Sq W))).
  { transitivity (msub (mmul m Kzz W) (mmul m Sq W)); [apply mmul_sub_distr_r|].
    apply msub_compat; [|reflexivity]. unfold W.
    transitivity (mmul m (mmul m Kzz Kinv) Kzx); [symmetry; apply mmul_assoc|].
    transitivity (mmul m mI Kzx); [apply mmul_compat_l; exact HI|apply mmul_I_l]. }
  (* Kinv (Kzx - S W) = W - Kinv (S W) *)
  assert (E2 : meq m n (mmul m Kinv (mmul m (msub Kzz Sq) W))
                       (msub W (mmul m Kinv (mmul m Sq W)))).
  { transitivity (mmul m Kinv (msub Kzx (mmul m Sq W))); [apply mmul_compat_r; exact E1|].
    unfold W. apply mmul_sub_distr_l. }
  assert (E3 : meq n n (mmul m (mT Kzx) (mmul m Kinv (mmul m (msub Kzz Sq) W)))
                       (msub (mmul m (mT Kzx) W) (mmul m (mT Kzx) (mmul m Kinv (mmul m Sq W))))).
  { transitivity (mmul m (mT Kzx) (msub W (mmul m Kinv (mmul m Sq W))));
      [apply mmul_compat_r; exact E2|apply mmul_sub_distr_l]. }
  (* Kzx^T Kinv = W^T *)
  assert (E4 : meq n m (mT W) (mmul m (mT Kzx) Kinv)).
  { unfold W. transitivity (mmul m (mT Kzx) (mT Kinv)); [apply mT_mmul|].
    apply mmul_compat_r. symmetry. exact HKs. }
  assert (E5 : meq n n (mmul m (mT Kzx) (mmul m Kinv (mmul m Sq W)))
                       (mmul m (mmul m (mT W) Sq) (mT (mT W)))).
  { transitivity (mmul m (mmul m (mT Kzx) Kinv) (mmul m Sq W)); [symmetry; apply mmul_assoc|].
    transitivity (mmul m (mT W) (mmul m Sq W)); [apply mmul_compat_l; symmetry; exact E4|].
    transitivity (mmul m (mmul m (mT W) Sq) W); [symmetry; apply mmul_assoc|].
    apply mmul_compat_r. symmetry. apply mT_mT. }
  intros i j Hi Hj. unfold msub at 1. rewrite (E3 i j Hi Hj). unfold msub at 1.
  rewrite (E5 i j Hi Hj). unfold madd, msub. ring.
Qed.

(* on explicit blocks: any Kxz with Kxz = Kzx^T *)
Lemma unwh_cov_psd_blocks m n Kzz Kzx Kxz Kxx Kinv Sq :
  symmetric (m + n) (blk m m Kzz Kzx Kxz Kxx) -> PSD (m + n) (blk m m Kzz Kzx Kxz Kxx) ->
  is_inverse m Kzz Kinv -> PSD m Sq ->
  PSD n (unwh_cov m Kzz Kzx Kxx Kinv Sq).
Proof.
  intros HS HP HI HSq.
  set (J := blk m m Kzz Kzx Kxz Kxx) in *.
  assert (E00 : meq m m (sub 0 0 J) Kzz) by (apply sub_blk_00; lia).
  assert (E10 : meq n m (sub m 0 J) Kxz) by (apply sub_blk_10; lia).
  assert (E11 : meq n n (sub m m J) Kxx) by apply sub_blk_11.
  assert (HKzs : symmetric m Kzz).
  { intros i j Hi Hj. specialize (HS i j ltac:(lia) ltac:(lia)). unfold mT, J, blk in HS |- *.
    destruct (Nat.ltb_spec i m); [|lia]. destruct (Nat.ltb_spec j m); [|lia]. exact HS. }
  assert (HXt : meq n m Kxz (mT Kzx)).
  { intros i j Hi Hj. specialize (HS (m + i)%nat j ltac:(lia) ltac:(lia)).
    unfold mT, J, blk in HS |- *.
    destruct (Nat.ltb_spec (m + i) m); [lia|]. destruct (Nat.ltb_spec j m); [|lia].
    replace (m + i - m)%nat with i in HS by lia. exact HS. }
  assert (HKs : symmetric m Kinv) by (apply (inverse_symmetric m Kzz); assumption).
  apply (PSD_meq n _ _ (meq_sym _ _ _ _
           (unwh_cov_split m n Kzz Kzx Kxx Kinv Sq (proj1 HI) HKs))).
  apply PSD_madd; [|apply PSD_congr; exact HSq].
  (* the Schur complement of the joint prior *)
  apply (PSD_meq n (msub (sub m m J) (mmul m (sub m 0 J) (mmul m Kinv (mT (sub m 0 J)))))).
  - apply msub_compat; [exact E11|].
    apply mmul_compat; [transitivity Kxz; [exact E10|exact HXt]|].
    apply mmul_compat_r.
    transitivity (mT Kxz); [apply mT_compat; exact E10|].
    transitivity (mT (mT Kzx)); [apply mT_compat; exact HXt|apply mT_mT].
  - apply schur_psd; [exact HS|exact HP|].
    destruct HI as [H1 H2]. split.
    + transitivity (mmul m Kzz Kinv); [apply mmul_compat_l; exact E00|exact H1].
    + transitivity (mmul m Kinv Kzz); [apply mmul_compat_r; exact E00|exact H2].
Qed.

(* as the executable model addresses the joint prior J on [Z; X] (run_c14: Kzz = sub 0 0 J,
   Kzx = sub 0 m J, Kxx = sub m m J, all with the jitter the strategy adds already in J) *)
Theorem unwh_cov_psd m n J Kinv Sq :
  symmetric (m + n) J -> PSD (m + n) J -> is_inverse m (sub 0 0 J) Kinv -> PSD m Sq ->
  PSD n (unwh_cov m (sub 0 0 J) (sub 0 m J) (sub m m J) Kinv Sq).
Proof.
  intros HS HP HI HSq.
  pose proof (blk_of_subs m m n n J) as EJ.
  apply (unwh_cov_psd_blocks m n _ _ (sub m 0 J)); [| |exact HI|exact HSq].
  - intros i j Hi Hj. unfold mT. rewrite <- (EJ i j Hi Hj), <- (EJ j i Hj Hi). apply HS; assumption.
  - apply (PSD_meq (m + n) J); [exact EJ|exact HP].
Qed.

(* ... and its diagonal: the predictive variances are non-negative *)
Corollary unwh_var_nonneg m n J Kinv Sq i :
  symmetric (m + n) J -> PSD (m + n) J -> is_inverse m (sub 0 0 J) Kinv -> PSD m Sq ->
  (i < n)%nat -> fle 0 (unwh_cov m (sub 0 0 J) (sub 0 m J) (sub m m J) Kinv Sq i i).
Proof.
  intros HS HP HI HSq Hi. apply (PSD_diag_nn n _ i); [|exact Hi]. apply unwh_cov_psd; assumption.
Qed.

End UnwhitenedPsd.

(* ---- non-vacuity over R: Z = one point, X = one point, J = [[2,1],[1,2]], S = [1] ---------- *)
Definition exJv : @M RF := fun i j => if Nat.eqb i j then 2%R else 1%R.
Definition exSv : @M RF := fun _ _ => 1%R.
Definition exKinv : @M RF := fun _ _ => (/ 2)%R.

Lemma ex_unwh_cov_hyps_holds :
  symmetric 2 exJv /\ @PSD RF ROrd 2 exJv /\ is_inverse 1 (sub 0 0 exJv) exKinv /\
  @PSD RF ROrd 1 exSv /\
  unwh_cov 1 (sub 0 0 exJv) (sub 0 1 exJv) (sub 1 1 exJv) exKinv exSv 0%nat 0%nat = (7 / 4)%R.
Proof.
  split; [|split; [|split; [|split]]].
  - intros i j Hi Hj. unfold mT, exJv. rewrite Nat.eqb_sym. reflexivity.
  - intros x. unfold qform, bform, exJv. cbn.
    pose proof (Rle_0_sqr (x 0%nat + x 1%nat)) as H1. pose proof (Rle_0_sqr (x 0%nat)) as H2.
    pose proof (Rle_0_sqr (x 1%nat)) as H3. unfold Rsqr in *. lra.
  - split; intros i j Hi Hj; assert (i = 0)%nat by lia; assert (j = 0)%nat by lia; subst;
      unfold mmul, sub, exJv, exKinv, mI; cbn; field.
  - intros x. unfold qform, bform, exSv. cbn.
    pose proof (Rle_0_sqr (x 0%nat)) as H2. unfold Rsqr in *. lra.
  - unfold unwh_cov, msub, mmul, mT, sub, exJv, exKinv, exSv. cbn. field.
Qed.
