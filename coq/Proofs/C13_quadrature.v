(* C13 lemmas: the Gauss-Hermite rule of the code is exact on polynomials of degree < D for
   N(m, v) as soon as the node set is exact on the monomials z^k, k < D (generic field, then R). *)
From Coq Require Import Arith Lia List Ring Field ZArith QArith Qcanon Reals Lra.
From Coquelicot Require Import Coquelicot.
From GPV Require Import Base.LinAlg Base.Exec Base.Expr Models.C13_quadrature.
Import ListNotations.

Section GHProofs.
Context {K : Fld}.
Add Field Ff_c13 : (@FT K).
Local Open Scope fld_scope.

(* ---------------------------------------------------------------- node sums *)
Lemma wsum_ext ts ws f g : (forall t, f t = g t) -> wsum ts ws f = wsum ts ws g.
Proof.
  intros H. revert ws. induction ts as [|t ts IH]; intros [|w ws]; cbn [wsum]; try reflexivity.
  rewrite H, (IH ws). reflexivity.
Qed.

Lemma wsum_lin ts ws a f g :
  wsum ts ws (fun t => a * f t + g t) = a * wsum ts ws f + wsum ts ws g.
Proof.
  revert ws. induction ts as [|t ts IH]; intros [|w ws]; cbn [wsum]; try ring.
  rewrite (IH ws). ring.
Qed.

Lemma wsum_zero ts ws : wsum ts ws (fun _ => 0) = 0.
Proof.
  revert ws. induction ts as [|t ts IH]; intros [|w ws]; cbn [wsum]; try reflexivity.
  rewrite (IH ws). ring.
Qed.

Lemma wsum_scale ts ws a f : wsum ts ws (fun t => a * f t) = a * wsum ts ws f.
Proof.
  transitivity (wsum ts ws (fun t => a * f t + 0)).
  - apply wsum_ext. intros t. ring.
  - rewrite wsum_lin, wsum_zero. ring.
Qed.

Lemma wsum_add ts ws f g : wsum ts ws (fun t => f t + g t) = wsum ts ws f + wsum ts ws g.
Proof.
  transitivity (wsum ts ws (fun t => 1 * f t + g t)).
  - apply wsum_ext. intros t. ring.
  - rewrite wsum_lin. ring.
Qed.

(* the rule is a linear functional of the integrand *)
Lemma gh_core_linear ts ws s m a f g :
  gh_core ts ws s m (fun x => a * f x + g x) = a * gh_core ts ws s m f + gh_core ts ws s m g.
Proof. unfold gh_core. apply wsum_lin. Qed.

(* ---------------------------------------------------------------- polynomials *)
Lemma peval_padd p q x : peval (padd p q) x = peval p x + peval q x.
Proof.
  revert q. induction p as [|a p IH]; intros [|b q]; cbn [padd peval]; try ring.
  rewrite IH. ring.
Qed.

Lemma peval_pscale c p x : peval (pscale c p) x = c * peval p x.
Proof.
  unfold pscale. induction p as [|a p IH]; cbn [map peval]; [ring|]. rewrite IH. ring.
Qed.

Lemma peval_pmul_lin a b q z : peval (pmul_lin a b q) z = (b + a * z) * peval q z.
Proof.
  unfold pmul_lin, pshift. rewrite peval_padd. cbn [peval]. rewrite !peval_pscale. ring.
Qed.

(* pcomp_aff really is composition with the affine map z |-> a z + b *)
Lemma peval_pcomp_aff p a b z : peval (pcomp_aff p a b) z = peval p (a * z + b).
Proof.
  induction p as [|c p IH]; cbn [pcomp_aff peval]; [reflexivity|].
  rewrite peval_padd, peval_pmul_lin, IH. cbn [peval]. ring.
Qed.

Lemma length_padd p q : length (padd p q) = Nat.max (length p) (length q).
Proof.
  revert q. induction p as [|a p IH]; intros [|b q]; cbn [padd length]; try reflexivity.
  rewrite IH. reflexivity.
Qed.

Lemma length_pmul_lin a b q : length (pmul_lin a b q) = S (length q).
Proof.
  unfold pmul_lin, pshift, pscale. rewrite length_padd. cbn [length]. rewrite !map_length. lia.
Qed.

Lemma length_pcomp_aff p a b : length (pcomp_aff p a b) = length p.
Proof.
  induction p as [|c p IH]; cbn [pcomp_aff]; [reflexivity|].
  rewrite length_padd, length_pmul_lin, IH. cbn [length]. lia.
Qed.

(* ---------------------------------------------------------------- moments *)
Lemma gmom_0 : gmom 0 = 1.
Proof. reflexivity. Qed.
Lemma gmom_1 : gmom 1 = 0.
Proof. reflexivity. Qed.
Lemma gmom_SS k : gmom (S (S k)) = nat2f (S k) * gmom k.
Proof.
  unfold gmom. cbn [gmom_pair]. destruct (gmom_pair k) as [a b]. reflexivity.
Qed.

Lemma hmom_SS k : hmom (S (S k)) = nat2f (S k) / (1 + 1) * hmom k.
Proof.
  unfold hmom. cbn [hmom_pair]. destruct (hmom_pair k) as [a b]. reflexivity.
Qed.

Lemma nmom_0 m v : nmom m v 0 = 1.
Proof. reflexivity. Qed.
Lemma nmom_1 m v : nmom m v 1 = m.
Proof. reflexivity. Qed.
Lemma nmom_SS m v k :
  nmom m v (S (S k)) = m * nmom m v (S k) + nat2f (S k) * v * nmom m v k.
Proof.
  unfold nmom. cbn [nmom_pair]. destruct (nmom_pair m v k) as [a b]. reflexivity.
Qed.

(* a node sum of a polynomial is the same linear combination of the node sums of monomials *)
Lemma wsum_poly_moments ts ws (g : car -> car) (mu : car) q : forall k,
  (forall j, (k <= j < k + length q)%nat ->
     mu * wsum ts ws (fun t => fpow (g t) j) = gmom j) ->
  mu * wsum ts ws (fun t => fpow (g t) k * peval q (g t)) = lmom_from k q.
Proof.
  induction q as [|c q IH]; intros k H.
  - cbn [lmom_from].
    rewrite (wsum_ext _ _ _ (fun _ => 0)) by (intros t; cbn [peval]; ring).
    rewrite wsum_zero. ring.
  - cbn [lmom_from].
    rewrite (wsum_ext _ _ _ (fun t => c * fpow (g t) k + fpow (g t) (S k) * peval q (g t)))
      by (intros t; cbn [peval fpow]; ring).
    rewrite wsum_lin.
    rewrite <- (IH (S k)) by (intros j Hj; apply H; cbn [length]; lia).
    rewrite <- (H k) by (cbn [length]; lia).
    ring.
Qed.

(* generic form of the main theorem: any field, any "unit" scale s0 for which the node set
   reproduces the moments, any standard deviation sd, any mean *)
Theorem gh_affine_exact_gen (D : nat) ts ws mu s0 sd m p :
  (forall k, (k < D)%nat -> mu * gh_core ts ws s0 0 (fun x => fpow x k) = gmom k) ->
  (length p <= D)%nat ->
  mu * gh_core ts ws (sd * s0) m (peval p) = normal_expect_sd m sd p.
Proof.
  intros H Hlen. unfold gh_core, normal_expect_sd, lstd in *.
  rewrite (wsum_ext _ _ _ (fun t => fpow (s0 * t + 0) 0 * peval (pcomp_aff p sd m) (s0 * t + 0))).
  - apply (wsum_poly_moments ts ws (fun t => s0 * t + 0) mu).
    intros j Hj. rewrite length_pcomp_aff in Hj. apply H. lia.
  - intros t. rewrite peval_pcomp_aff. cbn [fpow].
    replace (sd * (s0 * t + 0) + m) with (sd * s0 * t + m) by ring. ring.
Qed.

(* Hermite-weight moments and standard normal moments: s^k h_k = g_k when s^2 = 2 *)
Lemma hmom_gmom s : s * s = 1 + 1 -> 1 + 1 <> 0 ->
  forall k, fpow s k * hmom k = gmom k.
Proof.
  intros Hs H2.
  assert (P : forall k, fpow s k * fst (hmom_pair k) = fst (gmom_pair k) /\
                        fpow s (S k) * snd (hmom_pair k) = snd (gmom_pair k)).
  { induction k as [|k [IH1 IH2]].
    - cbn [hmom_pair gmom_pair fpow fst snd]. split; ring.
    - cbn [hmom_pair gmom_pair].
      destruct (hmom_pair k) as [ah bh], (gmom_pair k) as [ag bg]. cbn [fst snd] in *.
      split; [exact IH2|].
      rewrite <- IH1. cbn [fpow].
      transitivity (s * s * (fpow s k * (nat2f (S k) / (1 + 1) * ah))); [ring|].
      rewrite Hs. field. exact H2. }
  intros k. exact (proj1 (P k)).
Qed.

(* the moment functional of N(m, sd^2) agrees with the expectation of the first two powers *)
Lemma normal_expect_sd_const m sd c : normal_expect_sd m sd [c] = c.
Proof. unfold normal_expect_sd, lstd. cbn. unfold gmom. cbn. ring. Qed.
Lemma normal_expect_sd_mean m sd : normal_expect_sd m sd [0; 1] = m.
Proof. unfold normal_expect_sd, lstd. cbn. unfold gmom. cbn. ring. Qed.
Lemma normal_expect_sd_second m sd : normal_expect_sd m sd [0; 0; 1] = m * m + sd * sd.
Proof. unfold normal_expect_sd, lstd. cbn. unfold gmom. cbn. ring. Qed.

(* Beta parametrisation: the code's parameters are the documented ones plus one *)
Lemma beta_code_is_doc_plus_one mix s :
  beta_alpha_code mix s = beta_alpha_doc mix s + 1 /\
  beta_beta_code mix s = beta_beta_doc mix s + 1.
Proof.
  unfold beta_beta_code, beta_alpha_code, beta_alpha_doc, beta_beta_doc. split; ring.
Qed.

End GHProofs.

(* ---------------------------------------------------------------- over R *)
Local Open Scope R_scope.

Lemma fpow_R (x : R) k : @fpow RF x k = x ^ k.
Proof. induction k as [|k IH]; cbn [fpow pow]; [reflexivity|]. rewrite IH. reflexivity. Qed.

Lemma sqrt_PI_neq0 : sqrt PI <> 0.
Proof. apply Rgt_not_eq. apply sqrt_lt_R0. exact PI_RGT_0. Qed.

Theorem gh_affine_exact_R (D : nat) (ts ws p : list R) (m v : R) :
  (forall k, (k < D)%nat -> gh_rule ts ws 0 1 (fun x => x ^ k) = @gmom RF k) ->
  (length p <= D)%nat -> 0 <= v ->
  gh_rule ts ws m v (@peval RF p) = normal_expect m v p.
Proof.
  intros H Hlen Hv. unfold gh_rule, normal_expect in *.
  replace (2 * v) with (v * (2 * 1)) by ring.
  rewrite sqrt_mult by lra.
  apply (@gh_affine_exact_gen RF D ts ws (1 / sqrt PI) (sqrt (2 * 1)) (sqrt v) m p); [|exact Hlen].
  intros k Hk. rewrite <- (H k Hk). cbn [fmul RF].
  reflexivity.
Qed.

(* raw Hermite-weight form of the premise: sum_i w_i t_i^k = sqrt(pi) h_k *)
Lemma gh_premise_from_hermite (D : nat) (ts ws : list R) :
  (forall k, (k < D)%nat -> @wsum RF ts ws (fun t => t ^ k) = sqrt PI * @hmom RF k) ->
  forall k, (k < D)%nat -> gh_rule ts ws 0 1 (fun x => x ^ k) = @gmom RF k.
Proof.
  intros H k Hk. unfold gh_rule, gh_core.
  rewrite (@wsum_ext RF _ _ _ (fun t => sqrt (2 * 1) ^ k * t ^ k)).
  2:{ intros t. cbn [fmul fadd RF]. rewrite Rplus_0_r. apply Rpow_mult_distr. }
  rewrite (@wsum_scale RF). cbn [fmul RF]. rewrite (H k Hk).
  assert (Hs : sqrt (2 * 1) * sqrt (2 * 1) = 1 + 1) by (rewrite sqrt_sqrt; lra).
  assert (H2 : (1 + 1 <> 0)%R) by lra.
  pose proof (@hmom_gmom RF (sqrt (2 * 1)) Hs H2 k) as E. cbn [fmul RF] in E.
  rewrite fpow_R in E. rewrite <- E. field. exact sqrt_PI_neq0.
Qed.

Theorem gh_hermite_exact_R (D : nat) (ts ws p : list R) (m v : R) :
  (forall k, (k < D)%nat -> @wsum RF ts ws (fun t => t ^ k) = sqrt PI * @hmom RF k) ->
  (length p <= D)%nat -> 0 <= v ->
  gh_rule ts ws m v (@peval RF p) = normal_expect m v p.
Proof.
  intros H. apply gh_affine_exact_R. apply gh_premise_from_hermite. exact H.
Qed.

(* the rule is linear in the integrand (any integrand, not only polynomials) *)
Lemma gh_rule_linear ts ws m v a f g :
  gh_rule ts ws m v (fun x => a * f x + g x) = a * gh_rule ts ws m v f + gh_rule ts ws m v g.
Proof.
  unfold gh_rule. rewrite (@gh_core_linear RF). cbn [fmul fadd RF]. ring.
Qed.

(* non-vacuity and sharpness: the two-point rule t = -+1/sqrt 2, w = sqrt(pi)/2 meets the
   premise for D = 4 and misses z^4 (rule 1, true moment 3) *)
Definition ts2 : list R := [- (1 / sqrt 2); 1 / sqrt 2].
Definition ws2 : list R := [sqrt PI / 2; sqrt PI / 2].

Lemma two_point_value k :
  gh_rule ts2 ws2 0 1 (fun x => x ^ k) = ((-1) ^ k + 1) / 2.
Proof.
  unfold gh_rule, gh_core, ts2, ws2. cbn [wsum fmul fadd f0 RF].
  assert (Hs : sqrt 2 <> 0) by (apply Rgt_not_eq, sqrt_lt_R0; lra).
  replace (2 * 1) with 2 by ring.
  replace (sqrt 2 * - (1 / sqrt 2) + 0) with (-1) by (field; exact Hs).
  replace (sqrt 2 * (1 / sqrt 2) + 0) with 1 by (field; exact Hs).
  rewrite pow1. field. exact sqrt_PI_neq0.
Qed.

Lemma two_point_premise :
  forall k, (k < 4)%nat -> gh_rule ts2 ws2 0 1 (fun x => x ^ k) = @gmom RF k.
Proof.
  intros k Hk. rewrite two_point_value.
  destruct k as [|[|[|[|k]]]]; try lia; unfold gmom; cbn; lra.
Qed.

Lemma two_point_sharp : gh_rule ts2 ws2 0 1 (fun x => x ^ 4) <> @gmom RF 4%nat.
Proof. rewrite two_point_value. unfold gmom. cbn. lra. Qed.

(* Beta: the documented parametrisation is not the one the code uses *)
Lemma beta_doc_params_refuted :
  exists mix s : Qc, (0 < mix)%Qc /\ (mix < 1)%Qc /\ (0 < s)%Qc /\
    (@beta_alpha_code QcF mix s <> @beta_alpha_doc QcF mix s \/
     @beta_beta_code QcF mix s <> @beta_beta_doc QcF mix s).
Proof.
  exists (qc 1 2), (qc 1 1). repeat split; try reflexivity.
  left. intros E. apply (f_equal (fun q => Qnum (this q))) in E. vm_compute in E. discriminate.
Qed.

(* ---------------------------------------------------------------- recurrence form of the moments *)
Section Recurrence.
Context {K : Fld}.
Add Field Ff_c13b : (@FT K).
Local Open Scope fld_scope.

(* the one-pass evaluation used by the executable wrapper is the defining sum *)
Lemma nexp_go_from m v p : forall k,
  nexp_go m v k (nmom m v k) (nmom m v (S k)) p = nexp_from m v k p.
Proof.
  induction p as [|c p IH]; intros k; cbn [nexp_go nexp_from]; [reflexivity|].
  rewrite <- (IH (S k)). rewrite <- nmom_SS. reflexivity.
Qed.

Lemma normal_expect_var_fast_ok m v p : normal_expect_var_fast m v p = normal_expect_var m v p.
Proof. unfold normal_expect_var_fast, normal_expect_var. apply (nexp_go_from m v p 0). Qed.

End Recurrence.

(* ---------------------------------------------------------------- standard normal cdf *)
Local Open Scope R_scope.

Lemma sqrt_2PI_neq0 : sqrt (2 * PI) <> 0.
Proof. apply Rgt_not_eq. apply sqrt_lt_R0. pose proof PI_RGT_0. lra. Qed.

Lemma pdf_even t : std_normal_pdf (- t) = std_normal_pdf t.
Proof. unfold std_normal_pdf. replace (- t * - t) with (t * t) by ring. reflexivity. Qed.

Lemma pdf_continuous z : continuous std_normal_pdf z.
Proof.
  apply (ex_derive_continuous (V := R_NormedModule)).
  unfold std_normal_pdf. auto_derive. exact I.
Qed.

Lemma pdf_ex_RInt a b : ex_RInt std_normal_pdf a b.
Proof. apply (ex_RInt_continuous (V := R_CompleteNormedModule)). intros z _. apply pdf_continuous. Qed.

Lemma std_normal_cdf_opp x : std_normal_cdf (- x) = 1 - std_normal_cdf x.
Proof.
  unfold std_normal_cdf.
  assert (E : RInt std_normal_pdf (- 0) (- x) = - RInt std_normal_pdf 0 x).
  { pose proof (RInt_correct (V := R_CompleteNormedModule) std_normal_pdf (- 0) (- x) (pdf_ex_RInt _ _)) as HJ.
    apply (is_RInt_comp_opp std_normal_pdf 0 x) in HJ.
    pose proof (is_RInt_opp _ _ _ _ (RInt_correct (V := R_CompleteNormedModule) std_normal_pdf 0 x (pdf_ex_RInt _ _))) as HI.
    assert (HJ' : is_RInt (fun y => opp (std_normal_pdf y)) 0 x (RInt std_normal_pdf (- 0) (- x))).
    { eapply is_RInt_ext; [|exact HJ]. intros t _. cbn. rewrite pdf_even. reflexivity. }
    transitivity (RInt (fun y => opp (std_normal_pdf y)) 0 x).
    - symmetry. exact (is_RInt_unique _ _ _ _ HJ').
    - exact (is_RInt_unique _ _ _ _ HI). }
  rewrite Ropp_0 in E. rewrite E. lra.
Qed.

Lemma std_normal_cdf_derive z : is_derive std_normal_cdf z (std_normal_pdf z).
Proof.
  unfold std_normal_cdf.
  evar_last.
  apply (is_derive_plus (V := R_NormedModule) (fun _ => 1 / 2) (fun x => RInt std_normal_pdf 0 x) z (@zero R_NormedModule) (std_normal_pdf z)).
  - apply (is_derive_const (V := R_NormedModule)).
  - apply (is_derive_RInt (V := R_CompleteNormedModule) std_normal_pdf (fun x => RInt std_normal_pdf 0 x) 0 z).
    + apply filter_forall. intros y. apply RInt_correct. apply pdf_ex_RInt.
    + apply pdf_continuous.
  - cbn. unfold plus, zero; cbn. ring.
Qed.

(* d/dz log Phi(z) = phi(z) / Phi(z) wherever Phi(z) > 0 *)
Lemma log_cdf_derive z : 0 < std_normal_cdf z ->
  is_derive (fun x => ln (std_normal_cdf x)) z (std_normal_pdf z / std_normal_cdf z).
Proof.
  intros Hpos.
  evar_last.
  apply (is_derive_comp (V := R_NormedModule) ln std_normal_cdf z (/ std_normal_cdf z) (std_normal_pdf z)).
  - apply is_derive_Reals. apply derivable_pt_lim_ln. exact Hpos.
  - apply std_normal_cdf_derive.
  - cbn. unfold scal; cbn. unfold mult; cbn. field. lra.
Qed.
