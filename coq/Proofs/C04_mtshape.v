From Coq Require Import Arith Lia List.
Import ListNotations.
From GPV Require Import Models.C08_shape Models.C04_mtshape.

Lemma bc_dim_refl x : bc_dim x x = Some x.
Proof. unfold bc_dim. rewrite Nat.eqb_refl. reflexivity. Qed.

Lemma bc_rev_refl a : bc_rev a a = Some a.
Proof.
  induction a as [|x a IH]; [reflexivity|]. cbn [bc_rev]. rewrite bc_dim_refl, IH. reflexivity.
Qed.

Lemma broadcast_shapes_refl s : broadcast_shapes s s = Some s.
Proof. unfold broadcast_shapes. rewrite bc_rev_refl. cbn [option_map]. rewrite rev_involutive. reflexivity. Qed.

(* m >= 2 fantasy points of a T >= 2 task model, no batch: the subtraction raises, for all m, T *)
Lemma mt_rhs_shape_raises m T : 2 <= m -> 2 <= T -> mt_rhs_shape_code [] m T = None.
Proof.
  intros Hm HT. unfold mt_rhs_shape_code. rewrite broadcast_shapes_refl.
  unfold broadcast_shapes. cbn [app rev bc_rev]. unfold bc_dim.
  destruct (Nat.eqb_spec T (m * T)) as [E|_]; [nia|].
  destruct (Nat.eqb_spec T 1) as [E|_]; [lia|].
  destruct (Nat.eqb_spec (m * T) 1) as [E|_]; [nia|]. reflexivity.
Qed.

(* a single point, no batch: no error, but a spurious leading dimension (the carried mean cache is 1 x (n+1)T) *)
Lemma mt_rhs_shape_single_point T : mt_rhs_shape_code [] 1 T = Some [1; T].
Proof.
  unfold mt_rhs_shape_code. rewrite broadcast_shapes_refl.
  unfold broadcast_shapes. cbn [app rev bc_rev]. rewrite Nat.mul_1_l, bc_dim_refl. reflexivity.
Qed.

Lemma mt_rhs_shape_refuted : exists B m T, mt_rhs_shape_code B m T <> Some (mt_rhs_shape_spec B m T).
Proof. exists [], 2, 2. rewrite mt_rhs_shape_raises by lia. discriminate. Qed.

Lemma mt_rhs_shape_fixed_ok B m T : mt_rhs_shape_fixed B m T = Some (mt_rhs_shape_spec B m T).
Proof.
  unfold mt_rhs_shape_fixed, mt_rhs_shape_spec. rewrite broadcast_shapes_refl. apply broadcast_shapes_refl.
Qed.

(* interleaved layout: the rows of the m fantasy points follow the rows of the n training points, as one
   contiguous block that is itself an interleaved m x T block: the bordered structure [[A, U^T],[U, S_f]] of the
   single-output update carries over with n := nT, m := mT *)
Lemma mt_rows_contiguous T n j a : mt_row T (n + j) a = n * T + mt_row T j a.
Proof. unfold mt_row. lia. Qed.

Lemma mt_row_train_lt T n i a : i < n -> a < T -> mt_row T i a < n * T.
Proof. unfold mt_row. nia. Qed.

Lemma mt_row_inj T i a i' a' : a < T -> a' < T -> mt_row T i a = mt_row T i' a' -> i = i' /\ a = a'.
Proof. unfold mt_row. intros Ha Ha' H. assert (i = i') by nia. subst. split; [reflexivity|lia]. Qed.

(* in the task-major layout it does not: a fantasy row precedes a training row *)
Lemma mt_rows_noninterleaved_not_contiguous :
  exists n m T i a j b, i < n /\ j < m /\ a < T /\ b < T /\
    mt_row_noninterleaved (n + m) (n + j) b < mt_row_noninterleaved (n + m) i a.
Proof. exists 1, 1, 2, 0, 1, 0, 0. cbv. repeat split; auto with arith. Qed.
