(* C04, KISS-GP / WISKI fantasy update: from the UPDATED interpolation-space caches to the posterior.
   The caches the fantasy strategy carries after get_fantasy_strategy are
       P' = interp_inner_prod + W_f^T D_f^-1 W_f          (Models/C04_wiski.v: wiski_inner_update)
       c' = interp_response_cache + W_f^T D_f^-1 r_f      (wiski_resp_update)
   and predictions are made from ANY root L of P' (the code: a jittered Cholesky / low-rank root), Qi = (I + L^T Kuu L)^-1:
       mean = Ws (Kuu c' - (Kuu L) Qi (L^T Kuu c')) + m_*       (C09: wiski_fantasy_mean_cache)
       cov  = K_** - Ws (Kuu L) Qi (Kuu L)^T Ws^T               (C09: wiski_pred_cov)
   Proved here, for all sizes: these ARE the C01 posterior (post_mean / post_cov) of the SKI kernel W' Kuu W'^T with the
   noise blkdiag(D, D_f) on the concatenated data W' = [W; W_f], y' = [y; y_f].  The proof composes the cache additivity of
   Proofs/C04_wiski.v with the push-through / Woodbury lemmas of Proofs/C09_textbook.v; the invertibility of I + Kuu P'
   that the latter assume is DERIVED here (explicit inverse I - (Kuu L) Qi L^T), so it is not a hypothesis.
   NOTE: C09's [wiski_inner n Wt Di] takes the transposed interpolation matrix (g x n); C04's takes W (N x g). *)
From Coq Require Import Arith Lia Ring Field Setoid Morphisms List ZArith QArith Qcanon.
From GPV Require Import Base.LinAlg Base.Exec Models.C01_posterior Models.C09_structured
  Proofs.C09_structured Proofs.C09_textbook Models.C04_wiski Proofs.C04_wiski.
Import ListNotations.

Local Notation inner4 := GPV.Models.C04_wiski.wiski_inner.
Local Notation inner9 := GPV.Models.C09_structured.wiski_inner.

Section Post.
Context {K : Fld}.
Add Field Ff_c04wp : (@FT K).
Local Open Scope fld_scope.

Lemma is_inverse_meq n (A A' Ai : M) : meq n n A A' -> is_inverse n A Ai -> is_inverse n A' Ai.
Proof.
  intros HA [H1 H2]. split.
  - transitivity (mmul n A Ai); [apply mmul_compat_l; symmetry; exact HA|exact H1].
  - transitivity (mmul n Ai A); [apply mmul_compat_r; symmetry; exact HA|exact H2].
Qed.

(* ---- bridges between the C04 (W is N x g) and the C09 (Wt = W^T is g x N) forms of the caches *)
Lemma wiski_inner_bridge N g (W Dinv : M) : meq g g (inner4 N W Dinv) (inner9 N (mT W) Dinv).
Proof. intros i j _ _. reflexivity. Qed.

Lemma wiski_resp_bridge N g (W Dinv r : M) :
  meq g 1 (wiski_resp N W Dinv r) (wiski_response N (mT W) Dinv r).
Proof. intros i j _ _. reflexivity. Qed.

Lemma mT_vstack_hstack n g p (W Wf : M) : meq g p (mT (vstack n W Wf)) (hstack n (mT W) (mT Wf)).
Proof. intros i j _ _. reflexivity. Qed.

Lemma msub_vstack n p q (y yf mx mxf : M) :
  meq p q (msub (vstack n y yf) (vstack n mx mxf)) (vstack n (msub y mx) (msub yf mxf)).
Proof. intros i j _ _. unfold msub, vstack. destruct (Nat.ltb i n); reflexivity. Qed.

Lemma wiski_fantasy_mean_cache_compat g q (Kuu L Qi c c' : M) : meq g 1 c c' ->
  meq g 1 (wiski_fantasy_mean_cache g q Kuu L Qi c) (wiski_fantasy_mean_cache g q Kuu L Qi c').
Proof.
  intros Hc. unfold wiski_fantasy_mean_cache. cbv zeta.
  assert (E : meq g 1 (mmul g Kuu c) (mmul g Kuu c')) by (apply mmul_compat_r; exact Hc).
  apply msub_compat; [exact E|].
  apply mmul_compat_r. apply mmul_compat_r. apply mmul_compat_r. exact E.
Qed.

(* ---- I + Kuu P is invertible whenever Qi inverts I + L^T Kuu L (L any root of P): explicit inverse *)
Definition wiski_Bi (g q : nat) (Kuu L Qi : M) : M :=
  msub mI (mmul q (mmul g Kuu L) (mmul q Qi (mT L))).

Section BiInverse.
Variables (g q : nat) (Kuu L Qi P : M).
Hypothesis HL : meq g g (mmul q L (mT L)) P.
Hypothesis HQ : is_inverse q (madd mI (mmul g (mT L) (mmul g Kuu L))) Qi.

Let KL := mmul g Kuu L.
Let Lt := mT L.
Let G := madd mI (mmul g Lt KL).
Let B' := madd mI (mmul q KL Lt).

Lemma wiski_B_form : meq g g (madd mI (mmul g Kuu P)) B'.
Proof.
  unfold B'. apply madd_compat; [reflexivity|].
  transitivity (mmul g Kuu (mmul q L Lt)); [apply mmul_compat_r; symmetry; exact HL|].
  symmetry. unfold KL. apply mmul_assoc.
Qed.

Lemma wiski_B_KL : meq g q (mmul g B' KL) (mmul q KL G).
Proof.
  unfold B', G.
  transitivity (madd (mmul g mI KL) (mmul g (mmul q KL Lt) KL)); [apply mmul_add_distr_r|].
  symmetry.
  transitivity (madd (mmul q KL mI) (mmul q KL (mmul g Lt KL))); [apply mmul_add_distr_l|].
  apply madd_compat.
  - transitivity KL; [apply mmul_I_r|symmetry; apply mmul_I_l].
  - symmetry. apply mmul_assoc.
Qed.

Lemma wiski_Lt_B : meq q g (mmul g Lt B') (mmul q G Lt).
Proof.
  unfold B', G.
  transitivity (madd (mmul g Lt mI) (mmul g Lt (mmul q KL Lt))); [apply mmul_add_distr_l|].
  symmetry.
  transitivity (madd (mmul q mI Lt) (mmul q (mmul g Lt KL) Lt)); [apply mmul_add_distr_r|].
  apply madd_compat.
  - transitivity Lt; [apply mmul_I_l|symmetry; apply mmul_I_r].
  - apply mmul_assoc.
Qed.

Lemma wiski_Bi_inverse : is_inverse g (madd mI (mmul g Kuu P)) (wiski_Bi g q Kuu L Qi).
Proof.
  destruct HQ as [HQ1 HQ2].
  apply (is_inverse_meq g B'); [symmetry; exact wiski_B_form|].
  unfold wiski_Bi. fold KL Lt. set (X := mmul q KL (mmul q Qi Lt)).
  assert (EX1 : meq g g (mmul g B' X) (mmul q KL Lt)).
  { unfold X.
    transitivity (mmul q (mmul g B' KL) (mmul q Qi Lt)); [symmetry; apply mmul_assoc|].
    transitivity (mmul q (mmul q KL G) (mmul q Qi Lt)); [apply mmul_compat_l; exact wiski_B_KL|].
    transitivity (mmul q KL (mmul q G (mmul q Qi Lt))); [apply mmul_assoc|].
    apply mmul_compat_r.
    transitivity (mmul q (mmul q G Qi) Lt); [symmetry; apply mmul_assoc|].
    transitivity (mmul q mI Lt); [apply mmul_compat_l; exact HQ1|apply mmul_I_l]. }
  assert (EX2 : meq g g (mmul g X B') (mmul q KL Lt)).
  { unfold X.
    transitivity (mmul q KL (mmul g (mmul q Qi Lt) B')); [apply mmul_assoc|].
    apply mmul_compat_r.
    transitivity (mmul q Qi (mmul g Lt B')); [apply mmul_assoc|].
    transitivity (mmul q Qi (mmul q G Lt)); [apply mmul_compat_r; exact wiski_Lt_B|].
    transitivity (mmul q (mmul q Qi G) Lt); [symmetry; apply mmul_assoc|].
    transitivity (mmul q mI Lt); [apply mmul_compat_l; exact HQ2|apply mmul_I_l]. }
  split.
  - transitivity (msub (mmul g B' mI) (mmul g B' X)); [apply mmul_sub_distr_l|].
    assert (E := mmul_I_r g g B').
    intros i j Hi Hj. specialize (E i j Hi Hj). specialize (EX1 i j Hi Hj).
    unfold msub. rewrite E, EX1. unfold B', madd. ring.
  - transitivity (msub (mmul g mI B') (mmul g X B')); [apply mmul_sub_distr_r|].
    assert (E := mmul_I_l g g B').
    intros i j Hi Hj. specialize (E i j Hi Hj). specialize (EX2 i j Hi Hj).
    unfold msub. rewrite E, EX2. unfold B', madd. ring.
Qed.

End BiInverse.

(* ---- any data (W : N x g, noise D), any matrices P, c that are meq to its caches ---------- *)
Section General.
Variables (N g q : nat) (Kuu W D Dinv L Qi Ainv P : M).
Hypothesis HD : is_inverse N D Dinv.
Hypothesis HP : meq g g P (inner4 N W Dinv).
Hypothesis HL : meq g g (mmul q L (mT L)) P.
Hypothesis HQ : is_inverse q (madd mI (mmul g (mT L) (mmul g Kuu L))) Qi.
Hypothesis HA : is_inverse N (madd (ski g W Kuu W) D) Ainv.

Let Wt := mT W.

Lemma wiski_HL9 : meq g g (mmul q L (mT L)) (inner9 N Wt Dinv).
Proof. transitivity P; [exact HL|]. transitivity (inner4 N W Dinv); [exact HP|apply wiski_inner_bridge]. Qed.

Lemma wiski_HA9 : is_inverse N (madd (ski g (mT Wt) Kuu (mT Wt)) D) Ainv.
Proof. exact HA. Qed.

Lemma wiski_HB9 : is_inverse g (madd mI (mmul g Kuu (inner9 N Wt Dinv))) (wiski_Bi g q Kuu L Qi).
Proof. exact (wiski_Bi_inverse g q Kuu L Qi (inner9 N Wt Dinv) wiski_HL9 HQ). Qed.

(* the coded fantasy mean cache, built from any c that equals the response cache, is the KISS-GP mean cache *)
Lemma wiski_cache_is_kiss_mean_cache c r : meq g 1 c (wiski_resp N W Dinv r) ->
  meq g 1 (wiski_fantasy_mean_cache g q Kuu L Qi c) (interp_mean_cache N g Kuu W Ainv r).
Proof.
  intros Hc.
  transitivity (wiski_fantasy_mean_cache g q Kuu L Qi (wiski_response N Wt Dinv r)).
  - apply wiski_fantasy_mean_cache_compat.
    transitivity (wiski_resp N W Dinv r); [exact Hc|apply wiski_resp_bridge].
  - exact (wiski_fantasy_mean_cache_correct N g q Kuu Wt Dinv D L Qi Ainv HD wiski_HL9 HQ wiski_HA9 _ r wiski_HB9).
Qed.

Lemma wiski_post_mean_general t c mx y ms Ws Tss Kxx :
  meq g 1 c (wiski_resp N W Dinv (msub y mx)) ->
  meq t 1 (madd (mmul g Ws (wiski_fantasy_mean_cache g q Kuu L Qi c)) ms)
          (post_mean N (blk N N Kxx (mT (ski g Ws Kuu W)) (ski g Ws Kuu W) Tss) (vstack N mx ms) Ainv y).
Proof.
  intros Hc.
  transitivity (interp_pred_mean N g Kuu W Ws Ainv (msub y mx) ms).
  - unfold interp_pred_mean. apply madd_compat; [|reflexivity]. apply mmul_compat_r.
    apply wiski_cache_is_kiss_mean_cache. exact Hc.
  - transitivity (dense_mean N ms (ski g Ws Kuu W) Ainv (msub y mx));
      [apply interp_pred_mean_dense|apply dense_mean_is_c01].
Qed.

Lemma wiski_post_cov_general t Tss Ws Kxx : symmetric g Kuu ->
  meq t t (wiski_pred_cov g q Kuu L Qi t Tss Ws)
          (post_cov N (blk N N Kxx (mT (ski g Ws Kuu W)) (ski g Ws Kuu W) Tss) Ainv).
Proof.
  intros HKs.
  transitivity (dense_cov N Tss (ski g Ws Kuu W) Ainv); [|apply dense_cov_is_c01].
  exact (wiski_pred_cov_dense N g q Kuu Wt Dinv D L Qi Ainv HD wiski_HL9 HQ wiski_HA9 HKs _ wiski_HB9 t Tss Ws).
Qed.

End General.

(* ---- the fantasy update: caches as the code computes them, posterior of the concatenated data *)
Section Fantasy.
Variables (n m g q : nat) (Kuu W Wf D Dinv Df Dfinv L Qi Ainv : M).
Let W' := vstack n W Wf.
Let P' := wiski_inner_update m (inner4 n W Dinv) Wf Dfinv.
Hypothesis HD : is_inverse n D Dinv.
Hypothesis HDf : is_inverse m Df Dfinv.
Hypothesis HL : meq g g (mmul q L (mT L)) P'.
Hypothesis HQ : is_inverse q (madd mI (mmul g (mT L) (mmul g Kuu L))) Qi.
Hypothesis HA : is_inverse (n + m) (madd (ski g W' Kuu W') (blkdiag n D Df)) Ainv.

Lemma wiski_fantasy_P_is_cat : meq g g P' (inner4 (n + m) W' (blkdiag n Dinv Dfinv)).
Proof. symmetry. apply wiski_inner_update_correct. Qed.

Lemma wiski_fantasy_c_is_cat mx mxf y yf :
  meq g 1 (wiski_resp_update m (wiski_resp n W Dinv (msub y mx)) Wf Dfinv (msub yf mxf))
          (wiski_resp (n + m) W' (blkdiag n Dinv Dfinv) (msub (vstack n y yf) (vstack n mx mxf))).
Proof.
  transitivity (wiski_resp (n + m) W' (blkdiag n Dinv Dfinv) (vstack n (msub y mx) (msub yf mxf))).
  - symmetry. apply wiski_resp_update_correct.
  - unfold wiski_resp. apply mmul_compat_r. apply mmul_compat_r. symmetry. apply msub_vstack.
Qed.

(* I + Kuu P' is invertible: not a hypothesis of the theorems below *)
Lemma wiski_fantasy_system_invertible :
  is_inverse g (madd mI (mmul g Kuu P')) (wiski_Bi g q Kuu L Qi).
Proof. exact (wiski_Bi_inverse g q Kuu L Qi P' HL HQ). Qed.

(* the fantasy mean cache built from the updated caches = KISS-GP mean cache of the concatenated data *)
Lemma wiski_fantasy_mean_cache_is_kiss r rf :
  meq g 1 (wiski_fantasy_mean_cache g q Kuu L Qi
             (wiski_resp_update m (wiski_resp n W Dinv r) Wf Dfinv rf))
          (interp_mean_cache (n + m) g Kuu W' Ainv (vstack n r rf)).
Proof.
  apply (wiski_cache_is_kiss_mean_cache (n + m) g q Kuu W' (blkdiag n D Df) (blkdiag n Dinv Dfinv) L Qi Ainv P'
           (blkdiag_inverse n m D Dinv Df Dfinv HD HDf) wiski_fantasy_P_is_cat HL HQ HA).
  symmetry. apply wiski_resp_update_correct.
Qed.

Lemma wiski_fantasy_mean_is_c01_posterior t mx mxf y yf ms Ws Tss :
  let c' := wiski_resp_update m (wiski_resp n W Dinv (msub y mx)) Wf Dfinv (msub yf mxf) in
  let Csx := ski g Ws Kuu W' in
  meq t 1 (madd (mmul g Ws (wiski_fantasy_mean_cache g q Kuu L Qi c')) ms)
          (post_mean (n + m) (blk (n + m) (n + m) (ski g W' Kuu W') (mT Csx) Csx Tss)
             (vstack (n + m) (vstack n mx mxf) ms) Ainv (vstack n y yf)).
Proof.
  cbv zeta.
  apply (wiski_post_mean_general (n + m) g q Kuu W' (blkdiag n D Df) (blkdiag n Dinv Dfinv) L Qi Ainv P'
           (blkdiag_inverse n m D Dinv Df Dfinv HD HDf) wiski_fantasy_P_is_cat HL HQ HA).
  apply wiski_fantasy_c_is_cat.
Qed.

Lemma wiski_fantasy_cov_is_c01_posterior t Ws Tss : symmetric g Kuu ->
  let Csx := ski g Ws Kuu W' in
  meq t t (wiski_pred_cov g q Kuu L Qi t Tss Ws)
          (post_cov (n + m) (blk (n + m) (n + m) (ski g W' Kuu W') (mT Csx) Csx Tss) Ainv).
Proof.
  intros HKs. cbv zeta.
  apply (wiski_post_cov_general (n + m) g q Kuu W' (blkdiag n D Df) (blkdiag n Dinv Dfinv) L Qi Ainv P'
           (blkdiag_inverse n m D Dinv Df Dfinv HD HDf) wiski_fantasy_P_is_cat HL HQ HA). exact HKs.
Qed.

End Fantasy.

End Post.

(* ------------------------------------------------------------------ non-vacuity (over Qc) *)
(* n = 1 old point, m = 1 fantasy point, grid of g = 2 nodes, q = 2:
   W = [1/2 1/2], W_f = [0 1], D = [1/4], D_f = [1/9], Kuu = [[1,1/2],[1/2,1]];
   P' = [[1,1],[1,10]] = L L^T with L = [[1,0],[1,3]] *)
Definition wpKuu : @M QcF := of_list [[1%Qc; qc 1 2]; [qc 1 2; 1%Qc]].
Definition wpW : @M QcF := of_list [[qc 1 2; qc 1 2]].
Definition wpWf : @M QcF := of_list [[0%Qc; 1%Qc]].
Definition wpD : @M QcF := of_list [[qc 1 4]].
Definition wpDinv : @M QcF := of_list [[qc 4 1]].
Definition wpDf : @M QcF := of_list [[qc 1 9]].
Definition wpDfinv : @M QcF := of_list [[qc 9 1]].
Definition wpL : @M QcF := of_list [[1%Qc; 0%Qc]; [1%Qc; qc 3 1]].
Definition wpQi : @M QcF := of_list [[qc 40 79; qc (-18) 79]; [qc (-18) 79; qc 16 79]].
Definition wpAinv : @M QcF := of_list [[qc 160 79; qc (-108) 79]; [qc (-108) 79; qc 144 79]].
Lemma ex_wiski_post_hyps :
  is_inverse 1 wpD wpDinv /\ is_inverse 1 wpDf wpDfinv
  /\ meq 2 2 (mmul 2 wpL (mT wpL)) (wiski_inner_update 1 (inner4 1 wpW wpDinv) wpWf wpDfinv)
  /\ is_inverse 2 (madd mI (mmul 2 (mT wpL) (mmul 2 wpKuu wpL))) wpQi
  /\ is_inverse 2 (madd (ski 2 (vstack 1 wpW wpWf) wpKuu (vstack 1 wpW wpWf)) (blkdiag 1 wpD wpDf)) wpAinv
  /\ symmetric 2 wpKuu.
Proof. repeat split; apply meqb_sound; vm_compute; reflexivity. Qed.
