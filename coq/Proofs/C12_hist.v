(* C12: specification histories — the noise a likelihood adds depends only on the LAST specification
   of each noise component (constructor, property setters, initialize, raw parameters,
   get_fantasy_likelihood, call-time kwarg).  Lemmas for Models/C12_noise.v (spec_run, mt_run,
   last_spec, R_hist, member routing with None entries). *)
From Coq Require Import Arith List Lia ZArith QArith Qcanon.
From GPV Require Import Base.LinAlg Base.Exec Base.Expr Models.C12_noise Proofs.C12_noise.
Import ListNotations.

Section Hist.
Context {K : Fld}.
Local Open Scope fld_scope.
Add Field Fhist : (@FT K).
Variable clampf : car -> car.

Definition is_second (op : @spec_op K) : Prop := match op with OpSecond _ => True | _ => False end.
Definition not_second (op : @spec_op K) : Prop := match op with OpSecond _ => False | _ => True end.

Lemma spec_run_app ops1 ops2 st :
  spec_run clampf (ops1 ++ ops2) st = spec_run clampf ops2 (spec_run clampf ops1 st).
Proof. unfold spec_run. apply fold_left_app. Qed.

(* operations on the learned part never change the fixed part ... *)
Lemma spec_run_seconds_fixed ops : forall st, Forall is_second ops ->
  st_fixed (spec_run clampf ops st) = st_fixed st.
Proof.
  induction ops as [|op ops IH]; intros st H; [reflexivity|].
  inversion H as [|? ? Hop Hops]; subst. cbn [spec_run fold_left].
  change (fold_left (spec_step clampf) ops (spec_step clampf st op))
    with (spec_run clampf ops (spec_step clampf st op)).
  rewrite IH by assumption. destruct op; cbn in Hop; try contradiction. reflexivity.
Qed.

(* ... and operations on the fixed part never change the learned part *)
Lemma spec_run_fixed_learned ops : forall st, Forall not_second ops ->
  st_learned (spec_run clampf ops st) = st_learned st.
Proof.
  induction ops as [|op ops IH]; intros st H; [reflexivity|].
  inversion H as [|? ? Hop Hops]; subst. cbn [spec_run fold_left].
  change (fold_left (spec_step clampf) ops (spec_step clampf st op))
    with (spec_run clampf ops (spec_step clampf st op)).
  rewrite IH by assumption. destruct op; cbn in Hop; try contradiction; reflexivity.
Qed.

(* the fixed part after a history is a function of the fixed part before it and of the non-learned
   operations only; the learned part of the learned operations only *)
Lemma spec_run_fixed_indep ops : forall st st', st_fixed st = st_fixed st' ->
  st_fixed (spec_run clampf ops st) = st_fixed (spec_run clampf ops st').
Proof.
  induction ops as [|op ops IH]; intros st st' H; [exact H|].
  cbn [spec_run fold_left]. apply IH. destruct op; cbn; rewrite ?H; reflexivity.
Qed.

Lemma spec_run_learned_indep ops : forall st st', st_learned st = st_learned st' ->
  st_learned (spec_run clampf ops st) = st_learned (spec_run clampf ops st').
Proof.
  induction ops as [|op ops IH]; intros st st' H; [exact H|].
  cbn [spec_run fold_left]. apply IH. destruct op; cbn; rewrite ?H; reflexivity.
Qed.

(* re-specifying the fixed noise forgets everything specified for it before: history ops1 is irrelevant *)
Lemma spec_fixed_forgets ops1 v ops2 st l :
  st_fixed (spec_run clampf (ops1 ++ OpFixed v :: ops2) st)
  = st_fixed (spec_run clampf ops2 (mk_nstate v l)).
Proof.
  rewrite spec_run_app. cbn [spec_run fold_left].
  apply spec_run_fixed_indep. reflexivity.
Qed.

(* last OpFixed, then only learned-noise operations: the stored fixed noise is exactly v *)
Lemma spec_last_fixed ops1 v ops2 st : Forall is_second ops2 ->
  st_fixed (spec_run clampf (ops1 ++ OpFixed v :: ops2) st) = v.
Proof.
  intros H. rewrite (spec_fixed_forgets ops1 v ops2 st None).
  rewrite spec_run_seconds_fixed by assumption. reflexivity.
Qed.

(* a fantasy step appends the (rounded-up) new noise to whatever is stored *)
Lemma spec_fantasy_appends ops nw st :
  st_fixed (spec_run clampf (ops ++ [OpFantasy nw]) st)
  = st_fixed (spec_run clampf ops st) ++ map clampf nw.
Proof. rewrite spec_run_app. reflexivity. Qed.

Lemma spec_learned_present ops : forall st, st_learned st <> None ->
  st_learned (spec_run clampf ops st) <> None.
Proof.
  induction ops as [|op ops IH]; intros st H; [exact H|].
  cbn [spec_run fold_left]. apply IH. destruct op; cbn; try exact H.
  destruct (st_learned st); [discriminate|exact H].
Qed.

Lemma spec_learned_absent ops : forall st, st_learned st = None ->
  st_learned (spec_run clampf ops st) = None.
Proof.
  induction ops as [|op ops IH]; intros st H; [exact H|].
  cbn [spec_run fold_left]. apply IH. destruct op; cbn; try exact H. rewrite H. reflexivity.
Qed.

(* last OpSecond, then only fixed-noise operations: the learned noise is exactly s (if the likelihood has one) *)
Lemma spec_last_second ops1 s ops2 st : st_learned st <> None -> Forall not_second ops2 ->
  st_learned (spec_run clampf (ops1 ++ OpSecond s :: ops2) st) = Some s.
Proof.
  intros Hl H. rewrite spec_run_app. cbn [spec_run fold_left].
  change (fold_left (spec_step clampf) ops2 ?x) with (spec_run clampf ops2 x).
  rewrite spec_run_fixed_learned by assumption. cbn.
  pose proof (spec_learned_present ops1 st Hl) as Hp. unfold spec_run in *.
  destruct (st_learned (fold_left (spec_step clampf) ops1 st)); [reflexivity|contradiction].
Qed.

(* entries of the operator added in a given state *)
Lemma R_hist_entry N st call i j :
  R_hist N st call i j
  = if Nat.eqb i j
    then (match call with
          | Some c => c i
          | None => if Nat.eqb N (length (st_fixed st)) then nth i (st_fixed st) 0 else 0
          end) + opt0 (st_learned st)
    else 0.
Proof.
  unfold R_hist. destruct call as [c|].
  - apply R_fixed_call.
  - unfold R_fixed, madd, fixed_base. rewrite learned_part_entry.
    destruct (Nat.eqb N (length (st_fixed st))); unfold mdiag, mzero, lfn, opt0;
      destruct (Nat.eqb i j); ring.
Qed.

(* headline: after ANY history, re-specifying the fixed noise as v (setter / initialize) and then the
   learned noise any number of times, the likelihood adds diag(v) + sigma^2 I with sigma^2 the learned
   noise of the final state — in particular NOT diag(v) - sigma^2 I + sigma^2 I = diag(v) *)
Lemma R_hist_after_respecification ops1 v ops2 st i j : Forall is_second ops2 ->
  let st' := spec_run clampf (ops1 ++ OpFixed v :: ops2) st in
  R_hist (length v) st' None i j
  = if Nat.eqb i j then nth i v 0 + opt0 (st_learned st') else 0.
Proof.
  intros H st'. rewrite R_hist_entry. unfold st'. rewrite spec_last_fixed by assumption.
  rewrite Nat.eqb_refl. reflexivity.
Qed.

(* a call-time noise replaces the fixed part of ANY state, exactly as passed (no floor), learned part kept *)
Lemma R_hist_call N st c i j :
  R_hist N st (Some c) i j = if Nat.eqb i j then c i + opt0 (st_learned st) else 0.
Proof. apply R_hist_entry. Qed.

End Hist.

(* ---- plain-parameter components: the last operation wins ---------------------------------- *)
Lemma last_spec_app {V : Type} (init : V) ops v : last_spec init (ops ++ [v]) = v.
Proof. unfold last_spec. rewrite fold_left_app. reflexivity. Qed.

Lemma last_spec_nil {V : Type} (init : V) : last_spec init [] = init.
Proof. reflexivity. Qed.

Section MtHist.
Context {K : Fld}.

Definition addresses_glob (op : @mt_op K) := match op with MGlob _ => True | _ => False end.
Definition addresses_task (op : @mt_op K) := match op with MTask _ => True | _ => False end.
Definition addresses_factor (op : @mt_op K) := match op with MFactor _ => True | _ => False end.

Lemma mt_run_app ops1 ops2 st : mt_run (ops1 ++ ops2) st = mt_run ops2 (mt_run ops1 st).
Proof. unfold mt_run. apply fold_left_app. Qed.

Lemma mt_run_untouched ops : forall st,
  (Forall (fun op => ~ addresses_glob op) ops -> mt_glob (mt_run ops st) = mt_glob st) /\
  (Forall (fun op => ~ addresses_task op) ops -> mt_d (mt_run ops st) = mt_d st) /\
  (Forall (fun op => ~ addresses_factor op) ops -> mt_F (mt_run ops st) = mt_F st).
Proof.
  induction ops as [|op ops IH]; intros st; [repeat split; reflexivity|].
  cbn [mt_run fold_left]. change (fold_left mt_step ops ?x) with (mt_run ops x).
  destruct (IH (mt_step st op)) as (Hg & Hd & HF).
  repeat split; intros H; inversion H as [|? ? Hop Hops]; subst.
  - rewrite Hg by assumption. destruct op; cbn in *; try reflexivity. exfalso; apply Hop; exact I.
  - rewrite Hd by assumption. destruct op; cbn in *; try reflexivity. exfalso; apply Hop; exact I.
  - rewrite HF by assumption. destruct op; cbn in *; try reflexivity. exfalso; apply Hop; exact I.
Qed.

Lemma mt_glob_present ops : forall st, mt_glob st <> None -> mt_glob (mt_run ops st) <> None.
Proof.
  induction ops as [|op ops IH]; intros st H; [exact H|].
  cbn [mt_run fold_left]. apply IH. destruct op; cbn; try exact H.
  destruct (mt_glob st); [discriminate|exact H].
Qed.

(* each component holds the value of the last operation that addressed it *)
Lemma mt_last_task ops1 d ops2 st : Forall (fun op => ~ addresses_task op) ops2 ->
  mt_d (mt_run (ops1 ++ MTask d :: ops2) st) = d.
Proof.
  intros H. rewrite mt_run_app. cbn [mt_run fold_left]. change (fold_left mt_step ops2 ?x) with (mt_run ops2 x).
  destruct (mt_run_untouched ops2 (mt_step (mt_run ops1 st) (MTask d))) as (_ & Hd & _).
  unfold mt_run in *. rewrite Hd by assumption. reflexivity.
Qed.

Lemma mt_last_factor ops1 F ops2 st : Forall (fun op => ~ addresses_factor op) ops2 ->
  mt_F (mt_run (ops1 ++ MFactor F :: ops2) st) = F.
Proof.
  intros H. rewrite mt_run_app. cbn [mt_run fold_left]. change (fold_left mt_step ops2 ?x) with (mt_run ops2 x).
  destruct (mt_run_untouched ops2 (mt_step (mt_run ops1 st) (MFactor F))) as (_ & _ & HF).
  unfold mt_run in *. rewrite HF by assumption. reflexivity.
Qed.

Lemma mt_last_glob ops1 s ops2 st : mt_glob st <> None ->
  Forall (fun op => ~ addresses_glob op) ops2 ->
  mt_glob (mt_run (ops1 ++ MGlob s :: ops2) st) = Some s.
Proof.
  intros Hg H. rewrite mt_run_app. cbn [mt_run fold_left]. change (fold_left mt_step ops2 ?x) with (mt_run ops2 x).
  destruct (mt_run_untouched ops2 (mt_step (mt_run ops1 st) (MGlob s))) as (Hgl & _ & _).
  unfold mt_run in *. rewrite Hgl by assumption. cbn.
  pose proof (mt_glob_present ops1 st Hg) as Hp. unfold mt_run in *.
  destruct (mt_glob (fold_left mt_step ops1 st)); [reflexivity|contradiction].
Qed.

End MtHist.

(* ---- LikelihoodList: a None entry of the noise list means "no call-time noise for this member" -- *)
Lemma member_call_none_entry c N : member_call c N (Some None) = member_call c N None.
Proof. reflexivity. Qed.

(* the result for member k depends on entry k of the noise list only: in particular a None entry after a
   tensor entry does not inherit the previous member's noise *)
Lemma list_call_none_entry ls Ns ns r k dl dx dr :
  list_call member_call ls Ns (Some ns) = Some r -> (k < length ls)%nat ->
  nth k ns None = None ->
  nth k r dr = member_call (nth k ls dl) (nth k Ns dx) None.
Proof.
  intros H Hk Hn.
  destruct (list_call_routes member_call ls Ns (Some ns) r H) as [_ Hr].
  rewrite (Hr k dl dx None dr Hk). rewrite Hn. apply member_call_none_entry.
Qed.

(* rounding up at construction: the floor is a lower bound of every stored value, and values at or above
   the floor are stored exactly *)
Lemma qc_clamp_ge floor v : (floor <= qc_clamp floor v)%Qc.
Proof.
  unfold qc_clamp. destruct (Qclt_le_dec v floor) as [H|H]; [apply Qcle_refl|exact H].
Qed.

Lemma qc_clamp_id floor v : (floor <= v)%Qc -> qc_clamp floor v = v.
Proof.
  intros H. unfold qc_clamp. destruct (Qclt_le_dec v floor) as [H'|H']; [|reflexivity].
  exfalso. exact (Qclt_not_le _ _ H' H).
Qed.

(* witness: storing value - sigma^2 through the setter (so that the getter round-trips) is a different
   operator: v = [1/2], sigma^2 = 1/8 gives 1/2 instead of 5/8 *)
Lemma R_hist_setter_minus_second_refuted :
  exists (v : Qc) (s : Qc),
    R_hist (K:=QcF) 1%nat (mk_nstate (K:=QcF) [(v - s)%Qc] (Some s)) None O O
    <> R_hist (K:=QcF) 1%nat
         (spec_run (K:=QcF) (fun x => x) [qOpFixed [v]] (mk_nstate (K:=QcF) [v] (Some s))) None O O.
Proof.
  exists (qc 1 2), (qc 1 8). vm_compute. intros H. discriminate H.
Qed.
