(* C02 / C15 proofs, added-loss terms: the traversal behind Module.named_added_loss_terms (memo on the TERM OBJECTS,
   threaded through the whole traversal = Models/C02_priors.v collect_by_prior) yields every term object that occurs
   anywhere in the module tree EXACTLY once -- whatever the sharing of modules (a module reachable under several
   names), registration names, or nesting; the variant that does not hand the memo down yields a term of a shared
   module twice. *)
From Coq Require Import Arith Lia List Permutation Bool.
From GPV Require Import Base.LinAlg Base.Exec Models.C02_mll Models.C02_priors Proofs.C02_priors.
Import ListNotations.

(* what a memo-threading collector must do on the objects X it walks over *)
Definition good (X : list nat) (f : list nat -> list reg * list nat) : Prop :=
  forall memo,
    NoDup (map reg_prior (fst (f memo)))
    /\ (forall r, In r (fst (f memo)) -> ~ In (reg_prior r) memo /\ In (reg_prior r) X)
    /\ (forall x, In x (snd (f memo)) <-> In x memo \/ In x (map reg_prior (fst (f memo))))
    /\ (forall x, In x X -> In x (snd (f memo))).

Lemma good_ext X f g : (forall memo, f memo = g memo) -> good X f -> good X g.
Proof. intros E H memo. rewrite <- E. apply H. Qed.

Lemma good_nil : good [] (fun memo => ([], memo)).
Proof.
  intros memo. cbn [fst snd map]. split; [constructor|]. split; [intros ? []|]. split; [|intros ? []].
  intros x. cbn [In]. tauto.
Qed.

Lemma good_seq X1 X2 f1 f2 : good X1 f1 -> good X2 f2 ->
  good (X1 ++ X2) (fun memo => let '(o1, m1) := f1 memo in let '(o2, m2) := f2 m1 in (o1 ++ o2, m2)).
Proof.
  intros H1 H2 memo. specialize (H1 memo). destruct (f1 memo) as [o1 m1]. cbn [fst snd] in H1.
  destruct H1 as [N1 [R1 [M1 C1]]].
  specialize (H2 m1). destruct (f2 m1) as [o2 m2]. cbn [fst snd] in H2 |- *.
  destruct H2 as [N2 [R2 [M2 C2]]].
  split; [|split; [|split]].
  - rewrite map_app. apply NoDup_app_disjoint; [exact N1|exact N2|].
    intros x Hx1 Hx2. apply in_map_iff in Hx2 as [r [<- Hr]]. destruct (R2 r Hr) as [Nin _].
    apply Nin. apply M1. right. exact Hx1.
  - intros r Hr. apply in_app_or in Hr as [Hr|Hr].
    + destruct (R1 r Hr) as [A B]. split; [exact A|apply in_or_app; left; exact B].
    + destruct (R2 r Hr) as [A B]. split; [|apply in_or_app; right; exact B].
      intros Hm. apply A. apply M1. left. exact Hm.
  - intros x. rewrite M2, M1, map_app, in_app_iff. tauto.
  - intros x Hx. apply in_app_or in Hx as [Hx|Hx].
    + apply M2. left. apply C1. exact Hx.
    + apply C2. exact Hx.
Qed.

Lemma good_own id ps : good (map snd ps) (own_by_prior id ps).
Proof.
  induction ps as [|p ps IH]; intros memo; cbn [own_by_prior map].
  - apply (good_nil memo).
  - destruct (mem (snd p) memo) eqn:Em.
    + destruct (IH memo) as [N [R [M C]]]. split; [exact N|]. split; [|split; [exact M|]].
      * intros r Hr. destruct (R r Hr) as [A B]. split; [exact A|right; exact B].
      * intros x [<-|Hx]; [|apply C; exact Hx]. apply M. left. apply mem_spec. exact Em.
    + assert (Hn : ~ In (snd p) memo) by (intros Hi; apply mem_spec in Hi; congruence).
      specialize (IH (snd p :: memo)). destruct (own_by_prior id ps (snd p :: memo)) as [o m] eqn:E.
      cbn [fst snd] in IH |- *. destruct IH as [N [R [M C]]].
      split; [|split; [|split]].
      * cbn [map]. unfold reg_prior at 1. cbn [snd]. constructor; [|exact N].
        intros Hi. apply in_map_iff in Hi as [r [Er Hr]]. destruct (R r Hr) as [A _]. apply A. left. symmetry. exact Er.
      * intros r [<-|Hr].
        -- unfold reg_prior. cbn [snd]. split; [exact Hn|left; reflexivity].
        -- destruct (R r Hr) as [A B]. split; [|right; exact B]. intros Hm. apply A. right. exact Hm.
      * intros x. rewrite M. cbn [map In]. unfold reg_prior at 2. cbn [snd]. tauto.
      * intros x [<-|Hx]; [|apply C; exact Hx]. apply M. left. left. reflexivity.
Qed.

Lemma objs_node id ps ch : objs (MNode id ps ch) = map snd ps ++ flat_map objs ch.
Proof.
  unfold objs. cbn [regs]. rewrite map_app. f_equal.
  - unfold own_regs. rewrite map_map. apply map_ext. intros p. reflexivity.
  - induction ch as [|c r IH]; [reflexivity|]. cbn [flat_map]. rewrite map_app, IH. reflexivity.
Qed.

Lemma good_list ch : Forall (fun c => good (objs c) (collect_by_prior c)) ch ->
  good (flat_map objs ch) (collect_list collect_by_prior ch).
Proof.
  induction 1 as [|c r Hc _ IH]; [exact good_nil|].
  cbn [flat_map]. apply (good_ext _ _ _ (fun memo => eq_refl) (good_seq _ _ _ _ Hc IH)).
Qed.

Lemma good_tree : forall t, good (objs t) (collect_by_prior t).
Proof.
  apply mtree_ind'. intros id ps ch Hch. rewrite objs_node.
  pose proof (good_seq _ _ _ _ (good_own id ps) (good_list ch Hch)) as G.
  apply (good_ext _ _ _ (fun memo => eq_refl) G).
Qed.

(* every term object at most once ... *)
Theorem named_added_nodup t : NoDup (map reg_prior (named_added t)).
Proof. unfold named_added. exact (proj1 (good_tree t [])). Qed.

(* ... and every term object of the tree at least once (and nothing else) *)
Theorem named_added_complete t x : In x (map reg_prior (named_added t)) <-> In x (objs t).
Proof.
  unfold named_added. destruct (good_tree t []) as [_ [R [M C]]]. split.
  - intros Hx. apply in_map_iff in Hx as [r [<- Hr]]. exact (proj2 (R r Hr)).
  - intros Hx. apply C in Hx. apply M in Hx. destruct Hx as [[]|Hx]. exact Hx.
Qed.

(* hence: the yielded objects are the distinct objects of the tree *)
Corollary named_added_distinct t :
  Permutation (map reg_prior (named_added t)) (nodup Nat.eq_dec (objs t)).
Proof.
  apply NoDup_Permutation; [apply named_added_nodup|apply NoDup_nodup|].
  intros x. rewrite named_added_complete, nodup_In. reflexivity.
Qed.

(* a tree without sharing and with distinct objects: every registration, in order (as for the priors) *)
Corollary named_added_count t : length (named_added t) = length (nodup Nat.eq_dec (objs t)).
Proof. rewrite <- (map_length reg_prior). apply Permutation_length, named_added_distinct. Qed.

(* the traversal that does not hand its memo down: a term of a module reachable along two paths (covar_module =
   ScaleKernel(base) next to model.base_kernel = base) is yielded twice *)
Lemma collect_added_fresh_refuted :
  exists t, ~ NoDup (map reg_prior (collect_added_fresh t)) /\ NoDup (map reg_prior (named_added t)).
Proof.
  exists (MNode 0 [] [MNode 1 [] [MNode 2 [(0, 7)] []]; MNode 2 [(0, 7)] []])%nat. split.
  - vm_compute. intros H. inversion H as [|? ? Hn _]. apply Hn. left. reflexivity.
  - apply named_added_nodup.
Qed.

Lemma ex_named_added_shared :
  named_added (MNode 0 [(0, 5)] [MNode 1 [] [MNode 2 [(0, 7)] []]; MNode 2 [(0, 7)] []])%nat = [(0, 0, 5); (2, 0, 7)]%nat.
Proof. reflexivity. Qed.
