(* C15 proofs, multi-output objectives (IndependentMultitask / LMC variational strategies with a multitask
   Gaussian likelihood): the minibatch size of the objective is the number of POINTS; with it the objective is
   an unbiased minibatch estimate and the mean over any partition of the data into equal minibatches is the
   full-batch value; dividing by the number of tasks instead is refuted; independent tasks are LMC with the
   identity mixing matrix. *)
From Coq Require Import Arith Lia Ring Field Setoid Morphisms List QArith Qcanon.
From GPV Require Import Base.LinAlg Base.Exec Models.C14_variational Models.C02_mll Proofs.C02_mll Models.C15_elbo
  Proofs.C15_elbo.
Import ListNotations.

Section Proofs.
Context {K : Fld}.
Add Field Ff_c15m : (@FT K).
Local Open Scope fld_scope.

Notation ofn := C02_mll.of_nat.

(* a sum over P * B consecutive indices, block by block *)
Lemma sum_blocks P B (f : nat -> car) :
  sum (P * B) f = sum P (fun p => sum B (fun i => f (p * B + i)%nat)).
Proof.
  induction P as [|P IH].
  - reflexivity.
  - replace (S P * B)%nat with (P * B + B)%nat by (cbn [Nat.mul]; lia).
    rewrite sum_split, IH. reflexivity.
Qed.

(* the likelihood term of a minibatch is a sum over its points *)
Lemma mt_batch_sum B T (e : nat -> nat -> car) (off : nat) :
  sum B (mt_point_ell T (fun i t => e (off + i)%nat t)) = sum B (fun i => mt_point_ell T e (off + i)%nat).
Proof. reflexivity. Qed.

(* mean of the objective over a partition of P * B points into P minibatches of B points = full-batch objective,
   for any declared num_data, beta, priors and added terms *)
Lemma mt_partition P B T (e : nat -> nat -> car) kl beta nd lp added : ofn P <> 0 -> ofn B <> 0 ->
  sum P (fun p => mt_elbo_value B T (fun i t => e (p * B + i)%nat t) kl beta nd lp added) / ofn P
  = mt_elbo_value (P * B) T e kl beta nd lp added.
Proof.
  intros HP HB. unfold mt_elbo_value, elbo_value.
  set (q1 := kl / (nd / beta)). set (q2 := lp / nd).
  set (c := - q1 + q2 - added).
  rewrite (sum_ext P _ (fun p => (1 / ofn B) * sum B (fun i => mt_point_ell T e (p * B + i)%nat) + c)).
  - rewrite sum_add, sum_scale_l, (sum_const P c), <- (sum_blocks P B (mt_point_ell T e)), of_nat_mul.
    unfold c. field. split; assumption.
  - intros p _. rewrite mt_batch_sum. unfold c. field. exact HB.
Qed.

(* unbiasedness over uniformly drawn minibatches of any size (index tuples with replacement) *)
Lemma mt_minibatch_unbiased N B T (e : nat -> nat -> car) kl beta nd lp added : ofn N <> 0 -> ofn (S B) <> 0 ->
  avg_tuples N (S B) (fun t => elbo_value (lsum t (mt_point_ell T e)) (ofn (S B)) kl beta nd lp added)
  = mt_elbo_value N T e kl beta nd lp added.
Proof. intros HN HB. unfold mt_elbo_value. apply (minibatch_unbiased N HN B); exact HB. Qed.

(* dividing by the number of tasks instead: off by the factor B / T on the likelihood term *)
Lemma mt_by_tasks_gap B T (e : nat -> nat -> car) kl beta nd lp added : ofn B <> 0 -> ofn T <> 0 ->
  mt_elbo_value_by_tasks B T e kl beta nd lp added - mt_elbo_value B T e kl beta nd lp added
  = sum B (mt_point_ell T e) * (1 / ofn T - 1 / ofn B).
Proof.
  intros HB HT. unfold mt_elbo_value_by_tasks, mt_elbo_value, elbo_value.
  set (q1 := kl / (nd / beta)). set (q2 := lp / nd). field. split; assumption.
Qed.

(* independent tasks = LMC with the identity mixing matrix (and no jitter) *)
Lemma lmc_identity_mean L (mu : nat -> nat -> car) i t : (t < L)%nat ->
  lmc_mean L mI mu i t = mu t i.
Proof.
  intros Ht. unfold lmc_mean.
  rewrite (sum_single L t).
  - unfold mI. rewrite Nat.eqb_refl. ring.
  - exact Ht.
  - intros l _ Hl. unfold mI. destruct (Nat.eqb_spec l t); [contradiction|ring].
Qed.
Lemma lmc_identity_var L (v : nat -> nat -> car) i t : (t < L)%nat ->
  lmc_var L mI 0 v i t = v t i.
Proof.
  intros Ht. unfold lmc_var.
  rewrite (sum_single L t).
  - unfold mI. rewrite Nat.eqb_refl. ring.
  - exact Ht.
  - intros l _ Hl. unfold mI. destruct (Nat.eqb_spec l t); [contradiction|ring].
Qed.

End Proofs.

(* the by-tasks variant is NOT the definition: 1 point, 2 tasks, every term 1 *)
Lemma mt_by_tasks_refuted :
  exists (B T : nat) (e : nat -> nat -> Qc) (kl beta nd lp added : Qc),
    @mt_elbo_value_by_tasks QcF B T e kl beta nd lp added <> @mt_elbo_value QcF B T e kl beta nd lp added.
Proof.
  exists 1%nat, 2%nat, (fun _ _ => 1%Qc), 0%Qc, 1%Qc, 1%Qc, 0%Qc, 0%Qc.
  vm_compute. discriminate.
Qed.
