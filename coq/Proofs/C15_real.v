(* C15 proofs over R: the code's Gaussian terms are the log densities they claim to be; KL >= 0 in
   the diagonal whitened case; the bound along the KL term. *)
From Coq Require Import Reals Lra Arith Lia List.
From GPV Require Import Base.LinAlg Base.Exec Base.Expr Models.C02_mll Proofs.C02_mll Models.C15_elbo Proofs.C15_elbo.
(* ---- over R ----------------------------------------------------------------------------- *)
Local Open Scope R_scope.

(* the code's per-point term (gaussian_likelihood.py:66-67) is log N(y; mu, s2) - v / (2 s2) *)
Lemma gaussian_ell_code_form (y mu v s2 : R) : s2 <> 0 ->
  - / 2 * (@ell_rat RF y mu v s2 + ln s2 + ln (2 * PI)) = logN1 y mu s2 - v / (2 * s2).
Proof. intros H. unfold ell_rat, logN1. cbn [fadd fsub fmul fdiv RF]. field. exact H. Qed.

(* ... and equals the moment-functional expectation of f |-> log N(y; f, s2) *)
Lemma gaussian_ell_is_expectation (y mu v s2 : R) : s2 <> 0 ->
  @expect_poly RF mu v (@gauss_loglik_poly RF (- / 2 * ln s2 - / 2 * ln (2 * PI)) y s2)
  = - / 2 * (@ell_rat RF y mu v s2 + ln s2 + ln (2 * PI)).
Proof.
  intros H. rewrite (@gaussian_ell_closed_form RF); [|exact H|cbn; lra].
  unfold ell_rat. cbn [fadd fsub fmul fdiv fopp f1 f0 car RF]. field. exact H.
Qed.

(* PredictiveLogLikelihood term: log N(y; mu, v + s2) written as the code does *)
Lemma pll_code_form (y mu v s2 : R) : v + s2 <> 0 ->
  - / 2 * (@logn_rat RF y mu (v + s2) + ln (v + s2) + ln (2 * PI)) = logN1 y mu (v + s2).
Proof. intros H. unfold logn_rat, logN1. cbn [fsub fmul fdiv RF]. field. exact H. Qed.

(* ln s <= s - 1 *)
Lemma ln_le_minus_1 s : 0 < s -> ln s <= s - 1.
Proof.
  intros Hs. destruct (Req_dec s 1) as [->|Hne]; [rewrite ln_1; lra|].
  assert (H : 1 + (s - 1) <= exp (s - 1)).
  { left. apply exp_ineq1. lra. }
  replace (1 + (s - 1)) with s in H by lra.
  destruct H as [H|H].
  - left. pose proof (ln_increasing s (exp (s - 1)) Hs H) as H'. rewrite ln_exp in H'. exact H'.
  - right. rewrite H at 1. apply ln_exp.
Qed.

(* whitened, diagonal S = diag(s): 2 KL(q(u)||p(u)) = sum_i (s_i + m_i^2 - 1 - ln s_i) >= 0 *)
Lemma kl_nonneg_diag n (s mw : nat -> R) : (forall i, (i < n)%nat -> 0 < s i) ->
  0 <= @sum RF n (fun i => s i + mw i * mw i - 1 - ln (s i)).
Proof.
  intros H. induction n as [|n IH]; [cbn; lra|].
  change (@sum RF (S n) (fun i => s i + mw i * mw i - 1 - ln (s i)))
    with (@sum RF n (fun i => s i + mw i * mw i - 1 - ln (s i)) + (s n + mw n * mw n - 1 - ln (s n))).
  assert (H1 : 0 <= @sum RF n (fun i => s i + mw i * mw i - 1 - ln (s i))) by (apply IH; intros; apply H; lia).
  pose proof (ln_le_minus_1 (s n) (H n ltac:(lia))). pose proof (Rle_0_sqr (mw n)). unfold Rsqr in *. lra.
Qed.

(* hence the bound along the KL term: ELBO <= (1/B) sum ell + (1/N) log prior - added *)
Lemma elbo_le_without_kl (ell nb kl beta nd lp added : R) : 0 <= kl -> 0 < beta -> 0 < nd ->
  @elbo_value RF ell nb kl beta nd lp added <= ell / nb + lp / nd - added.
Proof.
  intros H1 H2 H3. unfold elbo_value. cbn [fadd fsub fdiv RF].
  assert (0 <= kl / (nd / beta)).
  { apply Rmult_le_pos; [exact H1|]. left. apply Rinv_0_lt_compat. apply Rdiv_lt_0_compat; assumption. }
  lra.
Qed.

Lemma gaussian_ell_code_forms (y mu v s2 : R) : s2 <> 0 ->
  @expect_poly RF mu v (@gauss_loglik_poly RF (- / 2 * ln s2 - / 2 * ln (2 * PI)) y s2)
  = - / 2 * (@ell_rat RF y mu v s2 + ln s2 + ln (2 * PI))
  /\ - / 2 * (@ell_rat RF y mu v s2 + ln s2 + ln (2 * PI)) = logN1 y mu s2 - v / (2 * s2).
Proof. intros H. split; [apply gaussian_ell_is_expectation|apply gaussian_ell_code_form]; exact H. Qed.

(* covariance direction, diagonal (commuting) case: -1/2 tr(P S) + 1/2 log det S with P = diag(p),
   S = diag(s) is maximal at S = P^-1 *)
Lemma elbo_cov_part_diag_max n (p s : nat -> R) :
  (forall i, (i < n)%nat -> 0 < p i) -> (forall i, (i < n)%nat -> 0 < s i) ->
  @sum RF n (fun i => - / 2 * (p i * s i) + / 2 * ln (s i))
  <= @sum RF n (fun i => - / 2 * (p i * / p i) + / 2 * ln (/ p i)).
Proof.
  intros Hp Hs. induction n as [|n IH]; [cbn; lra|].
  change (@sum RF (S n) (fun i => - / 2 * (p i * s i) + / 2 * ln (s i)))
    with (@sum RF n (fun i => - / 2 * (p i * s i) + / 2 * ln (s i)) + (- / 2 * (p n * s n) + / 2 * ln (s n))).
  change (@sum RF (S n) (fun i => - / 2 * (p i * / p i) + / 2 * ln (/ p i)))
    with (@sum RF n (fun i => - / 2 * (p i * / p i) + / 2 * ln (/ p i)) + (- / 2 * (p n * / p n) + / 2 * ln (/ p n))).
  assert (H1 := IH (fun i Hi => Hp i ltac:(lia)) (fun i Hi => Hs i ltac:(lia))).
  pose proof (Hp n ltac:(lia)) as Hpn. pose proof (Hs n ltac:(lia)) as Hsn.
  assert (Hps : 0 < p n * s n) by (apply Rmult_lt_0_compat; assumption).
  pose proof (ln_le_minus_1 (p n * s n) Hps) as H2.
  rewrite (ln_mult (p n) (s n) Hpn Hsn) in H2.
  rewrite (ln_Rinv (p n) Hpn). rewrite Rinv_r by lra. lra.
Qed.

(* non-vacuity of the optimal-q hypotheses *)
From Coq Require Import QArith Qcanon.
Import ListNotations.
Lemma ex_opt_hypotheses :
  exists (Kzz Kinv Kzx Di Si : @M QcF),
    @is_inverse QcF 2%nat Kzz Kinv /\ @is_inverse QcF 2%nat (@opt_Sigma QcF 3%nat Kzz Kzx Di) Si.
Proof.
  set (Kzz := @of_list QcF [[qc 2 1; qc 1 2]; [qc 1 2; qc 2 1]]).
  set (Kzx := @of_list QcF [[qc 1 1; qc 1 2; qc 1 4]; [qc 1 4; qc 1 2; qc 1 1]]).
  set (Di := @mdiag QcF (fun _ => qc 4 1)).
  destruct (inv_checked 2%nat (@mat QcF 2%nat 2%nat Kzz)) as [Ki|] eqn:E1; [|vm_compute in E1; discriminate].
  destruct (inv_checked 2%nat (@mat QcF 2%nat 2%nat (@opt_Sigma QcF 3%nat Kzz Kzx Di))) as [Si|] eqn:E2;
    [|vm_compute in E2; discriminate].
  exists Kzz, Ki, Kzx, Di, Si. split; apply inv_checked_mat; assumption.
Qed.
