(* C14: the log-det half of "KL of the whitened strategy = KL(q(u) || p(u))", with the Laplace
   determinant of the executable model.  Uses Base/Det.v (full multiplicativity of det,
   det of triangular factors). *)
From Coq Require Import Arith Lia Ring Field Setoid Morphisms Reals Lra.
From GPV Require Import Base.LinAlg Base.Exec Base.Expr Base.Det Models.C14_variational
  Proofs.C14_variational Proofs.C14_more.

Section DetKL.
Context {K : Fld}.
Add Field Ff_c14d : (@FT K).
Local Open Scope fld_scope.

(* change of variables u = m_z + L e, determinant part: for ANY root L of Kzz and ANY S_w
   det (L S_w L^T) = det Kzz * det S_w *)
Lemma det_unwhiten_cov m Kzz L Sw : meq m m (mmul m L (mT L)) Kzz ->
  det m (unwhiten_cov m L Sw) = det m Kzz * det m Sw.
Proof.
  intros HL. unfold unwhiten_cov. rewrite <- (det_ext m _ _ HL). rewrite !det_mmul. ring.
Qed.

(* both halves of 2 KL: rational part (trace + quadratic form) and determinant part *)
Lemma kl_whitened_eq_full m Kzz Kinv L Linv :
  meq m m (mmul m L (mT L)) Kzz -> is_inverse m L Linv -> is_inverse m Kzz Kinv ->
  forall mz mw Sw,
  kl_wh_alg m Sw mw = kl_unwh_alg m Kinv (unwhiten_cov m L Sw) (unwhiten_mean m L mz mw) mz
  /\ det m (unwhiten_cov m L Sw) = det m Kzz * det m Sw.
Proof.
  intros HL HLi HK mz mw Sw. split.
  - exact (kl_alg_whitened_eq m Kzz Kinv L Linv HL HLi HK mz mw Sw).
  - exact (det_unwhiten_cov m Kzz L Sw HL).
Qed.

Lemma prodf_dprod n f : prodf n f = dprod n f.
Proof. induction n as [|n IH]; [reflexivity|]. cbn [prodf dprod]. rewrite IH. reflexivity. Qed.

Lemma lower_tri_lower n A : lower n A <-> tri_lower n A.
Proof. split; intros H; exact H. Qed.

(* triangular factors (Cholesky factor L of Kzz, factor C of S_w): the squared diagonal products
   ARE the Laplace determinants *)
Lemma triangular_factor_logdet_full n L C Sw :
  lower n L -> lower n C -> meq n n (mmul n C (mT C)) Sw ->
  lower n (mmul n L C) /\
  meq n n (mmul n (mmul n L C) (mT (mmul n L C))) (unwhiten_cov n L Sw) /\
  diag_prod n (mmul n L C) * diag_prod n (mmul n L C) = det n (unwhiten_cov n L Sw) /\
  diag_prod n L * diag_prod n L = det n (mmul n L (mT L)) /\
  diag_prod n C * diag_prod n C = det n Sw /\
  det n (unwhiten_cov n L Sw) = det n (mmul n L (mT L)) * det n Sw.
Proof.
  intros HL HC HS.
  destruct (triangular_factor_logdet n L C Sw HL HC HS) as [H1 [H2 H3]].
  split; [exact H1|]. split; [exact H2|].
  unfold diag_prod in *. rewrite !prodf_dprod in *.
  split; [|split; [|split]].
  - rewrite <- (det_ext n _ _ H2). symmetry. apply det_tri_gram_lower. exact H1.
  - symmetry. apply det_tri_gram_lower. exact HL.
  - rewrite <- (det_ext n _ _ HS). symmetry. apply det_tri_gram_lower. exact HC.
  - apply det_unwhiten_cov. reflexivity.
Qed.

End DetKL.

(* over R, with logarithms: the whole 2 KL of the whitened parametrisation equals the whole
   2 KL(q(u) || p(u)) of the described q(u) = N(m_z + L m_w, L S_w L^T), for any root L *)
Local Open Scope R_scope.
Theorem kl_whitened_eq_log m (Kzz Kinv L Linv : @M RF) :
  meq m m (mmul m L (mT L)) Kzz -> is_inverse m L Linv -> is_inverse m Kzz Kinv ->
  forall (mz mw Sw : @M RF), 0 < det m Sw -> 0 < det m Kzz ->
  0 < det m (unwhiten_cov m L Sw) /\
  kl_wh_alg m Sw mw - fnat m - ln (det m Sw)
  = kl_unwh_alg m Kinv (unwhiten_cov m L Sw) (unwhiten_mean m L mz mw) mz - fnat m
    + ln (det m Kzz) - ln (det m (unwhiten_cov m L Sw)).
Proof.
  intros HL HLi HK mz mw Sw HdS HdK.
  destruct (kl_whitened_eq_full m Kzz Kinv L Linv HL HLi HK mz mw Sw) as [E1 E2].
  rewrite E2. cbn [fmul RF]. split; [apply Rmult_lt_0_compat; assumption|].
  rewrite ln_mult by assumption. rewrite E1. lra.
Qed.

(* non-vacuity of the hypotheses over R (m = 1: L = 2, Kzz = 4, S_w = 3) *)
Lemma ex_kl_log_hyps :
  let L : @M RF := fun _ _ => 2 in let Kzz : @M RF := fun _ _ => 4 in
  meq 1 1 (mmul 1 L (mT L)) Kzz /\ is_inverse 1 L (fun _ _ => / 2) /\ is_inverse 1 Kzz (fun _ _ => / 4)
  /\ 0 < det 1 (fun _ _ => 3 : @car RF) /\ 0 < det 1 Kzz.
Proof.
  intros L Kzz. split; [|split; [|split; [|split]]].
  - intros i j Hi Hj. unfold mmul, mT, L, Kzz. cbn. lra.
  - split; intros i j Hi Hj; destruct i; destruct j; try lia; unfold mmul, mI, L; cbn; lra.
  - split; intros i j Hi Hj; destruct i; destruct j; try lia; unfold mmul, mI, Kzz; cbn; lra.
  - rewrite det_detF. cbn. lra.
  - rewrite det_detF. unfold Kzz. cbn. lra.
Qed.
