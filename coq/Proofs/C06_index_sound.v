(* C06 — soundness of [index_model] (Models/C06_index.v), torch's reading of an index tuple on a dense
   tensor: for every shape with non-negative dimensions and every index tuple the model accepts
   (ints incl. negative, slices with any start / stop / step that torch accepts, 1-D index tensors with
   negative / repeated entries incl. the broadcast and the "separated advanced indices go first" rule,
   Ellipsis), every flat source position is in range of the flattened source, the number of positions
   is the product of the reported result shape, and for pure basic indexing (ints and slices only) no
   source position is selected twice. *)
From Coq Require Import ZArith List Bool Arith Lia FinFun.
From GPV Require Import Base.PySlice Models.C11_mtmvn Proofs.C11_mtmvn Models.C06_index.
Import ListNotations.
Local Open Scope Z_scope.

(* ------------------------------------------------------------------ generic list helpers *)
Lemma flat_map_flat_map {A B C} (f : A -> list B) (g : B -> list C) l :
  flat_map g (flat_map f l) = flat_map (fun x => flat_map g (f x)) l.
Proof.
  induction l as [|x l IH]; [reflexivity|]. cbn [flat_map]. rewrite flat_map_app, IH. reflexivity.
Qed.

Lemma flat_map_length_const {A B} (f : A -> list B) n l :
  (forall x, List.length (f x) = n) -> List.length (flat_map f l) = (List.length l * n)%nat.
Proof.
  intros H. induction l as [|x l IH]; [reflexivity|].
  cbn [flat_map List.length]. rewrite app_length, H, IH. lia.
Qed.

Lemma NoDup_app_intro {A} (l1 l2 : list A) :
  NoDup l1 -> NoDup l2 -> (forall x, In x l1 -> ~ In x l2) -> NoDup (l1 ++ l2).
Proof.
  induction l1 as [|a l1 IH]; intros H1 H2 Hd; [exact H2|].
  cbn [app]. inversion H1 as [|? ? Hn H1']; subst. constructor.
  - intros Hin. apply in_app_or in Hin. destruct Hin as [Hin|Hin]; [exact (Hn Hin)|].
    apply (Hd a); [left; reflexivity|exact Hin].
  - apply IH; [exact H1'|exact H2|]. intros x Hx. apply Hd. right. exact Hx.
Qed.

Lemma filter_none {A} (f : A -> bool) l : Forall (fun x => f x = false) l -> filter f l = [].
Proof.
  induction 1 as [|x l Hx _ IH]; [reflexivity|]. cbn [filter]. rewrite Hx. exact IH.
Qed.

Lemma filter_all {A} (f : A -> bool) l : Forall (fun x => f x = true) l -> filter f l = l.
Proof.
  induction 1 as [|x l Hx _ IH]; [reflexivity|]. cbn [filter]. rewrite Hx, IH. reflexivity.
Qed.

Lemma take_drop_while {A} (f : A -> bool) l : take_while f l ++ drop_while f l = l.
Proof.
  induction l as [|x l IH]; [reflexivity|]. cbn [take_while drop_while].
  destruct (f x); [cbn [app]; rewrite IH; reflexivity|reflexivity].
Qed.

Lemma take_while_all {A} (f : A -> bool) l : Forall (fun x => f x = true) (take_while f l).
Proof.
  induction l as [|x l IH]; [constructor|]. cbn [take_while].
  destruct (f x) eqn:E; [constructor; assumption|constructor].
Qed.

Lemma existsb_false_Forall {A} (f : A -> bool) l : existsb f l = false -> Forall (fun x => f x = false) l.
Proof.
  induction l as [|x l IH]; [constructor|]. cbn [existsb]. intros H.
  apply orb_false_iff in H. destruct H as [H1 H2]. constructor; [exact H1|exact (IH H2)].
Qed.

(* ------------------------------------------------------------------ cart as sums of one offset per axis *)
Fixpoint sumsl (axes : list (list Z)) : list Z :=
  match axes with
  | [] => [0]
  | ax :: r => flat_map (fun o => map (fun s => o + s) (sumsl r)) ax
  end.

Lemma cart_sumsl axes : forall base,
  cart base axes = flat_map (fun b => map (fun s => b + s) (sumsl axes)) base.
Proof.
  unfold cart. induction axes as [|ax r IH]; intros base.
  - cbn [fold_left sumsl]. induction base as [|b base IHb]; [reflexivity|].
    cbn [flat_map map app]. rewrite Z.add_0_r. f_equal. exact IHb.
  - cbn [fold_left]. rewrite IH, flat_map_flat_map. apply flat_map_ext. intros b. cbn [sumsl].
    induction ax as [|o ax IHa]; [reflexivity|].
    cbn [map flat_map]. rewrite map_app, map_map, IHa. f_equal.
    apply map_ext. intros s. ring.
Qed.

Lemma sumsl_in_cons ax r p :
  In p (sumsl (ax :: r)) <-> exists o s, In o ax /\ In s (sumsl r) /\ p = o + s.
Proof.
  cbn [sumsl]. rewrite in_flat_map. split.
  - intros [o [Ho H]]. apply in_map_iff in H. destruct H as [s [E Hs]]. exists o, s. auto.
  - intros [o [s [Ho [Hs E]]]]. exists o. split; [exact Ho|]. apply in_map_iff. exists s. auto.
Qed.

Lemma sumsl_in_nil p : In p (sumsl []) <-> p = 0.
Proof. cbn [sumsl In]. split; [intros [H|[]]; auto|intros ->; left; reflexivity]. Qed.

Lemma cart_in c axes p : In p (cart [c] axes) <-> exists s, In s (sumsl axes) /\ p = c + s.
Proof.
  rewrite cart_sumsl. cbn [flat_map]. rewrite app_nil_r, in_map_iff.
  split; intros [s [H1 H2]]; exists s; auto.
Qed.

Lemma cart_map c axes : cart [c] axes = map (fun s => c + s) (sumsl axes).
Proof. rewrite cart_sumsl. cbn [flat_map]. apply app_nil_r. Qed.

Lemma numel_cons a l : numel (a :: l) = a * numel l.
Proof. reflexivity. Qed.

Lemma sumsl_length axes :
  Z.of_nat (List.length (sumsl axes)) = numel (map (fun a => Z.of_nat (List.length a)) axes).
Proof.
  induction axes as [|ax r IH]; [reflexivity|].
  cbn [sumsl map]. rewrite numel_cons, <- IH.
  rewrite (flat_map_length_const _ (List.length (sumsl r))) by (intros x; apply map_length). lia.
Qed.

Lemma sumsl_app_in A B s :
  In s (sumsl (A ++ B)) <-> exists s1 s2, In s1 (sumsl A) /\ In s2 (sumsl B) /\ s = s1 + s2.
Proof.
  revert s. induction A as [|ax A IH]; intros s.
  - cbn [app]. split.
    + intros H. exists 0, s. split; [left; reflexivity|]. split; [exact H|reflexivity].
    + intros [s1 [s2 [H1 [H2 ->]]]]. apply sumsl_in_nil in H1. subst s1. exact H2.
  - cbn [app]. rewrite sumsl_in_cons. split.
    + intros [o [t [Ho [Ht ->]]]]. apply IH in Ht. destruct Ht as [t1 [t2 [H1 [H2 ->]]]].
      exists (o + t1), t2. split; [apply sumsl_in_cons; exists o, t1; auto|]. split; [exact H2|ring].
    + intros [s1 [s2 [H1 [H2 ->]]]]. apply sumsl_in_cons in H1. destruct H1 as [o [t1 [Ho [Ht ->]]]].
      exists o, (t1 + s2). split; [exact Ho|]. split; [|ring]. apply IH. exists t1, s2. auto.
Qed.

(* a sum over the axes selected by f plus a sum over the others is a sum over all axes *)
Lemma split_sums (f : axis -> bool) rest : forall e q,
  In e (sumsl (map axis_offs (filter f rest))) ->
  In q (sumsl (map axis_offs (filter (fun a => negb (f a)) rest))) ->
  In (e + q) (sumsl (map axis_offs rest)).
Proof.
  induction rest as [|a r IH]; intros e q He Hq.
  - cbn [filter map] in *. apply sumsl_in_nil in He, Hq. subst. left. reflexivity.
  - cbn [filter map] in *. destruct (f a) eqn:Fa; cbn [negb map] in *.
    + apply sumsl_in_cons in He. destruct He as [o [s [Ho [Hs ->]]]].
      apply sumsl_in_cons. exists o, (s + q). split; [exact Ho|]. split; [apply IH; assumption|ring].
    + apply sumsl_in_cons in Hq. destruct Hq as [o [s [Ho [Hs ->]]]].
      apply sumsl_in_cons. exists o, (e + s). split; [exact Ho|]. split; [apply IH; assumption|ring].
Qed.

(* ------------------------------------------------------------------ the pieces of index_model *)
Definition const_of (axs : list axis) : Z :=
  fold_right Z.add 0 (flat_map (fun a => if is_aconst a then axis_offs a else []) axs).
Definition rest_of (axs : list axis) : list axis := filter (fun a => negb (is_aconst a)) axs.
Definition model_axes (axs : list axis) : option (list (list Z)) :=
  let rest := rest_of axs in
  let tens := filter is_atensor rest in
  match tens with
  | [] => Some (map axis_offs rest)
  | _ =>
      match bcast_len (map (fun a => List.length (axis_offs a)) tens) with
      | None => None
      | Some L =>
          let adv := sum_cols L (map axis_offs tens) in
          let pre := take_while is_aslice rest in
          let r1 := drop_while is_aslice rest in
          let post := drop_while is_atensor r1 in
          if existsb is_atensor post
          then Some (adv :: map axis_offs (filter is_aslice rest))
          else Some (map axis_offs pre ++ [adv] ++ map axis_offs post)
      end
  end.

Lemma index_model_unfold dims idx :
  index_model dims idx =
  match expand_tuple (List.length dims) idx with
  | None => None
  | Some comps =>
      match map3M comp_axis dims (strides dims) comps with
      | None => None
      | Some axs =>
          match model_axes axs with
          | None => None
          | Some axes => Some (map (fun a => Z.of_nat (List.length a)) axes, cart [const_of axs] axes)
          end
      end
  end.
Proof. reflexivity. Qed.

Lemma const_sum_in axs : In (const_of axs) (sumsl (map axis_offs (filter is_aconst axs))).
Proof.
  unfold const_of. induction axs as [|a axs IH]; [left; reflexivity|].
  cbn [flat_map filter]. destruct a as [off|l|l]; cbn [is_aconst axis_offs app map]; [|exact IH|exact IH].
  cbn [fold_right]. apply sumsl_in_cons. eexists off, _. split; [left; reflexivity|]. split; [exact IH|reflexivity].
Qed.

Lemma zip_add_in a : forall b e, In e (zip_add a b) -> exists x y, In x a /\ In y b /\ e = x + y.
Proof.
  induction a as [|x a IH]; intros [|y b] e; cbn [zip_add In]; try contradiction.
  intros [<-|H].
  - exists x, y. split; [left; reflexivity|]. split; [left; reflexivity|reflexivity].
  - destruct (IH b e H) as [x' [y' [Hx [Hy E]]]]. exists x', y'. split; [right; exact Hx|]. split; [right; exact Hy|exact E].
Qed.

Lemma stretch_in L l x : In x (stretch L l) -> In x l.
Proof.
  unfold stretch. destruct l as [|y [|z r]]; auto. intros H. apply repeat_spec in H. subst. left. reflexivity.
Qed.

(* every entry of the broadcast sum of the index tensors' offsets is a sum of one offset per tensor *)
Lemma sum_cols_in L ls : forall e, In e (sum_cols L ls) -> In e (sumsl ls).
Proof.
  unfold sum_cols. induction ls as [|l ls IH]; intros e; cbn [fold_right].
  - intros H. apply repeat_spec in H. subst. left. reflexivity.
  - intros H. apply zip_add_in in H. destruct H as [x [y [Hx [Hy ->]]]].
    apply sumsl_in_cons. exists x, y. split; [exact (stretch_in L l x Hx)|]. split; [exact (IH y Hy)|reflexivity].
Qed.

Lemma aslice_not_atensor a : is_aslice a = true -> is_atensor a = false.
Proof. destruct a; cbn; congruence. Qed.

Lemma tens_is_mid rest :
  existsb is_atensor (drop_while is_atensor (drop_while is_aslice rest)) = false ->
  filter is_atensor rest = take_while is_atensor (drop_while is_aslice rest).
Proof.
  intros H. rewrite <- (take_drop_while is_aslice rest) at 1. rewrite filter_app.
  rewrite (filter_none is_atensor (take_while is_aslice rest)).
  2:{ eapply Forall_impl; [|apply take_while_all]. intros a Ha. apply aslice_not_atensor. exact Ha. }
  cbn [app]. set (r1 := drop_while is_aslice rest) in *.
  rewrite <- (take_drop_while is_atensor r1) at 1. rewrite filter_app.
  rewrite (filter_all is_atensor (take_while is_atensor r1)) by apply take_while_all.
  rewrite (filter_none is_atensor (drop_while is_atensor r1)) by (apply existsb_false_Forall; exact H).
  apply app_nil_r.
Qed.

Lemma rest_of_nonconst axs a : In a (rest_of axs) -> is_aconst a = false.
Proof. unfold rest_of. intros H. apply filter_In in H. destruct H as [_ H]. apply negb_true_iff in H. exact H. Qed.

(* whatever branch the model takes, a sum of one entry per result axis is a sum of one offset per
   non-constant source axis *)
Lemma model_axes_sums axs axes s : model_axes axs = Some axes ->
  In s (sumsl axes) -> In s (sumsl (map axis_offs (rest_of axs))).
Proof.
  unfold model_axes. pose proof (rest_of_nonconst axs) as NC. set (rest := rest_of axs) in *.
  destruct (filter is_atensor rest) as [|t0 tl] eqn:ET.
  - intros H. injection H as <-. trivial.
  - destruct (bcast_len _) as [L|]; [|discriminate]. cbv zeta.
    destruct (existsb is_atensor (drop_while is_atensor (drop_while is_aslice rest))) eqn:EX;
      intros H; injection H as <-; intros Hs.
    + apply sumsl_in_cons in Hs. destruct Hs as [e [q [He [Hq ->]]]].
      apply (split_sums is_atensor).
      * rewrite ET. apply (sum_cols_in L (map axis_offs (t0 :: tl))). exact He.
      * rewrite (filter_ext_in (fun a => negb (is_atensor a)) is_aslice); [exact Hq|].
        intros a Ha. specialize (NC a Ha). destruct a; cbn in *; congruence.
    + apply sumsl_app_in in Hs. destruct Hs as [s1 [s2 [H1 [H2 ->]]]].
      change ([sum_cols L (map axis_offs (t0 :: tl))] ++ map axis_offs (drop_while is_atensor (drop_while is_aslice rest)))
        with (sum_cols L (map axis_offs (t0 :: tl)) :: map axis_offs (drop_while is_atensor (drop_while is_aslice rest))) in H2.
      apply sumsl_in_cons in H2. destruct H2 as [e [q [He [Hq ->]]]].
      apply (sum_cols_in L (map axis_offs (t0 :: tl))) in He. rewrite <- ET, (tens_is_mid rest EX) in He.
      rewrite <- (take_drop_while is_aslice rest) at 1. rewrite map_app. apply sumsl_app_in.
      exists s1, (e + q). split; [exact H1|]. split; [|reflexivity].
      rewrite <- (take_drop_while is_atensor (drop_while is_aslice rest)) at 1. rewrite map_app. apply sumsl_app_in.
      exists e, q. auto.
Qed.

(* ------------------------------------------------------------------ axes produced by comp_axis *)
Definition axis_ok (len S : Z) (a : axis) : Prop :=
  exists ks, axis_offs a = map (fun k => k * S) ks /\ Forall (fun k => 0 <= k < len) ks
             /\ (is_atensor a = false -> NoDup ks).

Inductive axes_ok : list Z -> list axis -> Prop :=
| axes_ok_nil : axes_ok [] []
| axes_ok_cons len dims a axs :
    axis_ok len (numel dims) a -> axes_ok dims axs -> axes_ok (len :: dims) (a :: axs).

Lemma range_list_NoDup a b k : k <> 0 -> NoDup (range_list a b k).
Proof.
  intros Hk. unfold range_list. apply Injective_map_NoDup; [|apply seq_NoDup].
  intros i j H. assert (E : Z.of_nat i = Z.of_nat j) by (apply (Z.mul_reg_r _ _ k Hk); lia). lia.
Qed.

Definition is_basic (x : pyidx) : bool := is_int x || is_slice x.

Lemma comp_axis_ok len S x a : 0 <= len -> comp_axis len S x = Some a ->
  axis_ok len S a /\ (is_basic x = true -> is_atensor a = false).
Proof.
  intros Hlen. destruct x as [i|s|l]; cbn [comp_axis].
  - destruct (norm_index len i) as [k|] eqn:E; [|discriminate]. intros H. injection H as <-.
    split; [|reflexivity]. exists [k]. split; [reflexivity|]. split.
    + constructor; [apply (norm_index_spec len i k E)|constructor].
    + intros _. constructor; [intros []|constructor].
  - destruct (idx_positions len (ISlice s)) as [l|] eqn:E; [|discriminate]. intros H. injection H as <-.
    split; [|reflexivity]. exists l. split; [reflexivity|]. split.
    + exact (idx_positions_range len _ l Hlen E).
    + intros _. destruct (slice_accepted len s l Hlen E) as (a & b & k & _ & Hk & _ & _ & ->).
      apply range_list_NoDup. lia.
  - destruct (idx_positions len (ITensor l)) as [l'|] eqn:E; [|discriminate]. intros H. injection H as <-.
    split; [|discriminate]. exists l'. split; [reflexivity|]. split.
    + exact (idx_positions_range len _ l' Hlen E).
    + discriminate.
Qed.

Lemma map3M_axes_ok dims : forall comps axs, Forall (fun d => 0 <= d) dims ->
  map3M comp_axis dims (strides dims) comps = Some axs ->
  axes_ok dims axs /\ (Forall (fun x => is_basic x = true) comps -> Forall (fun a => is_atensor a = false) axs).
Proof.
  induction dims as [|d dims IH]; intros comps axs Hd.
  - destruct comps; cbn [strides map3M]; [|discriminate]. intros H. injection H as <-. split; constructor.
  - change (strides (d :: dims)) with (numel dims :: strides dims).
    destruct comps as [|x comps]; cbn [map3M]; [discriminate|].
    destruct (comp_axis d (numel dims) x) as [a|] eqn:Ea; [|discriminate].
    destruct (map3M comp_axis dims (strides dims) comps) as [axs'|] eqn:Em; [|discriminate].
    intros H. injection H as <-. inversion Hd as [|? ? Hd0 Hd']; subst.
    destruct (comp_axis_ok d (numel dims) x a Hd0 Ea) as [Oa Ba].
    destruct (IH comps axs' Hd' Em) as [Or Br].
    split; [constructor; assumption|]. intros F. inversion F; subst. constructor; auto.
Qed.

(* mixed-radix bound: one in-range multiple of the stride per dimension stays inside the tensor *)
Lemma sums_range dims axs : axes_ok dims axs ->
  forall p, In p (sumsl (map axis_offs axs)) -> 0 <= p < numel dims.
Proof.
  induction 1 as [|len dims a axs [ks [E [F _]]] _ IH]; intros p Hp.
  - apply sumsl_in_nil in Hp. subst. cbn. lia.
  - cbn [map] in Hp. apply sumsl_in_cons in Hp. destruct Hp as [o [s [Ho [Hs ->]]]].
    rewrite E in Ho. apply in_map_iff in Ho. destruct Ho as [k [<- Hk]].
    rewrite Forall_forall in F. specialize (F k Hk). specialize (IH s Hs). rewrite numel_cons.
    assert (k * numel dims <= (len - 1) * numel dims) by (apply Z.mul_le_mono_nonneg_r; lia).
    assert (0 <= k * numel dims) by (apply Z.mul_nonneg_nonneg; lia). lia.
Qed.

Lemma nodup_block S T ks : (forall t, In t T -> 0 <= t < S) -> NoDup T -> NoDup ks ->
  NoDup (flat_map (fun o => map (fun s => o + s) T) (map (fun k => k * S) ks)).
Proof.
  intros HT NT. induction 1 as [|k ks Hk Nk IH]; [constructor|].
  cbn [map flat_map]. apply NoDup_app_intro.
  - apply Injective_map_NoDup; [|exact NT]. intros s s' H. lia.
  - exact IH.
  - intros x Hx Hx'. apply in_map_iff in Hx. destruct Hx as [t [<- Ht]].
    apply in_flat_map in Hx'. destruct Hx' as [o [Ho Hx']].
    apply in_map_iff in Ho. destruct Ho as [k' [<- Hk']].
    apply in_map_iff in Hx'. destruct Hx' as [t' [E Ht']].
    apply HT in Ht. apply HT in Ht'.
    assert (k = k').
    { destruct (Z.lt_trichotomy k k') as [L|[L|L]]; [|exact L|].
      - assert (k * S + S <= k' * S) by nia. lia.
      - assert (k' * S + S <= k * S) by nia. lia. }
    subst k'. exact (Hk Hk').
Qed.

Lemma basic_nodup dims axs : axes_ok dims axs -> Forall (fun a => is_atensor a = false) axs ->
  NoDup (sumsl (map axis_offs (rest_of axs)))
  /\ forall s, In s (sumsl (map axis_offs (rest_of axs))) -> 0 <= s < numel dims.
Proof.
  induction 1 as [|len dims a axs [ks [E [F N]]] _ IH]; intros HB.
  - split; [constructor; [intros []|constructor]|]. intros s Hs. apply sumsl_in_nil in Hs. subst. cbn. lia.
  - inversion HB as [|? ? Ha HB']; subst. destruct (IH HB') as [ND RG]. specialize (N Ha).
    rewrite Forall_forall in F. unfold rest_of in *. cbn [filter].
    destruct (is_aconst a) eqn:Ca; cbn [negb].
    + split; [exact ND|]. intros s Hs. specialize (RG s Hs). rewrite numel_cons.
      assert (1 <= len).
      { destruct ks as [|k ks]; [destruct a; cbn in E; discriminate|]. specialize (F k (or_introl eq_refl)). lia. }
      nia.
    + cbn [map sumsl]. rewrite E. split.
      * apply nodup_block; assumption.
      * intros s Hs. apply in_flat_map in Hs. destruct Hs as [o [Ho Hs]].
        apply in_map_iff in Ho. destruct Ho as [k [<- Hk]].
        apply in_map_iff in Hs. destruct Hs as [t [<- Ht]].
        specialize (F k Hk). specialize (RG t Ht). rewrite numel_cons.
        assert (k * numel dims <= (len - 1) * numel dims) by (apply Z.mul_le_mono_nonneg_r; lia).
        assert (0 <= k * numel dims) by (apply Z.mul_nonneg_nonneg; lia). lia.
Qed.

(* ------------------------------------------------------------------ Ellipsis expansion keeps basic indices basic *)
Lemma strip_in l x : In x (strip l) -> In (EI x) l.
Proof.
  unfold strip. intros H. apply in_flat_map in H. destruct H as [e [He Hx]].
  destruct e as [y|]; [|destruct Hx]. destruct Hx as [<-|[]]. exact He.
Qed.

Lemma split_ell_in l : forall pre osuf, split_ell l = (pre, osuf) ->
  (forall e, In e pre -> In e l) /\ (forall suf, osuf = Some suf -> forall e, In e suf -> In e l).
Proof.
  induction l as [|a l IH]; intros pre osuf; cbn [split_ell].
  - intros H. injection H as <- <-. split; [intros e []|discriminate].
  - destruct a as [x|].
    + destruct (split_ell l) as [p s] eqn:E. intros H. injection H as <- <-.
      destruct (IH p s eq_refl) as [I1 I2]. split.
      * intros e [<-|He]; [left; reflexivity|right; apply I1; exact He].
      * intros suf Es e He. right. exact (I2 suf Es e He).
    + intros H. injection H as <- <-. split; [intros e []|].
      intros suf Es e He. injection Es as <-. right. exact He.
Qed.

Lemma expand_tuple_basic rank idx comps : expand_tuple rank idx = Some comps ->
  (forall x, In (EI x) idx -> is_basic x = true) -> Forall (fun x => is_basic x = true) comps.
Proof.
  unfold expand_tuple. intros H HB.
  destruct (1 <? List.length (filter is_ell idx))%nat; [discriminate|].
  destruct (rank <? List.length (strip idx))%nat; [discriminate|].
  destruct (split_ell idx) as [pre osuf] eqn:E. destruct (split_ell_in idx pre osuf E) as [I1 I2].
  assert (P : forall l, (forall e, In e l -> In e idx) -> Forall (fun x => is_basic x = true) (strip l)).
  { intros l Hl. apply Forall_forall. intros x Hx. apply HB, Hl, strip_in, Hx. }
  assert (R : forall n, Forall (fun x => is_basic x = true) (repeat (ISlice full_slice) n)).
  { intros n. apply Forall_forall. intros x Hx. apply repeat_spec in Hx. subst. reflexivity. }
  destruct osuf as [suf|]; injection H as <-; repeat (apply Forall_app; split); auto.
  apply P. exact (I2 suf eq_refl).
Qed.

(* ------------------------------------------------------------------ main theorems *)

(* every index form, every shape: positions in range, count = product of the reported shape *)
Theorem index_model_sound dims idx shape pos :
  Forall (fun d => 0 <= d) dims -> index_model dims idx = Some (shape, pos) ->
  Forall (fun p => 0 <= p < numel dims) pos /\ Z.of_nat (List.length pos) = numel shape.
Proof.
  intros Hd. rewrite index_model_unfold.
  destruct (expand_tuple _ idx) as [comps|]; [|discriminate].
  destruct (map3M comp_axis dims (strides dims) comps) as [axs|] eqn:Em; [|discriminate].
  destruct (model_axes axs) as [axes|] eqn:Ea; [|discriminate].
  intros H. injection H as <- <-. split.
  - apply Forall_forall. intros p Hp. apply cart_in in Hp. destruct Hp as [s [Hs ->]].
    destruct (map3M_axes_ok dims comps axs Hd Em) as [Ok _].
    apply (sums_range dims axs Ok). apply (split_sums is_aconst).
    + apply const_sum_in.
    + exact (model_axes_sums axs axes s Ea Hs).
  - rewrite cart_map, map_length. apply sumsl_length.
Qed.

(* pure basic indexing (ints and slices, Ellipsis): no source position is selected twice *)
Theorem index_model_basic_injective dims idx shape pos :
  Forall (fun d => 0 <= d) dims -> (forall x, In (EI x) idx -> is_basic x = true) ->
  index_model dims idx = Some (shape, pos) -> NoDup pos.
Proof.
  intros Hd HB. rewrite index_model_unfold.
  destruct (expand_tuple _ idx) as [comps|] eqn:Ee; [|discriminate].
  destruct (map3M comp_axis dims (strides dims) comps) as [axs|] eqn:Em; [|discriminate].
  destruct (map3M_axes_ok dims comps axs Hd Em) as [Ok Bs].
  specialize (Bs (expand_tuple_basic _ idx comps Ee HB)).
  assert (Ea : model_axes axs = Some (map axis_offs (rest_of axs))).
  { unfold model_axes. rewrite (filter_none is_atensor (rest_of axs)); [reflexivity|].
    unfold rest_of. apply Forall_forall. intros a Ha. apply filter_In in Ha. destruct Ha as [Ha _].
    rewrite Forall_forall in Bs. exact (Bs a Ha). }
  rewrite Ea. intros H. injection H as _ <-. rewrite cart_map.
  apply Injective_map_NoDup; [intros s s' E; lia|]. exact (proj1 (basic_nodup dims axs Ok Bs)).
Qed.

(* for basic indexing the reported shape is the list of slice lengths, in order *)
Lemma index_model_basic_shape dims idx shape pos :
  Forall (fun d => 0 <= d) dims -> (forall x, In (EI x) idx -> is_basic x = true) ->
  index_model dims idx = Some (shape, pos) ->
  exists comps axs, expand_tuple (List.length dims) idx = Some comps /\
    map3M comp_axis dims (strides dims) comps = Some axs /\
    shape = map (fun a => Z.of_nat (List.length (axis_offs a))) (rest_of axs).
Proof.
  intros Hd HB. rewrite index_model_unfold.
  destruct (expand_tuple _ idx) as [comps|] eqn:Ee; [|discriminate].
  destruct (map3M comp_axis dims (strides dims) comps) as [axs|] eqn:Em; [|discriminate].
  destruct (map3M_axes_ok dims comps axs Hd Em) as [Ok Bs].
  specialize (Bs (expand_tuple_basic _ idx comps Ee HB)).
  assert (Ea : model_axes axs = Some (map axis_offs (rest_of axs))).
  { unfold model_axes. rewrite (filter_none is_atensor (rest_of axs)); [reflexivity|].
    unfold rest_of. apply Forall_forall. intros a Ha. apply filter_In in Ha. destruct Ha as [Ha _].
    rewrite Forall_forall in Bs. exact (Bs a Ha). }
  rewrite Ea. intros H. injection H as <- _. exists comps, axs. rewrite map_map. auto.
Qed.

(* non-vacuity: negative int, stepped slice with negative start, Ellipsis, broadcast index tensors
   separated by a slice (advanced dimension moves to the front) *)
Example ex_index_model_basic :
  index_model [3; 4; 5] [EI (ISlice (mk (Some (-3)) None (Some 2))); EE; EI (IInt (-2))]
  = Some ([2; 4], [3; 8; 13; 18; 43; 48; 53; 58]).
Proof. vm_compute. reflexivity. Qed.

Example ex_index_model_advanced :
  index_model [3; 4; 5] [EI (ITensor [0; -1]); EI (ISlice (mk (Some 1) (Some 3) None)); EI (ITensor [2])]
  = Some ([2; 2], [7; 12; 47; 52]).
Proof. vm_compute. reflexivity. Qed.

(* the restriction to basic indices is needed: x[tensor([1, 1])] reads entry 1 twice *)
Lemma index_model_tensor_not_injective :
  exists dims idx shape pos, Forall (fun d => 0 <= d) dims /\
    index_model dims idx = Some (shape, pos) /\ ~ NoDup pos.
Proof.
  exists [3], [EI (ITensor [1; 1])], [2], [1; 1]. split; [repeat constructor; lia|]. split; [vm_compute; reflexivity|].
  intros H. inversion H as [|? ? Hn _]; subst. apply Hn. left. reflexivity.
Qed.
