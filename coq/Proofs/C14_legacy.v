(* C14: the one-off conversion of a legacy (unwhitened) q(u) to whitened parameters describes the SAME q(u):
   unwhitening the converted parameters gives back (mq, S); hence (with the c14_whitened_eq_unwhitened theorems) the
   whitened predictive / KL of the converted parameters are the unwhitened closed forms of the original. *)
From Coq Require Import Arith Lia Ring Field Setoid Morphisms List QArith Qcanon.
Import ListNotations.
From GPV Require Import Base.LinAlg Base.Exec Models.C14_variational Proofs.C14_variational.

Section Legacy.
Context {K : Fld}.
Add Field Ff_c14l : (@FT K).
Local Open Scope fld_scope.
Variables (m : nat) (L Linv : M).
Hypothesis HLi : is_inverse m L Linv.

Lemma legacy_mean_roundtrip mz mq :
  meq m 1 (unwhiten_mean m L mz (legacy_mean m Linv mz mq)) mq.
Proof.
  unfold unwhiten_mean, legacy_mean. destruct HLi as [H1 _].
  rewrite <- (mmul_assoc m 1 m m L Linv (msub mq mz)). rewrite H1.
  rewrite (mmul_I_l m 1 (msub mq mz)).
  intros i j _ _. unfold madd, msub. ring.
Qed.

Lemma legacy_cov_roundtrip S :
  meq m m (unwhiten_cov m L (legacy_cov m Linv S)) S.
Proof.
  unfold unwhiten_cov, legacy_cov. destruct HLi as [H1 _].
  rewrite (mmul_assoc m m m m Linv (mmul m S (mT Linv)) (mT L)).
  rewrite <- (mmul_assoc m m m m L Linv (mmul m (mmul m S (mT Linv)) (mT L))).
  rewrite H1. rewrite (mmul_I_l m m).
  rewrite (mmul_assoc m m m m S (mT Linv) (mT L)).
  rewrite <- (mT_mmul m m m L Linv). rewrite H1. rewrite (mT_mI m m). apply mmul_I_r.
Qed.
End Legacy.

Section LegacyPredictive.
Context {K : Fld}.
Local Open Scope fld_scope.
Variables (m n : nat) (Kzz Kzx Kxx Kinv L Linv : M).
Hypothesis HL : meq m m (mmul m L (mT L)) Kzz.
Hypothesis HLi : is_inverse m L Linv.
Hypothesis HK : is_inverse m Kzz Kinv.

(* the whitened predictive of the CONVERTED parameters = the unwhitened closed form of the ORIGINAL (mq, S) *)
Lemma legacy_predictive_mean mx mz mq :
  meq n 1 (wh_mean m (interp m Linv Kzx) mx (legacy_mean m Linv mz mq))
          (unwh_mean m Kzx Kinv mx mz mq).
Proof.
  rewrite (whitened_mean_eq m n Kzz Kzx Kinv L Linv HL HLi HK mx mz (legacy_mean m Linv mz mq)).
  unfold unwh_mean. apply madd_compat; [reflexivity|].
  apply mmul_compat_r. apply mmul_compat_r. apply msub_compat; [|reflexivity].
  apply legacy_mean_roundtrip. exact HLi.
Qed.

Lemma legacy_predictive_cov S :
  meq n n (wh_cov m (interp m Linv Kzx) Kxx (legacy_cov m Linv S))
          (unwh_cov m Kzz Kzx Kxx Kinv S).
Proof.
  rewrite (whitened_cov_eq m n Kzz Kzx Kxx Kinv L Linv HL HLi HK (legacy_cov m Linv S)).
  unfold unwh_cov. apply msub_compat; [reflexivity|].
  apply mmul_compat_r. apply mmul_compat_r. apply mmul_compat_l. apply msub_compat; [reflexivity|].
  apply legacy_cov_roundtrip. exact HLi.
Qed.
End LegacyPredictive.
