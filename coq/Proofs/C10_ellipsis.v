(* C10: an Ellipsis that matches ZERO dimensions may stand at ANY position of the index tuple (leading, between two
   components, trailing) without changing what __getitem__ does (lines 415-418 strip it before the tuple is split into
   rest / last).  Lemmas for Props/C10.v. *)
From Coq Require Import Arith ZArith List Bool Lia.
From GPV Require Import Base.PySlice Models.C11_mtmvn Models.C10_mvn Proofs.C10_mvn.
Import ListNotations.
Local Open Scope Z_scope.

Lemma drop_ell_map_EI l : drop_ell (map EI l) = map EI l.
Proof. induction l as [|x r IH]; [reflexivity|]. cbn [map drop_ell filter is_ell negb]. f_equal. exact IH. Qed.

Lemma has_ell_insert l1 l2 : has_ell (map EI l1 ++ EE :: l2) = true.
Proof.
  unfold has_ell. rewrite existsb_app. cbn [existsb is_ell orb]. apply orb_true_r.
Qed.

Lemma drop_ell_insert l1 l2 : drop_ell (map EI l1 ++ EE :: map EI l2) = map EI (l1 ++ l2).
Proof.
  unfold drop_ell. rewrite filter_app. cbn [filter is_ell negb].
  change (filter (fun e => negb (is_ell e)) (map EI l1)) with (drop_ell (map EI l1)).
  change (filter (fun e => negb (is_ell e)) (map EI l2)) with (drop_ell (map EI l2)).
  rewrite !drop_ell_map_EI, map_app. reflexivity.
Qed.

(* a full explicit index (one component per dimension of the mean) with an Ellipsis inserted anywhere *)
Lemma mvn_getitem_zero_dim_ellipsis dim n (l1 l2 : list pyidx) :
  Z.of_nat (length l1 + length l2) = dim ->
  mvn_getitem dim n (map EI l1 ++ EE :: map EI l2) = mvn_getitem dim n (map EI (l1 ++ l2)).
Proof.
  intros Hd. unfold mvn_getitem.
  rewrite has_ell_insert, drop_ell_insert, has_ell_map_EI.
  rewrite app_length. cbn [length]. rewrite !map_length, app_length.
  replace (dim <? Z.of_nat (length l1 + S (length l2))) with true by (symmetry; apply Z.ltb_lt; lia).
  replace (Z.of_nat (length l1 + length l2) <? dim) with false by (symmetry; apply Z.ltb_ge; lia).
  rewrite andb_false_r. cbn [andb]. reflexivity.
Qed.

(* the two halves are independent of the position: in particular a TRAILING Ellipsis behind a complete index leaves the
   component before it in charge of the event dimension *)
Lemma mvn_getitem_trailing_ellipsis dim n (b : list pyidx) x :
  Z.of_nat (length b) + 1 = dim -> is_int x = false ->
  mvn_getitem dim n (map EI b ++ [EI x; EE]) =
    match idx_positions n x with Some l => Some (dim - 1, Some (1, l)) | None => None end.
Proof.
  intros Hd Hx.
  change (map EI b ++ [EI x; EE]) with (map EI b ++ [EI x] ++ EE :: map EI []).
  rewrite app_assoc. change (map EI b ++ [EI x]) with (map EI b ++ map EI [x]). rewrite <- map_app.
  rewrite mvn_getitem_zero_dim_ellipsis by (rewrite app_length; cbn [length]; lia).
  rewrite app_nil_r, map_app. cbn [map]. apply mvn_getitem_explicit; assumption.
Qed.

Lemma mvn_getitem_trailing_ellipsis_int dim n (b : list pyidx) i :
  Z.of_nat (length b) + 1 = dim ->
  mvn_getitem dim n (map EI b ++ [EI (IInt i); EE]) =
    match norm_index n i with Some k => Some (dim - 1, Some (0, [k])) | None => None end.
Proof.
  intros Hd.
  change (map EI b ++ [EI (IInt i); EE]) with (map EI b ++ [EI (IInt i)] ++ EE :: map EI []).
  rewrite app_assoc. change (map EI b ++ [EI (IInt i)]) with (map EI b ++ map EI [IInt i]). rewrite <- map_app.
  rewrite mvn_getitem_zero_dim_ellipsis by (rewrite app_length; cbn [length]; lia).
  rewrite app_nil_r, map_app. cbn [map]. apply mvn_getitem_int; assumption.
Qed.

(* an over-long tuple stays over-long wherever the Ellipsis stands: it raises *)
Lemma mvn_getitem_too_long_ellipsis dim n (l1 l2 : list pyidx) :
  dim < Z.of_nat (length l1 + length l2) ->
  mvn_getitem dim n (map EI l1 ++ EE :: map EI l2) = None.
Proof.
  intros Hd. unfold mvn_getitem.
  rewrite has_ell_insert, drop_ell_insert.
  rewrite app_length. cbn [length]. rewrite !map_length, app_length.
  replace (dim <? Z.of_nat (length l1 + S (length l2))) with true by (symmetry; apply Z.ltb_lt; lia).
  replace (Z.of_nat (length l1 + length l2) <? dim) with false by (symmetry; apply Z.ltb_ge; lia).
  cbn [andb]. cbv zeta. rewrite !map_length, !app_length.
  replace (Z.of_nat (length l1 + length l2) <=? dim - 1) with false by (symmetry; apply Z.leb_gt; lia).
  replace (dim <? Z.of_nat (length l1 + length l2)) with true by (symmetry; apply Z.ltb_lt; lia).
  reflexivity.
Qed.

Example ex_mvn_getitem_ellipsis_positions :
  mvn_getitem 3 4 [EI (IInt 0); EI (IInt 1); EI (ISlice (mk (Some 1) (Some 3) None)); EE] = Some (2, Some (1, [1; 2]))
  /\ mvn_getitem 3 4 [EI (IInt 0); EE; EI (IInt 1); EI (ISlice (mk (Some 1) (Some 3) None))] = Some (2, Some (1, [1; 2]))
  /\ mvn_getitem 3 4 [EE; EI (IInt 0); EI (IInt 1); EI (ISlice (mk (Some 1) (Some 3) None))] = Some (2, Some (1, [1; 2]))
  /\ mvn_getitem 2 3 [EI (ISlice full_slice); EI (ITensor [2; 1; 0]); EE] = Some (1, Some (1, [2; 1; 0])).
Proof. vm_compute. repeat split. Qed.
