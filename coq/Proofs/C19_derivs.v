(* C19 proofs: the hand-written backward formulas are the derivatives (Coquelicot is_derive)
   of the forward functions, including coincident points. *)
From Coq Require Import Arith Lia List ZArith QArith Qcanon Reals Bool Lra.
From Coquelicot Require Import Coquelicot.
From GPV Require Import Base.LinAlg Base.Exec Base.Expr Models.C05_kernels Proofs.C05_kernels Models.C19_derivs.
Import ListNotations.
Local Open Scope R_scope.

Ltac unfoldTR :=
  unfold rbf_of_l, rbf_bwd_of_l, rbf_saved, rbf_fwd, mat_of_l, mat_bwd_of_l, mat_fwd, mat_saved,
         nat1_bwd_eta1, nat1_bwd_eta2, eta_to_L, t2, tsq;
  cbn [tnat tadd tsub tmul tdiv tneg texp tsqrt t0 t1 TR]; change (@tc TR) with R in *.

Ltac nzside :=
  repeat split;
  first [ exact I | assumption
        | apply Rmult_integral_contrapositive_currified; assumption
        | lra | idtac ].

(* align the arguments of exp on both sides, then let field finish *)
Ltac exp_field side :=
  repeat match goal with
  | |- context [exp ?u] =>
      match goal with
      | |- context [exp ?v] =>
          lazymatch u with v => fail | _ => idtac end;
          replace u with v by (field; side)
      end
  end;
  match goal with |- context [exp ?u] => set (e := exp u) end; field; side.

(* RBFCovariance.backward: d/dl exp(-(D2/l^2)/2) = (D2/l^2) exp(..) / l, every D2 (also 0) *)
Lemma rbf_backward_is_derivative (D2 l : R) : l <> 0 ->
  is_derive (fun l' => @rbf_of_l TR D2 l') l (@rbf_bwd_of_l TR D2 l).
Proof.
  intros Hl. unfoldTR. auto_derive; [nzside|].
  exp_field ltac:(nzside).
Qed.

(* MaternCovariance.backward, nu = 1/2, 3/2, 5/2 (and the 5/2 formula for any other tag),
   any constant c = sqrt(2 nu), any distance D (also 0) *)
Lemma matern_backward_is_derivative nu2 (c D l : R) : l <> 0 ->
  is_derive (fun l' => @mat_of_l TR nu2 c D l') l (@mat_bwd_of_l TR nu2 c D l).
Proof.
  intros Hl. destruct nu2 as [|[|[|[|nu2]]]]; unfoldTR;
  (auto_derive; [nzside|]);
  exp_field ltac:(nzside).
Qed.

(* coincident points: the saved backward term is exactly 0 *)
Lemma rbf_backward_coincident (l : R) : @rbf_bwd_of_l TR 0 l = 0.
Proof. unfoldTR. unfold Rdiv. ring. Qed.
Lemma matern_backward_coincident nu2 (c l : R) : @mat_bwd_of_l TR nu2 c 0 l = 0.
Proof. destruct nu2 as [|[|[|[|nu2]]]]; unfoldTR; unfold Rdiv; ring. Qed.

(* LogNormalCDF.backward on the branch z >= -1: with log_phi_z = ln P (P = Phi(z) > 0) the
   returned expression is phi(z) / P *)
Lemma lncdf_backward_identity (z P : R) : 0 < P ->
  lncdf_bwd_R z (ln P) = std_normal_pdf z / P.
Proof.
  intros HP. unfold lncdf_bwd_R, std_normal_pdf.
  unfold Rminus. rewrite !exp_plus, exp_Ropp, !exp_ln by lra.
  assert (Hpi : 0 < PI) by apply PI_RGT_0.
  assert (H2pi : sqrt (2 * PI) <> 0).
  { apply Rgt_not_eq. apply sqrt_lt_R0. lra. }
  replace (2 / PI) with ((2 * 2) / (2 * PI)) by (field; lra).
  rewrite sqrt_div_alt by lra. rewrite sqrt_square by lra.
  field. split; [exact H2pi|lra].
Qed.

(* _NaturalToMuVarSqrt.backward, n = 1: the two returned components are the partial
   derivatives, with respect to the EXPECTATION parameters (eta1, eta2), of any output whose
   upstream gradients are (gmu, gL):  out = gmu * mu + gL * L, mu = eta1, L = sqrt(eta2 - eta1^2) *)
Lemma nat1_backward_eta2 (gmu gL e1 e2 : R) : 0 < e2 - e1 * e1 ->
  is_derive (fun e2' => gmu * e1 + gL * @eta_to_L TR e1 e2') e2
            (@nat1_bwd_eta2 TR gL (@eta_to_L TR e1 e2)).
Proof.
  intros H. unfoldTR. auto_derive; [repeat split; try exact I; lra|].
  assert (Hs : sqrt (e2 - e1 * e1) <> 0) by (apply Rgt_not_eq, sqrt_lt_R0; exact H).
  replace (e2 + - (e1 * e1)) with (e2 - e1 * e1) by ring.
  set (s := sqrt (e2 - e1 * e1)) in *. field. exact Hs.
Qed.
Lemma nat1_backward_eta1 (gmu gL e1 e2 : R) : 0 < e2 - e1 * e1 ->
  is_derive (fun e1' => gmu * e1' + gL * @eta_to_L TR e1' e2) e1
            (@nat1_bwd_eta1 TR gmu gL e1 (@eta_to_L TR e1 e2)).
Proof.
  intros H. unfoldTR. auto_derive; [repeat split; try exact I; lra|].
  assert (Hs : sqrt (e2 - e1 * e1) <> 0) by (apply Rgt_not_eq, sqrt_lt_R0; exact H).
  replace (e2 + - (e1 * e1)) with (e2 - e1 * e1) by ring.
  set (s := sqrt (e2 - e1 * e1)) in *. field. exact Hs.
Qed.
(* ... and the forward pass lands on those expectation parameters: L^2 = S = 1/(-2 theta2),
   so eta2 - eta1^2 = L^2 > 0 whenever theta2 < 0 *)
Lemma nat1_forward_consistent (th1 th2 : R) : th2 < 0 ->
  let mu := @nat1_fwd_mu TR th1 th2 in let L := @nat1_fwd_L TR th2 in
  0 < L /\ @eta_to_L TR mu (mu * mu + L * L) = L.
Proof.
  intros H mu L. 
  assert (HS : 0 < 1 / (- (1 + 1) * th2)).
  { apply Rdiv_lt_0_compat; [lra|]. nra. }
  assert (HL : 0 < L).
  { unfold L, nat1_fwd_L, t2. cbn [tnat tadd tmul tdiv tneg tsqrt t1 TR]. apply sqrt_lt_R0. exact HS. }
  split; [exact HL|]. unfold eta_to_L, tsq. cbn [tsub tmul tsqrt TR]. change (@tc TR) with R in *.
  replace (mu * mu + L * L - mu * mu) with (L * L) by ring. apply sqrt_square. lra.
Qed.

(* what the harness evaluates is what the theorems are about *)
Lemma den_rbf_of_l D2 l : den (@rbf_of_l TE D2 l) = @rbf_of_l TR (den D2) (den l).
Proof.
  unfold rbf_of_l, rbf_fwd, tsq, t2. cbn [texp tdiv tmul tneg TE TR den].
  rewrite !den_sdiv, den_sneg, den_smul, den_tnat. reflexivity.
Qed.
Lemma den_rbf_bwd_of_l D2 l : den (@rbf_bwd_of_l TE D2 l) = @rbf_bwd_of_l TR (den D2) (den l).
Proof.
  unfold rbf_bwd_of_l, rbf_saved. cbn [tdiv tmul TE TR]. rewrite den_sdiv, den_smul.
  change (den (@rbf_fwd TE (sdiv D2 (@tsq TE l)))) with (den (@rbf_of_l TE D2 l)).
  rewrite den_rbf_of_l. unfold tsq. cbn [tmul TE TR]. rewrite den_sdiv, den_smul. reflexivity.
Qed.
Lemma den_lncdf_grad z :
  den (lncdf_grad_expr z) = std_normal_pdf (den z) / std_normal_cdf (den z).
Proof.
  unfold lncdf_grad_expr, std_normal_pdf. cbn [den].
  replace (Q2R' (Q2Qc 2)) with 2; [reflexivity|].
  unfold Q2R'. cbn. unfold Q2R. cbn. lra.
Qed.

(* LogNormalCDF.backward as a vector-Jacobian product: for EVERY upstream gradient g (either sign) the returned value
   is g * phi(z) / P *)
Lemma lncdf_vjp_identity (g z P : R) : 0 < P -> lncdf_vjp_R g z (ln P) = g * (std_normal_pdf z / P).
Proof. intros HP. unfold lncdf_vjp_R. rewrite lncdf_backward_identity by exact HP. reflexivity. Qed.
Lemma lncdf_vjp_neg (g z lp : R) : lncdf_vjp_R (- g) z lp = - lncdf_vjp_R g z lp.
Proof. unfold lncdf_vjp_R. ring. Qed.

(* _NgdInterpTerms.backward, one inducing value and one data point: the three returned components are the partial
   derivatives of  gm * mean + gv * var + gk * KL  with respect to the interpolation term and to the EXPECTATION
   parameters, for every upstream (gm, gv, gk), at every point with S = e2 - e1^2 > 0.  The saved tensors are
   interp_mean = k e1, natural_vec = e1 / S, prec = 1 / S, sk = S k, m = e1. *)
Ltac unfoldCiq :=
  unfold ciq1_obj_R, ciq1_kl_R, ciq1_bwd_k, ciq1_bwd_eta1, ciq1_bwd_eta2, ciq1_mean, ciq1_var, ciq1_m, ciq1_sk, ciq1_prec,
         t2, tsq;
  cbn [tnat tadd tsub tmul tdiv tneg t0 t1 TR]; change (@tc TR) with R in *.
Lemma ciq1_backward_eta1 (gm gv gk k e1 e2 : R) : 0 < e2 - e1 * e1 ->
  is_derive (fun e1' => ciq1_obj_R gm gv gk k e1' e2) e1
            (@ciq1_bwd_eta1 TR gm gv gk k (k * e1) (e1 / (e2 - e1 * e1))).
Proof.
  intros H. unfoldCiq. auto_derive; [repeat split; try exact I; lra|].
  replace (e2 + - (e1 * e1)) with (e2 - e1 * e1) by ring.
  field. lra.
Qed.
Lemma ciq1_backward_eta2 (gm gv gk k e1 e2 : R) : 0 < e2 - e1 * e1 ->
  is_derive (fun e2' => ciq1_obj_R gm gv gk k e1 e2') e2
            (@ciq1_bwd_eta2 TR gv gk k (1 / (e2 - e1 * e1))).
Proof.
  intros H. unfoldCiq. auto_derive; [repeat split; try exact I; lra|].
  replace (e2 + - (e1 * e1)) with (e2 - e1 * e1) by ring.
  field. lra.
Qed.
Lemma ciq1_backward_k (gm gv gk k e1 e2 : R) :
  is_derive (fun k' => ciq1_obj_R gm gv gk k' e1 e2) k
            (@ciq1_bwd_k TR gm gv ((e2 - e1 * e1) * k) e1).
Proof.
  unfoldCiq. auto_derive; [exact I|]. ring.
Qed.
(* the forward pass saves exactly those quantities: with S = 1/(-2 theta2), m = S theta1 the expectation parameters are
   (m, m^2 + S), and interp_mean = k m, natural_vec = m / S, prec = 1 / S, sk = S k *)
Lemma ciq1_forward_consistent (k th1 th2 : R) : th2 < 0 ->
  let S := 1 / (- (1 + 1) * th2) in let m := @ciq1_m TR th1 th2 in
  0 < (m * m + S) - m * m /\ @ciq1_mean TR k th1 th2 = k * m /\ th1 = m / ((m * m + S) - m * m)
  /\ @ciq1_prec TR th2 = 1 / ((m * m + S) - m * m) /\ @ciq1_sk TR k th2 = ((m * m + S) - m * m) * k
  /\ @ciq1_var TR k th2 = k * k * ((m * m + S) - m * m).
Proof.
  intros H S m. unfold m, S. unfoldCiq.
  assert (Hd : - (1 + 1) * th2 <> 0) by nra.
  assert (HS : 0 < 1 / (- (1 + 1) * th2)) by (apply Rdiv_lt_0_compat; [lra|nra]).
  set (d := - (1 + 1) * th2) in *.
  assert (E : th1 / d * (th1 / d) + 1 / d - th1 / d * (th1 / d) = 1 / d) by ring.
  rewrite E.
  split; [exact HS|].
  split; [field; exact Hd|].
  split; [field; exact Hd|].
  split; [field; exact Hd|].
  split; field; exact Hd.
Qed.

Lemma ex_natural_point : 0 < 2 - 1 * 1.
Proof. lra. Qed.
