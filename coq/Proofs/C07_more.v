(* C07 lemmas, part 2: Schur complements.  The posterior covariance is PSD whenever the joint
   covariance of (observations, test values) is; conditioning on one more block of observations
   subtracts a PSD term (more data never increases a posterior variance); the whitened
   variational predictive covariance.  Generic over any ordered field. *)
From Coq Require Import Arith Lia Ring Field Setoid Morphisms List Bool.
From GPV Require Import Base.LinAlg Base.Exec Models.C01_posterior Proofs.C01_posterior
  Models.C04_fantasy Proofs.C04_fantasy Models.C07_psd Proofs.C07_psd.
Import ListNotations.

Section Schur.
Context {K : Fld} {O : OrdFld K}.
Add Field Ff_c07m : (@FT K).
Local Open Scope fld_scope.
Notation "a <= b" := (fle a b).

(* ---- variational (whitened) predictive covariance --------------------------------------- *)
(* K** + At (S - I) At^T = (K** - At At^T) + At S At^T *)
Lemma var_cov_split m t Kss At Sw :
  meq t t (var_cov m Kss At Sw)
          (madd (msub Kss (gram m At)) (mmul m (mmul m At Sw) (mT At))).
Proof.
  unfold var_cov, gram.
  assert (E1 : meq t m (mmul m At (msub Sw mI)) (msub (mmul m At Sw) (mmul m At mI)))
    by apply mmul_sub_distr_l.
  assert (E2 : meq t m (mmul m At mI) At) by apply mmul_I_r.
  assert (E3 : meq t t (mmul m (mmul m At (msub Sw mI)) (mT At))
                       (mmul m (msub (mmul m At Sw) At) (mT At))).
  { apply mmul_compat_l. intros i j Hi Hj. rewrite (E1 i j Hi Hj). unfold msub.
    rewrite (E2 i j Hi Hj). reflexivity. }
  assert (E4 : meq t t (mmul m (msub (mmul m At Sw) At) (mT At))
                       (msub (mmul m (mmul m At Sw) (mT At)) (mmul m At (mT At))))
    by apply mmul_sub_distr_r.
  intros i j Hi Hj. unfold madd at 1. rewrite (E3 i j Hi Hj), (E4 i j Hi Hj).
  unfold madd, msub. ring.
Qed.

Lemma var_cov_psd m t Kss At Sw :
  PSD t (msub Kss (gram m At)) -> PSD m Sw -> PSD t (var_cov m Kss At Sw).
Proof.
  intros H1 H2. apply (PSD_meq t _ _ (meq_sym _ _ _ _ (var_cov_split m t Kss At Sw))).
  apply PSD_madd; [exact H1|apply PSD_congr; exact H2].
Qed.

(* ---- the Schur complement of a PSD matrix is PSD ----------------------------------------- *)
(* B = [ -X A^-1 | I ]  (t x (n+t));  B J B^T = J22 - X A^-1 X^T  for symmetric J *)
Definition schur_B (n : nat) (XA : M) : M := hstack n (mopp XA) mI.

Lemma sum_delta t i (f : nat -> car) : (i < t)%nat ->
  sum t (fun k => (if Nat.eqb i k then 1 else 0) * f k) = f i.
Proof.
  intros Hi. rewrite (sum_single t i); [rewrite Nat.eqb_refl; ring|exact Hi|].
  intros k _ Hk. destruct (Nat.eqb_spec i k); [congruence|ring].
Qed.

Lemma schur_congr n t J Ainv :
  symmetric (n + t) J -> is_inverse n (sub 0 0 J) Ainv ->
  meq t t (mmul (n + t) (mmul (n + t) (schur_B n (mmul n (sub n 0 J) Ainv)) J)
                        (mT (schur_B n (mmul n (sub n 0 J) Ainv))))
          (msub (sub n n J) (mmul n (sub n 0 J) (mmul n Ainv (mT (sub n 0 J))))).
Proof.
  intros HS [HI1 HI2].
  set (X := sub n 0 J). set (XA := mmul n X Ainv). set (B := schur_B n XA).
  (* rows of B J *)
  assert (HBJ : forall i l, (i < t)%nat -> (l < n + t)%nat ->
            mmul (n + t) B J i l = J (n + i)%nat l - sum n (fun k => XA i k * J k l)).
  { intros i l Hi Hl. unfold mmul at 1. rewrite sum_split.
    assert (E1 : sum n (fun k => B i k * J k l) = - sum n (fun k => XA i k * J k l)).
    { rewrite <- sum_opp. apply sum_ext. intros k Hk. unfold B, schur_B, hstack, mopp.
      destruct (Nat.ltb_spec k n); [ring|lia]. }
    assert (E2 : sum t (fun k => B i (n + k)%nat * J (n + k)%nat l) = J (n + i)%nat l).
    { rewrite <- (sum_delta t i (fun k => J (n + k)%nat l) Hi). apply sum_ext. intros k Hk.
      unfold B, schur_B, hstack, mI. destruct (Nat.ltb_spec (n + k) n); [lia|].
      replace (n + k - n)%nat with k by lia. reflexivity. }
    rewrite E1, E2. ring. }
  (* the first n columns of B J vanish: X - X A^-1 A = 0 *)
  assert (HXAA : meq t n (mmul n XA (sub 0 0 J)) X).
  { unfold XA. transitivity (mmul n X (mmul n Ainv (sub 0 0 J))); [apply mmul_assoc|].
    transitivity (mmul n X mI); [apply mmul_compat_r; exact HI2|apply mmul_I_r]. }
  assert (HZ : forall i l, (i < t)%nat -> (l < n)%nat -> mmul (n + t) B J i l = 0).
  { intros i l Hi Hl. rewrite HBJ by lia.
    specialize (HXAA i l Hi Hl). unfold mmul, sub in HXAA. cbn [Nat.add] in HXAA.
    unfold X, sub in HXAA |- *. rewrite Nat.add_0_l in HXAA.
    rewrite HXAA. ring. }
  intros i j Hi Hj. unfold mmul at 1. rewrite sum_split.
  rewrite (sum_zero n); [|intros l Hl; rewrite (HZ i l Hi Hl); ring].
  assert (E3 : sum t (fun l => mmul (n + t) B J i (n + l)%nat * mT B (n + l)%nat j)
               = mmul (n + t) B J i (n + j)%nat).
  { rewrite <- (sum_delta t j (fun l => mmul (n + t) B J i (n + l)%nat) Hj).
    apply sum_ext. intros l Hl. unfold mT, B at 2, schur_B, hstack, mI.
    destruct (Nat.ltb_spec (n + l) n); [lia|].
    replace (n + l - n)%nat with l by lia. ring. }
  rewrite E3, HBJ by lia.
  unfold msub, sub. cbn [Nat.add]. replace (0 + (J (n + i)%nat (n + j)%nat - _)) with
    (J (n + i)%nat (n + j)%nat - sum n (fun k => XA i k * J k (n + j)%nat)) by ring.
  f_equal.
  (* sum_k (X A^-1)_ik J_k,(n+j) = (X (A^-1 X^T))_ij  using J_k,(n+j) = J_(n+j),k *)
  transitivity (mmul n XA (mT X) i j).
  - unfold mmul at 1. apply sum_ext. intros k Hk. f_equal. unfold mT, X, sub.
    rewrite Nat.add_0_l. apply HS; lia.
  - unfold XA. apply mmul_assoc_pt.
Qed.

Lemma schur_psd n t J Ainv :
  symmetric (n + t) J -> PSD (n + t) J -> is_inverse n (sub 0 0 J) Ainv ->
  PSD t (msub (sub n n J) (mmul n (sub n 0 J) (mmul n Ainv (mT (sub n 0 J))))).
Proof.
  intros HS HP HI. apply (PSD_meq t _ _ (schur_congr n t J Ainv HS HI)).
  apply PSD_congr. exact HP.
Qed.

(* the joint covariance of (y, f_star): prior KJ plus the observation noise on the train block *)
Lemma posterior_psd n t KJ S Ainv :
  symmetric (n + t) (joint_obs n KJ S) -> PSD (n + t) (joint_obs n KJ S) ->
  is_inverse n (train_covar KJ S) Ainv ->
  PSD t (post_cov n KJ Ainv).
Proof.
  intros HS HP HI.
  assert (E00 : meq n n (sub 0 0 (joint_obs n KJ S)) (train_covar KJ S)).
  { intros i j Hi Hj. unfold sub, joint_obs, train_covar, Kxx, sub, madd. cbn [Nat.add].
    destruct (Nat.ltb_spec i n); [|lia]. destruct (Nat.ltb_spec j n); [|lia]. reflexivity. }
  assert (E10 : meq t n (sub n 0 (joint_obs n KJ S)) (Ksx n KJ)).
  { intros i j Hi Hj. unfold sub, joint_obs, Ksx, sub. cbn [Nat.add].
    destruct (Nat.ltb_spec (n + i) n); [lia|]. cbn [andb]. ring. }
  assert (E11 : meq t t (sub n n (joint_obs n KJ S)) (Kss n KJ)).
  { intros i j Hi Hj. unfold sub, joint_obs, Kss, sub.
    destruct (Nat.ltb_spec (n + i) n); [lia|]. cbn [andb]. ring. }
  assert (HI' : is_inverse n (sub 0 0 (joint_obs n KJ S)) Ainv).
  { apply (is_inverse_compat n (train_covar KJ S) _ Ainv Ainv); [symmetry; exact E00|reflexivity|exact HI]. }
  apply (PSD_meq t (msub (sub n n (joint_obs n KJ S))
           (mmul n (sub n 0 (joint_obs n KJ S)) (mmul n Ainv (mT (sub n 0 (joint_obs n KJ S))))))).
  - unfold post_cov. apply msub_compat; [exact E11|].
    apply mmul_compat; [exact E10|]. apply mmul_compat_r. apply mT_compat. exact E10.
  - apply schur_psd; assumption.
Qed.

(* ---- one more block of observations ------------------------------------------------------ *)
Lemma mmul_hstack_vstack n m p q X Y P R :
  meq p q (mmul (n + m) (hstack n X Y) (vstack n P R)) (madd (mmul n X P) (mmul m Y R)).
Proof.
  intros i j Hi Hj. unfold mmul at 1. rewrite sum_split. unfold madd, mmul. f_equal.
  - apply sum_ext. intros k Hk. unfold hstack, vstack. destruct (Nat.ltb_spec k n); [reflexivity|lia].
  - apply sum_ext. intros k Hk. unfold hstack, vstack. destruct (Nat.ltb_spec (n + k) n); [lia|].
    replace (n + k - n)%nat with k by lia. reflexivity.
Qed.

Lemma mT_hstack n m p X Y : meq (n + m) p (mT (hstack n X Y)) (vstack n (mT X) (mT Y)).
Proof. intros i j Hi Hj. unfold mT, hstack, vstack. reflexivity. Qed.

(* [X Y] B'^-1 [X Y]^T = X A^-1 X^T + W C^-1 W^T  for the bordered inverse B'^-1 (pure algebra:
   holds for any Ainv, Cinv; symmetry of Ainv and Ut = U^T are what makes the cross terms match) *)
Lemma explained_bordered n m t Ainv U Ut Cinv X Y :
  symmetric n Ainv -> meq n m Ut (mT U) ->
  meq t t (explained (n + m) (hstack n X Y) (bordered_inv n m Ainv U Ut Cinv))
          (madd (explained n X Ainv) (extra_explained n m X Y (fant_solve n Ainv Ut) Cinv)).
Proof.
  intros HAs HUt. unfold explained at 1, extra_explained, extra_cross, explained, fant_solve.
  set (Q := mmul n Ainv Ut). set (P := mmul n U Ainv).
  set (Xt := mT X). set (Yt := mT Y).
  set (a := mmul n X Q). set (b := mmul n P Xt).
  (* (X Q)^T = P X^T *)
  assert (Hab : meq m t (mT a) b).
  { unfold a, b, Q, P, Xt.
    transitivity (mmul n (mT (mmul n Ainv Ut)) (mT X)); [apply mT_mmul|].
    apply mmul_compat_l.
    transitivity (mmul n (mT Ut) (mT Ainv)); [apply mT_mmul|].
    apply mmul_compat.
    - intros i j Hi Hj. unfold mT. rewrite (HUt j i Hj Hi). reflexivity.
    - symmetry. exact HAs. }
  (* B'^-1 [X Y]^T, block by block *)
  unfold bordered_inv. fold Q P.
  set (TL := madd Ainv (mmul m Q (mmul m Cinv P))).
  assert (Etop : meq n t (madd (mmul n TL Xt) (mmul m (mopp (mmul m Q Cinv)) Yt))
                   (msub (madd (mmul n Ainv Xt) (mmul m Q (mmul m Cinv b)))
                         (mmul m Q (mmul m Cinv Yt)))).
  { assert (E1 : meq n t (mmul n TL Xt) (madd (mmul n Ainv Xt) (mmul n (mmul m Q (mmul m Cinv P)) Xt)))
      by apply mmul_add_distr_r.
    assert (E2 : meq n t (mmul n (mmul m Q (mmul m Cinv P)) Xt) (mmul m Q (mmul m Cinv b))).
    { transitivity (mmul m Q (mmul n (mmul m Cinv P) Xt)); [apply mmul_assoc|].
      apply mmul_compat_r. unfold b. apply mmul_assoc. }
    assert (E3 : meq n t (mmul m (mopp (mmul m Q Cinv)) Yt) (mopp (mmul m (mmul m Q Cinv) Yt)))
      by apply mmul_opp_l.
    assert (E4 : meq n t (mmul m (mmul m Q Cinv) Yt) (mmul m Q (mmul m Cinv Yt))) by apply mmul_assoc.
    intros i j Hi Hj. unfold madd at 1. rewrite (E1 i j Hi Hj), (E3 i j Hi Hj).
    unfold madd, mopp, msub. rewrite (E2 i j Hi Hj), (E4 i j Hi Hj). ring. }
  assert (Ebot : meq m t (madd (mmul n (mopp (mmul m Cinv P)) Xt) (mmul m Cinv Yt))
                   (msub (mmul m Cinv Yt) (mmul m Cinv b))).
  { assert (E1 : meq m t (mmul n (mopp (mmul m Cinv P)) Xt) (mopp (mmul n (mmul m Cinv P) Xt)))
      by apply mmul_opp_l.
    assert (E2 : meq m t (mmul n (mmul m Cinv P) Xt) (mmul m Cinv b)) by (unfold b; apply mmul_assoc).
    intros i j Hi Hj. unfold madd. rewrite (E1 i j Hi Hj). unfold mopp, msub.
    rewrite (E2 i j Hi Hj). ring. }
  set (top := msub (madd (mmul n Ainv Xt) (mmul m Q (mmul m Cinv b))) (mmul m Q (mmul m Cinv Yt))).
  set (bot := msub (mmul m Cinv Yt) (mmul m Cinv b)).
  assert (Einner : meq (n + m) t
            (mmul (n + m) (blk n n TL (mopp (mmul m Q Cinv)) (mopp (mmul m Cinv P)) Cinv)
                          (mT (hstack n X Y)))
            (vstack n top bot)).
  { transitivity (mmul (n + m) (blk n n TL (mopp (mmul m Q Cinv)) (mopp (mmul m Cinv P)) Cinv)
                               (vstack n Xt Yt)).
    - apply mmul_compat_r. apply mT_hstack.
    - etransitivity; [apply mmul_blk_vstack|]. apply vstack_compat; [exact Etop|exact Ebot]. }
  assert (Eouter : meq t t
            (mmul (n + m) (hstack n X Y)
               (mmul (n + m) (blk n n TL (mopp (mmul m Q Cinv)) (mopp (mmul m Cinv P)) Cinv)
                             (mT (hstack n X Y))))
            (madd (mmul n X top) (mmul m Y bot))).
  { etransitivity; [apply mmul_compat_r; exact Einner|]. apply mmul_hstack_vstack. }
  (* expand X top and Y bot *)
  assert (EXtop : meq t t (mmul n X top)
            (msub (madd (mmul n X (mmul n Ainv Xt)) (mmul m a (mmul m Cinv b)))
                  (mmul m a (mmul m Cinv Yt)))).
  { unfold top.
    assert (E1 : meq t t (mmul n X (msub (madd (mmul n Ainv Xt) (mmul m Q (mmul m Cinv b)))
                                         (mmul m Q (mmul m Cinv Yt))))
                   (msub (mmul n X (madd (mmul n Ainv Xt) (mmul m Q (mmul m Cinv b))))
                         (mmul n X (mmul m Q (mmul m Cinv Yt))))) by apply mmul_sub_distr_l.
    assert (E2 : meq t t (mmul n X (madd (mmul n Ainv Xt) (mmul m Q (mmul m Cinv b))))
                   (madd (mmul n X (mmul n Ainv Xt)) (mmul n X (mmul m Q (mmul m Cinv b)))))
      by apply mmul_add_distr_l.
    assert (E3 : meq t t (mmul n X (mmul m Q (mmul m Cinv b))) (mmul m a (mmul m Cinv b)))
      by (unfold a; symmetry; apply mmul_assoc).
    assert (E4 : meq t t (mmul n X (mmul m Q (mmul m Cinv Yt))) (mmul m a (mmul m Cinv Yt)))
      by (unfold a; symmetry; apply mmul_assoc).
    intros i j Hi Hj. rewrite (E1 i j Hi Hj). unfold msub at 1. rewrite (E2 i j Hi Hj).
    unfold madd, msub. rewrite (E3 i j Hi Hj), (E4 i j Hi Hj). reflexivity. }
  assert (EYbot : meq t t (mmul m Y bot)
            (msub (mmul m Y (mmul m Cinv Yt)) (mmul m Y (mmul m Cinv b)))).
  { unfold bot. apply mmul_sub_distr_l. }
  (* the right-hand side: (Y - a) (Cinv (Y - a)^T) *)
  assert (EWt : meq m t (mT (msub Y a)) (msub Yt b)).
  { intros i j Hi Hj. unfold Yt. unfold mT at 1. unfold msub.
    specialize (Hab i j Hi Hj). unfold mT in Hab. rewrite Hab. reflexivity. }
  assert (ER : meq t t (mmul m (msub Y a) (mmul m Cinv (mT (msub Y a))))
            (msub (msub (mmul m Y (mmul m Cinv Yt)) (mmul m Y (mmul m Cinv b)))
                  (msub (mmul m a (mmul m Cinv Yt)) (mmul m a (mmul m Cinv b))))).
  { assert (E1 : meq m t (mmul m Cinv (mT (msub Y a))) (msub (mmul m Cinv Yt) (mmul m Cinv b))).
    { transitivity (mmul m Cinv (msub Yt b)); [apply mmul_compat_r; exact EWt|apply mmul_sub_distr_l]. }
    set (D := msub (mmul m Cinv Yt) (mmul m Cinv b)).
    assert (E2 : meq t t (mmul m (msub Y a) (mmul m Cinv (mT (msub Y a)))) (mmul m (msub Y a) D))
      by (apply mmul_compat_r; exact E1).
    assert (E3 : meq t t (mmul m (msub Y a) D) (msub (mmul m Y D) (mmul m a D))) by apply mmul_sub_distr_r.
    assert (E4 : meq t t (mmul m Y D) (msub (mmul m Y (mmul m Cinv Yt)) (mmul m Y (mmul m Cinv b))))
      by (unfold D; apply mmul_sub_distr_l).
    assert (E5 : meq t t (mmul m a D) (msub (mmul m a (mmul m Cinv Yt)) (mmul m a (mmul m Cinv b))))
      by (unfold D; apply mmul_sub_distr_l).
    intros i j Hi Hj. rewrite (E2 i j Hi Hj), (E3 i j Hi Hj). unfold msub at 1.
    rewrite (E4 i j Hi Hj), (E5 i j Hi Hj). reflexivity. }
  intros i j Hi Hj. rewrite (Eouter i j Hi Hj). unfold madd at 1.
  rewrite (EXtop i j Hi Hj), (EYbot i j Hi Hj). unfold madd at 2.
  fold Xt. fold a. rewrite (ER i j Hi Hj). unfold madd, msub. ring.
Qed.


Lemma explained_compat n t X Ainv Ainv' :
  meq n n Ainv Ainv' -> meq t t (explained n X Ainv) (explained n X Ainv').
Proof. intros H. unfold explained. apply mmul_compat_r. apply mmul_compat_l. exact H. Qed.

(* more data never increases uncertainty: conditioning on the n+m observations whose covariance is
   the bordered matrix [[A, U^T],[U, Sf]] instead of on the first n only subtracts a PSD matrix
   from the posterior covariance of ANY t test points (X, Y = their covariances with the old and
   the new observations), for every n, m, t and any inverses *)
Lemma more_data_less_variance n m t A U Ut Sf Kss X Y Ainv Cinv Binv :
  symmetric (n + m) (bordered n A Ut U Sf) -> PSD (n + m) (bordered n A Ut U Sf) ->
  is_inverse n A Ainv ->
  is_inverse m (schur n U (fant_solve n Ainv Ut) Sf) Cinv ->
  is_inverse (n + m) (bordered n A Ut U Sf) Binv ->
  PSD t (msub (post_cov_g n Kss X Ainv) (post_cov_g (n + m) Kss (hstack n X Y) Binv)).
Proof.
  intros HS HP HA HC HB.
  (* what symmetry of the bordered matrix says about its blocks *)
  assert (HAs : symmetric n A).
  { intros i j Hi Hj. specialize (HS i j ltac:(lia) ltac:(lia)). unfold mT, bordered, blk in HS |- *.
    destruct (Nat.ltb_spec i n); [|lia]. destruct (Nat.ltb_spec j n); [|lia]. exact HS. }
  assert (HUt : meq n m Ut (mT U)).
  { intros i j Hi Hj. specialize (HS i (n + j)%nat ltac:(lia) ltac:(lia)).
    unfold mT, bordered, blk in HS |- *.
    destruct (Nat.ltb_spec i n); [|lia]. destruct (Nat.ltb_spec (n + j) n); [lia|].
    replace (n + j - n)%nat with j in HS by lia. exact HS. }
  assert (HSf : symmetric m Sf).
  { intros i j Hi Hj. specialize (HS (n + i)%nat (n + j)%nat ltac:(lia) ltac:(lia)).
    unfold mT, bordered, blk in HS |- *.
    destruct (Nat.ltb_spec (n + i) n); [lia|]. destruct (Nat.ltb_spec (n + j) n); [lia|].
    replace (n + i - n)%nat with i in HS by lia. replace (n + j - n)%nat with j in HS by lia. exact HS. }
  assert (HAis : symmetric n Ainv) by (apply (inverse_symmetric n A); assumption).
  set (Q := fant_solve n Ainv Ut) in *.
  set (C := schur n U Q Sf) in *.
  (* C is the Schur complement of the bordered matrix: PSD and symmetric *)
  assert (E00 : meq n n (sub 0 0 (bordered n A Ut U Sf)) A) by (apply sub_blk_00; lia).
  assert (E10 : meq m n (sub n 0 (bordered n A Ut U Sf)) U) by (apply sub_blk_10; lia).
  assert (E11 : meq m m (sub n n (bordered n A Ut U Sf)) Sf) by apply sub_blk_11.
  assert (HCeq : meq m m
            (msub (sub n n (bordered n A Ut U Sf))
               (mmul n (sub n 0 (bordered n A Ut U Sf))
                  (mmul n Ainv (mT (sub n 0 (bordered n A Ut U Sf)))))) C).
  { unfold C, schur, Q, fant_solve. apply msub_compat; [exact E11|].
    apply mmul_compat; [exact E10|]. apply mmul_compat_r.
    transitivity (mT U); [apply mT_compat; exact E10|symmetry; exact HUt]. }
  assert (HCp : PSD m C).
  { apply (PSD_meq m _ _ HCeq). apply schur_psd; [exact HS|exact HP|].
    apply (is_inverse_compat n A _ Ainv Ainv); [symmetry; exact E00|reflexivity|exact HA]. }
  assert (HCs : symmetric m C).
  { unfold C, schur, Q, fant_solve. intros i j Hi Hj. unfold mT, msub.
    rewrite (HSf i j Hi Hj). unfold mT. f_equal.
    (* (U Ainv Ut)_ij = (U Ainv Ut)_ji *)
    assert (E : meq m m (mT (mmul n U (mmul n Ainv Ut))) (mmul n U (mmul n Ainv Ut))).
    { transitivity (mmul n (mT (mmul n Ainv Ut)) (mT U)); [apply mT_mmul|].
      transitivity (mmul n (mmul n (mT Ut) (mT Ainv)) (mT U)); [apply mmul_compat_l; apply mT_mmul|].
      transitivity (mmul n (mT Ut) (mmul n (mT Ainv) (mT U))); [apply mmul_assoc|].
      apply mmul_compat.
      - intros a b Ha Hb. unfold mT. rewrite (HUt b a Hb Ha). reflexivity.
      - apply mmul_compat; [symmetry; exact HAis|symmetry; exact HUt]. }
    specialize (E j i Hj Hi). unfold mT in E. exact E. }
  assert (HCi : PSD m Cinv) by (apply (inv_psd m C); assumption).
  (* the inverse of the bordered matrix *)
  assert (HBe : meq (n + m) (n + m) Binv (bordered_inv n m Ainv U Ut Cinv)).
  { apply (inverse_unique (n + m) (bordered n A Ut U Sf)); [exact HB|].
    apply bordered_inv_correct; assumption. }
  apply (PSD_meq t (extra_explained n m X Y Q Cinv)).
  - assert (E1 : meq t t (explained (n + m) (hstack n X Y) Binv)
                   (madd (explained n X Ainv) (extra_explained n m X Y Q Cinv))).
    { transitivity (explained (n + m) (hstack n X Y) (bordered_inv n m Ainv U Ut Cinv));
        [apply explained_compat; exact HBe|apply explained_bordered; assumption]. }
    intros i j Hi Hj. unfold post_cov_g, msub. rewrite (E1 i j Hi Hj). unfold madd. ring.
  - unfold extra_explained. apply explained_psd. exact HCi.
Qed.

Lemma more_data_variance_monotone n m t A U Ut Sf Kss X Y Ainv Cinv Binv i :
  symmetric (n + m) (bordered n A Ut U Sf) -> PSD (n + m) (bordered n A Ut U Sf) ->
  is_inverse n A Ainv ->
  is_inverse m (schur n U (fant_solve n Ainv Ut) Sf) Cinv ->
  is_inverse (n + m) (bordered n A Ut U Sf) Binv -> (i < t)%nat ->
  post_cov_g (n + m) Kss (hstack n X Y) Binv i i <= post_cov_g n Kss X Ainv i i.
Proof.
  intros HS HP HA HC HB Hi. apply le_of_sub_nn.
  apply (PSD_diag_nn t (msub (post_cov_g n Kss X Ainv) (post_cov_g (n + m) Kss (hstack n X Y) Binv)) i);
    [|exact Hi].
  apply (more_data_less_variance n m t A U Ut Sf Kss X Y Ainv Cinv Binv); assumption.
Qed.

End Schur.
Section Kron.
Context {K : Fld} {O : OrdFld K}.
Add Field Ff_c07k : (@FT K).
Local Open Scope fld_scope.
Notation "a <= b" := (fle a b).

(* ---- selecting rows/columns (with repetition) of a PSD matrix; Kronecker products --------- *)
Definition sel (idx : nat -> nat) : M := fun i p => if Nat.eqb (idx i) p then 1 else 0.

Lemma sum_delta_r N a (f : nat -> car) : (a < N)%nat ->
  sum N (fun p => f p * (if Nat.eqb a p then 1 else 0)) = f a.
Proof.
  intros Ha. rewrite <- (sum_delta N a f Ha). apply sum_ext. intros; ring.
Qed.

Lemma gather_is_congr n N idx B : (forall i, (i < n)%nat -> (idx i < N)%nat) ->
  meq n n (mmul N (mmul N (sel idx) B) (mT (sel idx))) (gather idx idx B).
Proof.
  intros Hidx i j Hi Hj. unfold mmul at 1, mT, sel at 2, gather.
  rewrite (sum_delta_r N (idx j) (fun p => mmul N (sel idx) B i p) (Hidx j Hj)).
  unfold mmul, sel. apply (sum_delta N (idx i) (fun p => B p (idx j)) (Hidx i Hi)).
Qed.

Lemma PSD_gather n N idx B : (forall i, (i < n)%nat -> (idx i < N)%nat) ->
  PSD N B -> PSD n (gather idx idx B).
Proof.
  intros Hidx HB. apply (PSD_meq n _ _ (gather_is_congr n N idx B Hidx)).
  apply PSD_congr. exact HB.
Qed.

Lemma kprod_is_hadamard q A B i j :
  kprod q A B i j
  = hadamard (gather (fun a => (a / q)%nat) (fun a => (a / q)%nat) A)
             (gather (fun a => (a mod q)%nat) (fun a => (a mod q)%nat) B) i j.
Proof. reflexivity. Qed.

(* Kronecker product of a weighted-Gram factor (IndexKernel / task covariance B B^T + diag v,
   Linear, ...) with ANY PSD factor, in either order (MultitaskKernel, LCMKernel summands) *)
Lemma kprod_psd_l p q r F c A B :
  (forall k, (k < r)%nat -> 0 <= c k) -> meq p p A (wgram r F c) -> PSD q B ->
  PSD (p * q) (kprod q A B).
Proof.
  intros Hc HA HB. destruct q as [|q']; [rewrite Nat.mul_0_r; intros x; apply fle_refl|].
  set (q := Datatypes.S q') in *.
  assert (Hdiv : forall i, (i < p * q)%nat -> (i / q < p)%nat).
  { intros i Hi. apply Nat.div_lt_upper_bound; [unfold q; lia|]. rewrite Nat.mul_comm. exact Hi. }
  assert (Hmod : forall i, (i < p * q)%nat -> (i mod q < q)%nat).
  { intros i _. apply Nat.mod_upper_bound. unfold q; lia. }
  apply (PSD_meq (p * q)
    (hadamard (wgram r (fun a k => F (a / q)%nat k) c)
              (gather (fun a => (a mod q)%nat) (fun a => (a mod q)%nat) B))).
  - intros i j Hi Hj. rewrite kprod_is_hadamard. unfold hadamard. f_equal.
    unfold gather. rewrite (HA _ _ (Hdiv i Hi) (Hdiv j Hj)). reflexivity.
  - apply PSD_hadamard_wgram; [exact Hc|]. apply (PSD_gather (p * q) q); [exact Hmod|exact HB].
Qed.

Lemma kprod_psd_r p q r F c A B :
  (forall k, (k < r)%nat -> 0 <= c k) -> PSD p A -> meq q q B (wgram r F c) ->
  PSD (p * q) (kprod q A B).
Proof.
  intros Hc HA HB. destruct q as [|q']; [rewrite Nat.mul_0_r; intros x; apply fle_refl|].
  set (q := Datatypes.S q') in *.
  assert (Hdiv : forall i, (i < p * q)%nat -> (i / q < p)%nat).
  { intros i Hi. apply Nat.div_lt_upper_bound; [unfold q; lia|]. rewrite Nat.mul_comm. exact Hi. }
  assert (Hmod : forall i, (i < p * q)%nat -> (i mod q < q)%nat).
  { intros i _. apply Nat.mod_upper_bound. unfold q; lia. }
  apply (PSD_meq (p * q)
    (hadamard (wgram r (fun a k => F (a mod q)%nat k) c)
              (gather (fun a => (a / q)%nat) (fun a => (a / q)%nat) A))).
  - intros i j Hi Hj. rewrite kprod_is_hadamard. unfold hadamard.
    transitivity (gather (fun a => (a mod q)%nat) (fun a => (a mod q)%nat) B i j
                  * gather (fun a => (a / q)%nat) (fun a => (a / q)%nat) A i j); [|ring].
    f_equal. unfold gather. rewrite (HB _ _ (Hmod i Hi) (Hmod j Hj)). reflexivity.
  - apply PSD_hadamard_wgram; [exact Hc|]. apply (PSD_gather (p * q) p); [exact Hdiv|exact HA].
Qed.

(* IndexKernel's full task covariance B B^T + diag v is a weighted Gram matrix *)
Lemma k_index_full_wgram N r B v :
  meq N N (k_index_full r B v)
          (wgram (r + N) (hstack r B mI) (fun k => if Nat.ltb k r then 1 else v (k - r)%nat)).
Proof.
  intros i j Hi Hj. unfold k_index_full, madd, wgram. rewrite sum_split. f_equal.
  - rewrite gram_is_wgram. unfold wgram. apply sum_ext. intros k Hk. unfold hstack.
    destruct (Nat.ltb_spec k r); [reflexivity|lia].
  - rewrite (mdiag_wgram N v i j Hi Hj). unfold wgram. apply sum_ext. intros k Hk. unfold hstack.
    destruct (Nat.ltb_spec (r + k) r); [lia|]. replace (r + k - r)%nat with k by lia. reflexivity.
Qed.

(* MultitaskKernel: K_data (x) K_task with K_task = IndexKernel's B B^T + diag v, v >= 0 *)
Lemma multitask_kernel_psd n T r B v Kdata :
  (forall a, (a < T)%nat -> 0 <= v a) -> PSD n Kdata ->
  PSD (n * T) (kprod T Kdata (k_index_full r B v)).
Proof.
  intros Hv HK.
  apply (kprod_psd_r n T (r + T) (hstack r B mI) (fun k => if Nat.ltb k r then 1 else v (k - r)%nat));
    [|exact HK|apply k_index_full_wgram].
  intros k Hk. destruct (Nat.ltb_spec k r); [apply f1_nn|apply Hv; lia].
Qed.
End Kron.
