(* C04 lemmas, Schur complement: for a symmetric positive definite bordered train covariance
   [[A, U^T],[U, S_f]] the Schur complement S_f - U A^-1 U^T that get_fantasy_strategy hands to
   the Cholesky factorisation (exact_prediction_strategies.py:196-203) is symmetric positive
   definite, for all n, m, over any ordered field; over R it has a lower-triangular root. *)
From Coq Require Import Arith Lia Ring Field Setoid Morphisms List Bool Reals Lra Psatz.
From GPV Require Import Base.LinAlg Base.Exec Base.Expr Base.Psd Models.C01_posterior
  Models.C04_fantasy Proofs.C04_fantasy.
Import ListNotations.

Section SchurPD.
Context {K : Fld} {O : OrdFld K}.
Add Field Ff_c04s : (@FT K).
Local Open Scope fld_scope.

(* the model's Schur complement is the Schur complement of the bordered matrix's blocks *)
Lemma schur_of_bordered n m A U Ut Sf Ainv :
  meq n m Ut (mT U) ->
  meq m m
    (msub (sub n n (bordered n A Ut U Sf))
       (mmul n (sub n 0 (bordered n A Ut U Sf))
          (mmul n Ainv (mT (sub n 0 (bordered n A Ut U Sf))))))
    (schur n U (fant_solve n Ainv Ut) Sf).
Proof.
  intros HUt.
  assert (E10 : meq m n (sub n 0 (bordered n A Ut U Sf)) U) by (apply sub_blk_10; lia).
  assert (E11 : meq m m (sub n n (bordered n A Ut U Sf)) Sf) by apply sub_blk_11.
  unfold schur, fant_solve. apply msub_compat; [exact E11|].
  apply mmul_compat; [exact E10|]. apply mmul_compat_r.
  transitivity (mT U); [apply mT_compat; exact E10|symmetry; exact HUt].
Qed.

Lemma bordered_sym_Ut n m A U Ut Sf :
  symmetric (n + m) (bordered n A Ut U Sf) -> meq n m Ut (mT U).
Proof.
  intros HS i j Hi Hj. specialize (HS i (n + j)%nat ltac:(lia) ltac:(lia)).
  unfold mT, bordered, blk in HS |- *.
  destruct (Nat.ltb_spec i n); [|lia]. destruct (Nat.ltb_spec (n + j) n); [lia|].
  replace (n + j - n)%nat with j in HS by lia. exact HS.
Qed.

Lemma bordered_inverse_block n (m : nat) A U Ut Sf Ainv :
  is_inverse n A Ainv -> is_inverse n (sub 0 0 (bordered n A Ut U Sf)) Ainv.
Proof.
  intros HA.
  assert (E00 : meq n n (sub 0 0 (bordered n A Ut U Sf)) A) by (apply sub_blk_00; lia).
  apply (is_inverse_compat n A _ Ainv Ainv); [symmetry; exact E00|reflexivity|exact HA].
Qed.

Theorem schur_complement_pd n m A U Ut Sf Ainv :
  symmetric (n + m) (bordered n A Ut U Sf) -> PD (n + m) (bordered n A Ut U Sf) ->
  is_inverse n A Ainv ->
  PD m (schur n U (fant_solve n Ainv Ut) Sf).
Proof.
  intros HS HP HA.
  apply (PD_meq m _ _ (schur_of_bordered n m A U Ut Sf Ainv (bordered_sym_Ut n m A U Ut Sf HS))).
  apply schur_pd; [exact HS|exact HP|apply (bordered_inverse_block n m); exact HA].
Qed.

Theorem schur_complement_symmetric n m A U Ut Sf Ainv :
  symmetric (n + m) (bordered n A Ut U Sf) -> is_inverse n A Ainv ->
  symmetric m (schur n U (fant_solve n Ainv Ut) Sf).
Proof.
  intros HS HA.
  pose proof (schur_of_bordered n m A U Ut Sf Ainv (bordered_sym_Ut n m A U Ut Sf HS)) as E.
  pose proof (schur_symmetric n m (bordered n A Ut U Sf) Ainv HS
                (bordered_inverse_block n m A U Ut Sf Ainv HA)) as HSy.
  intros i j Hi Hj. unfold mT. rewrite <- (E i j Hi Hj), <- (E j i Hj Hi). apply HSy; assumption.
Qed.

(* the old train covariance A itself is PD (leading block), so the chain of fantasy updates
   keeps every Cholesky well defined *)
Theorem bordered_leading_pd n m A U Ut Sf :
  PD (n + m) (bordered n A Ut U Sf) -> PD n A.
Proof.
  intros HP. apply (PD_meq n (bordered n A Ut U Sf)).
  - intros i j Hi Hj. unfold bordered, blk.
    destruct (Nat.ltb_spec i n); [|lia]. destruct (Nat.ltb_spec j n); [|lia]. reflexivity.
  - apply (PD_leading n m). exact HP.
Qed.

End SchurPD.

(* ---- over R: the Cholesky root of the Schur complement exists ------------------------------ *)
Theorem schur_complement_has_cholesky n m (A U Ut Sf Ainv : @M RF) :
  symmetric (n + m) (bordered n A Ut U Sf) -> @PD RF ROrd (n + m) (bordered n A Ut U Sf) ->
  is_inverse n A Ainv ->
  exists G : @M RF,
    meq m m (mmul m G (mT G)) (schur n U (fant_solve n Ainv Ut) Sf) /\
    (forall i k, (i < k)%nat -> G i k = 0%R).
Proof.
  intros HS HP HA.
  destruct (psd_has_cholesky m (schur n U (fant_solve n Ainv Ut) Sf)) as (G & HG & Htri).
  - apply (@schur_complement_symmetric RF n m A U Ut Sf Ainv); assumption.
  - apply PD_PSD. apply (@schur_complement_pd RF ROrd n m A U Ut Sf Ainv); assumption.
  - exists G. split; [symmetry; exact HG|exact Htri].
Qed.

(* ---- non-vacuity: [[2,1],[1,2]] over R ------------------------------------------------------ *)
Definition ex1r (c : R) : @M RF := fun _ _ => c.
Definition exBr : @M RF := bordered 1 (ex1r 2) (ex1r 1) (ex1r 1) (ex1r 2).

Lemma ex_schur_pd_hyps_holds :
  symmetric 2 exBr /\ @PD RF ROrd 2 exBr /\ is_inverse 1 (ex1r 2) (ex1r (/ 2)) /\
  schur 1 (ex1r 1) (fant_solve 1 (ex1r (/ 2)) (ex1r 1)) (ex1r 2) 0%nat 0%nat = (3 / 2)%R.
Proof.
  split; [|split; [|split]].
  - intros i j Hi Hj. destruct i as [|[|i]]; [| |lia]; (destruct j as [|[|j]]; [| |lia]); reflexivity.
  - apply PD_iff_strict_R. intros x (i & Hi & Hne).
    unfold qform, bform, exBr, bordered, blk, ex1r. cbn. cbn in Hne.
    assert (Hx : x 0%nat <> 0%R \/ x 1%nat <> 0%R).
    { destruct i as [|[|i]]; [left; exact Hne|right; exact Hne|]. exfalso; lia. }
    pose proof (Rle_0_sqr (x 0%nat + x 1%nat)) as H1. pose proof (Rle_0_sqr (x 0%nat)) as H2.
    pose proof (Rle_0_sqr (x 1%nat)) as H3.
    destruct Hx as [Hx|Hx]; apply Rsqr_pos_lt in Hx; unfold Rsqr in *; lra.
  - split; intros i j Hi Hj; assert (i = 0)%nat by lia; assert (j = 0)%nat by lia; subst;
      unfold mmul, ex1r, mI; cbn; field.
  - unfold schur, fant_solve, msub, mmul, ex1r. cbn. field.
Qed.
