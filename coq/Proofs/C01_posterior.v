From Coq Require Import Arith Lia Ring Field Setoid Morphisms.
From GPV Require Import Base.LinAlg Base.Exec Models.C01_posterior.

Section Proofs.
Context {K : Fld}.
Add Field Ff_c01 : (@FT K).
Local Open Scope fld_scope.

Lemma Kxs_is_Ksx_T n t KJ : symmetric (n + t) KJ -> meq n t (Kxs n KJ) (mT (Ksx n KJ)).
Proof.
  intros HS i j Hi Hj. unfold Kxs, Ksx, sub, mT. cbn [Nat.add].
  rewrite (HS i (n + j)%nat) by lia. reflexivity.
Qed.

(* the code's covariance (which transposes test_train) is the closed form of the statement *)
Lemma post_cov_closed n t KJ Ainv : symmetric (n + t) KJ ->
  meq t t (post_cov n KJ Ainv) (cov_closed n KJ Ainv).
Proof.
  intros HS. unfold post_cov, cov_closed.
  apply msub_compat; [reflexivity|].
  apply mmul_compat_r. apply mmul_compat_r. symmetry. apply Kxs_is_Ksx_T. exact HS.
Qed.

(* fast_pred_var at full rank: any root R (n x r) of the inverse gives the same covariance *)
Lemma cov_root_correct n t r KJ R Ainv :
  meq n n (mmul r R (mT R)) Ainv ->
  meq t t (cov_root n r KJ R) (post_cov n KJ Ainv).
Proof.
  intros HR. unfold cov_root, post_cov. apply msub_compat; [reflexivity|].
  set (B := Ksx n KJ).
  transitivity (mmul r (mmul n B R) (mmul n (mT R) (mT B))).
  { apply mmul_compat_r. apply mT_mmul. }
  transitivity (mmul n B (mmul r R (mmul n (mT R) (mT B)))).
  { apply mmul_assoc. }
  apply mmul_compat_r.
  transitivity (mmul n (mmul r R (mT R)) (mT B)).
  { symmetry. apply mmul_assoc. }
  apply mmul_compat_l. exact HR.
Qed.

(* Gaussian conditioning, characterised without measure theory: B = K*x A^-1 is the unique
   linear predictor whose residual f* - B y is uncorrelated with y, and the covariance of that
   residual is the closed form. *)
Lemma residual_uncorrelated_iff n t KJ S Ainv B :
  is_inverse n (train_covar KJ S) Ainv ->
  meq t n (residual_cross n KJ S B) mzero <-> meq t n B (mmul n (Ksx n KJ) Ainv).
Proof.
  intros HI. unfold residual_cross. rewrite msub_eq_zero.
  split; intros H.
  - apply (solve_unique_r n t (train_covar KJ S) Ainv B (Ksx n KJ) HI). symmetry. exact H.
  - symmetry. apply (solve_unique_r n t (train_covar KJ S) Ainv B (Ksx n KJ) HI). exact H.
Qed.

Lemma residual_cov_closed n t KJ S Ainv :
  symmetric (n + t) KJ -> symmetric n (train_covar KJ S) ->
  is_inverse n (train_covar KJ S) Ainv ->
  meq t t (residual_cov n KJ S (mmul n (Ksx n KJ) Ainv)) (cov_closed n KJ Ainv).
Proof.
  intros HS HA HI. unfold residual_cov, cov_closed.
  set (A := train_covar KJ S). set (C := Ksx n KJ). set (Ct := Kxs n KJ).
  assert (HCt : meq n t Ct (mT C)) by (apply Kxs_is_Ksx_T; exact HS).
  assert (HAiS : symmetric n Ainv) by (apply (inverse_symmetric n A); assumption).
  destruct HI as [HI1 HI2].
  (* (C Ai) A = C *)
  assert (H1 : meq t n (mmul n (mmul n C Ainv) A) C).
  { transitivity (mmul n C (mmul n Ainv A)); [apply mmul_assoc|].
    transitivity (mmul n C mI); [apply mmul_compat_r; exact HI2|apply mmul_I_r]. }
  (* (C Ai)^T = Ai C^T *)
  assert (H2 : meq n t (mT (mmul n C Ainv)) (mmul n Ainv (mT C))).
  { transitivity (mmul n (mT Ainv) (mT C)); [apply mT_mmul|].
    apply mmul_compat_l. symmetry. exact HAiS. }
  assert (E1 : meq t t (mmul n (mmul n C Ainv) Ct) (mmul n C (mmul n Ainv Ct))) by apply mmul_assoc.
  assert (E2 : meq t t (mmul n C (mT (mmul n C Ainv))) (mmul n C (mmul n Ainv Ct))).
  { apply mmul_compat_r. rewrite H2. apply mmul_compat_r. symmetry. exact HCt. }
  assert (E3 : meq t t (mmul n (mmul n (mmul n C Ainv) A) (mT (mmul n C Ainv)))
                       (mmul n C (mmul n Ainv Ct))).
  { transitivity (mmul n C (mT (mmul n C Ainv))); [apply mmul_compat_l; exact H1|exact E2]. }
  intros i j Hi Hj. unfold madd, msub.
  rewrite (E1 i j Hi Hj), (E2 i j Hi Hj), (E3 i j Hi Hj). ring.
Qed.

Lemma marginal_adds_noise_once n t KJ Ainv Ss :
  meq t t (msub (marginal_cov n KJ Ainv Ss) (post_cov n KJ Ainv)) Ss.
Proof. intros i j _ _. unfold marginal_cov, madd, msub. ring. Qed.

(* the mean: K*x alpha + m*, with alpha the unique solution of (Kxx+S) alpha = y - mx *)
Lemma mean_cache_solves n muJ KJ S Ainv y :
  is_inverse n (train_covar KJ S) Ainv ->
  meq n 1 (mmul n (train_covar KJ S) (mean_cache n muJ Ainv y)) (msub y (sub 0 0 muJ)).
Proof.
  intros HI. unfold mean_cache.
  apply (solve_unique n 1 (train_covar KJ S) Ainv _ _ HI). reflexivity.
Qed.

Lemma mean_cache_unique n muJ KJ S Ainv y a :
  is_inverse n (train_covar KJ S) Ainv ->
  meq n 1 (mmul n (train_covar KJ S) a) (msub y (sub 0 0 muJ)) ->
  meq n 1 a (mean_cache n muJ Ainv y).
Proof.
  intros HI H. unfold mean_cache.
  apply (solve_unique n 1 (train_covar KJ S) Ainv _ _ HI). exact H.
Qed.

End Proofs.

(* what the executable wrapper returns is the generic model run on a certified inverse *)
Lemma run_inverse_certified n A Mi : inv_checked n A = Some Mi -> is_inverse n A Mi.
Proof. apply inv_checked_sound. Qed.

(* Multitask models flatten (point i, task a) to i*T + a (interleaved).  Splitting the
   flattened joint over [train; test] points at num_train = n*T separates train from test
   points exactly; in the non-interleaved layout a*(n+t) + i it does not. *)
Lemma interleaved_split n T i a : (a < T)%nat -> ((i * T + a < n * T)%nat <-> (i < n)%nat).
Proof. intros Ha. split; intros H; nia. Qed.

Lemma noninterleaved_split_refuted :
  exists n t T i a, (a < T)%nat /\ (i < n)%nat /\ ~ (a * (n + t) + i < n * T)%nat.
Proof. exists 2%nat, 3%nat, 2%nat, 1%nat, 1%nat. repeat split; lia. Qed.

(* eager (slice the materialised joint) and lazy (slice, then evaluate) kernel paths produce
   the same blocks: slicing commutes with entrywise evaluation *)
Lemma eager_lazy_blocks_agree {K : Fld} (k : nat -> nat -> car) r c p q :
  meq p q (sub r c (fun i j => k i j)) (fun i j => k (r + i)%nat (c + j)%nat).
Proof. intros i j _ _. reflexivity. Qed.

(* ---- lazily evaluated kernels with active_dims: because evaluate_kernel puts active_dims back, ANY
   interleaving of building lazy tensors and evaluating them (on one shared kernel object) returns, for
   every evaluation, the eager evaluation under the active_dims the kernel was constructed with *)
From Coq Require Import List QArith Qcanon.
Import ListNotations.

Lemma nth_error_map_some {A B} (f : A -> B) l i x : nth_error l i = Some x -> nth_error (map f l) i = Some (f x).
Proof.
  revert i. induction l as [|y r IH]; intros [|i]; cbn [nth_error map]; try discriminate.
  - intros H. injection H as <-. reflexivity.
  - apply IH.
Qed.
Lemma nth_error_map_none {A B} (f : A -> B) l i : nth_error l i = None -> nth_error (map f l) i = None.
Proof.
  revert i. induction l as [|y r IH]; intros [|i]; cbn [nth_error map]; try discriminate; try reflexivity.
  apply IH.
Qed.

Lemma lazy_run_restoring {K : Fld} (kf : M -> M -> M) a ops : forall ts,
  lazy_run kf true a ts ops = eager_run kf a (map (fun L => kf (fst L) (snd L)) ts) ops.
Proof.
  induction ops as [|o r IH]; intros ts; [reflexivity|].
  destruct o as [X1 X2|i]; cbn [lazy_run eager_run].
  - rewrite IH. rewrite map_app. reflexivity.
  - destruct (nth_error ts i) as [L|] eqn:E.
    + rewrite (nth_error_map_some _ _ _ _ E). cbn [evaluate_kernel]. rewrite IH. reflexivity.
    + rewrite (nth_error_map_none _ _ _ E). apply IH.
Qed.

Lemma lazy_eq_eager {K : Fld} (kf : M -> M -> M) a ops : lazy_run kf true a [] ops = eager_run kf a [] ops.
Proof. apply (lazy_run_restoring kf a ops []). Qed.

(* without the restoration the SECOND use of the kernel object sees all columns: kernel = product of the first
   active coordinates, active_dims = [1], one point (0, 1) *)
Definition ex_kf : @M QcF -> @M QcF -> @M QcF := fun X1 X2 i j => (X1 i 0%nat * X2 j 0%nat)%Qc.
Definition ex_X : @M QcF := fun _ j => if Nat.eqb j 1 then 1%Qc else 0%Qc.
Definition ex_ops : list (@kop QcF) := [KBuild ex_X ex_X; KEval 0; KBuild ex_X ex_X; KEval 1].
Lemma lazy_not_restoring_refuted :
  exists (kf : @M QcF -> @M QcF -> @M QcF) a ops,
    nth 1 (lazy_run kf false a [] ops) mzero 0%nat 0%nat <> nth 1 (eager_run kf a [] ops) mzero 0%nat 0%nat /\
    nth 0 (lazy_run kf false a [] ops) mzero 0%nat 0%nat = nth 0 (eager_run kf a [] ops) mzero 0%nat 0%nat.
Proof.
  exists ex_kf, (Some [1%nat]), ex_ops. split; [|reflexivity].
  vm_compute. discriminate.
Qed.
Lemma ex_lazy_ops_nonvacuous :
  length (lazy_run ex_kf true (Some [1%nat]) [] ex_ops) = 2%nat /\
  nth 1 (lazy_run ex_kf true (Some [1%nat]) [] ex_ops) mzero 0%nat 0%nat = 1%Qc.
Proof. split; reflexivity. Qed.
