(* C06 proofs about batch broadcasting (Models/C06_bcast.v). *)
From Coq Require Import ZArith List Bool Arith Lia.
From GPV Require Import Models.C06_bcast.
Import ListNotations.
Local Open Scope Z_scope.

Lemma bdim_comm a b : bdim a b = bdim b a.
Proof.
  unfold bdim. destruct (Z.eqb_spec a b) as [->|N].
  - rewrite Z.eqb_refl. reflexivity.
  - destruct (Z.eqb_spec b a) as [E|_]; [congruence|].
    destruct (Z.eqb_spec a 1) as [->|Na], (Z.eqb_spec b 1) as [->|Nb]; congruence.
Qed.

Lemma brev_nil_r a : brev a [] = Some a.
Proof. destruct a; reflexivity. Qed.

Lemma brev_comm a : forall b, brev a b = brev b a.
Proof.
  induction a as [|x a IH]; intros [|y b]; cbn [brev]; try reflexivity.
  rewrite bdim_comm, IH. reflexivity.
Qed.

(* [fits a r]: operand shape a stretches to r without changing r *)
Definition fits (a r : list Z) : Prop := brev a r = Some r.

Lemma bdim_fits x y d : bdim x y = Some d -> bdim x d = Some d /\ bdim y d = Some d.
Proof.
  unfold bdim. destruct (Z.eqb_spec x y) as [->|N].
  - intros [= <-]. rewrite Z.eqb_refl. auto.
  - destruct (Z.eqb_spec x 1) as [->|Nx].
    + intros [= <-]. rewrite Z.eqb_refl. destruct (Z.eqb_spec 1 y); [congruence|]. cbn. auto.
    + destruct (Z.eqb_spec y 1) as [->|Ny]; [|discriminate].
      intros [= <-]. rewrite Z.eqb_refl. destruct (Z.eqb_spec 1 x); [congruence|]. cbn. auto.
Qed.

Lemma fits_refl r : fits r r.
Proof.
  unfold fits. induction r as [|x r IH]; [reflexivity|]. cbn [brev]. rewrite IH.
  unfold bdim. rewrite Z.eqb_refl. reflexivity.
Qed.

(* the broadcast shape absorbs BOTH operands *)
Lemma brev_fits a : forall b r, brev a b = Some r -> fits a r /\ fits b r.
Proof.
  unfold fits. induction a as [|x a IH]; intros b r H.
  - cbn in H. injection H as <-. split; [reflexivity|apply fits_refl].
  - destruct b as [|y b].
    + cbn in H. injection H as <-. split; [apply fits_refl|reflexivity].
    + cbn [brev] in H. destruct (bdim x y) as [d|] eqn:Ed; [|discriminate].
      destruct (brev a b) as [r'|] eqn:Er; [|discriminate]. injection H as <-.
      destruct (IH _ _ Er) as [Ha Hb]. destruct (bdim_fits _ _ _ Ed) as [Dx Dy].
      cbn [brev]. rewrite Dx, Dy, Ha, Hb. auto.
Qed.

Lemma bdim_fits_inv x y : bdim x y = Some y -> x = y \/ x = 1.
Proof.
  unfold bdim. destruct (Z.eqb_spec x y); auto. destruct (Z.eqb_spec x 1); auto.
  destruct (Z.eqb_spec y 1); [|discriminate]. intros [= ->]. auto.
Qed.
Lemma bdim_fits_of x y : x = y \/ x = 1 -> bdim x y = Some y.
Proof.
  unfold bdim. intros [->| ->]; [rewrite Z.eqb_refl; reflexivity|].
  destruct (Z.eqb_spec 1 y) as [<-|_]; reflexivity.
Qed.

Lemma fits_cons_inv x a y r : fits (x :: a) (y :: r) -> (x = y \/ x = 1) /\ fits a r.
Proof.
  unfold fits. cbn [brev]. destruct (bdim x y) as [d|] eqn:Ed; [|discriminate].
  destruct (brev a r) as [r'|]; [|discriminate]. intros [= -> ->].
  split; [apply bdim_fits_inv; exact Ed|reflexivity].
Qed.

Lemma fits_length a : forall r, fits a r -> (length a <= length r)%nat.
Proof.
  induction a as [|x a IH]; intros r H; [cbn; lia|].
  destruct r as [|y r]; [unfold fits in H; cbn in H; discriminate|].
  apply fits_cons_inv in H. destruct H as [_ H]. apply IH in H. cbn. lia.
Qed.

Lemma fits_trans a : forall b r, fits a b -> fits b r -> fits a r.
Proof.
  induction a as [|x a IH]; intros b r Hab Hbr; [reflexivity|].
  destruct b as [|y b]; [unfold fits in Hab; cbn in Hab; discriminate|].
  destruct r as [|z r]; [unfold fits in Hbr; cbn in Hbr; discriminate|].
  apply fits_cons_inv in Hab. apply fits_cons_inv in Hbr.
  destruct Hab as [Dxy Hab], Hbr as [Dyz Hbr].
  unfold fits. cbn [brev]. rewrite (IH _ _ Hab Hbr).
  rewrite bdim_fits_of; [reflexivity|]. destruct Dxy as [Dxy|Dxy]; subst; auto.
Qed.

(* n-ary: the result absorbs EVERY operand, wherever it stands in the list *)
Lemma brevs_from_fits l : forall acc r,
  fold_left (fun acc s => match acc with Some r => brev r s | None => None end) l (Some acc) = Some r ->
  fits acc r /\ forall s, In s l -> fits s r.
Proof.
  induction l as [|s l IH]; intros acc r H.
  - cbn in H. injection H as <-. split; [apply fits_refl|intros s []].
  - cbn [fold_left] in H. destruct (brev acc s) as [r1|] eqn:E1.
    + destruct (IH _ _ H) as [H1 Hl]. destruct (brev_fits _ _ _ E1) as [Ha Hs].
      split; [exact (fits_trans _ _ _ Ha H1)|].
      intros s' [<-|Hin]; [exact (fits_trans _ _ _ Hs H1)|exact (Hl _ Hin)].
    + exfalso. clear -H. induction l as [|s' l IH]; cbn in H; [discriminate|auto].
Qed.

Lemma brevs_fits l r : brevs l = Some r -> forall s, In s l -> fits s r.
Proof. intros H. exact (proj2 (brevs_from_fits l [] r H)). Qed.

(* a result that absorbs an operand with n batch dimensions has at least n batch dimensions, and
   agrees with every operand dimension that is not 1 *)
Lemma fits_nth a : forall r k, fits a r -> (k < length a)%nat ->
  nth k a 1 = nth k r 1 \/ nth k a 1 = 1.
Proof.
  induction a as [|x a IH]; intros r k H Hk; [cbn in Hk; lia|].
  destruct r as [|y r]; [unfold fits in H; cbn in H; discriminate|].
  apply fits_cons_inv in H. destruct H as [D H].
  destruct k as [|k]; cbn [nth]; [exact D|]. apply IH; [exact H|cbn in Hk; lia].
Qed.

(* the element an operand is read from lies inside the operand *)
Lemma src_rev_bound s : forall r idx k, fits s r -> length idx = length r ->
  (forall j, (j < length r)%nat -> 0 <= nth j idx 0 < nth j r 1) ->
  (k < length s)%nat -> 0 < nth k s 1 ->
  0 <= nth k (src_rev s idx) 0 < nth k s 1.
Proof.
  induction s as [|d s IH]; intros r idx k H Hl Hb Hk Hpos; [cbn in Hk; lia|].
  destruct r as [|y r]; [unfold fits in H; cbn in H; discriminate|].
  destruct idx as [|i idx]; [cbn in Hl; lia|].
  apply fits_cons_inv in H. destruct H as [D H]. cbn [src_rev].
  destruct k as [|k]; cbn [nth] in *.
  - destruct (Z.eqb_spec d 1) as [->|N]; cbv iota; [clear; lia|].
    destruct D as [D|D]; [subst d|congruence]. apply (Hb 0%nat). cbn [length]. apply Nat.lt_0_succ.
  - assert (Hl' : length idx = length r) by (cbn [length] in Hl; congruence).
    assert (Hk' : (k < length s)%nat) by (cbn [length] in Hk; apply Nat.succ_lt_mono; exact Hk).
    apply (IH r idx k H Hl'); [|exact Hk'|exact Hpos].
    intros j Hj. apply (Hb (S j)). cbn [length]. apply (proj1 (Nat.succ_lt_mono _ _)). exact Hj.
Qed.

(* dropping an operand that has a batch dimension nobody else has gives a result that does NOT
   absorb it: e.g. x1 : [], kernel : [], x2 : [3] *)
Lemma ex_x2_only : brevs [[]; [3]; []] = Some [3] /\ brevs [[]; []] = Some [] /\ ~ fits [3] [].
Proof. repeat split. intros H. discriminate H. Qed.

(* ---- the same on shapes as written (not reversed) *)
Lemma bshape_comm a b : bshape a b = bshape b a.
Proof. unfold bshape. rewrite brev_comm. reflexivity. Qed.

Lemma option_map_rev_inv (o : option (list Z)) r : option_map (@rev Z) o = Some r -> o = Some (rev r).
Proof. destruct o as [x|]; cbn; [|discriminate]. intros [= <-]. rewrite rev_involutive. reflexivity. Qed.

Lemma bshapes_absorbs l r : bshapes l = Some r -> forall s, In s l -> bshape s r = Some r.
Proof.
  unfold bshapes, bshape. intros H s Hin. apply option_map_rev_inv in H.
  pose proof (brevs_fits _ _ H (rev s) (in_map _ _ _ Hin)) as F. unfold fits in F.
  rewrite F. cbn. rewrite rev_involutive. reflexivity.
Qed.

Lemma bshapes_rank l r : bshapes l = Some r -> forall s, In s l -> (length s <= length r)%nat.
Proof.
  unfold bshapes. intros H s Hin. apply option_map_rev_inv in H.
  pose proof (fits_length _ _ (brevs_fits _ _ H (rev s) (in_map _ _ _ Hin))) as L.
  rewrite !rev_length in L. exact L.
Qed.

(* dimension k counted from the RIGHT (k = 0: last batch dimension) *)
Definition rdim (s : list Z) (k : nat) : Z := nth k (rev s) 1.
Lemma bshapes_dims l r : bshapes l = Some r -> forall s k, In s l -> (k < length s)%nat ->
  rdim s k = rdim r k \/ rdim s k = 1.
Proof.
  unfold bshapes, rdim. intros H s k Hin Hk. apply option_map_rev_inv in H.
  apply fits_nth; [exact (brevs_fits _ _ H (rev s) (in_map _ _ _ Hin))|rewrite rev_length; exact Hk].
Qed.

Lemma ex_bshapes_x2_only :
  bshapes [[]; [3]; []] = Some [3] /\ bshapes [[]; []] = Some [] /\ bshape [3] [] <> Some [].
Proof. repeat split. intros H. discriminate H. Qed.
Lemma ex_bshapes_mixed : bshapes [[1]; [3; 1]; [2]] = Some [3; 2].
Proof. reflexivity. Qed.
