(* C05 proofs: the ArcKernel embedding with the constructor option delta_func (activity of a
   coordinate at a point), over the reals.  act m = 1 (active) / 0 (inactive). *)
From Coq Require Import Arith Lia List Reals Lra.
From GPV Require Import Base.LinAlg Base.Exec Base.Expr Models.C05_kernels.
Local Open Scope R_scope.

Lemma ltb_add_false d m : Nat.ltb (d + m) d = false.
Proof. apply Nat.ltb_ge. lia. Qed.
Lemma add_sub_l d m : (d + m - d)%nat = m.
Proof. lia. Qed.

(* inactive coordinate: both components of its embedding vanish (the documented [0, 0]) *)
Lemma arc_inactive d rad ang l act x m :
  (m < d)%nat -> act m = 0 ->
  @arc_embed TR d rad ang l act x m = 0 /\ @arc_embed TR d rad ang l act x (d + m) = 0.
Proof.
  intros Hm Ha. unfold arc_embed. rewrite (proj2 (Nat.ltb_lt m d) Hm), ltb_add_false, add_sub_l.
  cbv [tc tmul tdiv tsin tcos tpi TR]. rewrite Ha. split; ring.
Qed.

(* active coordinate: omega [sin(pi rho x / l), cos(pi rho x / l)] *)
Lemma arc_active d rad ang l act x m :
  (m < d)%nat -> act m = 1 ->
  @arc_embed TR d rad ang l act x m = rad m * sin (PI * ang m * (x m / l m)) /\
  @arc_embed TR d rad ang l act x (d + m) = rad m * cos (PI * ang m * (x m / l m)).
Proof.
  intros Hm Ha. unfold arc_embed. rewrite (proj2 (Nat.ltb_lt m d) Hm), ltb_add_false, add_sub_l.
  cbv [tc tmul tdiv tsin tcos tpi TR]. rewrite Ha. split; ring.
Qed.

(* contribution of coordinate m to the squared Euclidean distance of two embedded points *)
Definition arc_contrib d rad ang l (ax x ay y : nat -> R) (m : nat) : R :=
  (@arc_embed TR d rad ang l ax x m - @arc_embed TR d rad ang l ay y m) ^ 2
  + (@arc_embed TR d rad ang l ax x (d + m) - @arc_embed TR d rad ang l ay y (d + m)) ^ 2.

Lemma arc_contrib_both_inactive d rad ang l ax x ay y m :
  (m < d)%nat -> ax m = 0 -> ay m = 0 -> arc_contrib d rad ang l ax x ay y m = 0.
Proof.
  intros Hm Hx Hy. unfold arc_contrib.
  destruct (arc_inactive d rad ang l ax x m Hm Hx) as [-> ->].
  destruct (arc_inactive d rad ang l ay y m Hm Hy) as [-> ->]. ring.
Qed.

(* active in one point, inactive in the other: omega^2, whatever the coordinate values *)
Lemma arc_contrib_mixed d rad ang l ax x ay y m :
  (m < d)%nat -> ax m = 1 -> ay m = 0 -> arc_contrib d rad ang l ax x ay y m = rad m ^ 2.
Proof.
  intros Hm Hx Hy. unfold arc_contrib.
  destruct (arc_active d rad ang l ax x m Hm Hx) as [-> ->].
  destruct (arc_inactive d rad ang l ay y m Hm Hy) as [-> ->].
  set (t := PI * ang m * (x m / l m)).
  replace ((rad m * sin t - 0) ^ 2 + (rad m * cos t - 0) ^ 2)
    with (rad m ^ 2 * ((sin t)² + (cos t)²)) by (unfold Rsqr; ring).
  rewrite sin2_cos2. ring.
Qed.
Lemma arc_contrib_mixed' d rad ang l ax x ay y m :
  (m < d)%nat -> ax m = 0 -> ay m = 1 -> arc_contrib d rad ang l ax x ay y m = rad m ^ 2.
Proof.
  intros Hm Hx Hy. rewrite <- (arc_contrib_mixed d rad ang l ay y ax x m Hm Hy Hx).
  unfold arc_contrib. ring.
Qed.

Lemma arc_contrib_mixed_either d rad ang l ax x ay y m :
  (m < d)%nat -> (ax m = 1 /\ ay m = 0) \/ (ax m = 0 /\ ay m = 1) ->
  arc_contrib d rad ang l ax x ay y m = rad m ^ 2.
Proof.
  intros Hm [[H1 H2]|[H1 H2]].
  - exact (arc_contrib_mixed d rad ang l ax x ay y m Hm H1 H2).
  - exact (arc_contrib_mixed' d rad ang l ax x ay y m Hm H1 H2).
Qed.

(* both active: the chord of the circle of radius omega, 2 omega^2 (1 - cos(pi rho (x - y) / l)) *)
Lemma arc_contrib_both_active d rad ang l ax x ay y m :
  (m < d)%nat -> ax m = 1 -> ay m = 1 -> l m <> 0 ->
  arc_contrib d rad ang l ax x ay y m
  = 2 * rad m ^ 2 * (1 - cos (PI * ang m * ((x m - y m) / l m))).
Proof.
  intros Hm Hx Hy Hl. unfold arc_contrib.
  destruct (arc_active d rad ang l ax x m Hm Hx) as [-> ->].
  destruct (arc_active d rad ang l ay y m Hm Hy) as [-> ->].
  set (s := PI * ang m * (x m / l m)). set (t := PI * ang m * (y m / l m)).
  replace (PI * ang m * ((x m - y m) / l m)) with (s - t) by (unfold s, t; field; exact Hl).
  rewrite cos_minus.
  replace ((rad m * sin s - rad m * sin t) ^ 2 + (rad m * cos s - rad m * cos t) ^ 2)
    with (rad m ^ 2 * (((sin s)² + (cos s)²) + ((sin t)² + (cos t)²)
                       - 2 * (cos s * cos t + sin s * sin t))) by (unfold Rsqr; ring).
  rewrite !sin2_cos2. ring.
Qed.

(* non-vacuity: d = 1, omega = 2, x active, y inactive: contribution 4 *)
Lemma ex_arc_mixed :
  arc_contrib 1 (fun _ => 2) (fun _ => 1 / 2) (fun _ => 1) (fun _ => 1) (fun _ => 3) (fun _ => 0) (fun _ => 5) 0
  = 2 ^ 2.
Proof. apply arc_contrib_mixed; auto. Qed.
