(* C05: Newton's identities, the elementary symmetric polynomials of the model, and the
   Newton-Girard recurrence.

   Contents
     esp_is_esymR              the model's [esp] (one variable at a time) is the elementary
                               symmetric polynomial e_k, for every k and every list
     newton_identity           k e_k = sum_{i=1..k} (-1)^(i-1) e_{k-i} p_i   (all k, all lists)
     newton_girard_is_esp      the model's Newton-Girard recurrence computes e_k (all k, all lists)
     den_esp, den_newton_girard, den_newton_girard_is_esp
                               executed-model ([TE]) versions under [den]                      *)
From Coq Require Import Arith Lia List Reals Lra Bool ZArith QArith Qcanon.
From Coquelicot Require Import Coquelicot.
From GPV Require Import Base.LinAlg Base.Exec Base.Expr Models.C05_kernels Proofs.C05_kernels.
Import ListNotations. Local Open Scope R_scope.

(* ------------------------------------------------------------------ generic restatements *)
Section NGGeneric.
Context {T : TOps}.

(* the local [fix go] of [ng_step], as a top-level function *)
Fixpoint ng_go (zs : list tc) (k : nat) (sgn : bool) (l : list tc) : tc :=
  match l with
  | [] => t0
  | e :: rest => let term := tmul e (psum k zs) in
                 tadd (if sgn then tneg term else term) (ng_go zs (S k) (negb sgn) rest)
  end.

Lemma ng_step_unfold zs es :
  ng_step zs es = tdiv (ng_go zs 1 false es) (tnat (length es)).
Proof.
  unfold ng_step. f_equal. generalize 1%nat false.
  induction es as [|e es IH]; intros k b; [reflexivity|].
  cbn [ng_go]. rewrite <- IH. reflexivity.
Qed.

End NGGeneric.

(* ------------------------------------------------------------------ specification over R *)
Fixpoint esymR (zs : list R) (k : nat) : R :=
  match zs with
  | [] => match k with O => 1 | S _ => 0 end
  | z :: r => match k with O => 1 | S j => esymR r (S j) + z * esymR r j end
  end.

Lemma esymR_0 zs : esymR zs 0 = 1.
Proof. destruct zs; reflexivity. Qed.

(* finite sums  sum_{j<n} f j *)
Fixpoint Ssum (f : nat -> R) (n : nat) : R :=
  match n with O => 0 | S m => Ssum f m + f m end.

Lemma Ssum_ext f g n : (forall j, (j < n)%nat -> f j = g j) -> Ssum f n = Ssum g n.
Proof.
  induction n as [|n IH]; intros H; cbn [Ssum]; [reflexivity|].
  rewrite IH by (intros; apply H; lia). rewrite H by lia. reflexivity.
Qed.
Lemma Ssum_zero f n : (forall j, (j < n)%nat -> f j = 0) -> Ssum f n = 0.
Proof.
  induction n as [|n IH]; intros H; cbn [Ssum]; [reflexivity|].
  rewrite IH by (intros; apply H; lia). rewrite H by lia. ring.
Qed.
Lemma Ssum_plus f g n : Ssum (fun j => f j + g j) n = Ssum f n + Ssum g n.
Proof. induction n as [|n IH]; cbn [Ssum]; [ring|]. rewrite IH. ring. Qed.
Lemma Ssum_scal c f n : Ssum (fun j => c * f j) n = c * Ssum f n.
Proof. induction n as [|n IH]; cbn [Ssum]; [ring|]. rewrite IH. ring. Qed.
Lemma Ssum_shift f n : Ssum f (S n) = f 0%nat + Ssum (fun j => f (S j)) n.
Proof.
  induction n as [|n IH]; [cbn [Ssum]; ring|].
  change (Ssum f (S (S n))) with (Ssum f (S n) + f (S n)). rewrite IH. cbn [Ssum]. ring.
Qed.
Lemma Ssum_tele g n : Ssum (fun j => g j - g (S j)) n = g 0%nat - g n.
Proof. induction n as [|n IH]; cbn [Ssum]; [ring|]. rewrite IH. ring. Qed.

(* power sums *)
Lemma psum_nil i : @psum TR i [] = 0.
Proof. reflexivity. Qed.
Lemma psum_cons i z r : @psum TR i (z :: r) = z ^ i + @psum TR i r.
Proof. unfold psum. cbn [fold_right tadd TR]. rewrite tipow_pow. reflexivity. Qed.

(* ------------------------------------------------------------------ esp is e_k *)
Lemma esp_add_length z prev es : length (@esp_add TR z prev es) = length es.
Proof.
  revert prev. induction es as [|e es IH]; intros prev; cbn [esp_add length]; [reflexivity|].
  rewrite IH. reflexivity.
Qed.
Lemma esp_add_nth z es : forall prev j, (j < length es)%nat ->
  nth j (@esp_add TR z prev es) 0
  = nth j es 0 + z * match j with O => prev | S i => nth i es 0 end.
Proof.
  induction es as [|e es IH]; intros prev j Hj; cbn [length] in Hj; [lia|].
  cbn [esp_add]. destruct j as [|j].
  - reflexivity.
  - cbn [nth]. rewrite IH by lia. destruct j; reflexivity.
Qed.

Lemma nth_repeat0 (n k : nat) : nth k (repeat 0 n) 0 = 0.
Proof. revert k. induction n as [|n IH]; intros [|k]; cbn [repeat nth]; auto. Qed.

Lemma esp_list_spec kmax : forall zs : list R,
  length (@esp_list TR kmax zs) = S kmax /\
  forall k, (k <= kmax)%nat -> nth k (@esp_list TR kmax zs) 0 = esymR zs k.
Proof.
  induction zs as [|z r [IHl IHn]].
  - cbn [esp_list]. split.
    + cbn [length]. rewrite repeat_length. reflexivity.
    + intros [|k] Hk; cbn [nth esymR]; [reflexivity|]. apply nth_repeat0.
  - cbn [esp_list]. destruct (@esp_list TR kmax r) as [|e0 tl]; [discriminate IHl|].
    cbn [length] in IHl. split.
    + cbn [length]. rewrite esp_add_length. exact IHl.
    + intros [|k] Hk.
      * cbn [nth esymR]. rewrite <- (esymR_0 r). exact (IHn 0%nat (Nat.le_0_l _)).
      * cbn [nth esymR]. rewrite esp_add_nth by lia.
        rewrite <- (IHn (S k) Hk). rewrite <- (IHn k) by lia.
        cbn [nth]. destruct k; reflexivity.
Qed.

Theorem esp_is_esymR (k : nat) (zs : list R) : @esp TR k zs = esymR zs k.
Proof. unfold esp. apply (proj2 (esp_list_spec k zs)). apply Nat.le_refl. Qed.

(* ------------------------------------------------------------------ Newton's identities *)
Theorem newton_identity : forall (zs : list R) (k : nat),
  INR k * esymR zs k
  = Ssum (fun j => (-1) ^ j * esymR zs (k - S j) * @psum TR (S j) zs) k.
Proof.
  induction zs as [|z r IH]; intros k.
  - rewrite Ssum_zero.
    + destruct k; cbn [esymR INR]; ring.
    + intros j _. rewrite psum_nil. ring.
  - destruct k as [|m]; [cbn [Ssum INR]; ring|].
    set (A := fun j => (-1) ^ j * esymR r (m - j) * @psum TR (S j) r).
    set (B := fun j => (-1) ^ j * esymR r (m - S j) * @psum TR (S j) r).
    set (G := fun j => (-1) ^ j * z ^ (S j) * esymR r (m - j)).
    assert (H1 : INR (S m) * esymR r (S m) = Ssum A m + (-1) ^ m * @psum TR (S m) r).
    { rewrite (IH (S m)). cbn [Ssum]. f_equal.
      replace (S m - S m)%nat with 0%nat by lia. rewrite esymR_0. ring. }
    assert (H2 : INR m * esymR r m = Ssum B m) by exact (IH m).
    assert (H3 : z * esymR r m = Ssum (fun j => G j - G (S j)) m + (-1) ^ m * z ^ (S m)).
    { rewrite Ssum_tele. unfold G. rewrite Nat.sub_0_r, Nat.sub_diag, esymR_0. cbn [pow]. ring. }
    transitivity (Ssum (fun j => A j + (z * B j + (G j - G (S j)))) m
                  + ((-1) ^ m * @psum TR (S m) r + (-1) ^ m * z ^ (S m))).
    + rewrite !Ssum_plus, Ssum_scal. rewrite <- H2.
      replace (Ssum A m) with (INR (S m) * esymR r (S m) - (-1) ^ m * @psum TR (S m) r)
        by (rewrite H1; ring).
      replace (Ssum (fun j => G j - G (S j)) m) with (z * esymR r m - (-1) ^ m * z ^ (S m))
        by (rewrite H3; ring).
      cbn [esymR]. rewrite S_INR. ring.
    + cbn [Ssum]. f_equal.
      * apply Ssum_ext. intros j Hj. unfold A, B, G. rewrite psum_cons.
        assert (E1 : (S m - S j = S (m - S j))%nat) by lia.
        assert (E2 : (m - j = S (m - S j))%nat) by lia.
        rewrite E1, E2. cbn [esymR pow]. ring.
      * rewrite psum_cons. replace (S m - S m)%nat with 0%nat by lia.
        rewrite esymR_0. ring.
Qed.

(* ------------------------------------------------------------------ the recurrence *)
Fixpoint desc (f : nat -> R) (n : nat) : list R :=      (* [f (n-1); ...; f 0] *)
  match n with O => [] | S m => f m :: desc f m end.
Lemma desc_length f n : length (desc f n) = n.
Proof. induction n as [|n IH]; cbn [desc length]; [reflexivity|]. rewrite IH. reflexivity. Qed.

Definition sgb (b : bool) : R := if b then -1 else 1.

Lemma ng_go_desc (zs : list R) f : forall n k b,
  @ng_go TR zs k b (desc f n)
  = Ssum (fun j => sgb b * (-1) ^ j * f (n - S j)%nat * @psum TR (k + j) zs) n.
Proof.
  induction n as [|n IH]; intros k b; [reflexivity|].
  rewrite Ssum_shift. cbn [desc ng_go]. rewrite IH. cbn [tadd tmul tneg TR]. f_equal.
  - replace (S n - 1)%nat with n by lia. rewrite Nat.add_0_r.
    destruct b; cbn [sgb pow]; change (@tc TR) with R; ring.
  - apply Ssum_ext. intros j Hj.
    replace (k + S j)%nat with (S k + j)%nat by lia.
    replace (S n - S (S j))%nat with (n - S j)%nat by lia.
    destruct b; cbn [sgb negb pow]; change (@tc TR) with R; ring.
Qed.

Lemma ng_go_esym (zs : list R) n :
  @ng_go TR zs 1 false (desc (esymR zs) n) = INR n * esymR zs n.
Proof.
  rewrite ng_go_desc, newton_identity. apply Ssum_ext. intros j _.
  cbn [sgb Nat.add]. ring.
Qed.

Lemma ng_list_desc (zs : list R) : forall deg,
  @ng_list TR deg zs = desc (esymR zs) (S deg).
Proof.
  induction deg as [|deg IH].
  - cbn [ng_list desc]. rewrite esymR_0. reflexivity.
  - cbn [ng_list]. rewrite IH.
    change (desc (esymR zs) (S (S deg))) with (esymR zs (S deg) :: desc (esymR zs) (S deg)).
    f_equal. rewrite ng_step_unfold, ng_go_esym, desc_length, (tnat_INR (S deg)).
    cbn [tdiv TR]. change (@tc TR) with R. field. apply not_0_INR. lia.
Qed.

(* the Newton-Girard recurrence computes the elementary symmetric polynomial *)
Theorem newton_girard_is_esp : forall (k : nat) (zs : list R),
  @newton_girard TR k zs = @esp TR k zs.
Proof.
  intros k zs. unfold newton_girard. rewrite ng_list_desc, esp_is_esymR. reflexivity.
Qed.

(* non-vacuity *)
Example ex_esp_3 : @esp TR 2 [1; 2; 3] = 11.
Proof. rewrite esp_is_esymR. cbn [esymR]. change (@tc TR) with R. ring. Qed.
Example ex_newton_girard_3 : @newton_girard TR 2 [1; 2; 3] = 11.
Proof. rewrite newton_girard_is_esp. exact ex_esp_3. Qed.
Example ex_newton_girard_3_direct : @newton_girard TR 2 [1; 2; 3] = 11.
Proof.
  cbv [newton_girard ng_list ng_step hd length psum fold_right tipow tnat
       Nat.add negb tadd tmul tdiv tneg t0 t1 TR].
  match goal with |- @eq _ ?a ?b => change (@eq R a b) end. field.
Qed.

(* ------------------------------------------------------------------ executed model (TE) *)
Section DenNG.

Lemma den_t0 : den (@t0 TE) = 0.
Proof. exact Q2R'_0. Qed.
Lemma den_t1 : den (@t1 TE) = 1.
Proof. exact Q2R'_1. Qed.

Lemma den_esp_add z : forall es prev,
  map den (@esp_add TE z prev es) = @esp_add TR (den z) (den prev) (map den es).
Proof.
  induction es as [|e es IH]; intros prev; cbn [esp_add map]; [reflexivity|].
  rewrite IH. cbn [tadd tmul TE TR]. rewrite den_sadd, den_smul. reflexivity.
Qed.

Lemma map_den_repeat0 n : map den (repeat (@t0 TE) n) = repeat 0 n.
Proof. induction n as [|n IH]; cbn [repeat map]; [reflexivity|]. rewrite IH, den_t0. reflexivity. Qed.

Lemma den_esp_list kmax : forall zs,
  map den (@esp_list TE kmax zs) = @esp_list TR kmax (map den zs).
Proof.
  induction zs as [|z r IH]; cbn [esp_list map].
  - rewrite map_den_repeat0, den_t1. reflexivity.
  - rewrite <- IH. destruct (@esp_list TE kmax r) as [|e0 tl]; cbn [map]; [reflexivity|].
    rewrite den_esp_add. reflexivity.
Qed.

Lemma den_esp k zs : den (@esp TE k zs) = @esp TR k (map den zs).
Proof.
  unfold esp. rewrite <- den_esp_list. change (@t0 TR) with 0. rewrite <- den_t0.
  rewrite map_nth. reflexivity.
Qed.

(* what the NewtonGirardAdditiveKernel model term means: e_k of the denotations *)
Theorem den_esp_is_esymR k zs : den (@esp TE k zs) = esymR (map den zs) k.
Proof. rewrite den_esp. apply esp_is_esymR. Qed.

Lemma den_psum k zs : den (@psum TE k zs) = @psum TR k (map den zs).
Proof.
  induction zs as [|z r IH]; [exact den_t0|].
  change (@psum TE k (z :: r)) with (sadd (@tipow TE z k) (@psum TE k r)).
  cbn [map]. rewrite psum_cons, <- tipow_pow, den_sadd, den_tipow, IH. reflexivity.
Qed.

Lemma den_ng_go zs : forall l k b,
  den (@ng_go TE zs k b l) = @ng_go TR (map den zs) k b (map den l).
Proof.
  induction l as [|e l IH]; intros k b; cbn [ng_go map]; [exact den_t0|].
  cbn [tadd tmul tneg TE TR]. rewrite den_sadd, IH.
  destruct b; rewrite ?den_sneg, den_smul, den_psum; reflexivity.
Qed.

Lemma den_ng_step zs es :
  den (@ng_step TE zs es) = @ng_step TR (map den zs) (map den es).
Proof.
  rewrite !ng_step_unfold. cbn [tdiv TE TR]. rewrite den_sdiv, den_ng_go, den_tnat, map_length.
  reflexivity.
Qed.

Lemma den_ng_list zs : forall deg,
  map den (@ng_list TE deg zs) = @ng_list TR deg (map den zs).
Proof.
  induction deg as [|deg IH]; cbn [ng_list map]; [rewrite den_t1; reflexivity|].
  rewrite den_ng_step, IH. reflexivity.
Qed.

Lemma den_hd (l : list expr) : den (hd (@t0 TE) l) = hd 0 (map den l).
Proof. destruct l; [exact den_t0|reflexivity]. Qed.

Lemma den_newton_girard k zs :
  den (@newton_girard TE k zs) = @newton_girard TR k (map den zs).
Proof. unfold newton_girard. rewrite den_hd, den_ng_list. reflexivity. Qed.

(* executed-model version: the Newton-Girard recurrence and the one-variable-at-a-time
   computation denote the same real number, for every degree and every list of terms *)
Theorem den_newton_girard_is_esp : forall (k : nat) (zs : list expr),
  den (@newton_girard TE k zs) = den (@esp TE k zs).
Proof.
  intros k zs. rewrite den_newton_girard, den_esp. apply newton_girard_is_esp.
Qed.

End DenNG.
