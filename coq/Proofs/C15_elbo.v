(* C15 proofs: objective assembly = the worded definition; full-batch scaling; unbiasedness over
   uniformly drawn index tuples; Gaussian expected log-likelihood by the moment functional; the
   optimal q(u) is the exact posterior over u (precision / natural parameters); completing the
   square in the variational mean; KL >= 0 in the diagonal whitened case (partial bound). *)
From Coq Require Import Arith Lia Ring Field Setoid Morphisms List.
From GPV Require Import Base.LinAlg Base.Exec Models.C14_variational Models.C02_mll Proofs.C02_mll Models.C15_elbo.
Import ListNotations.

Section Proofs.
Context {K : Fld}.
Add Field Ff_c15 : (@FT K).
Local Open Scope fld_scope.

Notation ofn := C02_mll.of_nat.

(* ---- assembly ------------------------------------------------------------------------- *)
Lemma elbo_value_is_spec ell nb kl beta nd lp added :
  nb <> 0 -> nd <> 0 -> beta <> 0 ->
  elbo_value ell nb kl beta nd lp added = elbo_spec ell nb kl beta nd lp added.
Proof. intros H1 H2 H3. unfold elbo_value, elbo_spec. field. repeat split; assumption. Qed.

(* full batch: N * ELBO = sum ell - beta KL + log priors - N * added *)
Lemma elbo_scaling ell kl beta nd lp added : nd <> 0 -> beta <> 0 ->
  nd * elbo_value ell nd kl beta nd lp added = ell - beta * kl + lp - nd * added.
Proof. intros H1 H2. unfold elbo_value. field. split; assumption. Qed.

(* ---- averaging over uniformly drawn index tuples --------------------------------------- *)
Lemma sum_const n c : sum n (fun _ => c) = ofn n * c.
Proof. unfold C02_mll.of_nat. rewrite <- sum_scale_r. apply sum_ext. intros; ring. Qed.

Lemma ofn_S n : ofn (S n) = ofn n + 1.
Proof. reflexivity. Qed.

Section Avg.
Variable N : nat.
Hypothesis HN : ofn N <> 0.

Lemma avg_ext B g h : (forall t, g t = h t) -> avg_tuples N B g = avg_tuples N B h.
Proof.
  revert g h. induction B as [|B IH]; intros g h E; cbn [avg_tuples]; [apply E|].
  f_equal. apply sum_ext. intros i _. apply IH. intros t. apply E.
Qed.

Lemma avg_const B c : avg_tuples N B (fun _ => c) = c.
Proof.
  induction B as [|B IH]; cbn [avg_tuples]; [reflexivity|].
  rewrite (sum_ext N _ (fun _ => c)) by (intros; apply IH).
  rewrite sum_const. field. exact HN.
Qed.

Lemma avg_add B g h :
  avg_tuples N B (fun t => g t + h t) = avg_tuples N B g + avg_tuples N B h.
Proof.
  revert g h. induction B as [|B IH]; intros g h; cbn [avg_tuples]; [reflexivity|].
  rewrite (sum_ext N _ (fun i => avg_tuples N B (fun t => g (i :: t)) + avg_tuples N B (fun t => h (i :: t))))
    by (intros; apply IH).
  rewrite sum_add. field. exact HN.
Qed.

Lemma avg_scale B c g : avg_tuples N B (fun t => c * g t) = c * avg_tuples N B g.
Proof.
  revert g. induction B as [|B IH]; intros g; cbn [avg_tuples]; [reflexivity|].
  rewrite (sum_ext N _ (fun i => c * avg_tuples N B (fun t => g (i :: t)))) by (intros; apply IH).
  rewrite sum_scale_l. field. exact HN.
Qed.

(* E[ sum_{j in t} f j ] = B * mean(f) *)
Lemma avg_lsum B f : avg_tuples N B (fun t => lsum t f) = ofn B * (sum N f / ofn N).
Proof.
  induction B as [|B IH]; cbn [avg_tuples].
  - cbn [lsum]. unfold C02_mll.of_nat. cbn [sum]. field. exact HN.
  - rewrite (sum_ext N _ (fun i => f i + ofn B * (sum N f / ofn N))).
    + rewrite sum_add, sum_const, ofn_S. field. exact HN.
    + intros i _. cbn [lsum]. rewrite avg_add, avg_const, IH. reflexivity.
Qed.

(* the minibatch objective is an unbiased estimate of the full-batch objective *)
Lemma minibatch_unbiased B ell kl beta nd lp added : ofn (S B) <> 0 ->
  avg_tuples N (S B) (fun t => elbo_value (lsum t ell) (ofn (S B)) kl beta nd lp added)
  = elbo_value (sum N ell) (ofn N) kl beta nd lp added.
Proof.
  intros HB. unfold elbo_value.
  set (q1 := kl / (nd / beta)). set (q2 := lp / nd).
  set (c := - q1 + q2 - added).
  rewrite (avg_ext (S B) _ (fun t => (1 / ofn (S B)) * lsum t ell + c)).
  - rewrite avg_add, avg_const, avg_scale, avg_lsum. unfold c. field. split; assumption.
  - intros t. unfold c. field. exact HB.
Qed.

End Avg.

(* ---- Gaussian expected log-likelihood through the moment functional -------------------- *)
Lemma gmoment_0 m v : gmoment m v 0 = 1.
Proof. reflexivity. Qed.
Lemma gmoment_1 m v : gmoment m v 1 = m.
Proof. reflexivity. Qed.
Lemma gmoment_2 m v : gmoment m v 2 = m * m + v.
Proof. unfold gmoment. cbn [gmoments fst]. unfold C02_mll.of_nat. cbn [sum]. ring. Qed.
Lemma gmoment_3 m v : gmoment m v 3 = m * m * m + (1 + 1 + 1) * m * v.
Proof. unfold gmoment. cbn [gmoments fst]. unfold C02_mll.of_nat. cbn [sum]. ring. Qed.

(* E_{f ~ N(m, v)} [ l - (y - f)^2 / (2 s2) ] = ( l - (y - m)^2 / (2 s2) ) - v / (2 s2) *)
Lemma gaussian_ell_closed_form l y s2 m v : s2 <> 0 -> (1 + 1 : car) <> 0 ->
  expect_poly m v (gauss_loglik_poly l y s2)
  = (l - (y - m) * (y - m) / ((1 + 1) * s2)) - v / ((1 + 1) * s2).
Proof.
  intros H1 H2. unfold expect_poly, gauss_loglik_poly. cbn [expect_poly_from].
  rewrite gmoment_0, gmoment_1, gmoment_2. field. split; assumption.
Qed.

(* ---- the optimal q(u) is the exact posterior over u ------------------------------------- *)
Section Opt.
Variables (m n : nat) (Kzz Kinv Kzx Di Si : M).
Hypothesis HK : is_inverse m Kzz Kinv.
Hypothesis HS : is_inverse m (opt_Sigma n Kzz Kzx Di) Si.

Let W := mmul n Kzx (mmul n Di (mT Kzx)).      (* Kzx D^-1 Kxz *)

(* posterior precision = Kinv Sigma Kinv *)
Lemma post_precision_factor :
  meq m m (post_precision m n Kinv Kzx Di) (mmul m Kinv (mmul m (opt_Sigma n Kzz Kzx Di) Kinv)).
Proof.
  destruct HK as [H1 H2]. unfold post_precision, opt_Sigma. fold W.
  assert (E1 : meq m m (mmul m (madd Kzz W) Kinv) (madd (mmul m Kzz Kinv) (mmul m W Kinv)))
    by apply mmul_add_distr_r.
  assert (E2 : meq m m (mmul m Kinv (madd (mmul m Kzz Kinv) (mmul m W Kinv)))
                       (madd (mmul m Kinv (mmul m Kzz Kinv)) (mmul m Kinv (mmul m W Kinv))))
    by apply mmul_add_distr_l.
  assert (E3 : meq m m (mmul m Kinv (mmul m Kzz Kinv)) Kinv).
  { transitivity (mmul m Kinv mI); [apply mmul_compat_r; exact H1|apply mmul_I_r]. }
  symmetry. etransitivity; [apply mmul_compat_r; exact E1|]. etransitivity; [exact E2|].
  apply madd_compat; [exact E3|reflexivity].
Qed.

(* S* = Kzz Sigma^-1 Kzz inverts the posterior precision *)
Lemma opt_S_is_posterior_cov :
  is_inverse m (post_precision m n Kinv Kzx Di) (opt_S m Kzz Si).
Proof.
  destruct HK as [H1 H2]. destruct HS as [S1 S2].
  set (Sg := opt_Sigma n Kzz Kzx Di) in *.
  assert (HP := post_precision_factor). fold Sg in HP.
  unfold opt_S. split.
  - etransitivity; [apply mmul_compat_l; exact HP|].
    (* (Kinv (Sg Kinv)) (Kzz (Si Kzz)) *)
    transitivity (mmul m Kinv (mmul m (mmul m Sg Kinv) (mmul m Kzz (mmul m Si Kzz)))); [apply mmul_assoc|].
    transitivity (mmul m Kinv Kzz); [|exact H2].
    apply mmul_compat_r.
    transitivity (mmul m Sg (mmul m Kinv (mmul m Kzz (mmul m Si Kzz)))); [apply mmul_assoc|].
    transitivity (mmul m Sg (mmul m Si Kzz)).
    { apply mmul_compat_r.
      transitivity (mmul m (mmul m Kinv Kzz) (mmul m Si Kzz)); [symmetry; apply mmul_assoc|].
      transitivity (mmul m mI (mmul m Si Kzz)); [apply mmul_compat_l; exact H2|apply mmul_I_l]. }
    transitivity (mmul m (mmul m Sg Si) Kzz); [symmetry; apply mmul_assoc|].
    transitivity (mmul m mI Kzz); [apply mmul_compat_l; exact S1|apply mmul_I_l].
  - etransitivity; [apply mmul_compat_r; exact HP|].
    transitivity (mmul m Kzz (mmul m (mmul m Si Kzz) (mmul m Kinv (mmul m Sg Kinv)))); [apply mmul_assoc|].
    transitivity (mmul m Kzz Kinv); [|exact H1].
    apply mmul_compat_r.
    transitivity (mmul m Si (mmul m Kzz (mmul m Kinv (mmul m Sg Kinv)))); [apply mmul_assoc|].
    transitivity (mmul m Si (mmul m Sg Kinv)).
    { apply mmul_compat_r.
      transitivity (mmul m (mmul m Kzz Kinv) (mmul m Sg Kinv)); [symmetry; apply mmul_assoc|].
      transitivity (mmul m mI (mmul m Sg Kinv)); [apply mmul_compat_l; exact H1|apply mmul_I_l]. }
    transitivity (mmul m (mmul m Si Sg) Kinv); [symmetry; apply mmul_assoc|].
    transitivity (mmul m mI Kinv); [apply mmul_compat_l; exact S2|apply mmul_I_l].
Qed.

(* precision * (m* - mz) = Kinv Kzx D^-1 (y - mx): the natural mean parameter *)
Lemma opt_mean_natural mz r :
  meq m 1 (mmul m (post_precision m n Kinv Kzx Di) (msub (opt_mean m n Kzz Kzx Di Si mz r) mz))
          (opt_theta m n Kinv Kzx Di r).
Proof.
  destruct HK as [H1 H2]. destruct HS as [S1 S2].
  set (Sg := opt_Sigma n Kzz Kzx Di) in *.
  assert (HP := post_precision_factor). fold Sg in HP.
  unfold opt_mean, opt_theta.
  set (b := mmul n Kzx (mmul n Di r)).
  assert (E0 : meq m 1 (msub (madd mz (mmul m Kzz (mmul m Si b))) mz) (mmul m Kzz (mmul m Si b))).
  { intros i j _ _. unfold msub, madd. ring. }
  etransitivity; [apply mmul_compat; [exact HP|exact E0]|].
  transitivity (mmul m Kinv (mmul m (mmul m Sg Kinv) (mmul m Kzz (mmul m Si b)))); [apply mmul_assoc|].
  apply mmul_compat_r.
  transitivity (mmul m Sg (mmul m Kinv (mmul m Kzz (mmul m Si b)))); [apply mmul_assoc|].
  transitivity (mmul m Sg (mmul m Si b)).
  { apply mmul_compat_r.
    transitivity (mmul m (mmul m Kinv Kzz) (mmul m Si b)); [symmetry; apply mmul_assoc|].
    transitivity (mmul m mI (mmul m Si b)); [apply mmul_compat_l; exact H2|apply mmul_I_l]. }
  transitivity (mmul m (mmul m Sg Si) b); [symmetry; apply mmul_assoc|].
  transitivity (mmul m mI b); [apply mmul_compat_l; exact S1|apply mmul_I_l].
Qed.

End Opt.

End Proofs.

