From Coq Require Import Arith Lia Ring Field Setoid Morphisms List QArith Qcanon.
Import ListNotations.
From GPV Require Import Base.LinAlg Base.Exec Models.C14_variational.

Section Proofs.
Context {K : Fld}.
Add Field Ff_c14 : (@FT K).
Local Open Scope fld_scope.

(* ------------------------------------------------------------------ general lemmas
   (candidates for Base/LinAlg.v) *)

Lemma trace_compat n A B : meq n n A B -> trace n A = trace n B.
Proof. intros H. unfold trace. apply sum_ext. intros i Hi. apply H; assumption. Qed.

Lemma trace_mmul_comm n m A B : trace n (mmul m A B) = trace m (mmul n B A).
Proof.
  unfold trace, mmul. rewrite sum_swap. apply sum_ext. intros j _.
  apply sum_ext. intros i _. ring.
Qed.

Lemma trace_mI n : trace n mI = sum n (fun _ => 1).
Proof.
  unfold trace, mI. apply sum_ext. intros i _. rewrite Nat.eqb_refl. reflexivity.
Qed.

Lemma is_inverse_compat n A A' Ai Ai' :
  meq n n A A' -> meq n n Ai Ai' -> is_inverse n A Ai -> is_inverse n A' Ai'.
Proof.
  intros HA HAi [H1 H2]. split.
  - rewrite <- HA, <- HAi. exact H1.
  - rewrite <- HA, <- HAi. exact H2.
Qed.

(* if L L^T = A and Li inverts L then Li^T Li inverts A *)
Lemma root_inverse m L Linv A :
  meq m m (mmul m L (mT L)) A -> is_inverse m L Linv ->
  is_inverse m A (mmul m (mT Linv) Linv).
Proof.
  intros HL [H1 H2]. split.
  - rewrite <- HL.
    rewrite (mmul_assoc m m m m L (mT L)).
    rewrite <- (mmul_assoc m m m m (mT L) (mT Linv) Linv).
    rewrite <- (mT_mmul m m m Linv L).
    rewrite H2. rewrite (mT_mI m m). rewrite (mmul_I_l m m Linv). exact H1.
  - rewrite <- HL.
    rewrite (mmul_assoc m m m m (mT Linv) Linv).
    rewrite <- (mmul_assoc m m m m Linv L (mT L)).
    rewrite H2. rewrite (mmul_I_l m m). rewrite <- (mT_mmul m m m L Linv). rewrite H1.
    apply mT_mI.
Qed.

(* if T^T T = P (a "transposed" root) and Ti inverts T then Ti Ti^T inverts P *)
Lemma root_inverse_T m T Ti :
  is_inverse m T Ti -> is_inverse m (mmul m (mT T) T) (mmul m Ti (mT Ti)).
Proof.
  intros [H1 H2]. split.
  - rewrite (mmul_assoc m m m m (mT T) T).
    rewrite <- (mmul_assoc m m m m T Ti (mT Ti)).
    rewrite H1. rewrite (mmul_I_l m m). rewrite <- (mT_mmul m m m Ti T). rewrite H2.
    apply mT_mI.
  - rewrite (mmul_assoc m m m m Ti (mT Ti)).
    rewrite <- (mmul_assoc m m m m (mT Ti) (mT T) T).
    rewrite <- (mT_mmul m m m T Ti). rewrite H1. rewrite (mT_mI m m).
    rewrite (mmul_I_l m m). exact H2.
Qed.

(* ------------------------------------------------------------------ unwhitened *)

(* the code's eval-mode covariance (root of S stacked under the mean difference, one solve)
   is the closed form of the property, for ANY root R of S, all sizes *)
Lemma unwh_code_eq_closed m n r Kzz Kzx Kxx Kinv R S :
  symmetric m Kzz -> is_inverse m Kzz Kinv -> meq m m (mmul r R (mT R)) S ->
  meq n n (unwh_cov_code m r Kzx Kxx Kinv R) (unwh_cov m Kzz Kzx Kxx Kinv S).
Proof.
  intros Hsym HI HR.
  assert (HKs : symmetric m Kinv) by (apply (inverse_symmetric m Kzz); assumption).
  unfold symmetric in HKs.
  destruct HI as [HI1 HI2].
  unfold unwh_cov_code, unwh_cov.
  set (B := mT Kzx). set (P := mmul m Kinv Kzx).
  (* Q Q^T = B Kinv S P *)
  assert (E1 : meq n n (mmul r (mT (mmul m (mT R) P)) (mT (mT (mmul m (mT R) P))))
                       (mmul m B (mmul m Kinv (mmul m S P)))).
  { rewrite (mT_mT r n (mmul m (mT R) P)).
    rewrite (mT_mmul n r m (mT R) P). rewrite (mT_mT m r R).
    rewrite (mmul_assoc n n m r (mT P) R).
    rewrite <- (mmul_assoc m n r m R (mT R) P). rewrite HR.
    unfold P at 1. rewrite (mT_mmul n m m Kinv Kzx). fold B.
    rewrite <- HKs. apply mmul_assoc. }
  (* B Kinv (Kzz - S) P = B P - B Kinv S P *)
  assert (E2 : meq n n (mmul m B (mmul m Kinv (mmul m (msub Kzz S) P)))
                       (msub (mmul m B P) (mmul m B (mmul m Kinv (mmul m S P))))).
  { rewrite (mmul_sub_distr_r m n m Kzz S P).
    rewrite (mmul_sub_distr_l m n m Kinv).
    rewrite (mmul_sub_distr_l n n m B).
    apply msub_compat; [|reflexivity].
    apply mmul_compat_r.
    rewrite <- (mmul_assoc m n m m Kinv Kzz P). rewrite HI2. apply mmul_I_l. }
  assert (E3 : meq n n (mmul m (mopp B) P) (mopp (mmul m B P))) by apply mmul_opp_l.
  transitivity (madd (mmul m B (mmul m Kinv (mmul m S P))) (madd Kxx (mopp (mmul m B P)))).
  { apply madd_compat; [exact E1|apply madd_compat; [reflexivity|exact E3]]. }
  transitivity (msub Kxx (msub (mmul m B P) (mmul m B (mmul m Kinv (mmul m S P))))).
  2:{ apply msub_compat; [reflexivity|symmetry; exact E2]. }
  intros i j _ _. unfold madd, msub, mopp. ring.
Qed.

(* ------------------------------------------------------------------ whitened = unwhitened *)

Section Whiten.
Variables (m n : nat) (Kzz Kzx Kxx Kinv L Linv : M).
Hypothesis HL : meq m m (mmul m L (mT L)) Kzz.
Hypothesis HLi : is_inverse m L Linv.
Hypothesis HK : is_inverse m Kzz Kinv.

Lemma Kinv_is_LiT_Li : meq m m Kinv (mmul m (mT Linv) Linv).
Proof. apply (inverse_unique m Kzz); [exact HK|]. apply (root_inverse m L); assumption. Qed.

Lemma Kinv_L : meq m m (mmul m Kinv L) (mT Linv).
Proof.
  rewrite Kinv_is_LiT_Li. rewrite (mmul_assoc m m m m (mT Linv) Linv L).
  destruct HLi as [_ H2]. rewrite H2. apply mmul_I_r.
Qed.

Lemma LT_Kinv : meq m m (mmul m (mT L) Kinv) Linv.
Proof.
  rewrite Kinv_is_LiT_Li. rewrite <- (mmul_assoc m m m m (mT L) (mT Linv) Linv).
  rewrite <- (mT_mmul m m m Linv L). destruct HLi as [_ H2]. rewrite H2.
  rewrite (mT_mI m m). apply mmul_I_l.
Qed.

Lemma whitened_mean_eq mx mz mw :
  meq n 1 (wh_mean m (interp m Linv Kzx) mx mw)
          (unwh_mean m Kzx Kinv mx mz (unwhiten_mean m L mz mw)).
Proof.
  unfold wh_mean, unwh_mean, unwhiten_mean, interp.
  apply madd_compat; [reflexivity|].
  assert (E0 : meq m 1 (msub (madd mz (mmul m L mw)) mz) (mmul m L mw)).
  { intros i j _ _. unfold msub, madd. ring. }
  rewrite E0.
  rewrite <- (mmul_assoc m 1 m m Kinv L mw). rewrite Kinv_L.
  rewrite (mT_mmul n m m Linv Kzx). apply mmul_assoc.
Qed.

Lemma whitened_cov_eq Sw :
  meq n n (wh_cov m (interp m Linv Kzx) Kxx Sw)
          (unwh_cov m Kzz Kzx Kxx Kinv (unwhiten_cov m L Sw)).
Proof.
  unfold wh_cov, unwh_cov, unwhiten_cov, interp.
  set (A := mmul m Linv Kzx). set (X := mmul m Kinv Kzx).
  destruct HK as [HK1 HK2].
  (* T1: Kinv (Kzz X) = Linv^T A *)
  assert (T1 : meq m n (mmul m Kinv (mmul m Kzz X)) (mmul m (mT Linv) A)).
  { rewrite <- (mmul_assoc m n m m Kinv Kzz X). rewrite HK2. rewrite (mmul_I_l m n X).
    unfold X, A. rewrite Kinv_is_LiT_Li. apply mmul_assoc. }
  (* T2: Kinv (S X) = Linv^T (Sw A) with S = L Sw L^T *)
  assert (T2 : meq m n (mmul m Kinv (mmul m (mmul m L (mmul m Sw (mT L))) X))
                       (mmul m (mT Linv) (mmul m Sw A))).
  { rewrite (mmul_assoc m n m m L (mmul m Sw (mT L)) X).
    rewrite <- (mmul_assoc m n m m Kinv L). rewrite Kinv_L.
    apply mmul_compat_r.
    rewrite (mmul_assoc m n m m Sw (mT L) X). apply mmul_compat_r.
    unfold X, A. rewrite <- (mmul_assoc m n m m (mT L) Kinv Kzx). rewrite LT_Kinv. reflexivity. }
  assert (T3 : meq m n (mmul m Kinv (mmul m (msub Kzz (mmul m L (mmul m Sw (mT L)))) X))
                       (msub (mmul m (mT Linv) A) (mmul m (mT Linv) (mmul m Sw A)))).
  { rewrite (mmul_sub_distr_r m n m Kzz _ X). rewrite (mmul_sub_distr_l m n m Kinv).
    rewrite T1, T2. reflexivity. }
  assert (T4 : meq m n (mmul m (msub Sw mI) A) (msub (mmul m Sw A) A)).
  { rewrite (mmul_sub_distr_r m n m Sw mI A). rewrite (mmul_I_l m n A). reflexivity. }
  rewrite T3, T4.
  assert (TA : meq n m (mT A) (mmul m (mT Kzx) (mT Linv))) by (unfold A; apply mT_mmul).
  rewrite TA.
  assert (U1 : meq n n (mmul m (mmul m (mT Kzx) (mT Linv)) (msub (mmul m Sw A) A))
      (msub (mmul m (mT Kzx) (mmul m (mT Linv) (mmul m Sw A)))
            (mmul m (mT Kzx) (mmul m (mT Linv) A)))).
  { rewrite (mmul_assoc n n m m (mT Kzx) (mT Linv)).
    rewrite (mmul_sub_distr_l m n m (mT Linv)). apply mmul_sub_distr_l. }
  assert (U2 : meq n n (mmul m (mT Kzx) (msub (mmul m (mT Linv) A) (mmul m (mT Linv) (mmul m Sw A))))
      (msub (mmul m (mT Kzx) (mmul m (mT Linv) A))
            (mmul m (mT Kzx) (mmul m (mT Linv) (mmul m Sw A))))) by apply mmul_sub_distr_l.
  transitivity (madd Kxx (msub (mmul m (mT Kzx) (mmul m (mT Linv) (mmul m Sw A)))
                               (mmul m (mT Kzx) (mmul m (mT Linv) A)))).
  { apply madd_compat; [reflexivity|exact U1]. }
  transitivity (msub Kxx (msub (mmul m (mT Kzx) (mmul m (mT Linv) A))
                               (mmul m (mT Kzx) (mmul m (mT Linv) (mmul m Sw A))))).
  2:{ apply msub_compat; [reflexivity|symmetry; exact U2]. }
  intros i j _ _. unfold madd, msub. ring.
Qed.

(* the rational part of KL(q(u)||p(u)) is the same in both parametrisations *)
Lemma kl_alg_whitened_eq mz mw Sw :
  kl_wh_alg m Sw mw =
  kl_unwh_alg m Kinv (unwhiten_cov m L Sw) (unwhiten_mean m L mz mw) mz.
Proof.
  unfold kl_wh_alg, kl_unwh_alg, unwhiten_cov, unwhiten_mean. f_equal.
  - (* trace part *)
    transitivity (trace m (mmul m (mT Linv) (mmul m Sw (mT L)))).
    2:{ apply trace_compat. rewrite <- (mmul_assoc m m m m Kinv L). rewrite Kinv_L. reflexivity. }
    rewrite trace_mmul_comm. apply trace_compat.
    rewrite (mmul_assoc m m m m Sw (mT L) (mT Linv)).
    rewrite <- (mT_mmul m m m Linv L). destruct HLi as [_ H2]. rewrite H2.
    rewrite (mT_mI m m). symmetry. apply mmul_I_r.
  - (* quadratic part *)
    unfold quad.
    assert (E0 : meq m 1 (msub (madd mz (mmul m L mw)) mz) (mmul m L mw)).
    { intros i j _ _. unfold msub, madd. ring. }
    assert (E : meq 1 1 (mmul m (mT (msub (madd mz (mmul m L mw)) mz))
                          (mmul m Kinv (msub (madd mz (mmul m L mw)) mz)))
                        (mmul m (mT mw) mw)).
    { rewrite E0. rewrite (mT_mmul 1 m m L mw).
      rewrite (mmul_assoc 1 1 m m (mT mw) (mT L)). apply mmul_compat_r.
      rewrite <- (mmul_assoc m 1 m m Kinv L mw). rewrite Kinv_L.
      rewrite <- (mmul_assoc m 1 m m (mT L) (mT Linv) mw).
      rewrite <- (mT_mmul m m m Linv L). destruct HLi as [_ H2]. rewrite H2.
      rewrite (mT_mI m m). apply mmul_I_l. }
    rewrite (E O O) by lia. unfold dot, mmul, mT. reflexivity.
Qed.

End Whiten.

(* ------------------------------------------------------------------ q(u) = p(u) *)

Lemma prior_fixed_point_whitened m n A mx Kxx :
  meq n 1 (wh_mean m A mx mzero) mx /\ meq n n (wh_cov m A Kxx mI) Kxx.
Proof.
  split.
  - unfold wh_mean. rewrite (mmul_zero_r n 1 m (mT A)). apply madd_zero_r.
  - unfold wh_cov. rewrite (msub_diag m m mI). rewrite (mmul_zero_l m n m A).
    rewrite (mmul_zero_r n n m (mT A)). apply madd_zero_r.
Qed.

Lemma prior_fixed_point_unwhitened m n Kzz Kzx Kxx Kinv mx mz :
  meq n 1 (unwh_mean m Kzx Kinv mx mz mz) mx /\
  meq n n (unwh_cov m Kzz Kzx Kxx Kinv Kzz) Kxx.
Proof.
  split.
  - unfold unwh_mean. rewrite (msub_diag m 1 mz). rewrite (mmul_zero_r m 1 m Kinv).
    rewrite (mmul_zero_r n 1 m (mT Kzx)). apply madd_zero_r.
  - unfold unwh_cov. rewrite (msub_diag m m Kzz).
    rewrite (mmul_zero_l m n m (mmul m Kinv Kzx)). rewrite (mmul_zero_r m n m Kinv).
    rewrite (mmul_zero_r n n m (mT Kzx)). apply msub_zero_r.
Qed.

(* the rational part of 2 KL at the prior is the dimension, i.e. 2 KL = n - n + log 1 *)
Lemma kl_alg_at_prior_whitened n : kl_wh_alg n mI mzero = fnat n.
Proof.
  unfold kl_wh_alg, dot, fnat. rewrite trace_mI.
  rewrite (sum_zero n (fun i => mzero i O * mzero i O)); [ring|].
  intros i _. unfold mzero. ring.
Qed.

Lemma kl_alg_at_prior_unwhitened n Kzz Kinv mz : is_inverse n Kzz Kinv ->
  kl_unwh_alg n Kinv Kzz mz mz = fnat n.
Proof.
  intros [_ H2]. unfold kl_unwh_alg, fnat. rewrite (trace_compat n _ mI H2). rewrite trace_mI.
  unfold quad.
  assert (E : meq 1 1 (mmul n (mT (msub mz mz)) (mmul n Kinv (msub mz mz))) mzero).
  { rewrite (msub_diag n 1 mz). rewrite (mmul_zero_r n 1 n Kinv). apply mmul_zero_r. }
  rewrite (E O O) by lia. unfold mzero. ring.
Qed.

(* ------------------------------------------------------------------ natural parameters *)

Lemma two_half : two <> 0 -> (- two) * (- (1 / two)) = 1.
Proof. intros H. unfold two in *. field. exact H. Qed.

Lemma natural_cov_code_correct n P C Ci :
  meq n n (mmul n C (mT C)) P -> is_inverse n C Ci -> is_inverse n P (nat_cov_code n Ci).
Proof. intros HC HCi. unfold nat_cov_code. apply (root_inverse n C); assumption. Qed.

Lemma trilnat_cov_code_correct n T Ti :
  is_inverse n (tril T) Ti -> is_inverse n (trilnat_precision n T) (trilnat_cov_code n Ti).
Proof. intros H. unfold trilnat_precision, trilnat_cov_code. apply root_inverse_T. exact H. Qed.

(* natural -> moment -> natural is the identity *)
Lemma natural_to_moment_roundtrip n Theta theta S : two <> 0 ->
  is_inverse n (nat_precision Theta) S ->
  meq n 1 (moment_to_nat_vec n (nat_precision Theta) (nat_mean n S theta)) theta /\
  meq n n (moment_to_nat_mat (nat_precision Theta)) Theta.
Proof.
  intros H2 [HI1 HI2]. split.
  - unfold moment_to_nat_vec, nat_mean.
    rewrite <- (mmul_assoc n 1 n n (nat_precision Theta) S theta). rewrite HI1. apply mmul_I_l.
  - intros i j _ _. unfold moment_to_nat_mat, nat_precision, mscale.
    transitivity (((- two) * (- (1 / two))) * Theta i j); [ring|].
    rewrite (two_half H2). ring.
Qed.

(* moment -> natural -> moment is the identity (for any inverse the code may compute) *)
Lemma moment_to_natural_roundtrip n P S mq S' : two <> 0 ->
  is_inverse n S P ->
  is_inverse n (nat_precision (moment_to_nat_mat P)) S' ->
  meq n n S' S /\ meq n 1 (nat_mean n S' (moment_to_nat_vec n P mq)) mq.
Proof.
  intros H2 HSP HS'.
  assert (EP : meq n n (nat_precision (moment_to_nat_mat P)) P).
  { intros i j _ _. unfold moment_to_nat_mat, nat_precision, mscale.
    transitivity (((- two) * (- (1 / two))) * P i j); [ring|].
    rewrite (two_half H2). ring. }
  assert (HS'P : is_inverse n P S').
  { apply (is_inverse_compat n _ P S' S' EP); [reflexivity|exact HS']. }
  assert (E : meq n n S' S).
  { apply (inverse_unique n P); [exact HS'P|]. apply is_inverse_sym. exact HSP. }
  split; [exact E|].
  unfold nat_mean, moment_to_nat_vec. rewrite E.
  rewrite <- (mmul_assoc n 1 n n S P mq). destruct HSP as [H1 _]. rewrite H1. apply mmul_I_l.
Qed.

(* ------------------------------------------------------------------ multitask mixing *)

Lemma sum_delta_l n i (f : nat -> car) : (i < n)%nat ->
  sum n (fun k => (if Nat.eqb i k then 1 else 0) * f k) = f i.
Proof.
  intros Hi. rewrite (sum_single n i); [rewrite Nat.eqb_refl; ring|exact Hi|].
  intros k _ Hne. destruct (Nat.eqb_spec i k); [congruence|ring].
Qed.

Lemma divmod_il T i t : (t < T)%nat -> ((i * T + t) / T = i /\ (i * T + t) mod T = t)%nat.
Proof.
  intros Ht. split.
  - rewrite Nat.div_add_l by lia. rewrite Nat.div_small by lia. lia.
  - rewrite Nat.add_comm. rewrite Nat.mod_add by lia. apply Nat.mod_small. exact Ht.
Qed.

(* the code's sum of Kronecker products, read at (point i, task t) x (point j, task t') in the
   interleaved layout, is the covariance of sum_q a_qt g_q(x_i) and sum_q a_qt' g_q(x_j) for
   independent latent processes *)
Lemma lmc_cov_mixing Q T N a C i t j t' :
  (i < N)%nat -> (j < N)%nat -> (t < T)%nat -> (t' < T)%nat ->
  lmc_cov Q T a C (i * T + t)%nat (j * T + t')%nat = lmc_cov_def Q N a C i t j t'.
Proof.
  intros Hi Hj Ht Ht'. unfold lmc_cov, lmc_cov_def.
  destruct (divmod_il T i t Ht) as [-> ->]. destruct (divmod_il T j t' Ht') as [-> ->].
  apply sum_ext. intros q Hq.
  transitivity (sum N (fun k => (if Nat.eqb i k then 1 else 0) *
                   (a q t * (C q k j * a q t')))).
  { rewrite (sum_delta_l N i (fun k => a q t * (C q k j * a q t')) Hi). ring. }
  apply sum_ext. intros k Hk.
  transitivity ((a q t * (if Nat.eqb i k then 1 else 0)) *
      sum Q (fun q' => (if Nat.eqb q q' then 1 else 0) * (C q k j * a q' t'))).
  { rewrite (sum_delta_l Q q (fun q' => C q k j * a q' t') Hq). ring. }
  rewrite <- sum_scale_l. apply sum_ext. intros q' Hq'.
  transitivity ((a q t * (if Nat.eqb i k then 1 else 0)) *
      ((if Nat.eqb q q' then 1 else 0) *
       sum N (fun l => (if Nat.eqb j l then 1 else 0) * (C q k l * a q' t')))).
  { rewrite (sum_delta_l N j (fun l => C q k l * a q' t') Hj). ring. }
  rewrite <- !sum_scale_l. apply sum_ext. intros l Hl.
  destruct (Nat.eqb q q'); ring.
Qed.

Lemma lmc_mean_mixing Q T N a mu i t : (i < N)%nat -> (t < T)%nat ->
  lmc_mean Q T a mu (i * T + t)%nat O = lmc_mean_def Q N a mu i t.
Proof.
  intros Hi Ht. unfold lmc_mean, lmc_mean_def.
  destruct (divmod_il T i t Ht) as [-> ->].
  apply sum_ext. intros q Hq.
  transitivity (sum N (fun k => (if Nat.eqb i k then 1 else 0) * (a q t * mu q k O))).
  { rewrite (sum_delta_l N i (fun k => a q t * mu q k O) Hi). reflexivity. }
  apply sum_ext. intros k _. ring.
Qed.

(* independent multitask = LMC with the identity mixing matrix *)
Lemma indep_is_lmc_identity T C mu r c : (0 < T)%nat ->
  indep_cov T C r c = lmc_cov T T (fun q t => if Nat.eqb q t then 1 else 0) C r c /\
  indep_mean T mu r O = lmc_mean T T (fun q t => if Nat.eqb q t then 1 else 0) mu r O.
Proof.
  intros HT. unfold indep_cov, lmc_cov, indep_mean, lmc_mean.
  assert (Hr : (r mod T < T)%nat) by (apply Nat.mod_upper_bound; lia).
  split.
  - rewrite (sum_single T (r mod T)); [|exact Hr|].
    + rewrite Nat.eqb_refl. destruct (Nat.eqb (r mod T) (c mod T)); ring.
    + intros q _ Hne. destruct (Nat.eqb_spec q (r mod T)); [contradiction|ring].
  - rewrite (sum_single T (r mod T)); [|exact Hr|].
    + rewrite Nat.eqb_refl. ring.
    + intros q _ Hne. destruct (Nat.eqb_spec q (r mod T)); [contradiction|ring].
Qed.

(* ------------------------------------------------------------------ staged = unstaged *)

Lemma unwh_cov_staged_eq m n Kzz Kzx Kxx Kinv S :
  meq n n (unwh_cov_staged m n Kzz Kzx Kxx Kinv S) (unwh_cov m Kzz Kzx Kxx Kinv S).
Proof.
  unfold unwh_cov_staged, unwh_cov. cbv zeta.
  rewrite (mat_meq m n (mmul m Kinv (mat m n _))).
  rewrite (mat_meq m n (mmul m (msub Kzz S) (mat m n _))).
  rewrite (mat_meq m n (mmul m Kinv Kzx)). reflexivity.
Qed.

Lemma unwh_mean_staged_eq m n Kzx Kinv mx mz mq :
  meq n 1 (unwh_mean_staged m Kzx Kinv mx mz mq) (unwh_mean m Kzx Kinv mx mz mq).
Proof.
  unfold unwh_mean_staged, unwh_mean. cbv zeta.
  rewrite (mat_meq m 1 (mmul m Kinv (msub mq mz))). reflexivity.
Qed.

Lemma wh_cov_staged_eq m n A Kxx Sw :
  meq n n (wh_cov_staged m n A Kxx Sw) (wh_cov m A Kxx Sw).
Proof.
  unfold wh_cov_staged, wh_cov. cbv zeta.
  rewrite (mat_meq m n (mmul m (msub Sw mI) A)). reflexivity.
Qed.

Lemma unwhiten_cov_staged_eq m L Sw :
  meq m m (unwhiten_cov_staged m L Sw) (unwhiten_cov m L Sw).
Proof.
  unfold unwhiten_cov_staged, unwhiten_cov. cbv zeta.
  rewrite (mat_meq m m (mmul m Sw (mT L))). reflexivity.
Qed.

Lemma kl_alg_at_prior n :
  kl_wh_alg n mI mzero = fnat n /\
  (forall Kzz Kinv mz, is_inverse n Kzz Kinv -> kl_unwh_alg n Kinv Kzz mz mz = fnat n).
Proof. split; [apply kl_alg_at_prior_whitened|apply kl_alg_at_prior_unwhitened]. Qed.

Lemma lmc_mixing Q T N a C mu i t j t' :
  (i < N)%nat -> (j < N)%nat -> (t < T)%nat -> (t' < T)%nat ->
  lmc_cov Q T a C (i * T + t)%nat (j * T + t')%nat = lmc_cov_def Q N a C i t j t' /\
  lmc_mean Q T a mu (i * T + t)%nat O = lmc_mean_def Q N a mu i t.
Proof.
  intros Hi Hj Ht Ht'. split; [apply lmc_cov_mixing|apply lmc_mean_mixing]; assumption.
Qed.

End Proofs.

Lemma ex_hypotheses_satisfiable :
  let L : @M QcF := @of_list QcF [[qc 2 1; qc 0 1]; [qc 1 1; qc 1 1]] in
  let Kzz : @M QcF := @of_list QcF [[qc 4 1; qc 2 1]; [qc 2 1; qc 2 1]] in
  meq 2 2 (mmul 2 L (mT L)) Kzz /\
  (exists Linv, is_inverse 2 L Linv) /\ (exists Kinv, is_inverse 2 Kzz Kinv) /\
  @two QcF <> @f0 QcF.
Proof.
  cbv zeta. split; [|split; [|split]].
  - apply meqb_sound. vm_compute. reflexivity.
  - destruct (inv_checked 2 (@of_list QcF [[qc 2 1; qc 0 1]; [qc 1 1; qc 1 1]])) as [Li|] eqn:E.
    + exists Li. apply inv_checked_sound. exact E.
    + vm_compute in E. discriminate.
  - destruct (inv_checked 2 (@of_list QcF [[qc 4 1; qc 2 1]; [qc 2 1; qc 2 1]])) as [Ki|] eqn:E.
    + exists Ki. apply inv_checked_sound. exact E.
    + vm_compute in E. discriminate.
  - intro H. vm_compute in H. discriminate.
Qed.
