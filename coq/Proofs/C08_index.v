(* C08 proofs, part 4: a partial batch index through the lazy object yields the replica of the completed
   index; indexing the inputs only does not (shape and value); list wrappers forward keyword arguments. *)
From Coq Require Import Arith Lia List Bool.
From GPV Require Import Models.C08_shape Models.C08_index Proofs.C08_shape.
Import ListNotations.

Lemma valid_app_inv : forall s i b, valid s (i ++ b) ->
  valid (firstn (length i) s) i /\ valid (skipn (length i) s) b.
Proof.
  induction s as [|d s IH]; intros [|x i] b H; cbn [app length firstn skipn valid] in *.
  - split; [exact I|exact H].
  - destruct H.
  - split; [exact I|exact H].
  - destruct H as [Hx H]. destruct (IH i b H) as [A B]. repeat split; assumption.
Qed.

Section Index.
Context {P D O : Type}.

(* element b' of X[i] is the replica of element i ++ b' of X: parameter slice bproj sp (i ++ b'), data slice
   bproj sd (i ++ b') -- for every rank, every broadcast pattern, every prefix index *)
Lemma lazy_index_is_replica sp sd t (op : P -> D -> O) param data i b' :
  valid t (i ++ b') ->
  lazy_index sp sd t op param data i b' = batched sp sd op param data (i ++ b').
Proof.
  intros Hv. destruct (valid_app_inv t i b' Hv) as [_ Hb].
  unfold lazy_index, batched, pindex, expanded. rewrite (bproj_id _ _ Hb). reflexivity.
Qed.

(* in particular a FULL index X[b] (b' = []) is replica b *)
Corollary lazy_index_full sp sd t (op : P -> D -> O) param data b :
  valid t b -> lazy_index sp sd t op param data b [] = batched sp sd op param data b.
Proof. intros Hv. rewrite <- (app_nil_r b) at 2. apply lazy_index_is_replica. rewrite app_nil_r. exact Hv. Qed.

(* the batch shape of X[i] *)
Lemma lazy_index_shape_length t i : length i <= length t ->
  length (lazy_index_shape t i) = length t - length i.
Proof. intros H. unfold lazy_index_shape. rewrite skipn_length. reflexivity. Qed.
End Index.

(* indexing the inputs but not the kernel parameters: wrong batch shape ([2;3] instead of [3]) ... *)
Lemma lazy_index_data_only_shape_refuted :
  exists sp sd t i, broadcast_shapes sp sd = Some t /\ length i < length t /\
    lazy_index_data_only_shape sp t i <> Some (lazy_index_shape t i).
Proof. exists [2; 3], [2; 3], [2; 3], [1]. repeat split; [cbn; lia|vm_compute; discriminate]. Qed.

(* ... and a wrong value: element b' pairs the data of row i with the parameters of another row *)
Lemma lazy_index_data_only_value_refuted :
  exists sp sd t (op : index -> index -> index * index) param data i b',
    broadcast_shapes sp sd = Some t /\ valid t (i ++ b') /\
    lazy_index_data_only sp sd t op param data i b' <> batched sp sd op param data (i ++ b').
Proof.
  exists [2; 3], [2; 3], [2; 3], (fun p d => (p, d)), (fun p => p), (fun d => d), [1], [0].
  repeat split; [cbn; lia|cbn; lia|vm_compute; discriminate].
Qed.

(* with rank-1 parameters the shortcut is harmless only for a FULL index: the class the defect needs is
   parameter batch rank >= 2 and a partial index (documented by the two witnesses above) *)

Section ListsKw.
Context {A KW B : Type}.
Lemma model_list_kw_nth (ms : list (A -> KW -> B)) xs kw k :
  nth_error (model_list_kw ms xs kw) k =
  match nth_error ms k, nth_error xs k with
  | Some m, Some x => Some (m x kw)
  | _, _ => None
  end.
Proof.
  revert xs k. induction ms as [|m ms IH]; intros [|x xs] [|k]; cbn [model_list_kw nth_error]; try reflexivity.
  - destruct (nth_error ms k); reflexivity.
  - apply IH.
Qed.

Context {NZ : Type}.
Lemma model_list_kw_noise_nth (ms : list (A -> KW -> NZ -> B)) xs kw nz k :
  length ms = length xs -> length xs = length nz ->
  nth_error (model_list_kw_noise ms xs kw nz) k =
  match nth_error ms k, nth_error xs k, nth_error nz k with
  | Some m, Some x, Some n => Some (m x kw n)
  | _, _, _ => None
  end.
Proof.
  revert xs nz k. induction ms as [|m ms IH]; intros [|x xs] [|n nz] [|k] H1 H2;
    cbn [model_list_kw_noise nth_error length] in *; try reflexivity; try discriminate.
  apply IH; lia.
Qed.
End ListsKw.

(* a wrapper that does not forward the keyword arguments returns the members' DEFAULT outputs: it agrees with
   the members' own outputs for the call only if the keyword is ignored by every member *)
Lemma model_list_kw_dropped_refuted :
  exists (ms : list (nat -> nat -> nat)) xs dflt kw,
    model_list_kw_dropped dflt ms xs kw <> model_list_kw ms xs kw.
Proof. exists [fun x s => s * x], [1], 1, 2. vm_compute. discriminate. Qed.
