(* C02 lemmas: SumMarginalLogLikelihood routes argument k (output, target, own params) to member k. *)
From Coq Require Import Arith Lia List Bool QArith Qcanon.
From GPV Require Import Base.LinAlg Base.Exec Models.C02_mll.
Import ListNotations.

Section Route.
Context {K : Fld} {Mem Out Tgt Par : Type} (call : Mem -> Out -> Tgt -> option Par -> @car K).

(* with params: defined iff the four lists have the same length; value k is member k on ITS OWN params *)
Lemma sum_route_params_nth ms : forall os ts ps vs k dm do dt dp,
  sum_route call ms os ts (Some ps) = Some vs -> (k < length ms)%nat ->
  length os = length ms /\ length ts = length ms /\ length ps = length ms /\ length vs = length ms /\
  nth k vs (call dm do dt (Some dp)) = call (nth k ms dm) (nth k os do) (nth k ts dt) (Some (nth k ps dp)).
Proof.
  induction ms as [|m ms IH]; intros os ts ps vs k dm do dt dp H Hk; [cbn in Hk; lia|].
  destruct os as [|o os]; [discriminate H|]. destruct ts as [|t ts]; [discriminate H|].
  destruct ps as [|p ps]; [discriminate H|]. cbn [sum_route] in H.
  destruct (sum_route call ms os ts (Some ps)) as [vs'|] eqn:E; [|discriminate H].
  cbn [option_map] in H. injection H as <-.
  destruct k as [|k].
  - destruct ms as [|m' ms'].
    + destruct os; [|discriminate E]. destruct ts; [|discriminate E]. destruct ps; [|discriminate E].
      injection E as <-. cbn. repeat split; reflexivity.
    + destruct (IH os ts ps vs' O dm do dt dp E) as (A & B & Cc & D & _); [cbn; lia|].
      cbn [length nth] in *. repeat split; try reflexivity; lia.
  - cbn [length] in Hk. destruct (IH os ts ps vs' k dm do dt dp E) as (A & B & Cc & D & F); [lia|].
    cbn [length nth] in *. repeat split; try lia. exact F.
Qed.

Lemma sum_route_plain_nth ms : forall os ts vs k dm do dt,
  sum_route call ms os ts None = Some vs -> (k < length ms)%nat ->
  length os = length ms /\ length ts = length ms /\ length vs = length ms /\
  nth k vs (call dm do dt None) = call (nth k ms dm) (nth k os do) (nth k ts dt) None.
Proof.
  induction ms as [|m ms IH]; intros os ts vs k dm do dt H Hk; [cbn in Hk; lia|].
  destruct os as [|o os]; [discriminate H|]. destruct ts as [|t ts]; [discriminate H|].
  cbn [sum_route] in H.
  destruct (sum_route call ms os ts None) as [vs'|] eqn:E; [|discriminate H].
  cbn [option_map] in H. injection H as <-.
  destruct k as [|k].
  - destruct ms as [|m' ms'].
    + destruct os; [|discriminate E]. destruct ts; [|discriminate E].
      injection E as <-. cbn. repeat split; reflexivity.
    + destruct (IH os ts vs' O dm do dt E) as (A & B & D & _); [cbn; lia|].
      cbn [length nth] in *. repeat split; try reflexivity; lia.
  - cbn [length] in Hk. destruct (IH os ts vs' k dm do dt E) as (A & B & D & F); [lia|].
    cbn [length nth] in *. repeat split; try lia. exact F.
Qed.

(* length mismatch of the params list is an error, never a silent truncation *)
Lemma sum_route_params_length ms os ts ps :
  length ps <> length ms -> sum_route call ms os ts (Some ps) = None.
Proof.
  revert os ts ps. induction ms as [|m ms IH]; intros os ts ps H.
  - destruct os, ts; try reflexivity. destruct ps; [cbn in H; congruence|reflexivity].
  - destruct os as [|o os]; [reflexivity|]. destruct ts as [|t ts]; [reflexivity|].
    destruct ps as [|p ps]; [reflexivity|]. cbn [sum_route].
    rewrite IH; [reflexivity|]. cbn [length] in H. congruence.
Qed.
End Route.

(* handing member k the params of member 0 (what forwarding the whole tuple amounts to: the member reads the first
   positional argument) is a different function: two members whose objective is their own parameter *)
Lemma sum_route_first_params_refuted :
  exists (ps : list Qc),
    sum_route (K:=QcF) (fun (_ _ _ : unit) (p : option Qc) => match p with Some v => v | None => 0%Qc end)
              [tt; tt] [tt; tt] [tt; tt] (Some ps)
    <> Some (map (fun _ => nth 0 ps 0%Qc) ps).
Proof.
  exists [Exec.qc 1 1; Exec.qc 2 1]. intros H.
  cbn in H. injection H as H. discriminate H.
Qed.
