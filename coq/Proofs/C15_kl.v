(* C15: KL(q(u) || p(u)) >= 0 over R
     - for a diagonal q(u) = N(mq, diag sq) against a diagonal prior p(u) = N(mp, diag sp), every
       size, arbitrary means and positive variances (sum_i w_i - 1 - ln w_i + d_i^2/sp_i >= 0,
       w_i = sq_i / sp_i), with the equality case, and the identification of that sum with the
       rational part of the model's KL ([kl_unwh_alg] of C14) on diagonal matrices;
     - for a full-covariance q(u) = N(mq, Lq Lq^T) against a prior with precision Li^T Li (through
       C10's Cholesky form): W = Li Lq with positive diagonal;
   and the bound  ELBO <= likelihood term + prior term - added  at exactly that generality. *)
From Coq Require Import Reals Lra Arith Lia List.
From GPV Require Import Base.LinAlg Base.Exec Base.Expr.
From GPV Require Import Models.C10_mvn Proofs.C10_mvn Proofs.C10_kl.
From GPV Require Import Models.C02_mll Proofs.C02_mll Models.C14_variational.
From GPV Require Import Models.C15_elbo Proofs.C15_elbo Proofs.C15_real.

(* ---------------------------------------------------------------- diagonal sums, any field *)
Section Diag.
Context {K : Fld}.
Add Field Ff_c15kl : (@FT K).
Local Open Scope fld_scope.

Lemma mmul_mdiag_l n (a : nat -> car) (B : M) i j : (i < n)%nat ->
  mmul n (mdiag a) B i j = a i * B i j.
Proof.
  intros Hi. unfold mmul, mdiag. rewrite (sum_single n i).
  - rewrite Nat.eqb_refl. reflexivity.
  - exact Hi.
  - intros k _ Hk. destruct (Nat.eqb_spec i k); [congruence|ring].
Qed.

Lemma trace_mdiag2 n (a s : nat -> car) :
  C14_variational.trace n (mmul n (mdiag a) (mdiag s)) = sum n (fun i => a i * s i).
Proof.
  unfold C14_variational.trace. apply sum_ext. intros i Hi. rewrite mmul_mdiag_l by exact Hi.
  unfold mdiag. rewrite Nat.eqb_refl. reflexivity.
Qed.

Lemma quad_mdiag n (a : nat -> car) (r : M) :
  C14_variational.quad n r (mdiag a) = sum n (fun i => r i O * r i O * a i).
Proof.
  unfold C14_variational.quad. unfold mmul at 1. apply sum_ext. intros i Hi.
  rewrite mmul_mdiag_l by exact Hi. unfold mT. ring.
Qed.

(* rational part of 2 KL for diagonal q and diagonal prior, as the model computes it *)
Lemma kl_unwh_alg_diag n (ip sq : nat -> car) (mq mz : M) :
  kl_unwh_alg n (mdiag ip) (mdiag sq) mq mz
  = sum n (fun i => ip i * sq i + (mq i O - mz i O) * (mq i O - mz i O) * ip i).
Proof.
  unfold kl_unwh_alg. rewrite trace_mdiag2, quad_mdiag, <- sum_add.
  apply sum_ext. intros i _. unfold msub. ring.
Qed.

(* the model's rational KL part (C14) is C10's [kl_rational] (q in the first slot) *)
Lemma kl_unwh_alg_is_kl_rational n (Kinv S mq mz : M) :
  kl_unwh_alg n Kinv S mq mz - fnat n = kl_rational n mq S mz Kinv.
Proof. reflexivity. Qed.

End Diag.

(* ---------------------------------------------------------------- over R *)
Local Open Scope R_scope.

(* 2 KL( N(mq, diag sq) || N(mp, diag sp) ) *)
Definition kl2_diag (n : nat) (mq sq mp sp : nat -> R) : R :=
  @sum RF n (fun i => sq i / sp i + (mq i - mp i) * (mq i - mp i) / sp i - 1 - ln (sq i / sp i)).

Lemma kl2_term_nonneg (a b d p : R) : 0 < a -> 0 < p ->
  0 <= a / p + d * d / p - 1 - ln (a / p).
Proof.
  intros Ha Hp.
  assert (Hw : 0 < a / p) by (apply Rdiv_lt_0_compat; assumption).
  pose proof (ln_le_minus_1 (a / p) Hw) as H1.
  assert (H2 : 0 <= d * d / p).
  { apply Rmult_le_pos; [nra|]. left. apply Rinv_0_lt_compat. exact Hp. }
  lra.
Qed.

Theorem kl2_diag_nonneg n (mq sq mp sp : nat -> R) :
  (forall i, (i < n)%nat -> 0 < sq i) -> (forall i, (i < n)%nat -> 0 < sp i) ->
  0 <= kl2_diag n mq sq mp sp.
Proof.
  intros Hq Hp. unfold kl2_diag. rewrite sum_RF_rsum. apply rsum_nonneg.
  intros i Hi. apply (kl2_term_nonneg (sq i) 0 (mq i - mp i) (sp i)); auto.
Qed.

(* strict form of ln w <= w - 1 *)
Lemma ln_lt_minus_1 w : 0 < w -> w <> 1 -> ln w < w - 1.
Proof.
  intros Hw Hne.
  assert (H : 1 + (w - 1) < exp (w - 1)) by (apply exp_ineq1; lra).
  replace (1 + (w - 1)) with w in H by lra.
  pose proof (ln_increasing w (exp (w - 1)) Hw H) as H'. rewrite ln_exp in H'. exact H'.
Qed.

Lemma kl2_term_zero (a d p : R) : 0 < a -> 0 < p ->
  a / p + d * d / p - 1 - ln (a / p) = 0 -> a = p /\ d = 0.
Proof.
  intros Ha Hp E.
  assert (Hw : 0 < a / p) by (apply Rdiv_lt_0_compat; assumption).
  assert (H2 : 0 <= d * d / p).
  { apply Rmult_le_pos; [nra|]. left. apply Rinv_0_lt_compat. exact Hp. }
  destruct (Req_dec (a / p) 1) as [E1|N1].
  - rewrite E1, ln_1 in E. split.
    + apply (f_equal (fun x => x * p)) in E1. unfold Rdiv in E1.
      rewrite Rmult_assoc, Rinv_l, Rmult_1_r, Rmult_1_l in E1 by lra. exact E1.
    + assert (Hd : d * d / p = 0) by lra.
      apply (f_equal (fun x => x * p)) in Hd. unfold Rdiv in Hd.
      rewrite Rmult_assoc, Rinv_l, Rmult_1_r, Rmult_0_l in Hd by lra. nra.
  - pose proof (ln_lt_minus_1 (a / p) Hw N1). lra.
Qed.

Lemma rsum_zero_terms n f : (forall i, (i < n)%nat -> 0 <= f i) -> rsum n f = 0 ->
  forall i, (i < n)%nat -> f i = 0.
Proof.
  induction n as [|n IH]; intros Hf E i Hi; [lia|]. cbn [rsum] in E.
  assert (H1 : 0 <= rsum n f) by (apply rsum_nonneg; intros; apply Hf; lia).
  pose proof (Hf n ltac:(lia)) as H2.
  destruct (Nat.eq_dec i n) as [->|Hne]; [lra|].
  apply IH; [intros; apply Hf; lia|lra|lia].
Qed.

(* equality case: KL = 0 exactly when q = p *)
Theorem kl2_diag_zero_iff n (mq sq mp sp : nat -> R) :
  (forall i, (i < n)%nat -> 0 < sq i) -> (forall i, (i < n)%nat -> 0 < sp i) ->
  (kl2_diag n mq sq mp sp = 0 <-> forall i, (i < n)%nat -> sq i = sp i /\ mq i = mp i).
Proof.
  intros Hq Hp. unfold kl2_diag. rewrite sum_RF_rsum. split.
  - intros E i Hi.
    pose proof (rsum_zero_terms n _
      (fun j Hj => kl2_term_nonneg (sq j) 0 (mq j - mp j) (sp j) (Hq j Hj) (Hp j Hj)) E i Hi) as Ei.
    cbv beta in Ei.
    destruct (kl2_term_zero (sq i) (mq i - mp i) (sp i) (Hq i Hi) (Hp i Hi) Ei) as [E1 E2].
    split; [exact E1|lra].
  - intros H. induction n as [|n IH]; [reflexivity|]. cbn [rsum].
    rewrite IH by (intros; auto). destruct (H n ltac:(lia)) as [E1 E2].
    rewrite E1, E2. pose proof (Hp n ltac:(lia)).
    replace (sp n / sp n) with 1 by (field; lra). rewrite ln_1. field. lra.
Qed.

(* the sum is the model's KL on diagonal matrices: rational part [kl_unwh_alg] (C14) minus n, plus
   the log-determinant difference written as sum_i ln sp_i - sum_i ln sq_i *)
Theorem kl2_diag_is_model_kl n (sq sp : nat -> R) (mq mz : @M RF) :
  (forall i, (i < n)%nat -> 0 < sq i) -> (forall i, (i < n)%nat -> 0 < sp i) ->
  @kl_unwh_alg RF n (@mdiag RF (fun i => / sp i)) (@mdiag RF sq) mq mz - @fnat RF n
  + (@sum RF n (fun i => ln (sp i)) - @sum RF n (fun i => ln (sq i)))
  = kl2_diag n (fun i => mq i O) sq (fun i => mz i O) sp.
Proof.
  intros Hq Hp. rewrite (@kl_unwh_alg_diag RF). unfold kl2_diag, fnat.
  induction n as [|n IH].
  - cbn [sum f0 fadd fsub RF]. ring.
  - specialize (IH (fun i Hi => Hq i ltac:(lia)) (fun i Hi => Hp i ltac:(lia))).
    pose proof (Hq n ltac:(lia)) as Hqn. pose proof (Hp n ltac:(lia)) as Hpn.
    assert (El : ln (sq n / sp n) = ln (sq n) - ln (sp n)).
    { unfold Rdiv. rewrite ln_mult, ln_Rinv; [reflexivity|exact Hpn|exact Hqn|].
      apply Rinv_0_lt_compat. exact Hpn. }
    cbn [sum]. rewrite <- IH, El. cbn [fadd fsub fmul f1 RF]. field. lra.
Qed.

(* the whitened mean-field statement of C15_real is the special case sp = 1, mp = 0 *)
Lemma kl2_diag_whitened n (s mw : nat -> R) :
  kl2_diag n mw s (fun _ => 0) (fun _ => 1)
  = @sum RF n (fun i => s i + mw i * mw i - 1 - ln (s i)).
Proof.
  unfold kl2_diag. apply (@sum_ext RF). intros i _.
  replace (s i / 1) with (s i) by field. change (@eq (@car RF)) with (@eq R). field.
Qed.

(* ---------------------------------------------------------------- the bound along the KL term *)
(* diagonal q(u), diagonal prior: ELBO <= (1/B) sum ell + (1/N) log prior - added *)
Theorem elbo_le_likelihood_term_diag n (mq sq mp sp : nat -> R) (ell nb beta nd lp added : R) :
  (forall i, (i < n)%nat -> 0 < sq i) -> (forall i, (i < n)%nat -> 0 < sp i) ->
  0 < beta -> 0 < nd ->
  @elbo_value RF ell nb (/ 2 * kl2_diag n mq sq mp sp) beta nd lp added
  <= ell / nb + lp / nd - added.
Proof.
  intros Hq Hp Hb Hn. apply elbo_le_without_kl; [|exact Hb|exact Hn].
  pose proof (kl2_diag_nonneg n mq sq mp sp Hq Hp). lra.
Qed.

(* ... with equality of the two sides' KL-dependence only at q = p: the gap is beta/N * KL *)
Lemma elbo_gap_is_scaled_kl (ell nb kl beta nd lp added : R) : beta <> 0 -> nd <> 0 ->
  ell / nb + lp / nd - added - @elbo_value RF ell nb kl beta nd lp added = beta / nd * kl.
Proof. intros Hb Hn. unfold elbo_value. cbn [fadd fsub fdiv RF]. unfold Rdiv. set (inb := / nb). field. split; assumption. Qed.

(* full covariance: q(u) = N(mq, Lq Lq^T), prior N(mz, Kzz) with Kzz^-1 = Li^T Li (Li = L^-1 for the
   Cholesky factor L of Kzz), W = Li Lq with positive diagonal.  2 KL = rational part of the
   model (C14 [kl_unwh_alg] - n) - sum_i ln W_ii^2   (ln det Kzz - ln det S = - sum_i ln W_ii^2) *)
Definition kl2_chol_model (n : nat) (mq mz Lq Li : @M RF) : R :=
  @kl_unwh_alg RF n (@mmul RF n (@mT RF Li) Li) (@mmul RF n Lq (@mT RF Lq)) mq mz - @fnat RF n
  - rsum n (fun i => ln (@mmul RF n Li Lq i i * @mmul RF n Li Lq i i)).

Theorem kl2_chol_model_nonneg n (mq mz Lq Li : @M RF) :
  (forall i, (i < n)%nat -> 0 < @mmul RF n Li Lq i i) -> 0 <= kl2_chol_model n mq mz Lq Li.
Proof.
  intros Hpos. unfold kl2_chol_model.
  change (@kl_unwh_alg RF n (@mmul RF n (@mT RF Li) Li) (@mmul RF n Lq (@mT RF Lq)) mq mz - @fnat RF n)
    with (@kl_rational RF n mq (@mmul RF n Lq (@mT RF Lq)) mz (@mmul RF n (@mT RF Li) Li)).
  apply kl_model_nonneg. exact Hpos.
Qed.

Theorem elbo_le_likelihood_term_chol n (mq mz Lq Li : @M RF) (ell nb beta nd lp added : R) :
  (forall i, (i < n)%nat -> 0 < @mmul RF n Li Lq i i) -> 0 < beta -> 0 < nd ->
  @elbo_value RF ell nb (/ 2 * kl2_chol_model n mq mz Lq Li) beta nd lp added
  <= ell / nb + lp / nd - added.
Proof.
  intros Hpos Hb Hn. apply elbo_le_without_kl; [|exact Hb|exact Hn].
  pose proof (kl2_chol_model_nonneg n mq mz Lq Li Hpos). lra.
Qed.

(* non-vacuity: q = prior with unit factors *)
Lemma ex_kl2_chol_hyp n : forall i, (i < n)%nat -> 0 < @mmul RF n (@mI RF) (@mI RF) i i.
Proof.
  intros i Hi. rewrite (@mmul_I_l RF n n (@mI RF) i i Hi Hi). unfold mI. rewrite Nat.eqb_refl.
  cbn [f1 RF]. lra.
Qed.
