(* C20 — obligations COMPUTED on the regenerated class table (Gen/Settings_gen.v, rewritten from the
   current Python sources on every run).  Everything heavy here is ONE vm_compute per fact on closed
   terms ([vm_cast_no_check]: the conversion is checked by the kernel at Qed, once); the step from
   "class_ok c = true" to "for all stores, arguments and programs" is Proofs/C20_scoped.v.
   A change of the sources that breaks the save/restore discipline of a gpytorch class makes
   [ok_table] fail to type-check, hence Props/C20.v fail to build. *)
From Coq Require Import List String ZArith Bool.
From GPV Require Import Models.C20_ir Models.C20_check Models.C20_run Gen.Settings_gen Proofs.C20_scoped Proofs.C20_inner.
Import ListNotations.
Open Scope string_scope.

Definition ok := class_ok gen_table doc_composites doc_caches.
(* conversion must never unfold the table or the checker lazily (vm_compute is not affected) *)
Strategy opaque [gen_table usable class_ok run observe].

(* the classes a user can put in a with-block, as a literal list *)
Definition usable_now : list string := Eval vm_compute in usable gen_table.
Lemma usable_now_eq : usable gen_table = usable_now.
Proof. vm_cast_no_check (eq_refl usable_now). Qed.

(* THE computed obligation: the checker accepts every usable class except the installed
   linear_operator's cholesky_jitter (known finding, outside /repo) *)
Definition expected_ok (c : string) : bool := negb (String.eqb c "lo.cholesky_jitter").
Lemma ok_table : map ok usable_now = map expected_ok usable_now.
Proof. vm_cast_no_check (eq_refl (map expected_ok usable_now)). Qed.

Lemma map_eq_In : forall (A B : Type) (f g : A -> B) l x, map f l = map g l -> In x l -> f x = g x.
Proof.
  induction l as [|y r IH]; cbn; intros x H Hin; [contradiction|].
  inversion H. destruct Hin as [Hin|Hin]; [subst; assumption | apply IH; assumption].
Qed.

Lemma ok_usable : forall c, In c (usable gen_table) -> ok c = expected_ok c.
Proof. intros c H. rewrite usable_now_eq in H. exact (map_eq_In _ _ ok expected_ok usable_now c ok_table H). Qed.

Definition checked : list string := filter expected_ok (usable gen_table).

Lemma checked_ok : forallb ok checked = true.
Proof.
  apply forallb_forall. intros c H. unfold checked in H. destruct (proj1 (filter_In _ _ _) H) as [H1 H2].
  rewrite (ok_usable c H1). exact H2.
Qed.

(* every gpytorch / beta_features class passes *)
Lemma repo_classes_ok : forallb ok (filter (fun c => negb (external c)) (usable gen_table)) = true.
Proof.
  apply forallb_forall. intros c H. destruct (proj1 (filter_In _ _ _) H) as [H1 H2].
  rewrite (ok_usable c H1). unfold expected_ok.
  destruct (String.eqb_spec c "lo.cholesky_jitter") as [E|E]; [subst c; discriminate H2 | reflexivity].
Qed.

Lemma repo_classes_checked : forall c, In c (usable gen_table) -> external c = false -> In c checked.
Proof.
  intros c H1 H2. unfold checked. apply filter_In. split; [exact H1|]. unfold expected_ok.
  destruct (String.eqb_spec c "lo.cholesky_jitter") as [E|E]; [subst c; discriminate H2 | reflexivity].
Qed.

(* of the installed linear_operator classes exactly cholesky_jitter fails *)
Lemma external_failing : filter (fun c => negb (ok c)) (filter external (usable gen_table)) = ["lo.cholesky_jitter"].
Proof.
  assert (H : forall l, (forall c, In c l -> ok c = expected_ok c) ->
              filter (fun c => negb (ok c)) (filter external l) = filter (fun c => negb (expected_ok c)) (filter external l)).
  { induction l as [|x r IH]; intros Hl; cbn; [reflexivity|].
    destruct (external x); cbn; [rewrite (Hl x (or_introl eq_refl))|]; rewrite IH; auto; intros c Hc; apply Hl; right; exact Hc. }
  rewrite (H _ ok_usable). rewrite usable_now_eq. vm_compute. reflexivity.
Qed.

(* everything exported by gpytorch.settings / gpytorch.beta_features is a usable class of the table *)
Lemma exports_usable : forallb (fun e => mem_str (snd e) (usable gen_table)) gen_exports = true.
Proof. rewrite usable_now_eq. vm_compute. reflexivity. Qed.

Lemma exports_checked : forall pub c, In (pub, c) gen_exports -> c <> "lo.cholesky_jitter" -> In c checked.
Proof.
  intros pub c Hin Hne. pose proof exports_usable as H. rewrite forallb_forall in H.
  specialize (H _ Hin). cbn in H. apply mem_str_In in H.
  unfold checked. apply filter_In. split; [exact H|]. unfold expected_ok.
  destruct (String.eqb_spec c "lo.cholesky_jitter"); [contradiction | reflexivity].
Qed.

(* no class of the table is, or inherits from, the pseudo-class that holds the warning filter *)
Lemma warn_free_now : warn_free gen_table = true.
Proof. vm_compute. reflexivity. Qed.

Lemma prog_ok_of_classes : forall p,
  (forall c, In c (prog_classes p) -> In c checked) -> prog_ok gen_table doc_composites doc_caches p = true.
Proof.
  pose proof checked_ok as H. rewrite forallb_forall in H.
  induction p as [|p1 IH1 p2 IH2|c args body IHb| | |b body IHe|body IHt]; intros Hc; cbn [prog_ok]; try reflexivity.
  - rewrite IH1, IH2; [reflexivity| |]; intros c Hin; apply Hc; cbn; apply in_or_app; auto.
  - rewrite IHb by (intros c0 Hin; apply Hc; cbn; auto).
    rewrite andb_true_r. apply H. apply Hc. cbn. auto.
  - rewrite warn_free_now. apply IHe. exact Hc.
  - apply IHt. exact Hc.
Qed.

Lemma scoped_gen : forall p G G' o tr,
  (forall c, In c (prog_classes p) -> In c checked) -> run gen_table p G = (G', o, tr) ->
  o <> OStuck /\
  (forall c a, doc_caches c a = false -> lookup_v gen_table G' c a = lookup_v gen_table G c a) /\
  (forall s, In s tr -> forall c a, ~ In c (footprint doc_composites p) -> doc_caches c a = false ->
             lookup_v gen_table s c a = lookup_v gen_table G c a).
Proof. intros p G G' o tr Hc Hr. exact (run_inv _ _ _ p G G' o tr (prog_ok_of_classes p Hc) Hr). Qed.

(* the leak of linear_operator's cholesky_jitter, as a concrete program of the model *)
Lemma cholesky_jitter_leaks :
  exists args, let '(G', _, _) := run gen_table (PWith "lo.cholesky_jitter" args PSkip) (init_store gen_table) in
    lookup_v gen_table (init_store gen_table) "lo.cholesky_jitter" "_global_half_value" = VK KNone /\
    lookup_v gen_table G' "lo.cholesky_jitter" "_global_half_value" = VK (KNum 1 2).
Proof. exists [("half_value", VK (KNum 1 2))]. vm_compute. split; reflexivity. Qed.

(* documented defaults *)
Lemma defaults_ok :
  map (fun q => match q with (c, m, args) => observe gen_table (init_store gen_table) c m args end) documented_queries
  = map (fun d => VK (snd d)) doc_defaults.
Proof. vm_cast_no_check (eq_refl (map (fun d : string * string * list const * const => VK (snd d)) doc_defaults)). Qed.

(* ------------------------------------------------------------------ query level *)
(* the same obligation WITHOUT the cache exemption: every slot is restored.  Holds for every checked class
   except deterministic_probes (whose probe-vector cache is dropped by design). *)
Definition nocache (_ _ : string) : bool := false.
Definition ok0 := class_ok gen_table doc_composites nocache.
Definition expected_ok0 (c : string) : bool := expected_ok c && negb (String.eqb c "lo.deterministic_probes").
Lemma ok0_table : map ok0 usable_now = map expected_ok0 usable_now.
Proof. vm_cast_no_check (eq_refl (map expected_ok0 usable_now)). Qed.

Definition checked0 : list string := filter expected_ok0 (usable gen_table).

Lemma checked0_ok : forall c, In c checked0 -> ok0 c = true.
Proof.
  intros c H. unfold checked0 in H. destruct (proj1 (filter_In _ _ _) H) as [H1 H2].
  rewrite usable_now_eq in H1. rewrite (map_eq_In _ _ ok0 expected_ok0 usable_now c ok0_table H1). exact H2.
Qed.

Lemma checked0_checked : forall c, In c checked0 -> In c checked.
Proof.
  intros c H. unfold checked0 in H. destruct (proj1 (filter_In _ _ _) H) as [H1 H2].
  unfold checked. apply (proj2 (filter_In _ _ _)). split; [exact H1|].
  unfold expected_ok0 in H2. apply andb_true_iff in H2. exact (proj1 H2).
Qed.

Lemma checked_checked0 : forall c, In c checked -> c <> "lo.deterministic_probes" -> In c checked0.
Proof.
  intros c H Hne. unfold checked in H. destruct (proj1 (filter_In _ _ _) H) as [H1 H2].
  unfold checked0. apply (proj2 (filter_In _ _ _)). split; [exact H1|].
  unfold expected_ok0. rewrite H2. destruct (String.eqb_spec c "lo.deterministic_probes"); [contradiction|reflexivity].
Qed.

Lemma prog_ok0_of_classes : forall p,
  (forall c, In c (prog_classes p) -> In c checked0) -> prog_ok gen_table doc_composites nocache p = true.
Proof.
  induction p as [|p1 IH1 p2 IH2|c args body IHb| | |b body IHe|body IHt]; intros Hc; cbn [prog_ok]; try reflexivity.
  - rewrite IH1, IH2; [reflexivity| |]; intros c Hin; apply Hc; cbn; apply in_or_app; auto.
  - rewrite IHb by (intros c0 Hin; apply Hc; cbn; auto).
    rewrite andb_true_r. apply checked0_ok. apply Hc. cbn. auto.
  - rewrite warn_free_now. apply IHe. exact Hc.
  - apply IHt. exact Hc.
Qed.

(* every query -- any class, any method, any arguments -- answers after the program as before it *)
Lemma queries_scoped_gen : forall p G G' o tr,
  (forall c, In c (prog_classes p) -> In c checked0) -> run gen_table p G = (G', o, tr) ->
  forall c m args, observe gen_table G' c m args = observe gen_table G c m args.
Proof.
  intros p G G' o tr Hc Hr c m args.
  destruct (run_inv gen_table doc_composites nocache p G G' o tr (prog_ok0_of_classes p Hc) Hr) as [_ [Hv _]].
  apply observe_ext. intros c0 a. apply Hv. reflexivity.
Qed.

(* INNERMOST WINS (structural half) on the regenerated table *)
Lemma innermost_gen : forall c args body G G' o tr,
  (forall k, In k (prog_classes body) -> In k checked) ->
  run gen_table (PWith c args (PSeq PObserve body)) G = (G', o, tr) ->
  tr = [] \/ exists s0 tr', tr = s0 :: tr' /\
     forall s, In s tr' -> forall k a, ~ In k (footprint doc_composites body) -> doc_caches k a = false ->
       lookup_v gen_table s k a = lookup_v gen_table s0 k a.
Proof.
  intros c args body G G' o tr Hc Hr.
  exact (inner_generic gen_table doc_composites doc_caches c args body G G' o tr (prog_ok_of_classes body Hc) Hr).
Qed.

(* ------------------------------------------------------------------ failing with-headers *)
(* a with-statement whose header fails (constructor or __enter__ raise: wrong arguments, an explicit raise,
   or a warning that the filter in force turns into an exception) runs nothing and leaves the store untouched *)
Lemma failed_entry_gen : forall c args body G,
  In c checked -> enters gen_table c args G = false ->
  run gen_table (PWith c args body) G = (G, ORaised, []).
Proof.
  intros c args body G Hc He. pose proof checked_ok as H. rewrite forallb_forall in H.
  exact (failed_entry_inv gen_table doc_composites doc_caches c args body G (H c Hc) He).
Qed.

(* the hypothesis is met through the WARNING path: beta_features.checkpoint_kernel warns in __enter__; with
   warnings escalated its header fails, with warnings ignored the same header completes *)
Definition ex_ck : string := "bf.checkpoint_kernel".
Lemma ex_ck_checked : In ex_ck checked.
Proof.
  apply repo_classes_checked; [apply mem_str_In; rewrite usable_now_eq; vm_compute; reflexivity | vm_compute; reflexivity].
Qed.
Lemma ex_ck_header :
  enters gen_table ex_ck [("value", VK (KNum 5 1))] (escalate true (init_store gen_table)) = false /\
  enters gen_table ex_ck [("value", VK (KNum 5 1))] (escalate false (init_store gen_table)) = true.
Proof. vm_compute. split; reflexivity. Qed.
(* with checkpoint_kernel(2): try: (warnings -> errors: with checkpoint_kernel(9): observe) except: pass; observe
   -- the inner header raises, nothing is observed inside it, the outer block still shows 2, afterwards 0 *)
Definition ex_prog_w : prog :=
  PWith ex_ck [("value", VK (KNum 2 1))]
    (PSeq (PTry (PEsc true (PWith ex_ck [("value", VK (KNum 9 1))] PObserve))) PObserve).
Lemma ex_prog_w_checked : forall c, In c (prog_classes ex_prog_w) -> In c checked0.
Proof.
  intros c H. apply checked_checked0.
  - destruct H as [H|[H|[]]]; subst c; exact ex_ck_checked.
  - destruct H as [H|[H|[]]]; subst c; discriminate.
Qed.
Lemma ex_prog_w_runs : run_case ([(ex_ck, "value", [])], ex_prog_w) = [0; 1;  2; 2; 1;  2; 0; 1]%Z.
Proof. vm_compute. reflexivity. Qed.

(* ------------------------------------------------------------------ non-vacuity *)
(* a nested program over two gpytorch classes that ends by an exception: its classes are checked, it
   runs (outcome 1 = raised, 2 observations), the values seen inside differ from the defaults
   (on()=True, 7 probe vectors, half jitter 1/2) and the defaults are back afterwards *)
Definition ex_prog : prog :=
  PWith "gp.fast_pred_var" [("state", VK (KBool true)); ("num_probe_vectors", VK (KNum 7 1))]
    (PSeq PObserve
      (PWith "gp.variational_cholesky_jitter" [("half_value", VK (KNum 1 2))] (PSeq PObserve PRaise))).
Definition ex_queries : list query :=
  [("gp.fast_pred_var", "on", []); ("gp.fast_pred_var", "num_probe_vectors", []);
   ("gp.variational_cholesky_jitter", "value", [f16])].
Lemma ex_prog_checked : forall c, In c (prog_classes ex_prog) -> In c checked.
Proof.
  intros c [H|[H|[]]]; subst c; apply repo_classes_checked;
    try (apply mem_str_In; rewrite usable_now_eq; vm_compute; reflexivity); vm_compute; reflexivity.
Qed.
Lemma ex_prog_runs :
  run_case (ex_queries, ex_prog)
  = [1; 2;  1; 1; 2; 7; 1; 0;   1; 1; 2; 7; 1; 2; 1; 2;   1; 0; 2; 1; 1; 0]%Z.
Proof. vm_compute. reflexivity. Qed.

Lemma ex_prog_checked0 : forall c, In c (prog_classes ex_prog) -> In c checked0.
Proof.
  intros c H. apply checked_checked0; [apply ex_prog_checked; exact H|].
  destruct H as [H|[H|[]]]; subst c; discriminate.
Qed.
