(* C20 — obligations COMPUTED on the regenerated class table (Gen/Settings_gen.v, rewritten from the
   current Python sources on every run).  Everything here is vm_compute on closed terms; the step
   from "class_ok c = true" to "for all stores, arguments and programs" is Proofs/C20_scoped.v. *)
From Coq Require Import List String ZArith Bool.
From GPV Require Import Models.C20_ir Models.C20_check Models.C20_run Gen.Settings_gen Proofs.C20_scoped.
Import ListNotations.
Open Scope string_scope.

Definition ok := class_ok gen_table doc_composites doc_caches.

(* every gpytorch / beta_features class passes *)
Lemma repo_classes_ok : forallb ok (filter (fun c => negb (external c)) (usable gen_table)) = true.
Proof. vm_compute. reflexivity. Qed.

(* of the installed linear_operator classes exactly cholesky_jitter fails (known finding, outside /repo) *)
Lemma external_failing : filter (fun c => negb (ok c)) (filter external (usable gen_table)) = ["lo.cholesky_jitter"].
Proof. vm_compute. reflexivity. Qed.

Definition checked : list string := filter (fun c => negb (String.eqb c "lo.cholesky_jitter")) (usable gen_table).

Lemma checked_ok : forallb ok checked = true.
Proof. vm_compute. reflexivity. Qed.

Lemma exports_usable :
  forallb (fun e => mem_str (snd e) (usable gen_table)) gen_exports = true /\ List.length gen_exports = 44%nat.
Proof. vm_compute. split; reflexivity. Qed.

Lemma prog_ok_of_classes : forall p,
  (forall c, In c (prog_classes p) -> In c checked) -> prog_ok gen_table doc_composites doc_caches p = true.
Proof.
  pose proof checked_ok as H. rewrite forallb_forall in H.
  induction p as [|p1 IH1 p2 IH2|c args body IHb| |]; intros Hc; cbn [prog_ok]; try reflexivity.
  - rewrite IH1, IH2; [reflexivity| |]; intros c Hin; apply Hc; cbn; apply in_or_app; auto.
  - rewrite IHb by (intros c0 Hin; apply Hc; cbn; auto).
    rewrite andb_true_r. apply H. apply Hc. cbn. auto.
Qed.

Lemma scoped_gen : forall p G G' o tr,
  (forall c, In c (prog_classes p) -> In c checked) -> run gen_table p G = (G', o, tr) ->
  o <> OStuck /\
  (forall c a, doc_caches c a = false -> lookup_v gen_table G' c a = lookup_v gen_table G c a) /\
  (forall s, In s tr -> forall c a, ~ In c (footprint doc_composites p) -> doc_caches c a = false ->
             lookup_v gen_table s c a = lookup_v gen_table G c a).
Proof. intros p G G' o tr Hc Hr. exact (run_inv _ _ _ p G G' o tr (prog_ok_of_classes p Hc) Hr). Qed.

(* the leak of linear_operator's cholesky_jitter, as a concrete program of the model *)
Lemma cholesky_jitter_leaks :
  exists args, let '(G', _, _) := run gen_table (PWith "lo.cholesky_jitter" args PSkip) (init_store gen_table) in
    lookup_v gen_table (init_store gen_table) "lo.cholesky_jitter" "_global_half_value" = VK KNone /\
    lookup_v gen_table G' "lo.cholesky_jitter" "_global_half_value" = VK (KNum 1 2).
Proof. exists [("half_value", VK (KNum 1 2))]. vm_compute. split; reflexivity. Qed.

(* documented defaults *)
Lemma defaults_ok :
  map (fun q => match q with (c, m, args) => observe gen_table (init_store gen_table) c m args end) documented_queries
  = map (fun d => VK (snd d)) doc_defaults.
Proof. vm_compute. reflexivity. Qed.
Lemma defaults_cover :
  forallb (fun c => existsb (fun q => String.eqb c (fst (fst q))) documented_queries
                    || negb (isnil (doc_composites c))) (usable gen_table) = true.
Proof. vm_compute. reflexivity. Qed.
