(* C10: KL(N(mp,P) || N(mq,Q)) >= 0 for ALL symmetric positive definite covariances P, Q (no factor
   hypotheses), every n, for the model's own expression
     2 KL = kl_rational + ln det Q - ln det P      ([det] = the Laplace determinant of Base/Exec.v),
   with Qi ANY inverse of Q; and = 0 for equal arguments.  The Cholesky factors that
   Proofs/C10_det.v (kl_nonneg_det) asks for are produced by Base/Cholesky.v. *)
From Coq Require Import Reals Lra Lia Arith.
From GPV Require Import Base.LinAlg Base.Exec Base.Expr Base.Det Base.Psd Base.Cholesky.
From GPV Require Import Models.C10_mvn Proofs.C10_mvn Proofs.C10_kl Proofs.C10_det.
Local Open Scope R_scope.

Notation PDR := (@PD RF ROrd).

Theorem kl_nonneg_pd n (mp mq P Q Qi : @M RF) :
  symmetric n P -> PDR n P -> symmetric n Q -> PDR n Q -> is_inverse n Q Qi ->
  0 < det n P /\ 0 < det n Q /\
  0 <= kl_rational n mp P mq Qi + ln (det n Q) - ln (det n P).
Proof.
  intros HSP HPP HSQ HPQ HQi.
  destruct (pd_cholesky_inverse n P HSP HPP) as (Lp & Lpi & HLp & Hpp & HP & _ & _).
  destruct (pd_cholesky_inverse n Q HSQ HPQ) as (Lq & Li & HLq & Hpq & HQ & HLi & _).
  exact (kl_nonneg_det n mp mq P Q Qi Lp Lq Li HLp HLq Hpp Hpq HLi HP HQ HQi).
Qed.

(* equality case: identical arguments (up to [meq] on the n x n covariance and the n x 1 means);
   needs no definiteness at all, only that Qi inverts Q *)
Theorem kl_zero_eq_args n (mp mq P Q Qi : @M RF) :
  meq n n P Q -> meq n 1 mp mq -> is_inverse n Q Qi ->
  kl_rational n mp P mq Qi + ln (det n Q) - ln (det n P) = 0.
Proof.
  intros HPQ Hm [_ H2].
  rewrite (det_ext n P Q HPQ).
  assert (E : @kl_rational RF n mp P mq Qi = 0).
  { unfold kl_rational.
    rewrite (trace_compat n (mmul n Qi P) mI).
    - rewrite trace_mI.
      assert (Q0 : @quad RF n Qi (msub mp mq) = 0).
      { unfold quad, mmul, mT, msub. apply (@sum_zero RF). intros l Hl.
        rewrite (Hm l O Hl ltac:(lia)). rf. ring. }
      rewrite Q0. rf. ring.
    - transitivity (mmul n Qi Q); [apply mmul_compat_r; exact HPQ|exact H2]. }
  rewrite E. lra.
Qed.

(* the two together *)
Theorem kl_pd_full n (mp mq P Q Qi : @M RF) :
  symmetric n P -> PDR n P -> symmetric n Q -> PDR n Q -> is_inverse n Q Qi ->
  0 < det n P /\ 0 < det n Q /\
  0 <= kl_rational n mp P mq Qi + ln (det n Q) - ln (det n P) /\
  (meq n n P Q -> meq n 1 mp mq ->
   kl_rational n mp P mq Qi + ln (det n Q) - ln (det n P) = 0).
Proof.
  intros HSP HPP HSQ HPQ HQi.
  destruct (kl_nonneg_pd n mp mq P Q Qi HSP HPP HSQ HPQ HQi) as (H1 & H2 & H3).
  split; [exact H1|]. split; [exact H2|]. split; [exact H3|].
  intros HE Hm. apply kl_zero_eq_args; assumption.
Qed.

(* the hypotheses no longer mention factors, and the closed form still IS the Cholesky form the code
   evaluates: for symmetric PD P, Q there ARE Cholesky factors for which
   kl_rational + ln det Q - ln det P = |W|_F^2 + |d|^2 - n - sum_i ln w_ii^2 *)
Theorem kl_pd_has_cholesky_form n (mp mq P Q Qi : @M RF) :
  symmetric n P -> PDR n P -> symmetric n Q -> PDR n Q -> is_inverse n Q Qi ->
  exists Lp Lq Li : @M RF,
    tri_lower n Lp /\ tri_lower n Lq /\
    (forall i, (i < n)%nat -> 0 < Lp i i) /\ (forall i, (i < n)%nat -> 0 < Lq i i) /\
    is_inverse n Lq Li /\
    meq n n (mmul n Lp (mT Lp)) P /\ meq n n (mmul n Lq (mT Lq)) Q /\
    kl_rational n mp P mq Qi + ln (det n Q) - ln (det n P)
    = kl2_chol n (@mmul RF n Li Lp) (fun a => @mmul RF n Li (@msub RF mp mq) a O).
Proof.
  intros HSP HPP HSQ HPQ HQi.
  destruct (pd_cholesky_inverse n P HSP HPP) as (Lp & Lpi & HLp & Hpp & HP & _ & _).
  destruct (pd_cholesky_inverse n Q HSQ HPQ) as (Lq & Li & HLq & Hpq & HQ & HLi & _).
  exists Lp, Lq, Li. repeat (split; [assumption|]).
  exact (kl_closed_eq_cholesky_form n mp mq P Q Qi Lp Lq Li HLp HLq Hpp Hpq HLi HP HQ HQi).
Qed.

(* a symmetric PD covariance is invertible, has positive determinant, and its inverses are symmetric PD *)
Theorem pd_covariance_invertible n (A : @M RF) : symmetric n A -> PDR n A ->
  0 < det n A /\ (exists Ai : @M RF, is_inverse n A Ai) /\
  (forall Ai : @M RF, is_inverse n A Ai -> symmetric n Ai /\ PDR n Ai).
Proof.
  intros HS HP. split; [exact (pd_det_pos n A HS HP)|]. split; [exact (pd_has_inverse n A HS HP)|].
  intros Ai HI. exact (pd_inverse_pd n A Ai HS HP HI).
Qed.

(* non-vacuity: [[2,1],[1,2]] (Base/Cholesky.v: exPD) with its inverse [[2/3,-1/3],[-1/3,2/3]] *)
Definition exPD_inv : @M RF := fun i j => if Nat.eqb i j then 2 / 3 else - (1 / 3).

Lemma ex_kl_pd_hyps : symmetric 2 exPD /\ PDR 2 exPD /\ is_inverse 2 exPD exPD_inv.
Proof.
  destruct ex_pd_hyps_hold as [H1 H2]. split; [exact H1|]. split; [exact H2|].
  split; intros i j Hi Hj; destruct i as [|[|i]]; destruct j as [|[|j]]; try lia;
    unfold mmul, mI, exPD, exPD_inv; cbn; lra.
Qed.
