(* C15: KL(q(u) || p(u)) >= 0 and ELBO <= likelihood term for the MODEL's own KL expression
     2 KL = [kl_unwh_alg n Kinv S mq mz] - n + ln det Kzz - ln det S
   ([det] = the Laplace determinant of Base/Exec.v that [kl_unwh_expr] prints), for every Gaussian
   q(u) = N(mq, S) and prior N(mz, Kzz) whose covariances have Cholesky factors (lower triangular,
   positive diagonal), every size.  Rests on Base/Det.v and Proofs/C10_det.v (kl_nonneg_det).
   The diagonal (mean-field) sum [kl2_diag] of Proofs/C15_kl.v is this expression on diagonal
   matrices. *)
From Coq Require Import Reals Lra Arith Lia List.
From GPV Require Import Base.LinAlg Base.Exec Base.Expr Base.Det.
From GPV Require Import Models.C10_mvn Proofs.C10_mvn Proofs.C10_kl Proofs.C10_det.
From GPV Require Import Models.C02_mll Proofs.C02_mll Models.C14_variational.
From GPV Require Import Models.C15_elbo Proofs.C15_elbo Proofs.C15_real Proofs.C15_kl.
Local Open Scope R_scope.

(* twice the model's KL (the argument of [EMul half] in [kl_unwh_expr], has_cov = true) *)
Definition kl2_model (n : nat) (Kzz Kinv S mq mz : @M RF) : R :=
  @kl_unwh_alg RF n Kinv S mq mz - @fnat RF n + ln (@det RF n Kzz) - ln (@det RF n S).

Theorem kl2_model_nonneg n (Kzz Kinv S mq mz L Li Lq : @M RF) :
  @tri_lower RF n Lq -> @tri_lower RF n L ->
  (forall i, (i < n)%nat -> 0 < Lq i i) -> (forall i, (i < n)%nat -> 0 < L i i) ->
  @is_inverse RF n L Li ->
  @meq RF n n (@mmul RF n Lq (@mT RF Lq)) S -> @meq RF n n (@mmul RF n L (@mT RF L)) Kzz ->
  @is_inverse RF n Kzz Kinv ->
  0 < @det RF n S /\ 0 < @det RF n Kzz /\ 0 <= kl2_model n Kzz Kinv S mq mz.
Proof.
  intros H1 H2 H3 H4 H5 H6 H7 H8.
  destruct (kl_nonneg_det n mq mz S Kzz Kinv Lq L Li H1 H2 H3 H4 H5 H6 H7 H8) as (Ha & Hb & Hc).
  split; [exact Ha|]. split; [exact Hb|].
  unfold kl2_model.
  change (@kl_unwh_alg RF n Kinv S mq mz - @fnat RF n) with (@kl_rational RF n mq S mz Kinv).
  exact Hc.
Qed.

(* the bound along the KL term for every such q(u) *)
Theorem elbo_le_likelihood_term_full n (Kzz Kinv S mq mz L Li Lq : @M RF)
        (ell nb beta nd lp added : R) :
  @tri_lower RF n Lq -> @tri_lower RF n L ->
  (forall i, (i < n)%nat -> 0 < Lq i i) -> (forall i, (i < n)%nat -> 0 < L i i) ->
  @is_inverse RF n L Li ->
  @meq RF n n (@mmul RF n Lq (@mT RF Lq)) S -> @meq RF n n (@mmul RF n L (@mT RF L)) Kzz ->
  @is_inverse RF n Kzz Kinv ->
  0 < beta -> 0 < nd ->
  @elbo_value RF ell nb (/ 2 * kl2_model n Kzz Kinv S mq mz) beta nd lp added
  <= ell / nb + lp / nd - added.
Proof.
  intros H1 H2 H3 H4 H5 H6 H7 H8 Hb Hn. apply elbo_le_without_kl; [|exact Hb|exact Hn].
  destruct (kl2_model_nonneg n Kzz Kinv S mq mz L Li Lq H1 H2 H3 H4 H5 H6 H7 H8) as (_ & _ & H).
  lra.
Qed.

(* ---- the mean-field sum is the model expression on diagonal matrices ------------------- *)
Lemma tri_lower_mdiag n (d : nat -> R) : @tri_lower RF n (@mdiag RF d).
Proof.
  intros i j _ _ Hij. unfold mdiag. destruct (Nat.eqb_spec i j); [lia|reflexivity].
Qed.

Lemma det_mdiag n (d : nat -> R) : @det RF n (@mdiag RF d) = @dprod RF n d.
Proof.
  rewrite (@det_lower_tri RF n _ (tri_lower_mdiag n d)). apply (@dprod_ext RF).
  intros i _. unfold mdiag. rewrite Nat.eqb_refl. reflexivity.
Qed.

Theorem kl2_diag_is_kl2_model n (sq sp : nat -> R) (mq mz : @M RF) :
  (forall i, (i < n)%nat -> 0 < sq i) -> (forall i, (i < n)%nat -> 0 < sp i) ->
  kl2_model n (@mdiag RF sp) (@mdiag RF (fun i => / sp i)) (@mdiag RF sq) mq mz
  = kl2_diag n (fun i => mq i O) sq (fun i => mz i O) sp.
Proof.
  intros Hq Hp. rewrite <- (kl2_diag_is_model_kl n sq sp mq mz Hq Hp).
  unfold kl2_model. rewrite (det_mdiag n sp), (det_mdiag n sq).
  rewrite (ln_dprod n sp Hp), (ln_dprod n sq Hq).
  rewrite (sum_RF_rsum n (fun i => ln (sp i))), (sum_RF_rsum n (fun i => ln (sq i))).
  ring.
Qed.

(* non-vacuity of the hypotheses of [kl2_model_nonneg]: q = prior with the 2x2 factor of C10_det *)
Lemma ex_kl2_model_hyps :
  exists (Kzz Kinv S L Li Lq : @M RF),
    @tri_lower RF 2 Lq /\ @tri_lower RF 2 L /\
    (forall i, (i < 2)%nat -> 0 < Lq i i) /\ (forall i, (i < 2)%nat -> 0 < L i i) /\
    @is_inverse RF 2 L Li /\
    @meq RF 2 2 (@mmul RF 2 Lq (@mT RF Lq)) S /\ @meq RF 2 2 (@mmul RF 2 L (@mT RF L)) Kzz /\
    @is_inverse RF 2 Kzz Kinv.
Proof.
  destruct ex_kl_nonneg_hyps as (Ht & Hp & Hi).
  exists (@mmul RF 2 exR_L (@mT RF exR_L)), (@mmul RF 2 (@mT RF exR_Li) exR_Li),
         (@mmul RF 2 exR_L (@mT RF exR_L)), exR_L, exR_Li, exR_L.
  refine (conj Ht (conj Ht (conj Hp (conj Hp (conj Hi (conj _ (conj _ _))))))).
  - intros i j _ _. reflexivity.
  - intros i j _ _. reflexivity.
  - apply (@gram_inverse RF 2 exR_L exR_Li); [intros i j _ _; reflexivity|exact Hi].
Qed.
