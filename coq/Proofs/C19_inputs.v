(* C19 proofs: gradients with respect to the INPUTS on the generic code paths (diag = True branch of
   Kernel.covar_dist: the distance is the square root of the summed squared differences).
   (1) chain rule: where the distance is positive, the derivative of the Matern / RBF value in one input
       coordinate is  -(d value / d lengthscale) * l * (a - b) / D^2  (D = unscaled distance): the
       hand-written lengthscale derivative determines the input gradient;
   (2) at a COINCIDENT pair (D = 0) inside otherwise different inputs the Matern-3/2 and -5/2 values are
       differentiable in the inputs with derivative 0 - a finite gradient exists (sqrt alone is not
       differentiable there; 0 * inf = NaN is not the answer). *)
From Coq Require Import Arith Lia List Reals Lra.
From Coquelicot Require Import Coquelicot.
From GPV Require Import Base.LinAlg Base.Exec Base.Expr Models.C05_kernels Proofs.C05_kernels
  Proofs.C05_hessian Models.C19_derivs Proofs.C19_derivs.
Local Open Scope R_scope.

(* the distance of the diag branch as a function of one coordinate t of x1 (the other coordinates
   contribute C >= 0 to the sum of squares) *)
Definition dist1 (C b t : R) : R := sqrt (C + (t - b) * (t - b)).

Lemma dist1_pos_sq C b a : 0 < C + (a - b) * (a - b) -> dist1 C b a * dist1 C b a = C + (a - b) * (a - b).
Proof. intros H. unfold dist1. apply sqrt_sqrt. lra. Qed.

Lemma matern_input_chain nu2 (c C b l a : R) : l <> 0 -> 0 < C + (a - b) * (a - b) ->
  is_derive (fun t => @mat_of_l TR nu2 c (dist1 C b t) l) a
            (- @mat_bwd_of_l TR nu2 c (dist1 C b a) l * l * (a - b) / (dist1 C b a * dist1 C b a)).
Proof.
  intros Hl HS.
  assert (HD : 0 < dist1 C b a) by (unfold dist1; apply sqrt_lt_R0; exact HS).
  assert (HD0 : dist1 C b a <> 0) by lra.
  pose proof (dist1_pos_sq C b a HS) as HDD.
  destruct nu2 as [|[|[|[|nu2]]]]; unfoldTR; unfold dist1 in *;
    (auto_derive; [nzside|]);
    change (a + - b) with (a - b) in *;
    set (D := sqrt (C + (a - b) * (a - b))) in *;
    exp_field ltac:(repeat split; assumption).
Qed.

Lemma rbf_input_chain (C b l a : R) : l <> 0 -> 0 < C + (a - b) * (a - b) ->
  is_derive (fun t => @rbf_of_l TR (C + (t - b) * (t - b)) l) a
            (- @rbf_bwd_of_l TR (C + (a - b) * (a - b)) l * l * (a - b) / (C + (a - b) * (a - b))).
Proof.
  intros Hl HS. unfoldTR. auto_derive; [nzside|].
  change (a + - b) with (a - b) in *.
  assert (HS0 : C + (a - b) * (a - b) <> 0) by lra.
  exp_field ltac:(repeat split; assumption).
Qed.

(* ---- coincident pair: C = 0 and a = b *)
Lemma dist1_0 b t : dist1 0 b t * dist1 0 b t = (t - b) * (t - b).
Proof. unfold dist1. rewrite sqrt_sqrt; [ring|]. rewrite Rplus_0_l. apply Rle_0_sqr. Qed.

Lemma matern32_input_coincident (c l b : R) : 0 <= c -> 0 < l ->
  is_derive (fun t => @mat_of_l TR 3 c (dist1 0 b t) l) b 0.
Proof.
  intros Hc Hl. unfoldTR.
  apply (sq_bound_derive _ b (c * c / (l * l))).
  - apply Rmult_le_pos; [nra|]. left. apply Rinv_0_lt_compat. nra.
  - intros t.
    assert (E0 : dist1 0 b b = 0) by (unfold dist1; replace (0 + (b - b) * (b - b)) with 0 by ring; apply sqrt_0).
    rewrite E0. replace (c * 0 / l) with 0 by (field; lra). rewrite Ropp_0, exp_0.
    replace ((0 + 1) * 1) with 1 by ring.
    set (s := c * dist1 0 b t / l).
    assert (Hs : 0 <= s).
    { unfold s. apply Rmult_le_pos; [apply Rmult_le_pos; [exact Hc|unfold dist1; apply sqrt_pos]|].
      left. apply Rinv_0_lt_compat. exact Hl. }
    pose proof (psi_bound s Hs) as B.
    replace ((s + 1) * exp (- s) - 1) with ((1 + s) * exp (- s) - 1) by ring.
    replace (c * c / (l * l) * ((t - b) * (t - b))) with (s * s); [exact B|].
    unfold s. rewrite <- (dist1_0 b t). field. lra.
Qed.

Lemma matern52_input_coincident (c l b : R) : 0 <= c -> 0 < l ->
  is_derive (fun t => @mat_of_l TR 5 c (dist1 0 b t) l) b 0.
Proof.
  intros Hc Hl. unfoldTR.
  apply (sq_bound_derive _ b (4 / 3 * (c * c / (l * l)))).
  - apply Rmult_le_pos; [lra|]. apply Rmult_le_pos; [nra|]. left. apply Rinv_0_lt_compat. nra.
  - intros t.
    assert (E0 : dist1 0 b b = 0) by (unfold dist1; replace (0 + (b - b) * (b - b)) with 0 by ring; apply sqrt_0).
    rewrite E0. replace (c * 0 / l) with 0 by (field; lra). rewrite Ropp_0, exp_0.
    set (s := c * dist1 0 b t / l).
    assert (Hs : 0 <= s).
    { unfold s. apply Rmult_le_pos; [apply Rmult_le_pos; [exact Hc|unfold dist1; apply sqrt_pos]|].
      left. apply Rinv_0_lt_compat. exact Hl. }
    pose proof (psi_bound s Hs) as B. pose proof (exp_neg_le1 s Hs) as He. pose proof (exp_pos (- s)) as Hp.
    replace (4 / 3 * (c * c / (l * l)) * ((t - b) * (t - b))) with (4 / 3 * (s * s)).
    + replace ((s + 1 + s * s / (1 + 1 + 1)) * exp (- s) - (0 + 1 + 0 * 0 / (1 + 1 + 1)) * 1)
        with (((1 + s) * exp (- s) - 1) + s * s / 3 * exp (- s)) by field.
      apply Rabs_le_between in B. apply Rabs_le.
      assert (Hss : 0 <= s * s) by nra.
      split; nra.
    + unfold s. rewrite <- (dist1_0 b t). field. lra.
Qed.

(* non-vacuity of the chain rule: C = 3, b = 0, a = 1: D^2 = 4 > 0 *)
Lemma ex_chain_hyp : 0 < 3 + (1 - 0) * (1 - 0).
Proof. lra. Qed.
