(* C10: KL(p || q) >= 0 in the Cholesky form the code computes (over R), and = 0 for identical arguments. *)
From Coq Require Import Reals Lra Lia Arith.
From GPV Require Import Base.LinAlg Base.Expr Models.C10_mvn Proofs.C10_mvn.
Local Open Scope R_scope.

(* x - 1 - ln x >= 0 for x > 0 *)
Lemma ln_le_minus1 x : 0 < x -> ln x <= x - 1.
Proof.
  intros Hx. pose proof (exp_ineq1_le (ln x)) as H. rewrite exp_ln in H by exact Hx. lra.
Qed.

Fixpoint rsum (n : nat) (f : nat -> R) : R := match n with O => 0 | S k => rsum k f + f k end.

Lemma rsum_nonneg n f : (forall i, (i < n)%nat -> 0 <= f i) -> 0 <= rsum n f.
Proof.
  induction n as [|n IH]; intros H; cbn [rsum]; [lra|].
  assert (0 <= rsum n f) by (apply IH; intros; apply H; lia). specialize (H n ltac:(lia)). lra.
Qed.

Lemma rsum_le n f g : (forall i, (i < n)%nat -> f i <= g i) -> rsum n f <= rsum n g.
Proof.
  induction n as [|n IH]; intros H; cbn [rsum]; [lra|].
  assert (rsum n f <= rsum n g) by (apply IH; intros; apply H; lia). specialize (H n ltac:(lia)). lra.
Qed.

Lemma rsum_ge_term n f k : (k < n)%nat -> (forall i, (i < n)%nat -> 0 <= f i) -> f k <= rsum n f.
Proof.
  induction n as [|n IH]; intros Hk H; [lia|]. cbn [rsum].
  destruct (Nat.eq_dec k n) as [->|Hne].
  - assert (0 <= rsum n f) by (apply rsum_nonneg; intros; apply H; lia). lra.
  - assert (f k <= rsum n f) by (apply IH; [lia|intros; apply H; lia]). specialize (H n ltac:(lia)). lra.
Qed.

Lemma rsum_const n c : rsum n (fun _ => c) = INR n * c.
Proof. induction n as [|n IH]; [cbn; lra|]. cbn [rsum]. rewrite IH, S_INR. lra. Qed.

Lemma rsum_plus n f g : rsum n (fun i => f i + g i) = rsum n f + rsum n g.
Proof. induction n as [|n IH]; cbn [rsum]; [lra|rewrite IH; lra]. Qed.

(* 2 KL(p || q) in the form the code computes it:  W = Lq^-1 Lp (any square matrix with positive
   diagonal -- lower triangular when both factors are Cholesky factors), d = Lq^-1 (mp - mq):
     tr(W W^T) + |d|^2 - n - log det(W W^T),   log det(W W^T) = sum_i ln(w_ii^2) for triangular W *)
Definition kl2_chol (n : nat) (W : nat -> nat -> R) (d : nat -> R) : R :=
  rsum n (fun i => rsum n (fun j => W i j * W i j)) + rsum n (fun i => d i * d i)
  - INR n - rsum n (fun i => ln (W i i * W i i)).

Theorem kl2_chol_nonneg n W d : (forall i, (i < n)%nat -> 0 < W i i) -> 0 <= kl2_chol n W d.
Proof.
  intros Hpos. unfold kl2_chol.
  assert (Hd : 0 <= rsum n (fun i => d i * d i)) by (apply rsum_nonneg; intros; nra).
  assert (H1 : rsum n (fun i => W i i * W i i) <= rsum n (fun i => rsum n (fun j => W i j * W i j))).
  { apply rsum_le. intros i Hi. apply (rsum_ge_term n (fun j => W i j * W i j) i Hi). intros; nra. }
  assert (H2 : rsum n (fun i => ln (W i i * W i i)) <= rsum n (fun i => W i i * W i i - 1)).
  { apply rsum_le. intros i Hi. apply ln_le_minus1. specialize (Hpos i Hi). nra. }
  assert (H3 : rsum n (fun i => W i i * W i i - 1) = rsum n (fun i => W i i * W i i) - INR n).
  { replace (fun i => W i i * W i i - 1) with (fun i => W i i * W i i + (-1)) by reflexivity.
    rewrite rsum_plus, rsum_const. lra. }
  lra.
Qed.

(* equality case: identical arguments (W = I, d = 0) give exactly 0 *)
Theorem kl2_chol_self n : kl2_chol n (fun i j => if Nat.eqb i j then 1 else 0) (fun _ => 0) = 0.
Proof.
  unfold kl2_chol.
  assert (A : forall m, rsum m (fun i => rsum n (fun j => (if Nat.eqb i j then 1 else 0) * (if Nat.eqb i j then 1 else 0)))
              = rsum m (fun i => if (i <? n)%nat then 1 else 0)).
  { intros m. induction m as [|m IH]; [reflexivity|]. cbn [rsum]. rewrite IH. f_equal.
    clear IH. induction n as [|k IHk]; [reflexivity|]. cbn [rsum]. rewrite IHk.
    destruct (Nat.eqb_spec m k) as [->|Hne].
    - rewrite Nat.ltb_irrefl. replace (k <? S k)%nat with true by (symmetry; apply Nat.ltb_lt; lia). lra.
    - destruct (Nat.ltb_spec m k); destruct (Nat.ltb_spec m (S k)); try lia; lra. }
  rewrite A.
  assert (B : forall m, (m <= n)%nat -> rsum m (fun i => if (i <? n)%nat then 1 else 0) = INR m).
  { induction m as [|m IH]; intros Hm; [reflexivity|]. cbn [rsum]. rewrite IH by lia.
    replace (m <? n)%nat with true by (symmetry; apply Nat.ltb_lt; lia). rewrite S_INR. lra. }
  rewrite B by lia.
  assert (Cz : rsum n (fun _ => 0 * 0) = 0) by (rewrite rsum_const; lra).
  assert (D : rsum n (fun i => ln ((if Nat.eqb i i then 1 else 0) * (if Nat.eqb i i then 1 else 0))) = 0).
  { rewrite (rsum_const n 0) at 1 || idtac.
    assert (E : forall m, rsum m (fun i => ln ((if Nat.eqb i i then 1 else 0) * (if Nat.eqb i i then 1 else 0))) = 0).
    { induction m as [|m IH]; [reflexivity|]. cbn [rsum]. rewrite IH, Nat.eqb_refl, Rmult_1_l, ln_1. lra. }
    apply E. }
  rewrite Cz, D. lra.
Qed.

(* ---- link with the model's KL: its rational part IS the Cholesky form (generic field, all n) *)
Section Chol.
Context {K : Fld}.
Add Field Ff_c10kl : (@FT K).
Local Open Scope fld_scope.

Lemma trace_cyclic n m (A B : M) : trace n (mmul m A B) = trace m (mmul n B A).
Proof.
  unfold trace, mmul. rewrite sum_swap. apply sum_ext. intros l _. apply sum_ext. intros i _. ring.
Qed.

(* tr( (Li^T Li) (Lp Lp^T) ) = tr( W W^T ) for W = Li Lp *)
Lemma trace_chol n (Lp Li : M) :
  trace n (mmul n (mmul n (mT Li) Li) (mmul n Lp (mT Lp)))
  = trace n (mmul n (mmul n Li Lp) (mT (mmul n Li Lp))).
Proof.
  rewrite (trace_compat n _ (mmul n (mT Li) (mmul n Li (mmul n Lp (mT Lp))))) by apply mmul_assoc.
  rewrite trace_cyclic.
  apply trace_compat.
  rewrite (mT_mmul n n n Li Lp).
  rewrite (mmul_assoc n n n n Li (mmul n Lp (mT Lp)) (mT Li)).
  rewrite (mmul_assoc n n n n Lp (mT Lp) (mT Li)).
  rewrite (mmul_assoc n n n n Li Lp (mmul n (mT Lp) (mT Li))). reflexivity.
Qed.

(* r^T (Li^T Li) r = |Li r|^2 *)
Lemma quad_chol n (Li r : M) :
  quad n (mmul n (mT Li) Li) r = sum n (fun a => mmul n Li r a O * mmul n Li r a O).
Proof.
  unfold quad.
  transitivity (mmul n (mT (mmul n Li r)) (mmul n Li r) O O); [|reflexivity].
  assert (E : meq 1 1 (mmul n (mT r) (mmul n (mmul n (mT Li) Li) r)) (mmul n (mT (mmul n Li r)) (mmul n Li r))).
  { rewrite (mT_mmul 1 n n Li r).
    rewrite (mmul_assoc n 1 n n (mT Li) Li r).
    rewrite (mmul_assoc 1 1 n n (mT r) (mT Li) (mmul n Li r)). reflexivity. }
  apply E; lia.
Qed.

Theorem kl_rational_chol n (mp mq Lp Li : M) :
  kl_rational n mp (mmul n Lp (mT Lp)) mq (mmul n (mT Li) Li)
  = sum n (fun i => sum n (fun j => mmul n Li Lp i j * mmul n Li Lp i j))
    + sum n (fun a => mmul n Li (msub mp mq) a O * mmul n Li (msub mp mq) a O) - nat_f n.
Proof.
  unfold kl_rational. rewrite trace_chol, quad_chol. reflexivity.
Qed.
End Chol.

Lemma rsum_ext m f g : (forall i, f i = g i) -> rsum m f = rsum m g.
Proof. intros H. induction m as [|m IH]; [reflexivity|]. cbn [rsum]. rewrite IH, H. reflexivity. Qed.

Lemma sum_RF_rsum n (f : nat -> R) : @sum RF n f = rsum n f.
Proof. induction n as [|n IH]; [reflexivity|]. cbn [sum rsum]. rewrite IH. reflexivity. Qed.

Lemma nat_f_RF n : @nat_f RF n = INR n.
Proof. unfold nat_f. rewrite sum_RF_rsum, rsum_const. cbn. lra. Qed.

(* 2 KL(p || q) of the model, with P = Lp Lp^T, Q^-1 = Li^T Li (Li = Lq^-1) and the log-det difference
   ln det Q - ln det P written through the diagonal of W = Li Lp, is non-negative *)
Theorem kl_model_nonneg n (mp mq Lp Li : @M RF) :
  (forall i, (i < n)%nat -> 0 < @mmul RF n Li Lp i i) ->
  0 <= @kl_rational RF n mp (@mmul RF n Lp (@mT RF Lp)) mq (@mmul RF n (@mT RF Li) Li)
       - rsum n (fun i => ln (@mmul RF n Li Lp i i * @mmul RF n Li Lp i i)).
Proof.
  intros Hpos. rewrite kl_rational_chol, nat_f_RF, !sum_RF_rsum.
  pose proof (kl2_chol_nonneg n (@mmul RF n Li Lp) (fun a => @mmul RF n Li (@msub RF mp mq) a O) Hpos) as H.
  unfold kl2_chol in H.
  replace (rsum n (fun i => @sum RF n (fun j => @fmul RF (@mmul RF n Li Lp i j) (@mmul RF n Li Lp i j))))
    with (rsum n (fun i => rsum n (fun j => @mmul RF n Li Lp i j * @mmul RF n Li Lp i j))).
  - cbn [fadd fsub fmul RF] in *.
    repeat match goal with |- context [@sum RF n ?f] =>
      replace (@sum RF n f) with (rsum n f) by (symmetry; apply sum_RF_rsum) end.
    lra.
  - apply rsum_ext. intros i. symmetry. apply (sum_RF_rsum n (fun j => @mmul RF n Li Lp i j * @mmul RF n Li Lp i j)).
Qed.
