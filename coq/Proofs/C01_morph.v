(* C01: the executed model (QcF) is the real-number model (RF) on the mapped inputs.
   Generic over a field morphism; the instance used by the statements is Q2R' (Base/Morph.v). *)
From Coq Require Import Arith List ZArith QArith Qcanon Reals.
From GPV Require Import Base.LinAlg Base.Exec Base.Expr Base.Det Base.Morph
  Models.C01_posterior Proofs.C01_posterior.
Import ListNotations.

Section C01Morph.
Context {K1 K2 : Fld} (phi : @car K1 -> @car K2) {HM : FldMorph K1 K2 phi}.
Local Notation mp := (mmap phi).

Ltac c01_unfold :=
  unfold marginal_cov, residual_cov, residual_cross in *;
  unfold post_mean, post_cov, cov_closed, cov_root, cov_skipped in *;
  unfold mean_cache, train_covar, Kxx, Kxs, Ksx, Kss, mmap in *.

Lemma train_covar_morph KJ S i j :
  phi (train_covar KJ S i j) = train_covar (mp KJ) (mp S) i j.
Proof. c01_unfold. morph_pt. Qed.

Lemma mean_cache_morph n muJ Ainv y i j :
  phi (mean_cache n muJ Ainv y i j) = mean_cache n (mp muJ) (mp Ainv) (mp y) i j.
Proof. c01_unfold. morph_pt. Qed.

Lemma post_mean_morph n KJ muJ Ainv y i j :
  phi (post_mean n KJ muJ Ainv y i j) = post_mean n (mp KJ) (mp muJ) (mp Ainv) (mp y) i j.
Proof. c01_unfold. morph_pt. Qed.

Lemma post_cov_morph n KJ Ainv i j :
  phi (post_cov n KJ Ainv i j) = post_cov n (mp KJ) (mp Ainv) i j.
Proof. c01_unfold. morph_pt. Qed.

Lemma cov_closed_morph n KJ Ainv i j :
  phi (cov_closed n KJ Ainv i j) = cov_closed n (mp KJ) (mp Ainv) i j.
Proof. c01_unfold. morph_pt. Qed.

Lemma cov_root_morph n r KJ R i j :
  phi (cov_root n r KJ R i j) = cov_root n r (mp KJ) (mp R) i j.
Proof. c01_unfold. morph_pt. Qed.

Lemma marginal_cov_morph n KJ Ainv Ss i j :
  phi (marginal_cov n KJ Ainv Ss i j) = marginal_cov n (mp KJ) (mp Ainv) (mp Ss) i j.
Proof. c01_unfold. morph_pt. Qed.

Lemma train_inverse_morph n KJ S Ainv :
  is_inverse n (train_covar KJ S) Ainv -> is_inverse n (train_covar (mp KJ) (mp S)) (mp Ainv).
Proof.
  intros H. apply (morph_inverse_of phi n _ _ _ H). intros i j _ _. apply train_covar_morph.
Qed.

End C01Morph.

Lemma model_commutes_with_field_morphisms (K1 K2 : Fld) (phi : @car K1 -> @car K2) :
  FldMorph K1 K2 phi ->
  forall n (KJ muJ Ainv y Ss : @M K1) i j,
    phi (@post_mean K1 n KJ muJ Ainv y i j)
      = @post_mean K2 n (mmap phi KJ) (mmap phi muJ) (mmap phi Ainv) (mmap phi y) i j /\
    phi (@post_cov K1 n KJ Ainv i j) = @post_cov K2 n (mmap phi KJ) (mmap phi Ainv) i j /\
    phi (@marginal_cov K1 n KJ Ainv Ss i j)
      = @marginal_cov K2 n (mmap phi KJ) (mmap phi Ainv) (mmap phi Ss) i j.
Proof.
  intros H n KJ muJ Ainv y Ss i j.
  exact (conj (@post_mean_morph K1 K2 phi H n KJ muJ Ainv y i j)
        (conj (@post_cov_morph K1 K2 phi H n KJ Ainv i j) (@marginal_cov_morph K1 K2 phi H n KJ Ainv Ss i j))).
Qed.

Lemma Q2R_is_field_morphism : FldMorph QcF RF Q2R' /\ (forall x y, Q2R' x = Q2R' y -> x = y).
Proof. exact (conj Q2R_morph Q2R'_inj). Qed.

(* the posterior does not depend on WHICH inverse of the train covariance is used *)
Section C01Inv.
Context {K : Fld}.
Lemma post_mean_inv_irrelevant n t KJ muJ Ainv Ainv' y : meq n n Ainv Ainv' ->
  meq t 1 (post_mean n KJ muJ Ainv y) (post_mean n KJ muJ Ainv' y).
Proof.
  intros H. unfold post_mean, mean_cache. apply madd_compat; [|reflexivity].
  apply mmul_compat_r. apply mmul_compat_l. exact H.
Qed.
Lemma post_cov_inv_irrelevant n t KJ Ainv Ainv' : meq n n Ainv Ainv' ->
  meq t t (post_cov n KJ Ainv) (post_cov n KJ Ainv').
Proof.
  intros H. unfold post_cov. apply msub_compat; [reflexivity|].
  apply mmul_compat_r. apply mmul_compat_l. exact H.
Qed.
End C01Inv.

(* ---- the instance QcF -> RF, stated on what [run_posterior] executes ---------------------- *)
Lemma run_posterior_unfold n t kj mu s y :
  run_posterior (n, t, kj, mu, s, y) =
  match inv_checked n (mat n n (train_covar (@of_list QcF kj) (@of_list QcF s))) with
  | None => [0%Z]
  | Some Ainv =>
      1%Z :: ser_mat t 1 (post_mean n (@of_list QcF kj) (@vec_of_list QcF mu) Ainv (@vec_of_list QcF y))
          ++ ser_mat t t (post_cov n (@of_list QcF kj) Ainv)
  end.
Proof. reflexivity. Qed.

(* Whenever the executable wrapper gets past its certificate check, the inverse it used maps to
   a real inverse of the real train covariance, and the rationals it prints are, read as reals,
   the real-number posterior mean / covariance / marginal of the real-number inputs - computed
   with ANY real inverse AinvR of the real train covariance (so: the Gaussian conditional over R,
   by c01_conditional_predictor_unique / c01_conditional_residual_cov at K := RF). *)
Lemma executed_model_is_real_model n t (KJ muJ S Y Ainv : @M QcF) :
  inv_checked n (mat n n (train_covar KJ S)) = Some Ainv ->
  is_inverse n (@train_covar RF (mapR KJ) (mapR S)) (mapR Ainv) /\
  forall AinvR : @M RF, is_inverse n (@train_covar RF (mapR KJ) (mapR S)) AinvR ->
    meq t 1 (mapR (post_mean n KJ muJ Ainv Y)) (@post_mean RF n (mapR KJ) (mapR muJ) AinvR (mapR Y)) /\
    meq t t (mapR (post_cov n KJ Ainv)) (@post_cov RF n (mapR KJ) AinvR) /\
    forall Ss, meq t t (mapR (marginal_cov n KJ Ainv Ss)) (@marginal_cov RF n (mapR KJ) AinvR (mapR Ss)).
Proof.
  intros Hc. apply inv_checked_sound in Hc.
  assert (HA : is_inverse n (train_covar KJ S) Ainv).
  { destruct Hc as [H1 H2]. split.
    - transitivity (mmul n (mat n n (train_covar KJ S)) Ainv); [|exact H1].
      apply mmul_compat_l. symmetry. apply mat_meq.
    - transitivity (mmul n Ainv (mat n n (train_covar KJ S))); [|exact H2].
      apply mmul_compat_r. symmetry. apply mat_meq. }
  pose proof (@train_inverse_morph QcF RF Q2R' _ n KJ S Ainv HA) as HR.
  split; [exact HR|]. intros AinvR HR'.
  assert (HE : meq n n (mapR Ainv) AinvR) by (apply (inverse_unique n _ _ _ HR HR')).
  split; [|split].
  - transitivity (@post_mean RF n (mapR KJ) (mapR muJ) (mapR Ainv) (mapR Y)).
    + intros i j _ _. apply (@post_mean_morph QcF RF Q2R' _).
    + apply post_mean_inv_irrelevant. exact HE.
  - transitivity (@post_cov RF n (mapR KJ) (mapR Ainv)).
    + intros i j _ _. apply (@post_cov_morph QcF RF Q2R' _).
    + apply post_cov_inv_irrelevant. exact HE.
  - intros Ss. transitivity (@marginal_cov RF n (mapR KJ) (mapR Ainv) (mapR Ss)).
    + intros i j _ _. apply (@marginal_cov_morph QcF RF Q2R' _).
    + unfold marginal_cov. apply madd_compat; [|reflexivity].
      apply post_cov_inv_irrelevant. exact HE.
Qed.

(* non-vacuity: a 1+1 point problem on which the certificate check succeeds *)
Definition exm_KJ : @M QcF := @of_list QcF [[qc 2 1; qc 1 1]; [qc 1 1; qc 3 1]].
Definition exm_S : @M QcF := @of_list QcF [[qc 1 2]].
Lemma ex_executed_model_hyp :
  exists Ainv, inv_checked 1 (mat 1 1 (train_covar exm_KJ exm_S)) = Some Ainv /\
    Ainv 0%nat 0%nat = qc 2 5.
Proof. eexists. split; [vm_compute; reflexivity|]. vm_compute. reflexivity. Qed.
