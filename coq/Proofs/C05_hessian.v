(* C05 proofs, second part: EVERY block of RBFKernelGrad / RBFKernelGradGrad is the stated
   iterated partial derivative (general "one more derivative" step in x_i and in y_j), the
   Matern-5/2 derivative kernel at coincident points (r = 0) and its Hessian block, the
   polynomial derivative kernel's y- and Hessian blocks. *)
From Coq Require Import Arith Lia Ring Field List ZArith QArith Qcanon Reals Bool Lra Qreals.
From Coquelicot Require Import Coquelicot.
From GPV Require Import Base.LinAlg Base.Exec Base.Expr Models.C05_kernels Proofs.C05_kernels.
Import ListNotations.
Local Open Scope R_scope.

(* equations whose carrier is displayed as a Coquelicot structure / [tc]: present them over R *)
Ltac asR := change (@tc TR) with R in *; match goal with |- @eq _ ?a ?b => change (@eq R a b) end.

(* ------------------------------------------------------------------ products with one varying factor *)
Lemma tprodR_split d (f : nat -> R) i : (i < d)%nat ->
  @tprod TR d f = @tprod TR d (fun m => if Nat.eqb m i then 1 else f m) * f i.
Proof.
  induction d as [|d IH]; intros Hi; [lia|]. cbn [tprod tmul TR].
  destruct (Nat.eq_dec i d) as [->|Hne].
  - rewrite Nat.eqb_refl.
    rewrite (tprodR_ext d (fun m => if Nat.eqb m d then 1 else f m) f).
    + change (@tc TR) with R in *. ring.
    + intros m Hm. destruct (Nat.eqb_spec m d); [lia|reflexivity].
  - rewrite IH by lia. destruct (Nat.eqb_spec d i); [lia|]. change (@tc TR) with R in *. ring.
Qed.

(* ------------------------------------------------------------------ RBF: one more derivative *)
(* the 1-d Hermite-type factors: h_{n+1} = s h_n' - u h_n, n <= 3 *)
Lemma rbf_h_step_x (n : nat) (C b l a : R) : (n <= 3)%nat -> l <> 0 ->
  is_derive (fun t => @rbf_h TR n ((t - b) / (l * l)) (1 / (l * l))
                      * exp (- ((C + ((t - b) / l) * ((t - b) / l)) / (1 + 1)))) a
            (@rbf_h TR (S n) ((a - b) / (l * l)) (1 / (l * l))
             * exp (- ((C + ((a - b) / l) * ((a - b) / l)) / (1 + 1)))).
Proof.
  intros Hn Hl.
  destruct n as [|[|[|[|n]]]]; [| | | |lia];
  cbn [rbf_h tipow tnat]; unfold tsq; cbn [tadd tsub tmul tneg t1 TR]; change (@tc TR) with R in *;
  (auto_derive; [repeat split; try exact I; try exact Hl; apply Rmult_integral_contrapositive_currified; exact Hl|]);
  match goal with |- context [exp ?u] =>
    replace u with (- ((C + (a - b) / l * ((a - b) / l)) / (1 + 1))) by (field; exact Hl) end;
  set (e := exp _); field; exact Hl.
Qed.

Lemma rbf_h_step_y (n : nat) (C a0 l b : R) : (n <= 3)%nat -> l <> 0 ->
  is_derive (fun t => @rbf_h TR n ((a0 - t) / (l * l)) (1 / (l * l))
                      * exp (- ((C + ((a0 - t) / l) * ((a0 - t) / l)) / (1 + 1)))) b
            (- (@rbf_h TR (S n) ((a0 - b) / (l * l)) (1 / (l * l))
                * exp (- ((C + ((a0 - b) / l) * ((a0 - b) / l)) / (1 + 1))))).
Proof.
  intros Hn Hl.
  destruct n as [|[|[|[|n]]]]; [| | | |lia];
  cbn [rbf_h tipow tnat]; unfold tsq; cbn [tadd tsub tmul tneg t1 TR]; change (@tc TR) with R in *;
  (auto_derive; [repeat split; try exact I; try exact Hl; apply Rmult_integral_contrapositive_currified; exact Hl|]);
  match goal with |- context [exp ?u] =>
    replace u with (- ((C + (a0 - b) / l * ((a0 - b) / l)) / (1 + 1))) by (field; exact Hl) end;
  set (e := exp _); field; exact Hl.
Qed.

(* the per-dimension factor of an entry *)
Definition rbf_fac (d : nat) (x y l : nat -> R) (a b m : nat) : R :=
  let h := @rbf_h TR (ord d a m + ord d b m) ((x m - y m) / (l m * l m)) (1 / (l m * l m)) in
  if Nat.odd (ord d b m) then - h else h.

Lemma rbf_entry_fac d x y l a b :
  @rbf_deriv_entry TR d x y l a b = @tprod TR d (rbf_fac d x y l a b) * @k_rbf TR d x y l.
Proof. reflexivity. Qed.

Lemma rbf_fac_upd_x_other d x y l a b i t m : m <> i ->
  rbf_fac d (upd x i t) y l a b m = rbf_fac d x y l a b m.
Proof. intros H. unfold rbf_fac. rewrite upd_other by exact H. reflexivity. Qed.
Lemma rbf_fac_upd_y_other d x y l a b j t m : m <> j ->
  rbf_fac d x (upd y j t) l a b m = rbf_fac d x y l a b m.
Proof. intros H. unfold rbf_fac. rewrite upd_other by exact H. reflexivity. Qed.

(* GENERAL STEP IN x_i: if output index a' asks for one more derivative in x_i than a does (and
   the same in every other dimension), entry (a', b) is the partial derivative in x_i of entry
   (a, b).  Total order in dimension i at most 4 (all that the layouts can express). *)
Lemma rbf_step_x d x y l i a a' b t0 : (i < d)%nat -> l i <> 0 ->
  (forall m, (m < d)%nat -> ord d a' m = (ord d a m + if Nat.eqb m i then 1 else 0)%nat) ->
  (ord d a i + ord d b i <= 3)%nat ->
  is_derive (fun t => @rbf_deriv_entry TR d (upd x i t) y l a b) t0
            (@rbf_deriv_entry TR d (upd x i t0) y l a' b).
Proof.
  intros Hi Hl Hord Hle.
  set (A := @tprod TR d (fun m => if Nat.eqb m i then 1 else rbf_fac d x y l a b m)).
  set (C := @sqd TR d (upd x i (y i)) y l).
  set (n := (ord d a i + ord d b i)%nat) in *.
  assert (EA : forall t a1, (forall m, (m < d)%nat -> m <> i -> ord d a1 m = ord d a m) ->
             @tprod TR d (fun m => if Nat.eqb m i then 1 else rbf_fac d (upd x i t) y l a1 b m) = A).
  { intros t a1 H1. apply tprodR_ext. intros m Hm. destruct (Nat.eqb_spec m i) as [|Hne]; [reflexivity|].
    rewrite rbf_fac_upd_x_other by exact Hne. unfold rbf_fac. rewrite H1 by assumption. reflexivity. }
  assert (EK : forall t, @k_rbf TR d (upd x i t) y l
                         = exp (- ((C + ((t - y i) / l i) * ((t - y i) / l i)) / (1 + 1)))).
  { intros t. rewrite k_rbf_R, (sqd_upd_x d x y l i t Hi). reflexivity. }
  apply (is_derive_ext (fun t => A * ((if Nat.odd (ord d b i) then -1 else 1) *
           (@rbf_h TR n ((t - y i) / (l i * l i)) (1 / (l i * l i))
            * exp (- ((C + ((t - y i) / l i) * ((t - y i) / l i)) / (1 + 1))))))).
  { intros t. rewrite rbf_entry_fac, (tprodR_split d _ i Hi), (EA t a) by (intros; reflexivity).
    rewrite EK. unfold rbf_fac. rewrite upd_same. fold n. change (@tc TR) with R in *.
    destruct (Nat.odd (ord d b i)); asR; ring. }
  rewrite rbf_entry_fac, (tprodR_split d _ i Hi), (EA t0 a').
  2:{ intros m Hm Hne. rewrite Hord by exact Hm. destruct (Nat.eqb_spec m i); [contradiction|lia]. }
  rewrite EK. unfold rbf_fac at 1. rewrite upd_same, (Hord i Hi), Nat.eqb_refl.
  replace (ord d a i + 1 + ord d b i)%nat with (S n) by (unfold n; lia).
  change (@tc TR) with R in *.
  replace (A * (if Nat.odd (ord d b i)
                then - @rbf_h TR (S n) ((t0 - y i) / (l i * l i)) (1 / (l i * l i))
                else @rbf_h TR (S n) ((t0 - y i) / (l i * l i)) (1 / (l i * l i)))
           * exp (- ((C + (t0 - y i) / l i * ((t0 - y i) / l i)) / (1 + 1))))
    with (A * ((if Nat.odd (ord d b i) then -1 else 1) *
          (@rbf_h TR (S n) ((t0 - y i) / (l i * l i)) (1 / (l i * l i))
           * exp (- ((C + (t0 - y i) / l i * ((t0 - y i) / l i)) / (1 + 1))))))
    by (destruct (Nat.odd (ord d b i)); ring).
  apply (is_derive_scal (fun t => (if Nat.odd (ord d b i) then -1 else 1) * _) t0 A).
  apply (is_derive_scal _ t0 (if Nat.odd (ord d b i) then -1 else 1)).
  apply rbf_h_step_x; assumption.
Qed.

(* GENERAL STEP IN y_j *)
Lemma rbf_step_y d x y l j a b b' t0 : (j < d)%nat -> l j <> 0 ->
  (forall m, (m < d)%nat -> ord d b' m = (ord d b m + if Nat.eqb m j then 1 else 0)%nat) ->
  (ord d a j + ord d b j <= 3)%nat ->
  is_derive (fun t => @rbf_deriv_entry TR d x (upd y j t) l a b) t0
            (@rbf_deriv_entry TR d x (upd y j t0) l a b').
Proof.
  intros Hj Hl Hord Hle.
  set (A := @tprod TR d (fun m => if Nat.eqb m j then 1 else rbf_fac d x y l a b m)).
  set (C := @sqd TR d x (upd y j (x j)) l).
  set (n := (ord d a j + ord d b j)%nat) in *.
  assert (EA : forall t b1, (forall m, (m < d)%nat -> m <> j -> ord d b1 m = ord d b m) ->
             @tprod TR d (fun m => if Nat.eqb m j then 1 else rbf_fac d x (upd y j t) l a b1 m) = A).
  { intros t b1 H1. apply tprodR_ext. intros m Hm. destruct (Nat.eqb_spec m j) as [|Hne]; [reflexivity|].
    rewrite rbf_fac_upd_y_other by exact Hne. unfold rbf_fac. rewrite H1 by assumption. reflexivity. }
  assert (EK : forall t, @k_rbf TR d x (upd y j t) l
                         = exp (- ((C + ((x j - t) / l j) * ((x j - t) / l j)) / (1 + 1)))).
  { intros t. rewrite k_rbf_R, (sqd_upd_y d x y l j t Hj). reflexivity. }
  apply (is_derive_ext (fun t => A * ((if Nat.odd (ord d b j) then -1 else 1) *
           (@rbf_h TR n ((x j - t) / (l j * l j)) (1 / (l j * l j))
            * exp (- ((C + ((x j - t) / l j) * ((x j - t) / l j)) / (1 + 1))))))).
  { intros t. rewrite rbf_entry_fac, (tprodR_split d _ j Hj), (EA t b) by (intros; reflexivity).
    rewrite EK. unfold rbf_fac. rewrite upd_same. fold n. change (@tc TR) with R in *.
    destruct (Nat.odd (ord d b j)); asR; ring. }
  rewrite rbf_entry_fac, (tprodR_split d _ j Hj), (EA t0 b').
  2:{ intros m Hm Hne. rewrite Hord by exact Hm. destruct (Nat.eqb_spec m j); [contradiction|lia]. }
  rewrite EK. unfold rbf_fac at 1. rewrite upd_same, (Hord j Hj), Nat.eqb_refl.
  replace (ord d a j + (ord d b j + 1))%nat with (S n) by (unfold n; lia).
  rewrite Nat.add_1_r, Nat.odd_succ, <- Nat.negb_odd.
  change (@tc TR) with R in *.
  replace (A * (if negb (Nat.odd (ord d b j))
                then - @rbf_h TR (S n) ((x j - t0) / (l j * l j)) (1 / (l j * l j))
                else @rbf_h TR (S n) ((x j - t0) / (l j * l j)) (1 / (l j * l j)))
           * exp (- ((C + (x j - t0) / l j * ((x j - t0) / l j)) / (1 + 1))))
    with (A * ((if Nat.odd (ord d b j) then -1 else 1) *
          (- (@rbf_h TR (S n) ((x j - t0) / (l j * l j)) (1 / (l j * l j))
              * exp (- ((C + (x j - t0) / l j * ((x j - t0) / l j)) / (1 + 1)))))))
    by (destruct (Nat.odd (ord d b j)); cbn [negb]; ring).
  apply (is_derive_scal (fun t => (if Nat.odd (ord d b j) then -1 else 1) * _) t0 A).
  apply (is_derive_scal _ t0 (if Nat.odd (ord d b j) then -1 else 1)).
  apply rbf_h_step_y; assumption.
Qed.

(* the orders the two layouts put on the dimensions *)
Lemma ord_le2 d c m : (ord d c m <= 2)%nat.
Proof. unfold ord. destruct (Nat.eqb c (S m)); [lia|]. destruct (Nat.eqb c (S (d + m))); lia. Qed.
Lemma ord_grad2 d i m : (i < d)%nat -> (m < d)%nat ->
  ord d (S (d + i)) m = if Nat.eqb m i then 2%nat else 0%nat.
Proof.
  intros Hi Hm. unfold ord. cbn [Nat.eqb].
  destruct (Nat.eqb_spec (d + i) m); [lia|].
  destruct (Nat.eqb_spec (d + i) (d + m)); destruct (Nat.eqb_spec m i); try lia; reflexivity.
Qed.

(* the four instances that generate every block of RBFKernelGrad and RBFKernelGradGrad:
   for EVERY other output index *)
Lemma rbf_x_first d x y l i b t0 : (i < d)%nat -> l i <> 0 ->
  is_derive (fun t => @rbf_deriv_entry TR d (upd x i t) y l 0 b) t0
            (@rbf_deriv_entry TR d (upd x i t0) y l (S i) b).
Proof.
  intros Hi Hl. apply rbf_step_x; try assumption.
  - intros m Hm. rewrite ord_grad, ord_0 by exact Hi. reflexivity.
  - rewrite ord_0. pose proof (ord_le2 d b i). lia.
Qed.
Lemma rbf_x_second d x y l i b t0 : (i < d)%nat -> l i <> 0 ->
  is_derive (fun t => @rbf_deriv_entry TR d (upd x i t) y l (S i) b) t0
            (@rbf_deriv_entry TR d (upd x i t0) y l (S (d + i)) b).
Proof.
  intros Hi Hl. apply rbf_step_x; try assumption.
  - intros m Hm. rewrite ord_grad2, ord_grad by assumption. destruct (Nat.eqb m i); reflexivity.
  - rewrite ord_grad, Nat.eqb_refl by exact Hi. pose proof (ord_le2 d b i). lia.
Qed.
Lemma rbf_y_first d x y l j a t0 : (j < d)%nat -> l j <> 0 ->
  is_derive (fun t => @rbf_deriv_entry TR d x (upd y j t) l a 0) t0
            (@rbf_deriv_entry TR d x (upd y j t0) l a (S j)).
Proof.
  intros Hj Hl. apply rbf_step_y; try assumption.
  - intros m Hm. rewrite ord_grad, ord_0 by exact Hj. reflexivity.
  - rewrite ord_0. pose proof (ord_le2 d a j). lia.
Qed.
Lemma rbf_y_second d x y l j a t0 : (j < d)%nat -> l j <> 0 ->
  is_derive (fun t => @rbf_deriv_entry TR d x (upd y j t) l a (S j)) t0
            (@rbf_deriv_entry TR d x (upd y j t0) l a (S (d + j))).
Proof.
  intros Hj Hl. apply rbf_step_y; try assumption.
  - intros m Hm. rewrite ord_grad2, ord_grad by assumption. destruct (Nat.eqb m j); reflexivity.
  - rewrite ord_grad, Nat.eqb_refl by exact Hj. pose proof (ord_le2 d a j). lia.
Qed.

(* ------------------------------------------------------------------ tools for coincident points *)
Lemma is_derive_eq (f : R -> R) (x v v' : R) : is_derive f x v -> v = v' -> is_derive f x v'.
Proof. intros H <-. exact H. Qed.

(* |f t - f a| <= K (t - a)^2 everywhere  ==>  f'(a) = 0 *)
Lemma sq_bound_derive (f : R -> R) (a K : R) : 0 <= K ->
  (forall t, Rabs (f t - f a) <= K * ((t - a) * (t - a))) -> is_derive f a 0.
Proof.
  intros HK H. apply is_derive_Reals. intros eps Heps.
  assert (Hd : 0 < eps / (K + 1)) by (apply Rdiv_lt_0_compat; lra).
  exists (mkposreal _ Hd). intros h Hh Hlt. cbn [pos] in Hlt.
  rewrite Rminus_0_r. unfold Rdiv. rewrite Rabs_mult, Rabs_inv.
  pose proof (H (a + h)) as B. replace (a + h - a) with h in B by ring.
  assert (Hah : 0 < Rabs h) by (apply Rabs_pos_lt; exact Hh).
  assert (Hsq : h * h = Rabs h * Rabs h).
  { unfold Rabs. destruct (Rcase_abs h); ring. }
  rewrite Hsq in B.
  apply Rle_lt_trans with (K * Rabs h).
  - apply Rmult_le_reg_r with (Rabs h); [exact Hah|].
    rewrite Rmult_assoc, Rinv_l by lra. lra.
  - assert (E : eps = eps / (K + 1) * (K + 1)) by (field; lra).
    assert (K * Rabs h <= K * (eps / (K + 1))) by (apply Rmult_le_compat_l; lra).
    assert (K * (eps / (K + 1)) < eps / (K + 1) * (K + 1)) by nra. lra.
Qed.

Lemma exp_neg_le1 s : 0 <= s -> exp (- s) <= 1.
Proof.
  intros [H|<-]; [|rewrite Ropp_0, exp_0; lra].
  rewrite <- exp_0. left. apply exp_increasing. lra.
Qed.

(* psi(s) = (1 + s) e^-s is 1 - O(s^2) *)
Lemma psi_bound s : 0 <= s -> Rabs ((1 + s) * exp (- s) - 1) <= s * s.
Proof.
  intros Hs.
  destruct (MVT_gen (fun u => (1 + u) * exp (- u)) 0 s (fun u => - u * exp (- u))) as [c [Hc E]].
  - intros u _. auto_derive; [exact I|]. ring.
  - intros u _. apply derivable_continuous_pt. exists (- u * exp (- u)).
    apply is_derive_Reals. auto_derive; [exact I|]. ring.
  - rewrite Rmin_left, Rmax_right in Hc by lra.
    rewrite Ropp_0, exp_0 in E.
    replace ((1 + s) * exp (- s) - 1) with ((1 + s) * exp (- s) - (1 + 0) * 1) by ring. rewrite E.
    pose proof (exp_neg_le1 c (proj1 Hc)) as He. pose proof (exp_pos (- c)) as Hp.
    assert (Hce : 0 <= c * exp (- c) <= s) by (split; nra).
    set (ce := c * exp (- c)) in *.
    replace (- c * exp (- c) * (s - 0)) with (- (ce * s)) by (unfold ce; ring).
    apply Rabs_le. split; nra.
Qed.

Local Notation five := (1 + 1 + 1 + 1 + 1).
Local Notation three := (1 + 1 + 1).

Lemma sqrt5_sq : sqrt five * sqrt five = five.
Proof. apply sqrt_sqrt. lra. Qed.

(* the Matern-5/2 profile g(r) = (1 + sqrt5 r + 5/3 r^2) e^(-sqrt5 r) is 1 - O(r^2) *)
Lemma g52_bound r : 0 <= r ->
  Rabs ((1 + sqrt five * r + five / three * (r * r)) * exp (- (sqrt five * r)) - 1) <= 20 / 3 * (r * r).
Proof.
  intros Hr. pose proof sqrt5_sq as Hc. assert (H5 : 0 <= sqrt five) by apply sqrt_pos.
  set (c := sqrt five) in *.
  assert (Hs : 0 <= c * r) by nra.
  pose proof (psi_bound (c * r) Hs) as B. pose proof (exp_neg_le1 (c * r) Hs) as He.
  pose proof (exp_pos (- (c * r))) as Hp.
  replace ((1 + c * r + five / three * (r * r)) * exp (- (c * r)) - 1)
    with (((1 + c * r) * exp (- (c * r)) - 1) + five / three * (r * r) * exp (- (c * r))) by ring.
  apply Rabs_le_between in B. apply Rabs_le.
  assert (Hcr : c * r * (c * r) = five * (r * r)) by (rewrite <- Hc; ring).
  assert (Hrr : 0 <= r * r) by nra.
  split; nra.
Qed.

Lemma S_zero (C u : R) : 0 <= C -> C + u * u = 0 -> C = 0 /\ u = 0.
Proof. intros HC H. split; nra. Qed.

Lemma tsumR_nonneg n (f : nat -> R) : (forall m, 0 <= f m) -> 0 <= @tsum TR n f.
Proof.
  intros H. induction n as [|n IH]; cbn [tsum t0 tadd TR]; [lra|].
  pose proof (H n). change (@tc TR) with R in *. lra.
Qed.
Lemma sqd_nonneg d x y l : 0 <= @sqd TR d x y l.
Proof.
  unfold sqd. apply tsumR_nonneg. intros m. unfold tsq. cbn [tmul TR].
  apply Rle_0_sqr.
Qed.

Lemma sqrt_S0 (b l t : R) :
  sqrt (0 + (t - b) / l * ((t - b) / l)) * sqrt (0 + (t - b) / l * ((t - b) / l))
  = (t - b) / l * ((t - b) / l).
Proof. rewrite sqrt_sqrt; [ring|]. rewrite Rplus_0_l. apply Rle_0_sqr. Qed.

(* Matern-5/2 as a function of one coordinate, INCLUDING the coincident point *)
Lemma m52_core_full (C b l a : R) : 0 <= C -> l <> 0 ->
  is_derive (fun t => (1 + sqrt five * sqrt (C + ((t - b) / l) * ((t - b) / l))
                         + five / three * (sqrt (C + ((t - b) / l) * ((t - b) / l)) * sqrt (C + ((t - b) / l) * ((t - b) / l))))
                      * exp (- (sqrt five * sqrt (C + ((t - b) / l) * ((t - b) / l))))) a
    (- (five / three * ((1 + sqrt five * sqrt (C + ((a - b) / l) * ((a - b) / l)))
        * exp (- (sqrt five * sqrt (C + ((a - b) / l) * ((a - b) / l))))) * ((a - b) / (l * l)))).
Proof.
  intros HC Hl.
  assert (HS : 0 <= C + (a - b) / l * ((a - b) / l)) by (pose proof (Rle_0_sqr ((a - b) / l)); unfold Rsqr in *; lra).
  destruct HS as [HS|HS]; [exact (m52_core C b l a Hl HS)|].
  symmetry in HS. destruct (S_zero _ _ HC HS) as [-> Hu].
  assert (a = b) as ->.
  { unfold Rdiv in Hu. apply Rmult_integral in Hu. destruct Hu as [Hu|Hu]; [lra|].
    exfalso. revert Hu. apply Rinv_neq_0_compat. exact Hl. }
  eapply is_derive_eq.
  - apply (sq_bound_derive _ b (20 / 3 / (l * l))).
    + apply Rlt_le, Rdiv_lt_0_compat; [lra|]. nra.
    + intros t.
      replace (0 + (b - b) / l * ((b - b) / l)) with 0 by (unfold Rdiv; ring).
      rewrite sqrt_0, !Rmult_0_r, Ropp_0, exp_0.
      replace ((1 + 0 + 0) * 1) with 1 by ring.
      pose proof (g52_bound (sqrt (0 + (t - b) / l * ((t - b) / l))) (sqrt_pos _)) as B.
      rewrite sqrt_S0 in B. rewrite sqrt_S0.
      replace (20 / 3 / (l * l) * ((t - b) * (t - b))) with (20 / 3 * ((t - b) / l * ((t - b) / l)))
        by (field; exact Hl).
      exact B.
  - unfold Rdiv. ring.
Qed.

Lemma psi_sqrt_derive0 (b l : R) : l <> 0 ->
  is_derive (fun t => (1 + sqrt five * sqrt (0 + ((t - b) / l) * ((t - b) / l)))
                      * exp (- (sqrt five * sqrt (0 + ((t - b) / l) * ((t - b) / l))))) b 0.
Proof.
  intros Hl. pose proof sqrt5_sq as Hc. assert (H5 : 0 <= sqrt five) by apply sqrt_pos.
  apply (sq_bound_derive _ b (five / (l * l))).
  - apply Rlt_le, Rdiv_lt_0_compat; [lra|]. nra.
  - intros t.
    replace (0 + (b - b) / l * ((b - b) / l)) with 0 by (unfold Rdiv; ring).
    rewrite sqrt_0, !Rmult_0_r, Ropp_0, exp_0.
    replace ((1 + 0) * 1) with 1 by ring.
    set (r := sqrt (0 + (t - b) / l * ((t - b) / l))).
    assert (Hr : 0 <= r) by apply sqrt_pos.
    pose proof (psi_bound (sqrt five * r) ltac:(nra)) as B.
    replace (five / (l * l) * ((t - b) * (t - b))) with (sqrt five * r * (sqrt five * r)).
    + exact B.
    + replace (sqrt five * r * (sqrt five * r)) with (sqrt five * sqrt five * (r * r)) by ring.
      unfold r. rewrite sqrt_S0, Hc. field. exact Hl.
Qed.

(* the first-derivative output, times an affine factor p + q t (the factor w_j), differentiated once more *)
Lemma m52_hess_core (C b l p q a : R) : 0 <= C -> l <> 0 ->
  is_derive (fun t => - (five / three * ((1 + sqrt five * sqrt (C + ((t - b) / l) * ((t - b) / l)))
                                        * exp (- (sqrt five * sqrt (C + ((t - b) / l) * ((t - b) / l)))))
                        * (p + q * t))) a
    (- (five / three * exp (- (sqrt five * sqrt (C + ((a - b) / l) * ((a - b) / l))))
        * (five * ((b - a) / (l * l) * (p + q * a))
           + q * (1 + sqrt five * sqrt (C + ((a - b) / l) * ((a - b) / l)))))).
Proof.
  intros HC Hl. pose proof sqrt5_sq as Hc.
  assert (HS : 0 <= C + (a - b) / l * ((a - b) / l)) by (pose proof (Rle_0_sqr ((a - b) / l)); unfold Rsqr in *; lra).
  destruct HS as [HS|HS].
  - auto_derive; [repeat split; try exact I; try exact Hl; replace (a + - b) with (a - b) by ring; exact HS|].
    replace (a + - b) with (a - b) by ring.
    replace (C + (a - b) * / l * ((a - b) * / l)) with (C + (a - b) / l * ((a - b) / l)) by (unfold Rdiv; ring).
    assert (Hq : sqrt (C + (a - b) / l * ((a - b) / l)) <> 0) by (apply Rgt_not_eq, sqrt_lt_R0; exact HS).
    set (r := sqrt (C + (a - b) / l * ((a - b) / l))) in *.
    set (c := sqrt five) in *. set (e := exp _).
    replace five with (c * c) by exact Hc. field. repeat split; first [exact Hq | exact Hl | lra].
  - symmetry in HS. destruct (S_zero _ _ HC HS) as [-> Hu].
    assert (a = b) as ->.
    { unfold Rdiv in Hu. apply Rmult_integral in Hu. destruct Hu as [Hu|Hu]; [lra|].
      exfalso. revert Hu. apply Rinv_neq_0_compat. exact Hl. }
    pose proof (psi_sqrt_derive0 b l Hl) as D.
    set (phi := fun t => (1 + sqrt five * sqrt (0 + (t - b) / l * ((t - b) / l)))
                         * exp (- (sqrt five * sqrt (0 + (t - b) / l * ((t - b) / l))))) in *.
    apply (is_derive_ext (fun t => - (five / three * phi t * (p + q * t)))); [intros t; reflexivity|].
    eapply is_derive_eq.
    + assert (D' : is_derive (fun x : R => phi x) b 0) by exact D.
      auto_derive; [exists 0; exact D'|]. rewrite (is_derive_unique _ _ _ D'). reflexivity.
    + unfold phi.
      replace (0 + (b - b) / l * ((b - b) / l)) with 0 by (unfold Rdiv; ring).
      rewrite sqrt_0, !Rmult_0_r, Ropp_0, exp_0. unfold Rdiv. ring.
Qed.

(* ------------------------------------------------------------------ Matern52KernelGrad, all blocks, all points *)
Lemma sqd_upd_y' d x y l i t : (i < d)%nat ->
  @sqd TR d x (upd y i t) l = @sqd TR d x (upd y i (x i)) l + ((t - x i) / l i) * ((t - x i) / l i).
Proof. intros Hi. rewrite (sqd_upd_y d x y l i t Hi). asR. unfold Rdiv. ring. Qed.

Lemma m52_grad_x_full d x y l j a : (j < d)%nat -> l j <> 0 ->
  is_derive (fun t => @k_matern TR 5 d (upd x j t) y l) a (@m52grad_entry TR d (upd x j a) y l (S j) 0).
Proof.
  intros Hj Hl. pose proof (sqd_upd_x d x y l j) as E.
  unfold m52grad_entry. rewrite (E a Hj), upd_same.
  eapply is_derive_ext.
  { intros t. unfold k_matern. rewrite (E t Hj). reflexivity. }
  exact (m52_core_full (@sqd TR d (upd x j (y j)) y l) (y j) (l j) a (sqd_nonneg _ _ _ _) Hl).
Qed.

Lemma m52_grad_y_full d x y l i b : (i < d)%nat -> l i <> 0 ->
  is_derive (fun t => @k_matern TR 5 d x (upd y i t) l) b (@m52grad_entry TR d x (upd y i b) l 0 (S i)).
Proof.
  intros Hi Hl. pose proof (sqd_upd_y' d x y l i) as E.
  unfold m52grad_entry. rewrite (E b Hi), upd_same.
  eapply is_derive_eq.
  - eapply is_derive_ext.
    { intros t. unfold k_matern. rewrite (E t Hi). reflexivity. }
    exact (m52_core_full (@sqd TR d x (upd y i (x i)) l) (x i) (l i) b (sqd_nonneg _ _ _ _) Hl).
  - unfold tsq. cbn [tnat tadd tsub tmul tdiv tneg texp tsqrt t1 TR]. asR. unfold Rdiv. ring.
Qed.

(* the Hessian block: d/dy_i of the (d/dx_j, value) output is the (d/dx_j, d/dy_i) output, all i, j,
   coincident points included *)
Lemma m52_hess d x y l i j b : (i < d)%nat -> (j < d)%nat -> l i <> 0 ->
  is_derive (fun t => @m52grad_entry TR d x (upd y i t) l (S j) 0) b
            (@m52grad_entry TR d x (upd y i b) l (S j) (S i)).
Proof.
  intros Hi Hj Hl. pose proof (sqd_upd_y' d x y l i) as E.
  set (C := @sqd TR d x (upd y i (x i)) l) in *.
  assert (HC : 0 <= C) by apply sqd_nonneg.
  destruct (Nat.eq_dec i j) as [<-|Hne].
  - eapply is_derive_eq.
    + eapply is_derive_ext.
      2: exact (m52_hess_core C (x i) (l i) (x i / (l i * l i)) (- (1 / (l i * l i))) b HC Hl).
      intros t. unfold m52grad_entry. rewrite (E t Hi), upd_same.
      unfold tsq. cbn [tnat tadd tsub tmul tdiv tneg texp tsqrt t1 TR]. asR.
      set (r := sqrt _). set (e := exp _). field. exact Hl.
    + unfold m52grad_entry. rewrite (E b Hi), upd_same, Nat.eqb_refl.
      unfold tsq. cbn [tnat tadd tsub tmul tdiv tneg texp tsqrt t1 TR]. asR.
      set (r := sqrt _). set (e := exp _). field. exact Hl.
  - eapply is_derive_eq.
    + eapply is_derive_ext.
      2: exact (m52_hess_core C (x i) (l i) ((x j - y j) / (l j * l j)) 0 b HC Hl).
      intros t. unfold m52grad_entry. rewrite (E t Hi), (upd_other y i t j) by congruence.
      unfold tsq. cbn [tnat tadd tsub tmul tdiv tneg texp tsqrt t1 TR]. asR.
      set (r := sqrt _). set (e := exp _). set (w := (x j - y j) / (l j * l j)). ring.
    + unfold m52grad_entry. rewrite (E b Hi), upd_same, (upd_other y i b j) by congruence.
      destruct (Nat.eqb_spec i j); [contradiction|].
      unfold tsq. cbn [tnat tadd tsub tmul tdiv tneg texp tsqrt t0 t1 TR]. asR.
      set (r := sqrt _). set (e := exp _). set (w := (x j - y j) / (l j * l j)). unfold Rdiv. ring.
Qed.

(* ------------------------------------------------------------------ PolynomialKernelGrad: y- and Hessian blocks *)
Lemma dot_upd_y d x y i t : (i < d)%nat ->
  @dot TR d x (upd y i t) = @dot TR d x (upd y i 0) + x i * t.
Proof.
  intros Hi. unfold dot.
  rewrite (tsumR_change d _ (fun m => @tmul TR (x m) (upd y i 0 m)) i Hi).
  - cbn [tmul TR]. rewrite !upd_same. change (@tc TR) with R in *. ring.
  - intros m _ Hm. rewrite !upd_other by exact Hm. reflexivity.
Qed.

Lemma poly_grad_y c pw d x y i b : (i < d)%nat ->
  is_derive (fun t => @k_poly TR c pw d x (upd y i t)) b (@polygrad_entry TR c pw d x (upd y i b) 0 (S i)).
Proof.
  intros Hi. unfold k_poly, polygrad_entry. cbn [tadd tmul TR].
  rewrite tipow_pow, tnat_INR, (dot_upd_y d x y i b Hi).
  apply (is_derive_ext (fun t => (@dot TR d x (upd y i 0) + x i * t + c) ^ pw)).
  { intros t. rewrite (dot_upd_y d x y i t Hi). symmetry. apply tipow_pow. }
  set (C := @dot TR d x (upd y i 0)). change (@tc TR) with R in *.
  auto_derive; [exact I|]. replace (pw - 1)%nat with (Init.Nat.pred pw) by lia. ring.
Qed.

Lemma poly_hess c pw d x y i j b : (i < d)%nat -> (j < d)%nat ->
  is_derive (fun t => @polygrad_entry TR c pw d x (upd y i t) (S j) 0) b
            (@polygrad_entry TR c pw d x (upd y i b) (S j) (S i)).
Proof.
  intros Hi Hj. unfold polygrad_entry. cbn [tadd tmul t0 TR].
  rewrite !tipow_pow, !tnat_INR, (dot_upd_y d x y i b Hi).
  set (C := @dot TR d x (upd y i 0)).
  destruct (Nat.eq_dec i j) as [<-|Hne].
  - rewrite Nat.eqb_refl, upd_same.
    apply (is_derive_ext (fun t => INR pw * (C + x i * t + c) ^ (pw - 1) * t)).
    { intros t. rewrite (dot_upd_y d x y i t Hi), upd_same. repeat f_equal; try (symmetry; apply tipow_pow). }
    change (@tc TR) with R in *.
    auto_derive; [exact I|]. change (@tnat TR) with INR. change (@tipow TR) with pow.
    replace (pw - 2)%nat with (Init.Nat.pred (pw - 1)) by lia. ring.
  - destruct (Nat.eqb_spec i j); [contradiction|]. rewrite (upd_other y i b j) by congruence.
    apply (is_derive_ext (fun t => INR pw * (C + x i * t + c) ^ (pw - 1) * y j)).
    { intros t. rewrite (dot_upd_y d x y i t Hi), (upd_other y i t j) by congruence. repeat f_equal; try (symmetry; apply tipow_pow). }
    change (@tc TR) with R in *.
    auto_derive; [exact I|]. change (@tnat TR) with INR. change (@tipow TR) with pow.
    replace (pw - 2)%nat with (Init.Nat.pred (pw - 1)) by lia. ring.
Qed.

(* non-vacuity: a coincident point in dimension 2 *)
Lemma ex_m52_coincident :
  @sqd TR 2 (upd (fun _ => 1) 0 1) (fun _ => 1) (fun _ => 2) = 0.
Proof. unfold sqd, upd. cbn [tsum Nat.eqb]. unfold tsq. cbn [t0 tadd tsub tmul tdiv TR]. asR. unfold Rdiv. ring. Qed.
