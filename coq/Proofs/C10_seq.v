(* C10 proofs, part 3: the variance clamp; operation sequences are affine images (every sequence, every size);
   the cache-consistency invariant of the object state machine; which scalar multiple of a cached Cholesky
   factor is a Cholesky factor of the scaled covariance; KL trace term for a rectangular root. *)
From Coq Require Import Arith ZArith List Lia Bool Ring Field QArith Qcanon.
From GPV Require Import Base.LinAlg Base.Exec Base.Expr Models.C10_mvn Proofs.C10_mvn Models.C10_seq.
Import ListNotations.

(* ------------------------------------------------------------------ clamp *)
Lemma qc_leb_le a b : qc_leb a b = true -> (a <= b)%Qc.
Proof. unfold qc_leb. intros H. apply Qle_bool_iff in H. exact H. Qed.

Lemma qc_leb_gt a b : qc_leb a b = false -> (b < a)%Qc.
Proof.
  unfold qc_leb. intros H. apply Qcnot_le_lt. intros Hle.
  assert (H' : Qle_bool (this a) (this b) = true) by (apply Qle_bool_iff; exact Hle).
  congruence.
Qed.

Lemma qc_max_ge_r a b : (b <= qc_max a b)%Qc.
Proof.
  unfold qc_max. destruct (qc_leb a b) eqn:H; [apply Qcle_refl|].
  apply Qclt_le_weak. apply qc_leb_gt. exact H.
Qed.
Lemma qc_max_ge_l a b : (a <= qc_max a b)%Qc.
Proof.
  unfold qc_max. destruct (qc_leb a b) eqn:H; [apply qc_leb_le; exact H|apply Qcle_refl].
Qed.
Lemma qc_max_id a b : (b <= a)%Qc -> qc_max a b = a.
Proof.
  intros Hba. unfold qc_max. destruct (qc_leb a b) eqn:H; [|reflexivity].
  apply Qcle_antisym; [exact Hba|apply qc_leb_le; exact H].
Qed.
Lemma qc_max_floor a b : (a <= b)%Qc -> qc_max a b = b.
Proof.
  intros Hab. unfold qc_max. destruct (qc_leb a b) eqn:H; [reflexivity|].
  apply qc_leb_gt in H. exfalso. exact (Qclt_not_le _ _ H Hab).
Qed.

Lemma variance_clamped_spec mv n (C : @M QcF) :
  length (variance_clamped mv n C) = n /\
  forall i, (i < n)%nat ->
    let v := nth i (variance_clamped mv n C) mv in
    (mv <= v)%Qc /\ (C i i <= v)%Qc /\ ((mv <= C i i)%Qc -> v = C i i) /\ ((C i i <= mv)%Qc -> v = mv).
Proof.
  unfold variance_clamped. split; [rewrite map_length; apply seq_length|].
  intros i Hi. cbn zeta.
  rewrite (nth_indep _ mv (qc_max (C O O) mv)) by (rewrite map_length, seq_length; exact Hi).
  rewrite (map_nth (fun i => qc_max (C i i) mv)). rewrite seq_nth by exact Hi. cbn [plus].
  split; [apply qc_max_ge_r|]. split; [apply qc_max_ge_l|]. split; [apply qc_max_id|apply qc_max_floor].
Qed.

Lemma variance_floor_is_tensor_dtype d1 d2 t fl :
  variance_floor d1 t fl = variance_floor d2 t fl /\ variance_floor d1 t fl = floor_of fl t.
Proof. split; reflexivity. Qed.

(* ------------------------------------------------------------------ sequences *)
Section Seq.
Context {K : Fld}.
Add Field Ff_c10seq : (@FT K).
Local Open Scope fld_scope.

(* one operation: the new (mean, covariance) is the image of the old under its affine map *)
Lemma astep_law (o : aop) n (m C : M) cache :
  aop_valid o n ->
  let '(k, A, b, E) := aop_affine o n in
  let '(k', m', C', _) := astep o (n, m, C, cache) in
  k' = k /\ meq k 1 m' (madd (mmul n A m) b) /\ meq k k C' (madd (mmul n (mmul n A C) (mT A)) E).
Proof.
  intros Hv. destruct o as [a|c|m2 C2|e|k p| |L|]; cbn [aop_affine astep].
  - split; [reflexivity|]. destruct (mul_is_affine n a m C) as [H1 H2]. split.
    + symmetry. exact H1.
    + symmetry. transitivity (mmul n (mmul n (mscale a mI) C) (mT (mscale a mI))); [apply madd_zero_r|exact H2].
  - split; [reflexivity|]. destruct (add_scalar_is_affine n c m C) as [H1 H2]. split.
    + symmetry. exact H1.
    + symmetry. transitivity (mmul n (mmul n mI C) (mT mI)); [apply madd_zero_r|exact H2].
  - split; [reflexivity|]. destruct (add_scalar_is_affine n f0 m C) as [_ H2]. split.
    + intros i j Hi Hj. unfold sum_mean, madd. rewrite (mmul_I_l n 1 m i j Hi Hj). reflexivity.
    + intros i j Hi Hj. unfold sum_cov, madd. unfold affine_cov in H2. rewrite (H2 i j Hi Hj). reflexivity.
  - split; [reflexivity|]. destruct (add_scalar_is_affine n f0 m C) as [_ H2]. split.
    + intros i j Hi Hj. unfold madd, mzero. rewrite (mmul_I_l n 1 m i j Hi Hj). ring.
    + intros i j Hi Hj. unfold jitter_cov, madd. unfold affine_cov in H2. rewrite (H2 i j Hi Hj). reflexivity.
  - split; [reflexivity|]. destruct (getitem_is_marginal n k p m C Hv) as [H1 H2]. split.
    + symmetry. exact H1.
    + symmetry. transitivity (mmul n (mmul n (selmat p) C) (mT (selmat p))); [apply madd_zero_r|exact H2].
  - split; [reflexivity|]. destruct (add_scalar_is_affine n f0 m C) as [_ H2]. split.
    + intros i j Hi Hj. unfold madd, mzero. rewrite (mmul_I_l n 1 m i j Hi Hj). ring.
    + symmetry. transitivity (mmul n (mmul n mI C) (mT mI)); [apply madd_zero_r|exact H2].
  - split; [reflexivity|]. destruct (add_scalar_is_affine n f0 m C) as [_ H2]. split.
    + intros i j Hi Hj. unfold madd, mzero. rewrite (mmul_I_l n 1 m i j Hi Hj). ring.
    + symmetry. transitivity (mmul n (mmul n mI C) (mT mI)); [apply madd_zero_r|exact H2].
  - split; [reflexivity|]. destruct (add_scalar_is_affine n f0 m C) as [_ H2]. split.
    + intros i j Hi Hj. unfold madd, mzero. rewrite (mmul_I_l n 1 m i j Hi Hj). ring.
    + symmetry. transitivity (mmul n (mmul n mI C) (mT mI)); [apply madd_zero_r|exact H2].
Qed.

(* composing affine images: if (m1, C1) is the image of (m, C) under (A1, b1, E1) and (m2, C2) the image of
   (m1, C1) under (A2, b2, E2), then (m2, C2) is the image of (m, C) under the composed map *)
Lemma compose_mean n k1 k2 (A1 b1 A2 b2 m m1 m2 : M) :
  meq k1 1 m1 (madd (mmul n A1 m) b1) ->
  meq k2 1 m2 (madd (mmul k1 A2 m1) b2) ->
  meq k2 1 m2 (madd (mmul n (mmul k1 A2 A1) m) (madd (mmul k1 A2 b1) b2)).
Proof.
  intros H1 H2.
  transitivity (madd (mmul k1 A2 m1) b2); [exact H2|].
  transitivity (madd (mmul k1 A2 (madd (mmul n A1 m) b1)) b2).
  { apply madd_compat; [apply mmul_compat_r; exact H1|reflexivity]. }
  transitivity (madd (madd (mmul k1 A2 (mmul n A1 m)) (mmul k1 A2 b1)) b2).
  { apply madd_compat; [apply mmul_add_distr_l|reflexivity]. }
  transitivity (madd (mmul k1 A2 (mmul n A1 m)) (madd (mmul k1 A2 b1) b2)); [apply madd_assoc|].
  apply madd_compat; [|reflexivity]. symmetry. apply mmul_assoc.
Qed.

Lemma compose_cov n k1 k2 (A1 E1 A2 E2 C C1 C2 : M) :
  meq k1 k1 C1 (madd (mmul n (mmul n A1 C) (mT A1)) E1) ->
  meq k2 k2 C2 (madd (mmul k1 (mmul k1 A2 C1) (mT A2)) E2) ->
  meq k2 k2 C2 (madd (mmul n (mmul n (mmul k1 A2 A1) C) (mT (mmul k1 A2 A1)))
                     (madd (mmul k1 (mmul k1 A2 E1) (mT A2)) E2)).
Proof.
  intros H1 H2.
  transitivity (madd (mmul k1 (mmul k1 A2 C1) (mT A2)) E2); [exact H2|].
  set (S1 := mmul n (mmul n A1 C) (mT A1)).
  transitivity (madd (mmul k1 (mmul k1 A2 (madd S1 E1)) (mT A2)) E2).
  { apply madd_compat; [|reflexivity]. apply mmul_compat_l. apply mmul_compat_r. exact H1. }
  transitivity (madd (madd (mmul k1 (mmul k1 A2 S1) (mT A2)) (mmul k1 (mmul k1 A2 E1) (mT A2))) E2).
  { apply madd_compat; [|reflexivity].
    transitivity (mmul k1 (madd (mmul k1 A2 S1) (mmul k1 A2 E1)) (mT A2)).
    - apply mmul_compat_l. apply mmul_add_distr_l.
    - apply mmul_add_distr_r. }
  transitivity (madd (mmul k1 (mmul k1 A2 S1) (mT A2)) (madd (mmul k1 (mmul k1 A2 E1) (mT A2)) E2)); [apply madd_assoc|].
  apply madd_compat; [|reflexivity].
  (* A2 (A1 C A1^T) A2^T = (A2 A1) C (A2 A1)^T *)
  unfold S1.
  transitivity (mmul n (mmul n (mmul k1 A2 A1) C) (mmul k1 (mT A1) (mT A2))).
  2:{ apply mmul_compat_r. symmetry. apply mT_mmul. }
  transitivity (mmul k1 (mmul n (mmul k1 A2 (mmul n A1 C)) (mT A1)) (mT A2)).
  { apply mmul_compat_l. symmetry. apply mmul_assoc. }
  transitivity (mmul n (mmul k1 A2 (mmul n A1 C)) (mmul k1 (mT A1) (mT A2))); [apply mmul_assoc|].
  apply mmul_compat_l. symmetry. apply mmul_assoc.
Qed.

Definition image_of (n : nat) (m C : M) (f : affmap) (s : astate) : Prop :=
  let '(k, A, b, E) := f in
  let '(k', m', C', _) := s in
  k' = k /\ meq k 1 m' (madd (mmul n A m) b) /\ meq k k C' (madd (mmul n (mmul n A C) (mT A)) E).

Lemma image_step n (m C : M) (f : affmap) (s : astate) (o : aop) :
  image_of n m C f s -> aop_valid o (let '(k, _, _, _) := f in k) ->
  image_of n m C (acompose f o) (astep o s).
Proof.
  destruct f as [[[k1 A1] b1] E1]. destruct s as [[[k1' m1] C1] cache].
  intros [Hk [Hm HC]] Hv. subst k1'.
  pose proof (astep_law o k1 m1 C1 cache Hv) as HL.
  unfold acompose, image_of.
  destruct (aop_affine o k1) as [[[k2 A2] b2] E2].
  destruct (astep o (k1, m1, C1, cache)) as [[[k2' m2] C2] cache2].
  destruct HL as [Hk2 [Hm2 HC2]]. subst k2'.
  split; [reflexivity|]. split.
  - exact (compose_mean n k1 k2 A1 b1 A2 b2 m m1 m2 Hm Hm2).
  - exact (compose_cov n k1 k2 A1 E1 A2 E2 C C1 C2 HC HC2).
Qed.

Lemma acompose_size f o : (let '(k, _, _, _) := acompose f o in k) = (let '(k, _, _, _) := aop_affine o (let '(k, _, _, _) := f in k) in k).
Proof.
  destruct f as [[[k1 A1] b1] E1]. unfold acompose. destruct (aop_affine o k1) as [[[k2 A2] b2] E2]. reflexivity.
Qed.

Lemma image_run n (m C : M) : forall ops f s,
  image_of n m C f s -> aseq_valid ops (let '(k, _, _, _) := f in k) ->
  image_of n m C (fold_left acompose ops f) (arun ops s).
Proof.
  induction ops as [|o rest IH]; intros f s Hi Hv; [exact Hi|].
  cbn [fold_left arun]. destruct Hv as [Hvo Hvr].
  apply IH.
  - apply image_step; assumption.
  - rewrite acompose_size. exact Hvr.
Qed.

(* EVERY sequence of operations, from any start (n, m, C), any cache content: the final (mean, covariance) is the
   law of A X + b + noise(E) for the composed map *)
Theorem arun_is_affine ops n (m C : M) cache :
  aseq_valid ops n ->
  image_of n m C (aseq_affine ops n) (arun ops (n, m, C, cache)).
Proof.
  intros Hv. unfold aseq_affine. apply image_run; [|exact Hv].
  unfold image_of. split; [reflexivity|]. split.
  - intros i j Hi Hj. unfold madd, mzero. rewrite (mmul_I_l n 1 m i j Hi Hj). ring.
  - destruct (add_scalar_is_affine n f0 m C) as [_ H2]. symmetry.
    transitivity (mmul n (mmul n mI C) (mT mI)); [apply madd_zero_r|exact H2].
Qed.

(* scalar steps only: the sequence a_1, ..., a_k of multiplications / divisions is the multiplication by the
   product; in particular the covariance is scaled by the SQUARE of the product, whatever the signs *)
Fixpoint scal_prod (l : list car) : car := match l with [] => 1 | a :: r => scal_prod r * a end.

Lemma arun_scalars (l : list car) : forall n (m C : M) cache,
  let '(k, m', C', _) := arun (map AMul l) (n, m, C, cache) in
  k = n /\ meq n 1 m' (mul_mean (scal_prod l) m) /\ meq n n C' (mul_cov (scal_prod l) C).
Proof.
  induction l as [|a r IH]; intros n m C cache.
  - cbn [map arun fold_left scal_prod]. split; [reflexivity|]. split.
    + intros i j _ _. unfold mul_mean, mscale. ring.
    + intros i j _ _. unfold mul_cov, mscale. ring.
  - cbn [map arun fold_left astep scal_prod].
    specialize (IH n (mul_mean a m) (mul_cov a C) None). unfold arun in IH.
    destruct (fold_left _ (map AMul r) _) as [[[k m'] C'] cache'].
    destruct IH as [Hk [Hm HC]]. split; [exact Hk|]. split.
    + transitivity (mul_mean (scal_prod r) (mul_mean a m)); [exact Hm|].
      intros i j _ _. unfold mul_mean, mscale. ring.
    + transitivity (mul_cov (scal_prod r) (mul_cov a C)); [exact HC|].
      intros i j _ _. unfold mul_cov, mscale. ring.
Qed.

(* ---- cache consistency: along every sequence in which each cache-filling read computed a factor of the covariance
   the object had at that moment, the cached factor (if any) is a factor of the CURRENT covariance *)
Lemma cache_step o s : cache_ok s ->
  (match o with
   | AObserve (Some L) => let '(n, _, C, _) := s in meq n n (mmul n L (mT L)) C
   | _ => True end) -> cache_ok (astep o s).
Proof.
  destruct s as [[[n m] C] cache]. intros Hc Hr.
  destruct o as [a|c|m2 C2|e|k p| |L|]; cbn [astep cache_ok]; try exact I; try exact Hc.
  destruct cache as [L0|]; [exact Hc|]. destruct L as [L|]; [exact Hr|exact I].
Qed.

Theorem cache_invariant : forall ops s, cache_ok s -> aseq_reads_ok ops s -> cache_ok (arun ops s).
Proof.
  induction ops as [|o rest IH]; intros s Hc Hr; [exact Hc|].
  cbn [arun fold_left]. destruct Hr as [Hro Hrr]. apply IH; [|exact Hrr].
  apply cache_step; assumption.
Qed.

(* ... and every prefix: each intermediate object is consistent too *)
Theorem cache_invariant_prefix ops1 ops2 s :
  cache_ok s -> aseq_reads_ok (ops1 ++ ops2) s -> cache_ok (arun ops1 s).
Proof.
  revert s. induction ops1 as [|o rest IH]; intros s Hc Hr; [exact Hc|].
  cbn [arun fold_left]. cbn [app aseq_reads_ok] in Hr. destruct Hr as [Hro Hrr].
  apply IH; [apply cache_step; assumption|exact Hrr].
Qed.

(* ---- KL trace term with a rectangular root: for P = R R^T with R of ANY shape n x r,
   tr(Qi P) = sum over the r columns of R of the quadratic forms  (what inv_quad of [d, R] returns), and the constant
   of the closed form is the EVENT size n, not the number r of columns *)
Lemma trace_root n r (Qi R : M) :
  trace n (mmul n Qi (mmul r R (mT R))) = sum r (fun c => quad n Qi (fun i _ => R i c)).
Proof.
  unfold trace, quad, mmul, mT.
  transitivity (sum n (fun i => sum r (fun c => sum n (fun l => Qi i l * R l c) * R i c))).
  { apply sum_ext. intros i _.
    transitivity (sum n (fun l => sum r (fun c => Qi i l * R l c * R i c))).
    - apply sum_ext. intros l _. rewrite <- sum_scale_l. apply sum_ext. intros c _. ring.
    - rewrite sum_swap. apply sum_ext. intros c _. rewrite <- sum_scale_r. reflexivity. }
  rewrite sum_swap. apply sum_ext. intros c _. apply sum_ext. intros i _. ring.
Qed.

Theorem kl_rational_rect_root n r (mp mq R Qi : M) :
  kl_rational n mp (mmul r R (mT R)) mq Qi
  = sum r (fun c => quad n Qi (fun i _ => R i c)) + quad n Qi (msub mp mq) - nat_f n.
Proof. unfold kl_rational. rewrite trace_root. reflexivity. Qed.
End Seq.

Lemma ex_seq_valid :
  @aseq_valid QcF (map sop_aop [SObserve; SMul (qc (-2) 1); SKeep; SGet [1%nat; 0%nat]; SDiv (qc 4 1)]) 2.
Proof. cbn. repeat split; try exact I. intros i Hi. destruct i as [|[|i]]; cbn; lia. Qed.

(* ------------------------------------------------------------------ which multiple of a cached factor may be reused *)
From Coq Require Import Reals Lra.
From GPV Require Import Base.Det Proofs.C10_kl Proofs.C10_det.
Local Open Scope R_scope.

(* L lower triangular with positive diagonal, L L^T = C (the cached scale_tril).  For a <> 0 the factor of the
   covariance a^2 C of a X that is again lower triangular with POSITIVE diagonal is |a| L ... *)
Theorem scaled_factor_abs n (a : R) (L C : @M RF) :
  tri_lower n L -> (forall i, (i < n)%nat -> 0 < L i i) -> meq n n (@mmul RF n L (@mT RF L)) C -> a <> 0 ->
  tri_lower n (@mscale RF (Rabs a) L)
  /\ (forall i, (i < n)%nat -> 0 < @mscale RF (Rabs a) L i i)
  /\ meq n n (@mmul RF n (@mscale RF (Rabs a) L) (@mT RF (@mscale RF (Rabs a) L))) (@mul_cov RF a C).
Proof.
  intros HT Hpos HC Ha. split; [|split].
  - intros i j Hi Hj Hij. unfold mscale. cbn [fmul RF]. rewrite (HT i j Hi Hj Hij). cbn. match goal with |- ?x = ?y => change (@eq R x y) end. ring.
  - intros i Hi. unfold mscale. cbn [fmul RF]. apply Rmult_lt_0_compat; [apply Rabs_pos_lt; exact Ha|apply Hpos; exact Hi].
  - intros i j Hi Hj. unfold mul_cov, mscale. rewrite <- (HC i j Hi Hj).
    unfold mmul, mT. rewrite <- (@sum_scale_l RF). apply (@sum_ext RF). intros l _. cbn [fmul RF].
    replace (a * a) with (Rabs a * Rabs a).
    + match goal with |- ?x = ?y => change (@eq R x y) end. ring.
    + rewrite <- Rabs_mult. apply Rabs_pos_eq. nra.
Qed.

(* ... while a L for a < 0 still multiplies to a^2 C but has a NEGATIVE diagonal: it is not a scale_tril
   (log of its diagonal is undefined), so a cached factor must not be carried across a multiplication by a L *)
Theorem scaled_factor_negative n (a : R) (L C : @M RF) :
  (forall i, (i < n)%nat -> 0 < L i i) -> meq n n (@mmul RF n L (@mT RF L)) C -> a < 0 ->
  (forall i, (i < n)%nat -> @mscale RF a L i i < 0)
  /\ meq n n (@mmul RF n (@mscale RF a L) (@mT RF (@mscale RF a L))) (@mul_cov RF a C).
Proof.
  intros Hpos HC Ha. split.
  - intros i Hi. unfold mscale. cbn [fmul RF]. specialize (Hpos i Hi). nra.
  - intros i j Hi Hj. unfold mul_cov, mscale. rewrite <- (HC i j Hi Hj).
    unfold mmul, mT. rewrite <- (@sum_scale_l RF). apply (@sum_ext RF). intros l _. cbn [fmul RF].
    match goal with |- ?x = ?y => change (@eq R x y) end. ring.
Qed.

Lemma ex_cached_factor_hyps :
  tri_lower 2 Proofs.C10_det.exR_L /\ (forall i, (i < 2)%nat -> 0 < Proofs.C10_det.exR_L i i).
Proof. destruct Proofs.C10_det.ex_kl_nonneg_hyps as [H1 [H2 _]]. split; assumption. Qed.
