(* C02 proofs: the LOO formulas from A^-1 are the Gaussian conditionals given all other
   observations (every n, every i; direct bordered-system argument on the index map that skips
   i); objective assembly laws; quadratic form via any root; chain rule of the quadratic form. *)
From Coq Require Import Arith Lia Ring Field Setoid Morphisms List Permutation.
From GPV Require Import Base.LinAlg Base.Exec Models.C01_posterior Models.C02_mll.
Import ListNotations.

Section Proofs.
Context {K : Fld}.
Add Field Ff_c02 : (@FT K).
Local Open Scope fld_scope.

(* ---- sums with one index taken out ---------------------------------------------------- *)

Lemma skip_lt i k a : (i <= k)%nat -> (a < k)%nat -> (skip i a < S k)%nat.
Proof. intros Hi Ha. unfold skip. destruct (Nat.ltb_spec a i); lia. Qed.

Lemma skip_neq i a : skip i a <> i.
Proof. unfold skip. destruct (Nat.ltb_spec a i); lia. Qed.

Lemma skip_inj i a b : skip i a = skip i b -> a = b.
Proof. unfold skip. destruct (Nat.ltb_spec a i); destruct (Nat.ltb_spec b i); lia. Qed.

Lemma sum_skip k : forall i f, (i <= k)%nat ->
  sum (S k) f = f i + sum k (fun a => f (skip i a)).
Proof.
  induction k as [|k IH]; intros i f Hi.
  - assert (i = O) by lia. subst i. cbn [sum]. ring.
  - change (sum (S (S k)) f) with (sum (S k) f + f (S k)).
    destruct (Nat.eq_dec i (S k)) as [->|Hne].
    + rewrite (sum_ext (S k) (fun a => f (skip (S k) a)) f).
      * ring.
      * intros a Ha. unfold skip. destruct (Nat.ltb_spec a (S k)); [reflexivity|lia].
    + rewrite (IH i f) by lia. cbn [sum].
      assert (E : skip i k = S k) by (unfold skip; destruct (Nat.ltb_spec k i); lia).
      rewrite E. ring.
Qed.

Lemma mmul_skip k i X Y a b : (i <= k)%nat ->
  mmul (S k) X Y a b = X a i * Y i b + sum k (fun l => X a (skip i l) * Y (skip i l) b).
Proof. intros Hi. unfold mmul. apply (sum_skip k i); exact Hi. Qed.

Lemma mI_skip_col i a : mI (skip i a) i = 0.
Proof. unfold mI. destruct (Nat.eqb_spec (skip i a) i) as [E|E]; [|reflexivity]. destruct (skip_neq i a E). Qed.
Lemma mI_skip_row i a : mI i (skip i a) = 0.
Proof.
  unfold mI. destruct (Nat.eqb_spec i (skip i a)) as [E|E]; [|reflexivity].
  symmetry in E. destruct (skip_neq i a E).
Qed.

Lemma one_neq_zero : (1 : car) <> 0.
Proof. exact (F_1_neq_0 (@FT K)). Qed.

(* ---- LOO = leave one out -------------------------------------------------------------- *)

Section LOO.
Variables (k i : nat) (A Ainv Binv : M).
Hypothesis Hi : (i <= k)%nat.
Hypothesis HA : is_inverse (S k) A Ainv.
Hypothesis HB : is_inverse k (del i A) Binv.

Let w := Ainv i i.
Let B := del i A.
Let u := colx i A.
Let v := rowx i A.
Let q := colx i Ainv.
Let s := rowx i Ainv.

(* column i of A Ainv = I, rows other than i:  B q + w u = 0 *)
Lemma loo_Bq : meq k 1 (mmul k B q) (mscale (- w) u).
Proof.
  destruct HA as [H1 _]. intros a j Ha Hj.
  pose proof (H1 (skip i a) i (skip_lt i k a Hi Ha) ltac:(lia)) as E.
  rewrite (mmul_skip k i A Ainv _ _ Hi), mI_skip_col in E.
  unfold mmul, B, del, gather, q, colx, mscale, u, w.
  transitivity (A (skip i a) i * Ainv i i + sum k (fun l => A (skip i a) (skip i l) * Ainv (skip i l) i)
                - A (skip i a) i * Ainv i i); [ring|].
  rewrite E. unfold colx. ring.
Qed.

Lemma loo_q : meq k 1 q (mscale (- w) (mmul k Binv u)).
Proof.
  transitivity (mmul k Binv (mscale (- w) u)).
  - apply (solve_unique k 1 B Binv q _ HB). exact loo_Bq.
  - apply mmul_scale_r.
Qed.

(* row i of Ainv A = I, columns other than i:  s B + w v = 0 *)
Lemma loo_sB : meq 1 k (mmul k s B) (mscale (- w) v).
Proof.
  destruct HA as [_ H2]. intros a b Ha Hb. assert (a = O) by lia. subst a.
  pose proof (H2 i (skip i b) ltac:(lia) (skip_lt i k b Hi Hb)) as E.
  rewrite (mmul_skip k i Ainv A _ _ Hi), mI_skip_row in E.
  unfold mmul, B, del, gather, s, rowx, mscale, v, w.
  transitivity (Ainv i i * A i (skip i b) + sum k (fun l => Ainv i (skip i l) * A (skip i l) (skip i b))
                - Ainv i i * A i (skip i b)); [ring|].
  rewrite E. unfold rowx. ring.
Qed.

Lemma loo_s : meq 1 k s (mscale (- w) (mmul k v Binv)).
Proof.
  transitivity (mmul k (mscale (- w) v) Binv).
  - apply (solve_unique_r k 1 B Binv s _ HB). exact loo_sB.
  - apply mmul_scale_l.
Qed.

(* entry (i,i) of A Ainv = I:  w * (A_ii - v B^-1 u) = 1 *)
Lemma loo_schur : w * cond_var k i A Binv = 1.
Proof.
  destruct HA as [H1 _].
  pose proof (H1 i i ltac:(lia) ltac:(lia)) as E.
  rewrite (mmul_skip k i A Ainv _ _ Hi) in E. unfold mI in E. rewrite Nat.eqb_refl in E.
  assert (Evq : sum k (fun l => A i (skip i l) * Ainv (skip i l) i)
                = - w * mmul k v (mmul k Binv u) O O).
  { change (sum k (fun l => A i (skip i l) * Ainv (skip i l) i)) with (mmul k v q O O).
    rewrite (mmul_compat_r 1 k 1 v q _ loo_q O O ltac:(lia) ltac:(lia)).
    rewrite (mmul_scale_r 1 1 k (- w) v (mmul k Binv u) O O ltac:(lia) ltac:(lia)).
    unfold mscale. ring. }
  rewrite Evq in E. unfold cond_var. fold u v. rewrite <- E. unfold w. ring.
Qed.

Lemma loo_w_neq0 : w <> 0.
Proof.
  intros E. pose proof loo_schur as H. rewrite E in H.
  apply one_neq_zero. rewrite <- H. ring.
Qed.

(* the code's sigma_i^2 is the conditional variance of y_i given the others *)
Lemma loo_sigma2_correct : loo_sigma2 Ainv i = cond_var k i A Binv.
Proof.
  unfold loo_sigma2. fold w. pose proof loo_schur as H. pose proof loo_w_neq0 as Hw.
  transitivity (w * cond_var k i A Binv / w); [rewrite H; reflexivity|]. field. exact Hw.
Qed.

(* the code's mu_i is the conditional mean of y_i given the others *)
Lemma loo_mu_correct y m : loo_mu (S k) Ainv y m i = cond_mean k i A Binv y m.
Proof.
  unfold loo_mu, cond_mean. unfold loo_sigma2. fold w v.
  set (r := msub y m).
  rewrite (mmul_skip k i Ainv r i O Hi). fold w.
  assert (Es : sum k (fun l => Ainv i (skip i l) * r (skip i l) O)
               = - w * mmul k v (mmul k Binv (vdel i r)) O O).
  { change (sum k (fun l => Ainv i (skip i l) * r (skip i l) O)) with (mmul k s (vdel i r) O O).
    rewrite (mmul_compat_l 1 k 1 s _ (vdel i r) loo_s O O ltac:(lia) ltac:(lia)).
    rewrite (mmul_scale_l 1 1 k (- w) (mmul k v Binv) (vdel i r) O O ltac:(lia) ltac:(lia)).
    unfold mscale. rewrite (mmul_assoc 1 1 k k v Binv (vdel i r) O O ltac:(lia) ltac:(lia)). ring. }
  rewrite Es. pose proof loo_w_neq0 as Hw. unfold r at 1. unfold msub. field. exact Hw.
Qed.

(* ---- chain rule of the quadratic form: conditioning coordinate i ------------------------- *)
Let P := del i Ainv.

Lemma mI_skip_skip a b : mI (skip i a) (skip i b) = mI a b.
Proof.
  unfold mI. destruct (Nat.eqb_spec (skip i a) (skip i b)) as [E|E]; destruct (Nat.eqb_spec a b) as [E'|E'];
    try reflexivity.
  - apply skip_inj in E. contradiction.
  - subst b. contradiction.
Qed.

(* block [-i,-i] of Ainv A = I:  P B + q v = I *)
Lemma loo_PB : meq k k (mmul k P B) (msub mI (mmul 1 q v)).
Proof.
  destruct HA as [_ H2]. intros a b Ha Hb.
  pose proof (H2 (skip i a) (skip i b) (skip_lt i k a Hi Ha) (skip_lt i k b Hi Hb)) as E.
  rewrite (mmul_skip k i Ainv A _ _ Hi), mI_skip_skip in E.
  unfold msub. rewrite <- E. unfold mmul, P, B, del, gather, q, v, colx, rowx. cbn [sum]. ring.
Qed.

Lemma loo_P : meq k k P (madd Binv (mscale w (mmul 1 (mmul k Binv u) (mmul k v Binv)))).
Proof.
  assert (E1 : meq k k P (mmul k (msub mI (mmul 1 q v)) Binv)).
  { apply (solve_unique_r k k B Binv P _ HB). exact loo_PB. }
  etransitivity; [exact E1|].
  assert (E2 : meq k k (mmul k (msub mI (mmul 1 q v)) Binv)
                       (msub (mmul k mI Binv) (mmul k (mmul 1 q v) Binv))) by apply mmul_sub_distr_r.
  assert (E3 : meq k k (mmul k (mmul 1 q v) Binv) (mmul 1 q (mmul k v Binv))) by apply mmul_assoc.
  intros a b Ha Hb. rewrite (E2 a b Ha Hb). unfold msub, madd, mscale.
  rewrite (mmul_I_l k k Binv a b Ha Hb), (E3 a b Ha Hb).
  unfold mmul at 1. cbn [sum]. rewrite (loo_q a O Ha ltac:(lia)).
  unfold mscale. unfold mmul at 3. cbn [sum]. ring.
Qed.

(* r^T A^-1 r = r'^T B^-1 r' + [A^-1]_ii (r_i - A[i,-i] B^-1 r') (r_i - r'^T B^-1 A[-i,i]) *)
Lemma quad_chain_rule r :
  quadf (S k) Ainv r
  = quadf k Binv (vdel i r)
    + w * ((r i O - mmul k v (mmul k Binv (vdel i r)) O O)
           * (r i O - mmul k (mT (vdel i r)) (mmul k Binv u) O O)).
Proof.
  set (r' := vdel i r).
  set (t1 := mmul k v (mmul k Binv r') O O).
  set (t2 := mmul k (mT r') (mmul k Binv u) O O).
  (* (Ainv r)_i and (Ainv r)_(skip a) *)
  assert (Ei : mmul (S k) Ainv r i O = w * r i O - w * t1).
  { rewrite (mmul_skip k i Ainv r i O Hi). fold w.
    change (sum k (fun l => Ainv i (skip i l) * r (skip i l) O)) with (mmul k s r' O O).
    rewrite (mmul_compat_l 1 k 1 s _ r' loo_s O O ltac:(lia) ltac:(lia)).
    rewrite (mmul_scale_l 1 1 k (- w) (mmul k v Binv) r' O O ltac:(lia) ltac:(lia)).
    unfold mscale. rewrite (mmul_assoc 1 1 k k v Binv r' O O ltac:(lia) ltac:(lia)). fold t1. ring. }
  assert (Ea : forall a, (a < k)%nat ->
             mmul (S k) Ainv r (skip i a) O = q a O * r i O + mmul k P r' a O).
  { intros a Ha. rewrite (mmul_skip k i Ainv r (skip i a) O Hi). reflexivity. }
  unfold quadf at 1.
  rewrite (mmul_skip k i (mT r) (mmul (S k) Ainv r) O O Hi). unfold mT at 1. rewrite Ei.
  rewrite (sum_ext k _ (fun a => r' a O * (q a O * r i O) + r' a O * mmul k P r' a O)).
  2:{ intros a Ha. unfold mT. rewrite (Ea a Ha). unfold r', vdel. ring. }
  rewrite sum_add.
  (* r'^T q = - w t2 *)
  assert (Eq : sum k (fun a => r' a O * (q a O * r i O)) = - w * t2 * r i O).
  { rewrite (sum_ext k _ (fun a => (mT r') O a * q a O * r i O)) by (intros; unfold mT; ring).
    rewrite sum_scale_r.
    change (sum k (fun a => mT r' O a * q a O)) with (mmul k (mT r') q O O).
    rewrite (mmul_compat_r 1 k 1 (mT r') q _ loo_q O O ltac:(lia) ltac:(lia)).
    rewrite (mmul_scale_r 1 1 k (- w) (mT r') (mmul k Binv u) O O ltac:(lia) ltac:(lia)).
    unfold mscale. fold t2. ring. }
  (* r'^T P r' = r'^T Binv r' + w t2 t1 *)
  assert (EP : sum k (fun a => r' a O * mmul k P r' a O) = quadf k Binv r' + w * (t2 * t1)).
  { change (sum k (fun a => r' a O * mmul k P r' a O)) with (mmul k (mT r') (mmul k P r') O O).
    set (G := mmul 1 (mmul k Binv u) (mmul k v Binv)).
    assert (F1 : meq k 1 (mmul k P r') (madd (mmul k Binv r') (mscale w (mmul k G r')))).
    { etransitivity; [apply mmul_compat_l; exact loo_P|]. fold G.
      etransitivity; [apply mmul_add_distr_r|]. apply madd_compat; [reflexivity|apply mmul_scale_l]. }
    rewrite (mmul_compat_r 1 k 1 (mT r') _ _ F1 O O ltac:(lia) ltac:(lia)).
    rewrite (mmul_add_distr_l 1 1 k (mT r') _ _ O O ltac:(lia) ltac:(lia)). unfold madd.
    rewrite (mmul_scale_r 1 1 k w (mT r') (mmul k G r') O O ltac:(lia) ltac:(lia)). unfold mscale.
    assert (F2 : mmul k (mT r') (mmul k G r') O O = t2 * t1).
    { assert (G1 : meq k 1 (mmul k G r') (mmul 1 (mmul k Binv u) (mmul k (mmul k v Binv) r'))) by apply mmul_assoc.
      rewrite (mmul_compat_r 1 k 1 (mT r') _ _ G1 O O ltac:(lia) ltac:(lia)).
      rewrite <- (mmul_assoc 1 1 k 1 (mT r') (mmul k Binv u) (mmul k (mmul k v Binv) r') O O ltac:(lia) ltac:(lia)).
      unfold mmul at 1. cbn [sum]. fold t2.
      rewrite (mmul_assoc 1 1 k k v Binv r' O O ltac:(lia) ltac:(lia)). fold t1. ring. }
    rewrite F2. reflexivity. }
  rewrite Eq, EP. ring.
Qed.

End LOO.

Lemma sum_swap_mul k (f : nat -> car) (g : nat -> nat -> car) :
  sum k (fun a => f a * sum k (fun b => g a b)) = sum k (fun b => sum k (fun a => f a * g a b)).
Proof.
  rewrite (sum_ext k _ (fun a => sum k (fun b => f a * g a b))) by (intros; symmetry; apply sum_scale_l).
  apply sum_swap.
Qed.

(* with a symmetric A: the quadratic form splits into the one of the other observations plus the
   standardised LOO residual:  r^T A^-1 r = r'^T A[-i,-i]^-1 r' + (y_i - mu_i)^2 / sigma_i^2 *)
Lemma quad_chain_rule_loo k i A Ainv Binv y m : (i <= k)%nat -> symmetric (S k) A ->
  is_inverse (S k) A Ainv -> is_inverse k (del i A) Binv ->
  quadf (S k) Ainv (msub y m)
  = quadf k Binv (vdel i (msub y m))
    + (y i O - cond_mean k i A Binv y m) * (y i O - cond_mean k i A Binv y m) / cond_var k i A Binv.
Proof.
  intros Hi HS HA HB.
  rewrite (quad_chain_rule k i A Ainv Binv Hi HA HB (msub y m)).
  set (r' := vdel i (msub y m)).
  assert (HBs : symmetric k (del i A)).
  { intros a b Ha Hb. unfold del, gather, mT. apply HS; apply skip_lt; assumption. }
  assert (HBi : symmetric k Binv) by (apply (inverse_symmetric k (del i A)); assumption).
  assert (Et : mmul k (mT r') (mmul k Binv (colx i A)) O O = mmul k (rowx i A) (mmul k Binv r') O O).
  { unfold mmul. rewrite sum_swap_mul. apply sum_ext. intros b Hb.
    rewrite <- sum_scale_l. apply sum_ext. intros a Ha.
    unfold mT, colx, rowx. rewrite (HBi a b Ha Hb). unfold mT.
    rewrite (HS (skip i b) i (skip_lt i k b Hi Hb) ltac:(lia)). unfold mT. ring. }
  rewrite Et.
  pose proof (loo_schur k i A Ainv Binv Hi HA HB) as Hw.
  pose proof (loo_w_neq0 k i A Ainv Binv Hi HA HB) as Hw0.
  assert (Hc : cond_var k i A Binv <> 0).
  { intros E. rewrite E in Hw. apply one_neq_zero. rewrite <- Hw. ring. }
  unfold cond_mean. fold r'. unfold msub at 1 2.
  set (t := mmul k (rowx i A) (mmul k Binv r') O O).
  set (c := cond_var k i A Binv) in *.
  transitivity (quadf k Binv r' + (Ainv i i * c) * ((y i O - m i O - t) * (y i O - m i O - t)) / c).
  - field. exact Hc.
  - rewrite Hw. field. exact Hc.
Qed.

(* ---- the conditional in the C01 layout: joint over [others; i], train = others, no extra noise *)
Lemma loo_cond_is_c01_posterior k i A Binv y m : (i <= k)%nat ->
  let J := loo_joint k i A in
  let muJ : M := fun a _ => m (loo_perm k i a) O in
  let yo := vdel i y in
  cond_var k i A Binv = cov_closed k J Binv O O
  /\ cond_mean k i A Binv y m = post_mean k J muJ Binv yo O O.
Proof.
  intros Hi J muJ yo.
  assert (P1 : forall a, (a < k)%nat -> loo_perm k i a = skip i a).
  { intros a Ha. unfold loo_perm. destruct (Nat.ltb_spec a k); [reflexivity|lia]. }
  assert (P2 : loo_perm k i (k + 0) = i).
  { unfold loo_perm. destruct (Nat.ltb_spec (k + 0) k); [lia|reflexivity]. }
  assert (Q1 : forall a, (a < k)%nat -> Ksx k J O a = A i (skip i a)).
  { intros a Ha. unfold Ksx, sub, J, loo_joint, gather. rewrite P2. rewrite Nat.add_0_l, (P1 a Ha). reflexivity. }
  assert (Q2 : forall a, (a < k)%nat -> Kxs k J a O = A (skip i a) i).
  { intros a Ha. unfold Kxs, sub, J, loo_joint, gather. rewrite P2. rewrite Nat.add_0_l, (P1 a Ha). reflexivity. }
  assert (Q3 : Kss k J O O = A i i).
  { unfold Kss, sub, J, loo_joint, gather. rewrite P2. reflexivity. }
  split.
  - unfold cond_var, cov_closed, msub. rewrite Q3. f_equal.
    unfold mmul. apply sum_ext. intros a Ha. rewrite (Q1 a Ha). unfold rowx. f_equal.
    apply sum_ext. intros b Hb. rewrite (Q2 b Hb). reflexivity.
  - unfold cond_mean, post_mean, mean_cache, madd.
    assert (Em : sub k 0 muJ O O = m i O).
    { unfold sub, muJ. rewrite P2. reflexivity. }
    rewrite Em.
    match goal with |- ?a + ?b = ?c + ?d => assert (E : b = c); [|rewrite E; ring] end.
    unfold mmul. apply sum_ext. intros a Ha. rewrite (Q1 a Ha). unfold rowx. f_equal.
    apply sum_ext. intros b Hb. f_equal.
    unfold vdel, msub, yo, vdel, sub, muJ. rewrite !Nat.add_0_l. rewrite (P1 b Hb). reflexivity.
Qed.

(* ---- objective assembly --------------------------------------------------------------- *)

Lemma csum_app l1 l2 : csum (l1 ++ l2) = csum l1 + csum l2.
Proof. unfold csum. induction l1 as [|x l IH]; cbn [app fold_right]; [ring|rewrite IH; ring]. Qed.

(* the order in which priors / loss terms are registered is irrelevant: each counts once *)
Lemma csum_perm l1 l2 : Permutation l1 l2 -> csum l1 = csum l2.
Proof.
  induction 1 as [|x l l' _ IH|x y l|l l' l'' _ IH1 _ IH2]; cbn [csum fold_right].
  - reflexivity.
  - fold (csum l). fold (csum l'). rewrite IH. reflexivity.
  - fold (csum l). ring.
  - congruence.
Qed.

Lemma mll_decomposition logp priors added nd : nd <> 0 ->
  nd * mll_value logp priors added nd = logp + csum added + csum priors.
Proof. intros H. unfold mll_value. field. exact H. Qed.

Lemma mll_added_once logp priors added a nd : nd <> 0 ->
  mll_value logp priors (a :: added) nd - mll_value logp priors added nd = a / nd.
Proof. intros H. unfold mll_value. cbn [csum fold_right]. fold (csum added). field. exact H. Qed.

Lemma mll_prior_once logp priors added p nd : nd <> 0 ->
  mll_value logp (p :: priors) added nd - mll_value logp priors added nd = p / nd.
Proof. intros H. unfold mll_value. cbn [csum fold_right]. fold (csum priors). field. exact H. Qed.

Lemma mll_perm logp priors priors' added added' nd :
  Permutation priors priors' -> Permutation added added' ->
  mll_value logp priors added nd = mll_value logp priors' added' nd.
Proof. intros H1 H2. unfold mll_value. rewrite (csum_perm _ _ H1), (csum_perm _ _ H2). reflexivity. Qed.

(* SumMarginalLogLikelihood is the mean of the member objectives *)
Lemma sum_mll_is_mean mlls : of_nat (length mlls) <> 0 ->
  of_nat (length mlls) * sum_mll_value mlls = csum mlls.
Proof. intros H. unfold sum_mll_value. field. exact H. Qed.

Lemma csum_map_div nd ts : nd <> 0 -> csum (map (fun t => t / nd) ts) = csum ts / nd.
Proof.
  intros H. induction ts as [|t ts IH]; cbn [map csum fold_right].
  - field. exact H.
  - fold (csum (map (fun t => t / nd) ts)). fold (csum ts). rewrite IH. field. exact H.
Qed.

(* members with the same number of observations: the total dense objective over members * n *)
Lemma sum_mll_equal_ndata nd ts : nd <> 0 -> of_nat (length ts) <> 0 ->
  sum_mll_value (map (fun t => t / nd) ts) = csum ts / (nd * of_nat (length ts)).
Proof.
  intros H1 H2. unfold sum_mll_value. rewrite map_length. rewrite (csum_map_div nd ts H1).
  field. split; assumption.
Qed.

(* multitask: the number of observations is points x tasks (event_shape.numel()) *)
Lemma of_nat_mul n t : of_nat (n * t) = of_nat n * of_nat t.
Proof.
  unfold of_nat. induction n as [|n IH]; cbn [Nat.mul sum]; [ring|].
  rewrite Nat.add_comm. rewrite sum_split. rewrite IH.
  cbn [sum]. ring.
Qed.

(* ---- the quadratic form through any root (the Cholesky path) --------------------------- *)
Lemma root_gives_inverse n L Linv A :
  meq n n (mmul n L (mT L)) A -> is_inverse n L Linv ->
  is_inverse n A (mmul n (mT Linv) Linv).
Proof.
  intros HL [H1 H2]. split.
  - rewrite <- HL.
    rewrite (mmul_assoc n n n n L (mT L)).
    rewrite <- (mmul_assoc n n n n (mT L) (mT Linv) Linv).
    rewrite <- (mT_mmul n n n Linv L).
    rewrite H2. rewrite (mT_mI n n). rewrite (mmul_I_l n n Linv). exact H1.
  - rewrite <- HL.
    rewrite (mmul_assoc n n n n (mT Linv) Linv).
    rewrite <- (mmul_assoc n n n n Linv L (mT L)).
    rewrite H2. rewrite (mmul_I_l n n). rewrite <- (mT_mmul n n n L Linv). rewrite H1.
    apply mT_mI.
Qed.

Lemma quadf_compat n Ai Ai' r : meq n n Ai Ai' -> quadf n Ai r = quadf n Ai' r.
Proof.
  intros E. unfold quadf, mmul. apply sum_ext. intros l Hl. f_equal. apply sum_ext. intros l' Hl'.
  rewrite E by assumption. reflexivity.
Qed.

(* inv_quad computed with a Cholesky factor (any root L of A) = r^T A^-1 r for ANY inverse *)
Lemma quad_via_root n L Linv A Ainv r :
  meq n n (mmul n L (mT L)) A -> is_inverse n L Linv -> is_inverse n A Ainv ->
  quadf n Ainv r = dotf n (mmul n Linv r) (mmul n Linv r).
Proof.
  intros HL HLi HA.
  pose proof (root_gives_inverse n L Linv A HL HLi) as HR.
  rewrite (quadf_compat n Ainv _ r (inverse_unique n A _ _ HA HR)).
  unfold quadf, dotf.
  set (z := mmul n Linv r).
  assert (E1 : meq n 1 (mmul n (mmul n (mT Linv) Linv) r) (mmul n (mT Linv) z)) by apply mmul_assoc.
  rewrite (mmul_compat_r 1 n 1 (mT r) _ _ E1 O O ltac:(lia) ltac:(lia)).
  rewrite <- (mmul_assoc 1 1 n n (mT r) (mT Linv) z O O ltac:(lia) ltac:(lia)).
  rewrite (mmul_compat_l 1 n 1 _ (mT z) z) ; [reflexivity| | lia | lia].
  symmetry. apply mT_mmul.
Qed.

Lemma loo_is_leave_one_out k i (A Ainv Binv y m : M) : (i <= k)%nat ->
  is_inverse (S k) A Ainv -> is_inverse k (del i A) Binv ->
  loo_sigma2 Ainv i = cond_var k i A Binv
  /\ loo_mu (S k) Ainv y m i = cond_mean k i A Binv y m.
Proof.
  intros Hi HA HB. split.
  - exact (loo_sigma2_correct k i A Ainv Binv Hi HA HB).
  - exact (loo_mu_correct k i A Ainv Binv Hi HA HB y m).
Qed.

Lemma mll_terms_once (logp : car) priors added x nd : nd <> 0 ->
  mll_value logp priors (x :: added) nd - mll_value logp priors added nd = x / nd
  /\ mll_value logp (x :: priors) added nd - mll_value logp priors added nd = x / nd.
Proof. intros H. split; [apply mll_added_once|apply mll_prior_once]; exact H. Qed.

End Proofs.

(* ---- over R: the LOO objective is the mean of the predictive log densities ------------- *)
From Coq Require Import Reals Lra QArith Qcanon Qreals.
From GPV Require Import Base.Expr.
Local Open Scope R_scope.

(* log N(y; mu, s2), univariate *)
Definition logN1 (y mu s2 : R) : R :=
  - / 2 * ln s2 - / 2 * ((y - mu) * (y - mu) / s2) - / 2 * ln (2 * PI).

(* as coded (lines 65-73): (sum_i [-1/2 log s2_i - 1/2 (y_i - mu_i)^2 / s2_i] + other) / n - 1/2 log 2 pi *)
Definition loo_code_value (n : nat) (y mu s2 : nat -> R) (other : R) : R :=
  (@sum RF n (fun i => - / 2 * ln (s2 i) - / 2 * ((y i - mu i) * (y i - mu i) / s2 i)) + other) / INR n
  - / 2 * ln (2 * PI).

Lemma sumR_const n c : @sum RF n (fun _ => c) = INR n * c.
Proof.
  induction n as [|n IH]; [cbn; lra|]. change (@sum RF (S n) (fun _ => c)) with (@sum RF n (fun _ => c) + c).
  rewrite IH, S_INR. lra.
Qed.

Lemma loo_objective_is_mean n y mu s2 other : (n <> 0)%nat ->
  loo_code_value n y mu s2 other
  = @sum RF n (fun i => logN1 (y i) (mu i) (s2 i)) / INR n + other / INR n.
Proof.
  intros Hn. assert (Hr : INR n <> 0) by (apply not_0_INR; exact Hn).
  unfold loo_code_value, logN1.
  pose proof (@sum_sub RF n (fun i => - / 2 * ln (s2 i) - / 2 * ((y i - mu i) * (y i - mu i) / s2 i))
                          (fun _ => / 2 * ln (2 * PI))) as E.
  cbn [car fsub RF] in E.
  rewrite E, sumR_const. field. exact Hr.
Qed.

(* ---- what is executed is what the statements are about: den of the printed terms -------- *)
Lemma Q2R'_qc a b : Q2R' (qc a b) = (IZR a / IZR (Zpos b))%R.
Proof. unfold Q2R', qc. cbn [this Q2Qc]. rewrite (Qeq_eqR _ _ (Qred_correct (a # b))). reflexivity. Qed.

Lemma Q2R'_one : Q2R' 1%Qc = 1.
Proof. unfold Q2R', Q2R. cbn. lra. Qed.
Lemma Q2R'_zero : Q2R' 0%Qc = 0.
Proof. unfold Q2R', Q2R. cbn. lra. Qed.

Lemma Q2R'_qcn n : Q2R' (qcn n) = INR n.
Proof.
  unfold qcn, of_nat. induction n as [|n IH].
  - cbn [sum]. exact Q2R'_zero.
  - change (@sum QcF (S n) (fun _ => f1)) with (@sum QcF n (fun _ => f1) + 1)%Qc.
    rewrite Q2R'_plus, IH, Q2R'_one, S_INR. reflexivity.
Qed.

Lemma Q2R'_qsum l : Q2R' (qsum l) = @csum RF (map Q2R' l).
Proof.
  unfold qsum, csum. induction l as [|x l IH]; cbn [map fold_right].
  - exact Q2R'_zero.
  - change (@fadd QcF x (fold_right (@fadd QcF) (@f0 QcF) l)) with (x + fold_right Qcplus 0%Qc l)%Qc.
    rewrite Q2R'_plus. cbn [fadd RF]. f_equal. exact IH.
Qed.

Lemma den_logN_expr n q d :
  den (logN_expr n q d) = - / 2 * (Q2R' q + ln (Q2R' d) + INR n * ln (2 * PI)).
Proof.
  unfold logN_expr, two_pi. cbn [den]. rewrite !Q2R'_qc, Q2R'_qcn.
  replace (IZR (-1) / IZR 2) with (- / 2) by lra. replace (IZR 2 / IZR 1) with 2 by lra. reflexivity.
Qed.

(* the printed objective denotes the generic [mll_value] instantiated at R *)
Lemma den_mll_expr logp priors added nd :
  den (mll_expr logp priors added nd)
  = @mll_value RF (den logp) (map Q2R' priors) (map Q2R' added) (Q2R' nd).
Proof. unfold mll_expr, mll_value. cbn [den]. rewrite !Q2R'_qsum. reflexivity. Qed.

(* non-vacuity of the LOO hypotheses: a concrete 3x3 instance, middle index *)
Lemma inv_checked_mat n (A : @M QcF) Ai : inv_checked n (mat n n A) = Some Ai -> is_inverse n A Ai.
Proof.
  intros E. apply inv_checked_sound in E. destruct E as [H1 H2]. split.
  - intros i j Hi Hj. rewrite <- (H1 i j Hi Hj). unfold mmul. apply sum_ext. intros l Hl.
    rewrite (mat_meq n n A i l Hi Hl). reflexivity.
  - intros i j Hi Hj. rewrite <- (H2 i j Hi Hj). unfold mmul. apply sum_ext. intros l Hl.
    rewrite (mat_meq n n A l j Hl Hj). reflexivity.
Qed.

Lemma ex_loo_hypotheses :
  let A : @M QcF := @of_list QcF [[qc 2 1; qc 1 1; qc 0 1]; [qc 1 1; qc 2 1; qc 1 1]; [qc 0 1; qc 1 1; qc 2 1]] in
  exists Ainv Binv, @is_inverse QcF 3%nat A Ainv /\ @is_inverse QcF 2%nat (@del QcF 1%nat A) Binv.
Proof.
  intros A.
  destruct (inv_checked 3%nat (@mat QcF 3%nat 3%nat A)) as [Ai|] eqn:E1; [|vm_compute in E1; discriminate].
  destruct (inv_checked 2%nat (@mat QcF 2%nat 2%nat (@del QcF 1%nat A))) as [Bi|] eqn:E2; [|vm_compute in E2; discriminate].
  exists Ai, Bi. split; apply inv_checked_mat; assumption.
Qed.
