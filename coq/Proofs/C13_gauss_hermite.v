(* C13 — the premise of [c13_gh_affine_exact] / [c13_gh_hermite_exact] is PROVABLY met by the true
   Gauss-Hermite rules with n = 1, 2, 3 nodes (closed-form nodes and weights, over R), with D = 2n,
   in the raw Hermite-weight form  sum_i w_i t_i^k = sqrt(pi) h_k  (k < 2n), and degree 2n is NOT
   integrated exactly (the degree bound 2n - 1 of the n-point rule is sharp).
     n = 1: node 0,                   weight sqrt(pi)
     n = 2: nodes -+ 1/sqrt 2,        weights sqrt(pi)/2
     n = 3: nodes -sqrt(3/2), 0, sqrt(3/2), weights sqrt(pi)/6, 2 sqrt(pi)/3, sqrt(pi)/6
   (node order of numpy.polynomial.hermite.hermgauss: ascending). *)
From Coq Require Import Arith Lia List Reals Lra.
From GPV Require Import Base.LinAlg Base.Exec Base.Expr Models.C13_quadrature Proofs.C13_quadrature.
Import ListNotations.
Local Open Scope R_scope.

Definition gh1_ts : list R := [0].
Definition gh1_ws : list R := [sqrt PI].
Definition gh2_ts : list R := ts2.
Definition gh2_ws : list R := ws2.
Definition gh3_ts : list R := [- sqrt (3 / 2); 0; sqrt (3 / 2)].
Definition gh3_ws : list R := [sqrt PI / 6; 2 * sqrt PI / 3; sqrt PI / 6].

(* the Hermite-weight moments h_0 .. h_6 *)
Lemma hmom_values :
  @hmom RF 0 = 1 /\ @hmom RF 1 = 0 /\ @hmom RF 2 = 1 / 2 /\ @hmom RF 3 = 0 /\
  @hmom RF 4 = 3 / 4 /\ @hmom RF 5 = 0 /\ @hmom RF 6 = 15 / 8.
Proof. unfold hmom. cbn. change (@car RF) with R. repeat split; field. Qed.

(* ---------------------------------------------------------------- n = 1 *)
Theorem gauss_hermite_1_premise :
  forall k, (k < 2)%nat -> @wsum RF gh1_ts gh1_ws (fun t => t ^ k) = sqrt PI * @hmom RF k.
Proof.
  destruct hmom_values as (H0 & H1 & _).
  intros k Hk. unfold gh1_ts, gh1_ws. cbn [wsum fmul fadd f0 RF]. change (@car RF) with R.
  destruct k as [|[|k]]; [rewrite H0|rewrite H1|lia]; cbn [pow]; ring.
Qed.

Theorem gauss_hermite_1_sharp :
  @wsum RF gh1_ts gh1_ws (fun t => t ^ 2) <> sqrt PI * @hmom RF 2.
Proof.
  destruct hmom_values as (_ & _ & H2 & _). rewrite H2.
  unfold gh1_ts, gh1_ws. cbn [wsum fmul fadd f0 RF pow]. change (@car RF) with R.
  pose proof sqrt_PI_neq0 as P. intros E. apply P. lra.
Qed.

(* ---------------------------------------------------------------- n = 2 *)
Lemma inv_sqrt2_sq : (1 / sqrt 2) * (1 / sqrt 2) = 1 / 2.
Proof.
  assert (Hs : sqrt 2 <> 0) by (apply Rgt_not_eq, sqrt_lt_R0; lra).
  assert (E : sqrt 2 * sqrt 2 = 2) by (apply sqrt_sqrt; lra).
  field_simplify_eq; [|exact Hs]. rewrite <- E at 1. ring.
Qed.

Theorem gauss_hermite_2_premise :
  forall k, (k < 4)%nat -> @wsum RF gh2_ts gh2_ws (fun t => t ^ k) = sqrt PI * @hmom RF k.
Proof.
  destruct hmom_values as (H0 & H1 & H2 & H3 & _).
  intros k Hk. unfold gh2_ts, gh2_ws, ts2, ws2. cbn [wsum fmul fadd f0 RF]. change (@car RF) with R.
  pose proof inv_sqrt2_sq as S2. set (s := 1 / sqrt 2) in *.
  destruct k as [|[|[|[|k]]]]; [rewrite H0|rewrite H1|rewrite H2|rewrite H3|lia]; cbn [pow].
  - field.
  - ring.
  - replace (- s * (- s * 1)) with (s * s) by ring. replace (s * (s * 1)) with (s * s) by ring.
    rewrite S2. field.
  - ring.
Qed.

Theorem gauss_hermite_2_sharp :
  @wsum RF gh2_ts gh2_ws (fun t => t ^ 4) <> sqrt PI * @hmom RF 4.
Proof.
  destruct hmom_values as (_ & _ & _ & _ & H4 & _). rewrite H4.
  unfold gh2_ts, gh2_ws, ts2, ws2. cbn [wsum fmul fadd f0 RF pow]. change (@car RF) with R.
  pose proof inv_sqrt2_sq as S2. set (s := 1 / sqrt 2) in *.
  replace (- s * (- s * (- s * (- s * 1)))) with ((s * s) * (s * s)) by ring.
  replace (s * (s * (s * (s * 1)))) with ((s * s) * (s * s)) by ring.
  rewrite S2. pose proof sqrt_PI_neq0 as P. intros E. apply P. lra.
Qed.

(* ---------------------------------------------------------------- n = 3 *)
Lemma sqrt32_sq : sqrt (3 / 2) * sqrt (3 / 2) = 3 / 2.
Proof. apply sqrt_sqrt. lra. Qed.

Theorem gauss_hermite_3_premise :
  forall k, (k < 6)%nat -> @wsum RF gh3_ts gh3_ws (fun t => t ^ k) = sqrt PI * @hmom RF k.
Proof.
  destruct hmom_values as (H0 & H1 & H2 & H3 & H4 & H5 & _).
  intros k Hk. unfold gh3_ts, gh3_ws. cbn [wsum fmul fadd f0 RF]. change (@car RF) with R.
  pose proof sqrt32_sq as S2. set (s := sqrt (3 / 2)) in *.
  destruct k as [|[|[|[|[|[|k]]]]]];
    [rewrite H0|rewrite H1|rewrite H2|rewrite H3|rewrite H4|rewrite H5|lia]; cbn [pow].
  - field.
  - ring.
  - replace (- s * (- s * 1)) with (s * s) by ring. replace (s * (s * 1)) with (s * s) by ring.
    rewrite S2. field.
  - ring.
  - replace (- s * (- s * (- s * (- s * 1)))) with ((s * s) * (s * s)) by ring.
    replace (s * (s * (s * (s * 1)))) with ((s * s) * (s * s)) by ring.
    rewrite S2. field.
  - ring.
Qed.

Theorem gauss_hermite_3_sharp :
  @wsum RF gh3_ts gh3_ws (fun t => t ^ 6) <> sqrt PI * @hmom RF 6.
Proof.
  destruct hmom_values as (_ & _ & _ & _ & _ & _ & H6). rewrite H6.
  unfold gh3_ts, gh3_ws. cbn [wsum fmul fadd f0 RF pow]. change (@car RF) with R.
  pose proof sqrt32_sq as S2. set (s := sqrt (3 / 2)) in *.
  replace (- s * (- s * (- s * (- s * (- s * (- s * 1)))))) with ((s * s) * (s * s) * (s * s)) by ring.
  replace (s * (s * (s * (s * (s * (s * 1)))))) with ((s * s) * (s * s) * (s * s)) by ring.
  rewrite S2. pose proof sqrt_PI_neq0 as P. intros E. apply P. lra.
Qed.

(* ---------------------------------------------------------------- corollaries: the rules are exact *)
(* the n-point rule, as GaussHermiteQuadrature1D applies it (shift by the mean, scale by sqrt(2 v),
   factor 1/sqrt(pi)), returns E_{N(m,v)}[p] for EVERY polynomial p of degree <= 2n - 1, every mean,
   every variance >= 0 - no hypothesis about the nodes left *)
Theorem gauss_hermite_1_exact (p : list R) (m v : R) : (length p <= 2)%nat -> 0 <= v ->
  gh_rule gh1_ts gh1_ws m v (@peval RF p) = normal_expect m v p.
Proof. apply (gh_hermite_exact_R 2). exact gauss_hermite_1_premise. Qed.

Theorem gauss_hermite_2_exact (p : list R) (m v : R) : (length p <= 4)%nat -> 0 <= v ->
  gh_rule gh2_ts gh2_ws m v (@peval RF p) = normal_expect m v p.
Proof. apply (gh_hermite_exact_R 4). exact gauss_hermite_2_premise. Qed.

Theorem gauss_hermite_3_exact (p : list R) (m v : R) : (length p <= 6)%nat -> 0 <= v ->
  gh_rule gh3_ts gh3_ws m v (@peval RF p) = normal_expect m v p.
Proof. apply (gh_hermite_exact_R 6). exact gauss_hermite_3_premise. Qed.

(* the premise of [c13_gh_affine_exact] itself (standard-normal form) *)
Theorem gauss_hermite_123_affine_premise :
  (forall k, (k < 2)%nat -> gh_rule gh1_ts gh1_ws 0 1 (fun x => x ^ k) = @gmom RF k) /\
  (forall k, (k < 4)%nat -> gh_rule gh2_ts gh2_ws 0 1 (fun x => x ^ k) = @gmom RF k) /\
  (forall k, (k < 6)%nat -> gh_rule gh3_ts gh3_ws 0 1 (fun x => x ^ k) = @gmom RF k).
Proof.
  split; [|split].
  - apply gh_premise_from_hermite. exact gauss_hermite_1_premise.
  - apply gh_premise_from_hermite. exact gauss_hermite_2_premise.
  - apply gh_premise_from_hermite. exact gauss_hermite_3_premise.
Qed.

(* sharpness in the form of the rule itself: z^(2n) against N(0,1) is NOT reproduced *)
Lemma gh_rule_mono_from_hermite ts ws k :
  gh_rule ts ws 0 1 (fun x => x ^ k) = sqrt (2 * 1) ^ k * (1 / sqrt PI * @wsum RF ts ws (fun t => t ^ k)).
Proof.
  unfold gh_rule, gh_core.
  rewrite (@wsum_ext RF _ _ _ (fun t => sqrt (2 * 1) ^ k * t ^ k)).
  2:{ intros t. cbn [fmul fadd RF]. rewrite Rplus_0_r. apply Rpow_mult_distr. }
  rewrite (@wsum_scale RF). cbn [fmul RF]. ring.
Qed.

Lemma gh_sharp_from_hermite ts ws k :
  @wsum RF ts ws (fun t => t ^ k) <> sqrt PI * @hmom RF k ->
  gh_rule ts ws 0 1 (fun x => x ^ k) <> @gmom RF k.
Proof.
  intros H E. apply H. rewrite gh_rule_mono_from_hermite in E.
  assert (Hs : sqrt (2 * 1) * sqrt (2 * 1) = 1 + 1) by (rewrite sqrt_sqrt; lra).
  assert (H2 : (1 + 1 <> 0)%R) by lra.
  pose proof (@hmom_gmom RF (sqrt (2 * 1)) Hs H2 k) as G. cbn [fmul RF] in G. rewrite fpow_R in G.
  rewrite <- G in E.
  assert (Hp : sqrt (2 * 1) ^ k <> 0).
  { apply pow_nonzero. apply Rgt_not_eq, sqrt_lt_R0. lra. }
  apply Rmult_eq_reg_l in E; [|exact Hp].
  pose proof sqrt_PI_neq0 as P.
  apply (Rmult_eq_reg_l (1 / sqrt PI)).
  - rewrite E. generalize (@hmom RF k). change (@car RF) with R. intros h. field. exact P.
  - intros Z. apply P. unfold Rdiv in Z. rewrite Rmult_1_l in Z.
    exfalso. exact (Rinv_neq_0_compat _ P Z).
Qed.

Theorem gauss_hermite_123_sharp :
  gh_rule gh1_ts gh1_ws 0 1 (fun x => x ^ 2) <> @gmom RF 2%nat /\
  gh_rule gh2_ts gh2_ws 0 1 (fun x => x ^ 4) <> @gmom RF 4%nat /\
  gh_rule gh3_ts gh3_ws 0 1 (fun x => x ^ 6) <> @gmom RF 6%nat.
Proof.
  split; [|split]; apply gh_sharp_from_hermite.
  - exact gauss_hermite_1_sharp.
  - exact gauss_hermite_2_sharp.
  - exact gauss_hermite_3_sharp.
Qed.

(* the rules also meet the hypotheses of the "weighted mean" theorems (Proofs/C13_tails.v):
   equally many nodes and weights, weights >= 0 with sum sqrt(pi) *)
Lemma gauss_hermite_123_mean_hyps :
  (length gh1_ts = length gh1_ws /\ Forall (fun w => 0 <= w) gh1_ws /\ @lsum RF gh1_ws = sqrt PI) /\
  (length gh2_ts = length gh2_ws /\ Forall (fun w => 0 <= w) gh2_ws /\ @lsum RF gh2_ws = sqrt PI) /\
  (length gh3_ts = length gh3_ws /\ Forall (fun w => 0 <= w) gh3_ws /\ @lsum RF gh3_ws = sqrt PI).
Proof.
  assert (P : 0 < sqrt PI) by (apply sqrt_lt_R0; exact PI_RGT_0).
  repeat split; try reflexivity;
    try (repeat constructor; lra);
    try (unfold gh1_ws, gh2_ws, ws2, gh3_ws; cbn; field).
Qed.
