(* C10: KL(p || q) >= 0 for the model's own expression
     2 KL = kl_rational + ln det Q - ln det P
   with the Laplace determinant [det] of Base/Exec.v, for covariances with Cholesky factors of
   positive diagonal (every n).  Uses Base/Det.v: det (T T^T) = (prod diag T)^2. *)
From Coq Require Import Reals Lra Lia Arith.
From GPV Require Import Base.LinAlg Base.Exec Base.Expr Base.Det Models.C10_mvn Proofs.C10_mvn Proofs.C10_kl.
Local Open Scope R_scope.

Lemma rsum_ext_lt n f g : (forall i, (i < n)%nat -> f i = g i) -> rsum n f = rsum n g.
Proof.
  induction n as [|n IH]; intros H; [reflexivity|]. cbn [rsum].
  rewrite IH by (intros i Hi; apply H; lia). rewrite H by lia. reflexivity.
Qed.

Lemma rsum_scal n c f : rsum n (fun i => c * f i) = c * rsum n f.
Proof. induction n as [|n IH]; cbn [rsum]; [lra|rewrite IH; lra]. Qed.

Lemma rsum_minus n f g : rsum n (fun i => f i - g i) = rsum n f - rsum n g.
Proof. induction n as [|n IH]; cbn [rsum]; [lra|rewrite IH; lra]. Qed.

Lemma dprod_pos n (f : nat -> R) : (forall i, (i < n)%nat -> 0 < f i) -> 0 < @dprod RF n f.
Proof.
  induction n as [|n IH]; intros H; cbn [dprod]; [cbn; lra|].
  assert (0 < @dprod RF n f) by (apply IH; intros; apply H; lia).
  specialize (H n ltac:(lia)). cbn [fmul RF]. apply Rmult_lt_0_compat; assumption.
Qed.

Lemma ln_dprod n (f : nat -> R) : (forall i, (i < n)%nat -> 0 < f i) ->
  ln (@dprod RF n f) = rsum n (fun i => ln (f i)).
Proof.
  induction n as [|n IH]; intros H; cbn [dprod rsum]; [cbn; apply ln_1|].
  cbn [fmul RF]. rewrite ln_mult.
  - rewrite IH by (intros; apply H; lia). reflexivity.
  - apply dprod_pos. intros; apply H; lia.
  - apply H; lia.
Qed.

(* ln det (T T^T) = 2 sum_i ln t_ii for lower-triangular T with positive diagonal *)
Lemma ln_det_gram n (T A : @M RF) : tri_lower n T -> (forall i, (i < n)%nat -> 0 < T i i) ->
  meq n n (mmul n T (mT T)) A ->
  0 < det n A /\ ln (det n A) = 2 * rsum n (fun i => ln (T i i)).
Proof.
  intros HT Hpos HA.
  rewrite <- (det_ext n _ _ HA), (det_tri_gram_lower n T HT).
  pose proof (dprod_pos n (fun i => T i i) Hpos) as Hd.
  cbn [fmul RF]. split; [apply Rmult_lt_0_compat; exact Hd|].
  rewrite ln_mult by exact Hd. rewrite (ln_dprod n (fun i => T i i) Hpos). lra.
Qed.

Lemma Rinv_from_mul (a b : R) : 0 < b -> a * b = 1 -> a = / b.
Proof. intros Hb E. transitivity (a * b * / b); [field; lra|]. rewrite E. field. lra. Qed.

Section Compat.
Context {K : Fld}.
Lemma kl_rational_compat n mp mq (P P' Qi Qi' : M) : meq n n P P' -> meq n n Qi Qi' ->
  kl_rational n mp P mq Qi = kl_rational n mp P' mq Qi'.
Proof.
  intros HP HQ. unfold kl_rational. f_equal. f_equal.
  - apply trace_compat. apply mmul_compat; assumption.
  - unfold quad, mmul. apply sum_ext. intros l Hl. f_equal. apply sum_ext. intros l' Hl'.
    rewrite HQ by assumption. reflexivity.
Qed.
End Compat.

(* KL(p || q) >= 0, every n: P, Q with lower-triangular (Cholesky) factors of positive diagonal,
   Qi ANY inverse of Q, det = the model's Laplace determinant *)
Theorem kl_nonneg_det n (mp mq P Q Qi Lp Lq Li : @M RF) :
  tri_lower n Lp -> tri_lower n Lq ->
  (forall i, (i < n)%nat -> 0 < Lp i i) -> (forall i, (i < n)%nat -> 0 < Lq i i) ->
  is_inverse n Lq Li ->
  meq n n (mmul n Lp (mT Lp)) P -> meq n n (mmul n Lq (mT Lq)) Q -> is_inverse n Q Qi ->
  0 < det n P /\ 0 < det n Q /\
  0 <= kl_rational n mp P mq Qi + ln (det n Q) - ln (det n P).
Proof.
  intros HLp HLq Hpp Hpq HLi HP HQ HQi.
  destruct (ln_det_gram n Lp P HLp Hpp HP) as [HdP ElP].
  destruct (ln_det_gram n Lq Q HLq Hpq HQ) as [HdQ ElQ].
  split; [exact HdP|]. split; [exact HdQ|].
  assert (HLiL : tri_lower n Li).
  { apply (tri_lower_inverse n Lq Li HLq); [|exact (proj2 HLi)].
    intros i Hi E. specialize (Hpq i Hi). cbn in E. lra. }
  assert (Hii : forall i, (i < n)%nat -> Li i i = / Lq i i).
  { intros i Hi. pose proof (proj2 HLi i i Hi Hi) as E.
    rewrite (tri_lower_mmul_diag n Li Lq i HLiL HLq Hi) in E. unfold mI in E.
    rewrite Nat.eqb_refl in E. cbn [fmul f1 RF] in E. specialize (Hpq i Hi).
    apply (Rinv_from_mul (Li i i) (Lq i i) Hpq E). }
  assert (HW : forall i, (i < n)%nat -> @mmul RF n Li Lp i i = / Lq i i * Lp i i).
  { intros i Hi. rewrite (tri_lower_mmul_diag n Li Lp i HLiL HLp Hi). rewrite (Hii i Hi). reflexivity. }
  assert (HWpos : forall i, (i < n)%nat -> 0 < @mmul RF n Li Lp i i).
  { intros i Hi. rewrite (HW i Hi). apply Rmult_lt_0_compat; [apply Rinv_0_lt_compat; apply Hpq; exact Hi|apply Hpp; exact Hi]. }
  pose proof (kl_model_nonneg n mp mq Lp Li HWpos) as Hnn.
  rewrite (kl_rational_compat n mp mq P (mmul n Lp (mT Lp)) Qi (mmul n (mT Li) Li)).
  - assert (El : rsum n (fun i => ln (@mmul RF n Li Lp i i * @mmul RF n Li Lp i i))
                 = 2 * rsum n (fun i => ln (Lp i i)) - 2 * rsum n (fun i => ln (Lq i i))).
    { rewrite <- !rsum_scal, <- rsum_minus. apply rsum_ext_lt. intros i Hi.
      rewrite (HW i Hi). specialize (Hpp i Hi). specialize (Hpq i Hi).
      assert (0 < / Lq i i) by (apply Rinv_0_lt_compat; exact Hpq).
      assert (0 < / Lq i i * Lp i i) by (apply Rmult_lt_0_compat; assumption).
      rewrite ln_mult by assumption. rewrite ln_mult by assumption. rewrite ln_Rinv by exact Hpq. lra. }
    rewrite El in Hnn. rewrite ElP, ElQ. lra.
  - symmetry. exact HP.
  - apply (inverse_unique n Q); [exact HQi|]. apply (gram_inverse n Lq Li Q HQ HLi).
Qed.

(* the model's closed form IS the Cholesky form the code evaluates (trace/quadratic part AND log-det
   part), same hypotheses:  kl_rational + ln det Q - ln det P = |W|_F^2 + |d|^2 - n - sum_i ln w_ii^2
   with W = Lq^-1 Lp, d = Lq^-1 (mp - mq) *)
Theorem kl_closed_eq_cholesky_form n (mp mq P Q Qi Lp Lq Li : @M RF) :
  tri_lower n Lp -> tri_lower n Lq ->
  (forall i, (i < n)%nat -> 0 < Lp i i) -> (forall i, (i < n)%nat -> 0 < Lq i i) ->
  is_inverse n Lq Li ->
  meq n n (mmul n Lp (mT Lp)) P -> meq n n (mmul n Lq (mT Lq)) Q -> is_inverse n Q Qi ->
  kl_rational n mp P mq Qi + ln (det n Q) - ln (det n P)
  = kl2_chol n (@mmul RF n Li Lp) (fun a => @mmul RF n Li (@msub RF mp mq) a O).
Proof.
  intros HLp HLq Hpp Hpq HLi HP HQ HQi.
  destruct (ln_det_gram n Lp P HLp Hpp HP) as [HdP ElP].
  destruct (ln_det_gram n Lq Q HLq Hpq HQ) as [HdQ ElQ].
  assert (HLiL : tri_lower n Li).
  { apply (tri_lower_inverse n Lq Li HLq); [|exact (proj2 HLi)].
    intros i Hi E. specialize (Hpq i Hi). cbn in E. lra. }
  assert (Hii : forall i, (i < n)%nat -> Li i i = / Lq i i).
  { intros i Hi. pose proof (proj2 HLi i i Hi Hi) as E.
    rewrite (tri_lower_mmul_diag n Li Lq i HLiL HLq Hi) in E. unfold mI in E.
    rewrite Nat.eqb_refl in E. cbn [fmul f1 RF] in E. specialize (Hpq i Hi).
    apply (Rinv_from_mul (Li i i) (Lq i i) Hpq E). }
  assert (HW : forall i, (i < n)%nat -> @mmul RF n Li Lp i i = / Lq i i * Lp i i).
  { intros i Hi. rewrite (tri_lower_mmul_diag n Li Lp i HLiL HLp Hi). rewrite (Hii i Hi). reflexivity. }
  assert (El : rsum n (fun i => ln (@mmul RF n Li Lp i i * @mmul RF n Li Lp i i))
               = 2 * rsum n (fun i => ln (Lp i i)) - 2 * rsum n (fun i => ln (Lq i i))).
  { rewrite <- !rsum_scal, <- rsum_minus. apply rsum_ext_lt. intros i Hi.
    rewrite (HW i Hi). specialize (Hpp i Hi). specialize (Hpq i Hi).
    assert (0 < / Lq i i) by (apply Rinv_0_lt_compat; exact Hpq).
    assert (0 < / Lq i i * Lp i i) by (apply Rmult_lt_0_compat; assumption).
    rewrite ln_mult by assumption. rewrite ln_mult by assumption. rewrite ln_Rinv by exact Hpq. lra. }
  rewrite (kl_rational_compat n mp mq P (mmul n Lp (mT Lp)) Qi (mmul n (mT Li) Li)).
  - rewrite kl_rational_chol, nat_f_RF, !sum_RF_rsum. unfold kl2_chol. rewrite El, ElP, ElQ.
    replace (rsum n (fun i => @sum RF n (fun j => @fmul RF (@mmul RF n Li Lp i j) (@mmul RF n Li Lp i j))))
      with (rsum n (fun i => rsum n (fun j => @mmul RF n Li Lp i j * @mmul RF n Li Lp i j))).
    + cbn [fadd fsub fmul RF].
      repeat match goal with |- context [@sum RF n ?f] =>
        replace (@sum RF n f) with (rsum n f) by (symmetry; apply sum_RF_rsum) end.
      lra.
    + apply rsum_ext. intros i. symmetry.
      apply (sum_RF_rsum n (fun j => @mmul RF n Li Lp i j * @mmul RF n Li Lp i j)).
  - symmetry. exact HP.
  - apply (inverse_unique n Q); [exact HQi|]. apply (gram_inverse n Lq Li Q HQ HLi).
Qed.

(* non-vacuity: a 2x2 instance of the hypotheses *)
Definition exR_L : @M RF := fun i j => match i, j with O, O => 1 | 1%nat, O => 1 | 1%nat, 1%nat => 1 | _, _ => 0 end.
Definition exR_Li : @M RF := fun i j => match i, j with O, O => 1 | 1%nat, O => -1 | 1%nat, 1%nat => 1 | _, _ => 0 end.
Lemma ex_kl_nonneg_hyps :
  tri_lower 2 exR_L /\ (forall i, (i < 2)%nat -> 0 < exR_L i i) /\ is_inverse 2 exR_L exR_Li.
Proof.
  split; [|split].
  - intros i j Hi Hj Hij. destruct i as [|[|i]]; destruct j as [|[|j]]; try lia; reflexivity.
  - intros i Hi. destruct i as [|[|i]]; try lia; cbn; lra.
  - split; intros i j Hi Hj; destruct i as [|[|i]]; destruct j as [|[|j]]; try lia;
      unfold mmul, mI; cbn; lra.
Qed.
