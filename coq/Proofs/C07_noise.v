(* C07 lemmas, noise floor of a general (heteroskedastic / indexed / interval-constrained) noise model.
   HeteroskedasticNoise.forward: noise_diag_i = constraint.transform(level_i) with level_i = the selected output of the
   noise model at x_i (any real number, negative included); likelihood.marginal adds diag(noise_diag) to the latent
   covariance.  Part 1 (any ordered field): K PSD, d_i >= lb >= 0  ==>  K + diag(d) PSD, (K + diag d)_ii >= K_ii + lb, and
   K + diag(d) - lb*I PSD.  Part 2 (R): transform(level) is strictly inside the constraint's bounds for EVERY level, for
   GreaterThan / Interval / Positive; combined: the marginal of a heteroskedastic likelihood is a valid covariance. *)
From Coq Require Import Arith Lia Ring Field Setoid Morphisms List Bool Reals Lra QArith Qcanon.
From GPV Require Import Base.LinAlg Base.Exec Base.Expr Models.C17_constraints Proofs.C17_constraints
  Models.C07_psd Proofs.C07_psd.
Import ListNotations.

Section NoiseFloor.
Context {K : Fld} {O : OrdFld K}.
Add Field Ff_c07noise : (@FT K).
Local Open Scope fld_scope.
Notation "a <= b" := (fle a b).

Lemma madd_mdiag_diag (A : M) d i : madd A (mdiag d) i i = A i i + d i.
Proof. unfold madd, mdiag. rewrite Nat.eqb_refl. reflexivity. Qed.

Lemma marginal_diag_noise_psd n (Kxx : M) d lb :
  PSD n Kxx -> 0 <= lb -> (forall i, (i < n)%nat -> lb <= d i) ->
  PSD n (madd Kxx (mdiag d)) /\
  (forall i, (i < n)%nat -> Kxx i i + lb <= madd Kxx (mdiag d) i i) /\
  (forall i, (i < n)%nat -> 0 <= madd Kxx (mdiag d) i i).
Proof.
  intros HK Hlb Hd.
  assert (Hd0 : forall i, (i < n)%nat -> 0 <= d i).
  { intros i Hi. apply (fle_trans _ lb); [exact Hlb|apply Hd; exact Hi]. }
  assert (HP : PSD n (madd Kxx (mdiag d))).
  { apply PSD_madd; [exact HK|apply PSD_mdiag; exact Hd0]. }
  split; [exact HP|split].
  - intros i Hi. rewrite madd_mdiag_diag. apply fle_add; [apply fle_refl|apply Hd; exact Hi].
  - intros i Hi. apply (PSD_diag_nn n _ i HP Hi).
Qed.

(* the added operator alone dominates lb * I: diag(d) - lb*I = diag(d - lb) is PSD *)
Lemma added_noise_minus_floor_psd n d lb :
  (forall i, (i < n)%nat -> lb <= d i) -> PSD n (mdiag (fun i => d i - lb)).
Proof.
  intros Hd. apply PSD_mdiag. intros i Hi.
  replace 0 with (lb + (- lb)) by ring. replace (d i - lb) with (d i + (- lb)) by ring.
  apply fle_add; [apply Hd; exact Hi|apply fle_refl].
Qed.

End NoiseFloor.

(* ---- over R: every level is mapped strictly inside the bounds --------------------------------- *)
Local Open Scope R_scope.

Lemma interval_noise_in_bounds l u (x : R) :
  (Q2R' l < Q2R' u) -> Q2R' l < transform_R (CInterval l u) x < Q2R' u.
Proof. intros H. exact (transform_range (CInterval l u) x H). Qed.

Lemma positive_noise_pos (x : R) : 0 < transform_R CPositive x.
Proof. exact (transform_range CPositive x I). Qed.

(* HeteroskedasticNoise with GreaterThan(lb), lb >= 0, any level function (any noise model, any noise_indices
   selection): K PSD ==> K + diag(transform(level_i)) is PSD, each marginal variance exceeds the latent one by >= lb *)
Lemma heteroskedastic_marginal_valid n (Kxx : @M RF) lb (level : nat -> R) :
  @PSD RF ROrd n Kxx -> 0 <= Q2R' lb ->
  let d := fun i => transform_R (CGreater lb) (level i) in
  @PSD RF ROrd n (@madd RF Kxx (@mdiag RF d)) /\
  (forall i, (i < n)%nat -> Kxx i i + Q2R' lb <= @madd RF Kxx (@mdiag RF d) i i) /\
  (forall i, (i < n)%nat -> Q2R' lb < d i).
Proof.
  intros HK Hlb d.
  assert (Hd : forall i, (i < n)%nat -> Q2R' lb <= d i).
  { intros i _. left. exact (transform_range (CGreater lb) (level i) I). }
  destruct (@marginal_diag_noise_psd RF ROrd n Kxx d (Q2R' lb) HK Hlb Hd) as [H1 [H2 _]].
  split; [exact H1|split; [exact H2|]].
  intros i _. exact (transform_range (CGreater lb) (level i) I).
Qed.

Lemma heteroskedastic_interval_marginal_valid n (Kxx : @M RF) l u (level : nat -> R) :
  @PSD RF ROrd n Kxx -> 0 <= Q2R' l -> Q2R' l < Q2R' u ->
  let d := fun i => transform_R (CInterval l u) (level i) in
  @PSD RF ROrd n (@madd RF Kxx (@mdiag RF d)) /\
  (forall i, (i < n)%nat -> Kxx i i + Q2R' l <= @madd RF Kxx (@mdiag RF d) i i).
Proof.
  intros HK Hlb Hw d.
  assert (Hd : forall i, (i < n)%nat -> Q2R' l <= d i).
  { intros i _. left. exact (proj1 (transform_range (CInterval l u) (level i) Hw)). }
  destruct (@marginal_diag_noise_psd RF ROrd n Kxx d (Q2R' l) HK Hlb Hd) as [H1 [H2 _]].
  split; [exact H1|exact H2].
Qed.

(* the hypotheses of marginal_diag_noise_psd are satisfiable (exact rationals): K = I_2, lb = 1/10000, d = (1/10000, 3) *)
Lemma ex_noise_floor_hyps_holds :
  @PSD QcF QcOrd 2 (@mdiag QcF (fun _ => 1%Qc)) /\ (@fle QcF QcOrd 0%Qc (Q2Qc (1 # 10000))) /\
  (forall i, (i < 2)%nat -> @fle QcF QcOrd (Q2Qc (1 # 10000)) (if Nat.eqb i 0 then Q2Qc (1 # 10000) else Q2Qc 3)).
Proof.
  split; [|split].
  - apply (@PSD_mdiag QcF QcOrd). intros k _. cbn. discriminate.
  - cbn. discriminate.
  - intros i _. destruct (Nat.eqb i 0); cbn; discriminate.
Qed.
