(* C02: the log-det half of the chain rule of the Gaussian density,
     det A = det A[-i,-i] * sigma_i^2      (every n, every i),
   for the Laplace determinant of the executable model, and the resulting chain rule
   log p(y) = log p(y_-i) + log p(y_i | y_-i) over R.  Uses Base/Det.v (multiplicativity of det,
   cofactor of a unit row). *)
From Coq Require Import Arith Lia Ring Field Setoid Morphisms List.
From GPV Require Import Base.LinAlg Base.Exec Base.Det Models.C01_posterior Models.C02_mll Proofs.C02_mll.

Section DetChain.
Context {K : Fld}.
Add Field Ff_c02d : (@FT K).
Local Open Scope fld_scope.

Lemma det_del_inverse k i A Ainv : (i <= k)%nat -> is_inverse (S k) A Ainv ->
  det k (del i A) = Ainv i i * det (S k) A.
Proof.
  intros Hi HA. rewrite <- (det_minor_inverse k i A Ainv Hi HA).
  apply det_ext. intros a b _ _. reflexivity.
Qed.

(* det A = det A[-i,-i] * (A_ii - A[i,-i] A[-i,-i]^-1 A[-i,i]) *)
Lemma det_chain_rule_loo k i A Ainv Binv : (i <= k)%nat ->
  is_inverse (S k) A Ainv -> is_inverse k (del i A) Binv ->
  det (S k) A = det k (del i A) * cond_var k i A Binv.
Proof.
  intros Hi HA HB.
  pose proof (loo_schur k i A Ainv Binv Hi HA HB) as Hw.
  rewrite (det_del_inverse k i A Ainv Hi HA).
  transitivity (det (S k) A * (Ainv i i * cond_var k i A Binv)); [rewrite Hw; ring|ring].
Qed.

Lemma chain_rule_loo_full k i A Ainv Binv y m : (i <= k)%nat -> symmetric (S k) A ->
  is_inverse (S k) A Ainv -> is_inverse k (del i A) Binv ->
  quadf (S k) Ainv (msub y m)
  = quadf k Binv (vdel i (msub y m))
    + (y i O - cond_mean k i A Binv y m) * (y i O - cond_mean k i A Binv y m) / cond_var k i A Binv
  /\ det (S k) A = det k (del i A) * cond_var k i A Binv.
Proof.
  intros Hi HS HA HB. split.
  - exact (quad_chain_rule_loo k i A Ainv Binv y m Hi HS HA HB).
  - exact (det_chain_rule_loo k i A Ainv Binv Hi HA HB).
Qed.

End DetChain.

(* ---- over R: log p(y) = log p(y_-i) + log p(y_i | y_-i) ------------------------------- *)
From Coq Require Import Reals Lra.
From GPV Require Import Base.Expr.
Local Open Scope R_scope.

(* log N from the quadratic form q and the determinant d (what [logN_expr] denotes, lemma
   [den_logN_expr]) *)
Definition logNR (n : nat) (q d : R) : R := - / 2 * (q + ln d + INR n * ln (2 * PI)).

Theorem density_chain_rule_loo k i (A Ainv Binv y m : @M RF) : (i <= k)%nat ->
  symmetric (S k) A -> is_inverse (S k) A Ainv -> is_inverse k (del i A) Binv ->
  0 < det k (del i A) -> 0 < cond_var k i A Binv ->
  0 < det (S k) A /\
  logNR (S k) (quadf (S k) Ainv (msub y m)) (det (S k) A)
  = logNR k (quadf k Binv (vdel i (msub y m))) (det k (del i A))
    + logN1 (y i O) (cond_mean k i A Binv y m) (cond_var k i A Binv).
Proof.
  intros Hi HS HA HB HdB Hc.
  destruct (chain_rule_loo_full k i A Ainv Binv y m Hi HS HA HB) as [Eq Ed].
  rewrite Ed, Eq. cbn [fmul fadd fdiv fsub RF].
  split; [apply Rmult_lt_0_compat; assumption|].
  unfold logNR, logN1. rewrite ln_mult by assumption. rewrite S_INR. lra.
Qed.

(* non-vacuity: positive-definite 2x2 instance, i = 1 *)
Definition exR_A : @M RF := fun a b => match a, b with O, O => 2 | 1%nat, 1%nat => 2 | _, _ => 1 end.
Definition exR_Ainv : @M RF := fun a b => match a, b with O, O => 2 / 3 | 1%nat, 1%nat => 2 / 3 | _, _ => - / 3 end.
Lemma ex_density_chain_hyps :
  symmetric 2 exR_A /\ is_inverse 2 exR_A exR_Ainv /\ is_inverse 1 (del 1 exR_A) (fun _ _ => / 2)
  /\ 0 < det 1 (del 1 exR_A) /\ 0 < cond_var 1 1 exR_A (fun _ _ => / 2).
Proof.
  split; [|split; [|split; [|split]]].
  - intros a b Ha Hb. destruct a as [|[|a]]; destruct b as [|[|b]]; try lia; reflexivity.
  - split; intros a b Ha Hb; destruct a as [|[|a]]; destruct b as [|[|b]]; try lia;
      unfold mmul, mI; cbn; lra.
  - split; intros a b Ha Hb; destruct a as [|a]; destruct b as [|b]; try lia;
      unfold mmul, mI, del, gather; cbn; lra.
  - rewrite det_detF. unfold del, gather. cbn. lra.
  - unfold cond_var, mmul, rowx, colx. cbn. lra.
Qed.
