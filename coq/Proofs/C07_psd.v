(* C07 lemmas.  Part 1 (this file): positive semi-definiteness over ANY ordered field
   (class [OrdFld]: instances R and Qc), Gram-type kernels, closure properties, the exact
   posterior never adds uncertainty, more data never increases it, certificate soundness.
   General-purpose lemmas here (candidates for a Base/Psd.v): bform_mmul, qform_congr,
   qform_hadamard_wgram, sum_mul, sum_nn, PSD_* closure lemmas. *)
From Coq Require Import Arith Lia Ring Field Setoid Morphisms List Bool Reals Lra QArith Qcanon.
From GPV Require Import Base.LinAlg Base.Exec Base.Expr Models.C01_posterior Proofs.C01_posterior
  Models.C04_fantasy Proofs.C04_fantasy Models.C07_psd.
Import ListNotations.

(* an order compatible with the field operations; all that PSD reasoning needs *)
Class OrdFld (K : Fld) := {
  fle : @car K -> @car K -> Prop;
  fle_refl : forall a, fle a a;
  fle_trans : forall a b c, fle a b -> fle b c -> fle a c;
  fle_add : forall a b c d, fle a b -> fle c d -> fle (fadd a c) (fadd b d);
  fle_mul_nn : forall a b, fle f0 a -> fle f0 b -> fle f0 (fmul a b);
  fle_sq : forall a, fle f0 (fmul a a)
}.

Global Instance ROrd : OrdFld RF.
Proof.
  refine {| fle := Rle |}; cbn.
  - apply Rle_refl.
  - apply Rle_trans.
  - intros; apply Rplus_le_compat; assumption.
  - intros; apply Rmult_le_pos; assumption.
  - intros a. apply Rle_0_sqr.
Defined.

Global Instance QcOrd : OrdFld QcF.
Proof.
  refine (@Build_OrdFld QcF (fun a b : Qc => Qcle a b) _ _ _ _ _); cbn.
  - apply Qcle_refl.
  - apply Qcle_trans.
  - intros; apply Qcplus_le_compat; assumption.
  - intros a b Ha Hb. rewrite <- (Qcmult_0_l b). apply Qcmult_le_compat_r; assumption.
  - intros a. destruct (Qclt_le_dec a 0) as [H|H].
    + assert (H' : (0 <= - a)%Qc).
      { apply Qclt_le_weak in H. apply Qcopp_le_compat in H. exact H. }
      replace (a * a)%Qc with ((- a) * (- a))%Qc by ring.
      rewrite <- (Qcmult_0_l (- a)). apply Qcmult_le_compat_r; assumption.
    + rewrite <- (Qcmult_0_l a). apply Qcmult_le_compat_r; assumption.
Defined.

Section PsdProofs.
Context {K : Fld} {O : OrdFld K}.
Add Field Ff_c07 : (@FT K).
Local Open Scope fld_scope.
Notation "a <= b" := (fle a b).

Definition PSD (n : nat) (A : M) : Prop := forall x : nat -> car, 0 <= qform n A x.

(* ---- order helpers ---------------------------------------------------------------------- *)
Lemma nn_add a b : 0 <= a -> 0 <= b -> 0 <= a + b.
Proof. intros Ha Hb. replace 0 with (0 + 0) by ring. apply fle_add; assumption. Qed.

Lemma sum_nn n f : (forall i, (i < n)%nat -> 0 <= f i) -> 0 <= sum n f.
Proof.
  induction n as [|n IH]; intros H; cbn [sum]; [apply fle_refl|].
  apply nn_add; [apply IH; intros i Hi; apply H; lia|apply H; lia].
Qed.

(* ---- sums ------------------------------------------------------------------------------- *)
Lemma sum_mul n m a b :
  sum n (fun i => sum m (fun j => a i * b j)) = sum n a * sum m b.
Proof.
  rewrite <- sum_scale_r. apply sum_ext. intros i _. apply sum_scale_l.
Qed.

Lemma sum3_rot n m k (f : nat -> nat -> nat -> car) :
  sum n (fun i => sum m (fun j => sum k (fun l => f i j l)))
  = sum k (fun l => sum n (fun i => sum m (fun j => f i j l))).
Proof.
  transitivity (sum n (fun i => sum k (fun l => sum m (fun j => f i j l)))).
  - apply sum_ext. intros i _. apply sum_swap.
  - apply sum_swap.
Qed.

(* ---- bilinear / quadratic forms ---------------------------------------------------------- *)
Lemma bform_ext n m A B x y : meq n m A B -> bform n m A x y = bform n m B x y.
Proof.
  intros H. unfold bform. apply sum_ext. intros i Hi. apply sum_ext. intros j Hj.
  rewrite (H i j Hi Hj). reflexivity.
Qed.

Lemma qform_ext n A B x : meq n n A B -> qform n A x = qform n B x.
Proof. apply bform_ext. Qed.

Lemma bform_vec_ext n m A x x' y y' :
  (forall i, (i < n)%nat -> x i = x' i) -> (forall j, (j < m)%nat -> y j = y' j) ->
  bform n m A x y = bform n m A x' y'.
Proof.
  intros Hx Hy. unfold bform. apply sum_ext. intros i Hi. apply sum_ext. intros j Hj.
  rewrite (Hx i Hi), (Hy j Hj). reflexivity.
Qed.

Lemma PSD_meq n A B : meq n n A B -> PSD n A -> PSD n B.
Proof. intros H HA x. rewrite <- (qform_ext n A B x H). apply HA. Qed.

(* x^T (B C) y = sum_l (B^T x)_l (C y)_l *)
Lemma bform_mmul n m k B C x y :
  bform n m (mmul k B C) x y
  = sum k (fun l => tvec n B x l * sum m (fun j => C l j * y j)).
Proof.
  unfold bform, tvec, mmul.
  transitivity (sum n (fun i => sum m (fun j => sum k (fun l => (x i * B i l) * (C l j * y j))))).
  - apply sum_ext. intros i _. apply sum_ext. intros j _.
    rewrite <- (sum_scale_l k (x i)), <- (sum_scale_r k (y j)). apply sum_ext. intros; ring.
  - rewrite sum3_rot. apply sum_ext. intros l _. apply sum_mul.
Qed.

(* congruence: x^T (B A B^T) x = (B^T x)^T A (B^T x),  B : n x k,  A : k x k *)
Lemma qform_congr n k B A x :
  qform n (mmul k (mmul k B A) (mT B)) x = qform k A (tvec n B x).
Proof.
  unfold qform. rewrite bform_mmul.
  unfold bform at 1.
  rewrite sum_swap. apply sum_ext. intros l' _.
  (* goal: tvec n (B A) x l' * sum_j (B^T l' j * x j) = sum_l y_l * A l l' * y_l' *)
  assert (E1 : sum n (fun j => mT B l' j * x j) = tvec n B x l').
  { unfold tvec, mT. apply sum_ext. intros; ring. }
  rewrite E1.
  assert (E2 : tvec n (mmul k B A) x l' = sum k (fun l => tvec n B x l * A l l')).
  { unfold tvec at 1. unfold mmul.
    transitivity (sum n (fun i => sum k (fun l => x i * B i l * A l l'))).
    - apply sum_ext. intros i _. rewrite <- sum_scale_l. apply sum_ext. intros; ring.
    - rewrite sum_swap. apply sum_ext. intros l _. unfold tvec. rewrite <- sum_scale_r.
      reflexivity. }
  rewrite E2. rewrite <- sum_scale_r. reflexivity.
Qed.

Lemma PSD_congr n k B A : PSD k A -> PSD n (mmul k (mmul k B A) (mT B)).
Proof. intros HA x. rewrite qform_congr. apply HA. Qed.

Lemma qform_madd n A B x : qform n (madd A B) x = qform n A x + qform n B x.
Proof.
  unfold qform, bform, madd. rewrite <- sum_add. apply sum_ext. intros i _.
  rewrite <- sum_add. apply sum_ext. intros; ring.
Qed.

Lemma qform_mscale n c A x : qform n (mscale c A) x = c * qform n A x.
Proof.
  unfold qform, bform, mscale. rewrite <- sum_scale_l. apply sum_ext. intros i _.
  rewrite <- sum_scale_l. apply sum_ext. intros; ring.
Qed.

Lemma PSD_madd n A B : PSD n A -> PSD n B -> PSD n (madd A B).
Proof. intros HA HB x. rewrite qform_madd. apply nn_add; [apply HA|apply HB]. Qed.

Lemma PSD_mscale n c A : 0 <= c -> PSD n A -> PSD n (mscale c A).
Proof. intros Hc HA x. rewrite qform_mscale. apply fle_mul_nn; [exact Hc|apply HA]. Qed.

Lemma PSD_mzero n : PSD n mzero.
Proof.
  intros x. unfold qform, bform, mzero.
  rewrite sum_zero; [apply fle_refl|]. intros i _. apply sum_zero. intros; ring.
Qed.

(* the all-ones matrix: x^T 1 1^T x = (sum x)^2 *)
Lemma qform_ones n x : qform n (mconst 1) x = sum n x * sum n x.
Proof.
  unfold qform, bform, mconst. rewrite <- sum_mul. apply sum_ext. intros i _.
  apply sum_ext. intros; ring.
Qed.

Lemma PSD_ones n : PSD n (mconst 1).
Proof. intros x. rewrite qform_ones. apply fle_sq. Qed.

Lemma PSD_mconst n c : 0 <= c -> PSD n (mconst c).
Proof.
  intros Hc. apply (PSD_meq n (mscale c (mconst 1))).
  - intros i j _ _. unfold mscale, mconst. ring.
  - apply PSD_mscale; [exact Hc|apply PSD_ones].
Qed.

(* Hadamard product of a weighted Gram matrix with ANY matrix B:
   x^T ((F diag(c) F^T) o B) x = sum_k c_k (x o F_k)^T B (x o F_k) *)
Lemma qform_hadamard_wgram n r F c B x :
  qform n (hadamard (wgram r F c) B) x
  = sum r (fun k => c k * qform n B (fun i => x i * F i k)).
Proof.
  unfold qform, bform, hadamard, wgram.
  transitivity (sum n (fun i => sum n (fun j => sum r (fun k =>
                  c k * (x i * F i k * B i j * (x j * F j k)))))).
  - apply sum_ext. intros i _. apply sum_ext. intros j _.
    rewrite <- (sum_scale_r r (B i j)), <- (sum_scale_l r (x i)), <- (sum_scale_r r (x j)).
    apply sum_ext. intros; ring.
  - rewrite sum3_rot. apply sum_ext. intros k _.
    rewrite <- sum_scale_l. apply sum_ext. intros i _. rewrite <- sum_scale_l. reflexivity.
Qed.

Lemma PSD_hadamard_wgram n r F c B :
  (forall k, (k < r)%nat -> 0 <= c k) -> PSD n B -> PSD n (hadamard (wgram r F c) B).
Proof.
  intros Hc HB x. rewrite qform_hadamard_wgram. apply sum_nn. intros k Hk.
  apply fle_mul_nn; [apply Hc; exact Hk|apply HB].
Qed.

Lemma PSD_wgram n r F c : (forall k, (k < r)%nat -> 0 <= c k) -> PSD n (wgram r F c).
Proof.
  intros Hc. apply (PSD_meq n (hadamard (wgram r F c) (mconst 1))).
  - intros i j _ _. unfold hadamard, mconst. ring.
  - apply PSD_hadamard_wgram; [exact Hc|apply PSD_ones].
Qed.

Lemma gram_is_wgram r F i j : gram r F i j = wgram r F (fun _ => 1) i j.
Proof. unfold gram, wgram, mmul, mT. apply sum_ext. intros; ring. Qed.

Lemma f1_nn : 0 <= 1.
Proof. replace 1 with (1 * 1) by ring. apply fle_sq. Qed.

Lemma PSD_gram n r F : PSD n (gram r F).
Proof.
  apply (PSD_meq n (wgram r F (fun _ => 1))).
  - intros i j _ _. symmetry. apply gram_is_wgram.
  - apply PSD_wgram. intros; apply f1_nn.
Qed.

Lemma hadamard_compat n m A A' B B' :
  meq n m A A' -> meq n m B B' -> meq n m (hadamard A B) (hadamard A' B').
Proof. intros HA HB i j Hi Hj. unfold hadamard. rewrite HA, HB by assumption. reflexivity. Qed.

(* Hadamard powers of a weighted Gram matrix *)
Lemma PSD_hpow_wgram n r F c G p :
  (forall k, (k < r)%nat -> 0 <= c k) -> meq n n G (wgram r F c) -> PSD n (hpow p G).
Proof.
  intros Hc HG. induction p as [|p IH]; cbn [hpow].
  - apply PSD_ones.
  - apply (PSD_meq n (hadamard (wgram r F c) (hpow p G))).
    + apply hadamard_compat; [symmetry; exact HG|apply meq_refl].
    + apply PSD_hadamard_wgram; assumption.
Qed.

(* Hadamard product of two Gram matrices is the Gram matrix of the row-wise Kronecker features *)
Lemma hadamard_gram_gram r s F G i j :
  hadamard (gram r F) (gram s G) i j
  = sum r (fun k => sum s (fun l => (F i k * G i l) * (F j k * G j l))).
Proof.
  unfold hadamard, gram, mmul, mT. rewrite <- sum_mul.
  apply sum_ext. intros k _. apply sum_ext. intros; ring.
Qed.

(* ---- diagonal matrices ------------------------------------------------------------------- *)
Lemma mdiag_wgram N v : meq N N (mdiag v) (wgram N mI v).
Proof.
  intros i j Hi Hj. unfold mdiag, wgram, mI.
  destruct (Nat.eqb_spec i j) as [->|Hne].
  - rewrite (sum_single N j); [rewrite Nat.eqb_refl; ring|exact Hj|].
    intros k _ Hk. destruct (Nat.eqb_spec j k); [congruence|ring].
  - symmetry. apply sum_zero. intros k _.
    destruct (Nat.eqb_spec i k); destruct (Nat.eqb_spec j k); try ring. congruence.
Qed.

Lemma PSD_mdiag n v : (forall k, (k < n)%nat -> 0 <= v k) -> PSD n (mdiag v).
Proof.
  intros Hv. apply (PSD_meq n (wgram n mI v)); [symmetry; apply mdiag_wgram|].
  apply PSD_wgram. exact Hv.
Qed.

(* a principal sub-selection (with repetition) of a weighted Gram matrix is one *)
Lemma gather_wgram r F c idx i j :
  gather idx idx (wgram r F c) i j = wgram r (fun a k => F (idx a) k) c i j.
Proof. reflexivity. Qed.

(* unit vectors: e_k^T A e_k = A k k *)
Lemma qform_basis n A k : (k < n)%nat ->
  qform n A (fun i => if Nat.eqb i k then 1 else 0) = A k k.
Proof.
  intros Hk. unfold qform, bform.
  rewrite (sum_single n k); [|exact Hk|].
  - rewrite (sum_single n k); [rewrite Nat.eqb_refl; ring|exact Hk|].
    intros j _ Hj. destruct (Nat.eqb_spec j k); [contradiction|ring].
  - intros i _ Hi. apply sum_zero. intros j _.
    destruct (Nat.eqb_spec i k); [contradiction|ring].
Qed.

Lemma PSD_diag_nn n A k : PSD n A -> (k < n)%nat -> 0 <= A k k.
Proof. intros HA Hk. rewrite <- (qform_basis n A k Hk). apply HA. Qed.

(* ---- kernels ----------------------------------------------------------------------------- *)
Lemma k_linear_psd n d v X : (forall l, (l < d)%nat -> 0 <= v l) -> PSD n (k_linear d v X).
Proof. apply PSD_wgram. Qed.

Lemma poly_base_wgram n d c X :
  meq n n (madd (gram d X) (mconst c)) (wgram (S d) (poly_feat d X) (poly_wts d c)).
Proof.
  intros i j _ _. unfold madd, mconst, wgram. cbn [sum].
  unfold poly_feat at 3 4, poly_wts at 2. rewrite Nat.ltb_irrefl.
  rewrite gram_is_wgram. unfold wgram.
  transitivity (sum d (fun k => 1 * (X i k * X j k)) + c * (1 * 1)); [ring|]. f_equal.
  apply sum_ext. intros k Hk. unfold poly_feat, poly_wts.
  destruct (Nat.ltb_spec k d); [reflexivity|lia].
Qed.

Lemma k_poly_psd n d c p X : 0 <= c -> PSD n (k_poly d c p X).
Proof.
  intros Hc. unfold k_poly.
  apply (PSD_hpow_wgram n (S d) (poly_feat d X) (poly_wts d c)); [|apply poly_base_wgram].
  intros k _. unfold poly_wts. destruct (Nat.ltb k d); [apply f1_nn|exact Hc].
Qed.

Lemma k_const_psd n c : 0 <= c -> PSD n (k_const c).
Proof. apply PSD_mconst. Qed.

Lemma k_index_psd n N r B v idx :
  (forall p, (p < N)%nat -> 0 <= v p) -> (forall i, (i < n)%nat -> (idx i < N)%nat) ->
  PSD n (k_index r B v idx).
Proof.
  intros Hv Hidx. unfold k_index, k_index_full.
  apply (PSD_meq n (madd (gram r (fun a k => B (idx a) k))
                         (wgram N (fun a k => mI (idx a) k) v))).
  - intros i j Hi Hj. unfold gather, madd. f_equal.
    rewrite (mdiag_wgram N v (idx i) (idx j)) by (apply Hidx; assumption). reflexivity.
  - apply PSD_madd; [apply PSD_gram|apply PSD_wgram; exact Hv].
Qed.

Lemma k_features_psd n r Z s : 0 <= s -> PSD n (k_features r Z s).
Proof. intros Hs. apply PSD_mscale; [exact Hs|apply PSD_gram]. Qed.

Lemma k_scale_psd n s A : 0 <= s -> PSD n A -> PSD n (k_scale s A).
Proof. apply PSD_mscale. Qed.

Lemma k_sum_psd n A B : PSD n A -> PSD n B -> PSD n (k_sum A B).
Proof. apply PSD_madd. Qed.

Lemma k_prod_wgram_psd n r F c A B :
  (forall k, (k < r)%nat -> 0 <= c k) -> meq n n A (wgram r F c) -> PSD n B ->
  PSD n (k_prod A B).
Proof.
  intros Hc HA HB. apply (PSD_meq n (hadamard (wgram r F c) B)).
  - apply hadamard_compat; [symmetry; exact HA|apply meq_refl].
  - apply PSD_hadamard_wgram; assumption.
Qed.

Lemma k_inducing_psd n m Kxz Kzz_inv : PSD m Kzz_inv -> PSD n (k_inducing m Kxz Kzz_inv).
Proof. apply PSD_congr. Qed.

(* ---- inverses of PSD matrices ------------------------------------------------------------ *)
Lemma inv_psd n A Ainv : symmetric n A -> PSD n A -> is_inverse n A Ainv -> PSD n Ainv.
Proof.
  intros HS HA HI.
  apply (PSD_meq n (mmul n (mmul n Ainv A) (mT Ainv))); [|apply PSD_congr; exact HA].
  destruct HI as [H1 H2].
  transitivity (mmul n mI (mT Ainv)); [apply mmul_compat_l; exact H2|].
  transitivity (mT Ainv); [apply mmul_I_l|].
  symmetry. apply (inverse_symmetric n A Ainv HS). split; assumption.
Qed.

(* ---- conditioning never adds uncertainty ------------------------------------------------- *)
Lemma explained_assoc n t X Ainv :
  meq t t (explained n X Ainv) (mmul n (mmul n X Ainv) (mT X)).
Proof. unfold explained. symmetry. apply mmul_assoc. Qed.

Lemma explained_psd n t X Ainv : PSD n Ainv -> PSD t (explained n X Ainv).
Proof.
  intros H. apply (PSD_meq t (mmul n (mmul n X Ainv) (mT X))).
  - symmetry. apply explained_assoc.
  - apply PSD_congr. exact H.
Qed.

Lemma post_cov_is_g n KJ Ainv i j :
  post_cov n KJ Ainv i j = post_cov_g n (Kss n KJ) (Ksx n KJ) Ainv i j.
Proof. reflexivity. Qed.

Lemma prior_minus_post n t KJ Ainv :
  meq t t (msub (Kss n KJ) (post_cov n KJ Ainv)) (explained n (Ksx n KJ) Ainv).
Proof. intros i j _ _. unfold post_cov, explained, msub. ring. Qed.

Lemma conditioning_never_adds_uncertainty n t KJ S Ainv :
  symmetric n (train_covar KJ S) -> PSD n (train_covar KJ S) ->
  is_inverse n (train_covar KJ S) Ainv ->
  PSD t (msub (Kss n KJ) (post_cov n KJ Ainv)).
Proof.
  intros HS HP HI.
  apply (PSD_meq t (explained n (Ksx n KJ) Ainv)); [symmetry; apply prior_minus_post|].
  apply explained_psd. apply (inv_psd n _ _ HS HP HI).
Qed.

(* a - b >= 0  ->  b <= a *)
Lemma le_of_sub_nn a b : 0 <= a - b -> b <= a.
Proof.
  intros H. replace b with (0 + b) by ring. replace a with ((a - b) + b) by ring.
  apply fle_add; [exact H|apply fle_refl].
Qed.

Lemma posterior_variance_le_prior n t KJ S Ainv i :
  symmetric n (train_covar KJ S) -> PSD n (train_covar KJ S) ->
  is_inverse n (train_covar KJ S) Ainv -> (i < t)%nat ->
  post_cov n KJ Ainv i i <= Kss n KJ i i.
Proof.
  intros HS HP HI Hi. apply le_of_sub_nn.
  apply (PSD_diag_nn t (msub (Kss n KJ) (post_cov n KJ Ainv)) i); [|exact Hi].
  apply (conditioning_never_adds_uncertainty n t KJ S Ainv); assumption.
Qed.

End PsdProofs.

(* ---- the executable certificate (Qc) ----------------------------------------------------- *)
Lemma Qc_leb_le a b : Qc_leb a b = true -> (a <= b)%Qc.
Proof. unfold Qc_leb. intros H. apply Qle_bool_iff in H. exact H. Qed.

Lemma Qc_leb_gt a b : Qc_leb a b = false -> (b < a)%Qc.
Proof.
  unfold Qc_leb. intros H. apply Qcnot_le_lt. intros Hle.
  assert (H' : Qle_bool (this a) (this b) = true) by (apply Qle_bool_iff; exact Hle).
  congruence.
Qed.

Lemma psd_cert_sound n A Lf : psd_cert n A Lf = true -> @PSD QcF QcOrd n A.
Proof.
  unfold psd_cert.
  set (G := @mat QcF n n (@gram QcF n Lf)).
  set (R := @mat QcF n n (@msub QcF A G)).
  set (r := (n + n * n)%nat).
  set (cl := map (dd_wts n R) (seq 0 r)).
  set (F := @mat QcF n r (dd_feat n R)).
  intros H. apply andb_prop in H. destruct H as [H1 H2].
  apply meqb_sound in H1.
  apply (PSD_meq n (madd G (wgram r F (fun k => nth k cl 0%Qc)))); [symmetry; exact H1|].
  apply PSD_madd.
  - apply (PSD_meq n (gram n Lf)); [symmetry; apply mat_meq|apply PSD_gram].
  - apply PSD_wgram. intros k Hk.
    rewrite forallb_forall in H2. apply Qc_leb_le. apply H2. apply in_seq. lia.
Qed.

(* what a [1; 1] answer of the executable job means *)
Lemma run_psd_sound n rows shift lf :
  run_job (JPsd n rows shift lf) = [1%Z; 1%Z] ->
  symmetric n (@of_list QcF rows) /\
  @PSD QcF QcOrd n (@madd QcF (@of_list QcF rows) (@mscale QcF shift (@mI QcF))).
Proof.
  cbn [run_job].
  set (A := @of_list QcF rows). set (B := @mat QcF n n _).
  destruct (meqb n n A _) eqn:Hs; [|intros H; discriminate H].
  destruct (psd_cert n B _) eqn:Hc; [|intros H; discriminate H].
  intros _. split.
  - apply meqb_sound. exact Hs.
  - apply (PSD_meq n B); [unfold B; apply mat_meq|].
    apply (psd_cert_sound n B _ Hc).
Qed.

(* the variance clamp of the executable model *)
Lemma Qc_max_ge_r a b : (b <= Qc_max a b)%Qc.
Proof.
  unfold Qc_max. destruct (Qc_leb a b) eqn:H; [apply Qcle_refl|].
  apply Qclt_le_weak. apply Qc_leb_gt. exact H.
Qed.
Lemma Qc_max_ge_l a b : (a <= Qc_max a b)%Qc.
Proof.
  unfold Qc_max. destruct (Qc_leb a b) eqn:H; [apply Qc_leb_le; exact H|apply Qcle_refl].
Qed.
Lemma Qc_max_id a b : (b <= a)%Qc -> Qc_max a b = a.
Proof.
  intros Hba. unfold Qc_max. destruct (Qc_leb a b) eqn:H; [|reflexivity].
  apply Qcle_antisym; [exact Hba|apply Qc_leb_le; exact H].
Qed.

Lemma variance_clamp_spec mv diag :
  length (variance_clamp mv diag) = length diag /\
  forall k, (k < length diag)%nat ->
    let v := nth k (variance_clamp mv diag) 0%Qc in let d := nth k diag 0%Qc in
    (mv <= v)%Qc /\ (d <= v)%Qc /\ ((mv <= d)%Qc -> v = d).
Proof.
  unfold variance_clamp. split; [apply map_length|]. intros k Hk. cbn zeta.
  rewrite (nth_indep _ 0%Qc (Qc_max 0%Qc mv)) by (rewrite map_length; exact Hk).
  rewrite (map_nth (fun d => Qc_max d mv)).
  split; [apply Qc_max_ge_r|]. split; [apply Qc_max_ge_l|apply Qc_max_id].
Qed.

Lemma fixed_noise_clamp_spec mn noise :
  forall k, (k < length noise)%nat -> (mn <= nth k (fixed_noise_clamp mn noise) 0%Qc)%Qc.
Proof. intros k Hk. apply (proj2 (variance_clamp_spec mn noise) k Hk). Qed.
