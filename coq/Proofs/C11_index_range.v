(* C11 — "positions valid" for EVERY index form and every size, degenerate sizes n = 0 / t = 0 included
   (Proofs/C11_mtmvn.v: getitem_event_in_range needs 0 < n, 0 < t because it goes through the spec).
   Direct proof over the branches of code_indices; plus the same for the regenerated arithmetic. *)
From Coq Require Import ZArith List Lia Bool.
From GPV Require Import Base.PySlice Models.C11_mtmvn Proofs.C11_mtmvn Gen.MTIndex_gen Proofs.C11_gen.
Import ListNotations.
Local Open Scope Z_scope.

Lemma code_indices_in_range R Cc NR NC rows cols l k : 0 <= NR -> 0 <= NC ->
  idx_positions NR R = Some rows -> idx_positions NC Cc = Some cols ->
  code_indices R Cc NR NC = Some l -> In k l -> 0 <= k < NR * NC.
Proof.
  intros HR HC HRp HCp.
  pose proof (idx_vector_of_positions NR R rows HRp) as VR.
  pose proof (idx_vector_of_positions NC Cc cols HCp) as VC.
  pose proof (idx_positions_range NR R rows HR HRp) as FR.
  pose proof (idx_positions_range NC Cc cols HC HCp) as FC.
  rewrite Forall_forall in FR, FC.
  assert (HN : 0 <= NR * NC) by (apply Z.mul_nonneg_nonneg; assumption).
  assert (Generic :
    (if is_full_slice R && is_full_slice Cc then Some (range_list 0 (NR * NC) 1)
     else match idx_vector NR R, idx_vector NC Cc with
          | Some rows, Some cols =>
              if is_slice R || is_slice Cc then Some (outer NC rows cols)
              else match bcast2 rows cols with
                   | Some ps => Some (map (fun p => fst p * NC + snd p) ps)
                   | None => None
                   end
          | _, _ => None
          end) = Some l -> In k l -> 0 <= k < NR * NC).
  { destruct (is_full_slice R && is_full_slice Cc).
    - intros H Hin. injection H as <-.
      apply (slice_positions_valid (NR * NC) full_slice (range_list 0 (NR * NC) 1) k HN); [reflexivity|exact Hin].
    - rewrite VR, VC. destruct (is_slice R || is_slice Cc).
      + intros H Hin. injection H as <-. unfold outer in Hin. apply in_flat_map in Hin.
        destruct Hin as [r [Hr Hin]]. apply in_map_iff in Hin. destruct Hin as [c [<- Hc]].
        apply (flat_range true NR NC r c); [apply FR; exact Hr|apply FC; exact Hc].
      + destruct (bcast2 rows cols) as [ps|] eqn:EB; [|discriminate]. intros H Hin. injection H as <-.
        apply in_map_iff in Hin. destruct Hin as [[r c] [<- Hp]]. cbn [fst snd].
        destruct (bcast2_in rows cols ps r c EB Hp) as [Hr Hc].
        apply (flat_range true NR NC r c); [apply FR; exact Hr|apply FC; exact Hc]. }
  destruct R as [r|sr|lr]; destruct Cc as [c|sc|lc]; try exact Generic.
  - cbn [code_indices]. destruct (normalize_slice sc NC) as [[[a b] k']|]; [|discriminate].
    intros H Hin. exact (slice_positions_valid (NR * NC) _ l k HN H Hin).
  - cbn [code_indices]. destruct (normalize_slice sr NR) as [[[a b] k']|]; [|discriminate].
    intros H Hin. exact (slice_positions_valid (NR * NC) _ l k HN H Hin).
Qed.

(* all sizes (n = 0 or t = 0 included), both layouts, every pair of index forms *)
Theorem getitem_event_in_range_all_sizes il n t ri ci l k : 0 <= n -> 0 <= t ->
  getitem_event il n t ri ci = Some l -> In k l -> 0 <= k < n * t.
Proof.
  intros Hn Ht. unfold getitem_event.
  destruct (idx_positions n ri) as [rows|] eqn:ER; [|discriminate].
  destruct (idx_positions t ci) as [cols|] eqn:EC; [|discriminate].
  destruct il.
  - apply (code_indices_in_range ri ci n t rows cols l k); assumption.
  - rewrite (Z.mul_comm n t). apply (code_indices_in_range ci ri t n cols rows l k); assumption.
Qed.

Theorem gen_getitem_event_in_range_all_sizes il n t ri ci l k : 0 <= n -> 0 <= t ->
  gen_getitem_event il n t ri ci = Some l -> In k l -> 0 <= k < n * t.
Proof. intros Hn Ht. rewrite gen_getitem_event_eq. apply getitem_event_in_range_all_sizes; assumption. Qed.

(* non-vacuity at a degenerate size: an empty multitask law indexed by a slice and an index tensor *)
Example ex_getitem_event_empty :
  getitem_event false 0 3 (ISlice (mk None None (Some 2))) (ITensor [-1; 0]) = Some [].
Proof. vm_compute. reflexivity. Qed.
