(* C13, moments: the two definitions of E_{N(m, sd^2)}[p] used by the model coincide for EVERY
   polynomial in EVERY field:
     - binomial form   [normal_expect_sd m sd p]  = standard-normal moment functional
                        (E z^0 = 1, E z^1 = 0, E z^(k+2) = (k+1) E z^k) applied to p(sd z + m),
     - recurrence form [normal_expect_var m v p]  = sum_k c_k M_k with
                        M_0 = 1, M_1 = m, M_(k+2) = m M_(k+1) + (k+1) v M_k,    v = sd^2,
   (hence also the one-pass evaluation [normal_expect_var_fast] the executable model runs), and
   the explicit binomial form of [pcomp_aff] on monomials:
     coefficient j of (a z + b)^k is C(k, j) a^j b^(k-j).
   Method: the functional q |-> E[z^j q(z)] is tracked as a sequence in j; multiplication by
   (a z + b) acts on such sequences by  f |-> (j |-> b f j + a f (j+1));  Stein's identity
   E[z^(j+1) (a z + b)^k] = j E[z^(j-1) (a z + b)^k] + k a E[z^j (a z + b)^(k-1)]  by induction. *)
From Coq Require Import Arith Lia List Ring Field ZArith QArith Qcanon Reals Lra.
From GPV Require Import Base.LinAlg Base.Exec Base.Expr Models.C13_quadrature Proofs.C13_quadrature.
Import ListNotations.

Section Moments.
Context {K : Fld}.
Add Field Ff_c13m : (@FT K).
Local Open Scope fld_scope.

(* ---------------------------------------------------------------- the functional is linear *)
Lemma lmom_from_padd p : forall q k, lmom_from k (padd p q) = lmom_from k p + lmom_from k q.
Proof.
  induction p as [|a p IH]; intros [|b q] k; cbn [padd lmom_from]; try ring.
  rewrite IH. ring.
Qed.

Lemma lmom_from_pscale c p : forall k, lmom_from k (pscale c p) = c * lmom_from k p.
Proof.
  unfold pscale. induction p as [|a p IH]; intros k; cbn [map lmom_from]; [ring|].
  rewrite IH. ring.
Qed.

(* E[z^k (b + a z) q] = b E[z^k q] + a E[z^(k+1) q] *)
Lemma lmom_from_pmul_lin a b q k :
  lmom_from k (pmul_lin a b q) = b * lmom_from k q + a * lmom_from (S k) q.
Proof.
  unfold pmul_lin, pshift. rewrite lmom_from_padd. cbn [lmom_from].
  rewrite !lmom_from_pscale. ring.
Qed.

(* ---------------------------------------------------------------- sequences j |-> E[z^j q] *)
Definition stp (a b : car) (f : nat -> car) : nat -> car := fun j => b * f j + a * f (S j).
Fixpoint itr (a b : car) (k : nat) (f : nat -> car) : nat -> car :=
  match k with O => f | S k' => stp a b (itr a b k' f) end.
(* amom a b k j = E[ z^j (a z + b)^k ] *)
Definition amom (a b : car) (k : nat) : nat -> car := itr a b k gmom.

Lemma amom_0 a b j : amom a b 0 j = gmom j.
Proof. reflexivity. Qed.
Lemma amom_S a b k j : amom a b (S k) j = b * amom a b k j + a * amom a b k (S j).
Proof. reflexivity. Qed.

Lemma itr_stp a b k f : itr a b k (stp a b f) = stp a b (itr a b k f).
Proof. induction k as [|k IH]; cbn [itr]; [reflexivity|]. rewrite IH. reflexivity. Qed.

Lemma itr_lin a b k c g h : forall j,
  itr a b k (fun i => c * g i + h i) j = c * itr a b k g j + itr a b k h j.
Proof.
  induction k as [|k IH]; intros j; cbn [itr]; [reflexivity|]. unfold stp. rewrite !IH. ring.
Qed.

Lemma itr_zero a b k : forall j, itr a b k (fun _ => 0) j = 0.
Proof.
  induction k as [|k IH]; intros j; cbn [itr]; [reflexivity|]. unfold stp. rewrite !IH. ring.
Qed.

(* Horner form of j |-> E[z^j p(a z + b)] *)
Fixpoint hs (a b : car) (p : list car) : nat -> car :=
  match p with
  | [] => fun _ => 0
  | c :: p' => fun j => c * gmom j + stp a b (hs a b p') j
  end.

Lemma lmom_pcomp_aff a b p : forall j, lmom_from j (pcomp_aff p a b) = hs a b p j.
Proof.
  induction p as [|c p IH]; intros j; cbn [pcomp_aff hs lmom_from]; [reflexivity|].
  rewrite lmom_from_padd, lmom_from_pmul_lin, !IH. cbn [lmom_from]. unfold stp. ring.
Qed.

(* expanded form: sum_i p_i E[z^j (a z + b)^(k+i)] *)
Fixpoint gs (a b : car) (k : nat) (p : list car) (j : nat) : car :=
  match p with
  | [] => 0
  | c :: p' => c * amom a b k j + gs a b (S k) p' j
  end.

Lemma itr_hs a b p : forall k j, itr a b k (hs a b p) j = gs a b k p j.
Proof.
  induction p as [|c p IH]; intros k j; cbn [hs gs].
  - apply itr_zero.
  - rewrite (itr_lin a b k c gmom (stp a b (hs a b p)) j).
    rewrite itr_stp. change (stp a b (itr a b k (hs a b p)) j) with (itr a b (S k) (hs a b p) j).
    rewrite IH. reflexivity.
Qed.

(* ---------------------------------------------------------------- Stein's identity *)
Lemma gmom_stein_0 : gmom 1 = 0.
Proof. reflexivity. Qed.

Lemma amom_stein a b : forall k,
  (forall j, amom a b (S k) (S (S j))
             = nat2f (S j) * amom a b (S k) j + nat2f (S k) * a * amom a b k (S j))
  /\ amom a b (S k) 1 = nat2f (S k) * a * amom a b k 0.
Proof.
  induction k as [|k [IH1 IH2]].
  - split.
    + intros j. rewrite !amom_S, !amom_0, !gmom_SS. cbn [nat2f]. ring.
    + rewrite !amom_S, !amom_0, gmom_SS, gmom_0, gmom_1. cbn [nat2f]. ring.
  - split.
    + intros j.
      rewrite (amom_S a b (S k) (S (S j))), (amom_S a b (S k) j).
      rewrite (IH1 j), (IH1 (S j)).
      rewrite (amom_S a b k (S j)). cbn [nat2f]. ring.
    + rewrite (amom_S a b (S k) 1).
      rewrite IH2, (IH1 O). rewrite (amom_S a b k 0). cbn [nat2f]. ring.
Qed.

(* E[(sd z + m)^k] obeys the recurrence in v = sd^2 *)
Lemma amom_nmom m sd : forall k,
  amom sd m k 0 = nmom m (sd * sd) k /\ amom sd m (S k) 0 = nmom m (sd * sd) (S k).
Proof.
  induction k as [|k [IH1 IH2]].
  - split; [reflexivity|].
    rewrite amom_S, !amom_0, gmom_0, gmom_1, nmom_1. ring.
  - split; [exact IH2|].
    rewrite nmom_SS, <- IH1, <- IH2.
    rewrite (amom_S sd m (S k) 0). rewrite (proj2 (amom_stein sd m k)). ring.
Qed.

Lemma gs_nexp m sd p : forall k, gs sd m k p 0 = nexp_from m (sd * sd) k p.
Proof.
  induction p as [|c p IH]; intros k; cbn [gs nexp_from]; [reflexivity|].
  rewrite IH, (proj1 (amom_nmom m sd k)). reflexivity.
Qed.

(* MAIN: binomial form = recurrence form, every polynomial, every field *)
Theorem normal_expect_sd_is_var m sd p :
  normal_expect_sd m sd p = normal_expect_var m (sd * sd) p.
Proof.
  unfold normal_expect_sd, normal_expect_var, lstd. rewrite lmom_pcomp_aff.
  change (hs sd m p 0%nat) with (itr sd m 0 (hs sd m p) 0%nat).
  rewrite itr_hs. apply gs_nexp.
Qed.

(* ... hence the one-pass evaluation the executable wrapper runs (the driver's equality flag
   in [run_expect] is 1 on every input) *)
Theorem normal_expect_sd_is_var_fast m sd p :
  normal_expect_sd m sd p = normal_expect_var_fast m (sd * sd) p.
Proof. rewrite normal_expect_var_fast_ok. apply normal_expect_sd_is_var. Qed.

(* ---------------------------------------------------------------- the moments themselves *)
Definition mono (k : nat) : list car := repeat 0 k ++ [1].          (* x^k *)

Lemma peval_mono k x : peval (mono k) x = fpow x k.
Proof.
  unfold mono. induction k as [|k IH]; cbn [repeat app peval fpow]; [ring|]. rewrite IH. ring.
Qed.

Lemma nexp_from_mono m v k : forall j, nexp_from m v j (mono k) = nmom m v (j + k).
Proof.
  unfold mono. induction k as [|k IH]; intros j; cbn [repeat app nexp_from].
  - rewrite Nat.add_0_r. ring.
  - rewrite IH. rewrite Nat.add_succ_r. cbn [Nat.add]. ring.
Qed.

(* M_k in binomial form: E[(sd z + m)^k] through the binomial expansion *)
Definition bmom (m sd : car) (k : nat) : car := normal_expect_sd m sd (mono k).

Lemma bmom_nmom m sd k : bmom m sd k = nmom m (sd * sd) k.
Proof.
  unfold bmom. rewrite normal_expect_sd_is_var. unfold normal_expect_var.
  apply (nexp_from_mono m (sd * sd) k 0).
Qed.

Theorem bmom_recurrence m sd :
  bmom m sd 0 = 1 /\ bmom m sd 1 = m /\
  forall k, bmom m sd (S (S k)) = m * bmom m sd (S k) + nat2f (S k) * (sd * sd) * bmom m sd k.
Proof.
  repeat split.
  - rewrite bmom_nmom. reflexivity.
  - rewrite bmom_nmom. reflexivity.
  - intros k. rewrite !bmom_nmom. apply nmom_SS.
Qed.

(* polynomials of degree <= 2 *)
Lemma normal_expect_var_deg2 m v c0 c1 c2 :
  normal_expect_var m v [c0; c1; c2] = c0 + c1 * m + c2 * (m * m + v).
Proof.
  unfold normal_expect_var. cbn [nexp_from]. unfold nmom. cbn [nmom_pair fst snd nat2f]. ring.
Qed.
Lemma normal_expect_var_deg1 m v c0 c1 : normal_expect_var m v [c0; c1] = c0 + c1 * m.
Proof. unfold normal_expect_var. cbn [nexp_from]. unfold nmom. cbn [nmom_pair fst snd]. ring. Qed.
Lemma normal_expect_var_deg0 m v c0 : normal_expect_var m v [c0] = c0.
Proof. unfold normal_expect_var. cbn [nexp_from]. unfold nmom. cbn [nmom_pair fst snd]. ring. Qed.
Lemma normal_expect_var_nil m v : normal_expect_var m v [] = 0.
Proof. reflexivity. Qed.

(* ---------------------------------------------------------------- binomial coefficients *)
Lemma nat2f_add x y : nat2f (x + y) = nat2f x + nat2f y.
Proof. induction x as [|x IH]; cbn [Nat.add nat2f]; [ring|]. rewrite IH. ring. Qed.

End Moments.

(* Pascal's triangle *)
Fixpoint pascal (n k : nat) : nat :=
  match n, k with
  | _, O => 1
  | O, S _ => 0
  | S n', S k' => pascal n' k' + pascal n' (S k')
  end.

Lemma pascal_0 n : pascal n 0 = 1%nat.
Proof. destruct n; reflexivity. Qed.
Lemma pascal_SS n k : pascal (S n) (S k) = (pascal n k + pascal n (S k))%nat.
Proof. reflexivity. Qed.
Lemma pascal_gt n : forall k, (n < k)%nat -> pascal n k = 0%nat.
Proof.
  induction n as [|n IH]; intros [|k] H; try lia; [reflexivity|].
  rewrite pascal_SS, !IH by lia. reflexivity.
Qed.
Lemma pascal_diag n : pascal n n = 1%nat.
Proof.
  induction n as [|n IH]; [reflexivity|]. rewrite pascal_SS, IH, pascal_gt by lia. reflexivity.
Qed.

(* pascal n k = n! / (k! (n-k)!) *)
Lemma pascal_fact n : forall k, (k <= n)%nat -> (pascal n k * (fact k * fact (n - k)) = fact n)%nat.
Proof.
  induction n as [|n IH]; intros k Hk.
  - replace k with O by lia. reflexivity.
  - destruct k as [|k].
    + rewrite pascal_0, Nat.sub_0_r. cbn [fact]. lia.
    + rewrite pascal_SS. destruct (Nat.eq_dec k n) as [->|Hne].
      * rewrite pascal_diag, pascal_gt by lia. rewrite Nat.sub_diag. cbn [fact]. lia.
      * assert (H1 := IH k ltac:(lia)). assert (H2 := IH (S k) ltac:(lia)).
        replace (S n - S k)%nat with (n - k)%nat by lia.
        replace (n - k)%nat with (S (n - S k)) in * by lia.
        set (u := (n - S k)%nat) in *.
        change (fact (S u)) with (S u * fact u)%nat in *.
        change (fact (S k)) with (S k * fact k)%nat in *.
        change (fact (S n)) with (S n * fact n)%nat.
        assert (Hn : S n = (S k + S u)%nat) by (unfold u; lia).
        rewrite Hn at 1. clearbody u.
        rewrite Nat.mul_add_distr_r, Nat.mul_add_distr_r.
        rewrite <- H1 at 1. rewrite <- H2. ring.
Qed.

Section Binomial.
Context {K : Fld}.
Add Field Ff_c13n : (@FT K).
Local Open Scope fld_scope.

Lemma nth_nil_0 j : nth j (@nil car) 0 = 0.
Proof. destruct j; reflexivity. Qed.

Lemma nth_padd p : forall q j, nth j (padd p q) 0 = nth j p 0 + nth j q 0.
Proof.
  induction p as [|a p IH]; intros [|b q] j; cbn [padd].
  - rewrite nth_nil_0. ring.
  - rewrite nth_nil_0. ring.
  - rewrite nth_nil_0. ring.
  - destruct j as [|j]; cbn [nth]; [reflexivity|]. apply IH.
Qed.

Lemma nth_pscale c p : forall j, nth j (pscale c p) 0 = c * nth j p 0.
Proof.
  unfold pscale. induction p as [|a p IH]; intros j; cbn [map].
  - rewrite nth_nil_0. ring.
  - destruct j as [|j]; cbn [nth]; [reflexivity|]. apply IH.
Qed.

Lemma nth_pmul_lin a b q j :
  nth j (pmul_lin a b q) 0
  = b * nth j q 0 + a * match j with O => 0 | S j' => nth j' q 0 end.
Proof.
  unfold pmul_lin, pshift. rewrite nth_padd, nth_pscale.
  destruct j as [|j]; cbn [nth]; [ring|]. rewrite nth_pscale. ring.
Qed.

(* coefficient j of (a z + b)^k is C(k, j) a^j b^(k-j)   (0 beyond the degree) *)
Theorem pcomp_aff_mono_coeff a b : forall k j,
  nth j (pcomp_aff (mono k) a b) 0 = nat2f (pascal k j) * fpow a j * fpow b (k - j).
Proof.
  induction k as [|k IH]; intros j.
  - unfold mono. cbn [repeat app pcomp_aff]. rewrite nth_padd, nth_pmul_lin.
    destruct j as [|j].
    + cbn [nth pascal nat2f fpow Nat.sub]. ring.
    + cbn [nth]. destruct j as [|j]; cbn [pascal nat2f]; ring.
  - change (mono (S k)) with (0 :: mono k). cbn [pcomp_aff].
    rewrite nth_padd, nth_pmul_lin.
    assert (Hz : nth j [0] 0 = 0) by (destruct j as [|[|j]]; reflexivity).
    rewrite Hz. destruct j as [|j].
    + rewrite IH, !pascal_0, !Nat.sub_0_r. cbn [fpow nat2f]. ring.
    + rewrite !IH. rewrite pascal_SS, nat2f_add.
      destruct (le_lt_dec (S j) k) as [Hle|Hgt].
      * replace (S k - S j)%nat with (S (k - S j)) by lia.
        replace (k - j)%nat with (S (k - S j)) by lia.
        cbn [fpow]. ring.
      * rewrite (pascal_gt k (S j)) by lia.
        replace (S k - S j)%nat with O by lia. replace (k - S j)%nat with O by lia.
        replace (k - j)%nat with O by lia.
        cbn [fpow nat2f]. ring.
Qed.

Lemma length_mono k : length (mono k) = S k.
Proof. unfold mono. rewrite app_length, repeat_length. cbn [length]. lia. Qed.

End Binomial.

(* ---------------------------------------------------------------- over R *)
Local Open Scope R_scope.

Lemma nat2f_R n : @nat2f RF n = INR n.
Proof.
  induction n as [|n IH]; [reflexivity|]. cbn [nat2f]. rewrite IH, S_INR. reflexivity.
Qed.

(* the field-valued Pascal number is the real binomial coefficient of the standard library *)
Lemma pascal_C n k : (k <= n)%nat -> @nat2f RF (pascal n k) = C n k.
Proof.
  intros H. rewrite nat2f_R. unfold C.
  rewrite <- (pascal_fact n k H). rewrite !mult_INR.
  change (@eq (@car RF)) with (@eq R). field. split; apply not_0_INR, fact_neq_0.
Qed.

(* the model's expectation over R in its three forms (v >= 0: sd = sqrt v) *)
Theorem normal_expect_is_var (m v : R) (p : list R) : 0 <= v ->
  normal_expect m v p = @normal_expect_var RF m v p.
Proof.
  intros Hv. unfold normal_expect. rewrite (@normal_expect_sd_is_var RF).
  cbn [fmul RF]. rewrite sqrt_sqrt by exact Hv. reflexivity.
Qed.

Theorem normal_expect_is_var_fast (m v : R) (p : list R) : 0 <= v ->
  normal_expect m v p = @normal_expect_var_fast RF m v p.
Proof. intros Hv. rewrite (@normal_expect_var_fast_ok RF). apply normal_expect_is_var. exact Hv. Qed.

(* real binomial form: coefficient j of (a z + b)^k *)
Theorem pcomp_aff_mono_coeff_R (a b : R) k j : (j <= k)%nat ->
  nth j (@pcomp_aff RF (@mono RF k) a b) 0 = C k j * a ^ j * b ^ (k - j).
Proof.
  intros H. pose proof (@pcomp_aff_mono_coeff RF a b k j) as E.
  rewrite pascal_C in E by exact H. rewrite !fpow_R in E. exact E.
Qed.
