(* C08 model: batch shapes, broadcasting and the slice of each operand that an element of a
   batched output is computed from.  Shapes and multi-indices are [list nat] (outermost
   dimension first, as torch.Size); broadcasting is right-aligned, so the recursive
   definitions work on REVERSED lists (innermost dimension first) and the public ones wrap
   them in [rev].  Definitions only. *)
From Coq Require Import Arith List Bool ZArith.
Import ListNotations.

Definition shape := list nat.
Definition index := list nat.

Definition numel (s : shape) : nat := fold_right Nat.mul 1 s.

(* an index is valid for a shape: same rank, every component below the dimension *)
Fixpoint valid (s : shape) (i : index) : Prop :=
  match s, i with
  | [], [] => True
  | d :: s', x :: i' => x < d /\ valid s' i'
  | _, _ => False
  end.

(* ---- torch.broadcast_shapes: right-aligned, size-1 stretch, failure = None *)
Definition bc_dim (x y : nat) : option nat :=
  if Nat.eqb x y then Some x else if Nat.eqb x 1 then Some y else if Nat.eqb y 1 then Some x else None.

Fixpoint bc_rev (a b : list nat) : option (list nat) :=
  match a, b with
  | [], _ => Some b
  | _, [] => Some a
  | x :: a', y :: b' =>
      match bc_dim x y, bc_rev a' b' with
      | Some d, Some r => Some (d :: r)
      | _, _ => None
      end
  end.
Definition broadcast_shapes (a b : shape) : option shape :=
  option_map (@rev nat) (bc_rev (rev a) (rev b)).

(* ---- row-major ravel / unravel (innermost dimension = least significant digit) *)
Fixpoint ravel_rev (s i : list nat) : nat :=
  match s, i with
  | d :: s', x :: i' => x + d * ravel_rev s' i'
  | _, _ => 0
  end.
Fixpoint unravel_rev (s : list nat) (k : nat) : list nat :=
  match s with
  | [] => []
  | d :: s' => (k mod d) :: unravel_rev s' (k / d)
  end.
Definition ravel (s : shape) (i : index) : nat := ravel_rev (rev s) (rev i).
Definition unravel (s : shape) (k : nat) : index := rev (unravel_rev (rev s) k).

(* every index of a shape, in storage order *)
Definition all_indices (s : shape) : list index := map (unravel s) (seq 0 (numel s)).

(* ---- bproj: the index of the UNEXPANDED operand of shape s that element b of the broadcast
   result reads: leading extra dimensions are dropped, size-1 dimensions read entry 0 *)
Fixpoint bproj_rev (s b : list nat) : list nat :=
  match s, b with
  | d :: s', x :: b' => (if Nat.eqb d 1 then 0 else x) :: bproj_rev s' b'
  | _, _ => []
  end.
Definition bproj (s : shape) (b : index) : index := rev (bproj_rev (rev s) (rev b)).

(* ---- tensor.expand as torch implements it: a view with stride 0 on stretched dimensions.
   [strides_rev s acc]: strides of the contiguous tensor of (reversed) shape s, with 0 where
   the dimension has size 1; [offset_rev st b]: storage offset of index b under strides st *)
Fixpoint strides_rev (s : list nat) (acc : nat) : list nat :=
  match s with
  | [] => []
  | d :: s' => (if Nat.eqb d 1 then 0 else acc) :: strides_rev s' (acc * d)
  end.
Fixpoint offset_rev (st b : list nat) : nat :=
  match st, b with
  | c :: st', x :: b' => c * x + offset_rev st' b'
  | _, _ => 0
  end.
Definition expand_offset (s : shape) (b : index) : nat :=
  offset_rev (strides_rev (rev s) 1) (rev b).

(* ---- a batched operation: parameters of batch shape sp, data of batch shape sd.  Element b
   of the output is the operation applied to parameter slice [bproj sp b] and data slice
   [bproj sd b] *)
Section Batched.
Context {P D O : Type}.
Definition batched (sp sd : shape) (op : P -> D -> O) (param : index -> P) (data : index -> D)
  : index -> O := fun b => op (param (bproj sp b)) (data (bproj sd b)).
(* the output tensor in storage order *)
Definition batched_tab (sp sd : shape) (op : P -> D -> O) (param : index -> P) (data : index -> D)
  : option (list O) :=
  match broadcast_shapes sp sd with
  | Some t => Some (map (batched sp sd op param data) (all_indices t))
  | None => None
  end.
(* overwrite one slice of an operand *)
Definition upd {T} (f : index -> T) (j : index) (v : T) : index -> T :=
  fun i => if list_eq_dec Nat.eq_dec i j then v else f i.
End Batched.

(* ---- model lists *)
Section Lists.
Context {A B : Type}.
(* IndependentModelList.__call__: member i applied to argument i *)
Fixpoint model_list (ms : list (A -> B)) (xs : list A) : list B :=
  match ms, xs with
  | m :: ms', x :: xs' => m x :: model_list ms' xs'
  | _, _ => []
  end.
End Lists.

(* ---- executable wrapper.  case = (sp, sd); result: [0] if not broadcastable, else
   1; rank t; t; numel t; then for every b of all_indices t (storage order):
   b; bproj sp b; ravel sp (bproj sp b); expand_offset sp b; bproj sd b; ravel sd (..); expand_offset sd b *)
Definition zs (l : list nat) : list Z := map Z.of_nat l.
Definition run_shapes (c : list nat * list nat) : list Z :=
  let '(sp, sd) := c in
  match broadcast_shapes sp sd with
  | None => [0%Z]
  | Some t =>
      1%Z :: Z.of_nat (length t) :: zs t ++ Z.of_nat (numel t) ::
      flat_map (fun b =>
        zs b ++ zs (bproj sp b) ++ [Z.of_nat (ravel sp (bproj sp b)); Z.of_nat (expand_offset sp b)] ++
        zs (bproj sd b) ++ [Z.of_nat (ravel sd (bproj sd b)); Z.of_nat (expand_offset sd b)])
        (all_indices t)
  end.
