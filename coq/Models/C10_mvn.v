(* C10 model: MultivariateNormal (gpytorch/distributions/multivariate_normal.py) as a (mean,
   covariance) pair over a generic field; index normalisation of __getitem__ over Z (Python
   semantics from Base/PySlice.v, index components shared with the C11 model); log_prob and KL as
   an Expr around exact rational quadratic forms / determinants.  Definitions only. *)
From Coq Require Import Arith ZArith List Bool QArith Qcanon.
From GPV Require Import Base.LinAlg Base.Exec Base.Expr Base.PySlice Models.C11_mtmvn.
Import ListNotations.

(* ------------------------------------------------------------------ the law and its images *)
Section Law.
Context {K : Fld}.
Local Open Scope fld_scope.

(* selection matrix of an index function p : the k x n matrix with S[i, p i] = 1 *)
Definition selmat (p : nat -> nat) : M := fun i j => if Nat.eqb (p i) j then 1 else 0.

(* d[..., p]: what the code builds (mean[p], cov[p][:, p]) *)
Definition getitem_mean (p : nat -> nat) (m : M) : M := fun i _ => m (p i) O.
Definition getitem_cov (p : nat -> nat) (C : M) : M := gather p p C.

(* the law of A X + b for X ~ (m, C), A of size k x n *)
Definition affine_mean (n : nat) (A b m : M) : M := madd (mmul n A m) b.
Definition affine_cov (n : nat) (A C : M) : M := mmul n (mmul n A C) (mT A).

(* +, *, / by scalars; sum of independent MVNs; add_jitter  (lines 99-105, 385-450) *)
Definition add_scalar_mean (c : car) (m : M) : M := fun i j => m i j + c.
Definition mul_mean (c : car) (m : M) : M := mscale c m.
Definition mul_cov (c : car) (C : M) : M := mscale (c * c) C.
Definition div_mean (c : car) (m : M) : M := mscale (1 / c) m.
Definition div_cov (c : car) (C : M) : M := mscale ((1 / c) * (1 / c)) C.
Definition sum_mean (m1 m2 : M) : M := madd m1 m2.
Definition sum_cov (C1 C2 : M) : M := madd C1 C2.
Definition jitter_cov (eps : car) (C : M) : M := madd C (mscale eps mI).
Definition variance (C : M) : nat -> car := fun i => C i i.

(* rsample(base_samples = e) = mean + L e for a root L (n x r) *)
Definition rsample_base (r : nat) (m L e : M) : M := madd m (mmul r L e).

Definition trace (n : nat) (A : M) : car := sum n (fun i => A i i).
Definition nat_f (n : nat) : car := sum n (fun _ => 1).
Definition quad (n : nat) (Ai r : M) : car := mmul n (mT r) (mmul n Ai r) O O.

(* rational part of 2 KL(p || q) = tr(Q^-1 P) + (mp - mq)^T Q^-1 (mp - mq) - n  (+ log det Q - log det P) *)
Definition kl_rational (n : nat) (mp P mq Qi : M) : car :=
  trace n (mmul n Qi P) + quad n Qi (msub mp mq) - nat_f n.
End Law.

(* ------------------------------------------------------------------ index normalisation *)
Local Open Scope Z_scope.

Definition has_ell (l : list pyidx_e) : bool := existsb is_ell l.
Definition drop_ell (l : list pyidx_e) : list pyidx_e := filter (fun e => negb (is_ell e)) l.

(* lines 406-434.  dim = mean.dim() = batch rank + 1; n = event size.
   result: None = raises;
           Some (nb, None)          batch-only index (nb components, handed to torch as they are)
           Some (nb, Some (kind, positions))  the last component addresses the event dimension:
              kind 0 = int (dimension dropped, variance only), 1 = slice / tensor (sub-matrix),
              2 = trailing Ellipsis (all positions) *)
Definition mvn_getitem (dim n : Z) (idx0 : list pyidx_e) : option (Z * option (Z * list Z)) :=
  let idx1 :=
    if (dim <? Z.of_nat (length idx0)) && has_ell idx0 then
      let l := drop_ell idx0 in
      if Z.of_nat (length l) <? dim then None else Some l
    else Some idx0 in
  match idx1 with
  | None => None
  | Some idx =>
      let len := Z.of_nat (length idx) in
      let rest := removelast idx in
      if (len <=? dim - 1) && negb (has_ell rest) then Some (len, None)
      else if dim <? len then None
      else
        match last idx EE with
        | EI (IInt i) =>
            match norm_index n i with Some k => Some (len - 1, Some (0, [k])) | None => None end
        | EI x =>
            match idx_positions n x with Some l => Some (len - 1, Some (1, l)) | None => None end
        | EE => Some (len - 1, Some (2, range_list 0 n 1))
        end
  end.

Definition run_mvn_getitem (c : Z * Z * list pyidx_e) : list Z :=
  let '(dim, n, idx) := c in
  match mvn_getitem dim n idx with
  | None => [0]
  | Some (nb, None) => [1; nb]
  | Some (nb, Some (kind, l)) => 2 :: nb :: kind :: Z.of_nat (length l) :: l
  end.

(* exhaustive family enumerated in Coq (the driver mirrors the order): every last component
   int -n-1..n / slice with bounds None, lo..hi and steps None,1,2,3, behind a fixed prefix *)
Definition run_mvn_family (c : Z * Z * list pyidx_e * Z * Z) : list (list Z) :=
  let '(dim, n, pre, lo, hi) := c in
  map (fun i => run_mvn_getitem (dim, n, pre ++ [EI (IInt i)])) (all_ints n)
  ++ map (fun s => run_mvn_getitem (dim, n, pre ++ [EI (ISlice s)])) (all_slices lo hi).

(* ------------------------------------------------------------------ executable: densities *)
Local Close Scope Z_scope.

Definition two_pi : expr := EMul (EConst (qc 2 1)) EPi.

(* log N(v; m, C) = -1/2 ( r^T C^-1 r + log det C + n log 2 pi );  [0] if C is singular *)
Definition run_logprob (c : nat * list Qc * list (list Qc) * list Qc) : list Z :=
  let '(n, m, cv, v) := c in
  let C := @of_list QcF cv in
  match inv_checked n (mat n n C) with
  | None => [0%Z]
  | Some Ci =>
      let r := msub (@vec_of_list QcF v) (@vec_of_list QcF m) in
      let q := quad n Ci r in
      let d := det n C in
      1%Z :: ser_expr (EMul (EConst (qc (-1) 2))
               (EAdd (EAdd (EConst q) (ELog (EConst d)))
                     (EMul (EConst (qc (Z.of_nat n) 1)) (ELog two_pi))))
  end.

(* KL(p || q) = 1/2 ( log det Q - log det P + tr(Q^-1 P) + (mp-mq)^T Q^-1 (mp-mq) - n ) *)
Definition run_kl (c : nat * list Qc * list (list Qc) * list Qc * list (list Qc)) : list Z :=
  let '(n, mp, cp, mq, cq) := c in
  let P := @of_list QcF cp in let Q := @of_list QcF cq in
  match inv_checked n (mat n n Q) with
  | None => [0%Z]
  | Some Qi =>
      let k := kl_rational n (@vec_of_list QcF mp) P (@vec_of_list QcF mq) Qi in
      1%Z :: ser_expr (EMul (EConst (qc 1 2))
               (EAdd (ESub (ELog (EConst (det n Q))) (ELog (EConst (det n P)))) (EConst k)))
  end.

(* affine images, run on rationals: op 0: + c, 1: * c, 2: / c, 3: add_jitter(c);
   output mean (n) ++ cov (n*n) ++ variance (n) *)
Definition run_affine (c : nat * Z * Qc * list Qc * list (list Qc)) : list Z :=
  let '(n, op, s, m, cv) := c in
  let mu : @M QcF := @vec_of_list QcF m in let C : @M QcF := @of_list QcF cv in
  let '(mu', C') :=
    if (op =? 0)%Z then (@add_scalar_mean QcF s mu, C)
    else if (op =? 1)%Z then (@mul_mean QcF s mu, @mul_cov QcF s C)
    else if (op =? 2)%Z then (@div_mean QcF s mu, @div_cov QcF s C)
    else (mu, @jitter_cov QcF s C) in
  ser_mat n 1 mu' ++ ser_mat n n C' ++ flat_map ser_qc (map (variance C') (seq 0 n)).

(* rsample(base_samples=e) with the implementation's own root L (n x r): mean + L e, and L L^T *)
Definition run_rsample (c : nat * nat * list Qc * list (list Qc) * list Qc) : list Z :=
  let '(n, r, m, l, e) := c in
  let L := @of_list QcF l in
  ser_mat n 1 (rsample_base r (@vec_of_list QcF m) L (@vec_of_list QcF e)) ++ ser_mat n n (mmul r L (mT L)).
