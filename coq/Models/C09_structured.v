(* C09 model: structure-exploiting kernels and prediction strategies, written as the dense
   objects they abbreviate.  Generic over the scalar field; definitions only (no proofs).
   Anchors: gpytorch/kernels/{multitask,index,lcm,grid,grid_interpolation,inducing_point,rff}_kernel.py,
   gpytorch/utils/{interpolation,grid}.py, gpytorch/models/exact_prediction_strategies.py:424-872,
   gpytorch/mlls/inducing_point_kernel_added_loss_term.py. *)
From Coq Require Import Arith List ZArith QArith Qcanon Qround Bool.
From GPV Require Import Base.LinAlg Base.Exec Models.C01_posterior.
Import ListNotations.

Section Structured.
Context {K : Fld}.
Local Open Scope fld_scope.

(* ------------------------------------------------------------------ Kronecker / multitask *)

(* A kron B for B of shape p x q (linear_operator's KroneckerProductLinearOperator(A, B):
   the FIRST factor is the slow one) *)
Definition kron (p q : nat) (A B : M) : M :=
  fun i j => A (i / p)%nat (j / q)%nat * B (i mod p)%nat (j mod q)%nat.

(* IndexKernel: B = F F^T + diag(v), F is t x r  (index_kernel.py:91-93) *)
Definition index_covar (r : nat) (F : M) (v : nat -> car) : M :=
  madd (mmul r F (mT F)) (mdiag v).
(* IndexKernel.forward(i1, i2): B[i1[a], i2[b]] *)
Definition index_kernel (r : nat) (F : M) (v : nat -> car) (i1 i2 : nat -> nat) : M :=
  gather i1 i2 (index_covar r F v).
(* MultitaskKernel.forward: KroneckerProductLinearOperator(K_x, B), interleaved layout *)
Definition multitask_kernel (t r : nat) (Kx F : M) (v : nat -> car) : M :=
  kron t t Kx (index_covar r F v).
(* Hadamard multitask model: k(x,x') * B[i,i'] *)
Definition hadamard (A B : M) : M := fun i j => A i j * B i j.
Definition hadamard_multitask (r : nat) (Kx F : M) (v : nat -> car) (i1 i2 : nat -> nat) : M :=
  hadamard Kx (index_kernel r F v i1 i2).
(* LCMKernel.forward: sum_q K_q kron B_q *)
Fixpoint lcm_kernel (t : nat) (terms : list (nat * M * M * (nat -> car))) : M :=
  match terms with
  | [] => mzero
  | (r, Kx, F, v) :: rest => madd (multitask_kernel t r Kx F v) (lcm_kernel t rest)
  end.

(* ------------------------------------------------------------------ grids *)

Definition prodn (l : list nat) : nat := fold_right Nat.mul 1%nat l.

(* flat index of the multi-index ks = (k_0, ..., k_{d-1}) on a grid of sizes gs.
   [lex_index]: as coded in Interpolation.interpolate (interpolation.py:151,
   index_coeff = prod(grid_sizes[i+1:])), dimension 0 is the SLOWEST.
   [colmajor_index]: the order of create_data_from_grid (grid.py:106-125) and of
   K_{d-1} kron ... kron K_0, dimension 0 is the FASTEST: sum_i k_i * prod_{j<i} g_j. *)
Fixpoint lex_index (gs ks : list nat) : nat :=
  match gs, ks with
  | g :: gr, k :: kr => (k * prodn gr + lex_index gr kr)%nat
  | _, _ => O
  end.
Fixpoint colmajor_index (gs ks : list nat) : nat :=
  match gs, ks with
  | g :: gr, k :: kr => (k + g * colmajor_index gr kr)%nat
  | _, _ => O
  end.
(* the same, in the "sum_i k_i * prod_{j<i} g_j" form (acc = product of the sizes seen so far) *)
Fixpoint colmajor_sum (acc : nat) (gs ks : list nat) : nat :=
  match gs, ks with
  | g :: gr, k :: kr => (k * acc + colmajor_sum (acc * g) gr kr)%nat
  | _, _ => O
  end.

Fixpoint valid_multi (gs ks : list nat) : Prop :=
  match gs, ks with
  | [], [] => True
  | g :: gr, k :: kr => (k < g)%nat /\ valid_multi gr kr
  | _, _ => False
  end.

(* row p of create_data_from_grid: coordinate i is grid_i[digit_i p], digit 0 fastest *)
Fixpoint colmajor_digits (gs : list nat) (p : nat) : list nat :=
  match gs with
  | [] => []
  | g :: gr => (p mod g)%nat :: colmajor_digits gr (p / g)%nat
  end.
Fixpoint lex_digits (gs : list nat) (p : nat) : list nat :=
  match gs with
  | [] => []
  | g :: gr => (p / prodn gr)%nat :: lex_digits gr (p mod prodn gr)%nat
  end.
Definition grid_data_row (grids : list (nat -> car)) (gs : list nat) (p : nat) : list car :=
  map (fun gk => fst gk (snd gk)) (combine grids (colmajor_digits gs p)).

(* Kronecker product of a list of square factors (size, matrix), first factor slowest:
   kron_chain [(g0,K0);(g1,K1);...] = K0 kron K1 kron ...  *)
Fixpoint kron_chain (fs : list (nat * M)) : M :=
  match fs with
  | [] => fun _ _ => 1
  | (g, A) :: r => let p := prodn (map fst r) in kron p p A (kron_chain r)
  end.
(* the product kernel on multi-indices: prod_i K_i[k_i, l_i] *)
Fixpoint prod_entry (fs : list (nat * M)) (ks ls : list nat) : car :=
  match fs, ks, ls with
  | (g, A) :: r, k :: kr, l :: lr => A k l * prod_entry r kr lr
  | _, _, _ => 1
  end.
(* GridKernel.forward (grid_kernel.py:155/167): KroneckerProductLinearOperator over covars[::-1] *)
Definition grid_kernel_kron (fs : list (nat * M)) : M := kron_chain (rev fs).

(* symmetric Toeplitz matrix from its first row/column (ToeplitzLinearOperator) *)
Definition toeplitz (c : nat -> car) : M := fun i j => c (if Nat.leb j i then i - j else j - i)%nat.
Fixpoint fnat (n : nat) : car := match n with O => 0 | S k => fnat k + 1 end.
(* equispaced grid x_i = x0 + i*h and a stationary kernel k(x,y) = kappa(x - y) *)
Definition equi (x0 h : car) (i : nat) : car := x0 + fnat i * h.
Definition stationary_gram (kappa : car -> car) (x : nat -> car) : M := fun i j => kappa (x i - x j).
Definition toeplitz_first_row (kappa : car -> car) (x : nat -> car) : nat -> car :=
  fun m => kappa (x O - x m).

(* ------------------------------------------------------------------ cubic (Keys) interpolation *)

Definition half : car := 1 / (1 + 1).
Definition two : car := 1 + 1.
(* interpolation.py:34-40 : u(s) = 1.5|s|^3 - 2.5|s|^2 + 1 for |s| < 1,
                            u(s) = -0.5|s|^3 + 2.5|s|^2 - 4|s| + 2 for 1 <= |s| <= 2 *)
Definition keys_inner (u : car) : car := (((1 + half) * u - (two + half)) * u) * u + 1.
Definition keys_outer (u : car) : car := (((- half) * u + (two + half)) * u - (two + two)) * u + two.
(* the four weights of a point at relative offset t in [0,1) from its left neighbour, for the
   nodes at relative positions -1, 0, 1, 2 (scaled_dist = t + [1, 0, -1, -2]) *)
Definition cubic_w (t : car) (j : nat) : car :=
  match j with
  | O => keys_outer (1 + t)
  | 1%nat => keys_inner t
  | 2%nat => keys_inner (1 - t)
  | 3%nat => keys_outer (two - t)
  | _ => 0
  end.
(* relative position of node j w.r.t. the left neighbour *)
Definition node_off (j : nat) : car := fnat j - 1.
(* one-hot row produced by the boundary snapping *)
Definition onehot (c : nat) (j : nat) : car := if Nat.eqb j c then 1 else 0.

(* d-dimensional weights: one (lower index, 4 weights) pair per dimension; the entries of the
   interpolation row are all choices js in {0..3}^d with multi-index (lower_i + j_i) and weight
   prod_i w_i[j_i] *)
Fixpoint interp_entries (dims : list (nat * (nat -> car))) : list (list nat * car) :=
  match dims with
  | [] => [([], 1)]
  | (lo, w) :: r =>
      flat_map (fun j => map (fun e => ((lo + j)%nat :: fst e, w j * snd e)) (interp_entries r))
               (seq 0 4)
  end.
Definition entries_total (es : list (list nat * car)) : car :=
  fold_right (fun e acc => snd e + acc) 0 es.
(* applying an interpolation row to function values on the nodes *)
Definition entries_apply (es : list (list nat * car)) (f : list nat -> car) : car :=
  fold_right (fun e acc => snd e * f (fst e) + acc) 0 es.

(* ------------------------------------------------------------------ strategies *)

(* InducingPointKernel._get_covariance: (K_xz R)(K_x'z R)^T with R = chol(K_zz)^-1 *)
Definition nystrom_root (m r : nat) (Kxz Kyz R : M) : M :=
  mmul r (mmul m Kxz R) (mT (mmul m Kyz R)).
Definition nystrom (m : nat) (Kxz Kzzi Kyz : M) : M := mmul m Kxz (mmul m Kzzi (mT Kyz)).

(* SGPRPredictionStrategy.covar_cache (exact_prediction_strategies.py:792-820):
   R (n x m) with R R^T = Q_xx, Di = D^-1 (noise [+ diagonal correction]),
   Ci = (I + R^T Di R)^-1 (any inverse; the code uses a Cholesky solve) *)
Definition woodbury_inner (n m : nat) (R Di : M) : M := madd mI (mmul n (mT R) (mmul n Di R)).
Definition woodbury_inverse (n m : nat) (R Di Ci : M) : M :=
  msub Di (mmul m (mmul m (mmul n Di R) Ci) (mmul n (mT R) Di)).
Definition sgpr_covar_cache (n m : nat) (R Di Ci : M) : M :=
  mmul n (mT R) (mmul n (woodbury_inverse n m R Di Ci) R).
(* exact_predictive_covar: test_test - L covar_cache L^T, test_train = L R^T *)
Definition sgpr_pred_cov (n m : nat) (Tss L R Di Ci : M) : M :=
  msub Tss (mmul m L (mmul m (sgpr_covar_cache n m R Di Ci) (mT L))).
(* the dense conditional covariance for a train covariance with inverse Ainv and cross block Ksx *)
Definition dense_cov (n : nat) (Tss Ksx Ainv : M) : M :=
  msub Tss (mmul n Ksx (mmul n Ainv (mT Ksx))).
Definition dense_mean (n : nat) (ms Ksx Ainv r : M) : M := madd (mmul n Ksx (mmul n Ainv r)) ms.

(* textbook SGPR (Titsias 2009): Sigma = (K_zz + K_zx D^-1 K_xz)^-1,
   mean = K_*z Sigma K_zx D^-1 r,  cov = K_** - K_*z K_zz^-1 K_z* + K_*z Sigma K_z* *)
Definition sgpr_sigma_arg (n m : nat) (Kzz Kxz Di : M) : M :=
  madd Kzz (mmul n (mT Kxz) (mmul n Di Kxz)).
Definition sgpr_textbook_mean (n m : nat) (Ksz Sigma Kxz Di r ms : M) : M :=
  madd (mmul m Ksz (mmul m Sigma (mmul n (mT Kxz) (mmul n Di r)))) ms.
Definition sgpr_textbook_cov (m : nat) (Kss Ksz Kzzi Sigma : M) : M :=
  madd (msub Kss (mmul m Ksz (mmul m Kzzi (mT Ksz)))) (mmul m Ksz (mmul m Sigma (mT Ksz))).

(* trace and the Titsias regularisation term as coded: -1/2 sum_i (K_ii - Q_ii) / noise_i *)
Definition trace (n : nat) (A : M) : car := sum n (fun i => A i i).
Definition titsias_added_loss (n : nat) (Kd : nat -> car) (Q : M) (noise : nat -> car) : car :=
  (- half) * sum n (fun i => (Kd i - Q i i) / noise i).

(* InterpolatedPredictionStrategy: train covariance W K_uu W^T (W is n x g), test rows Ws (t x g).
   mean_cache = K_uu (W^T (A^-1 r));  mean = Ws mean_cache + m_* *)
Definition ski (g : nat) (W1 Kuu W2 : M) : M := mmul g W1 (mmul g Kuu (mT W2)).
Definition interp_mean_cache (n g : nat) (Kuu W Ainv r : M) : M :=
  mmul g Kuu (mmul n (mT W) (mmul n Ainv r)).
Definition interp_pred_mean (n g : nat) (Kuu W Ws Ainv r ms : M) : M :=
  madd (mmul g Ws (interp_mean_cache n g Kuu W Ainv r)) ms.
(* fast_pred_var: covar_cache = K_uu W^T S with S S^T = A^-1 (n x q root);
   cov = K_** - (Ws cache)(Ws cache)^T *)
Definition interp_covar_cache (n g : nat) (Kuu W S : M) : M := mmul g Kuu (mmul n (mT W) S).
Definition interp_pred_cov_root (n g q : nat) (Tss Kuu W Ws S : M) : M :=
  let Rt := mmul g Ws (interp_covar_cache n g Kuu W S) in msub Tss (mmul q Rt (mT Rt)).

(* WISKI caches: interp_inner_prod = W^T D^-1 W with W given as its transpose Wt (g x n);
   fantasy update adds Wf^T Df^-1 Wf; response cache W^T D^-1 r *)
Definition wiski_inner (n : nat) (Wt Di : M) : M := mmul n Wt (mmul n Di (mT Wt)).
Definition wiski_response (n : nat) (Wt Di r : M) : M := mmul n Wt (mmul n Di r).

(* RFFPredictionStrategy: train features F (n x q) with K_xx = c F F^T, test features Fs (t x q),
   inner = I - c F^T A^-1 F, any L with L L^T = inner;  cov = c (Fs L)(Fs L)^T *)
Definition rff_inner (n : nat) (c : car) (F Ainv : M) : M :=
  msub mI (mscale c (mmul n (mT F) (mmul n Ainv F))).
Definition rff_pred_cov (q : nat) (c : car) (Fs L : M) : M :=
  mscale c (mmul q (mmul q Fs L) (mT (mmul q Fs L))).
Definition rff_gram (q : nat) (c : car) (F1 F2 : M) : M := mscale c (mmul q F1 (mT F2)).

End Structured.

(* ================================================================== executable instances *)

Definition qc_of_Z (z : Z) : Qc := Q2Qc (inject_Z z).
Definition qc_floor (q : Qc) : Z := Qfloor (this q).
Definition qc_leb (a b : Qc) : bool := Qle_bool (this a) (this b).
Definition qc_ltb (a b : Qc) : bool := negb (Qle_bool (this b) (this a)).
Definition qc_abs (a : Qc) : Qc := if qc_leb 0%Qc a then a else (- a)%Qc.

(* index of the first minimum of |g_j - x| over a list (torch.min returns the first on ties) *)
Fixpoint argmin_dist (x : Qc) (l : list Qc) (k : nat) (best : nat) (bestd : option Qc) : nat :=
  match l with
  | [] => best
  | g :: r =>
      let d := qc_abs (g - x)%Qc in
      match bestd with
      | None => argmin_dist x r (S k) k (Some d)
      | Some b => if qc_ltb d b then argmin_dist x r (S k) k (Some d)
                  else argmin_dist x r (S k) best bestd
      end
  end.

(* one dimension of Interpolation.interpolate (interpolation.py:101-146): returns the left-most
   node index and the four weights.  grid = the implementation's own grid values. *)
Definition interp_1d (grid : list Qc) (x : Qc) : nat * (nat -> Qc) :=
  let G := Z.of_nat (length grid) in
  let g0 := nth 0 grid 0%Qc in
  let delta := (nth 1 grid 0%Qc - g0)%Qc in
  let pos := ((x - g0) / delta)%Qc in
  let m := qc_floor pos in
  let t := (pos - qc_of_Z m)%Qc in
  let lower := (m - 1)%Z in
  if (lower <? 0)%Z then
    (O, @onehot QcF (argmin_dist x (firstn 4 grid) O O None))
  else if (G - 4 <? lower)%Z then
    (Z.to_nat (G - 4), @onehot QcF (argmin_dist x (skipn (length grid - 4) grid) O O None))
  else (Z.to_nat lower, @cubic_w QcF t).

Definition interp_row (grids : list (list Qc)) (x : list Qc) : list (list nat * Qc) :=
  @interp_entries QcF (map (fun gx => interp_1d (fst gx) (snd gx)) (combine grids x)).

(* case = (grids, targets); result: per target, per entry: colmajor flat index, lexicographic
   flat index, weight *)
Definition run_interp (c : list (list Qc) * list (list Qc)) : list Z :=
  let '(grids, xs) := c in
  let gs := map (@length Qc) grids in
  flat_map (fun x =>
    flat_map (fun e => Z.of_nat (colmajor_index gs (fst e)) :: Z.of_nat (lex_index gs (fst e))
                        :: ser_qc (snd e)) (interp_row grids x)) xs.

(* case = sizes; result: for every flat position p the digits of create_data_from_grid's row p
   followed by the digits of the lexicographic position p *)
Definition run_grid_digits (gs : list nat) : list Z :=
  flat_map (fun p => map Z.of_nat (colmajor_digits gs p) ++ map Z.of_nat (lex_digits gs p))
           (seq 0 (prodn gs)).

(* case = list of (size, first row of the Toeplitz factor); result: GridKernel's dense matrix
   K_{d-1} kron ... kron K_0 of the Toeplitz factors *)
Definition run_grid_kernel (c : list (list Qc)) : list Z :=
  let fs := map (fun row => (length row, @toeplitz QcF (fun i => nth i row 0%Qc))) c in
  let G := prodn (map fst fs) in
  ser_mat G G (@grid_kernel_kron QcF fs).

(* multitask family.  case = (kind, (n, m, t, r), Kx rows, F rows, v, i1, i2):
   kind 0: MultitaskKernel  K_x kron (F F^T + diag v)        -> (n t) x (m t)
   kind 1: IndexKernel      B[i1, i2]                        -> |i1| x |i2|
   kind 2: Hadamard         K_x o B[i1, i2]                  -> n x m *)
Definition run_multitask
  (c : nat * (nat * nat * nat * nat) * list (list Qc) * list (list Qc) * list Qc * list nat * list nat)
  : list Z :=
  let '(kind, (n, m, t, r), kx, f, v, i1, i2) := c in
  let Kx := of_list kx in let F := of_list f in
  let vv := fun i => nth i v 0%Qc in
  let g1 := fun a => nth a i1 O in let g2 := fun a => nth a i2 O in
  match kind with
  | O => ser_mat (n * t) (m * t) (@multitask_kernel QcF t r Kx F vv)
  | 1%nat => ser_mat (length i1) (length i2) (@index_kernel QcF r F vv g1 g2)
  | _ => ser_mat n m (@hadamard_multitask QcF r Kx F vv g1 g2)
  end.
(* LCM: case = (n, m, t, [(r, Kx rows, F rows, v)]) *)
Definition run_lcm (c : nat * nat * nat * list (nat * list (list Qc) * list (list Qc) * list Qc))
  : list Z :=
  let '(n, m, t, terms) := c in
  ser_mat (n * t) (m * t)
    (@lcm_kernel QcF t (map (fun q => let '(r, kx, f, v) := q in
                                      (r, of_list kx, of_list f, fun i => nth i v 0%Qc)) terms)).

(* SGPR / inducing-point family.  case = ((n, t, m), Kzz, Kxz, Ksz, Kss, Kxdiag, noise, y-mx, ms):
   result: 0 if something is singular, else
   1 :: Q_xx (n x n) ++ textbook mean (t) ++ textbook cov (t x t)
     ++ quad form r^T (Q+D)^-1 r ++ det (Q+D) ++ added loss term (-1/2 sum (Kxx_ii - Q_ii)/noise_i) *)
Definition run_sgpr
  (c : (nat * nat * nat) * list (list Qc) * list (list Qc) * list (list Qc) * list (list Qc)
       * list Qc * list Qc * list Qc * list Qc) : list Z :=
  let '((n, t, m), kzz, kxz, ksz, kss, kxd, noise, r, ms) := c in
  let Kzz := of_list kzz in let Kxz := of_list kxz in let Ksz := of_list ksz in
  let Kss := of_list kss in let R := vec_of_list r in let Ms := vec_of_list ms in
  let nz := fun i => nth i noise 0%Qc in
  let Di := @mdiag QcF (fun i => (/ nz i)%Qc) in
  match inv_checked m (mat m m Kzz) with
  | None => [0%Z]
  | Some Kzzi =>
    (* [mat] only materialises intermediate products (identity up to meq, Exec.mat_meq) *)
    let Q := mat n n (mmul m Kxz (mat m n (mmul m Kzzi (mT Kxz)))) in   (* = nystrom m Kxz Kzzi Kxz *)
    let A := mat n n (madd Q (@mdiag QcF nz)) in
    match inv_checked m (mat m m (@sgpr_sigma_arg QcF n m Kzz Kxz Di)), inv_checked n A with
    | Some Sigma, Some Ainv =>
        let w := mat m 1 (mmul n (mT Kxz) (mat n 1 (mmul n Di R))) in
        let SigKzs := mat m t (mmul m Sigma (mT Ksz)) in
        let KzziKzs := mat m t (mmul m Kzzi (mT Ksz)) in
        1%Z :: ser_mat n n Q
          ++ ser_mat t 1 (madd (mmul m Ksz (mat m 1 (mmul m Sigma w))) Ms)
          ++ ser_mat t t (madd (msub Kss (mmul m Ksz KzziKzs)) (mmul m Ksz SigKzs))
          ++ ser_qc (@mmul QcF n (mT R) (mat n 1 (mmul n Ainv R)) O O)
          ++ ser_qc (@det QcF n A)
          ++ ser_qc (@titsias_added_loss QcF n (fun i => nth i kxd 0%Qc) Q nz)
    | _, _ => [0%Z]
    end
  end.
