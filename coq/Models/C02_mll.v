(* C02 model: the exact marginal log likelihood (gpytorch/mlls/exact_marginal_log_likelihood.py),
   the leave-one-out pseudo-likelihood (leave_one_out_pseudo_likelihood.py) and the sum over
   independent models (sum_marginal_log_likelihood.py) as dense definitions.
   Inputs are the implementation's own prior pieces on the training inputs (K, m), the noise
   operator S, the targets y, the values of the registered log-prior terms and added-loss terms.
   Linear algebra is generic over the scalar field; log det / log 2 pi live in Expr.  Definitions only. *)
From Coq Require Import Arith List ZArith QArith Qcanon Bool.
From GPV Require Import Base.LinAlg Base.Exec Base.Expr.
Import ListNotations.

Section MLL.
Context {K : Fld}.
Local Open Scope fld_scope.

Definition of_nat (n : nat) : car := sum n (fun _ => 1).          (* n as a field element *)
Definition csum (l : list car) : car := fold_right fadd 0 l.    (* sum of a list of scalars *)
(* r^T Ai r for a column vector r *)
Definition quadf (n : nat) (Ai r : M) : car := mmul n (mT r) (mmul n Ai r) O O.
Definition dotf (n : nat) (a b : M) : car := sum n (fun i => a i O * b i O).

(* ---- objective assembly --------------------------------------------------------------- *)
(* ExactMarginalLogLikelihood.forward:  res = log_prob; res += added losses; res += priors;
   res / num_data  (lines 40-50, 83-87) *)
Definition mll_value (logp : car) (priors added : list car) (ndata : car) : car :=
  (logp + csum added + csum priors) / ndata.
(* SumMarginalLogLikelihood.forward: sum of the member objectives / number of members *)
Definition sum_mll_value (mlls : list car) : car := csum mlls / of_nat (length mlls).

(* SumMarginalLogLikelihood.forward(outputs, targets, *params): member k is called with output k, target k
   and, when params are given, ITS OWN argument list params[k] (length_safe_zip: any length mismatch is an
   error).  [call] is the member objective as a function of (member, output, target, optional own params). *)
Section SumRouting.
Context {Mem Out Tgt Par : Type}.
Fixpoint sum_route (call : Mem -> Out -> Tgt -> option Par -> car)
         (ms : list Mem) (os : list Out) (ts : list Tgt) (ps : option (list Par)) : option (list car) :=
  match ms, os, ts with
  | [], [], [] => match ps with None | Some [] => Some [] | Some (_ :: _) => None end
  | m :: ms', o :: os', t :: ts' =>
      match ps with
      | None => option_map (cons (call m o t None)) (sum_route call ms' os' ts' None)
      | Some (p :: ps') => option_map (cons (call m o t (Some p))) (sum_route call ms' os' ts' (Some ps'))
      | Some [] => None
      end
  | _, _, _ => None
  end.
Definition sum_mll_call (call : Mem -> Out -> Tgt -> option Par -> car) ms os ts ps : option car :=
  option_map sum_mll_value (sum_route call ms os ts ps).
End SumRouting.

(* ---- leave one out -------------------------------------------------------------------- *)
(* index map that skips position i:  0..i-1, i+1.. *)
Definition skip (i k : nat) : nat := if Nat.ltb k i then k else S k.
Definition del (i : nat) (A : M) : M := gather (skip i) (skip i) A.          (* A[-i,-i] *)
Definition colx (i : nat) (A : M) : M := fun a _ => A (skip i a) i.          (* A[-i, i] column *)
Definition rowx (i : nat) (A : M) : M := fun _ b => A i (skip i b).          (* A[i, -i] row *)
Definition vdel (i : nat) (v : M) : M := fun a j => v (skip i a) j.          (* v[-i] *)

(* as coded (lines 63-64): sigma2 = 1 / diag(A^-1);  mu = y - (A^-1 (y - m)) * sigma2 *)
Definition loo_sigma2 (Ainv : M) (i : nat) : car := 1 / Ainv i i.
Definition loo_mu (n : nat) (Ainv y m : M) (i : nat) : car :=
  y i O - mmul n Ainv (msub y m) i O * loo_sigma2 Ainv i.

(* the definition: the Gaussian conditional of y_i given all other observations under
   y ~ N(m, A); k = n - 1, Binv any inverse of A[-i,-i] *)
Definition cond_mean (k i : nat) (A Binv y m : M) : car :=
  m i O + mmul k (rowx i A) (mmul k Binv (vdel i (msub y m))) O O.
Definition cond_var (k i : nat) (A Binv : M) : car :=
  A i i - mmul k (rowx i A) (mmul k Binv (colx i A)) O O.

(* the same conditional written with the C01 layout: joint over [others; i] *)
Definition loo_perm (k i : nat) (a : nat) : nat := if Nat.ltb a k then skip i a else i.
Definition loo_joint (k i : nat) (A : M) : M := gather (loo_perm k i) (loo_perm k i) A.

(* rational parts of the LOO objective: sum_i (y_i - mu_i)^2 / sigma2_i  and  prod_i sigma2_i *)
Definition loo_quad (n : nat) (mu s2 : nat -> car) (y : M) : car :=
  sum n (fun i => (y i O - mu i) * (y i O - mu i) / s2 i).

(* chain rule of the Gaussian density (quadratic part): conditioning the last coordinate *)
Definition chain_quad_rest (k i : nat) (Binv y m : M) : car :=
  quadf k Binv (vdel i (msub y m)).

End MLL.

(* ---- executable instance ------------------------------------------------------------- *)
Local Existing Instance QcF | 0.

Definition two_pi : expr := EMul (EConst (qc 2 1)) EPi.
Definition qcn (n : nat) : Qc := @of_nat QcF n.
Definition qhalf : Qc := qc 1 2.
Definition qsum (l : list Qc) : Qc := @csum QcF l.

(* log N(y; m, A) = -1/2 ( r^T A^-1 r + log det A + n log 2 pi ) from the exact rational
   quadratic form q and determinant d: one ELog node around det *)
Definition logN_expr (n : nat) (q d : Qc) : expr :=
  EMul (EConst (qc (-1) 2))
       (EAdd (EAdd (EConst q) (ELog (EConst d))) (EMul (EConst (qcn n)) (ELog two_pi))).

(* (logp + added + priors) / ndata *)
Definition mll_expr (logp : expr) (priors added : list Qc) (ndata : Qc) : expr :=
  EDiv (EAdd (EAdd logp (EConst (qsum added))) (EConst (qsum priors))) (EConst ndata).

Definition mll_case : Type :=
  (nat * list (list Qc) * list Qc * list (list Qc) * list Qc * list Qc * list Qc * Qc)%type.

(* dense pieces of one exact-GP problem: Some (quad, det) *)
Definition dense_pieces (n : nat) (k : list (list Qc)) (mu : list Qc) (s : list (list Qc)) (y : list Qc)
  : option (Qc * Qc) :=
  let A := mat n n (madd (of_list k) (of_list s)) in
  match inv_checked n A with
  | None => None
  | Some Ainv =>
      let r := mat n 1 (msub (vec_of_list y) (vec_of_list mu)) in
      Some (quadf n Ainv r, det n A)
  end.

Definition mll_of_case (c : mll_case) : option (expr * expr) :=
  let '(n, k, mu, s, y, priors, added, ndata) := c in
  match dense_pieces n k mu s y with
  | None => None
  | Some (q, d) => let lp := logN_expr n q d in Some (lp, mll_expr lp priors added ndata)
  end.

(* case = (n, K rows, m, S rows, y, prior log-density values, added-loss values, num_data);
   result: [0] if K+S is singular, else 1 :: ser(mll) ++ ser(log N) ++ quad ++ det *)
Definition run_mll (c : mll_case) : list Z :=
  match mll_of_case c with
  | None => [0%Z]
  | Some (lp, v) => 1%Z :: ser_expr v ++ ser_expr lp
  end.

(* SumMarginalLogLikelihood over a list of member problems *)
Definition run_summll (cs : list mll_case) : list Z :=
  let vs := map mll_of_case cs in
  if forallb (fun o => match o with Some _ => true | None => false end) vs then
    let tot := fold_right (fun o acc => match o with Some (_, v) => EAdd v acc | None => acc end)
                          (EConst 0%Qc) vs in
    1%Z :: ser_expr (EDiv tot (EConst (qcn (length cs))))
  else [0%Z].

(* LOO.  Output: [0] if A or some A[-i,-i] is singular, else
   1 :: mu (n, by the DEFINITION: conditional given the others) ++ sigma2 (n, definition)
     ++ [1 if the code's formulas give exactly the same mu and sigma2, else 0]
     ++ ser(objective)   where objective =
        ( sum_i [ -1/2 log s2_i - 1/2 (y_i - mu_i)^2 / s2_i ] + added + priors ) / n - 1/2 log 2 pi *)
Definition run_loo (c : nat * list (list Qc) * list Qc * list (list Qc) * list Qc * list Qc * list Qc)
  : list Z :=
  let '(n, k, mu, s, y, priors, added) := c in
  let A := mat n n (madd (of_list k) (of_list s)) in
  let Y := vec_of_list y in let Mu := vec_of_list mu in
  match inv_checked n A with
  | None => [0%Z]
  | Some Ainv =>
      let idx := seq 0 n in
      let binvs := map (fun i => inv_checked (pred n) (mat (pred n) (pred n) (del i A))) idx in
      if forallb (fun o => match o with Some _ => true | None => false end) binvs then
        let defs := map (fun i => match nth i binvs None with
                                  | Some Binv => (cond_mean (pred n) i A Binv Y Mu, cond_var (pred n) i A Binv)
                                  | None => (0%Qc, 1%Qc) end) idx in
        let code := map (fun i => (loo_mu n Ainv Y Mu i, loo_sigma2 Ainv i)) idx in
        let same := forallb (fun p => Qc_eqb (fst (fst p)) (fst (snd p)) && Qc_eqb (snd (fst p)) (snd (snd p)))
                            (combine defs code) in
        let terms := fold_right (fun p acc =>
                        let '(i, (mi, si)) := p in
                        let e := (nth i y 0%Qc - mi)%Qc in
                        EAdd (EAdd (EMul (EConst (qc (-1) 2)) (ELog (EConst si)))
                                   (EConst (- qhalf * (e * e / si))%Qc)) acc)
                      (EConst 0%Qc) (combine idx defs) in
        let obj := ESub (EDiv (EAdd (EAdd terms (EConst (qsum added))) (EConst (qsum priors)))
                              (EConst (qcn n)))
                        (EMul (EConst qhalf) (ELog two_pi)) in
        1%Z :: flat_map (fun p => ser_qc (fst p)) defs ++ flat_map (fun p => ser_qc (snd p)) defs
            ++ [if same then 1%Z else 0%Z] ++ ser_expr obj
      else [0%Z]
  end.
