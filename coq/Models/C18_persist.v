(* C18 model: persistence mechanisms on an abstract object.
   An object is a finite map attr -> (class, value): class in {param, buffer, plain, cache};
   values are abstract identifiers (the harness numbers tensors by content).
     state_dict  carries params and buffers                 (torch.nn.Module.state_dict)
     load        overwrites params/buffers of a (fresh) object by the saved values and drops every
                 cache (gpytorch/module.py:389-396 = invalidation point p_load of the C03 machine)
     load_strict additionally fails on missing / unexpected keys (strict=True)
     copy        pickle / deepcopy: carries everything except a dropped set
                 (Kernel.__getstate__, DefaultPredictionStrategy.__deepcopy__)
     predict     an uninterpreted function of the values of a declared set [rel] of attributes.
   Definitions only. *)
From Coq Require Import Arith List Bool ZArith.
From GPV Require Import Models.C03_cache.
Import ListNotations.

Inductive cls := CParam | CBuffer | CPlain | CCache.
Record field := mkF { f_attr : nat; f_cls : cls; f_val : nat }.
Definition obj := list field.

Definition carried (f : field) : bool := match f_cls f with CParam | CBuffer => true | _ => false end.
Definition is_cache (f : field) : bool := match f_cls f with CCache => true | _ => false end.
Definition is_plain (f : field) : bool := match f_cls f with CPlain => true | _ => false end.

Fixpoint find_attr (a : nat) (o : obj) : option field :=
  match o with
  | [] => None
  | f :: r => if f_attr f =? a then Some f else find_attr a r
  end.
Definition get (a : nat) (o : obj) : option nat :=
  match find_attr a o with Some f => Some (f_val f) | None => None end.

Definition sdict := list (nat * nat).
Definition state_dict (o : obj) : sdict := map (fun f => (f_attr f, f_val f)) (filter carried o).
Fixpoint sd_get (a : nat) (sd : sdict) : option nat :=
  match sd with
  | [] => None
  | (k, v) :: r => if k =? a then Some v else sd_get a r
  end.

Definition load_field (sd : sdict) (f : field) : field :=
  if carried f then
    match sd_get (f_attr f) sd with Some v => mkF (f_attr f) (f_cls f) v | None => f end
  else f.
Definition load (target : obj) (sd : sdict) : obj :=
  map (load_field sd) (filter (fun f => negb (is_cache f)) target).

Definition memb (x : nat) (l : list nat) : bool := existsb (Nat.eqb x) l.
Definition missing_keys (target : obj) (sd : sdict) : list nat :=
  map f_attr (filter (fun f => carried f && match sd_get (f_attr f) sd with None => true | _ => false end) target).
Definition unexpected_keys (target : obj) (sd : sdict) : list nat :=
  map fst (filter (fun kv => negb (memb (fst kv) (map f_attr (filter carried target)))) sd).
Definition load_strict (target : obj) (sd : sdict) : option obj :=
  match missing_keys target sd, unexpected_keys target sd with
  | [], [] => Some (load target sd)
  | _, _ => None
  end.

Definition copy (dropped : list nat) (o : obj) : obj :=
  filter (fun f => negb (memb (f_attr f) dropped)) o.

Definition predict (rel : list nat) (o : obj) : list (option nat) := map (fun a => get a o) rel.

(* the per-class premise: a relevant attribute is carried by the state_dict into an attribute of
   the same kind of the fresh object, or it is plain state that the constructor re-creates *)
Definition premise (o fresh : obj) (a : nat) : bool :=
  match find_attr a o, find_attr a fresh with
  | Some fo, Some ff =>
      (carried fo && carried ff) || (is_plain fo && is_plain ff && (f_val fo =? f_val ff))
  | None, None => true
  | _, _ => false
  end.

(* ---- executable wrapper ----
   case = (original fields, fresh fields, relevant attrs, attrs dropped by the copy mechanism);
   a field is (attr, class code 0..3, value id).
   result = [strict load ok; predict preserved by state_dict->fresh; predict preserved by copy;
             number of caches left after load; #violating attrs; violating attrs ...] *)
Definition cls_of (z : Z) : cls :=
  match z with 0%Z => CParam | 1%Z => CBuffer | 2%Z => CPlain | _ => CCache end.
Definition dec_obj (l : list (Z * Z * Z)) : obj :=
  map (fun t => let '(a, c, v) := t in mkF (Z.to_nat a) (cls_of c) (Z.to_nat v)) l.
Fixpoint olist_eqb (a b : list (option nat)) : bool :=
  match a, b with
  | [], [] => true
  | Some x :: r, Some y :: r' => (x =? y) && olist_eqb r r'
  | None :: r, None :: r' => olist_eqb r r'
  | _, _ => false
  end.
Definition run_persist (c : list (Z * Z * Z) * list (Z * Z * Z) * list Z * list Z) : list Z :=
  let '(oe, fe, rel, dr) := c in
  let o := dec_obj oe in let fr := dec_obj fe in
  let rel := map Z.to_nat rel in let dr := map Z.to_nat dr in
  let bad := filter (fun a => negb (premise o fr a)) rel in
  let b2z := fun b : bool => if b then 1%Z else 0%Z in
  [ b2z (match load_strict fr (state_dict o) with Some _ => true | None => false end);
    b2z (olist_eqb (predict rel (load fr (state_dict o))) (predict rel o));
    b2z (olist_eqb (predict rel (copy dr o)) (predict rel o));
    Z.of_nat (length (filter is_cache (load o (state_dict o))));
    Z.of_nat (length bad) ] ++ map Z.of_nat bad.

(* ---- executable wrapper on full attribute tables (what the driver runs) ----
   case = (source fields, freshly constructed target fields, relevant attrs, attrs dropped by the
   copy mechanism).  Result, as a flat list:
     strict load ok (0/1);
     #missing keys, keys...;  #unexpected keys, keys...;
     #fields of the object restored by state_dict->fresh (non-strict load), (attr, class, value)...;
     #fields of the object restored by the copy mechanism, (attr, class, value)...;
     number of caches left after loading the state_dict back into the SOURCE itself;
     predict preserved by state_dict->fresh (0/1);  predict preserved by copy (0/1);
     #relevant attrs violating the premise, attrs...;
     #relevant attrs dropped by the copy mechanism, attrs... *)
Definition code_of (c : cls) : Z :=
  match c with CParam => 0%Z | CBuffer => 1%Z | CPlain => 2%Z | CCache => 3%Z end.
Definition ser_obj (o : obj) : list Z :=
  Z.of_nat (length o) :: flat_map (fun f => [Z.of_nat (f_attr f); code_of (f_cls f); Z.of_nat (f_val f)]) o.
Definition ser_nats (l : list nat) : list Z := Z.of_nat (length l) :: map Z.of_nat l.
Definition run_table (c : list (Z * Z * Z) * list (Z * Z * Z) * list Z * list Z) : list Z :=
  let '(oe, fe, rel, dr) := c in
  let o := dec_obj oe in let fr := dec_obj fe in
  let rel := map Z.to_nat rel in let dr := map Z.to_nat dr in
  let sd := state_dict o in
  let bad := filter (fun a => negb (premise o fr a)) rel in
  let lost := filter (fun a => memb a dr && match find_attr a o with Some _ => true | None => false end) rel in
  let b2z := fun b : bool => if b then 1%Z else 0%Z in
  [ b2z (match load_strict fr sd with Some _ => true | None => false end) ]
  ++ ser_nats (missing_keys fr sd) ++ ser_nats (unexpected_keys fr sd)
  ++ ser_obj (load fr sd) ++ ser_obj (copy dr o)
  ++ [ Z.of_nat (length (filter is_cache (load o sd)));
       b2z (olist_eqb (predict rel (load fr sd)) (predict rel o));
       b2z (olist_eqb (predict rel (copy dr o)) (predict rel o)) ]
  ++ ser_nats bad ++ ser_nats lost.

(* ---- persisted objects over HISTORIES: attribute table + the C03 cache machine ----------
   A family is described by the table of a freshly constructed object (default values), the
   plain attributes that hold constructor arguments replaced by set_train_data (training data,
   fixed noise), and the buffers that are only registered by the first call (RFFKernel's
   randn_weights).  The table evolves with the same operations as the C03 machine; an oracle
   [nv version attr] supplies the (arbitrary) values an optimiser step / a loaded state_dict / new
   training data put into an attribute. *)
Record tfam := mkTF { t_c03 : family; t_ctor : obj; t_data : list nat; t_lazy : list field }.
Record pobj := mkP { p_tbl : obj; p_st : state }.

Definition set_val (f : field) (v : nat) : field := mkF (f_attr f) (f_cls f) v.
Definition is_param (f : field) : bool := match f_cls f with CParam => true | _ => false end.
Definition has_attr (a : nat) (o : obj) : bool := match find_attr a o with Some _ => true | None => false end.
Definition is_data (tf : tfam) (f : field) : bool := is_plain f && memb (f_attr f) (t_data tf).

(* a call registers the lazily created buffers that are not there yet *)
Definition touch (tf : tfam) (o : obj) : obj :=
  o ++ filter (fun f => negb (has_attr (f_attr f) o)) (t_lazy tf).

Definition tstep (tf : tfam) (nv : nat -> nat -> nat) (s : state) (o : op) (t : obj) : obj :=
  match o with
  | OTrain | OEval => t
  | OStep =>
      if training s
      then map (fun f => if is_param f then set_val f (nv (S (pv s)) (f_attr f)) else f) (touch tf t)
      else t
  | OSetData =>
      if f_has_data (t_c03 tf)
      then map (fun f => if is_data tf f then set_val f (nv (S (dv s)) (f_attr f)) else f) t
      else t
  | OLoad => map (fun f => if carried f then set_val f (nv (S (pv s)) (f_attr f)) else f) t
  | OPrior => if training s then t else touch tf t
  | OFantasy | OBackward | OPredict _ => touch tf t
  end.

Definition pstep (tf : tfam) (nv : nat -> nat -> nat) (p : pobj) (o : op) : pobj :=
  mkP (tstep tf nv (p_st p) o (p_tbl p)) (fst (step all_on (t_c03 tf) (p_st p) o)).
Fixpoint prun (tf : tfam) (nv : nat -> nat -> nat) (p : pobj) (h : list op) : pobj :=
  match h with
  | [] => p
  | o :: r => prun tf nv (pstep tf nv p o) r
  end.
Definition pinit (tf : tfam) : pobj := mkP (t_ctor tf) init.

(* a freshly constructed object, built from the CURRENT constructor arguments of the source *)
Definition construct (tf : tfam) (src : obj) : obj :=
  map (fun f => if is_data tf f
                then match get (f_attr f) src with Some v => set_val f v | None => f end
                else f) (t_ctor tf).

(* state_dict -> freshly constructed object (put in the mode of the source) *)
Definition restore_sd (tf : tfam) (p : pobj) : pobj :=
  mkP (load (construct tf (p_tbl p)) (state_dict (p_tbl p)))
      (fresh (pv (p_st p)) (dv (p_st p)) (training (p_st p))).
(* pickle: everything is carried, caches included *)
Definition restore_pickle (p : pobj) : pobj := p.
(* deepcopy: DefaultPredictionStrategy.__deepcopy__ drops the strategy and what hangs off it *)
Definition restore_deepcopy (tf : tfam) (p : pobj) : pobj :=
  mkP (p_tbl p) (set_cache (p_st p) (drop (f_strat_slots (t_c03 tf)) (cch (p_st p)))).

(* what the property observes: the values of the relevant attributes and what an eval-mode
   prediction under configuration c is computed from *)
Definition pobserve (tf : tfam) (rel : list nat) (p : pobj) (c : nat)
  : list (option nat) * (nat * list (nat * tag)) :=
  (predict rel (p_tbl p), predict_out all_on (t_c03 tf) (p_st p) c).

Fixpoint nodupb (l : list nat) : bool :=
  match l with
  | [] => true
  | x :: r => negb (memb x r) && nodupb r
  end.
Definition wf_tfam (tf : tfam) : bool :=
  nodupb (map f_attr (t_ctor tf)) && forallb (fun f => negb (is_cache f)) (t_ctor tf).

(* concrete descriptors: an exact GP with fixed noise (attrs: 0 raw_lengthscale, 1 raw_noise,
   2 constraint lower bound, 3 train_inputs, 4 train_targets, 5 fixed noise, 6 Interval._initial_value)
   and the same with an RFF kernel whose random features (attr 7) are registered lazily *)
Definition tf_exact : tfam :=
  mkTF fam_exact [mkF 0 CParam 100; mkF 1 CParam 101; mkF 2 CBuffer 102; mkF 3 CPlain 103; mkF 4 CPlain 104;
                  mkF 5 CPlain 105; mkF 6 CPlain 106] [3; 4; 5] [].
Definition tf_rff : tfam :=
  mkTF fam_exact (t_ctor tf_exact) [3; 4; 5] [mkF 7 CBuffer 107].
