(* C18 model: persistence mechanisms on an abstract object.
   An object is a finite map attr -> (class, value): class in {param, buffer, plain, cache};
   values are abstract identifiers (the harness numbers tensors by content).
     state_dict  carries params and buffers                 (torch.nn.Module.state_dict)
     load        overwrites params/buffers of a (fresh) object by the saved values and drops every
                 cache (gpytorch/module.py:389-396 = invalidation point p_load of the C03 machine)
     load_strict additionally fails on missing / unexpected keys (strict=True)
     copy        pickle / deepcopy: carries everything except a dropped set
                 (Kernel.__getstate__, DefaultPredictionStrategy.__deepcopy__)
     predict     an uninterpreted function of the values of a declared set [rel] of attributes.
   Definitions only. *)
From Coq Require Import Arith List Bool ZArith.
Import ListNotations.

Inductive cls := CParam | CBuffer | CPlain | CCache.
Record field := mkF { f_attr : nat; f_cls : cls; f_val : nat }.
Definition obj := list field.

Definition carried (f : field) : bool := match f_cls f with CParam | CBuffer => true | _ => false end.
Definition is_cache (f : field) : bool := match f_cls f with CCache => true | _ => false end.
Definition is_plain (f : field) : bool := match f_cls f with CPlain => true | _ => false end.

Fixpoint find_attr (a : nat) (o : obj) : option field :=
  match o with
  | [] => None
  | f :: r => if f_attr f =? a then Some f else find_attr a r
  end.
Definition get (a : nat) (o : obj) : option nat :=
  match find_attr a o with Some f => Some (f_val f) | None => None end.

Definition sdict := list (nat * nat).
Definition state_dict (o : obj) : sdict := map (fun f => (f_attr f, f_val f)) (filter carried o).
Fixpoint sd_get (a : nat) (sd : sdict) : option nat :=
  match sd with
  | [] => None
  | (k, v) :: r => if k =? a then Some v else sd_get a r
  end.

Definition load_field (sd : sdict) (f : field) : field :=
  if carried f then
    match sd_get (f_attr f) sd with Some v => mkF (f_attr f) (f_cls f) v | None => f end
  else f.
Definition load (target : obj) (sd : sdict) : obj :=
  map (load_field sd) (filter (fun f => negb (is_cache f)) target).

Definition memb (x : nat) (l : list nat) : bool := existsb (Nat.eqb x) l.
Definition missing_keys (target : obj) (sd : sdict) : list nat :=
  map f_attr (filter (fun f => carried f && match sd_get (f_attr f) sd with None => true | _ => false end) target).
Definition unexpected_keys (target : obj) (sd : sdict) : list nat :=
  map fst (filter (fun kv => negb (memb (fst kv) (map f_attr (filter carried target)))) sd).
Definition load_strict (target : obj) (sd : sdict) : option obj :=
  match missing_keys target sd, unexpected_keys target sd with
  | [], [] => Some (load target sd)
  | _, _ => None
  end.

Definition copy (dropped : list nat) (o : obj) : obj :=
  filter (fun f => negb (memb (f_attr f) dropped)) o.

Definition predict (rel : list nat) (o : obj) : list (option nat) := map (fun a => get a o) rel.

(* the per-class premise: a relevant attribute is carried by the state_dict into an attribute of
   the same kind of the fresh object, or it is plain state that the constructor re-creates *)
Definition premise (o fresh : obj) (a : nat) : bool :=
  match find_attr a o, find_attr a fresh with
  | Some fo, Some ff =>
      (carried fo && carried ff) || (is_plain fo && is_plain ff && (f_val fo =? f_val ff))
  | None, None => true
  | _, _ => false
  end.

(* ---- executable wrapper ----
   case = (original fields, fresh fields, relevant attrs, attrs dropped by the copy mechanism);
   a field is (attr, class code 0..3, value id).
   result = [strict load ok; predict preserved by state_dict->fresh; predict preserved by copy;
             number of caches left after load; #violating attrs; violating attrs ...] *)
Definition cls_of (z : Z) : cls :=
  match z with 0%Z => CParam | 1%Z => CBuffer | 2%Z => CPlain | _ => CCache end.
Definition dec_obj (l : list (Z * Z * Z)) : obj :=
  map (fun t => let '(a, c, v) := t in mkF (Z.to_nat a) (cls_of c) (Z.to_nat v)) l.
Fixpoint olist_eqb (a b : list (option nat)) : bool :=
  match a, b with
  | [], [] => true
  | Some x :: r, Some y :: r' => (x =? y) && olist_eqb r r'
  | None :: r, None :: r' => olist_eqb r r'
  | _, _ => false
  end.
Definition run_persist (c : list (Z * Z * Z) * list (Z * Z * Z) * list Z * list Z) : list Z :=
  let '(oe, fe, rel, dr) := c in
  let o := dec_obj oe in let fr := dec_obj fe in
  let rel := map Z.to_nat rel in let dr := map Z.to_nat dr in
  let bad := filter (fun a => negb (premise o fr a)) rel in
  let b2z := fun b : bool => if b then 1%Z else 0%Z in
  [ b2z (match load_strict fr (state_dict o) with Some _ => true | None => false end);
    b2z (olist_eqb (predict rel (load fr (state_dict o))) (predict rel o));
    b2z (olist_eqb (predict rel (copy dr o)) (predict rel o));
    Z.of_nat (length (filter is_cache (load o (state_dict o))));
    Z.of_nat (length bad) ] ++ map Z.of_nat bad.
