(* C11 model: MultitaskMultivariateNormal (gpytorch/distributions/multitask_multivariate_normal.py)
   as index arithmetic on Z.  The joint law over n points x t tasks is stored as a flat vector /
   matrix in one of two layouts; every method is a permutation / selection of flat positions.
   Definitions only (executable); proofs are in Proofs/C11_mtmvn.v.

   [getitem_event] mirrors the branches of __getitem__ (lines 329-399) with the arithmetic of the
   REPAIRED source (fixes_proposed/C11_getitem_index_arithmetic.diff); the formulas of the pinned
   source are kept as [*_pinned] so that the defects stay documented ([_refuted] theorems). *)
From Coq Require Import ZArith List Lia Bool.
From GPV Require Import Base.PySlice.
Import ListNotations.
Local Open Scope Z_scope.

(* ------------------------------------------------------------------ layouts *)

(* position of (point i, task a) in the flat vector: lines 61-69 *)
Definition flat_il (n t i a : Z) : Z := i * t + a.          (* interleaved: mean.reshape(-1) *)
Definition flat_nil (n t i a : Z) : Z := a * n + i.         (* mean.transpose(-1,-2).reshape(-1) *)
Definition flat (il : bool) (n t i a : Z) : Z := if il then flat_il n t i a else flat_nil n t i a.

Definition unflat (il : bool) (n t k : Z) : Z * Z :=
  if il then (k / t, k mod t) else (k mod n, k / n).

(* canonical code of the pair stored at flat position k (= its interleaved position) *)
Definition code_of_pos (il : bool) (n t k : Z) : Z :=
  let '(i, a) := unflat il n t k in i * t + a.

(* the perfect shuffle: interleaved position -> non-interleaved position of the same pair *)
Definition shuffle (n t k : Z) : Z := flat_nil n t (k / t) (k mod t).
Definition unshuffle (n t k : Z) : Z := flat_il n t (k mod n) (k / n).

(* ---- tensors of rank 2 as index functions; torch view / transpose / reshape(-1) *)
Section Views.
Context {X : Type}.
Definition flatten2 (c : Z) (x : Z -> Z -> X) : Z -> X := fun k => x (k / c) (k mod c).
Definition unflatten2 (c : Z) (v : Z -> X) : Z -> Z -> X := fun p q => v (p * c + q).
Definition transpose2 (x : Z -> Z -> X) : Z -> Z -> X := fun p q => x q p.
(* x.view(r', c') of a contiguous r x c tensor: same memory, new strides *)
Definition view2 (c c' : Z) (x : Z -> Z -> X) : Z -> Z -> X := unflatten2 c' (flatten2 c x).

(* __init__: the stored loc *)
Definition loc_of_mean (il : bool) (n t : Z) (m : Z -> Z -> X) : Z -> X :=
  if il then flatten2 t m else flatten2 n (transpose2 m).
(* .mean / .variance / rsample output: loc.view(t, n).transpose(-1,-2)  resp.  loc.view(n, t) *)
Definition mean_of_loc (il : bool) (n t : Z) (v : Z -> X) : Z -> Z -> X :=
  if il then unflatten2 t v else transpose2 (unflatten2 n v).
(* log_prob: how the n x t value is flattened before it meets loc.  Repaired source:
   value.transpose(-1,-2).reshape(-1) *)
Definition logprob_flatten (il : bool) (n t : Z) (v : Z -> Z -> X) : Z -> X :=
  if il then flatten2 t v else flatten2 n (transpose2 v).
(* pinned source: value.view(t, n).transpose(-1,-2).reshape(-1) -- a reinterpretation of the
   memory, not a transposition *)
Definition logprob_flatten_pinned (il : bool) (n t : Z) (v : Z -> Z -> X) : Z -> X :=
  if il then flatten2 t v else flatten2 t (transpose2 (view2 t n v)).
End Views.

(* to_data_independent_dist: indices of the t x t block of point i (lines 265-273) *)
Definition tdid_index (il : bool) (n t i a : Z) : Z :=
  if il then (i * t) + a else i + (a * n).

(* constructors.  from_batch_mvn: BlockInterleavedLinearOperator puts block a (task a, an n x n
   matrix) at rows/cols i*t + a; from_independent_mvns: BlockDiagLinearOperator puts block a at
   rows/cols a*n + i.  Entry (k, l) of the joint covariance in terms of the blocks: *)
Section Ctors.
Context {X : Type} (zero : X).
Definition block_cov (il : bool) (n t : Z) (blocks : Z -> Z -> Z -> X) (k l : Z) : X :=
  let '(i, a) := unflat il n t k in let '(j, b) := unflat il n t l in
  if a =? b then blocks a i j else zero.
(* the joint law of independent tasks, as a function of (i,a),(j,b) *)
Definition indep_joint (blocks : Z -> Z -> Z -> X) (i a j b : Z) : X :=
  if a =? b then blocks a i j else zero.
End Ctors.

(* from_batch_mvn: which batch dimension becomes the task dimension (lines 110-115) *)
Definition task_dim_norm (nbatch task_dim : Z) : option Z :=
  let td := if 0 <=? task_dim then task_dim else nbatch + task_dim in
  if (td <? 0) || (nbatch <? td) then None else Some td.

(* ------------------------------------------------------------------ index expressions *)

Inductive pyidx := IInt (i : Z) | ISlice (s : pyslice) | ITensor (l : list Z).

Definition mk (a b k : option Z) : pyslice := {| s_start := a; s_stop := b; s_step := k |}.
Definition full_slice : pyslice := mk None None None.

Definition is_slice (x : pyidx) : bool := match x with ISlice _ => true | _ => false end.
Definition is_int (x : pyidx) : bool := match x with IInt _ => true | _ => false end.
Definition is_full_slice (x : pyidx) : bool :=
  match x with
  | ISlice s => match s_start s, s_stop s, s_step s with None, None, None => true | _, _, _ => false end
  | _ => false
  end.

Fixpoint mapM {A B} (f : A -> option B) (l : list A) : option (list B) :=
  match l with
  | [] => Some []
  | x :: r => match f x, mapM f r with Some y, Some ys => Some (y :: ys) | _, _ => None end
  end.

(* torch semantics of indexing ONE dimension of length len: the positions selected, in order;
   None = the indexing raises (IndexError; ValueError for step <= 0) *)
Definition idx_positions (len : Z) (x : pyidx) : option (list Z) :=
  match x with
  | IInt i => match norm_index len i with Some k => Some [k] | None => None end
  | ISlice s =>
      match s_step s with
      | Some k => if k <=? 0 then None else slice_positions len s
      | None => slice_positions len s
      end
  | ITensor l => mapM (norm_index len) l
  end.

(* broadcasting of two 1-D index vectors (an int is a length-1 vector) *)
Definition bcast2 {A} (l1 l2 : list A) : option (list (A * A)) :=
  if Nat.eqb (length l1) (length l2) then Some (combine l1 l2)
  else match l1, l2 with
       | [x], _ => Some (map (fun y => (x, y)) l2)
       | _, [y] => Some (map (fun x => (x, y)) l1)
       | _, _ => None
       end.

(* ---- the code: _normalize_index, _normalize_slice, the five branches *)

Definition normalize_index (i dim : Z) : Z := if i <? 0 then dim + i else i.
(* repaired: start, stop, step = s.indices(dim_size) *)
Definition normalize_slice (s : pyslice) (dim : Z) : option (Z * Z * Z) := slice_indices dim s.
(* pinned source (lines 412-426): one wrap, no clamping *)
Definition normalize_slice_pinned (s : pyslice) (dim : Z) : option (Z * Z * Z) :=
  let start := match s_start s with None => 0 | Some v => if v <? 0 then dim + v else v end in
  let stop := match s_stop s with None => dim | Some v => if v <? 0 then dim + v else v end in
  let step := match s_step s with None => 1 | Some k => k end in
  Some (start, stop, step).

Definition sl (a b k : Z) : pyslice := mk (Some a) (Some b) (Some k).

(* entries of the index vector the code works with: the normalised int / tensor, or
   torch.arange(num)[slice] *)
Definition idx_vector (num : Z) (x : pyidx) : option (list Z) :=
  match x with
  | IInt i => Some [normalize_index i num]
  | ISlice s => slice_positions num s
  | ITensor l => Some (map (fun i => normalize_index i num) l)
  end.

Definition outer (NC : Z) (rows cols : list Z) : list Z :=
  flat_map (fun r => map (fun c => r * NC + c) cols) rows.

(* R = row_idx (major), Cc = col_idx (minor) AFTER the layout swap of lines 331-340 *)
Definition code_indices (R Cc : pyidx) (NR NC : Z) : option (list Z) :=
  match R, Cc with
  | IInt r, IInt c => Some [normalize_index r NR * NC + normalize_index c NC]
  | IInt r, ISlice s =>
      let r' := normalize_index r NR in
      match normalize_slice s NC with
      | Some (a, b, k) => slice_positions (NR * NC) (sl (a + r' * NC) (b + r' * NC) k)
      | None => None
      end
  | ISlice s, IInt c =>
      let c' := normalize_index c NC in
      match normalize_slice s NR with
      | Some (a, b, k) => slice_positions (NR * NC) (sl (a * NC + c') (b * NC + c') (k * NC))
      | None => None
      end
  | _, _ =>
      if is_full_slice R && is_full_slice Cc then Some (range_list 0 (NR * NC) 1)
      else
        match idx_vector NR R, idx_vector NC Cc with
        | Some rows, Some cols =>
            if is_slice R || is_slice Cc then Some (outer NC rows cols)     (* meshgrid 'ij' *)
            else match bcast2 rows cols with                                (* pairs *)
                 | Some ps => Some (map (fun p => fst p * NC + snd p) ps)
                 | None => None
                 end
        | _, _ => None
        end
  end.

(* d[..., ri, ci]: flat positions of the stored covariance that make up the new covariance, in
   the order of the new covariance.  new_mean = self.mean[idx] is evaluated first (line 316) and
   raises for invalid components. *)
Definition getitem_event (il : bool) (n t : Z) (ri ci : pyidx) : option (list Z) :=
  match idx_positions n ri, idx_positions t ci with
  | Some _, Some _ => if il then code_indices ri ci n t else code_indices ci ri t n
  | _, _ => None
  end.

(* what the property demands: the (point, task) pairs that mean[..., ri, ci] selects, flattened
   in the layout of the RESULT (a MultitaskMVN when both components keep their dimension and one
   is a slice; a plain MVN in the order of the 1-D result mean otherwise) *)
Definition spec_indices (il : bool) (n t : Z) (ri ci : pyidx) : option (list Z) :=
  match idx_positions n ri, idx_positions t ci with
  | Some rows, Some cols =>
      if is_slice ri || is_slice ci then
        Some (if il then flat_map (fun i => map (fun a => flat il n t i a) cols) rows
              else flat_map (fun a => map (fun i => flat il n t i a) rows) cols)
      else match bcast2 rows cols with
           | Some ps => Some (map (fun p => flat il n t (fst p) (snd p)) ps)
           | None => None
           end
  | _, _ => None
  end.

(* result class: 0 = MultivariateNormal, 1 = MultitaskMultivariateNormal *)
Definition result_is_mt (ri ci : pyidx) : bool :=
  (is_slice ri || is_slice ci) && negb (is_int ri) && negb (is_int ci).

(* ---- pinned formulas of the three slice branches, for the record (DESIGN section 10) *)
Definition code_int_slice_pinned (r : Z) (s : pyslice) (NR NC : Z) : option (list Z) :=
  let r' := normalize_index r NR in
  match normalize_slice_pinned s NC with
  | Some (a, b, k) => slice_positions (NR * NC) (sl (a + r' * NC) (b + r' * NC) k)
  | None => None
  end.
Definition code_slice_int_pinned (s : pyslice) (c : Z) (NR NC : Z) : option (list Z) :=
  let c' := normalize_index c NC in
  match normalize_slice_pinned s NR with
  | Some (a, b, k) => slice_positions (NR * NC) (sl (a + c') (b * NC + c') (k * NC))
  | None => None
  end.
(* pinned else-branch (pairs): no normalisation of negative entries; the flat index wraps on the
   flattened dimension instead *)
Definition code_pair_pinned (r c NR NC : Z) : option Z := norm_index (NR * NC) (r * NC + c).

(* ------------------------------------------------------------------ index tuples *)

Inductive pyidx_e := EI (x : pyidx) | EE.     (* EE = Ellipsis *)

Definition is_ell (e : pyidx_e) : bool := match e with EE => true | _ => false end.
Fixpoint split_ell (l : list pyidx_e) : list pyidx_e * option (list pyidx_e) :=
  match l with
  | [] => ([], None)
  | EE :: r => ([], Some r)
  | x :: r => let '(p, s) := split_ell r in (x :: p, s)
  end.
Definition strip (l : list pyidx_e) : list pyidx :=
  flat_map (fun e => match e with EI x => [x] | EE => [] end) l.

(* lines 297-327: result = (batch_idx, Some (ri, ci)) for an index reaching the event dimensions,
   (idx, None) for a batch-only index; None = IndexError.  dim = mean.dim() = batch rank + 2 *)
Definition normalize_tuple (dim : Z) (idx : list pyidx_e)
  : option (list pyidx * option (pyidx * pyidx)) :=
  let expanded :=
    match split_ell idx with
    | (pre, Some suf) =>
        if existsb is_ell suf then None
        else let infix := dim - Z.of_nat (length pre) - Z.of_nat (length suf) in
             if infix <? 0 then None
             else Some (strip pre ++ repeat (ISlice full_slice) (Z.to_nat infix) ++ strip suf)
    | (pre, None) =>
        if Z.of_nat (length pre) =? dim - 1 then Some (strip pre ++ [ISlice full_slice])
        else Some (strip pre)
    end in
  match expanded with
  | None => None
  | Some l =>
      let len := Z.of_nat (length l) in
      if len <=? dim - 2 then Some (l, None)
      else if dim <? len then None
      else let nb := (length l - 2)%nat in
           match skipn nb l with
           | [ri; ci] => Some (firstn nb l, Some (ri, ci))
           | _ => None
           end
  end.

(* ------------------------------------------------------------------ executable wrappers *)

(* case = (il, dim, n, t, idx).  Output:
     [0]                              the indexing raises
     [1; nb]                          batch-only index of nb components
     [2; nb; is_mt; k; i_1 .. i_k]    event index: nb leading batch components, flat positions *)
Definition run_getitem (c : bool * Z * Z * Z * list pyidx_e) : list Z :=
  let '(il, dim, n, t, idx) := c in
  match normalize_tuple dim idx with
  | None => [0]
  | Some (b, None) => [1; Z.of_nat (length b)]
  | Some (b, Some (ri, ci)) =>
      match getitem_event il n t ri ci with
      | None => [0]
      | Some l => 2 :: Z.of_nat (length b) :: (if result_is_mt ri ci then 1 else 0)
                    :: Z.of_nat (length l) :: l
      end
  end.

(* layout tables for (il, n, t): code_of_pos for every flat position, then tdid indices
   (n blocks of t), then the log_prob value permutation (source position in the row-major
   n x t value of the entry that meets loc[k]) *)
Definition zrange (n : Z) : list Z := map Z.of_nat (seq 0 (Z.to_nat n)).
Definition run_layout (c : bool * Z * Z) : list Z :=
  let '(il, n, t) := c in
  map (code_of_pos il n t) (zrange (n * t))
  ++ flat_map (fun i => map (fun a => tdid_index il n t i a) (zrange t)) (zrange n)
  ++ map (logprob_flatten il n t (fun i a => i * t + a)) (zrange (n * t)).

(* exhaustive families, enumerated inside Coq (the driver mirrors the order):
   case = (il, n, t, fam, lo, hi).  ints range over -len-1 .. len (one invalid value on each
   side), slice bounds over None :: lo .. hi, steps over None, 1, 2, 3.
   fam 0: int x int;  fam 1: int x slice;  fam 2: slice x int. *)
Definition zseq (lo hi : Z) : list Z := map (fun k => lo + Z.of_nat k) (seq 0 (Z.to_nat (hi - lo + 1))).
Definition obounds (lo hi : Z) : list (option Z) := None :: map Some (zseq lo hi).
Definition osteps : list (option Z) := [None; Some 1; Some 2; Some 3].
Definition all_slices (lo hi : Z) : list pyslice :=
  flat_map (fun a => flat_map (fun b => map (fun k => mk a b k) osteps) (obounds lo hi)) (obounds lo hi).
Definition all_ints (len : Z) : list Z := zseq (- len - 1) len.

Definition run_family (c : bool * Z * Z * Z * Z * Z) : list (list Z) :=
  let '(il, n, t, fam, lo, hi) := c in
  let go ri ci := run_getitem (il, 2, n, t, [EI ri; EI ci]) in
  if fam =? 0 then flat_map (fun i => map (fun a => go (IInt i) (IInt a)) (all_ints t)) (all_ints n)
  else if fam =? 1 then
    flat_map (fun i => map (fun s => go (IInt i) (ISlice s)) (all_slices lo hi)) (all_ints n)
  else
    flat_map (fun s => map (fun a => go (ISlice s) (IInt a)) (all_ints t)) (all_slices lo hi).
