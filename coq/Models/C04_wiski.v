(* C04 model, part 3: the caches of InterpolatedPredictionStrategy (KISS-GP) and their WISKI fantasy update
   (gpytorch/models/exact_prediction_strategies.py:477-520, arXiv 2103.01454).  Definitions only.
   W (N x g): interpolation weights of the N training points on the g grid points; D = diagonal noise with
   inverse Dinv; r = y - m.  The strategy keeps
       interp_inner_prod      = W^T D^-1 W      (g x g)
       interp_response_cache  = W^T D^-1 r      (g x 1)
   and get_fantasy_strategy ADDS the contribution of the m fantasy rows (W_f, D_f, r_f):
       new_wmat = interp_inner_prod.add_low_rank(W_f^T D_f^-1/2)         = inner + W_f^T D_f^-1 W_f
       new_interp_response_cache = interp_response_cache + W_f^T D_f^-1 (y_f - m_f). *)
From GPV Require Import Base.LinAlg.

Section Wiski.
Context {K : Fld}.

Definition wiski_inner (N : nat) (W Dinv : M) : M := mmul N (mT W) (mmul N Dinv W).
Definition wiski_resp (N : nat) (W Dinv r : M) : M := mmul N (mT W) (mmul N Dinv r).

Definition wiski_inner_update (m : nat) (inner Wf Dfinv : M) : M := madd inner (wiski_inner m Wf Dfinv).
Definition wiski_resp_update (m : nat) (resp Wf Dfinv rf : M) : M := madd resp (wiski_resp m Wf Dfinv rf).

(* the noise inverse of the concatenated data: block diagonal *)
Definition blkdiag (n : nat) (A D : M) : M := blk n n A mzero mzero D.

End Wiski.
