(* C06 — diag / transpose / lazy evaluation / indexing of kernels agree.  Executable definitions only.
   (i)  entrywise kernel matrices (single- and multi-output, batched) and gather-style indexing;
   (i') torch's reading of an index tuple on a dense tensor: result shape + flat source positions
        (cross-checked against torch on every case by harness/drivers/C06.py);
   (iii) Kernel.__getitem__ / expand_batch on the parameter + buffer table;
   (iv)  active_dims as a column gather.
   (ii) -- the slice division of LazyEvaluatedKernelTensor._getitem -- lives in Models/C06_lazyslice.v
   and Gen/LazySlice_gen.v. *)
From Coq Require Import ZArith List Bool String Arith Lia.
From GPV Require Import Base.PySlice Models.C11_mtmvn.
Import ListNotations.

(* ------------------------------------------------------------------ (i) entrywise kernels *)
Section Entrywise.
Context {X V : Type}.

(* a kernel matrix is entrywise: entry (i, j) depends on row i of x1 and row j of x2 only *)
Definition Kmat (k : X -> X -> V) (x1 x2 : nat -> X) : nat -> nat -> V := fun i j => k (x1 i) (x2 j).
Definition Kdiag (k : X -> X -> V) (x1 x2 : nat -> X) : nat -> V := fun i => k (x1 i) (x2 i).
Definition gatherF (r c : nat -> nat) (A : nat -> nat -> V) : nat -> nat -> V := fun i j => A (r i) (c j).
Definition transposeF (A : nat -> nat -> V) : nat -> nat -> V := fun i j => A j i.
Definition stackF (n : nat) (x x' : nat -> X) : nat -> X := fun i => if i <? n then x i else x' (i - n).
Definition blockF (n m : nat) (A B Cc D : nat -> nat -> V) : nat -> nat -> V := fun i j =>
  if i <? n then (if j <? m then A i j else B i (j - m))
  else (if j <? m then Cc (i - n) j else D (i - n) (j - m)).

(* multi-output kernel, interleaved layout (MultitaskKernel, RBFKernelGrad, LCMKernel):
   p x q outputs per pair of inputs, row = input * p + output   (Z-indexed, as PySlice is) *)
Definition MOmat (p q : Z) (k : X -> X -> Z -> Z -> V) (x1 x2 : Z -> X) : Z -> Z -> V :=
  fun r c => k (x1 (r / p)%Z) (x2 (c / q)%Z) (r mod p)%Z (c mod q)%Z.

(* batched kernel: batch element b uses parameters kb b and inputs x1 b, x2 b (after broadcasting) *)
Definition Kbatch {B : Type} (k : B -> X -> X -> V) (x1 x2 : B -> nat -> X) : B -> nat -> nat -> V :=
  fun b i j => k b (x1 b i) (x2 b j).

(* list level (what is executed / what Python holds) *)
Definition sel {T} (d : T) (pos : list nat) (l : list T) : list T := map (fun p => nth p l d) pos.
Definition Kdense (k : X -> X -> V) (X1 X2 : list X) : list (list V) := map (fun a => map (fun b => k a b) X2) X1.
Definition Kdiag_l (k : X -> X -> V) (X1 X2 : list X) : list V := map (fun ab => k (fst ab) (snd ab)) (combine X1 X2).
End Entrywise.

(* ------------------------------------------------------------------ (i') torch indexing of a dense tensor *)
Local Open Scope Z_scope.

Fixpoint strides (dims : list Z) : list Z :=
  match dims with
  | [] => []
  | _ :: r => fold_right Z.mul 1 r :: strides r
  end.
Definition numel (dims : list Z) : Z := fold_right Z.mul 1 dims.

Inductive axis := AConst (off : Z) | ASlice (offs : list Z) | ATensor (offs : list Z).
Definition is_aslice (a : axis) : bool := match a with ASlice _ => true | _ => false end.
Definition is_atensor (a : axis) : bool := match a with ATensor _ => true | _ => false end.
Definition is_aconst (a : axis) : bool := match a with AConst _ => true | _ => false end.
Definition axis_offs (a : axis) : list Z := match a with AConst o => [o] | ASlice l => l | ATensor l => l end.

Definition comp_axis (len stride : Z) (x : pyidx) : option axis :=
  match x with
  | IInt i => match norm_index len i with Some k => Some (AConst (k * stride)) | None => None end
  | ISlice _ => match idx_positions len x with Some l => Some (ASlice (map (fun p => p * stride) l)) | None => None end
  | ITensor _ => match idx_positions len x with Some l => Some (ATensor (map (fun p => p * stride) l)) | None => None end
  end.

Fixpoint map3M (f : Z -> Z -> pyidx -> option axis) (a b : list Z) (c : list pyidx) : option (list axis) :=
  match a, b, c with
  | [], [], [] => Some []
  | x :: a', y :: b', z :: c' =>
      match f x y z, map3M f a' b' c' with Some v, Some vs => Some (v :: vs) | _, _ => None end
  | _, _, _ => None
  end.

(* Ellipsis / padding: the explicit components, one per dimension *)
Definition expand_tuple (rank : nat) (idx : list pyidx_e) : option (list pyidx) :=
  let nexp := List.length (strip idx) in
  let nell := List.length (filter is_ell idx) in
  if (1 <? nell)%nat then None
  else if (rank <? nexp)%nat then None
  else match split_ell idx with
       | (pre, Some suf) => Some (strip pre ++ repeat (ISlice full_slice) (rank - nexp) ++ strip suf)
       | (pre, None) => Some (strip pre ++ repeat (ISlice full_slice) (rank - nexp))
       end.

(* broadcast List.length of the 1-D index tensors: all lengths equal, or 1 *)
Fixpoint bcast_len (lens : list nat) : option nat :=
  match lens with
  | [] => Some 1%nat
  | n :: r =>
      match bcast_len r with
      | None => None
      | Some m => if Nat.eqb n m then Some m else if Nat.eqb n 1 then Some m
                  else if Nat.eqb m 1 then Some n else None
      end
  end.
Definition stretch (L : nat) (l : list Z) : list Z :=
  match l with [x] => repeat x L | _ => l end.
Fixpoint zip_add (a b : list Z) : list Z :=
  match a, b with x :: a', y :: b' => (x + y) :: zip_add a' b' | _, _ => [] end.
Definition sum_cols (L : nat) (ls : list (list Z)) : list Z :=
  fold_right (fun l acc => zip_add (stretch L l) acc) (repeat 0 L) ls.

Fixpoint take_while {T} (f : T -> bool) (l : list T) : list T :=
  match l with x :: r => if f x then x :: take_while f r else [] | [] => [] end.
Fixpoint drop_while {T} (f : T -> bool) (l : list T) : list T :=
  match l with x :: r => if f x then drop_while f r else l | [] => [] end.

(* row-major enumeration of base + one offset per axis *)
Definition cart (base : list Z) (axes : list (list Z)) : list Z :=
  fold_left (fun acc ax => flat_map (fun b => map (fun o => b + o) ax) acc) axes base.

(* result shape and flat source positions of dense[idx]; None = torch raises *)
Definition index_model (dims : list Z) (idx : list pyidx_e) : option (list Z * list Z) :=
  match expand_tuple (List.length dims) idx with
  | None => None
  | Some comps =>
      match map3M comp_axis dims (strides dims) comps with
      | None => None
      | Some axs =>
          let const := fold_right Z.add 0 (flat_map (fun a => if is_aconst a then axis_offs a else []) axs) in
          let rest := filter (fun a => negb (is_aconst a)) axs in
          let tens := filter is_atensor rest in
          let axes :=
            match tens with
            | [] => Some (map axis_offs rest)
            | _ =>
                match bcast_len (map (fun a => List.length (axis_offs a)) tens) with
                | None => None
                | Some L =>
                    let adv := sum_cols L (map axis_offs tens) in
                    let pre := take_while is_aslice rest in
                    let r1 := drop_while is_aslice rest in
                    let post := drop_while is_atensor r1 in
                    if existsb is_atensor post
                    then Some (adv :: map axis_offs (filter is_aslice rest))
                    else Some (map axis_offs pre ++ [adv] ++ map axis_offs post)
                end
            end in
          match axes with
          | None => None
          | Some axes => Some (map (fun a => Z.of_nat (List.length a)) axes, cart [const] axes)
          end
      end
  end.

(* [0] = raises;  1 :: rank :: shape ++ npos :: positions *)
Definition run_index (c : list Z * list pyidx_e) : list Z :=
  let '(dims, idx) := c in
  match index_model dims idx with
  | None => [0]
  | Some (shape, pos) => 1 :: Z.of_nat (List.length shape) :: shape ++ Z.of_nat (List.length pos) :: pos
  end.

(* exhaustive family enumerated in Coq (the driver mirrors the order): at one position of the tuple
   every int -len-1..len, then every slice with start/stop in {None, lo..hi} and step in `steps` *)
Definition all_slices_steps (lo hi : Z) (steps : list (option Z)) : list pyslice :=
  flat_map (fun a => flat_map (fun b => map (fun k => mk a b k) steps) (obounds lo hi)) (obounds lo hi).
Definition run_index_family (c : list Z * list pyidx_e * list pyidx_e * Z * Z * Z * list (option Z)) : list (list Z) :=
  let '(dims, pre, suf, len, lo, hi, steps) := c in
  map (fun i => run_index (dims, pre ++ [EI (IInt i)] ++ suf)) (all_ints len)
  ++ map (fun s => run_index (dims, pre ++ [EI (ISlice s)] ++ suf)) (all_slices_steps lo hi steps).

Local Close Scope Z_scope.

(* ------------------------------------------------------------------ (iii) Kernel.__getitem__ / expand_batch *)
(* A kernel's own state is a table name -> tensor.  A tensor is modelled by its leading dimension:
   a list of items (the payload of one batch element for batch-shaped entries such as
   raw_lengthscale; one input-column number per item for the non-batch buffer active_dims). *)
Definition tensor1 := list (list Z).
Definition table := list (string * tensor1).

Definition lookup (nm : string) (t : table) : option tensor1 :=
  match find (fun e => String.eqb (fst e) nm) t with Some e => Some (snd e) | None => None end.

Definition index_first (pos : list nat) (t : tensor1) : tensor1 := sel [] pos t.
Definition expand_first (n : nat) (t : tensor1) : tensor1 :=
  match t with [x] => repeat x n | _ => t end.

Definition ad_name : string := "active_dims".

(* after fix 5a95c3e: every parameter / buffer is indexed, except the active_dims buffer *)
Definition kernel_getitem (pos : list nat) (t : table) : table :=
  map (fun e => if String.eqb (fst e) ad_name then e else (fst e, index_first pos (snd e))) t.
Definition kernel_expand (n : nat) (t : table) : table :=
  map (fun e => if String.eqb (fst e) ad_name then e else (fst e, expand_first n (snd e))) t.
(* snapshot 66db6d9: every buffer, active_dims included *)
Definition kernel_getitem_pinned (pos : list nat) (t : table) : table :=
  map (fun e => (fst e, index_first pos (snd e))) t.

(* ------------------------------------------------------------------ (iv) active_dims = column gather *)
Definition active_cols (t : table) : option (list nat) :=
  match lookup ad_name t with
  | None => None
  | Some items => Some (map (fun it => Z.to_nat (nth 0 it 0%Z)) items)
  end.
Section Active.
Context {S V : Type}.
(* inputs are rows of scalars; the kernel proper sees the selected columns only *)
Definition restrict (d : S) (cols : option (list nat)) (x : list S) : list S :=
  match cols with None => x | Some c => sel d c x end.
(* evaluation of batch element b of a kernel with state t: kfun reads the parameters of element b *)
Definition eval_kernel (d : S) (kfun : table -> nat -> list S -> list S -> V) (t : table) (b : nat)
           (x1 x2 : nat -> list S) : nat -> nat -> V :=
  Kmat (kfun t b) (fun i => restrict d (active_cols t) (x1 i)) (fun j => restrict d (active_cols t) (x2 j)).
End Active.

(* executable wrapper: kernel[pos] on a table; output = the table serialised *)
Definition ser_table (t : table) : list Z :=
  flat_map (fun e => Z.of_nat (List.length (snd e)) :: flat_map (fun it => Z.of_nat (List.length it) :: it) (snd e)) t.
Definition run_kernel_getitem (c : bool * list nat * list (list (list Z))) : list Z :=
  let '(pinned, pos, ents) := c in
  (* entry 0 is active_dims, the others are parameters p1, p2, ... *)
  let names := ad_name :: map (fun k => String (Ascii.ascii_of_nat (48 + k)) EmptyString) (seq 1 (List.length ents - 1)) in
  let t := combine names ents in
  ser_table (if pinned then kernel_getitem_pinned pos t else kernel_getitem pos t).
