(* C06 — batch broadcasting between x1, x2 and the kernel parameters (LazyEvaluatedKernelTensor._size,
   Kernel.__call__).  Executable definitions only.
   The batch shape of kernel(x1, x2) is torch.broadcast_shapes of the batch shapes of ALL operands
   (x1, x2, kernel parameters): shapes are right-aligned, a dimension of size 1 (or a missing leading
   dimension) stretches.  Batch element b of the result is the kernel of the operand elements that
   b is read from ([src_index]). *)
From Coq Require Import ZArith List Bool Arith Lia.
Import ListNotations.
Local Open Scope Z_scope.

Definition bdim (a b : Z) : option Z :=
  if a =? b then Some a else if a =? 1 then Some b else if b =? 1 then Some a else None.

(* on REVERSED shapes (last dimension first), so that right alignment is plain zipping *)
Fixpoint brev (a b : list Z) : option (list Z) :=
  match a, b with
  | [], _ => Some b
  | _, [] => Some a
  | x :: a', y :: b' =>
      match bdim x y, brev a' b' with Some d, Some r => Some (d :: r) | _, _ => None end
  end.
Definition bshape (a b : list Z) : option (list Z) := option_map (@rev Z) (brev (rev a) (rev b)).
(* n-ary, folded from the left as torch does: None = not broadcastable *)
Definition brevs (l : list (list Z)) : option (list Z) :=
  fold_left (fun acc s => match acc with Some r => brev r s | None => None end) l (Some []).
Definition bshapes (l : list (list Z)) : option (list Z) :=
  option_map (@rev Z) (brevs (map (@rev Z) l)).

(* operand with (reversed) shape s inside a result of (reversed) shape r: the operand element that
   result element idx (reversed multi-index) is read from: leading dimensions the operand does not
   have are dropped, a stretched dimension reads element 0 *)
Fixpoint src_rev (s idx : list Z) : list Z :=
  match s, idx with
  | d :: s', i :: idx' => (if d =? 1 then 0 else i) :: src_rev s' idx'
  | _, _ => []
  end.
(* row-major flat position of a (reversed) multi-index in a (reversed) shape *)
Fixpoint flat_rev (s idx : list Z) : Z :=
  match s, idx with
  | d :: s', i :: idx' => i + d * flat_rev s' idx'
  | _, _ => 0
  end.
(* all multi-indices (reversed) of a reversed shape, in row-major order of the UNreversed shape *)
Fixpoint all_idx_rev (s : list Z) : list (list Z) :=
  match s with
  | [] => [[]]
  | d :: s' => flat_map (fun rest => map (fun i => i :: rest) (map Z.of_nat (seq 0 (Z.to_nat d)))) (all_idx_rev s')
  end.

(* executable wrapper: shapes of the operands -> [0] (not broadcastable), or
   1 :: rank :: result shape ++ for every operand: numel(result) flat source positions *)
Definition run_bcast (shapes : list (list Z)) : list Z :=
  let rs := map (@rev Z) shapes in
  match brevs rs with
  | None => [0]
  | Some r =>
      let ids := all_idx_rev r in
      1 :: Z.of_nat (length r) :: rev r
        ++ flat_map (fun s => map (fun idx => flat_rev s (src_rev s idx)) ids) rs
  end.
