(* C01 model: the exact GP posterior as computed by ExactGP.__call__ /
   DefaultPredictionStrategy (gpytorch/models/exact_prediction_strategies.py:311-421).
   Inputs are the joint prior on [train; test] (mean muJ as a column, covariance KJ), the
   train noise S and the targets y; generic over the scalar field. Definitions only. *)
From Coq Require Import Arith List ZArith QArith Qcanon.
From GPV Require Import Base.LinAlg Base.Exec.
Import ListNotations.

Section Posterior.
Context {K : Fld}.
Local Open Scope fld_scope.

(* the four blocks of the joint covariance, split at num_train = n *)
Definition Kxx (KJ : M) : M := sub 0 0 KJ.
Definition Kxs (n : nat) (KJ : M) : M := sub 0 n KJ.     (* n x t *)
Definition Ksx (n : nat) (KJ : M) : M := sub n 0 KJ.     (* t x n *)
Definition Kss (n : nat) (KJ : M) : M := sub n n KJ.     (* t x t *)

Definition train_covar (KJ S : M) : M := madd (Kxx KJ) S.             (* Kxx + S *)

(* mean_cache = (Kxx+S)^-1 (y - mx)  (exact_prediction_strategies.py:253) *)
Definition mean_cache (n : nat) (muJ Ainv y : M) : M :=
  mmul n Ainv (msub y (sub 0 0 muJ)).

(* exact_predictive_mean: test_train_covar @ mean_cache + test_mean *)
Definition post_mean (n : nat) (KJ muJ Ainv y : M) : M :=
  madd (mmul n (Ksx n KJ) (mean_cache n muJ Ainv y)) (sub n 0 muJ).

(* exact_predictive_covar, fast_pred_var off:
   test_test - test_train @ solve(train_train, train_test) *)
Definition post_cov (n : nat) (KJ Ainv : M) : M :=
  msub (Kss n KJ) (mmul n (Ksx n KJ) (mmul n Ainv (mT (Ksx n KJ)))).

(* closed form as worded by the property: K** - K*x (Kxx+S)^-1 Kx* *)
Definition cov_closed (n : nat) (KJ Ainv : M) : M :=
  msub (Kss n KJ) (mmul n (Ksx n KJ) (mmul n Ainv (Kxs n KJ))).

(* exact_predictive_covar, fast_pred_var on: covar_cache = R with R R^T = (Kxx+S)^-1
   test_test - (test_train R)(test_train R)^T *)
Definition cov_root (n r : nat) (KJ R : M) : M :=
  let Q := mmul n (Ksx n KJ) R in msub (Kss n KJ) (mmul r Q (mT Q)).

(* skip_posterior_variances: ZeroLinearOperator *)
Definition cov_skipped : M := mzero.

(* likelihood(posterior): adds the test noise operator once *)
Definition marginal_cov (n : nat) (KJ Ainv Ss : M) : M := madd (post_cov n KJ Ainv) Ss.

(* residual covariance of f* - B y for an arbitrary linear predictor B (t x n) *)
Definition residual_cov (n : nat) (KJ S B : M) : M :=
  madd (msub (msub (Kss n KJ) (mmul n B (Kxs n KJ))) (mmul n (Ksx n KJ) (mT B)))
       (mmul n (mmul n B (train_covar KJ S)) (mT B)).
(* Cov(f* - B y, y) = K*x - B (Kxx+S) *)
Definition residual_cross (n : nat) (KJ S B : M) : M :=
  msub (Ksx n KJ) (mmul n B (train_covar KJ S)).

End Posterior.

(* ---- lazily evaluated kernels with active_dims -------------------------------------------
   Kernel.__call__ (kernels/kernel.py:508-511) restricts the inputs to the kernel's active columns
   and, when kernels are evaluated lazily, stores the ALREADY RESTRICTED inputs in a
   LazyEvaluatedKernelTensor.  evaluate_kernel (lazy/lazy_evaluated_kernel_tensor.py:352-369) later
   calls the kernel again on the stored inputs with kernel.active_dims temporarily None (the columns
   must not be selected twice) and then puts active_dims back.  The kernel OBJECT is shared by every
   lazy tensor it produced (one prediction builds the train-train and the joint tensor before either
   is evaluated; later predictions build more), so the state is (current active_dims, tensors built
   so far).  [restore] = evaluate_kernel puts active_dims back (the real code: always). *)
Section LazyKernel.
Context {K : Fld}.
Variable kf : M -> M -> M.          (* the kernel function proper, on the columns it is given *)

Definition select_cols (ad : list nat) (X : M) : M := fun i j => X i (nth j ad 0%nat).
Definition slice_active (a : option (list nat)) (X : M) : M :=
  match a with None => X | Some ad => select_cols ad X end.

(* the eager path: restrict and evaluate in one go *)
Definition eager_call (a : option (list nat)) (X1 X2 : M) : M := kf (slice_active a X1) (slice_active a X2).

Inductive kop := KBuild (X1 X2 : M) | KEval (i : nat).

(* state: active_dims the kernel object holds now; the lazy tensors (stored inputs) built so far *)
Definition lazy_build (a : option (list nat)) (X1 X2 : M) : M * M := (slice_active a X1, slice_active a X2).
Definition evaluate_kernel (restore : bool) (a : option (list nat)) (L : M * M) : option (list nat) * M :=
  let temp_active_dims := a in
  let res := eager_call None (fst L) (snd L) in                (* the call made while active_dims = None *)
  ((if restore then temp_active_dims else None), res).

Fixpoint lazy_run (restore : bool) (a : option (list nat)) (ts : list (M * M)) (ops : list kop) : list M :=
  match ops with
  | [] => []
  | KBuild X1 X2 :: r => lazy_run restore a (ts ++ [lazy_build a X1 X2]) r
  | KEval i :: r =>
      match nth_error ts i with
      | Some L => let '(a', res) := evaluate_kernel restore a L in res :: lazy_run restore a' ts r
      | None => lazy_run restore a ts r
      end
  end.

(* specification: every tensor is the eager evaluation under the active_dims the kernel was CONSTRUCTED with *)
Fixpoint eager_run (a0 : option (list nat)) (vs : list M) (ops : list kop) : list M :=
  match ops with
  | [] => []
  | KBuild X1 X2 :: r => eager_run a0 (vs ++ [eager_call a0 X1 X2]) r
  | KEval i :: r =>
      match nth_error vs i with
      | Some v => v :: eager_run a0 vs r
      | None => eager_run a0 vs r
      end
  end.
End LazyKernel.

(* ---- executable instance: rationals in, rationals out --------------------------------- *)
(* case = (n, t, KJ rows, muJ, S rows, y);  result: 0 if (Kxx+S) is singular, else
   1 :: mean (t) ++ cov (t*t) ++ cov via the root path with R := Ainv * (Kxx+S)^{1/2}... the
   root path is proved equal for ANY root, so it is not re-executed here. *)
Definition run_posterior (c : nat * nat * list (list Qc) * list Qc * list (list Qc) * list Qc)
  : list Z :=
  let '(n, t, kj, mu, s, y) := c in
  let KJ := of_list kj in let muJ := vec_of_list mu in
  let S := of_list s in let Y := vec_of_list y in
  match inv_checked n (mat n n (train_covar KJ S)) with
  | None => [0%Z]
  | Some Ainv =>
      1%Z :: ser_mat t 1 (post_mean n KJ muJ Ainv Y) ++ ser_mat t t (post_cov n KJ Ainv)
  end.
