(* C10 model, broadcasting of batch shapes (torch.broadcast_shapes / Tensor.expand as used by kl_mvn_mvn, log_prob, __add__
   and MultivariateNormal.expand): shapes and indices are handled REVERSED (last dimension first), which is how
   broadcasting aligns them.  bshape_rev s t = the broadcast shape (None: not broadcastable); bindex_rev s b = the index
   of the element of a tensor of shape s that expanding puts at position b of the broadcast result (size-1 dimensions
   are read at 0, missing leading dimensions are dropped).  Definitions only. *)
From Coq Require Import Arith List Bool ZArith.
Import ListNotations.

Fixpoint bshape_rev (s t : list nat) : option (list nat) :=
  match s, t with
  | [], _ => Some t
  | _, [] => Some s
  | a :: s', b :: t' =>
      match bshape_rev s' t' with
      | None => None
      | Some r => if Nat.eqb a b then Some (a :: r)
                  else if Nat.eqb a 1 then Some (b :: r)
                  else if Nat.eqb b 1 then Some (a :: r) else None
      end
  end.

Fixpoint bindex_rev (s b : list nat) : list nat :=
  match s, b with
  | a :: s', i :: b' => (if Nat.eqb a 1 then O else i) :: bindex_rev s' b'
  | _, _ => []
  end.

(* b is an index into a tensor of (reversed) shape s *)
Fixpoint valid_idx (s b : list nat) : Prop :=
  match s, b with
  | [], [] => True
  | a :: s', i :: b' => (i < a)%nat /\ valid_idx s' b'
  | _, _ => False
  end.

Definition bshape (s t : list nat) : option (list nat) := option_map (@rev nat) (bshape_rev (rev s) (rev t)).
Definition bindex (s b : list nat) : list nat := rev (bindex_rev (rev s) (rev b)).

(* all indices of a reversed shape, first reversed dimension fastest *)
Fixpoint all_idx (s : list nat) : list (list nat) :=
  match s with
  | [] => [[]]
  | a :: s' => flat_map (fun r => map (fun i => i :: r) (seq 0 a)) (all_idx s')
  end.

(* executable wrapper for the driver: (shape s, shape t) in the usual order ->
   0            if not broadcastable
   1 :: rank :: full shape ++ for every index b of the full shape (row-major):  index into s ++ index into t *)
Definition run_broadcast (c : list nat * list nat) : list Z :=
  let '(s, t) := c in
  match bshape s t with
  | None => [0%Z]
  | Some f =>
      let idx := map (@rev nat) (all_idx (rev f)) in
      (* all_idx enumerates with the LAST dimension fastest after reversal = row-major order *)
      1%Z :: Z.of_nat (length f) :: map Z.of_nat f
        ++ flat_map (fun b => map Z.of_nat (bindex s b) ++ map Z.of_nat (bindex t b)) idx
  end.
