(* C02 model, prior terms: WHICH registered priors enter the exact MLL / LOO objective
   (gpytorch/module.py: Module.named_priors / _extract_named_priors) and HOW a prior term of a
   module with its own batch shape is distributed over the batch elements of the objective
   (gpytorch/mlls/exact_marginal_log_likelihood.py: _add_other_terms).  Definitions only. *)
From Coq Require Import Arith List ZArith QArith Qcanon Bool.
From GPV Require Import Base.LinAlg Base.Exec Base.Expr Models.C02_mll.
Import ListNotations.

(* ---- the module tree ------------------------------------------------------------------- *)
(* a module: its identity (the python object), the priors registered on it as
   (registration name, prior object) and its children in named_children order.  A module that is
   reachable under several names simply occurs several times (same id, same content). *)
Inductive mtree : Type := MNode (id : nat) (priors : list (nat * nat)) (children : list mtree).

(* one registration: (module, registration name, prior object) *)
Definition reg : Type := (nat * nat * nat)%type.
Definition reg_mod (r : reg) : nat := fst (fst r).
Definition reg_name (r : reg) : nat := snd (fst r).
Definition reg_prior (r : reg) : nat := snd r.
Definition own_regs (id : nat) (ps : list (nat * nat)) : list reg := map (fun p => (id, fst p, snd p)) ps.
Definition mem (x : nat) (l : list nat) : bool := existsb (Nat.eqb x) l.

(* all registrations / all module occurrences, depth first, parents before children *)
Fixpoint regs (t : mtree) : list reg :=
  match t with MNode id ps ch => own_regs id ps ++ flat_map regs ch end.
Fixpoint ids (t : mtree) : list nat :=
  match t with MNode id _ ch => id :: flat_map ids ch end.

(* thread a memo through the children, left to right *)
Definition collect_list (f : mtree -> list nat -> list reg * list nat) :=
  fix go (l : list mtree) (memo : list nat) {struct l} : list reg * list nat :=
    match l with
    | [] => ([], memo)
    | c :: r => let '(o1, m1) := f c memo in let '(o2, m2) := go r m1 in (o1 ++ o2, m2)
    end.

(* the definition: every registration of every distinct module counts once -- the memo holds the
   MODULES already visited (like named_parameters / named_constraints / named_added_loss_terms),
   names and prior objects play no role *)
Fixpoint collect (t : mtree) (memo : list nat) {struct t} : list reg * list nat :=
  match t with
  | MNode id ps ch =>
      if mem id memo then ([], memo)
      else let '(oc, m') := collect_list collect ch (id :: memo) in (own_regs id ps ++ oc, m')
  end.
Definition named_priors (t : mtree) : list reg := fst (collect t []).

(* the de-duplication rule of /repo after fix 1d4b0ae: the memo holds the PRIOR OBJECTS already
   yielded (kept for the refutation in Props/C02.v: a prior object shared by two modules) *)
Fixpoint own_by_prior (id : nat) (ps : list (nat * nat)) (memo : list nat) : list reg * list nat :=
  match ps with
  | [] => ([], memo)
  | p :: r => if mem (snd p) memo then own_by_prior id r memo
              else let '(o, m) := own_by_prior id r (snd p :: memo) in ((id, fst p, snd p) :: o, m)
  end.
Fixpoint collect_by_prior (t : mtree) (memo : list nat) {struct t} : list reg * list nat :=
  match t with
  | MNode id ps ch =>
      let '(o0, m0) := own_by_prior id ps memo in
      let '(oc, m') := collect_list collect_by_prior ch m0 in (o0 ++ oc, m')
  end.

(* ---- added-loss terms ------------------------------------------------------------------ *)
(* Module.named_added_loss_terms (_extract_named_added_loss_terms): the same traversal, the [priors] field of a node
   now lists the node's added-loss registrations (registration name, TERM OBJECT); the memo holds the term objects
   yielded so far and is threaded through the WHOLE traversal -- that is [collect_by_prior].  The objective subtracts
   (ELBO / PLL) or adds (exact MLL) the value of every yielded term. *)
Definition named_added (t : mtree) : list reg := fst (collect_by_prior t []).
(* all term objects occurring anywhere in the tree *)
Definition objs (t : mtree) : list nat := map reg_prior (regs t).

(* the defective traversal: every child subtree starts with a fresh memo (the memo is not handed down) *)
Fixpoint collect_added_fresh (t : mtree) : list reg :=
  match t with
  | MNode id ps ch => fst (own_by_prior id ps []) ++ flat_map collect_added_fresh ch
  end.

(* ---- batch slots ---------------------------------------------------------------------- *)
Section Slot.
Context {K : Fld}.
Local Open Scope fld_scope.

Definition prodn (l : list nat) : nat := fold_right Nat.mul 1%nat l.
Definition lastn {A : Type} (k : nat) (l : list A) : list A := skipn (length l - k) l.
(* row-major offset of a multi-index into a shape; a dimension of size 1 is addressed by 0 (broadcast) *)
Fixpoint offset (P idx : list nat) (acc : nat) : nat :=
  match P, idx with
  | s :: P', i :: idx' => offset P' idx' (acc * s + (if Nat.eqb s 1 then 0 else i))%nat
  | _, _ => acc
  end.
(* the module's batch shape P is aligned with the RIGHT end of the objective's batch shape: element
   idx of the objective is governed by the parameter block idx[-|P|:] *)
Definition slot_offset (P idx : list nat) : nat := offset P (lastn (length P) idx) 0.
(* the log prior term of a parameter of shape P ++ (tail entries), entries row-major in vals: batch
   element idx receives the sum of the tail entries of its block *)
Definition block (tail k : nat) (vals : list car) : list car := firstn tail (skipn (k * tail) vals).
Definition slot_sum (P : list nat) (tail : nat) (vals : list car) (idx : list nat) : car :=
  csum (block tail (slot_offset P idx) vals).

(* all multi-indices of a shape, row-major *)
Fixpoint all_idx (F : list nat) : list (list nat) :=
  match F with
  | [] => [[]]
  | s :: F' => flat_map (fun i => map (cons i) (all_idx F')) (seq 0 s)
  end.

End Slot.

(* ---- executable instance --------------------------------------------------------------- *)
Local Existing Instance QcF | 0.

(* a batched prior term: (module batch shape P, entries per batch element, per-entry log densities) *)
Definition bprior : Type := (list nat * nat * list Qc)%type.
Definition slot_of (idx : list nat) (b : bprior) : Qc :=
  @slot_sum QcF (fst (fst b)) (snd (fst b)) (snd b) idx.

(* an MLL / LOO case whose prior values are assembled by the model for batch element idx *)
Definition mll_with_slots (c : mll_case) (bp : list bprior) (idx : list nat) : mll_case :=
  let '(n, k, mu, s, y, priors, added, ndata) := c in
  (n, k, mu, s, y, priors ++ map (slot_of idx) bp, added, ndata).
Definition run_mll_b (c : mll_case) (bp : list bprior) (idx : list nat) : list Z :=
  run_mll (mll_with_slots c bp idx).
Definition run_loo_b (c : nat * list (list Qc) * list Qc * list (list Qc) * list Qc * list Qc * list Qc)
           (bp : list bprior) (idx : list nat) : list Z :=
  let '(n, k, mu, s, y, priors, added) := c in
  run_loo (n, k, mu, s, y, priors ++ map (slot_of idx) bp, added).

(* the values that enter an objective: one per yielded term object (values given per object) *)
Fixpoint lookup_q (k : nat) (vals : list (nat * Qc)) : Qc :=
  match vals with
  | [] => 0%Qc
  | (k', v) :: r => if Nat.eqb k k' then v else lookup_q k r
  end.
Definition added_values (t : mtree) (vals : list (nat * Qc)) : list Qc :=
  map (fun r => lookup_q (reg_prior r) vals) (named_added t).
(* ... and of the priors: one per yielded registration, values given per (module, name) *)
Fixpoint lookup_q2 (k : nat * nat) (vals : list (nat * nat * Qc)) : Qc :=
  match vals with
  | [] => 0%Qc
  | (a, b, v) :: r => if Nat.eqb (fst k) a && Nat.eqb (snd k) b then v else lookup_q2 k r
  end.
Definition prior_values (t : mtree) (vals : list (nat * nat * Qc)) : list Qc :=
  map (fun r => lookup_q2 (reg_mod r, reg_name r) vals) (named_priors t).
Definition run_named_added (t : mtree) : list Z :=
  flat_map (fun r => [Z.of_nat (reg_mod r); Z.of_nat (reg_name r); Z.of_nat (reg_prior r)]) (named_added t).

(* named_priors of a module tree: the registrations as (module, name, prior object) triples *)
Definition run_named (t : mtree) : list Z :=
  flat_map (fun r => [Z.of_nat (reg_mod r); Z.of_nat (reg_name r); Z.of_nat (reg_prior r)]) (named_priors t).
