(* C20 — executable wrapper used by the correspondence driver: run a program on the regenerated
   class table from the fresh-interpreter store and print what the listed queries
   (Setting.on() / .off() / .value(..) / .num_probe_vectors()) return at every PObserve and after
   the program, as a list of integers.  No proofs. *)
From Coq Require Import List String ZArith Bool Ascii.
From GPV Require Import Models.C20_ir Models.C20_check Gen.Settings_gen.
Import ListNotations.
Open Scope Z_scope.

Fixpoint ser_string (s : string) : list Z :=
  match s with EmptyString => [] | String a r => Z.of_nat (nat_of_ascii a) :: ser_string r end.
Definition ser_str (tag : Z) (s : string) : list Z := tag :: Z.of_nat (String.length s) :: ser_string s.
Definition ser_const (k : const) : list Z :=
  match k with
  | KNone => [0]
  | KBool b => [1; if b then 1 else 0]
  | KNum n d => [2; n; Zpos d]
  | KStr s => ser_str 3 s
  | KDtype s => ser_str 4 s
  | KCls s => ser_str 5 s
  | KOpaque s => ser_str 6 s
  end.
Definition ser_val (v : sval) : list Z := match v with VK k => ser_const k | _ => [7] end.

Definition query := (string * string * list const)%type.
Definition snapshot (qs : list query) (G : store) : list Z :=
  flat_map (fun q => match q with (c, m, args) => ser_val (observe gen_table G c m args) end) qs.
Definition run_case (case : list query * prog) : list Z :=
  let '(qs, p) := case in
  let '(G, o, tr) := run gen_table p (init_store gen_table) in
  (match o with ONormal => 0 | ORaised => 1 | OStuck => 2 end)
    :: Z.of_nat (List.length tr) :: flat_map (snapshot qs) (tr ++ [G]).

(* names of classes whose restore obligation fails on the current sources (for the driver's search) *)
Definition failing_now (_ : unit) : list Z :=
  flat_map (fun s => ser_str 3 s) (failing_classes gen_table doc_composites doc_caches).
