(* C15 model: the variational objectives of gpytorch/mlls/_approximate_mll.py
   (VariationalELBO, PredictiveLogLikelihood) for a Gaussian likelihood
   (gpytorch/likelihoods/gaussian_likelihood.py:41-75), assembled from the q(f) marginals and the
   KL(q(u)||p(u)) of the C14 model; the exact log marginal likelihood of the same prior/noise
   (C02 model), the collapsed (Titsias) bound and the optimal q(u).  Linear algebra generic over
   the scalar field, logs in Expr.  Definitions only. *)
From Coq Require Import Arith List ZArith QArith Qcanon Bool.
From GPV Require Import Base.LinAlg Base.Exec Base.Expr Models.C14_variational Models.C02_mll.
Import ListNotations.

Section Elbo.
Context {K : Fld}.
Local Open Scope fld_scope.

(* ---- objective assembly (_ApproximateMarginalLogLikelihood.forward, lines 56-75) -------- *)
(* log_likelihood = term / num_batch;  kl / (num_data / beta);  each prior / num_data;
   added losses subtracted as they are *)
Definition elbo_value (ell_sum nbatch kl beta ndata logprior added : car) : car :=
  ell_sum / nbatch - kl / (ndata / beta) + logprior / ndata - added.
(* the definition worded by the property *)
Definition elbo_spec (ell_sum nbatch kl beta ndata logprior added : car) : car :=
  (1 / nbatch) * ell_sum - (beta / ndata) * kl + (1 / ndata) * logprior - added.

(* ---- Gaussian likelihood terms, rational parts ----------------------------------------- *)
(* expected_log_prob: -1/2 ( ((y - mu)^2 + v)/s2 + log s2 + log 2pi ) *)
Definition ell_rat (y mu v s2 : car) : car := ((y - mu) * (y - mu) + v) / s2.
(* log N(y; mu, s2) = -1/2 ( (y-mu)^2/s2 + log s2 + log 2pi ): rational part *)
Definition logn_rat (y mu s2 : car) : car := (y - mu) * (y - mu) / s2.

(* moment functional of N(m, v) on polynomials (coefficient list, lowest degree first):
   M_0 = 1, M_1 = m, M_{k+2} = m M_{k+1} + (k+1) v M_k *)
Fixpoint gmoments (m v : car) (k : nat) : car * car :=   (* (M_k, M_{k+1}) *)
  match k with
  | O => (1, m)
  | S k' => let '(a, b) := gmoments m v k' in (b, m * b + C02_mll.of_nat (S k') * v * a)
  end.
Definition gmoment (m v : car) (k : nat) : car := fst (gmoments m v k).
Fixpoint expect_poly_from (m v : car) (k : nat) (p : list car) : car :=
  match p with
  | [] => 0
  | c :: r => c * gmoment m v k + expect_poly_from m v (S k) r
  end.
Definition expect_poly (m v : car) (p : list car) : car := expect_poly_from m v O p.
(* f |-> l - (y - f)^2 / (2 s2) as a polynomial in f  (l = the log-normaliser, a constant) *)
Definition gauss_loglik_poly (l y s2 : car) : list car :=
  [l - y * y / ((1 + 1) * s2); y / s2; - (1 / ((1 + 1) * s2))].

(* expectation over uniformly drawn index tuples of length B from {0..N-1} *)
Fixpoint avg_tuples (N B : nat) (g : list nat -> car) : car :=
  match B with
  | O => g []
  | S B' => sum N (fun i => avg_tuples N B' (fun t => g (i :: t))) / C02_mll.of_nat N
  end.

(* ---- optimal q(u) and the collapsed bound (noise D = diag, Di its inverse) ------------- *)
(* Sigma = Kzz + Kzx D^-1 Kxz  (m x m);  Kzx is m x n *)
Definition opt_Sigma (n : nat) (Kzz Kzx Di : M) : M :=
  madd Kzz (mmul n Kzx (mmul n Di (mT Kzx))).
(* S* = Kzz Sigma^-1 Kzz ;  m* = mz + Kzz Sigma^-1 Kzx D^-1 (y - mx) *)
Definition opt_S (m : nat) (Kzz Si : M) : M := mmul m Kzz (mmul m Si Kzz).
Definition opt_mean (m n : nat) (Kzz Kzx Di Si mz r : M) : M :=
  madd mz (mmul m Kzz (mmul m Si (mmul n Kzx (mmul n Di r)))).
(* posterior precision of u: Kzz^-1 + Kzz^-1 Kzx D^-1 Kxz Kzz^-1 *)
Definition post_precision (m n : nat) (Kinv Kzx Di : M) : M :=
  madd Kinv (mmul m Kinv (mmul m (mmul n Kzx (mmul n Di (mT Kzx))) Kinv)).
(* natural parameters (theta, Theta) of N(mean, P^-1) for prior mean zero *)
Definition opt_theta (m n : nat) (Kinv Kzx Di r : M) : M := mmul m Kinv (mmul n Kzx (mmul n Di r)).
(* Nystrom term Q = Kxz Kzz^-1 Kzx *)
Definition nystrom (m : nat) (Kzx Kinv : M) : M := mmul m (mT Kzx) (mmul m Kinv Kzx).

(* m-dependent rational part of the full-batch ELBO (beta = 1), unwhitened:
   G(mq) = -1/2 (r - C d)^T D^-1 (r - C d) - 1/2 d^T Kinv d,  d = mq - mz, C = Kxz Kinv *)
Definition elbo_mean_part (m n : nat) (Kinv Kzx Di mz r mq : M) : car :=
  let d := msub mq mz in
  let e := msub r (mmul m (mT Kzx) (mmul m Kinv d)) in
  - (C02_mll.quadf n Di e + C02_mll.quadf m Kinv d) / (1 + 1).

End Elbo.

(* ---- executable instance ------------------------------------------------------------- *)
Local Existing Instance QcF | 0.

Definition qn (n : nat) : Qc := @C02_mll.of_nat QcF n.
Definition log2pi : expr := ELog C02_mll.two_pi.
Definition mhalf : Qc := qc (-1) 2.

(* sum_i -1/2 ( rat_i + log s_i + log 2pi ) *)
Definition gauss_sum (rats logs : list Qc) : expr :=
  fold_right (fun p acc => EAdd (EMul (EConst mhalf)
                                   (EAdd (EAdd (EConst (fst p)) (ELog (EConst (snd p)))) log2pi)) acc)
             (EConst 0%Qc) (combine rats logs).

Definition elbo_expr (ell : expr) (nbatch : Qc) (kl : expr) (beta ndata : Qc) (priors added : list Qc) : expr :=
  ESub (EAdd (ESub (EDiv ell (EConst nbatch)) (EDiv kl (EConst (ndata / beta)%Qc)))
             (EDiv (EConst (C02_mll.qsum priors)) (EConst ndata)))
       (EConst (C02_mll.qsum added)).

(* q(f) marginals (mean, variance) at the n batch points and the KL, through the C14 model.
   strat 0: unwhitened (Kzz+jzz in the predictive and in the prior of the KL); 1: whitened with the
   harness-supplied root L of Kzz+jzz (Kxx+jxx on the diagonal) *)
Definition qf_and_kl (strat m n : nat) (KJ muJ : @M QcF) (jzz jxx : Qc) (kind : nat)
           (p1 P2 L : @M QcF) : option (@M QcF * @M QcF * expr * (@M QcF * @M QcF)) :=
  let Kzz := mat m m (add_jitter jzz (sub 0 0 KJ)) in
  let Kzx := mat m n (sub 0 m KJ) in
  let Kxx := mat n n (add_jitter jxx (sub m m KJ)) in
  let mz := mat m 1 (sub 0 0 muJ) in let mx := mat n 1 (sub m 0 muJ) in
  match qu_moments kind m p1 P2 with
  | None => None
  | Some (has_cov, mq, Sq) =>
    match strat with
    | 0%nat =>
      match inv_checked m Kzz with
      | Some Kinv =>
          Some (mat n 1 (unwh_mean_staged m Kzx Kinv mx mz mq),
                mat n n (unwh_cov_staged m n Kzz Kzx Kxx Kinv Sq),
                kl_unwh_expr m has_cov Kzz Kinv Sq mq mz, (mq, Sq))
      | None => None
      end
    | _ =>
      match wh_core m n KJ muJ jxx L mq Sq with
      | Some (pm, pc) => Some (pm, pc, kl_wh_expr m has_cov Sq mq, (mq, Sq))
      | None => None
      end
    end
  end.

Definition elbo_case : Type :=
  (nat * (nat * nat) * list (list Qc) * list Qc * (Qc * Qc) * nat * list Qc * list (list Qc)
   * list (list Qc) * list Qc * list Qc * (Qc * Qc) * list Qc * list Qc)%type.

(* case = (strat, (m, n), KJ on [Z; X_batch], muJ, (jzz, jxx), kind, p1, P2, L, y, noise (n),
           (beta, num_data), priors, added)
   result: [0] on failure, else
   1 :: q(f) mean (n) ++ q(f) variance (n) ++ ser(KL) ++ ser(VariationalELBO) ++ ser(PredictiveLogLikelihood) *)
Definition run_elbo (c : elbo_case) : list Z :=
  let '(strat, (m, n), kj, mu, (jzz, jxx), kind, p1, p2, l, y, s2, (beta, ndata), priors, added) := c in
  match qf_and_kl strat m n (of_list kj) (vec_of_list mu) jzz jxx kind (vec_of_list p1) (of_list p2) (of_list l) with
  | None => [0%Z]
  | Some (pm, pc, kl, _) =>
      let idx := seq 0 n in
      let mus := map (fun i => pm i O) idx in
      let vs := map (fun i => pc i i) idx in
      let rat_e := map (fun i => ell_rat (nth i y 0%Qc) (pm i O) (pc i i) (nth i s2 1%Qc)) idx in
      let rat_p := map (fun i => logn_rat (nth i y 0%Qc) (pm i O) (pc i i + nth i s2 1%Qc)%Qc) idx in
      let tot := map (fun i => (pc i i + nth i s2 1%Qc)%Qc) idx in
      let ell := gauss_sum rat_e (map (fun i => nth i s2 1%Qc) idx) in
      let pll := gauss_sum rat_p tot in
      1%Z :: flat_map ser_qc mus ++ flat_map ser_qc vs ++ ser_expr kl
          ++ ser_expr (elbo_expr ell (qn n) kl beta ndata priors added)
          ++ ser_expr (elbo_expr pll (qn n) kl beta ndata priors added)
  end.

(* the same case with further added-loss values (those selected by the traversal model of
   Module.named_added_loss_terms, Models/C02_priors.v added_values) / prior values *)
Definition elbo_with_added (c : elbo_case) (extra_priors extra_added : list Qc) : elbo_case :=
  let '(strat, mn, kj, mu, jj, kind, p1, p2, l, y, s2, bn, priors, added) := c in
  (strat, mn, kj, mu, jj, kind, p1, p2, l, y, s2, bn, priors ++ extra_priors, added ++ extra_added).

(* full batch, homoskedastic or heteroskedastic diagonal noise, unwhitened parametrisation of
   the prior (Kzz+jzz, Kxx+jxx): everything the bound statements compare.
   case = (m, n, KJ, muJ, (jzz, jxx), kind, p1, P2 (q(u) given through an UNWHITENED
           distribution), y, noise (n))
   result: [0] on failure, else
   1 :: ser(N*ELBO(q))            full batch, beta = 1, no priors / added terms
     ++ ser(log N(y; mx, Kxx + jxx I + D))          exact log marginal likelihood
     ++ ser(collapsed bound)      log N(y; mx, Q + D) - 1/2 tr(D^-1 (Kxx + jxx I - Q))
     ++ ser(N*ELBO(q* ))          q* = optimal q(u) computed by the model
     ++ m* (m) ++ S* (m*m) *)
Definition full_elbo (m n : nat) (Kzz Kzx Kxx Kinv mz mx : @M QcF) (y s2 : list Qc)
           (has_cov : bool) (mq Sq : @M QcF) : expr :=
  let pm := mat n 1 (unwh_mean_staged m Kzx Kinv mx mz mq) in
  let pc := mat n n (unwh_cov_staged m n Kzz Kzx Kxx Kinv Sq) in
  let idx := seq 0 n in
  let rat_e := map (fun i => ell_rat (nth i y 0%Qc) (pm i O) (pc i i) (nth i s2 1%Qc)) idx in
  ESub (gauss_sum rat_e (map (fun i => nth i s2 1%Qc) idx)) (kl_unwh_expr m has_cov Kzz Kinv Sq mq mz).

Definition run_bound (c : nat * nat * list (list Qc) * list Qc * (Qc * Qc) * nat * list Qc
                          * list (list Qc) * list Qc * list Qc) : list Z :=
  let '(m, n, kj, mu, (jzz, jxx), kind, p1, p2, y, s2) := c in
  let KJ := of_list kj in let muJ := vec_of_list mu in
  let Kzz := mat m m (add_jitter jzz (sub 0 0 KJ)) in
  let Kzx := mat m n (sub 0 m KJ) in
  let Kxx := mat n n (add_jitter jxx (sub m m KJ)) in
  let mz := mat m 1 (sub 0 0 muJ) in let mx := mat n 1 (sub m 0 muJ) in
  let D : @M QcF := mdiag (fun i => nth i s2 1%Qc) in
  let Di : @M QcF := mat n n (mdiag (fun i => (1 / nth i s2 1%Qc)%Qc)) in
  let Y := vec_of_list y in
  match qu_moments kind m (vec_of_list p1) (of_list p2), inv_checked m Kzz with
  | Some (has_cov, mq, Sq), Some Kinv =>
    let Sig := mat m m (opt_Sigma n Kzz Kzx Di) in
    let Q := mat n n (nystrom m Kzx Kinv) in
    match inv_checked m Sig, inv_checked n (mat n n (madd Kxx D)), inv_checked n (mat n n (madd Q D)) with
    | Some Si, Some Ai, Some Bi =>
        let r := mat n 1 (msub Y mx) in
        let Sopt := mat m m (opt_S m Kzz Si) in
        let mopt := mat m 1 (opt_mean m n Kzz Kzx Di Si mz r) in
        let exact := C02_mll.logN_expr n (C02_mll.quadf n Ai r) (det n (mat n n (madd Kxx D))) in
        let tr := @sum QcF n (fun i => ((Kxx i i - Q i i) / nth i s2 1%Qc)%Qc) in
        let coll := EAdd (C02_mll.logN_expr n (C02_mll.quadf n Bi r) (det n (mat n n (madd Q D))))
                         (EConst (mhalf * tr)%Qc) in
        1%Z :: ser_expr (full_elbo m n Kzz Kzx Kxx Kinv mz mx y s2 has_cov mq Sq)
            ++ ser_expr exact ++ ser_expr coll
            ++ ser_expr (full_elbo m n Kzz Kzx Kxx Kinv mz mx y s2 true mopt Sopt)
            ++ ser_mat m 1 mopt ++ ser_mat m m Sopt
    | _, _, _ => [0%Z]
    end
  | _, _ => [0%Z]
  end.

(* ---- multi-output objectives ---------------------------------------------------------- *)
(* IndependentMultitaskVariationalStrategy / LMCVariationalStrategy + MultitaskGaussianLikelihood
   (gpytorch/variational/independent_multitask_variational_strategy.py, lmc_variational_strategy.py):
   L latent sparse GPs (each a q(f_l) and a KL_l through the C14 model), a mixing matrix A (L x T;
   the identity for independent tasks): task t at point i has the marginal
   N(sum_l A_lt mean_l(i), sum_l A_lt^2 var_l(i) + jm) (jm: the diagonal jitter LMCVariationalStrategy adds to the
   mixed covariance, 0 for independent tasks); the likelihood factorises over points and tasks
   with the noise variances s2 (B x T); KL = sum_l KL_l.  The minibatch size of the objective is the
   number of POINTS B (the first event dimension of q(f)), whatever the number of tasks. *)
Section MultiOutput.
Context {K : Fld}.
Local Open Scope fld_scope.

(* the likelihood term of point i: the sum over the T tasks *)
Definition mt_point_ell (T : nat) (e : nat -> nat -> car) (i : nat) : car := sum T (fun t => e i t).
(* objective of a minibatch of B points with T tasks *)
Definition mt_elbo_value (B T : nat) (e : nat -> nat -> car) (kl beta ndata logprior added : car) : car :=
  elbo_value (sum B (mt_point_ell T e)) (C02_mll.of_nat B) kl beta ndata logprior added.
(* the variant that takes the minibatch size from the LAST dimension of the targets (the number of tasks) *)
Definition mt_elbo_value_by_tasks (B T : nat) (e : nat -> nat -> car) (kl beta ndata logprior added : car) : car :=
  elbo_value (sum B (mt_point_ell T e)) (C02_mll.of_nat T) kl beta ndata logprior added.
(* LMC marginals of task t at point i from the latent marginals *)
Definition lmc_mean (L : nat) (A : M) (mu : nat -> nat -> car) (i t : nat) : car := sum L (fun l => A l t * mu l i).
Definition lmc_var (L : nat) (A : M) (jm : car) (v : nat -> nat -> car) (i t : nat) : car :=
  sum L (fun l => A l t * A l t * v l i) + jm.

End MultiOutput.

Local Existing Instance QcF | 0.

(* case = (latents (elbo cases: their y / noise / beta / priors fields are not used), (A (L rows of T), jm),
           y (B rows of T), noise variances (B rows of T), (beta, num_data), priors, added)
   result: [0] on failure, else
   1 :: task means (B*T, row-major) ++ task variances (B*T) ++ ser(KL) ++ ser(VariationalELBO) ++ ser(PredictiveLogLikelihood) *)
Definition mt_case : Type :=
  (list elbo_case * (list (list Qc) * Qc) * list (list Qc) * list (list Qc) * (Qc * Qc) * list Qc * list Qc)%type.

Definition latent_qf (c : elbo_case) : option (list Qc * list Qc * expr) :=
  let '(strat, (m, n), kj, mu, (jzz, jxx), kind, p1, p2, l, _, _, _, _, _) := c in
  match qf_and_kl strat m n (of_list kj) (vec_of_list mu) jzz jxx kind (vec_of_list p1) (of_list p2) (of_list l) with
  | None => None
  | Some (pm, pc, kl, _) => Some (map (fun i => pm i O) (seq 0 n), map (fun i => pc i i) (seq 0 n), kl)
  end.

Fixpoint all_some {A : Type} (l : list (option A)) : option (list A) :=
  match l with
  | [] => Some []
  | None :: _ => None
  | Some a :: r => match all_some r with Some r' => Some (a :: r') | None => None end
  end.

Definition run_mt_elbo (c : mt_case) : list Z :=
  let '(lats, (A, jm), y, s2, (beta, ndata), priors, added) := c in
  match all_some (map latent_qf lats) with
  | None => [0%Z]
  | Some qs =>
      let B := length y in
      let T := length (hd [] y) in
      let qa := combine qs A in
      let mean (i t : nat) : Qc :=
        C02_mll.qsum (map (fun qa0 : (list Qc * list Qc * expr) * list Qc =>
                             (nth t (snd qa0) 0 * nth i (fst (fst (fst qa0))) 0)%Qc) qa) in
      let var (i t : nat) : Qc :=
        C02_mll.qsum (map (fun qa0 : (list Qc * list Qc * expr) * list Qc =>
                             (nth t (snd qa0) 0 * nth t (snd qa0) 0 * nth i (snd (fst (fst qa0))) 0)%Qc) qa) + jm in
      let pairs := flat_map (fun i => map (fun t => (i, t)) (seq 0 T)) (seq 0 B) in
      let yv (p : nat * nat) : Qc := nth (snd p) (nth (fst p) y []) 0%Qc in
      let sv (p : nat * nat) : Qc := nth (snd p) (nth (fst p) s2 []) 1%Qc in
      let rat_e := map (fun p => ell_rat (yv p) (mean (fst p) (snd p)) (var (fst p) (snd p)) (sv p)) pairs in
      let rat_p := map (fun p => logn_rat (yv p) (mean (fst p) (snd p)) (var (fst p) (snd p) + sv p)%Qc) pairs in
      let tot := map (fun p => (var (fst p) (snd p) + sv p)%Qc) pairs in
      let ell := gauss_sum rat_e (map sv pairs) in
      let pll := gauss_sum rat_p tot in
      let kl := fold_right (fun q acc => EAdd (snd q) acc) (EConst 0%Qc) qs in
      1%Z :: flat_map (fun p => ser_qc (mean (fst p) (snd p))) pairs
          ++ flat_map (fun p => ser_qc (var (fst p) (snd p))) pairs
          ++ ser_expr kl
          ++ ser_expr (elbo_expr ell (qn B) kl beta ndata priors added)
          ++ ser_expr (elbo_expr pll (qn B) kl beta ndata priors added)
  end.
