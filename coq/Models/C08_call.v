(* C08 model, exact GP call: training inputs of batch shape str and test inputs of batch shape ste are
   concatenated along the point dimension (gpytorch/models/exact_gp.py, ExactGP.__call__, posterior
   mode).  torch.cat needs EQUAL batch shapes, so both are expanded to their broadcast shape first
   whenever the shapes differ.  Three operands: hyperparameters sp, training data str, test inputs
   ste.  Definitions only. *)
From Coq Require Import Arith List Bool.
From GPV Require Import Models.C08_shape.
Import ListNotations.

Definition shape_eqb (a b : shape) : bool := if list_eq_dec Nat.eq_dec a b then true else false.

(* the batch shapes of the two tensors handed to torch.cat, as coded: expand iff the shapes differ *)
Definition cat_operands (str ste : shape) : option (shape * shape) :=
  if shape_eqb str ste then Some (str, ste)
  else match broadcast_shapes str ste with
       | Some t => Some (t, t)
       | None => None
       end.
(* torch.cat(dim=-2) succeeds iff the batch shapes agree *)
Definition cat_ok (ab : shape * shape) : bool := shape_eqb (fst ab) (snd ab).

(* NOT the code (a reading the property excludes): expand only when the NUMBER of batch dimensions
   differs *)
Definition cat_operands_rank_test (str ste : shape) : option (shape * shape) :=
  if Nat.eqb (length str) (length ste) then Some (str, ste)
  else match broadcast_shapes str ste with
       | Some t => Some (t, t)
       | None => None
       end.

(* broadcast of three operands, right-nested as the code does it: the data first, then the
   hyperparameters *)
Definition broadcast3 (sp str ste : shape) : option shape :=
  match broadcast_shapes str ste with
  | Some t1 => broadcast_shapes sp t1
  | None => None
  end.

(* the batched exact GP posterior: element b is the operation on the three slices *)
Section Batched3.
Context {P D1 D2 O : Type}.
Definition batched3 (sp str ste : shape) (op : P -> D1 -> D2 -> O)
  (param : index -> P) (train : index -> D1) (test : index -> D2) : index -> O :=
  fun b => op (param (bproj sp b)) (train (bproj str b)) (test (bproj ste b)).
(* the same, computed in two stages: the data are combined on their broadcast shape t1 first *)
Definition batched3_staged (sp str ste t1 : shape) (op : P -> D1 -> D2 -> O)
  (param : index -> P) (train : index -> D1) (test : index -> D2) : index -> O :=
  batched sp t1 (fun p d => op p (fst d) (snd d)) param
          (fun d => (train (bproj str d), test (bproj ste d))).
End Batched3.
