(* C20 — the per-class checker and the hand-written "documentation" tables.
   [class_ok T comp c] symbolically runs constructor / __enter__ / __exit__ of class c of table T,
   answering every question the code asks about its inputs BOTH ways ([explore]), and checks on
   every path the restore obligation:
     - a failing constructor / __enter__ has written nothing -- whatever makes it fail: an explicit
       `raise`, a missing attribute, a wrong call, or a `warnings.warn(..)` that the warning filter in
       force turns into an exception (SWarn: the question "does this warning raise" is answered both
       ways like every other question; Python runs no __exit__ when the with-header raises);
     - __enter__ and __exit__ only write own slots of c or of its documented composites, all of
       which are leaf classes (nobody inherits from them);
     - __exit__ does not raise, does not swallow exceptions, and its newest write to every slot
       touched by __enter__ or __exit__ is exactly the value that slot showed when the block was
       entered ([VSym (XCell false k a)]); the only exemption are the slots listed in [doc_caches]
       (deterministic_probes.probe_vectors: a cache of random vectors that the class documents as
       being dropped whenever the flag is set; it is not a setting and has no query method).
   Soundness of the checker (for ALL stores and arguments) is Proofs/C20_scoped.v.  No proofs here. *)
From Coq Require Import List String ZArith Bool.
From GPV Require Import Models.C20_ir.
Import ListNotations.
Open Scope string_scope.

Fixpoint explore {A} (n : nat) (f : list fact -> res A) (chk : list fact -> res A -> bool) (fs : list fact) : bool :=
  match f fs with
  | Need (x, p) => match n with
                   | O => false
                   | S n' => explore n' f chk ((x, p, true) :: fs) && explore n' f chk ((x, p, false) :: fs)
                   end
  | r => chk fs r
  end.

Section Check.
Variable T : table.
Variable comp : string -> list string.       (* documented composites: classes a block of c may also set *)
Variable cache : string -> string -> bool.   (* documented caches: slots that are reset, not restored *)

Definition leaf (k : string) : bool :=
  forallb (fun e => String.eqb (c_name e) k || negb (mem_str k (chain T (c_name e)))) T.
Definition allowed (c : string) : list string := c :: comp c.
Definition footprint_ok (c : string) (W : writes) : bool :=
  forallb (fun w => match w with (k, _, _) => mem_str k (allowed c) && leaf k end) W.
Definition is_entry_value (k a : string) (v : option sval) : bool :=
  match v with
  | Some (VSym (XCell false k' a')) => String.eqb k k' && String.eqb a a'
  | _ => false
  end.
Definition restores (WA WB : writes) : bool :=
  forallb (fun w => match w with (k, a, _) => cache k a || is_entry_value k a (find_w WB k a) end) (WA ++ WB).
Definition isnil {A} (l : list A) : bool := match l with [] => true | _ => false end.

Definition chkB (c : string) (WA : writes) (_ : list fact) (r : res blockB) : bool :=
  match r with
  | Ok (BExit sup WB) => negb sup && footprint_ok c WB && restores WA WB
  | _ => false
  end.
Definition chkA (c : string) (fs : list fact) (r : res blockA) : bool :=
  match r with
  | Ok (ACtorRaise W) => isnil W
  | Ok (AEnterRaise W) => isnil W
  | Ok (AEntered o WA) => footprint_ok c WA && explore QFUEL (fun fs' => symB T fs' c o) (chkB c WA) fs
  | _ => false
  end.
Definition class_ok (c : string) : bool := explore QFUEL (fun fs => symA T fs c) (chkA c) [].

(* the pseudo-class of the warning filter is not a class of the table, nor an ancestor of one *)
Definition warn_free : bool := forallb (fun e => negb (mem_str WARN (chain T (c_name e)))) T.

(* programs all of whose with-blocks use checked classes *)
Fixpoint prog_ok (p : prog) : bool :=
  match p with
  | PSeq a b => prog_ok a && prog_ok b
  | PWith c _ body => class_ok c && prog_ok body
  | PEsc _ body => warn_free && prog_ok body
  | PTry body => prog_ok body
  | _ => true
  end.
Fixpoint footprint (p : prog) : list string :=
  match p with
  | PSeq a b => footprint a ++ footprint b
  | PWith c _ body => allowed c ++ footprint body
  | PEsc _ body => WARN :: footprint body
  | PTry body => footprint body
  | _ => []
  end.

(* names of the classes that are usable in a with-block (have __enter__ and __exit__) and fail *)
Definition is_cm (c : string) : bool :=
  match find_method T c "__enter__", find_method T c "__exit__" with Some _, Some _ => true | _, _ => false end.
Definition failing_classes : list string :=
  filter (fun c => is_cm c && leaf c && negb (class_ok c)) (map c_name T).
End Check.

(* a path on which the obligation fails: the answers given so far and what was computed (for the
   evidence / replay; the driver turns it into a concrete program on the real classes) *)
Inductive witness := WNone | WPath (fs : list fact) (what : string).
Fixpoint first_bad {A} (n : nat) (f : list fact -> res A) (chk : list fact -> res A -> bool) (fs : list fact) : witness :=
  match f fs with
  | Need (x, p) => match n with
                   | O => WPath fs "too many questions"
                   | S n' => match first_bad n' f chk ((x, p, true) :: fs) with
                             | WNone => first_bad n' f chk ((x, p, false) :: fs)
                             | w => w
                             end
                   end
  | Stuck s => WPath fs s
  | r => if chk fs r then WNone else WPath fs "restore obligation fails on this path"
  end.

(* ------------------------------------------------------------------ documentation tables *)
(* documented composites (docstrings of linear_operator.settings.fast_computations / linalg_dtypes) *)
Definition doc_composites (c : string) : list string :=
  if String.eqb c "lo.fast_computations" then ["lo._fast_covar_root_decomposition"; "lo._fast_log_prob"; "lo._fast_solves"]
  else if String.eqb c "lo.linalg_dtypes" then ["lo._linalg_dtype_symeig"; "lo._linalg_dtype_cholesky"]
  else [].

Definition doc_caches (c a : string) : bool :=
  String.eqb c "lo.deterministic_probes" && String.eqb a "probe_vectors".

(* documented defaults: (class, query method, arguments, documented value), from the "(Default: ..)"
   lines of the docstrings and, where the docstring is silent, the constructor signature *)
Definition f32 := KDtype "float32". Definition f64 := KDtype "float64". Definition f16 := KDtype "float16".
Definition dflag (c : string) (b : bool) := [(c, "on", @nil const, KBool b); (c, "off", [], KBool (negb b))].
Definition dval (c : string) (k : const) := [(c, "value", @nil const, k)].
Definition dnum (c : string) (n : Z) (d : positive) := dval c (KNum n d).
Definition ddt (c : string) (a b h : const) := [(c, "value", [f32], a); (c, "value", [f64], b); (c, "value", [f16], h)].
Definition doc_defaults : list (string * string * list const * const) :=
  (* linear_operator.settings (re-exported by gpytorch.settings) *)
  dflag "lo._fast_covar_root_decomposition" true ++ dflag "lo._fast_log_prob" true ++ dflag "lo._fast_solves" true ++
  dval "lo._linalg_dtype_symeig" f64 ++ dval "lo._linalg_dtype_cholesky" f64 ++
  ddt "lo.cholesky_jitter" (KNum 1 1000000) (KNum 1 100000000) KNone ++
  dnum "lo.cholesky_max_tries" 3 1 ++ dnum "lo.cg_tolerance" 1 1 ++ dflag "lo.ciq_samples" false ++
  dflag "lo.deterministic_probes" false ++ dflag "lo.debug" true ++
  dnum "lo.max_cg_iterations" 1000 1 ++ dnum "lo.max_cholesky_size" 800 1 ++
  dnum "lo.max_lanczos_quadrature_iterations" 20 1 ++ dnum "lo.max_preconditioner_size" 15 1 ++
  dnum "lo.max_root_decomposition_size" 100 1 ++ dflag "lo.memory_efficient" false ++
  dnum "lo.min_preconditioning_size" 2000 1 ++ dnum "lo.minres_tolerance" 1 10000 ++
  dnum "lo.num_contour_quadrature" 15 1 ++ dnum "lo.num_trace_samples" 10 1 ++
  dnum "lo.preconditioner_tolerance" 1 1000 ++ dflag "lo.skip_logdet_forward" false ++
  dflag "lo.terminate_cg_by_size" false ++ dflag "lo.trace_mode" false ++ dnum "lo.tridiagonal_jitter" 1 1000000 ++
  dflag "lo.use_toeplitz" true ++ dflag "lo.verbose_linalg" false ++ dnum "lo.stable_qr_cpu_threshold" 128 1 ++
  (* gpytorch.settings *)
  dflag "gp.debug" true ++ dflag "gp.detach_test_caches" true ++ dnum "gp.eval_cg_tolerance" 1 100 ++
  dflag "gp.fast_pred_var" false ++ [("gp.fast_pred_var", "num_probe_vectors", [], KNum 1 1)] ++
  dflag "gp.fast_pred_samples" false ++ dflag "gp.lazily_evaluate_kernels" true ++
  dnum "gp.max_eager_kernel_size" 512 1 ++ dflag "gp.memory_efficient" false ++
  ddt "gp.min_fixed_noise" (KNum 1 10000) (KNum 1 1000000) (KNum 1 1000) ++
  ddt "gp.min_variance" (KNum 1 1000000) (KNum 1 10000000000) (KNum 1 1000) ++
  dnum "gp.num_gauss_hermite_locs" 20 1 ++ dnum "gp.num_likelihood_samples" 10 1 ++
  dflag "gp.prior_mode" false ++ dflag "gp.sgpr_diagonal_correction" true ++
  dflag "gp.skip_posterior_variances" false ++ dflag "gp.trace_mode" false ++
  ddt "gp.variational_cholesky_jitter" (KNum 1 10000) (KNum 1 1000000) KNone ++
  dval "gp.observation_nan_policy" (KStr "ignore") ++ dflag "gp.use_keops" true ++
  (* gpytorch.beta_features *)
  dnum "bf.checkpoint_kernel" 0 1 ++ dflag "bf.default_preconditioner" false.

(* classes used by the with-blocks of a program *)
Fixpoint prog_classes (p : prog) : list string :=
  match p with
  | PSeq a b => prog_classes a ++ prog_classes b
  | PWith c _ body => c :: prog_classes body
  | PEsc _ body | PTry body => prog_classes body
  | _ => []
  end.

(* the classes a user can put in a with-block: context managers nobody inherits from *)
Definition usable (T : table) : list string := filter (fun c => is_cm T c && leaf T c) (map c_name T).
Definition has_prefix (pre s : string) : bool := String.eqb (substring 0 (String.length pre) s) pre.
(* installed linear_operator classes (outside the repository) vs classes of gpytorch itself *)
Definition external (c : string) : bool := has_prefix "lo." c.
Definition documented_queries : list (string * string * list const) := map fst doc_defaults.
