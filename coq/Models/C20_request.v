(* C20 — INNERMOST WINS, the "what a block requests" half.
   (1) [rspec]: a tiny language for the DOCUMENTED effect of a block's arguments on a public query: a
       decision tree whose questions are the yes/no questions of Models/C20_ir.v about the INPUTS of the
       block (was the argument omitted, is it None) and whose leaves are symbolic values over the
       arguments ([XArg p]) and the values class attributes show OUTSIDE the block ([XCell false c a]).
       [rs_conc] is its meaning for concrete arguments and a concrete outer store, [rs_sym] evaluates it
       with the interpreter's own question mechanism.
   (2) [doc_requested]: the hand-written documentation table (per class KIND, the kind being read off
       the hand-written [doc_defaults]): for a block `with c(args):`, which queries it determines and
       what they must return at the start of its body.
   (3) [enter_sets_requested]: the per-class obligation, computed on the regenerated IR.  It runs
       constructor + __enter__ symbolically for both answers to every question ([explore], exactly as
       [class_ok] does); on every path that enters, it runs every documented query of the block
       symbolically ON THE STORE THE BLOCK ESTABLISHED (fresh questions, about that store, answered both
       ways), rewrites the result and the answers through the writes of __enter__ into terms of the
       block's inputs ([subst], [pull]; combinations of answers that contradict each other are the only
       ones skipped) and requires the result to be SYNTACTICALLY the documented value, whatever the
       remaining questions of the documentation tree are answered.  It also requires that the query
       writes nothing and reads nothing but non-cache attributes of its own class.
   Soundness for all stores and arguments: Proofs/C20_request.v.  No proofs in this file. *)
From Coq Require Import List String ZArith Bool.
From GPV Require Import Models.C20_ir Models.C20_check.
Import ListNotations.
Open Scope string_scope.

Definition qry := (string * string * list const)%type.       (* class, query method, arguments *)

Inductive rspec := RVal (v : sval) | RAsk (x : var) (p : pred) (yes no : rspec).

Fixpoint rs_sym (fs : list fact) (t : rspec) : res sval :=
  match t with
  | RVal v => Ok v
  | RAsk x p y n => do b <- ask fs x p; rs_sym fs (if b then y else n)
  end.
Fixpoint rs_conc (hold : var -> pred -> bool) (r : var -> sval) (t : rspec) : sval :=
  match t with
  | RVal v => inst r v
  | RAsk x p y n => rs_conc hold r (if hold x p then y else n)
  end.
Fixpoint rs_map (f : sval -> sval) (t : rspec) : rspec :=
  match t with RVal v => RVal (f v) | RAsk x p y n => RAsk x p (rs_map f y) (rs_map f n) end.

(* `not v` as Python computes it: a constant is negated at once, an input stays symbolic *)
Definition snot (v : sval) : sval := match v with VK k => VK (KBool (negb (const_truth k))) | _ => VNot v end.

(* ------------------------------------------------------------------ the documentation table *)
Definition arg (p : string) : sval := VSym (XArg p).                 (* the value passed for parameter p *)
Definition outer (c a : string) : sval := VSym (XCell false c a).    (* what c.a shows outside the block *)
Definition if_absent (p : string) (y n : rspec) := RAsk (XArg p) PAbsent y n.
Definition if_none (p : string) (y n : rspec) := RAsk (XArg p) PNone y n.
(* "the argument p (default d)" *)
Definition arg_default (p : string) (d : const) : rspec := if_absent p (RVal (VK d)) (RVal (arg p)).
(* "the argument p if supplied and not None, else e" *)
Definition arg_or_else (p : string) (e : rspec) : rspec := if_absent p e (if_none p e (RVal (arg p))).

(* a block whose parameter p (default True) is the state of the flag class k:
     on()  = the state; None puts the flag back into its default state (on() = k._default);
     off() = not on();  is_default() = the state is None *)
Definition req_flag (p k : string) : list (qry * rspec) :=
  let on := if_absent p (RVal (VK (KBool true))) (if_none p (RVal (outer k "_default")) (RVal (arg p))) in
  [((k, "on", []), on); ((k, "off", []), rs_map snot on);
   ((k, "is_default", []), if_absent p (RVal (VK (KBool false)))
                             (if_none p (RVal (VK (KBool true))) (RVal (VK (KBool false)))))].
(* a block whose tree e is the value of the value class k: value() = e *)
Definition req_value (e : rspec) (k : string) : list (qry * rspec) := [((k, "value", []), e)].
(* per-dtype values: value(dtype) = the argument of that dtype if supplied and not None, else the outer value *)
Definition req_dtype (c : string) : list (qry * rspec) :=
  [((c, "value", [f32]), arg_or_else "float_value" (RVal (outer c "_global_float_value")));
   ((c, "value", [f64]), arg_or_else "double_value" (RVal (outer c "_global_double_value")));
   ((c, "value", [f16]), arg_or_else "half_value" (RVal (outer c "_global_half_value")))].

Definition documents (c m : string) (n : nat) : bool :=
  existsb (fun d => match d with (c', m', a, _) => String.eqb c c' && String.eqb m m' && Nat.eqb (List.length a) n end)
          doc_defaults.

(* what `with c(args):` requests, by kind of c; the kind is read off the documented queries of c *)
Definition doc_requested (c : string) : list (qry * rspec) :=
  if String.eqb c "lo.fast_computations" then          (* composite: its three members *)
    req_flag "covar_root_decomposition" "lo._fast_covar_root_decomposition" ++
    req_flag "log_prob" "lo._fast_log_prob" ++ req_flag "solves" "lo._fast_solves"
  else if String.eqb c "lo.linalg_dtypes" then         (* composite: symeig / cholesky, each falling back on default *)
    let dflt := arg_default "default" f64 in
    req_value (arg_or_else "symeig" dflt) "lo._linalg_dtype_symeig" ++
    req_value (arg_or_else "cholesky" dflt) "lo._linalg_dtype_cholesky"
  else if documents c "num_probe_vectors" 0 then       (* fast_pred_var(state=True, num_probe_vectors=1) *)
    req_flag "state" c ++ [((c, "num_probe_vectors", []), arg_default "num_probe_vectors" (KNum 1 1))]
  else if documents c "on" 0 then req_flag "state" c
  else if documents c "value" 1 then req_dtype c
  else if documents c "value" 0 then req_value (RVal (arg "value")) c
  else [].

(* ------------------------------------------------------------------ the checker *)
(* truth of a question about a value *)
Definition valp (u : sval) (p : pred) : bool :=
  match p with
  | PAbsent => false
  | PNone => match u with VK KNone => true | _ => false end
  | PEq k => match u with VK k' => const_eqb k k' | _ => false end
  end.

Fixpoint sval_eqb (a b : sval) : bool :=
  match a, b with
  | VK x, VK y => const_eqb x y
  | VSym x, VSym y => var_eqb x y
  | VNot x, VNot y => sval_eqb x y
  | _, _ => false
  end.

(* a value computed on the store established by the writes WA, in terms of the block's inputs *)
Fixpoint subst (WA : writes) (v : sval) : option sval :=
  match v with
  | VK k => Some (VK k)
  | VSym (XCell false k a) => Some (match find_w WA k a with Some w => w | None => v end)
  | VSym _ => None
  | VNot w => option_map snot (subst WA w)
  | VObj _ _ => None
  end.

(* answers given about the established store, as answers about the block's inputs *)
Inductive pulled := PContra | PFail | POk (fs : list fact).
Definition add_fact (acc : list fact) (x : var) (p : pred) (b : bool) : pulled :=
  match known acc x p with
  | Some b' => if Bool.eqb b b' then POk acc else PContra
  | None => POk ((x, p, b) :: acc)
  end.
Definition pull1 (WA : writes) (acc : list fact) (f : fact) : pulled :=
  match f with
  | (XCell false k a, PAbsent, b) => if b then PContra else POk acc
  | (XCell false k a, p, b) =>
      match find_w WA k a with
      | None => add_fact acc (XCell false k a) p b
      | Some (VSym y) => add_fact acc y p b
      | Some (VK k0) => if Bool.eqb b (valp (VK k0) p) then POk acc else PContra
      | Some _ => PFail
      end
  | _ => PFail
  end.
Fixpoint pull (WA : writes) (acc : list fact) (fsQ : list fact) : pulled :=
  match fsQ with
  | [] => POk acc
  | f :: r => match pull1 WA acc f with POk acc' => pull WA acc' r | x => x end
  end.

Section Request.
Variable T : table.
Variable comp : string -> list string.
Variable cache : string -> string -> bool.
Variable spec : string -> list (qry * rspec).

(* non-cache attributes of class k as the block's store shows them *)
Definition local_var (k : string) (x : var) : bool :=
  match x with XCell false k' a => String.eqb k k' && negb (cache k' a) | _ => false end.
Fixpoint local_val (k : string) (v : sval) : bool :=
  match v with VK _ => true | VSym x => local_var k x | VNot w => local_val k w | VObj _ _ => false end.

Definition chkV (want : sval) (_ : list fact) (r : res sval) : bool :=
  match r with Ok v => sval_eqb want v | _ => false end.
Definition chkQ (WA : writes) (fsA : list fact) (k : string) (t : rspec) (fsQ : list fact) (r : res (sval * writes)) : bool :=
  match r with
  | Ok (v, Wq) =>
      isnil Wq && forallb (fun f : fact => local_var k (fst (fst f))) fsQ && local_val k v &&
      match pull WA fsA fsQ with
      | PContra => true
      | PFail => false
      | POk fs' => match subst WA v with
                   | Some sv => explore QFUEL (fun fs => rs_sym fs t) (chkV sv) fs'
                   | None => false
                   end
      end
  | _ => false
  end.
Definition chkR (c : string) (fsA : list fact) (r : res blockA) : bool :=
  match r with
  | Ok (AEntered _ WA) =>
      footprint_ok T comp c WA &&
      forallb (fun qt : qry * rspec => match qt with ((k, m, qa), t) =>
                 explore QFUEL (fun fs' => symObs T fs' k m qa) (chkQ WA fsA k t) [] end) (spec c)
  | Ok _ => true
  | _ => false
  end.
Definition enter_sets_requested (c : string) : bool :=
  negb (isnil (spec c)) && explore QFUEL (fun fs => symA T fs c) (chkR c) [].

(* the documented value of a tree for concrete arguments and a concrete outer store *)
Definition requested (args : list (string * sval)) (G : store) (t : rspec) : sval :=
  rs_conc (holds T args G G) (rho T args G G) t.
End Request.
