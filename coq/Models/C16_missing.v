(* C16 model: missing observations under observation_nan_policy 'mask' / 'fill', as coded in
   gpytorch/models/exact_prediction_strategies.py:257-366 (_mean_cache, exact_predictive_mean,
   exact_predictive_covar), gpytorch/mlls/exact_marginal_log_likelihood.py:68-80 and
   gpytorch/likelihoods/gaussian_likelihood.py:47-112.
   A tensor that may hold NaNs is a function [nat -> option car] (None = NaN).  The inputs are
   the same as for C01 (joint prior KJ, muJ on [train; test], train noise S) plus targets with
   NaNs.  "Deletion" is the C01 posterior of the gathered sub-problem.  Definitions only. *)
From Coq Require Import Arith List Bool ZArith QArith Qcanon.
From GPV Require Import Base.LinAlg Base.Exec Base.Expr Models.C01_posterior.
Import ListNotations.

Section Missing.
Context {K : Fld}.
Local Open Scope fld_scope.

Definition nvec := nat -> option car.                      (* a vector that may hold NaNs *)

(* ~isnan(v) *)
Definition is_obs (v : nvec) : nat -> bool := fun i => match v i with Some _ => true | None => false end.
(* nan_to_num(v, nan=d) as a column *)
Definition vals (d : car) (v : nvec) : M := fun i _ => match v i with Some x => x | None => d end.

(* the indices a boolean mask of length n selects (what tensor[..., mask] gathers), their
   number, and the position of index i among them *)
Definition obs_list (n : nat) (ob : nat -> bool) : list nat := filter ob (seq 0 n).
Definition nobs (n : nat) (ob : nat -> bool) : nat := length (obs_list n ob).
Definition sel (l : list nat) : nat -> nat := fun a => nth a l O.
Definition rank (ob : nat -> bool) (i : nat) : nat := length (filter ob (seq 0 i)).
Definition idx : nat -> nat := fun x => x.

(* MaskedLinearOperator(A, rowmask, colmask) *)
Definition masked (n m : nat) (rb cb : nat -> bool) (A : M) : M :=
  gather (sel (obs_list n rb)) (sel (obs_list m cb)) A.
Definition mask_rows (n : nat) (rb : nat -> bool) (A : M) : M := gather (sel (obs_list n rb)) idx A.
Definition mask_cols (m : nat) (cb : nat -> bool) (A : M) : M := gather idx (sel (obs_list m cb)) A.

(* train_labels_offset = train_labels - train_mean  (NaN stays NaN) *)
Definition offset (muJ : M) (y : nvec) : nvec :=
  fun i => match y i with Some v => Some (v - muJ i O) | None => None end.

(* ------------------------------------------------------------------ policy 'mask' *)

(* _mean_cache('mask'): solve on the masked operator, scattered into a NaN-filled tensor.
   [Aoinv] is any inverse of the masked train covariance. *)
Definition mean_cache_mask (n : nat) (Aoinv : M) (r : nvec) : nvec :=
  let ob := is_obs r in
  let x := mmul (nobs n ob) Aoinv (mask_rows n ob (vals 0 r)) in
  fun i => if ob i then Some (x (rank ob i) O) else None.

(* exact_predictive_mean('mask'): the observed columns are read off the NaN pattern of the cache *)
Definition pred_mean_mask (n : nat) (TT tm : M) (mc : nvec) : M :=
  let ob := is_obs mc in
  madd (mmul (nobs n ob) (mask_cols n ob TT) (mask_rows n ob (vals 0 mc))) tm.

(* ------------------------------------------------------------------ policy 'fill' *)

(* kernel * kernel_mask, kernel_mask = outer(~missing, ~missing) with its diagonal set to 1 *)
Definition fill_kernel (ob : nat -> bool) (A : M) : M :=
  fun i j => if Nat.eqb i j then A i j else if ob i && ob j then A i j else 0.
(* test_train_covar * mask[None, :] *)
Definition zero_cols (ob : nat -> bool) (T : M) : M := fun i j => if ob j then T i j else 0.

(* _mean_cache('fill'): solve with the filled right-hand side, then NaN at the missing rows.
   [Afinv] is any inverse of the filled kernel, [fv] the fill value (-999 in the code). *)
Definition mean_cache_fill (n : nat) (Afinv : M) (r : nvec) (fv : car) : nvec :=
  let ob := is_obs r in
  let x := mmul n Afinv (vals fv r) in
  fun i => if ob i then Some (x i O) else None.

(* exact_predictive_mean('fill') *)
Definition pred_mean_fill (n : nat) (TT tm : M) (mc : nvec) (fv : car) : M :=
  madd (mmul n (zero_cols (is_obs mc) TT) (vals fv mc)) tm.

(* ------------------------------------------------------------------ covariance *)

Inductive policy := PMask | PFill.

(* the formulas exact_predictive_covar uses when targets are missing: the train dimension is
   restricted ('mask': MaskedLinearOperator + test_train_covar[..., observed]) resp. neutralised
   ('fill': kernel * kernel_mask, test_train_covar * mask) exactly as for the mean *)
Definition cov_masked (n : nat) (ob : nat -> bool) (KJ Aoinv : M) : M :=
  let G := mask_cols n ob (Ksx n KJ) in
  msub (Kss n KJ) (mmul (nobs n ob) G (mmul (nobs n ob) Aoinv (mT G))).
Definition cov_filled (n : nat) (ob : nat -> bool) (KJ Afinv : M) : M :=
  let Z := zero_cols ob (Ksx n KJ) in
  msub (Kss n KJ) (mmul n Z (mmul n Afinv (mT Z))).

(* has_missing = bool(isnan(train_labels).any()) *)
Definition has_missing (n : nat) (y : nvec) : bool := negb (forallb (is_obs y) (seq 0 n)).

(* exact_predictive_covar AS CODED NOW (gpytorch/models/exact_prediction_strategies.py:368-441,
   after "fix: posterior covariance ignores missing observations ..."): under a NaN policy with at
   least one missing target the exact solve is used on the masked / filled operator; otherwise
   (no NaN) it is C01's [post_cov] with an inverse of the full train covariance (the
   fast_pred_var root path equals it for any root: C01 cov_root_correct).
   [Ainv], [Aoinv], [Afinv]: any inverses of the full / masked / filled train covariance. *)
Definition pred_cov (n : nat) (p : policy) (KJ Ainv Aoinv Afinv : M) (y : nvec) : M :=
  if has_missing n y then
    match p with
    | PMask => cov_masked n (is_obs y) KJ Aoinv
    | PFill => cov_filled n (is_obs y) KJ Afinv
    end
  else post_cov n KJ Ainv.

(* MODEL OF THE OLD CODE (before the fix; kept to document that the masking is necessary and to
   label a regression): no reference to the policy or the labels - C01's [post_cov n KJ Ainv]
   with Ainv an inverse of the FULL train covariance, NaN rows included. *)
Definition cov_unmasked_old (n : nat) (KJ Ainv : M) : M := post_cov n KJ Ainv.

(* ------------------------------------------------------------------ deletion (the spec) *)

(* the data set with the NaN observations deleted: joint prior on [observed train; test] *)
Definition selJ (n : nat) (l : list nat) : nat -> nat :=
  fun i => if Nat.ltb i (length l) then nth i l O else (n + (i - length l))%nat.
Definition KJ_del (n : nat) (ob : nat -> bool) (KJ : M) : M :=
  let s := selJ n (obs_list n ob) in gather s s KJ.
Definition mu_del (n : nat) (ob : nat -> bool) (muJ : M) : M :=
  gather (selJ n (obs_list n ob)) idx muJ.
Definition S_del (n : nat) (ob : nat -> bool) (S : M) : M := masked n n ob ob S.
Definition y_del (n : nat) (y : nvec) : M := mask_rows n (is_obs y) (vals 0 y).

Definition del_mean (n : nat) (KJ muJ Aoinv : M) (y : nvec) : M :=
  let ob := is_obs y in post_mean (nobs n ob) (KJ_del n ob KJ) (mu_del n ob muJ) Aoinv (y_del n y).
Definition del_cov (n : nat) (ob : nat -> bool) (KJ Aoinv : M) : M :=
  post_cov (nobs n ob) (KJ_del n ob KJ) Aoinv.

(* ------------------------------------------------------------------ batch mode under 'mask' *)

(* 'mask' with an explicit mask [ob] (batch mode: _get_observed is the AND over the batch elements,
   so an element may have observed targets that are masked as well).
   _mean_cache: mean_cache = full_like(nan); mean_cache[..., observed] = solve(offset[..., observed]) *)
Definition mean_cache_mask_ob (n : nat) (ob : nat -> bool) (Aoinv : M) (r : nvec) : nvec :=
  let x := mmul (nobs n ob) Aoinv (mask_rows n ob (vals 0 r)) in
  fun i => if ob i then Some (x (rank ob i) O) else None.
(* the data set with the index set {i | ob i = false} deleted *)
Definition del_mean_ob (n : nat) (ob : nat -> bool) (KJ muJ Aoinv : M) (y : nvec) : M :=
  post_mean (nobs n ob) (KJ_del n ob KJ) (mu_del n ob muJ) Aoinv (mask_rows n ob (vals 0 y)).
(* _get_observed over a batch of B target vectors: observed iff observed in EVERY element *)
Definition batch_observed (B : nat) (ys : nat -> nvec) : nat -> bool :=
  fun i => forallb (fun b => is_obs (ys b) i) (seq 0 B).

(* ------------------------------------------------------------------ policy history *)

(* the prediction strategy's memo: _mean_cache is keyed by the policy *)
Definition memo := policy -> option nvec.
Definition memo_empty : memo := fun _ => None.
Definition memo_set (m : memo) (p : policy) (v : nvec) : memo :=
  fun q => match p, q with PMask, PMask | PFill, PFill => Some v | _, _ => m q end.

Definition compute_cache (n : nat) (Aoinv Afinv : M) (r : nvec) (fv : car) (p : policy) : nvec :=
  match p with PMask => mean_cache_mask n Aoinv r | PFill => mean_cache_fill n Afinv r fv end.
Definition read_cache (n : nat) (TT tm : M) (fv : car) (p : policy) (mc : nvec) : M :=
  match p with PMask => pred_mean_mask n TT tm mc | PFill => pred_mean_fill n TT tm mc fv end.

(* one prediction under policy p on a model whose memo is m *)
Definition predict_step (n : nat) (Aoinv Afinv TT tm : M) (r : nvec) (fv : car)
  (m : memo) (p : policy) : memo * M :=
  match m p with
  | Some mc => (m, read_cache n TT tm fv p mc)
  | None => let mc := compute_cache n Aoinv Afinv r fv p in
            (memo_set m p mc, read_cache n TT tm fv p mc)
  end.
Definition predict_history (n : nat) (Aoinv Afinv TT tm : M) (r : nvec) (fv : car)
  (h : list policy) : memo :=
  fold_left (fun m p => fst (predict_step n Aoinv Afinv TT tm r fv m p)) h memo_empty.

(* ------------------------------------------------------------------ Gaussian log densities *)

(* quadratic form r^T Ainv r of a column *)
Definition quad (k : nat) (Ainv r : M) : car := mmul k (mT r) (mmul k Ainv r) O O.

(* rational part of  -2 * MultivariateNormal.log_prob : quad + (log det + k log 2pi) *)
Definition mll_quad_mask (n : nat) (muJ Aoinv : M) (y : nvec) : car :=
  let r := offset muJ y in quad (nobs n (is_obs r)) Aoinv (mask_rows n (is_obs r) (vals 0 r)).
Definition mll_quad_del (n : nat) (muJ Aoinv : M) (y : nvec) : car :=
  let ob := is_obs y in
  quad (nobs n ob) Aoinv (msub (y_del n y) (sub 0 0 (mu_del n ob muJ))).

(* Gaussian expected_log_prob, per point, as a function of (target, mean, variance, noise) and
   of the value [lg] of  log noise + log 2pi : -1/2 (((y-m)^2 + v)/s + lg) *)
Definition elp_point (half : car) (y m v s lg : car) : car :=
  fopp half * (((y - m) * (y - m) + v) / s + lg).
(* 'mask': every tensor is gathered first; result has nobs entries *)
Definition elp_mask (n : nat) (half : car) (y : nvec) (m v s lg : nat -> car) : nat -> car :=
  let l := obs_list n (is_obs y) in
  fun a => elp_point half (vals 0 y (sel l a) O) (m (sel l a)) (v (sel l a)) (s (sel l a)) (lg (sel l a)).
(* 'fill': NaN targets are replaced by fv, the result is multiplied by ~missing *)
Definition elp_fill (half fv : car) (y : nvec) (m v s lg : nat -> car) : nat -> car :=
  fun i => elp_point half (vals fv y i O) (m i) (v i) (s i) (lg i) * (if is_obs y i then 1 else 0).
(* the deleted data set: targets, and the function distribution's marginals at those points *)
Definition elp_del (n : nat) (half : car) (y : nvec) (m v s lg : nat -> car) : nat -> car :=
  let l := obs_list n (is_obs y) in
  let yd := y_del n y in
  fun a => elp_point half (yd a O) (gather (sel l) idx (fun i _ => m i) a O)
             (gather (sel l) idx (fun i _ => v i) a O) (gather (sel l) idx (fun i _ => s i) a O)
             (gather (sel l) idx (fun i _ => lg i) a O).

(* ANY per-point term under 'fill' (expected_log_prob, log_marginal, ...): the code replaces NaN
   targets by the fill value, evaluates a pointwise function [g target index] and multiplies by
   ~missing.  [g] is arbitrary. *)
Definition pointwise_fill (fv : car) (y : nvec) (g : car -> nat -> car) : nat -> car :=
  fun i => g (vals fv y i O) i * (if is_obs y i then 1 else 0).
(* the same function on the deleted data set: targets and per-point inputs gathered *)
Definition pointwise_del (n : nat) (y : nvec) (g : car -> nat -> car) : nat -> car :=
  let l := obs_list n (is_obs y) in fun a => g (y_del n y a O) (sel l a).

(* NOT the code (a reading the property excludes; kept to state that it is wrong): the missing
   mask re-derived from the FILLED tensor by comparing with the fill value, [eqb] any boolean
   equality test ("target == fill_value" after nan_to_num instead of isnan before it).  A
   genuine observation equal to the fill value is then treated as missing. *)
Definition pointwise_fill_by_value (eqb : car -> car -> bool) (fv : car) (y : nvec)
  (g : car -> nat -> car) : nat -> car :=
  fun i => g (vals fv y i O) i * (if eqb (vals fv y i O) fv then 0 else 1).

End Missing.

(* ---- executable instance ------------------------------------------------------------- *)

Definition nvec_of_list (l : list (option Qc)) : @nvec QcF := fun i => nth i l None.

Definition e_log2pi : expr := ELog (EMul (EConst (Q2Qc 2)) EPi).
Definition qnat (k : nat) : Qc := Q2Qc (inject_Z (Z.of_nat k)).
(* MultivariateNormal.log_prob from its rational ingredients *)
Definition e_logprob (q d : Qc) (k : nat) : expr :=
  EMul (EConst (Q2Qc (-1 # 2)))
       (EAdd (EAdd (EConst q) (ELog (EConst d))) (EMul (EConst (qnat k)) e_log2pi)).

(* case = (n, t, KJ rows, muJ, S rows, y with NaNs)
   result: 0 if the masked train covariance is singular, else
     1; k; deletion mean (t); deletion cov (t*t);
     mean as coded under 'mask' (t); covariance as coded under 'mask' (t*t)
       (no NaN: the masked operator IS the full train covariance, so Aoinv serves as Ainv);
     expr: log_prob of the masked marginal (un-normalised MLL) *)
Definition run_missing
  (c : nat * nat * list (list Qc) * list Qc * list (list Qc) * list (option Qc)) : list Z :=
  let '(n, t, kj, mu, s, yl) := c in
  let KJ : @M QcF := @of_list QcF kj in let muJ : @M QcF := @vec_of_list QcF mu in
  let S : @M QcF := @of_list QcF s in let y := nvec_of_list yl in
  let A : @M QcF := train_covar KJ S in
  let r := offset muJ y in
  let ob := is_obs y in
  let k := nobs n ob in
  let Ao := mat k k (masked n n ob ob A) in
  match inv_checked k Ao with
  | Some Aoinv =>
      let TT := mat t n (Ksx n KJ) in let tm := sub n 0 muJ in
      1%Z :: Z.of_nat k ::
      ser_mat t 1 (del_mean n KJ muJ Aoinv y) ++ ser_mat t t (del_cov n ob KJ Aoinv) ++
      ser_mat t 1 (pred_mean_mask n TT tm (mean_cache_mask n Aoinv r)) ++
      ser_mat t t (pred_cov n PMask KJ Aoinv Aoinv mzero y) ++
      ser_expr (e_logprob (mll_quad_mask n muJ Aoinv y) (det k Ao) k)
  | None => [0%Z]
  end.

(* the specification alone (deletion) - what every implementation output is compared with.
   Same case format; result: 0 if singular, else 1; k; deletion mean (t); deletion cov (t*t);
   expr: log_prob of the deleted data set's marginal (un-normalised MLL) *)
Definition run_deletion
  (c : nat * nat * list (list Qc) * list Qc * list (list Qc) * list (option Qc)) : list Z :=
  let '(n, t, kj, mu, s, yl) := c in
  let KJ : @M QcF := @of_list QcF kj in let muJ : @M QcF := @vec_of_list QcF mu in
  let S : @M QcF := @of_list QcF s in let y := nvec_of_list yl in
  let ob := is_obs y in
  let k := nobs n ob in
  let Ad := mat k k (train_covar (KJ_del n ob KJ) (S_del n ob S)) in
  match inv_checked k Ad with
  | Some Adinv =>
      1%Z :: Z.of_nat k ::
      ser_mat t 1 (del_mean n KJ muJ Adinv y) ++ ser_mat t t (del_cov n ob KJ Adinv) ++
      ser_expr (e_logprob (mll_quad_del n muJ Adinv y) (det k Ad) k)
  | None => [0%Z]
  end.

(* the 'fill' code path and policy histories.  case = (..., fill value); result: 0 / 1;
   mean as coded under 'fill' (t); covariance as coded under 'fill' (t*t; no NaN: the
   filled kernel IS the full train covariance, so Afinv serves as Ainv); mean of the last
   prediction after the histories [fill;mask] and [mask;fill;mask;fill] (2t) *)
Definition run_fill
  (c : nat * nat * list (list Qc) * list Qc * list (list Qc) * list (option Qc) * Qc) : list Z :=
  let '(n, t, kj, mu, s, yl, fv) := c in
  let KJ : @M QcF := @of_list QcF kj in let muJ : @M QcF := @vec_of_list QcF mu in
  let S : @M QcF := @of_list QcF s in let y := nvec_of_list yl in
  let A : @M QcF := train_covar KJ S in
  let r := offset muJ y in
  let ob := is_obs y in
  let k := nobs n ob in
  let Ao := mat k k (masked n n ob ob A) in
  let Af := mat n n (fill_kernel ob A) in
  match inv_checked k Ao, inv_checked n Af with
  | Some Aoinv, Some Afinv =>
      let TT := mat t n (Ksx n KJ) in let tm := sub n 0 muJ in
      let last h := match rev h with
                    | p :: h' =>
                        snd (predict_step n Aoinv Afinv TT tm r fv
                               (predict_history n Aoinv Afinv TT tm r fv (rev h')) p)
                    | [] => mzero end in
      1%Z ::
      ser_mat t 1 (pred_mean_fill n TT tm (mean_cache_fill n Afinv r fv) fv) ++
      ser_mat t t (pred_cov n PFill KJ Afinv Aoinv Afinv y) ++
      ser_mat t 1 (last [PFill; PMask]) ++ ser_mat t 1 (last [PMask; PFill; PMask; PFill])
  | _, _ => [0%Z]
  end.

(* the OLD exact_predictive_covar (no mask; used only to label a regression and to decide which
   cases are non-trivial): independent of the targets.
   case = (n, t, KJ rows, S rows); result 0 / 1; covariance (t*t) *)
Definition run_coded_cov (c : nat * nat * list (list Qc) * list (list Qc)) : list Z :=
  let '(n, t, kj, s) := c in
  let KJ : @M QcF := @of_list QcF kj in let S : @M QcF := @of_list QcF s in
  match inv_checked n (mat n n (train_covar KJ S)) with
  | Some Ainv => 1%Z :: ser_mat t t (cov_unmasked_old n KJ (mat n n Ainv))
  | None => [0%Z]
  end.

(* Gaussian likelihood terms.  case = (n, y with NaNs, mean, variance, noise, fill value);
   result: k; then per observed point the expr of expected_log_prob under 'mask' (k exprs);
   then per point under 'fill' (n exprs; the rational factor (~missing) is applied to the
   rational part, a missing point prints the constant 0) *)
Definition e_elp (y m v s : Qc) : expr :=
  EMul (EConst (Q2Qc (-1 # 2)))
       (EAdd (EAdd (EConst (((y - m) * (y - m) + v) / s)%Qc) (ELog (EConst s))) e_log2pi).
(* log_marginal: Normal(m, sqrt(v + s)).log_prob(y) *)
Definition e_lmarg (y m v s : Qc) : expr :=
  let w := (v + s)%Qc in
  ESub (ESub (EConst (- ((y - m) * (y - m)) / (Q2Qc 2 * w))%Qc) (ELog (ESqrt (EConst w))))
       (ELog (ESqrt (EMul (EConst (Q2Qc 2)) EPi))).

Definition run_gauss_terms (c : nat * list (option Qc) * list Qc * list Qc * list Qc * Qc) : list Z :=
  let '(n, yl, ml, vl, sl, fv) := c in
  let y := nvec_of_list yl in
  let m := fun i => nth i ml 0%Qc in let v := fun i => nth i vl 0%Qc in
  let s := fun i => nth i sl 0%Qc in
  let l := obs_list n (is_obs y) in
  let pt (f : Qc -> Qc -> Qc -> Qc -> expr) d i := f (@vals QcF d y i O) (m i) (v i) (s i) in
  Z.of_nat (length l) ::
  flat_map (fun i => ser_expr (pt e_elp 0%Qc i)) l ++
  flat_map (fun i => ser_expr (if is_obs y i then pt e_elp fv i else EConst 0%Qc)) (seq 0 n) ++
  flat_map (fun i => ser_expr (pt e_lmarg 0%Qc i)) l ++
  flat_map (fun i => ser_expr (if is_obs y i then pt e_lmarg fv i else EConst 0%Qc)) (seq 0 n).
