(* C12 model: the noise operator R that a Gaussian-family likelihood adds to N(m, C), as a dense
   matrix over a generic field, for every documented configuration
     gpytorch/likelihoods/gaussian_likelihood.py   (_GaussianLikelihoodBase.marginal,
                                                    FixedNoiseGaussianLikelihood._shaped_noise_covar)
     gpytorch/likelihoods/noise_models.py          (_HomoskedasticNoiseBase.forward, FixedGaussianNoise.forward)
     gpytorch/likelihoods/multitask_gaussian_likelihood.py (_shaped_noise_covar)
     gpytorch/likelihoods/likelihood_list.py       (LikelihoodList.__call__/forward/expected_log_prob)
   plus the closed forms of expected_log_prob / log_marginal as [Expr.expr].
   Definitions only (one batch element; batch broadcasting is done by the driver / C08). *)
From Coq Require Import Arith List ZArith QArith Qcanon.
From GPV Require Import Base.LinAlg Base.Exec Base.Expr.
Import ListNotations.

Section Noise.
Context {K : Fld}.
Local Open Scope fld_scope.

(* Kronecker product of A (any size) with a q x q matrix B *)
Definition kron (q : nat) (A B : M) : M :=
  fun i j => A (i / q)%nat (j / q)%nat * B (i mod q)%nat (j mod q)%nat.

(* perfect shuffle: position of interleaved flat index k = i*t + a  in the non-interleaved
   layout a*n + i *)
Definition shuf (n t k : nat) : nat := ((k mod t) * n + k / t)%nat.

(* sigma^2 I  (ConstantDiagLinearOperator) *)
Definition R_homo (s2 : car) : M := mscale s2 mI.

(* optional learned homoskedastic part (second_noise_covar / global multitask noise) *)
Definition learned_part (l : option car) : M :=
  match l with Some s => R_homo s | None => mzero end.

(* FixedGaussianNoise.forward: call-time noise wins; else the stored noise if its length
   matches the number of points; else ZeroLinearOperator (documented no-op) *)
Definition fixed_base (n len : nat) (stored : nat -> car) (call : option (nat -> car)) : M :=
  match call with
  | Some c => mdiag c
  | None => if Nat.eqb n len then mdiag stored else mzero
  end.

(* FixedNoiseGaussianLikelihood: fixed part + learned part; the call-time noise replaces the
   stored fixed noise ONLY (the learned part is kept) *)
Definition R_fixed (n len : nat) (stored : nat -> car) (call : option (nat -> car))
           (l : option car) : M :=
  madd (fixed_base n len stored call) (learned_part l).

(* FixedNoiseGaussianLikelihood.get_fantasy_likelihood(noise=new): the likelihood of the n old points
   followed by the m appended points (the order of ExactGP.get_fantasy_model's joint inputs) stores
   [old noise; new noise]; the learned part is carried over unchanged.  GaussianLikelihood's fantasy
   likelihood is a copy (R_homo of the same sigma^2). *)
Definition cat_fn (n : nat) (old new : nat -> car) : nat -> car :=
  fun i => if Nat.ltb i n then old i else new (i - n)%nat.
Definition R_fantasy (n m : nat) (old new : nat -> car) (l : option car) : M :=
  R_fixed (n + m) (n + m) (cat_fn n old new) None l.

(* the variant in which the call-time kwarg is forwarded to the learned-noise module as well
   (the pinned snapshot of /repo): the learned module then returns diag(call) again *)
Definition R_fixed_forwarding (n len : nat) (stored : nat -> car) (call : option (nat -> car))
           (l : option car) : M :=
  madd (fixed_base n len stored call)
       (match l, call with
        | Some _, Some c => mdiag c
        | _, _ => learned_part l
        end).

(* multitask: task covariance D_t = (diag d | F F^T) [+ s2 I_t] *)
Definition Dt (r : nat) (d : nat -> car) (F : M) (glob : option car) : M :=
  madd (match r with O => mdiag d | S _ => mmul r F (mT F) end) (learned_part glob).

(* layout of the input decides the Kronecker order *)
Definition R_mt_il (t : nat) (D : M) : M := kron t mI D.       (* I_n (x) D_t : interleaved *)
Definition R_mt_nil (n : nat) (D : M) : M := kron n D mI.      (* D_t (x) I_n : non-interleaved *)

Definition R_mt (n t r : nat) (has_task interleaved : bool) (d : nat -> car) (F : M)
           (glob : option car) : M :=
  if has_task then
    (if interleaved then R_mt_il t (Dt r d F glob) else R_mt_nil n (Dt r d F glob))
  else learned_part glob.

(* marginal: (m, C) |-> (m, C + R) *)
Definition marginal_mean (m : M) : M := m.
Definition marginal_cov (C R : M) : M := madd C R.

(* homoskedastic noise with a call-time kwarg (_HomoskedasticNoiseBase.forward: "If a 'noise' kwarg
   (a Tensor) is provided, this noise is used directly") *)
Definition R_homo_call (s2 : car) (call : option (nat -> car)) : M :=
  match call with Some c => mdiag c | None => R_homo s2 end.

(* ---- specification histories of a FixedNoiseGaussianLikelihood -------------------------------
   Every public way of (re)specifying a noise component is an operation on the state
   (stored fixed noise, learned sigma^2):
     constructor FixedNoiseGaussianLikelihood(noise=v)        : fixed := clamp v   (FixedGaussianNoise.__init__
                                                                 rounds values below settings.min_fixed_noise up)
     lik.noise = v / lik.initialize(noise=v)                   : fixed := v         (replaces the fixed part ONLY)
     lik.second_noise = s / initialize(second_noise=s) / raw   : learned := s       (only if learn_additional_noise)
     get_fantasy_likelihood(noise=nw)                          : fixed := fixed ++ clamp nw   (constructor again)
   and the call-time noise kwarg replaces the fixed part for that call only, exactly as passed. *)
Inductive spec_op :=
| OpFixed (v : list car)
| OpSecond (s : car)
| OpFantasy (nw : list car).

Record nstate := mk_nstate { st_fixed : list car; st_learned : option car }.

Definition spec_init (clampf : car -> car) (v : list car) (l : option car) : nstate :=
  mk_nstate (map clampf v) l.

Definition spec_step (clampf : car -> car) (st : nstate) (op : spec_op) : nstate :=
  match op with
  | OpFixed v => mk_nstate v (st_learned st)
  | OpSecond s => mk_nstate (st_fixed st) (match st_learned st with Some _ => Some s | None => None end)
  | OpFantasy nw => mk_nstate (st_fixed st ++ map clampf nw) (st_learned st)
  end.

Definition spec_run (clampf : car -> car) (ops : list spec_op) (st : nstate) : nstate :=
  fold_left (spec_step clampf) ops st.

Definition lfn (l : list car) : nat -> car := fun i => nth i l 0.

(* what the likelihood in state st adds to a distribution over N points *)
Definition R_hist (N : nat) (st : nstate) (call : option (nat -> car)) : M :=
  R_fixed N (length (st_fixed st)) (lfn (st_fixed st)) call (st_learned st).

(* ---- "last specification wins" for likelihoods whose components are plain parameters
   (GaussianLikelihood.noise, MultitaskGaussianLikelihood.noise / task_noises / task_noise_covar_factor,
   through setters, initialize(...) or the raw parameters): a component holds the value of the last
   operation that addressed it *)
Definition last_spec {V : Type} (init : V) (ops : list V) : V := fold_left (fun _ v => v) ops init.

Inductive mt_op :=
| MGlob (s : car)
| MTask (d : list car)
| MFactor (F : list (list car)).

Record mt_state := mk_mt { mt_glob : option car; mt_d : list car; mt_F : list (list car) }.

Definition mt_step (st : mt_state) (op : mt_op) : mt_state :=
  match op with
  | MGlob s => mk_mt (match mt_glob st with Some _ => Some s | None => None end) (mt_d st) (mt_F st)
  | MTask d => mk_mt (mt_glob st) d (mt_F st)
  | MFactor F => mk_mt (mt_glob st) (mt_d st) F
  end.

Definition mt_run (ops : list mt_op) (st : mt_state) : mt_state := fold_left mt_step ops st.

Definition lmat (F : list (list car)) : M := fun i j => nth j (nth i F nil) 0.

Definition R_mt_hist (n t r : nat) (has_task interleaved : bool) (st : mt_state) : M :=
  R_mt n t r has_task interleaved (lfn (mt_d st)) (lmat (mt_F st)) (mt_glob st).

End Noise.

(* ---- LikelihoodList routing: member k gets argument k (and noise k); length mismatch is an
   error (length_safe_zip) ------------------------------------------------------------ *)
Section Routing.
Context {L A N O : Type}.
Fixpoint zip2 (f : L -> A -> option N -> O) (ls : list L) (xs : list A) : option (list O) :=
  match ls, xs with
  | [], [] => Some []
  | l :: ls', x :: xs' =>
      match zip2 f ls' xs' with Some r => Some (f l x None :: r) | None => None end
  | _, _ => None
  end.
Fixpoint zip3 (f : L -> A -> option N -> O) (ls : list L) (xs : list A) (ns : list N)
  : option (list O) :=
  match ls, xs, ns with
  | [], [], [] => Some []
  | l :: ls', x :: xs', n :: ns' =>
      match zip3 f ls' xs' ns' with Some r => Some (f l x (Some n) :: r) | None => None end
  | _, _, _ => None
  end.
Definition list_call (f : L -> A -> option N -> O) (ls : list L) (xs : list A)
           (ns : option (list N)) : option (list O) :=
  match ns with None => zip2 f ls xs | Some ns => zip3 f ls xs ns end.
End Routing.

(* ---- closed forms as symbolic scalars --------------------------------------------------- *)
Definition e_half_neg : expr := EConst (qc (-1) 2).
Definition e_ln2pi : expr := ELog (EMul (EConst (qc 2 1)) EPi).

(* E_{N(m,v)} log N(y | f, r) = -1/2 ( ((y-m)^2 + v)/r + ln r + ln 2pi ) *)
Definition elp_expr (y m v r : expr) : expr :=
  EMul e_half_neg
       (EAdd (EAdd (EDiv (EAdd (EMul (ESub y m) (ESub y m)) v) r) (ELog r)) e_ln2pi).

(* log N(y | m, v + r) *)
Definition lm_expr (y m v r : expr) : expr :=
  EMul e_half_neg
       (EAdd (EAdd (EDiv (EMul (ESub y m) (ESub y m)) (EAdd v r)) (ELog (EAdd v r))) e_ln2pi).

(* ---- executable wrapper ------------------------------------------------------------------ *)
Definition fn_of_list (l : list Qc) : nat -> Qc := fun i => nth i l 0%Qc.
Definition opt_fn (o : option (list Qc)) : option (nat -> Qc) :=
  match o with Some l => Some (fn_of_list l) | None => None end.

(* stored noise after a sequence of get_fantasy_likelihood calls: old ++ new_1 ++ ... ++ new_k *)
Definition fantasy_stored (old : list Qc) (news : list (list Qc)) : list Qc :=
  fold_left (fun acc nw => acc ++ nw) news old.

Inductive lik_cfg :=
| LHomo (s2 : Qc)
| LFixed (stored : list Qc) (call : option (list Qc)) (learned : option Qc)
| LFantasy (old : list Qc) (news : list (list Qc)) (learned : option Qc)
| LMulti (t r : nat) (has_task interleaved : bool) (d : list Qc) (F : list (list Qc))
         (glob : option Qc)
| LHomoHist (s0 : Qc) (ops : list Qc) (call : option (list Qc))
| LHist (floor : Qc) (init : list Qc) (learned0 : option Qc) (ops : list (@spec_op QcF))
        (call : option (list Qc))
| LMultiHist (t r : nat) (has_task interleaved : bool) (d0 : list Qc) (F0 : list (list Qc))
             (glob0 : option Qc) (ops : list (@mt_op QcF)).

(* monomorphic names for the case files *)
Definition qOpFixed (v : list Qc) : @spec_op QcF := @OpFixed QcF v.
Definition qOpSecond (s : Qc) : @spec_op QcF := @OpSecond QcF s.
Definition qOpFantasy (v : list Qc) : @spec_op QcF := @OpFantasy QcF v.
Definition qMGlob (s : Qc) : @mt_op QcF := @MGlob QcF s.
Definition qMTask (d : list Qc) : @mt_op QcF := @MTask QcF d.
Definition qMFactor (F : list (list Qc)) : @mt_op QcF := @MFactor QcF F.

(* FixedGaussianNoise.__init__: noise.clamp_min(settings.min_fixed_noise.value(dtype)) *)
Definition qc_clamp (floor v : Qc) : Qc := if Qclt_le_dec v floor then floor else v.

(* N = size of the flattened event (n, or n*t) *)
Definition R_of (N : nat) (c : lik_cfg) : @M QcF :=
  match c with
  | LHomo s2 => R_homo (K:=QcF) s2
  | LFixed stored call l =>
      R_fixed (K:=QcF) N (length stored) (fn_of_list stored) (opt_fn call) l
  | LFantasy old news l =>
      (* one get_fantasy_likelihood call per element of news, each through the cat_fn definition *)
      let stored := fold_left (fun (acc : nat * (nat -> Qc)) nw =>
                                 ((fst acc + length nw)%nat, cat_fn (K:=QcF) (fst acc) (snd acc) (fn_of_list nw)))
                              news (length old, fn_of_list old) in
      R_fixed (K:=QcF) N (fst stored) (snd stored) None l
  | LMulti t r ht il d F g =>
      R_mt (K:=QcF) (N / t) t r ht il (fn_of_list d) (of_list (K:=QcF) F) g
  | LHomoHist s0 ops call => R_homo_call (K:=QcF) (last_spec s0 ops) (opt_fn call)
  | LHist floor init l0 ops call =>
      R_hist (K:=QcF) N (spec_run (K:=QcF) (qc_clamp floor) ops (spec_init (K:=QcF) (qc_clamp floor) init l0))
             (opt_fn call)
  | LMultiHist t r ht il d0 F0 g0 ops =>
      R_mt_hist (K:=QcF) (N / t) t r ht il (mt_run (K:=QcF) ops (mk_mt (K:=QcF) g0 d0 F0))
  end.

(* case: (N, cfg, y, mean, diag C) with y, mean, diag C listed in the flat order of the event.
   result: R (N x N rationals), then per element elp and lm terms.  For the multitask
   likelihood the elementwise closed forms use the diagonal of R in the layout of the input. *)
Definition run_c12 (c : nat * lik_cfg * list Qc * list Qc * list Qc) : list Z :=
  let '(N, cfg, y, m, v) := c in
  let R := mat N N (R_of N cfg) in
  ser_mat N N R ++
  flat_map (fun i =>
     let e := fun l => EConst (nth i l 0%Qc) in
     ser_expr (elp_expr (e y) (e m) (e v) (EConst (R i i))) ++
     ser_expr (lm_expr (e y) (e m) (e v) (EConst (R i i)))) (seq 0 N).

(* LikelihoodList: members are configurations, arguments are event sizes; result: per member
   the flattened R (prefixed by its size), or [0] on length mismatch *)
Definition with_call (c : lik_cfg) (noise : option (list Qc)) : lik_cfg :=
  match c, noise with
  | LFixed s _ l, Some nz => LFixed s (Some nz) l
  | LHist fl i l ops _, Some nz => LHist fl i l ops (Some nz)
  | LHomo s2, Some nz => LHomoHist s2 [] (Some nz)
  | LHomoHist s2 ops _, Some nz => LHomoHist s2 ops (Some nz)
  | _, _ => c
  end.

(* the per-member entry of LikelihoodList's noise list: a tensor, or None (= no call-time noise for
   this member: it uses its own noise model) *)
Definition entry_noise (e : option (option (list Qc))) : option (list Qc) :=
  match e with Some (Some nz) => Some nz | _ => None end.

Definition member_call (c : lik_cfg) (N : nat) (noise : option (option (list Qc))) : list Z :=
  Z.of_nat N :: ser_mat N N (mat N N (R_of N (with_call c (entry_noise noise)))).

Definition run_c12_list (c : list lik_cfg * list nat * option (list (option (list Qc)))) : list Z :=
  let '(ls, Ns, nz) := c in
  match list_call member_call ls Ns nz with
  | None => [0%Z]
  | Some rs => 1%Z :: Z.of_nat (length rs) :: concat rs
  end.
