(* C06 (ii) — run-time vocabulary for the regenerated slice-division arithmetic of
   LazyEvaluatedKernelTensor._getitem (Gen/LazySlice_gen.v is written in these terms by
   harness/translators/lazyslice_tr.py), the specification it is measured against, and two
   hand-pinned copies of the arithmetic (as of snapshot 66db6d9, and the repaired form).
   Executable definitions only. *)
From Coq Require Import ZArith List Bool.
From GPV Require Import Base.PySlice.
Import ListNotations.
Local Open Scope Z_scope.

(* what _getitem can see of a row / column index: a slice, or something else (index tensor) *)
Inductive midx := MSlice (s : pyslice) | MOther.

(* outcome of the multi-output pre-processing: fall back to evaluate-then-index, or continue with
   (possibly divided) row / column indices that are applied to x1 / x2 *)
Inductive mo_result := Fallback | Divided (r c : midx).

Definition mks (a b k : option Z) : pyslice := {| s_start := a; s_stop := b; s_step := k |}.

Definition is_slice (x : midx) : bool := match x with MSlice _ => true | MOther => false end.
(* attribute reads; on a non-slice Python raises AttributeError -- the translator only accepts
   them behind the isinstance guard, here they are total *)
Definition sl_start (x : midx) : option Z := match x with MSlice s => s_start s | MOther => None end.
Definition sl_stop (x : midx) : option Z := match x with MSlice s => s_stop s | MOther => None end.
Definition sl_step (x : midx) : option Z := match x with MSlice s => s_step s | MOther => None end.

(* Python truthiness and `or` on int / Optional[int] *)
Definition truthy_z (a : Z) : bool := negb (a =? 0).
Definition truthy_oz (a : option Z) : bool := match a with Some v => negb (v =? 0) | None => false end.
Definition py_or_zz (a b : Z) : Z := if a =? 0 then b else a.
Definition py_or_oz (a : option Z) (b : Z) : Z :=
  match a with Some v => if v =? 0 then b else v | None => b end.
(* `a if a is not None else b` *)
Definition oz_default (a : option Z) (b : Z) : Z := match a with Some v => v | None => b end.
Definition is_none (a : option Z) : bool := match a with None => true | Some _ => false end.
Definition not_none (a : option Z) : bool := negb (is_none a).

(* ---- specification: rows of a multi-output kernel matrix that belong to the inputs `rows`
   (p consecutive outputs per input, interleaved layout: row = input * p + output) *)
Definition zrange (n : Z) : list Z := map Z.of_nat (seq 0 (Z.to_nat n)).
Definition expand (p : Z) (rows : list Z) : list Z :=
  flat_map (fun r => map (fun a => r * p + a) (zrange p)) rows.

(* is the outcome right for a request (ri, ci) on a (n*pr) x (m*pc) matrix built from n x m inputs?
   Divided r c is right iff indexing x1 by r / x2 by c and evaluating yields exactly the requested
   rows / columns.  (executable; used by the search over small arguments) *)
Definition list_eqb (a b : list Z) : bool :=
  (Nat.eqb (length a) (length b)) && forallb (fun p => fst p =? snd p) (combine a b).
Definition dim_ok (p n : Z) (req res : midx) : bool :=
  match req, res with
  | MSlice s, MSlice s' =>
      match slice_positions (n * p) s, slice_positions n s' with
      | Some want, Some rows => list_eqb want (expand p rows)
      | _, _ => false
      end
  | MOther, MOther => Z.eqb p 1
  | _, _ => false
  end.
Definition outcome_ok (pr pc n m : Z) (ri ci : midx) (o : mo_result) : bool :=
  match o with
  | Fallback => true
  | Divided r c => dim_ok pr n ri r && dim_ok pc m ci c
  end.

(* ---- hand-pinned copies (NOT the tie: the tie is Gen/LazySlice_gen.v) *)
(* snapshot 66db6d9: `start or 0`, `stop or size` *)
Definition pinned_mo_getitem (pr pc shape_r shape_c : Z) (ri ci : midx) : mo_result :=
  if negb (pr =? 1) || negb (pc =? 1) then
    if negb (is_slice ri) || negb (is_slice ci) then Fallback else
    let row_start := py_or_oz (sl_start ri) 0 in
    let row_end := py_or_oz (sl_stop ri) shape_r in
    let col_start := py_or_oz (sl_start ci) 0 in
    let col_end := py_or_oz (sl_stop ci) shape_c in
    if not_none (sl_step ri) || not_none (sl_step ci) then Fallback else
    if truthy_z (row_start mod pr) || truthy_z (col_start mod pc)
       || truthy_z (row_end mod pr) || truthy_z (col_end mod pc) then Fallback else
    Divided (MSlice (mks (Some (row_start / pr)) (Some (row_end / pr)) None))
            (MSlice (mks (Some (col_start / pc)) (Some (col_end / pc)) None))
  else Divided ri ci.

(* the repaired form: `x if x is not None else default` *)
Definition ref_mo_getitem (pr pc shape_r shape_c : Z) (ri ci : midx) : mo_result :=
  if negb (pr =? 1) || negb (pc =? 1) then
    if negb (is_slice ri) || negb (is_slice ci) then Fallback else
    let row_start := oz_default (sl_start ri) 0 in
    let row_end := oz_default (sl_stop ri) shape_r in
    let col_start := oz_default (sl_start ci) 0 in
    let col_end := oz_default (sl_stop ci) shape_c in
    if not_none (sl_step ri) || not_none (sl_step ci) then Fallback else
    if truthy_z (row_start mod pr) || truthy_z (col_start mod pc)
       || truthy_z (row_end mod pr) || truthy_z (col_end mod pc) then Fallback else
    Divided (MSlice (mks (Some (row_start / pr)) (Some (row_end / pr)) None))
            (MSlice (mks (Some (col_start / pc)) (Some (col_end / pc)) None))
  else Divided ri ci.

(* the same without the alignment guard (to show the guard is what makes the division sound) *)
Definition unguarded_mo_getitem (pr pc shape_r shape_c : Z) (ri ci : midx) : mo_result :=
  if negb (pr =? 1) || negb (pc =? 1) then
    if negb (is_slice ri) || negb (is_slice ci) then Fallback else
    let row_start := oz_default (sl_start ri) 0 in
    let row_end := oz_default (sl_stop ri) shape_r in
    let col_start := oz_default (sl_start ci) 0 in
    let col_end := oz_default (sl_stop ci) shape_c in
    if not_none (sl_step ri) || not_none (sl_step ci) then Fallback else
    Divided (MSlice (mks (Some (row_start / pr)) (Some (row_end / pr)) None))
            (MSlice (mks (Some (col_start / pc)) (Some (col_end / pc)) None))
  else Divided ri ci.

(* ---- executable wrappers for the driver *)
Definition ser_oz (a : option Z) : list Z := match a with None => [0] | Some v => [1; v] end.
Definition ser_midx (x : midx) : list Z :=
  match x with
  | MOther => [0]
  | MSlice s => 1 :: ser_oz (s_start s) ++ ser_oz (s_stop s) ++ ser_oz (s_step s)
  end.
Definition ser_result (o : mo_result) : list Z :=
  match o with Fallback => [0] | Divided r c => 1 :: ser_midx r ++ ser_midx c end.

Definition zseq (lo hi : Z) : list Z := map (fun k => lo + Z.of_nat k) (seq 0 (Z.to_nat (hi - lo + 1))).
Definition obounds (lo hi : Z) : list (option Z) := None :: map Some (zseq lo hi).

(* search: all slice pairs without step, bounds None / lo..hi, on n x m inputs with pr x pc outputs:
   the requests on which `f` takes the fast path with a wrong division.  Output rows:
   [ser row request ++ ser col request] *)
Definition search_bad (f : Z -> Z -> Z -> Z -> midx -> midx -> mo_result)
           (pr pc n m lo hi : Z) : list (list Z) :=
  let sl := flat_map (fun a => map (fun b => MSlice (mks a b None)) (obounds lo hi)) (obounds lo hi) in
  flat_map (fun ri => flat_map (fun ci =>
     if outcome_ok pr pc n m ri ci (f pr pc (n * pr) (m * pc) ri ci) then []
     else [ser_midx ri ++ ser_midx ci]) sl) sl.
