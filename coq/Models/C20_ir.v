(* C20 — global settings are scoped.  Hand-written part of the model:
   (1) a tiny imperative IR for the bodies of the settings classes (the terms themselves are
       regenerated from the Python source by harness/translators/settings_tr.py into
       Gen/Settings_gen.v on every run);
   (2) ONE fuelled interpreter for it.  The interpreter computes on SYMBOLIC values: a value is a
       constant, an object, or a reference to an INPUT of the block (a constructor argument, or
       the value a class attribute had when the block was entered).  Control flow may consult an
       input only through yes/no questions ([pred]: "was the argument omitted", "is it None",
       "is it equal to the literal k").  When the answer is not yet in the list of known [facts]
       the interpreter stops with [Need (x,p)].
   (3) The CONCRETE semantics ([conc], used by [exec] for whole programs) re-runs the interpreter,
       answering every question from the actual store/arguments, and instantiates the symbolic
       result.  The CHECKER ([explore], Models/C20_check.v) re-runs it answering every question
       both ways.  "checked for every answer => true for every store and argument" is therefore a
       five line induction (Proofs/C20_scoped.v: explore_sound), not a proof about the IR.
   No proofs in this file. *)
From Coq Require Import List String ZArith Bool.
Import ListNotations.
Open Scope string_scope.

(* ------------------------------------------------------------------ constants and the IR *)
Inductive const :=
| KNone | KBool (b : bool) | KNum (n : Z) (d : positive)      (* exact decimal value of the literal *)
| KStr (s : string) | KDtype (s : string) | KCls (s : string) | KOpaque (s : string).

Definition const_eqb (a b : const) : bool :=
  match a, b with
  | KNone, KNone => true
  | KBool x, KBool y => Bool.eqb x y
  | KNum n d, KNum n' d' => Z.eqb n n' && Pos.eqb d d'
  | KStr s, KStr s' => String.eqb s s'
  | KDtype s, KDtype s' => String.eqb s s'
  | KCls s, KCls s' => String.eqb s s'
  | KOpaque s, KOpaque s' => String.eqb s s'
  | _, _ => false
  end.

Inductive expr :=
| EConst (k : const)
| EVar (x : string)                      (* local variable / parameter *)
| ESelfAttr (a : string)                 (* self.a : instance dict, then the class chain *)
| EClsAttr (a : string)                  (* cls.a / self.__class__.a : lookup along the base chain *)
| EIsNone (e : expr)
| ENot (e : expr)
| EEq (a b : expr)
| EIn (e : expr) (ks : list const)
| EIf (c a b : expr)                     (* a if c else b *)
| EIsTensor (e : expr)                   (* torch.is_tensor(e): the value domain has no tensors *)
| EGetAttr (e : expr) (a : string)       (* attribute of a non-object value: stuck *)
| ECallCls (m : string) (args : list (option string * expr))   (* cls.m(..) / self.__class__.m(..) *)
| ECallSuper (m : string) (args : list (option string * expr)) (* super().m(..) *)
| ECallObj (f : string) (m : string) (args : list (option string * expr))  (* self.f.m(..) *)
| ENew (c : string) (args : list (option string * expr)).      (* C(..) for a class of the table *)

Inductive stmt :=
| SSkip                                   (* pass, docstring *)
| SWarn (site : string)                   (* warnings.warn(...): a POTENTIAL RAISE POINT -- whether the warning
                                             issued at this site is turned into an exception depends on the
                                             warning filter in force (python -W error, simplefilter("error"),
                                             pytest filterwarnings=error); the interpreter ASKS *)
| SSetCls (a : string) (e : expr)         (* cls.a = e / self.__class__.a = e : own slot of the dynamic class *)
| SSetSelf (a : string) (e : expr)
| SSetLocal (x : string) (e : expr)
| SIf (c : expr) (t f : list stmt)
| SExpr (e : expr)
| SReturn (e : expr)
| SRaise (what : string).

Inductive mkind := MInst | MCls | MStatic.
Record method := { m_name : string; m_kind : mkind;
                   m_params : list (string * option const);   (* without self/cls; default if any *)
                   m_star : list string;                      (* names of *args / **kwargs *)
                   m_body : option (list stmt) }.             (* None: outside the subset, not reachable *)
Record class_entry := { c_name : string; c_base : option string;
                        c_attrs : list (string * const); c_methods : list method }.
Definition table := list class_entry.

(* ------------------------------------------------------------------ symbolic values *)
Inductive var := XArg (p : string) | XCell (t : bool) (c a : string).
   (* XCell false c a: what `c.a` evaluated to when the block was entered (constructor time);
      XCell true  c a: what it evaluates to when __exit__ runs. *)

Inductive pred := PAbsent | PNone | PEq (k : const).
Inductive sval := VK (k : const) | VSym (x : var) | VNot (v : sval)
                | VObj (c : string) (fs : list (string * sval)).

(* The warning filter is global state too.  It is kept in the store under the pseudo-class [WARN] (no class
   of a table has a dotless name): the slot [WARN].site holds [KBool true] iff the filter currently in force
   turns the warning issued at the statement [site] into an exception.  A [SWarn site] therefore asks the
   yes/no question "is XCell t WARN site equal to True" like any other question about an input of the
   block: the checker ([explore]) answers it both ways, the concrete semantics from the store. *)
Definition WARN : string := "warnings".
Definition warn_raises (site : string) (t : bool) : var * pred := (XCell t WARN site, PEq (KBool true)).

Definition var_eqb (x y : var) : bool :=
  match x, y with
  | XArg p, XArg q => String.eqb p q
  | XCell t c a, XCell t' c' a' => Bool.eqb t t' && String.eqb c c' && String.eqb a a'
  | _, _ => false
  end.
Definition pred_eqb (p q : pred) : bool :=
  match p, q with
  | PAbsent, PAbsent => true | PNone, PNone => true | PEq k, PEq k' => const_eqb k k' | _, _ => false
  end.

Definition fact := (var * pred * bool)%type.
Definition writes := list (string * string * sval).       (* newest first *)

Inductive res (A : Type) :=
| Ok (a : A) | Exc (W : writes) | Need (q : var * pred) | Stuck (why : string).
Arguments Ok {A} a. Arguments Exc {A} W. Arguments Need {A} q. Arguments Stuck {A} why.

Definition bind {A B} (r : res A) (f : A -> res B) : res B :=
  match r with Ok a => f a | Exc W => Exc W | Need q => Need q | Stuck s => Stuck s end.
Notation "'do' x <- r ; k" := (bind r (fun x => k)) (at level 200, x pattern, r at level 100, k at level 200).

Fixpoint assoc {A} (k : string) (l : list (string * A)) : option A :=
  match l with [] => None | (k', v) :: r => if String.eqb k k' then Some v else assoc k r end.
Fixpoint set_assoc {A} (k : string) (v : A) (l : list (string * A)) : list (string * A) :=
  match l with [] => [(k, v)] | (k', v') :: r => if String.eqb k k' then (k, v) :: r else (k', v') :: set_assoc k v r end.
Definition mem_str (s : string) (l : list string) : bool := existsb (String.eqb s) l.

(* ------------------------------------------------------------------ class table *)
Section Table.
Variable tbl : table.

Fixpoint find_class_in (l : table) (c : string) : option class_entry :=
  match l with [] => None | e :: r => if String.eqb c (c_name e) then Some e else find_class_in r c end.
Definition find_class := find_class_in tbl.
Definition base_of (c : string) : option string :=
  match find_class c with Some e => c_base e | None => None end.
Fixpoint chain_f (n : nat) (c : string) : list string :=
  c :: match n with O => [] | S n' => match base_of c with Some b => chain_f n' b | None => [] end end.
Definition chain (c : string) : list string := chain_f (List.length tbl) c.   (* c, base, base of base, ... *)

Fixpoint find_meth_in (ms : list method) (m : string) : option method :=
  match ms with [] => None | x :: r => if String.eqb m (m_name x) then Some x else find_meth_in r m end.
Fixpoint find_method_chain (cs : list string) (m : string) : option (string * method) :=
  match cs with
  | [] => None
  | k :: r => match find_class k with
              | Some e => match find_meth_in (c_methods e) m with Some mt => Some (k, mt) | None => find_method_chain r m end
              | None => find_method_chain r m
              end
  end.
Definition find_method (start : string) (m : string) := find_method_chain (chain start) m.
Definition find_super (def : string) (m : string) :=
  match base_of def with Some b => find_method b m | None => None end.
Definition declared (c a : string) : bool :=
  existsb (fun k => match find_class k with Some e => match assoc a (c_attrs e) with Some _ => true | None => false end
                                       | None => false end) (chain c).

(* ------------------------------------------------------------------ questions *)
Fixpoint known (fs : list fact) (x : var) (p : pred) : option bool :=
  match fs with
  | [] => None
  | (y, q, b) :: r => if var_eqb x y && pred_eqb p q then Some b else known r x p
  end.
Definition ask (fs : list fact) (x : var) (p : pred) : res bool :=
  match known fs x p with Some b => Ok b | None => Need (x, p) end.

Definition const_truth (k : const) : bool :=
  match k with KNone => false | KBool b => b | KNum n _ => negb (Z.eqb n 0) | KStr s => negb (String.eqb s "") | _ => true end.

Definition is_none (fs : list fact) (v : sval) : res bool :=
  match v with
  | VK KNone => Ok true
  | VK _ => Ok false
  | VSym x => ask fs x PNone
  | VNot _ => Ok false
  | VObj _ _ => Ok false
  end.
Fixpoint truth (v : sval) : res bool :=
  match v with
  | VK k => Ok (const_truth k)
  | VNot w => do b <- truth w; Ok (negb b)
  | VObj _ _ => Ok true
  | VSym _ => Stuck "control flow depends on the truth value of an input"
  end.
Definition sv_eq (fs : list fact) (a b : sval) : res bool :=
  match a, b with
  | VK x, VK y => Ok (const_eqb x y)
  | VSym x, VK k | VK k, VSym x =>
      do n <- ask fs x PNone;
      if n then Ok (const_eqb k KNone)
      else match k with KNone => Ok false | _ => ask fs x (PEq k) end
  | _, _ => Stuck "comparison of two non-constant values"
  end.
Fixpoint sv_in (fs : list fact) (v : sval) (ks : list const) : res bool :=
  match ks with
  | [] => Ok false
  | k :: r => do b <- sv_eq fs v (VK k); if b then Ok true else sv_in fs v r
  end.

(* ------------------------------------------------------------------ the interpreter *)
Record frame := { f_loc : list (string * sval); f_self : option sval; f_W : writes }.
Record ctx := { cx_facts : list fact; cx_t : bool; cx_dyn : string; cx_def : string }.

Fixpoint find_w (W : writes) (c a : string) : option sval :=
  match W with
  | [] => None
  | (c', a', v) :: r => if String.eqb c c' && String.eqb a a' then Some v else find_w r c a
  end.
(* reading c.a : the newest pending write to c's own slot; a pending write to a proper ancestor's slot
   would make the answer depend on which slots exist: stuck (never happens for leaf classes) *)
Definition read_cls (t : bool) (W : writes) (c a : string) : res sval :=
  match find_w W c a with
  | Some v => Ok v
  | None =>
      if existsb (fun w => match w with (k, a', _) => String.eqb a a' && mem_str k (tl (chain c)) end) W
      then Stuck "read after a write to a base class slot"
      else if declared c a then Ok (VSym (XCell t c a))
      else Exc W        (* AttributeError *)
  end.

Definition obj_class (o : option sval) : option string :=
  match o with Some (VObj c _) => Some c | _ => None end.
Definition obj_fields (o : option sval) : list (string * sval) :=
  match o with Some (VObj _ fs) => fs | _ => [] end.

Definition empty_star := VK (KOpaque "empty *args").

(* positional arguments first, then keywords, then defaults; forwarded empty *args/**kwargs vanish *)
Fixpoint bind_pos (ps : list (string * option const)) (pos : list sval) (star : bool)
  : option (list (string * sval) * list (string * option const)) :=
  match pos, ps with
  | [], _ => Some ([], ps)
  | v :: r, (p, _) :: ps' => match bind_pos ps' r star with Some (l, rest) => Some ((p, v) :: l, rest) | None => None end
  | _ :: _, [] => if star then Some ([], []) else None
  end.
Fixpoint bind_rest (rest : list (string * option const)) (kw : list (string * sval)) : option (list (string * sval)) :=
  match rest with
  | [] => Some []
  | (p, d) :: r =>
      match bind_rest r kw with
      | None => None
      | Some l => match assoc p kw, d with
                  | Some v, _ => Some ((p, v) :: l)
                  | None, Some k => Some ((p, VK k) :: l)
                  | None, None => None
                  end
      end
  end.
Definition bind_args (mt : method) (args : list (option string * sval)) : option (list (string * sval)) :=
  let args := filter (fun a => match a with (Some "*", VK (KOpaque "empty *args")) => false | _ => true end) args in
  if existsb (fun a => match a with (Some "*", _) => true | _ => false end) args then None else
  let pos := flat_map (fun a => match a with (None, v) => [v] | _ => [] end) args in
  let kw := flat_map (fun a => match a with (Some k, v) => [(k, v)] | _ => [] end) args in
  let star := negb (match m_star mt with [] => true | _ => false end) in
  match bind_pos (m_params mt) pos star with
  | None => None
  | Some (l1, rest) =>
      if existsb (fun kv => negb (mem_str (fst kv) (map fst rest))) kw then None     (* unknown / duplicate keyword *)
      else match bind_rest rest kw with
           | Some l2 => Some (l1 ++ l2 ++ map (fun s => (s, empty_star)) (m_star mt))%list
           | None => None
           end
  end.

Definition eres := (sval * option sval * writes)%type.     (* value, self afterwards, pending writes *)

Fixpoint eval (n : nat) (cx : ctx) (fr : frame) (e : expr) {struct n} : res eres :=
  match n with O => Stuck "fuel" | S n =>
  let here v := Ok (v, f_self fr, f_W fr) in
  match e with
  | EConst k => here (VK k)
  | EVar x => match assoc x (f_loc fr) with Some v => here v | None => Stuck ("unbound local " ++ x) end
  | ESelfAttr a =>
      match assoc a (obj_fields (f_self fr)), obj_class (f_self fr) with
      | Some v, _ => here v
      | None, Some c => do v <- read_cls (cx_t cx) (f_W fr) c a; here v
      | None, None => Stuck "self used without an instance"
      end
  | EClsAttr a => do v <- read_cls (cx_t cx) (f_W fr) (cx_dyn cx) a; here v
  | EIsNone e1 =>
      do r <- eval n cx fr e1; let '(v, s, W) := r in
      do b <- is_none (cx_facts cx) v; Ok (VK (KBool b), s, W)
  | ENot e1 =>
      do r <- eval n cx fr e1; let '(v, s, W) := r in
      match v with
      | VSym _ => Ok (VNot v, s, W)
      | _ => do b <- truth v; Ok (VK (KBool (negb b)), s, W)
      end
  | EEq a b =>
      do r <- eval n cx fr a; let '(va, s, W) := r in
      do r2 <- eval n cx {| f_loc := f_loc fr; f_self := s; f_W := W |} b; let '(vb, s2, W2) := r2 in
      do q <- sv_eq (cx_facts cx) va vb; Ok (VK (KBool q), s2, W2)
  | EIn e1 ks =>
      do r <- eval n cx fr e1; let '(v, s, W) := r in
      do q <- sv_in (cx_facts cx) v ks; Ok (VK (KBool q), s, W)
  | EIf c a b =>
      do r <- eval n cx fr c; let '(vc, s, W) := r in
      do q <- truth vc;
      eval n cx {| f_loc := f_loc fr; f_self := s; f_W := W |} (if q then a else b)
  | EIsTensor e1 =>
      do r <- eval n cx fr e1; let '(_, s, W) := r in Ok (VK (KBool false), s, W)
  | EGetAttr _ a => Stuck ("attribute of a non-object: " ++ a)
  | ECallCls m args =>
      do r <- eval_args n cx fr args; let '(vs, s, W) := r in
      do r2 <- call n (cx_facts cx) (cx_t cx) (cx_dyn cx) (find_method (cx_dyn cx) m) vs s W;
      let '(v, s2, W2) := r2 in Ok (v, s2, W2)
  | ECallSuper m args =>
      do r <- eval_args n cx fr args; let '(vs, s, W) := r in
      call n (cx_facts cx) (cx_t cx) (cx_dyn cx) (find_super (cx_def cx) m) vs s W
  | ECallObj f m args =>
      do r <- eval_args n cx fr args; let '(vs, s, W) := r in
      match assoc f (obj_fields s), s with
      | Some (VObj c fs), Some (VObj c0 fs0) =>
          do r2 <- call n (cx_facts cx) (cx_t cx) c (find_method c m) vs (Some (VObj c fs)) W;
          let '(v, sub, W2) := r2 in
          match sub with
          | Some o => Ok (v, Some (VObj c0 (set_assoc f o fs0)), W2)
          | None => Stuck "instance lost"
          end
      | _, _ => Stuck ("method call on a non-object field " ++ f)
      end
  | ENew c args =>
      do r <- eval_args n cx fr args; let '(vs, s, W) := r in
      match find_class c with
      | None => Stuck ("unknown class " ++ c)
      | Some _ =>
          match find_method c "__init__" with
          | None => match vs with [] => Ok (VObj c [], s, W) | _ => Exc W end
          | Some km =>
              do r2 <- call n (cx_facts cx) (cx_t cx) c (Some km) vs (Some (VObj c [])) W;
              let '(_, o, W2) := r2 in
              match o with Some ov => Ok (ov, s, W2) | None => Stuck "instance lost" end
          end
      end
  end end

with eval_args (n : nat) (cx : ctx) (fr : frame) (args : list (option string * expr)) {struct n}
  : res (list (option string * sval) * option sval * writes) :=
  match n with O => Stuck "fuel" | S n =>
  match args with
  | [] => Ok ([], f_self fr, f_W fr)
  | (kw, e) :: rest =>
      do r <- eval n cx fr e; let '(v, s, W) := r in
      do r2 <- eval_args n cx {| f_loc := f_loc fr; f_self := s; f_W := W |} rest;
      let '(vs, s2, W2) := r2 in Ok ((kw, v) :: vs, s2, W2)
  end end

(* run method [km] (already resolved) with dynamic class [dyn]; [self] is the receiver for instance
   methods and is handed back (possibly updated); class/static methods leave it untouched *)
with call (n : nat) (fs : list fact) (t : bool) (dyn : string) (km : option (string * method))
          (args : list (option string * sval)) (self : option sval) (W : writes) {struct n} : res eres :=
  match n with O => Stuck "fuel" | S n =>
  match km with
  | None => Exc W                                   (* AttributeError *)
  | Some (k, mt) =>
      match m_body mt with
      | None => Stuck ("method outside the translated subset: " ++ m_name mt)
      | Some body =>
          match bind_args mt args with
          | None => Exc W                           (* TypeError *)
          | Some loc =>
              let inst := match m_kind mt with MInst => true | _ => false end in
              if inst && (match self with None => true | _ => false end) then Stuck "instance method without self" else
              do r <- exec n {| cx_facts := fs; cx_t := t; cx_dyn := dyn; cx_def := k |}
                         {| f_loc := loc; f_self := if inst then self else None; f_W := W |} body;
              let '(fr, ret) := r in
              Ok (match ret with Some v => v | None => VK KNone end, if inst then f_self fr else self, f_W fr)
          end
      end
  end end

with exec (n : nat) (cx : ctx) (fr : frame) (ss : list stmt) {struct n} : res (frame * option sval) :=
  match n with O => Stuck "fuel" | S n =>
  match ss with
  | [] => Ok (fr, None)
  | s :: rest =>
      let continue fr' := exec n cx fr' rest in
      match s with
      | SSkip => continue fr
      | SSetCls a e =>
          do r <- eval n cx fr e; let '(v, s', W) := r in
          continue {| f_loc := f_loc fr; f_self := s'; f_W := (cx_dyn cx, a, v) :: W |}
      | SSetSelf a e =>
          do r <- eval n cx fr e; let '(v, s', W) := r in
          match s' with
          | Some (VObj c fs) => continue {| f_loc := f_loc fr; f_self := Some (VObj c (set_assoc a v fs)); f_W := W |}
          | _ => Stuck "self.a = ... without an instance"
          end
      | SSetLocal x e =>
          do r <- eval n cx fr e; let '(v, s', W) := r in
          continue {| f_loc := set_assoc x v (f_loc fr); f_self := s'; f_W := W |}
      | SIf c t f =>
          do r <- eval n cx fr c; let '(v, s', W) := r in
          do q <- truth v;
          do r2 <- exec n cx {| f_loc := f_loc fr; f_self := s'; f_W := W |} (if q then t else f);
          let '(fr2, ret) := r2 in
          match ret with Some _ => Ok (fr2, ret) | None => continue fr2 end
      | SExpr e =>
          do r <- eval n cx fr e; let '(_, s', W) := r in
          continue {| f_loc := f_loc fr; f_self := s'; f_W := W |}
      | SReturn e =>
          do r <- eval n cx fr e; let '(v, s', W) := r in
          Ok ({| f_loc := f_loc fr; f_self := s'; f_W := W |}, Some v)
      | SRaise _ => Exc (f_W fr)
      | SWarn site =>
          let '(x, p) := warn_raises site (cx_t cx) in
          do esc <- ask (cx_facts cx) x p;
          if esc then Exc (f_W fr) else continue fr
      end
  end end.

Definition FUEL : nat := 60.

(* ------------------------------------------------------------------ one with-block, symbolically *)
Inductive blockA := ACtorRaise (W : writes) | AEnterRaise (W : writes) | AEntered (o : sval) (W : writes).
Inductive blockB := BExit (suppress : bool) (W : writes) | BExitRaise (W : writes).

Definition ctor_params (c : string) : list string :=
  match find_method c "__init__" with Some (_, mt) => map fst (m_params mt) | None => [] end.

(* the arguments of the with-expression are passed by keyword; an omitted one is simply not passed *)
Fixpoint supplied (fs : list fact) (ps : list string) : res (list (option string * sval)) :=
  match ps with
  | [] => Ok []
  | p :: r => do ab <- ask fs (XArg p) PAbsent;
              do l <- supplied fs r;
              Ok (if ab then l else (Some p, VSym (XArg p)) :: l)
  end.

(* constructor, then __enter__, both at the entry store *)
Definition symA (fs : list fact) (c : string) : res blockA :=
  match find_class c with None => Stuck ("unknown class " ++ c) | Some _ =>
  do args <- supplied fs (ctor_params c);
  let mk := match find_method c "__init__" with
            | None => Ok (VK KNone, Some (VObj c []), [])
            | Some km => call FUEL fs false c (Some km) args (Some (VObj c [])) []
            end in
  match mk with
  | Exc W => Ok (ACtorRaise W)
  | Need q => Need q
  | Stuck s => Stuck s
  | Ok (_, None, _) => Stuck "instance lost"
  | Ok (_, Some o, W0) =>
      match call FUEL fs false c (find_method c "__enter__") [] (Some o) W0 with
      | Exc W => Ok (AEnterRaise W)
      | Need q => Need q
      | Stuck s => Stuck s
      | Ok (_, None, _) => Stuck "instance lost"
      | Ok (_, Some o', W1) => Ok (AEntered o' W1)
      end
  end end.

(* __exit__ on the instance produced by symA, at the store found when the body has finished *)
Definition symB (fs : list fact) (c : string) (o : sval) : res blockB :=
  match call FUEL fs true c (find_method c "__exit__") [] (Some o) [] with
  | Exc W => Ok (BExitRaise W)
  | Need q => Need q
  | Stuck s => Stuck s
  | Ok (v, _, W) => do b <- truth v; Ok (BExit b W)
  end.

(* a read-only query (Setting.on(), Setting.value(..), ...): class method m of c *)
Definition symObs (fs : list fact) (c m : string) (args : list const) : res (sval * writes) :=
  match call FUEL fs false c (find_method c m) (map (fun k => (None, VK k)) args) None [] with
  | Ok (v, _, W) => Ok (v, W)
  | Exc W => Exc W | Need q => Need q | Stuck s => Stuck s
  end.

(* ------------------------------------------------------------------ concrete semantics *)
Definition store := string -> string -> option sval.      (* own slots: class -> attribute -> value *)
Definition upd (G : store) (c a : string) (v : sval) : store :=
  fun c' a' => if String.eqb c' c && String.eqb a' a then Some v else G c' a'.
Fixpoint first_slot (G : store) (cs : list string) (a : string) : option sval :=
  match cs with [] => None | k :: r => match G k a with Some v => Some v | None => first_slot G r a end end.
(* Python attribute lookup on a class: first class of the base chain that owns the slot *)
Definition lookup (G : store) (c a : string) : option sval := first_slot G (chain c) a.
Definition lookup_v (G : store) (c a : string) : sval :=
  match lookup G c a with Some v => v | None => VK KNone end.

(* the inputs of a block: its arguments, the entry store G0 and the store G2 seen by __exit__ *)
Definition rho (args : list (string * sval)) (G0 G2 : store) (x : var) : sval :=
  match x with
  | XArg p => match assoc p args with Some v => v | None => VK KNone end
  | XCell false c a => lookup_v G0 c a
  | XCell true c a => lookup_v G2 c a
  end.
Definition holds (args : list (string * sval)) (G0 G2 : store) (x : var) (p : pred) : bool :=
  match p with
  | PAbsent => match x with XArg q => match assoc q args with Some _ => false | None => true end | _ => false end
  | PNone => match rho args G0 G2 x with VK KNone => true | _ => false end
  | PEq k => match rho args G0 G2 x with VK k' => const_eqb k k' | _ => false end
  end.

Fixpoint conc_truth (v : sval) : bool :=
  match v with VK k => const_truth k | VNot w => negb (conc_truth w) | VObj _ _ => true | VSym _ => false end.
Fixpoint inst (r : var -> sval) (v : sval) : sval :=
  match v with
  | VK k => VK k
  | VSym x => r x
  | VNot w => VK (KBool (negb (conc_truth (inst r w))))
  | VObj c fs => VObj c (map (fun fv => (fst fv, inst r (snd fv))) fs)
  end.
Definition apply_writes (r : var -> sval) (W : writes) (G : store) : store :=
  fold_right (fun w G' => match w with (c, a, v) => upd G' c a (inst r v) end) G W.

(* answer the interpreter's questions from the actual inputs, one more per round *)
Fixpoint conc {A} (n : nat) (hold : var -> pred -> bool) (f : list fact -> res A) (fs : list fact)
  : res A * list fact :=
  match f fs with
  | Need (x, p) => match n with
                   | O => (Stuck "too many questions", fs)
                   | S n' => conc n' hold f ((x, p, hold x p) :: fs)
                   end
  | r => (r, fs)
  end.
Definition QFUEL : nat := 40.

Definition args_valid (c : string) (args : list (string * sval)) : bool :=
  forallb (fun kv => mem_str (fst kv) (ctor_params c)) args.

(* the warning filter as part of the store: every warning is / no warning is turned into an exception *)
Definition escalate (b : bool) (G : store) : store :=
  fun c a => if String.eqb c WARN then Some (VK (KBool b)) else G c a.
(* leaving `with warnings.catch_warnings():` puts the filter found on entry (G) back *)
Definition unescalate (G G2 : store) : store :=
  fun c a => if String.eqb c WARN then G c a else G2 c a.

Inductive prog := PSkip | PSeq (p q : prog) | PWith (c : string) (args : list (string * sval)) (body : prog)
                | PRaise | PObserve
                | PEsc (b : bool) (body : prog)     (* with warnings.catch_warnings():
                                                          warnings.simplefilter("error" if b else "ignore"); body *)
                | PTry (body : prog).               (* try: body   except Exception: pass *)
Inductive outcome := ONormal | ORaised | OStuck.

(* Python `with C(args): body` : constructor; __enter__; body; __exit__ on normal and exceptional exit;
   the exception is re-raised unless __exit__ returns a true value; a failing constructor or __enter__
   runs no __exit__ (Python does not call __exit__ when the with-statement header raises -- whatever the
   header has written by then stays written).  The trace collects the store at every PObserve. *)
Fixpoint run (p : prog) (G : store) : store * outcome * list store :=
  match p with
  | PSkip => (G, ONormal, [])
  | PRaise => (G, ORaised, [])
  | PObserve => (G, ONormal, [G])
  | PSeq p q =>
      let '(G1, o, tr) := run p G in
      match o with
      | ONormal => let '(G2, o2, tr2) := run q G1 in (G2, o2, (tr ++ tr2)%list)
      | _ => (G1, o, tr)
      end
  | PWith c args body =>
      if negb (args_valid c args) then (G, ORaised, []) else     (* TypeError: unexpected keyword *)
      match conc QFUEL (holds args G G) (fun fs => symA fs c) [] with
      | (Ok (ACtorRaise W), _) | (Ok (AEnterRaise W), _) => (apply_writes (rho args G G) W G, ORaised, [])
      | (Ok (AEntered o WA), fs) =>
          let G1 := apply_writes (rho args G G) WA G in
          let '(G2, r, tr) := run body G1 in
          match r with
          | OStuck => (G2, OStuck, tr)
          | _ =>
              match conc QFUEL (holds args G G2) (fun fs' => symB fs' c o) fs with
              | (Ok (BExit sup WB), _) => (apply_writes (rho args G G2) WB G2, if sup then ONormal else r, tr)
              | (Ok (BExitRaise WB), _) => (apply_writes (rho args G G2) WB G2, ORaised, tr)
              | _ => (G2, OStuck, tr)
              end
          end
      | _ => (G, OStuck, [])
      end
  | PEsc b body => let '(G2, o, tr) := run body (escalate b G) in (unescalate G G2, o, tr)
  | PTry body => let '(G1, o, tr) := run body G in
                 (G1, match o with ORaised => ONormal | _ => o end, tr)
  end.

(* does the header of `with c(args):` complete (constructor and __enter__ both return) at store G? *)
Definition enters (c : string) (args : list (string * sval)) (G : store) : bool :=
  args_valid c args &&
  match fst (conc QFUEL (holds args G G) (fun fs => symA fs c) []) with Ok (AEntered _ _) => true | _ => false end.

(* what Setting.m(args) returns at store G *)
Definition observe (G : store) (c m : string) (args : list const) : sval :=
  match conc QFUEL (holds [] G G) (fun fs => symObs fs c m args) [] with
  | (Ok (v, _), _) => inst (rho [] G G) v
  | (Exc _, _) => VK (KOpaque "raised")
  | _ => VK (KOpaque "stuck")
  end.

(* the store a fresh interpreter starts from: the class-body assignments *)
Definition init_store : store :=
  fun c a => match find_class c with Some e => match assoc a (c_attrs e) with Some k => Some (VK k) | None => None end
                                 | None => None end.
End Table.
