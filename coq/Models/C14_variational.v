(* C14 model: variational predictive q(f) and KL(q(u)||p(u)) for the strategies of
   gpytorch/variational/*.py.  Inputs are the implementation's own prior pieces on [Z; X]
   (K_zz with the jitter the strategy adds, K_zx, K_xx, m_z, m_x) and the PARAMETERS of the
   variational distribution; generic over the scalar field.  Definitions only. *)
From Coq Require Import Arith List ZArith QArith Qcanon Bool.
From GPV Require Import Base.LinAlg Base.Exec Base.Expr.
Import ListNotations.

Section Variational.
Context {K : Fld}.
Local Open Scope fld_scope.

Definition two : car := 1 + 1.
Definition fnat (n : nat) : car := sum n (fun _ => 1).      (* n as a field element *)
Definition trace (n : nat) (A : M) : car := sum n (fun i => A i i).
Definition dot (n : nat) (a b : M) : car := sum n (fun i => a i O * b i O).
(* a^T B a for a column vector a *)
Definition quad (n : nat) (a B : M) : car := mmul n (mT a) (mmul n B a) O O.
Definition add_jitter (j : car) (A : M) : M := madd A (mscale j mI).
Definition tril (A : M) : M := fun i j => if Nat.leb j i then A i j else 0.

(* ---- variational distributions: parameters -> (m, S) ------------------------------- *)
(* CholeskyVariationalDistribution.forward: masks the raw factor with tril, S = L L^T *)
Definition chol_cov (n : nat) (Lraw : M) : M := mmul n (tril Lraw) (mT (tril Lraw)).
(* MeanFieldVariationalDistribution.forward: S = diag(s^2) *)
Definition meanfield_cov (s : M) : M := mdiag (fun i => s i O * s i O).
(* DeltaVariationalDistribution: a point mass, S = 0 *)
Definition delta_cov : M := mzero.
(* NaturalVariationalDistribution: P := -2 Theta is the precision; S any inverse of P
   (the code: S = C^-T C^-1 with C C^T = P), m = S theta *)
Definition nat_precision (Theta : M) : M := mscale (- two) Theta.
Definition nat_mean (n : nat) (S theta : M) : M := mmul n S theta.
(* the code's route to S, for any C with C C^T = P and any inverse Ci of C *)
Definition nat_cov_code (n : nat) (Ci : M) : M := mmul n (mT Ci) Ci.
(* moment -> natural (initialize_variational_distribution): theta = P m, Theta = -1/2 P *)
Definition moment_to_nat_vec (n : nat) (P m : M) : M := mmul n P m.
Definition moment_to_nat_mat (P : M) : M := mscale (- (1 / two)) P.
(* TrilNaturalVariationalDistribution: Theta = -1/2 T^T T, code: L = T^-1, S = L L^T *)
Definition trilnat_precision (n : nat) (T : M) : M := mmul n (mT (tril T)) (tril T).
Definition trilnat_cov_code (n : nat) (Ti : M) : M := mmul n Ti (mT Ti).

(* ---- unwhitened strategy ------------------------------------------------------------ *)
(* closed form as worded by the property (m = #inducing; Kzx is m x n) *)
Definition unwh_mean (m : nat) (Kzx Kinv mx mz mq : M) : M :=
  madd mx (mmul m (mT Kzx) (mmul m Kinv (msub mq mz))).
Definition unwh_cov (m : nat) (Kzz Kzx Kxx Kinv S : M) : M :=
  msub Kxx (mmul m (mT Kzx) (mmul m Kinv (mmul m (msub Kzz S) (mmul m Kinv Kzx)))).
(* as coded (unwhitened_variational_strategy.py:forward, eval branch):
   inv_products = [d, R]^T Kzz^-1 Kzx ;  cov = Root(inv_products[1:]^T) + Kxx - Kzx^T Kzz^-1 Kzx
   for a root R (m x r) of S *)
Definition unwh_cov_code (m r : nat) (Kzx Kxx Kinv R : M) : M :=
  let Q := mT (mmul m (mT R) (mmul m Kinv Kzx)) in     (* n x r *)
  madd (mmul r Q (mT Q)) (madd Kxx (mmul m (mopp (mT Kzx)) (mmul m Kinv Kzx))).

(* ---- whitened strategies (Cholesky root: VariationalStrategy; symmetric root: CIQ) --- *)
Definition interp (m : nat) (Linv Kzx : M) : M := mmul m Linv Kzx.          (* m x n *)
Definition wh_mean (m : nat) (A mx mw : M) : M := madd mx (mmul m (mT A) mw).
Definition wh_cov (m : nat) (A Kxx Sw : M) : M :=
  madd Kxx (mmul m (mT A) (mmul m (msub Sw mI) A)).
(* u = m_z + L e : the q(u) a whitened parametrisation describes *)
Definition unwhiten_mean (m : nat) (L mz mw : M) : M := madd mz (mmul m L mw).
Definition unwhiten_cov (m : nat) (L Sw : M) : M := mmul m L (mmul m Sw (mT L)).

(* legacy (pre-whitening) checkpoints: a state dict without the `updated_strategy` flag holds the parameters
   of an UNWHITENED q(u) = N(mq, S); VariationalStrategy.__call__ converts them once, on the first call:
   m_w = L^-1 (mq - mz),  S_w = (L^-1 R)(L^-1 R)^T = L^-1 S L^-T  for a root R of S *)
Definition legacy_mean (m : nat) (Linv mz mq : M) : M := mmul m Linv (msub mq mz).
Definition legacy_cov (m : nat) (Linv S : M) : M := mmul m Linv (mmul m S (mT Linv)).

(* staged versions: the same expressions with every intermediate product materialised once
   ([mat] is the identity up to [meq], lemma [mat_meq]); these are what the executable wrapper
   runs, Proofs/C14 shows them [meq] to the definitions above *)
Definition unwh_cov_staged (m n : nat) (Kzz Kzx Kxx Kinv S : M) : M :=
  let W1 := mat m n (mmul m Kinv Kzx) in
  let W2 := mat m n (mmul m (msub Kzz S) W1) in
  let W3 := mat m n (mmul m Kinv W2) in
  msub Kxx (mmul m (mT Kzx) W3).
Definition unwh_mean_staged (m : nat) (Kzx Kinv mx mz mq : M) : M :=
  let w := mat m 1 (mmul m Kinv (msub mq mz)) in madd mx (mmul m (mT Kzx) w).
Definition wh_cov_staged (m n : nat) (A Kxx Sw : M) : M :=
  let W := mat m n (mmul m (msub Sw mI) A) in madd Kxx (mmul m (mT A) W).
Definition unwhiten_cov_staged (m : nat) (L Sw : M) : M :=
  let W := mat m m (mmul m Sw (mT L)) in mmul m L W.

(* ---- KL(q(u) || p(u)), rational part (without the log-determinants) ------------------ *)
(* whitened: 2 KL = tr Sw + |mw|^2 - n - log det Sw *)
Definition kl_wh_alg (n : nat) (Sw mw : M) : car := trace n Sw + dot n mw mw.
(* unwhitened: 2 KL = tr(Kinv S) + (m-mz)^T Kinv (m-mz) - n + log det K - log det S *)
Definition kl_unwh_alg (n : nat) (Kinv S mq mz : M) : car :=
  trace n (mmul n Kinv S) + quad n (msub mq mz) Kinv.

(* ---- multitask wrappers ------------------------------------------------------------- *)
(* LMC as coded: sum_q Kron(C_q, a_q a_q^T), interleaved layout: row = i*T + t *)
Definition lmc_mean (Q T : nat) (a : nat -> nat -> car) (mu : nat -> M) : M :=
  fun r _ => sum Q (fun q => a q (r mod T)%nat * mu q (r / T)%nat O).
Definition lmc_cov (Q T : nat) (a : nat -> nat -> car) (C : nat -> M) : M :=
  fun r c => sum Q (fun q => C q (r / T)%nat (c / T)%nat * (a q (r mod T)%nat * a q (c mod T)%nat)).
(* the definition: f_t(x_i) = sum_q a_qt g_q(x_i), latent processes independent:
   Cov(g_q(x_k), g_q'(x_l)) = [q = q'] C_q k l ;  bilinearity of covariance *)
Definition lmc_cov_def (Q N : nat) (a : nat -> nat -> car) (C : nat -> M)
           (i t j t' : nat) : car :=
  sum Q (fun q => sum N (fun k => sum Q (fun q' => sum N (fun l =>
    (a q t * (if Nat.eqb i k then 1 else 0)) *
    ((if Nat.eqb q q' then C q k l else 0) *
     (a q' t' * (if Nat.eqb j l then 1 else 0))))))).
Definition lmc_mean_def (Q N : nat) (a : nat -> nat -> car) (mu : nat -> M) (i t : nat) : car :=
  sum Q (fun q => sum N (fun k => (a q t * (if Nat.eqb i k then 1 else 0)) * mu q k O)).
(* IndependentMultitask (from_batch_mvn, interleaved): block diagonal over tasks *)
Definition indep_mean (T : nat) (mu : nat -> M) : M := fun r _ => mu (r mod T)%nat (r / T)%nat O.
Definition indep_cov (T : nat) (C : nat -> M) : M :=
  fun r c => if Nat.eqb (r mod T)%nat (c mod T)%nat then C (r mod T)%nat (r / T)%nat (c / T)%nat else 0.

End Variational.

(* ---- executable instance ------------------------------------------------------------ *)
(* Base.Expr declares the R instance after QcF; make QcF the default again here *)
Local Existing Instance QcF | 0.
(* distribution kinds: 0 Cholesky (p1 = mean, P2 = raw factor), 1 MeanField (p1 = mean,
   P2 column 0 = stddev), 2 Delta (p1 = mean), 3 Natural (p1 = theta, P2 = Theta),
   4 TrilNatural (p1 = theta, P2 = T).  Returns (has_cov, m, Sq). *)
Definition qu_moments (kind n : nat) (p1 P2 : @M QcF) : option (bool * @M QcF * @M QcF) :=
  match kind with
  | 0%nat => Some (true, p1, mat n n (chol_cov n P2))
  | 1%nat => Some (true, p1, mat n n (meanfield_cov P2))
  | 2%nat => Some (false, p1, delta_cov)
  | 3%nat => match inv_checked n (mat n n (nat_precision P2)) with
             | Some Sq => Some (true, mat n 1 (nat_mean n Sq p1), Sq)
             | None => None end
  | 4%nat => match inv_checked n (mat n n (trilnat_precision n P2)) with
             | Some Sq => Some (true, mat n 1 (nat_mean n Sq p1), Sq)
             | None => None end
  | _ => None
  end.

Definition half : Qc := Q2Qc (1 # 2).
Definition elog2pi : expr := ELog (EMul (EConst (Q2Qc 2)) EPi).
Definition qcn (n : nat) : Qc := @fnat QcF n.

(* KL(N(m,Sq) || N(0,I)) and KL(delta_m || N(0,I)) := -log N(m; 0, I) *)
Definition kl_wh_expr (n : nat) (has_cov : bool) (Sw mw : @M QcF) : expr :=
  if has_cov then
    EMul (EConst half) (ESub (EConst (kl_wh_alg n Sw mw - qcn n)%Qc) (ELog (EConst (det n Sw))))
  else
    EAdd (EConst (half * dot n mw mw)%Qc) (EMul (EConst (half * qcn n)%Qc) elog2pi).
(* KL(N(m,Sq) || N(mz,Kp)) and -log N(m; mz, Kp) *)
Definition kl_unwh_expr (n : nat) (has_cov : bool) (Kp Kpinv Sq mq mz : @M QcF) : expr :=
  if has_cov then
    EMul (EConst half)
      (EAdd (EConst (kl_unwh_alg n Kpinv Sq mq mz - qcn n)%Qc)
            (ESub (ELog (EConst (det n Kp))) (ELog (EConst (det n Sq)))))
  else
    EAdd (EConst (half * quad n (msub mq mz) Kpinv)%Qc)
         (EAdd (EMul (EConst half) (ELog (EConst (det n Kp))))
               (EMul (EConst (half * qcn n)%Qc) elog2pi)).

Definition qabs (d : Qc) : Qc := if Qle_bool 0 (this d) then d else (- d)%Qc.
Definition qmax (a b : Qc) : Qc := if Qle_bool (this a) (this b) then b else a.
Definition max_abs_diff (n m : nat) (A B : @M QcF) : Qc :=
  let D : @M QcF := fun i j => qabs (A i j - B i j)%Qc in
  let rows : list (list Qc) := @to_list QcF n m D in
  fold_left qmax (concat rows) 0%Qc.

(* whitened predictive on n points for one inducing set; None if L is singular *)
Definition wh_core (m n : nat) (KJ muJ : @M QcF) (jxx : Qc) (L mq Sq : @M QcF)
  : option (@M QcF * @M QcF) :=
  let Kzx := mat m n (sub 0 m KJ) in
  let Kxx := mat n n (add_jitter jxx (sub m m KJ)) in
  let mx := mat n 1 (sub m 0 muJ) in
  match inv_checked m (mat m m L) with
  | Some Linv =>
      let A := mat m n (interp m Linv Kzx) in
      Some (mat n 1 (wh_mean m A mx mq), mat n n (wh_cov_staged m n A Kxx Sq))
  | None => None
  end.

(* One case.  strat: 0 unwhitened; 1 whitened (root L supplied by the harness; the model
   reports max|L L^T - Kzz| so that the hypothesis of whitened_eq_unwhitened is checked);
   2 grid interpolation at grid nodes (exact limit: W one-hot => gather by idx);
   3 orthogonally decoupled on top of a whitened base (KJ on [Z; X; Zg], g mean-inducing
   points with delta weights xv, jkl = jitter added to C_gg in the KL term).
   Inputs: m n g, KJ (jitter free), muJ, jzz (added to K_zz in the predictive),
   jxx (added to K_xx), jkl (added to K_zz in the prior of the KL), kind p1 P2, L, xv, idx.
   Output: 0 on failure, else
   1 :: q(u) mean (m) ++ q(u) cov (m*m) ++ q(f) mean (n) ++ q(f) cov (n*n) ++ KL expr
     ++ [whitened only: root residual];
   4 = the whitened parameters through the unwhitened closed form (cross-check of the
   theorem on a few small cases);
   5 = grid interpolation at grid nodes without the KL term (constant 0) *)
Definition run_c14 (c : nat * (nat * nat * nat) * list (list Qc) * list Qc * (Qc * Qc * Qc)
                        * nat * list Qc * list (list Qc) * list (list Qc)
                        * list Qc * list nat) : list Z :=
  let '(strat, (m, n, g), kj, mu, (jzz, jxx, jkl), kind, p1, p2, l, xv, idx) := c in
  let KJ := of_list kj in let muJ := vec_of_list mu in
  let Kzz := mat m m (add_jitter jzz (sub 0 0 KJ)) in
  let Kzx := mat m n (sub 0 m KJ) in
  let Kxx := mat n n (add_jitter jxx (sub m m KJ)) in
  let mz := mat m 1 (sub 0 0 muJ) in let mx := mat n 1 (sub m 0 muJ) in
  match qu_moments kind m (vec_of_list p1) (of_list p2) with
  | None => [0%Z]
  | Some (has_cov, mq, Sq) =>
    match strat with
    | 0%nat =>
      let Kp := mat m m (add_jitter jkl (sub 0 0 KJ)) in
      match inv_checked m Kzz, inv_checked m Kp with
      | Some Kinv, Some Kpinv =>
          1%Z :: ser_mat m 1 mq ++ ser_mat m m Sq
              ++ ser_mat n 1 (unwh_mean_staged m Kzx Kinv mx mz mq)
              ++ ser_mat n n (unwh_cov_staged m n Kzz Kzx Kxx Kinv Sq)
              ++ ser_expr (kl_unwh_expr m has_cov Kp Kpinv Sq mq mz)
      | _, _ => [0%Z]
      end
    | 1%nat =>
      let L := of_list l in
      match wh_core m n KJ muJ jxx L mq Sq with
      | Some (pm, pc) =>
          1%Z :: ser_mat m 1 mq ++ ser_mat m m Sq
              ++ ser_mat n 1 pm ++ ser_mat n n pc
              ++ ser_expr (kl_wh_expr m has_cov Sq mq)
              ++ ser_qc (max_abs_diff m m (mmul m L (mT L)) Kzz)
      | None => [0%Z]
      end
    | 4%nat =>
      (* whitened parameters pushed through the UNWHITENED closed form with u = mz + L e
         (what theorem whitened_eq_unwhitened says must coincide with strat 1) *)
      let L := of_list l in
      match inv_checked m Kzz with
      | Some Kinv =>
          let Kxx0 := mat n n (sub m m KJ) in
          1%Z :: ser_mat m 1 mq ++ ser_mat m m Sq
              ++ ser_mat n 1 (unwh_mean_staged m Kzx Kinv mx mz (mat m 1 (unwhiten_mean m L mz mq)))
              ++ ser_mat n n (add_jitter jxx
                   (unwh_cov_staged m n Kzz Kzx Kxx0 Kinv (mat m m (unwhiten_cov_staged m L Sq))))
              ++ ser_expr (kl_wh_expr m has_cov Sq mq)
      | None => [0%Z]
      end
    | 2%nat =>
      let Kp := mat m m (add_jitter jkl (sub 0 0 KJ)) in
      let ix := fun i => nth i idx O in
      match inv_checked m Kp with
      | Some Kpinv =>
          1%Z :: ser_mat m 1 mq ++ ser_mat m m Sq
              ++ ser_mat n 1 (gather ix (fun x => x) mq)
              ++ ser_mat n n (gather ix ix Sq)
              ++ ser_expr (kl_unwh_expr m has_cov Kp Kpinv Sq mq mz)
      | None => [0%Z]
      end
    | 5%nat =>
      (* grid interpolation at grid nodes, predictive only (d >= 2: m = g^d is beyond the
         Laplace-expansion determinant; the KL code path does not depend on d) *)
      let ix := fun i => nth i idx O in
      1%Z :: ser_mat m 1 mq ++ ser_mat m m Sq
          ++ ser_mat n 1 (gather ix (fun x => x) mq)
          ++ ser_mat n n (gather ix ix Sq)
          ++ ser_expr (EConst 0%Qc)
    | _ =>
      let L := of_list l in
      match wh_core m (n + g) KJ muJ jxx L mq Sq with
      | Some (pm, pc) =>
          let mg := vec_of_list xv in
          let Cxg := mat n g (sub 0 n pc) in
          let Cgg := mat g g (add_jitter jkl (sub n n pc)) in
          1%Z :: ser_mat m 1 mq ++ ser_mat m m Sq
              ++ ser_mat n 1 (madd pm (mmul g Cxg mg)) ++ ser_mat n n pc
              ++ ser_expr (EAdd (kl_wh_expr m has_cov Sq mq)
                                (EConst (half * quad g mg Cgg)%Qc))
      | None => [0%Z]
      end
    end
  end.

(* BatchDecoupledVariationalStrategy: the mean is computed with the first inducing set, the
   covariance with the second (same whitened parameters); kl = -log N(m; 0, I)
   + KL(N(0,S) || N(0,I)) as coded.  Output: 1 :: q(u) mean ++ cov ++ mean (n) ++ cov (n*n)
   ++ KL expr *)
Definition run_c14_dec (c : (nat * nat) * (list (list Qc) * list Qc * list (list Qc))
                            * (list (list Qc) * list Qc * list (list Qc))
                            * Qc * nat * list Qc * list (list Qc)) : list Z :=
  let '((m, n), (kj1, mu1, l1), (kj2, mu2, l2), jxx, kind, p1, p2) := c in
  match qu_moments kind m (vec_of_list p1) (of_list p2) with
  | None => [0%Z]
  | Some (has_cov, mq, Sq) =>
    match wh_core m n (of_list kj1) (vec_of_list mu1) jxx (of_list l1) mq Sq,
          wh_core m n (of_list kj2) (vec_of_list mu2) jxx (of_list l2) mq Sq with
    | Some (pm, _), Some (_, pc) =>
        1%Z :: ser_mat m 1 mq ++ ser_mat m m Sq ++ ser_mat n 1 pm ++ ser_mat n n pc
            ++ ser_expr (EAdd (kl_wh_expr m false Sq mq) (kl_wh_expr m true Sq mzero))
    | _, _ => [0%Z]
    end
  end.

(* multitask wrappers, executed on latent moments supplied as lists:
   (Q, T, N, a (Q x T), mus (Q lists of N), Cs (Q matrices N x N), jitter) -> mean (N*T),
   cov (N*T)^2 of LMC; with a = None the independent-multitask layout (Q = T) *)
Definition run_c14_mt (c : nat * nat * nat * option (list (list Qc)) * list (list Qc)
                           * list (list (list Qc)) * Qc) : list Z :=
  let '(Q, T, N, a, mus, cs, j) := c in
  let mu := fun q => vec_of_list (nth q mus []) in
  let C := fun q => of_list (nth q cs []) in
  match a with
  | Some al =>
      let A := of_list al in
      ser_mat (N * T) 1 (lmc_mean Q T A mu) ++
      ser_mat (N * T) (N * T) (add_jitter j (lmc_cov Q T A C))
  | None =>
      ser_mat (N * T) 1 (indep_mean T mu) ++ ser_mat (N * T) (N * T) (indep_cov T C)
  end.
