(* C17 model: constraint transforms (gpytorch/constraints/constraints.py, utils/transforms.py),
   the parameter cell behind every `module.<param>` setter (gpytorch/module.py initialize +
   per-module _set_<param>), and the documented prior log densities, all as symbolic scalars
   [Expr.expr] over rational constants.  Definitions only; meaning over R via [den]. *)
From Coq Require Import Arith List ZArith QArith Qcanon Bool.
From GPV Require Import Base.LinAlg Base.Exec Base.Expr.
Import ListNotations.

Definition e1 : expr := EConst 1%Qc.
Definition e2 : expr := EConst (qc 2 1).

(* torch.sigmoid, torch.nn.Softplus, utils.transforms.inv_softplus / inv_sigmoid *)
Definition e_sigmoid (x : expr) : expr := EDiv e1 (EAdd e1 (EExp (ENeg x))).
Definition e_softplus (x : expr) : expr := ELog (EAdd e1 (EExp x)).
Definition e_inv_softplus (y : expr) : expr := EAdd y (ELog (ESub e1 (EExp (ENeg y)))).
Definition e_inv_sigmoid (y : expr) : expr := ESub (ELog y) (ELog (ESub e1 y)).

Inductive cons : Type :=
| CInterval (l u : Qc)      (* Interval(l, u): sigmoid *)
| CGreater (l : Qc)         (* GreaterThan(l): softplus *)
| CLess (u : Qc)            (* LessThan(u):   -softplus(-x) + u *)
| CPositive.                (* Positive() *)

Definition transform_e (c : cons) (x : expr) : expr :=
  match c with
  | CInterval l u => EAdd (EMul (e_sigmoid x) (EConst (u - l)%Qc)) (EConst l)
  | CGreater l => EAdd (e_softplus x) (EConst l)
  | CLess u => EAdd (ENeg (e_softplus (ENeg x))) (EConst u)
  | CPositive => e_softplus x
  end.

Definition inverse_e (c : cons) (y : expr) : expr :=
  match c with
  | CInterval l u => e_inv_sigmoid (EDiv (ESub y (EConst l)) (EConst (u - l)%Qc))
  | CGreater l => e_inv_softplus (ESub y (EConst l))
  | CLess u => ENeg (e_inv_softplus (ENeg (ESub y (EConst u))))
  | CPositive => e_inv_softplus y
  end.

(* strict interior test on rational values (what the setter accepts without saturating) *)
Definition Qc_ltb (a b : Qc) : bool := negb (Qle_bool (this b) (this a)).
Definition interior_q (c : cons) (v : Qc) : bool :=
  match c with
  | CInterval l u => Qc_ltb l v && Qc_ltb v u
  | CGreater l => Qc_ltb l v
  | CLess u => Qc_ltb v u
  | CPositive => Qc_ltb 0%Qc v
  end.

(* ---- the parameter cell, generic in the carrier of raw values ----------------------------
   ops: Set v            module.<param> = v            (raw := inverse v, rejected outside)
        InitRaw r        module.initialize(raw_<param>=r)
        InitCons v       module.initialize(<param>=v)  (same path as the setter)
        Step d           an optimiser step raw += d *)
Inductive op (V T : Type) : Type :=
| Set_ (v : V) | InitRaw (r : T) | InitCons (v : V) | Step (d : T).
Arguments Set_ {V T}. Arguments InitRaw {V T}. Arguments InitCons {V T}. Arguments Step {V T}.

Section Cell.
Variables (V T : Type).
Variable inverse : V -> T.        (* raw value for a constrained value *)
Variable interior : V -> bool.    (* is the constrained value strictly inside the bounds *)
Variable plus : T -> T -> T.

(* state: raw value and the number of rejected operations so far *)
Definition cell : Type := (T * nat)%type.

Definition step (s : cell) (o : op V T) : cell :=
  let '(raw, rej) := s in
  match o with
  | Set_ v | InitCons v => if interior v then (inverse v, rej) else (raw, S rej)
  | InitRaw r => (r, rej)
  | Step d => (plus raw d, rej)
  end.

Definition run (s : cell) (ops : list (op V T)) : cell := fold_left step ops s.

(* the trace of states after every op *)
Fixpoint trace (s : cell) (ops : list (op V T)) : list cell :=
  match ops with
  | [] => []
  | o :: r => let s' := step s o in s' :: trace s' r
  end.
End Cell.

Definition step_e (c : cons) := step Qc expr (fun v => inverse_e c (EConst v)) (interior_q c) EAdd.
Definition trace_e (c : cons) := trace Qc expr (fun v => inverse_e c (EConst v)) (interior_q c) EAdd.
Definition read_e (c : cons) (s : cell expr) : expr := transform_e c (fst s).

(* ---- a module with SEVERAL constrained parameters -----------------------------------------
   (PeriodicKernel: lengthscale + period_length; RQKernel: lengthscale + alpha; MultitaskGaussianLikelihood:
   noise + task_noises; ...).  One cell per parameter, each with ITS OWN constraint object.  The setter of
   parameter i is `initialize(raw_i = constraint.inverse_transform(v))`; WHICH registered constraint it
   consults is the parameter [via] (the identity in correct code; the getter always uses constraint i). *)
Definition mstate : Type := list (cons * cell expr).
Definition cons_at (s : mstate) (i : nat) : cons := fst (nth i s (CPositive, (EConst 0%Qc, O))).
(* the setter/initialiser of a parameter read through [c] that consults [cv] *)
Definition step_via (c cv : cons) : cell expr -> op Qc expr -> cell expr :=
  step Qc expr (fun v => inverse_e cv (EConst v)) (interior_q cv) EAdd.
Fixpoint mupd (s : mstate) (i : nat) (f : cons -> cell expr -> cell expr) : mstate :=
  match s, i with
  | [], _ => []
  | (c, cl) :: r, O => (c, f c cl) :: r
  | x :: r, S i' => x :: mupd r i' f
  end.
Definition mstep_via (via : nat -> nat) (s : mstate) (io : nat * op Qc expr) : mstate :=
  mupd s (fst io) (fun c cl => step_via c (cons_at s (via (fst io))) cl (snd io)).
Definition mstep : mstate -> nat * op Qc expr -> mstate := mstep_via (fun i => i).
Fixpoint mtrace (s : mstate) (ops : list (nat * op Qc expr)) : list mstate :=
  match ops with
  | [] => []
  | o :: r => let s' := mstep s o in s' :: mtrace s' r
  end.
Definition mread (s : mstate) : list expr := map (fun p => read_e (fst p) (snd p)) s.

(* ---- histories in which the BOUNDS of the parameter are replaced ---------------------------
   The bounds of a constraint are module state (buffers lower_bound / upper_bound, part of the state dict),
   the constraint object itself can be exchanged (Module.register_constraint).  State: the constraint IN
   FORCE and the cell.  Every read / assignment / rejection consults the constraint in force - nothing
   derived from earlier bounds (a width, an initial value) survives a replacement.
     BOp o          an ordinary operation (Set_ / InitCons / InitRaw / Step)
     BReplace c'    register_constraint(raw_<param>, c') / load_state_dict of the bound buffers only /
                    (with c' = the constraint in force) .double() .to() .cpu() deepcopy pickle: raw value kept
     BLoad c' r     load_state_dict from a module built with constraint c' whose raw value is r *)
Inductive bop : Type :=
| BOp (o : op Qc expr) | BReplace (c' : cons) | BLoad (c' : cons) (r : expr).
Definition bstate : Type := (cons * cell expr)%type.
Definition bstep (s : bstate) (o : bop) : bstate :=
  match o with
  | BOp o' => (fst s, step_e (fst s) (snd s) o')
  | BReplace c' => (c', snd s)
  | BLoad c' r => (c', (r, snd (snd s)))
  end.
Fixpoint btrace (s : bstate) (ops : list bop) : list bstate :=
  match ops with
  | [] => []
  | o :: r => let s' := bstep s o in s' :: btrace s' r
  end.
Definition bread (s : bstate) : expr := read_e (fst s) (snd s).
(* what a transform that kept the WIDTH of earlier bounds (u0 - l0) would read under new bounds (l, u):
   only used by the refutation theorem c17_stale_width_refuted *)
Definition transform_stale_e (l : Qc) (w0 : Qc) (x : expr) : expr :=
  EAdd (EMul (e_sigmoid x) (EConst w0)) (EConst l).

(* ---- prior log densities (documented formulas) ------------------------------------------- *)
Definition e_half : expr := EConst (qc 1 2).
Definition e_sq (x : expr) : expr := EMul x x.
Definition e_ln2pi : expr := ELog (EMul e2 EPi).

(* NormalPrior: pdf = (2 pi s^2)^-1/2 exp(-(x-mu)^2 / (2 s^2)) *)
Definition lp_normal (mu s x : expr) : expr :=
  ESub (ENeg (EDiv (e_sq (ESub x mu)) (EMul e2 (e_sq s)))) (EAdd (ELog s) (EMul e_half e_ln2pi)).
(* LogNormalPrior: Normal.log_prob(ln x) - ln x *)
Definition lp_lognormal (mu s x : expr) : expr := ESub (lp_normal mu s (ELog x)) (ELog x).
(* HalfNormalPrior: 2 * normal pdf(0, s) on x >= 0 *)
Definition lp_halfnormal (s x : expr) : expr := EAdd (ELog e2) (lp_normal (EConst 0%Qc) s x).
(* GammaPrior: b^a / Gamma(a) x^(a-1) exp(-b x) *)
Definition lp_gamma (a b x : expr) : expr :=
  ESub (EAdd (EMul a (ELog b)) (ESub (EMul (ESub a e1) (ELog x)) (EMul b x))) (ELgamma a).
(* HalfCauchyPrior: 2 / (pi s (1 + (x/s)^2)) on x >= 0 *)
Definition lp_halfcauchy (s x : expr) : expr :=
  ESub (ELog e2) (EAdd (ELog (EMul EPi s)) (ELog (EAdd e1 (e_sq (EDiv x s))))).
(* UniformPrior on [a, b) *)
Definition lp_uniform (a b : expr) : expr := ENeg (ELog (ESub b a)).
(* SmoothedBoxPrior (one dimension): N(d(x,[a,b]); 0, s) / (1 + (b-a)/(sqrt(2 pi) s)) *)
Definition e_boxdist (a b x : expr) : expr :=
  EMax (ESub (EAbs (ESub x (EDiv (EAdd a b) e2))) (EDiv (ESub b a) e2)) (EConst 0%Qc).
Definition lp_smoothedbox (a b s x : expr) : expr :=
  ESub (lp_normal (EConst 0%Qc) s (e_boxdist a b x))
       (ELog (EAdd e1 (EDiv (ESub b a) (EMul (ESqrt (EMul e2 EPi)) s)))).
(* HorseshoePrior: log of the average of the documented bounds *)
Definition lp_horseshoe (s x : expr) : expr :=
  let A := e_sq (EDiv s x) in
  let K := EDiv e1 (ESqrt (EMul e2 (EIPow EPi 3))) in
  let lb := EMul (EDiv K e2) (ELog (EAdd e1 (EMul (EConst (qc 4 1)) A))) in
  let ub := EMul K (ELog (EAdd e1 (EMul e2 A))) in
  ELog (EDiv (EAdd lb ub) e2).

(* ---- LKJ priors (gpytorch/priors/lkj_prior.py; torch.distributions.LKJCholesky) ------------ *)
Definition qn (k : nat) : Qc := Q2Qc (inject_Z (Z.of_nat k)).
Definition e_sum (l : list expr) : expr := fold_right EAdd (EConst 0%Qc) l.
(* torch.mvlgamma(a, p) = p(p-1)/4 ln pi + sum_{j=0}^{p-1} lgamma(a - j/2) *)
Definition e_mvlgamma (a : expr) (p : nat) : expr :=
  EAdd (EMul (EConst (qn (p * (p - 1)) / qc 4 1)%Qc) (ELog EPi))
       (e_sum (map (fun j => ELgamma (ESub a (EConst (qn j / qc 2 1)%Qc))) (seq 0 p))).
(* log of the normalising constant of LKJ(n, eta) (Lewandowski, Kurowicka, Joe 2009, p. 1999):
   (n-1)/2 ln pi + mvlgamma(alpha - 1/2, n-1) - (n-1) lgamma(alpha),  alpha = eta + (n-1)/2 *)
Definition e_lkj_lognorm (n : nat) (eta : expr) : expr :=
  let dm1 := (n - 1)%nat in
  let alpha := EAdd eta (EConst (qn dm1 / qc 2 1)%Qc) in
  ESub (EAdd (EMul (EConst (qn dm1 / qc 2 1)%Qc) (ELog EPi)) (e_mvlgamma (ESub alpha e_half) dm1))
       (EMul (EConst (qn dm1)) (ELgamma alpha)).
(* density of the correlation MATRIX Sigma = L L^T, as documented for LKJPrior:
   C |Sigma|^(eta-1), |Sigma| = prod_i L_ii^2.   [diag] = [L_11; ...; L_nn] *)
Definition lp_lkj_corr (n : nat) (eta : expr) (diag : list expr) : expr :=
  ESub (e_sum (map (fun d => EMul (EMul e2 (ESub eta e1)) (ELog d)) diag)) (e_lkj_lognorm n eta).
(* the Jacobian of Sigma -> L: prod_{i>=2} L_ii^(n-i) *)
Definition e_lkj_logjac (n : nat) (diag : list expr) : expr :=
  e_sum (map (fun id => EMul (EConst (qn (n - fst id))) (ELog (snd id))) (tl (combine (seq 1 n) diag))).
(* density of the Cholesky FACTOR (LKJCholeskyFactorPrior = torch LKJCholesky):
   prod_{i>=2} L_ii^(2(eta-1) + n - i) / normaliser *)
Definition lp_lkj_chol (n : nat) (eta : expr) (diag : list expr) : expr :=
  ESub (e_sum (map (fun id => EMul (EAdd (EMul e2 (ESub eta e1)) (EConst (qn (n - fst id)))) (ELog (snd id)))
                   (tl (combine (seq 1 n) diag))))
       (e_lkj_lognorm n eta).

(* ---- executable wrappers ------------------------------------------------------------------ *)
Definition ser_list {A} (f : A -> list Z) (l : list A) : list Z := flat_map f l.

(* transform sweep: constraint, raw values -> transform(raw) terms *)
Definition run_transform (c : cons * list Qc) : list Z :=
  let '(k, raws) := c in ser_list (fun r => ser_expr (transform_e k (EConst r))) raws.
(* the same with raw values given as terms (m * 2^e for the extremes of the float range) *)
Definition run_transform_e (c : cons * list expr) : list Z :=
  let '(k, raws) := c in ser_list (fun r => ser_expr (transform_e k r)) raws.
(* inverse sweep: constraint, interior values -> [ok; inverse(v) term]; 0 if not interior *)
Definition run_inverse (c : cons * list Qc) : list Z :=
  let '(k, vs) := c in
  ser_list (fun v => if interior_q k v then 1%Z :: ser_expr (inverse_e k (EConst v)) else [0%Z]) vs.
(* history: constraint, initial raw, ops -> per op: rejected-count, read term *)
Definition run_history (c : cons * Qc * list (op Qc expr)) : list Z :=
  let '(k, r0, ops) := c in
  ser_list (fun s : cell expr => Z.of_nat (snd s) :: ser_expr (read_e k s)) (trace_e k (EConst r0, O) ops).

(* multi-parameter history: [(constraint_i, raw0_i)], ops addressed by parameter index -> per op, per
   parameter: rejected-count, read term *)
Definition run_mhistory (c : list (cons * Qc) * list (nat * op Qc expr)) : list Z :=
  let '(cs, ops) := c in
  ser_list (fun s : mstate =>
              ser_list (fun p : cons * cell expr => Z.of_nat (snd (snd p)) :: ser_expr (read_e (fst p) (snd p))) s)
           (mtrace (map (fun p => (fst p, (EConst (snd p), O))) cs) ops).

(* history with bound replacements: constraint, initial raw, ops -> per op: rejected-count, read term
   under the constraint in force after the op *)
Definition run_bhistory (c : cons * Qc * list bop) : list Z :=
  let '(k, r0, ops) := c in
  ser_list (fun s : bstate => Z.of_nat (snd (snd s)) :: ser_expr (bread s)) (btrace (k, (EConst r0, O)) ops).

Inductive prior_cfg :=
| PNormal (mu s : Qc) | PLogNormal (mu s : Qc) | PHalfNormal (s : Qc) | PGamma (a b : Qc)
| PHalfCauchy (s : Qc) | PUniform (a b : Qc) | PSmoothedBox (a b s : Qc) | PHorseshoe (s : Qc).

Definition lp_of_e (p : prior_cfg) (x : expr) : expr :=
  let c := EConst in
  match p with
  | PNormal mu s => lp_normal (c mu) (c s) x
  | PLogNormal mu s => lp_lognormal (c mu) (c s) x
  | PHalfNormal s => lp_halfnormal (c s) x
  | PGamma a b => lp_gamma (c a) (c b) x
  | PHalfCauchy s => lp_halfcauchy (c s) x
  | PUniform a b => lp_uniform (c a) (c b)
  | PSmoothedBox a b s => lp_smoothedbox (c a) (c b) (c s) x
  | PHorseshoe s => lp_horseshoe (c s) x
  end.
Definition lp_of (p : prior_cfg) (x : Qc) : expr := lp_of_e p (EConst x).

(* Prior(transform=t): log_prob(x) = base log density at t(x)  (gpytorch/priors/prior.py:27-35).
   t: 0 identity, 1 log, 2 exp, 3 square *)
Definition apply_tr (t : nat) (x : expr) : expr :=
  match t with 1%nat => ELog x | 2%nat => EExp x | 3%nat => EMul x x | _ => x end.
Definition run_prior_tr (c : prior_cfg * nat * list Qc) : list Z :=
  let '(p, t, xs) := c in ser_list (fun x => ser_expr (lp_of_e p (apply_tr t (EConst x)))) xs.

(* MultivariateNormalPrior: pdf(x) = det(2 pi Sigma)^-1/2 exp(-1/2 (x-mu)' Sigma^-1 (x-mu)).
   case = (k, mu, Sigma rows, x); result 0 if Sigma is singular, else 1; expr of the log density:
   -1/2 ( quad + ln det Sigma + k ln(2 pi) ) with the rational quadratic form and determinant *)
Definition run_mvn (c : nat * list Qc * list (list Qc) * list Qc) : list Z :=
  let '(k, mu, sg, x) := c in
  let S : @M QcF := @of_list QcF sg in
  let r : @M QcF := fun i _ => (nth i x 0%Qc - nth i mu 0%Qc)%Qc in
  match inv_checked k S with
  | Some Si =>
      let quad := @mmul QcF k (@mT QcF r) (@mmul QcF k Si r) O O in
      1%Z :: ser_expr (EMul (EConst (qc (-1) 2))
                         (EAdd (EAdd (EConst quad) (ELog (EConst (det k S)))) (EMul (EConst (qn k)) e_ln2pi)))
  | None => [0%Z]
  end.

Definition run_prior (c : prior_cfg * list Qc) : list Z :=
  let '(p, xs) := c in ser_list (fun x => ser_expr (lp_of p x)) xs.

(* LKJ: (n, eta, diagonal of the Cholesky factor) -> [density of the factor; density of the matrix] *)
Definition run_lkj (c : nat * Qc * list Qc) : list Z :=
  let '(n, eta, ds) := c in
  ser_expr (lp_lkj_chol n (EConst eta) (map EConst ds)) ++ ser_expr (lp_lkj_corr n (EConst eta) (map EConst ds)).

Inductive c17_case :=
| KTransform (c : cons * list Qc) | KTransformE (c : cons * list expr) | KInverse (c : cons * list Qc)
| KHistory (c : cons * Qc * list (op Qc expr)) | KPrior (c : prior_cfg * list Qc)
| KLKJ (c : nat * Qc * list Qc) | KPriorT (c : prior_cfg * nat * list Qc)
| KMVN (c : nat * list Qc * list (list Qc) * list Qc)
| KMHistory (c : list (cons * Qc) * list (nat * op Qc expr))
| KBHistory (c : cons * Qc * list bop).

Definition run_c17 (k : c17_case) : list Z :=
  match k with
  | KTransform c => run_transform c | KTransformE c => run_transform_e c | KInverse c => run_inverse c
  | KHistory c => run_history c | KPrior c => run_prior c | KLKJ c => run_lkj c
  | KPriorT c => run_prior_tr c | KMVN c => run_mvn c | KMHistory c => run_mhistory c
  | KBHistory c => run_bhistory c
  end.
