(* C04 model, part 2: shapes in the multitask branch of DefaultPredictionStrategy.get_fantasy_strategy
   (gpytorch/models/exact_prediction_strategies.py:140-196) and the (point, task) row layout.
   Definitions only.

   targets and fant_mean are `B x m x T`; ftcm = fant_train_covar @ mean_cache is `B x mT` (rows of the
   interleaved covariance).  The code computes  targets - fant_mean - ftcm  with torch broadcasting:
   [mt_rhs_shape_code].  The bordered system of Models/C04_fantasy.v needs the `B x mT` vector
   [mt_rhs_shape_spec]; [mt_rhs_shape_fixed] is the shape after fixes_proposed/C04_multitask_fantasy_shapes.diff
   (both operands flattened first). *)
From Coq Require Import Arith List.
Import ListNotations.
From GPV Require Import Models.C08_shape.

Definition mt_rhs_shape_code (B : shape) (m T : nat) : option shape :=
  match broadcast_shapes (B ++ [m; T]) (B ++ [m; T]) with
  | Some s => broadcast_shapes s (B ++ [m * T])
  | None => None
  end.

Definition mt_rhs_shape_spec (B : shape) (m T : nat) : shape := B ++ [m * T].

Definition mt_rhs_shape_fixed (B : shape) (m T : nat) : option shape :=
  match broadcast_shapes (B ++ [m * T]) (B ++ [m * T]) with
  | Some s => broadcast_shapes s (B ++ [m * T])
  | None => None
  end.

(* row of (point i, task a) in the interleaved (point-major) layout the covariance of a
   MultitaskMultivariateNormal uses, and in the non-interleaved (task-major) one, for N points *)
Definition mt_row (T i a : nat) : nat := i * T + a.
Definition mt_row_noninterleaved (N i a : nat) : nat := a * N + i.
