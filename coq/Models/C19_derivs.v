(* C19 model: forward functions and HAND-WRITTEN backward formulas of the library's custom
   autograd Functions, transcribed from the source (functions/rbf_covariance.py,
   functions/matern_covariance.py, functions/_log_normal_cdf.py,
   variational/natural_variational_distribution.py).  Written once over [TOps] (C05): run on
   [TE] (expr terms, evaluated by mpmath in the harness), stated over [TR] (reals).
   Definitions only. *)
From Coq Require Import Arith List ZArith QArith Qcanon Reals Bool.
From GPV Require Import Base.LinAlg Base.Exec Base.Expr Models.C05_kernels.
Import ListNotations.

Section Generic.
Context {T : TOps}.

(* RBFCovariance: s = |x1/l - x2/l|^2 (unitless squared distance), forward exp(-s/2),
   saved for backward: s * covar / l;  backward: grad_output * saved *)
Definition rbf_fwd (s : tc) : tc := texp (tdiv s (tneg t2)).
Definition rbf_saved (s l : tc) : tc := tdiv (tmul s (rbf_fwd s)) l.
(* as a function of the lengthscale, with D2 = |x1 - x2|^2 *)
Definition rbf_of_l (D2 l : tc) : tc := rbf_fwd (tdiv D2 (tsq l)).
Definition rbf_bwd_of_l (D2 l : tc) : tc := rbf_saved (tdiv D2 (tsq l)) l.

(* MaternCovariance: z = sqrt(2 nu) * |x1/l - x2/l| (scaled unitless distance); nu2 = 2 nu *)
Definition mat_fwd (nu2 : nat) (z : tc) : tc :=
  match nu2 with
  | 1%nat => texp (tneg z)
  | 3%nat => tmul (tadd z t1) (texp (tneg z))
  | _ => tmul (tadd (tadd z t1) (tdiv (tsq z) (tnat 3))) (texp (tneg z))
  end.
Definition mat_saved (nu2 : nat) (z l : tc) : tc :=
  match nu2 with
  | 1%nat => tmul (tdiv z l) (texp (tneg z))
  | 3%nat => tmul (tdiv (tsq z) l) (texp (tneg z))
  | _ => tdiv (tmul (tmul (tadd z t1) (tdiv (tsq z) (tnat 3))) (texp (tneg z))) l
  end.
(* as functions of the lengthscale, D = |x1 - x2| >= 0, c = sqrt(2 nu) *)
Definition mat_of_l (nu2 : nat) (c D l : tc) : tc := mat_fwd nu2 (tdiv (tmul c D) l).
Definition mat_bwd_of_l (nu2 : nat) (c D l : tc) : tc := mat_saved nu2 (tdiv (tmul c D) l) l.

(* _NaturalToMuVarSqrt for a single inducing value (n = 1), and, coordinate-wise, for diagonal
   natural matrices.  forward: (theta1, theta2) |-> (mu, L), S = 1/(-2 theta2), mu = S theta1,
   L = sqrt S.  backward(dout/dmu, dout/dL) claims to return dout/d(eta1, eta2) for the
   expectation parameters eta1 = mu, eta2 = mu^2 + L^2:
     dSigma = _cholesky_backward(gL, L, 1/L) = sym((1/L) * phi(L gL) * (1/L)), phi = halve;
     deta1 = gmu - 2 dSigma mu;  deta2 = dSigma *)
Definition nat1_fwd_mu (th1 th2 : tc) : tc := tmul (tdiv t1 (tmul (tneg t2) th2)) th1.
Definition nat1_fwd_L (th2 : tc) : tc := tsqrt (tdiv t1 (tmul (tneg t2) th2)).
Definition nat1_bwd_eta2 (gL L : tc) : tc :=
  let C := tdiv t1 L in
  let phi := tdiv (tmul L gL) t2 in
  let g := tmul (tmul C phi) C in
  tdiv (tadd g g) t2.
Definition nat1_bwd_eta1 (gmu gL mu L : tc) : tc :=
  tsub gmu (tmul t2 (tmul (nat1_bwd_eta2 gL L) mu)).
(* the map from expectation parameters back to (mu, L) that the backward differentiates *)
Definition eta_to_L (e1 e2 : tc) : tc := tsqrt (tsub e2 (tsq e1)).

(* _NgdInterpTerms (variational/ciq_variational_strategy.py) for ONE inducing value and ONE data point.
   forward(k, theta1, theta2): prec = -2 theta2, m = theta1 / prec (CG solve), sk = k / prec,
   interp_mean = sk * theta1, interp_var = sk * k, kl = 0 (value not computed); saved: k, sk, interp_mean,
   theta1 (natural_vec), m (expec_vec), prec.
   backward(gm, gv, gk) (upstream gradients of mean, variance, KL) claims to return the gradient with respect to
   the interpolation term k and to the EXPECTATION parameters eta1 = m, eta2 = m^2 + S (S = 1/prec):
     dk    = 2 gv sk + gm m
     deta1 = -2 gv interp_mean k + gm k + gk natural_vec
     deta2 = gv k k + gk (1 - prec) / 2 *)
Definition ciq1_prec (th2 : tc) : tc := tmul (tneg t2) th2.
Definition ciq1_m (th1 th2 : tc) : tc := tdiv th1 (ciq1_prec th2).
Definition ciq1_sk (k th2 : tc) : tc := tdiv k (ciq1_prec th2).
Definition ciq1_mean (k th1 th2 : tc) : tc := tmul (ciq1_sk k th2) th1.
Definition ciq1_var (k th2 : tc) : tc := tmul (ciq1_sk k th2) k.
Definition ciq1_bwd_k (gm gv sk m : tc) : tc := tadd (tmul (tmul gv sk) t2) (tmul gm m).
Definition ciq1_bwd_eta1 (gm gv gk k imean natvec : tc) : tc :=
  tadd (tadd (tmul (tmul (tmul gv imean) k) (tneg t2)) (tmul gm k)) (tmul gk natvec).
Definition ciq1_bwd_eta2 (gv gk k prec : tc) : tc :=
  tadd (tmul (tmul gv k) k) (tmul gk (tdiv (tsub t1 prec) t2)).

End Generic.

(* LogNormalCDF.backward, branch z >= -1:  exp(-z^2/2 - log_phi_z + log(1/2)) * sqrt(2/pi) *)
Definition lncdf_bwd_R (z logphi : R) : R :=
  (exp (- (z * z) / 2 - logphi + ln (1 / 2)) * sqrt (2 / PI))%R.
(* the true derivative of log Phi: phi(z) / Phi(z), as an expr for the harness *)
Definition lncdf_grad_expr (z : expr) : expr :=
  EDiv (EDiv (EExp (EDiv (ENeg (EMul z z)) (EConst (Q2Qc 2)))) (ESqrt (EMul (EConst (Q2Qc 2)) EPi))) (EPhi z).
Definition lncdf_value_expr (z : expr) : expr := ELog (EPhi z).
(* the vector-Jacobian product LogNormalCDF.backward returns for an upstream gradient g (any sign) *)
Definition lncdf_vjp_R (g z logphi : R) : R := (g * lncdf_bwd_R z logphi)%R.

(* the objective whose gradient _NgdInterpTerms.backward claims to return, as a function of the expectation
   parameters (e1, e2) of q(u) and of the interpolation term k (one inducing value, one data point):
   gm * mean + gv * variance-term + gk * KL(q(u) || N(0,1)),
   mean = k e1, variance-term = k^2 (e2 - e1^2), KL = 1/2 (-ln(e2 - e1^2) + e2 - 1) *)
Definition ciq1_kl_R (e1 e2 : R) : R := ((- ln (e2 - e1 * e1) + e2 - 1) / 2)%R.
Definition ciq1_obj_R (gm gv gk k e1 e2 : R) : R :=
  (gm * (k * e1) + gv * (k * k * (e2 - e1 * e1)) + gk * ciq1_kl_R e1 e2)%R.

(* ------------------------------------------------------------------ executable wrapper *)
Inductive djob : Type :=
| DRBF (l : Qc)                          (* per pair: value, d value / d lengthscale *)
| DMatern (nu2 : nat) (l : Qc)
| DLnCdf                                  (* x1 = [[z]]: value, derivative *)
| DNat1 (gmu gS : Qc)                     (* x1 = [[theta1; theta2]]; upstream gradients of the mean and
                                            of the VARIANCE L^2 (so dout/dL = 2 gS L): mu, L, deta1, deta2 *)
| DCiq1 (gm gv gk : Qc).                  (* x1 = [[k; theta1; theta2]]: interp_mean, interp_var, dk, deta1, deta2 *)

Definition run_djob (c : djob * list (list Qc) * list (list Qc)) : list Z :=
  let '(j, x1, x2) := c in
  let d := length (hd [] x1) in
  let X1 := fun i => @vfun TE (map EConst (nth i x1 [])) in
  let X2 := fun i => @vfun TE (map EConst (nth i x2 [])) in
  let one := fun (_ : nat) => EConst 1 in
  let pairs := fun (f : expr -> list Z) =>
    flat_map (fun i => flat_map (fun jx => f (@sqd TE d (X1 i) (X2 jx) one)) (seq 0 (length x2)))
             (seq 0 (length x1)) in
  match j with
  | DRBF l => pairs (fun D2 =>
      ser_expr (@rbf_of_l TE D2 (EConst l)) ++ ser_expr (@rbf_bwd_of_l TE D2 (EConst l)))
  | DMatern nu2 l => pairs (fun D2 =>
      let c := ESqrt (@tnat TE nu2) in
      let D := @tsqrt TE D2 in
      ser_expr (@mat_of_l TE nu2 c D (EConst l)) ++ ser_expr (@mat_bwd_of_l TE nu2 c D (EConst l)))
  | DLnCdf =>
      let z := EConst (nth 0 (nth 0 x1 []) 0%Qc) in
      ser_expr (lncdf_value_expr z) ++ ser_expr (lncdf_grad_expr z)
  | DNat1 gmu gS =>
      let th1 := EConst (nth 0 (nth 0 x1 []) 0%Qc) in
      let th2 := EConst (nth 1 (nth 0 x1 []) 0%Qc) in
      let mu := @nat1_fwd_mu TE th1 th2 in
      let L := @nat1_fwd_L TE th2 in
      let gL := @tmul TE (@tmul TE (@tnat TE 2) (EConst gS)) L in
      ser_expr mu ++ ser_expr L
      ++ ser_expr (@nat1_bwd_eta1 TE (EConst gmu) gL mu L)
      ++ ser_expr (@nat1_bwd_eta2 TE gL L)
  | DCiq1 gm gv gk =>
      let k := EConst (nth 0 (nth 0 x1 []) 0%Qc) in
      let th1 := EConst (nth 1 (nth 0 x1 []) 0%Qc) in
      let th2 := EConst (nth 2 (nth 0 x1 []) 0%Qc) in
      let im := @ciq1_mean TE k th1 th2 in
      ser_expr im ++ ser_expr (@ciq1_var TE k th2)
      ++ ser_expr (@ciq1_bwd_k TE (EConst gm) (EConst gv) (@ciq1_sk TE k th2) (@ciq1_m TE th1 th2))
      ++ ser_expr (@ciq1_bwd_eta1 TE (EConst gm) (EConst gv) (EConst gk) k im th1)
      ++ ser_expr (@ciq1_bwd_eta2 TE (EConst gv) (EConst gk) k (@ciq1_prec TE th2))
  end.
