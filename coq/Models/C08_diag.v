(* C08 model, part 2: two shape decisions of the code that the recorded findings are about.
   Definitions only.

   1. Kernel.__call__(x1, x2, diag=True)  (gpytorch/kernels/kernel.py:528-535): after calling
      forward(..., diag=True) the code decides whether the kernel "ate" the diag option by
          res.dim() == x1_.dim() and res.shape[-2:] == (n, n)
      and, if so, takes the diagonal of the last two dimensions.  [takes_diagonal res x n] is
      that test on shapes (res = shape of the tensor returned by forward, x = shape of x1_,
      n = number of points).  A kernel with batch shape sp on inputs of batch shape sd returns
      t ++ [n] when it honours diag and t ++ [n; n] when it does not (t = broadcast batch).
      [takes_diagonal_fixed] is the test of fixes_proposed/C08_kernel_diag_batch_rank_heuristic.diff
      (compares with the rank of the broadcast batch instead of the rank of x).

   2. _MultitaskGaussianLikelihoodBase._shaped_noise_covar
      (gpytorch/likelihoods/multitask_gaussian_likelihood.py:134-137): the task-noise operator
      (batch shape sp = the likelihood's) is EXPANDED to the data batch shape sd with
      Tensor.expand, which succeeds iff [expands_to sp sd]; the result then has batch shape sd.
      [mt_noise_batch] is the batch shape of the noise covariance the code produces (None =
      raises); the property demands [broadcast_shapes sp sd]. *)
From Coq Require Import Arith List Bool ZArith.
Import ListNotations.
From GPV Require Import Models.C08_shape.

Definition last_two_are (s : shape) (n : nat) : bool :=
  match rev s with
  | a :: b :: _ => Nat.eqb a n && Nat.eqb b n
  | _ => false
  end.

Definition takes_diagonal (res x : shape) (n : nat) : bool :=
  Nat.eqb (length res) (length x) && last_two_are res n.

Definition takes_diagonal_fixed (res t : shape) (n : nat) : bool :=
  Nat.eqb (length res) (length t + 2) && last_two_are res n.

(* shape of kernel(x, diag=True) as Kernel.__call__ returns it, given what forward returned *)
Definition call_diag_shape (res x : shape) (n : nat) : shape :=
  if takes_diagonal res x n then removelast res else res.

(* Tensor.expand to [target] on a tensor of shape s: right-aligned, only size-1 dimensions stretch,
   the target may have more (leading) dimensions but not fewer *)
Fixpoint expand_rev (s target : list nat) : bool :=
  match s, target with
  | [], _ => true
  | _ :: _, [] => false
  | x :: s', y :: t' => (Nat.eqb x y || Nat.eqb x 1) && expand_rev s' t'
  end.
Definition expands_to (s target : shape) : bool := expand_rev (rev s) (rev target).

Definition mt_noise_batch (sp sd : shape) : option shape :=
  if expands_to sp sd then Some sd else None.

(* ---- executable wrapper: run_shapes extended by the two input-class bits the driver uses to key
   the recorded findings: [diag collision for n points; likelihood batch expands to data batch] *)
Definition b2z (b : bool) : Z := if b then 1%Z else 0%Z.
Definition run_shapes_cls (c : nat * (list nat * list nat)) : list Z :=
  let '(n, (sp, sd)) := c in
  run_shapes (sp, sd) ++
  match broadcast_shapes sp sd with
  | None => []
  | Some t => [b2z (takes_diagonal (t ++ [n]) (sd ++ [n; 2]) n); b2z (expands_to sp sd)]
  end.
