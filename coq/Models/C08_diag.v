(* C08 model, part 2: two shape decisions of the code.  Definitions only.

   1. Kernel.__call__(x1, x2, diag=True)  (gpytorch/kernels/kernel.py:528-540): after calling
      forward(..., diag=True) the code decides whether the kernel "ate" the diag option and, if not,
      takes the diagonal of the last two dimensions.  A kernel with batch shape sp on inputs of batch
      shape sd returns t ++ [n] when it honours diag and t ++ [n; n] when it does not (t = broadcast
      batch, n = number of points).
        [takes_diagonal_fixed res t n]: the CURRENT test (since /repo a464a56):
            res.dim() == len(broadcast batch) + 2 and res.shape[-2:] == (n, n)
        [takes_diagonal res x n]: the test up to /repo 0d5c998 (finding C08-kernel-diag-batch-rank-heuristic, fixed):
            res.dim() == x1_.dim() and res.shape[-2:] == (n, n)
      [call_diag_shape_fixed] / [call_diag_shape]: shape that kernel(x, diag=True) returns under either test.

   2. _MultitaskGaussianLikelihoodBase._shaped_noise_covar
      (gpytorch/likelihoods/multitask_gaussian_likelihood.py:134-140): batch shape of the noise covariance.
        [mt_noise_batch_fixed]: the CURRENT code (since /repo e40f817): broadcast of data and likelihood batch;
        [mt_noise_batch]: up to /repo 0d5c998 the task-noise operator (batch sp) was EXPANDED to the data batch sd
        with Tensor.expand, which succeeds iff [expands_to sp sd] (None = raises; finding
        C08-multitask-likelihood-param-batch, fixed).
      ConstantKernel.forward (gpytorch/kernels/constant_kernel.py:112-123) still expands its constant (batch sp) to
      the inputs' batch sd: [mt_noise_batch] is also the model of THAT call (finding C08-constant-kernel-param-batch). *)
From Coq Require Import Arith List Bool ZArith.
Import ListNotations.
From GPV Require Import Models.C08_shape.

Definition last_two_are (s : shape) (n : nat) : bool :=
  match rev s with
  | a :: b :: _ => Nat.eqb a n && Nat.eqb b n
  | _ => false
  end.

Definition takes_diagonal (res x : shape) (n : nat) : bool :=
  Nat.eqb (length res) (length x) && last_two_are res n.

Definition takes_diagonal_fixed (res t : shape) (n : nat) : bool :=
  Nat.eqb (length res) (length t + 2) && last_two_are res n.

(* shape of kernel(x, diag=True) as Kernel.__call__ returns it, given what forward returned *)
Definition call_diag_shape (res x : shape) (n : nat) : shape :=
  if takes_diagonal res x n then removelast res else res.
Definition call_diag_shape_fixed (res t : shape) (n : nat) : shape :=
  if takes_diagonal_fixed res t n then removelast res else res.

(* Tensor.expand to [target] on a tensor of shape s: right-aligned, only size-1 dimensions stretch,
   the target may have more (leading) dimensions but not fewer *)
Fixpoint expand_rev (s target : list nat) : bool :=
  match s, target with
  | [], _ => true
  | _ :: _, [] => false
  | x :: s', y :: t' => (Nat.eqb x y || Nat.eqb x 1) && expand_rev s' t'
  end.
Definition expands_to (s target : shape) : bool := expand_rev (rev s) (rev target).

Definition mt_noise_batch (sp sd : shape) : option shape :=
  if expands_to sp sd then Some sd else None.
Definition mt_noise_batch_fixed (sp sd : shape) : option shape := broadcast_shapes sd sp.
(* ConstantKernel.forward: batch shape of the result (None = Tensor.expand raises) *)
Definition constant_kernel_batch (sp sd : shape) : option shape := mt_noise_batch sp sd.

(* ---- executable wrapper: run_shapes extended by the two input-class bits the driver uses to key
   the recorded findings: [diag collision for n points; likelihood batch expands to data batch] *)
Definition b2z (b : bool) : Z := if b then 1%Z else 0%Z.
Definition run_shapes_cls (c : nat * (list nat * list nat)) : list Z :=
  let '(n, (sp, sd)) := c in
  run_shapes (sp, sd) ++
  match broadcast_shapes sp sd with
  | None => []
  | Some t => [b2z (takes_diagonal (t ++ [n]) (sd ++ [n; 2]) n); b2z (expands_to sp sd)]
  end.
